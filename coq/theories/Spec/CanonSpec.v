(* Spec/CanonSpec.v -- vocabulary for stating the structural canonicalization theorems
   (C09/C10): predicates over every object / every number inside a value, the "only the
   numbers were respelt" map, and the two sortedness notions.  Definitions only. *)
From JsonSyntax Require Import Base.Prelude Base.Value Base.Unicode Model.Compare Model.Canon
  Spec.Jcs Spec.EcmaNumber.
From Coq Require Import Sorting.Sorted.

(* [P] holds of the entry list of every object occurring in [v], at any depth *)
Fixpoint each_obj (P : list entry -> Prop) (v : value) : Prop :=
  match v with
  | VArr l => fold_right (fun x acc => each_obj P x /\ acc) True l
  | VObj es => P es /\ fold_right (fun (e : list N * value) acc => each_obj P (snd e) /\ acc) True es
  | _ => True
  end.

(* [P] holds of the spelling of every number occurring in [v], at any depth *)
Fixpoint each_num (P : list N -> Prop) (v : value) : Prop :=
  match v with
  | VNum n => P n
  | VArr l => fold_right (fun x acc => each_num P x /\ acc) True l
  | VObj es => fold_right (fun (e : list N * value) acc => each_num P (snd e) /\ acc) True es
  | _ => True
  end.

(* the key of an entry is a sequence of Unicode scalar values (always true of a Rust String) *)
Definition scalar_key (e : entry) : Prop := Forall (fun c => is_scalar c = true) (fst e).
(* every member name in [v] is a sequence of scalar values *)
Definition keys_scalar (v : value) : Prop := each_obj (Forall scalar_key) v.

(* the number conversion of the implementation agrees with the RFC 8785 rendering on every
   number of [v] (in particular every number of [v] is in the I-JSON range) *)
Definition nums_ok (num_canon : list N -> list N) (v : value) : Prop :=
  each_num (fun n => canon_number n = Some (num_canon n)) v.

(* replace every number spelling [n] by [f n]; nothing else changes *)
Fixpoint map_numbers (f : list N -> list N) (v : value) : value :=
  match v with
  | VNum n => VNum (f n)
  | VArr l => VArr (map (map_numbers f) l)
  | VObj es => VObj (map (fun e : list N * value => (fst e, map_numbers f (snd e))) es)
  | other => other
  end.

(* non-decreasing for the comparator of Object::canonicalize_with *)
Definition canon_le (a b : entry) : Prop := canon_entry_cmp a b <> Gt.
Definition entries_sorted (es : list entry) : Prop := StronglySorted canon_le es.
(* member names strictly increasing as UTF-16 code unit sequences (RFC 8785 section 3.2.3) *)
Definition keys_increasing (es : list entry) : Prop :=
  StronglySorted (fun a b : entry => key_lt (fst a) (fst b) = true) es.

(* the reference instance of the number conversion (what ocaml/fam_canon.ml plugs in):
   the RFC 8785 rendering when it exists *)
Definition ref_num_canon (n : list N) : list N :=
  match canon_number n with Some t => t | None => n end.
