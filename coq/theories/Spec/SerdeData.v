(* Spec/SerdeData.v -- the part of the serde data model that `impl Serialize for Value`
   (src/serde/ser.rs:8-48, json-number src/serde.rs:13-33) emits and that Value's
   `Deserialize` visitor (src/serde/de.rs:46-196) accepts: unit, bool, i64, u64, f64, str,
   seq, map with string keys, and the one-field struct named with serde_json's private
   token that carries an arbitrary-precision number as a string.  [SFail] stands for the
   event source giving up: a Serialize impl returning Err(S::Error::custom(..)), or a
   Deserializer front end reporting an error at that point.  f64 values are SpecFloat's. *)
From Coq Require Import SpecFloat.
From JsonSyntax Require Import Base.Prelude.

Inductive sd : Type :=
| SUnit
| SBool (b : bool)
| SI64 (z : Z)
| SU64 (z : Z)
| SF64 (x : spec_float)
| SStr (s : list N)
| SSeq (l : list sd)
| SMap (l : list (list N * sd))
| SNumStruct (s : list N)
| SFail.

(* "$serde_json::private::Number" (src/serde/mod.rs:10, json-number src/serde.rs:11) *)
Definition number_token : list N := s2l "$serde_json::private::Number".
