(* Spec/EcmaNumber.v -- the number part of RFC 8785: a JSON number spelling is read as an
   exact decimal, rounded to the nearest binary64 (ties to even), and rendered by the
   ECMAScript Number::toString algorithm (ECMA-262 6.1.6.1.20): the least number of
   digits k and digits s closest to the value such that s * 10^(n-k) rounds back to the
   same double; then the four layout cases around 1e21 and 1e-6.  Executable. *)
From Coq Require Import ZArith NArith List Bool SpecFloat.
From JsonSyntax Require Import Base.Float64.
Import ListNotations.
Local Open Scope Z_scope.

(* ---- reading a JSON number spelling: (negative, mantissa, decimal exponent) ---- *)
Definition is_dig (c : N) : bool := (N.leb 0x30 c) && (N.leb c 0x39).
Definition dig_val (c : N) : Z := Z.of_N c - 48.

(* digits at the head of l: (value accumulated onto acc, count, rest) *)
Fixpoint read_digits (l : list N) (acc : Z) (cnt : Z) : Z * Z * list N :=
  match l with
  | c :: r => if is_dig c then read_digits r (acc * 10 + dig_val c) (cnt + 1) else (acc, cnt, l)
  | [] => (acc, cnt, l)
  end.

Record decimal := { d_neg : bool; d_mant : Z; d_exp : Z }.

(* None if the spelling is not of the form -? digits (. digits)? ([eE] [+-]? digits)? *)
Definition read_decimal (n : list N) : option decimal :=
  let '(neg, l0) := match n with 0x2D%N :: r => (true, r) | _ => (false, n) end in
  let '(ip, ic, l1) := read_digits l0 0 0 in
  if ic =? 0 then None else
  let '(m, fc, l2) :=
    match l1 with
    | 0x2E%N :: r => let '(m, c, l) := read_digits r ip 0 in (m, c, l)
    | _ => (ip, 0, l1)
    end in
  match l2 with
  | [] => Some {| d_neg := neg; d_mant := m; d_exp := - fc |}
  | e :: r =>
      if (N.eqb e 0x65 || N.eqb e 0x45)%bool then
        let '(eneg, l3) := match r with
                           | 0x2D%N :: r' => (true, r')
                           | 0x2B%N :: r' => (false, r')
                           | _ => (false, r)
                           end in
        let '(ev, ec, l4) := read_digits l3 0 0 in
        match l4 with
        | [] => if ec =? 0 then None
                else Some {| d_neg := neg; d_mant := m; d_exp := (if eneg then - ev else ev) - fc |}
        | _ => None
        end
      else None
  end.

Definition nearest_double (d : decimal) : spec_float :=
  match d_mant d with
  | Zpos m => let x := nearest_double_pos m (d_exp d) in if d_neg d then sf_neg x else x
  | _ => S754_zero (d_neg d)
  end.

(* ---- Number::toString ---- *)
Definition scale2 (e : Z) : Z * Z := if 0 <=? e then (2 ^ e, 1) else (1, 2 ^ (- e)).
Definition scale10 (e : Z) : Z * Z := if 0 <=? e then (10 ^ e, 1) else (1, 10 ^ (- e)).

(* n with 10^(n-1) <= num/den < 10^n *)
Fixpoint find_n (fuel : nat) (num den n : Z) : Z :=
  match fuel with
  | O => n
  | S f =>
      let '(pn, pd) := scale10 n in
      let '(qn, qd) := scale10 (n - 1) in
      if num * pd >=? pn * den then find_n f num den (n + 1)
      else if num * qd <? qn * den then find_n f num den (n - 1)
      else n
  end.

(* |s * 10^x - num/den| as a fraction *)
Definition dist (s x num den : Z) : Z * Z :=
  let '(pn, pd) := scale10 x in (Z.abs (s * pn * den - num * pd), den * pd).
Definition dist_lt (a b : Z * Z) : bool := fst a * snd b <? fst b * snd a.
Definition dist_eq (a b : Z * Z) : bool := fst a * snd b =? fst b * snd a.

(* the two k-digit candidates around v / 10^(n-k) *)
Definition cands (num den n k : Z) : list (Z * Z) :=
  let x := n - k in
  let '(pn, pd) := scale10 x in
  let fl := (num * pd) / (den * pn) in
  let norm s := if s =? 10 ^ k then (10 ^ (k - 1), n + 1) else (s, n) in
  [norm fl; norm (fl + 1)].

Definition best (d : spec_float) (num den k : Z) (cs : list (Z * Z)) : option (Z * Z) :=
  fold_left (fun acc c =>
    let '(s, n') := c in
    if (10 ^ (k - 1) <=? s) && (s <? 10 ^ k)
       && sf_eqb (nearest_double_pos (Z.to_pos s) (n' - k)) d then
      match acc with
      | None => Some c
      | Some (s0, n0) =>
          let d0 := dist s0 (n0 - k) num den in
          let d1 := dist s (n' - k) num den in
          if dist_lt d1 d0 then Some c else if dist_eq d1 d0 && Z.even s then Some c else acc
      end
    else acc) cs None.

Fixpoint search (fuel : nat) (d : spec_float) (num den n k : Z) : option (Z * Z * Z) :=
  match fuel with
  | O => None
  | S f => match best d num den k (cands num den n k) with
           | Some (s, n') => Some (n', k, s)
           | None => search f d num den n (k + 1)
           end
  end.

(* (n, k, s) of a positive finite double m * 2^e; None if no k <= 17 works (never observed;
   reported, not papered over) *)
Definition nks (m : positive) (e : Z) : option (Z * Z * Z) :=
  let '(sn, sd) := scale2 e in
  let num := Zpos m * sn in
  let den := sd in
  let n := find_n 700 num den ((Z.log2 num - Z.log2 den) * 30103 / 100000 + 1) in
  search 17 (S754_finite false m e) num den n 1.

Fixpoint digits_of (fuel : nat) (s : Z) (acc : list N) : list N :=
  match fuel with
  | O => acc
  | S f => if s <? 10 then Z.to_N (s + 48) :: acc
           else digits_of f (s / 10) (Z.to_N (s mod 10 + 48) :: acc)
  end.
Definition dec_digits (s : Z) : list N := digits_of (Z.to_nat (Z.log2 s) + 2) s [].

Fixpoint zeros (n : nat) : list N := match n with O => [] | S k => 0x30%N :: zeros k end.

Definition layout_nks (n k s : Z) : list N :=
  let ds := dec_digits s in
  if (k <=? n) && (n <=? 21) then ds ++ zeros (Z.to_nat (n - k))
  else if (0 <? n) && (n <=? 21) then
    firstn (Z.to_nat n) ds ++ [0x2E%N] ++ skipn (Z.to_nat n) ds
  else if (-6 <? n) && (n <=? 0) then
    [0x30%N; 0x2E%N] ++ zeros (Z.to_nat (- n)) ++ ds
  else
    let e := n - 1 in
    let etxt := (if 0 <=? e then [0x2B%N] else [0x2D%N]) ++ dec_digits (Z.abs e) in
    match ds with
    | [d] => [d] ++ [0x65%N] ++ etxt
    | d :: r => [d; 0x2E%N] ++ r ++ [0x65%N] ++ etxt
    | [] => []
    end.

Definition ecma_to_string (x : spec_float) : option (list N) :=
  match x with
  | S754_zero _ => Some [0x30%N]
  | S754_finite s m e =>
      match nks m e with
      | Some (n, k, d) => Some ((if s then [0x2D%N] else []) ++ layout_nks n k d)
      | None => None
      end
  | _ => None                          (* non-finite: outside I-JSON *)
  end.

(* RFC 8785 rendering of a JSON number spelling *)
Definition canon_number (n : list N) : option (list N) :=
  match read_decimal n with
  | Some d => ecma_to_string (nearest_double d)
  | None => None
  end.
