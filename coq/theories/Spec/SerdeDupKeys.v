(* Spec/SerdeDupKeys.v -- C16: a JSON object whose keys repeat, handed to from_value.
   [drop_earlier es] is the object with, for every key, all occurrences but the LAST removed
   (the entries that are kept stay in their order).  Definitions only; executable. *)
From JsonSyntax Require Import Base.Prelude Base.Value Spec.SerdeTyped.

Fixpoint drop_earlier (es : list entry) : list entry :=
  match es with
  | [] => []
  | e :: r => if mem_str (fst e) (map fst r) then drop_earlier r else e :: drop_earlier r
  end.

(* some key occurs twice *)
Definition has_repeated_key (es : list entry) : bool := negb (nodup_str (map fst es)).
