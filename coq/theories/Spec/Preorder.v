(* Spec/Preorder.v -- the pre-order enumeration of the fragments of a value, written
   recursively (no stack), the subtree volumes aligned with it, what it means for a code
   map to be laid out like a value ("shaped"), and where the items of an array / the
   entries of an object sit inside the enumeration.
   This is the reference for Model/CodeMapNav.v (Proofs/NavProofs.v).  No proofs here. *)
From JsonSyntax Require Import Base.Prelude Base.Source Base.Value Model.CodeMapNav.

Open Scope nat_scope.

(* FValue v first; then, for an array, the pre-orders of the items in order; for an
   object, per entry in order: the entry, its key, then the pre-order of its value. *)
Fixpoint preorder (v : value) : list fragment :=
  FValue v ::
  match v with
  | VArr l => flat_map preorder l
  | VObj l => flat_map (fun e => FEntry (fst e) (snd e) :: FKey (fst e) :: preorder (snd e)) l
  | _ => []
  end.

(* the pre-order of an arbitrary fragment *)
Definition frag_preorder (f : fragment) : list fragment :=
  match f with
  | FValue v => preorder v
  | FEntry k x => FEntry k x :: FKey k :: preorder x
  | FKey k => [FKey k]
  end.

(* the number of fragments of the subtree rooted at each fragment, in pre-order:
   value -> all its fragments; entry -> entry + key + value subtree; key -> 1 *)
Fixpoint volumes (v : value) : list nat :=
  length (preorder v) ::
  match v with
  | VArr l => flat_map volumes l
  | VObj l => flat_map (fun e => (2 + length (preorder (snd e))) :: 1 :: volumes (snd e)) l
  | _ => []
  end.

(* the code map agrees, from offset [off] on, with the volumes of v *)
Definition shaped (cm : list cme) (off : nat) (v : value) : Prop :=
  forall i, i < length (volumes v) -> volume_at cm (off + i) = nth_error (volumes v) i.

(* offset, relative to the array / the object, of the j-th item / the j-th entry *)
Definition item_offset (items : list value) (j : nat) : nat :=
  1 + list_sum (map (fun x => length (preorder x)) (firstn j items)).
Definition entry_offset (es : list entry) (j : nat) : nat :=
  1 + list_sum (map (fun e => 2 + length (preorder (snd e))) (firstn j es)).

(* what the mapped iterators yield for a container located at offset [off] *)
Definition mapped_items (off : nat) (items : list value) : list (nat * value) :=
  combine (map (fun j => off + item_offset items j) (seq 0 (length items))) items.

Definition mapped_entry_at (off : nat) (es : list entry) (j : nat) (e : entry) : mapped_entry :=
  {| me_offset := off + entry_offset es j;
     me_key_offset := off + entry_offset es j + 1;
     me_value_offset := off + entry_offset es j + 2;
     me_entry := e |}.

Definition mapped_entries (off : nat) (es : list entry) : list mapped_entry :=
  map (fun p => mapped_entry_at off es (fst p) (snd p)) (combine (seq 0 (length es)) es).

(* keyed lookups: the mapped entries at the index positions [is], in that order *)
Definition lookup_mapped (off : nat) (es : list entry) (is : list nat) : list (nat * mapped_entry) :=
  flat_map (fun j => match nth_error es j with
                     | Some e => [(j, mapped_entry_at off es j e)]
                     | None => []
                     end) is.

(* ---- TryFromJson: which fragments make a conversion to type t fail ---- *)
(* [offends t v i e]: fragment i of the pre-order of v is a value whose kind is not the kind
   e that the descriptor t demands at that position *)
Fixpoint offends (t : jty) (v : value) (i : nat) (e : kind) : Prop :=
  match t with
  | TUnit => i = 0 /\ e = KNull /\ kind_of v <> KNull
  | TBool => i = 0 /\ e = KBoolean /\ kind_of v <> KBoolean
  | TString => i = 0 /\ e = KString /\ kind_of v <> KString
  | TNumber => i = 0 /\ e = KNumber /\ kind_of v <> KNumber
  | TOption t' => kind_of v <> KNull /\ offends t' v i e
  | TVec t' =>
      match v with
      | VArr items => exists j x i', nth_error items j = Some x /\ offends t' x i' e
                                     /\ i = item_offset items j + i'
      | _ => i = 0 /\ e = KArray
      end
  | TMap t' =>
      match v with
      | VObj es => exists j en i', nth_error es j = Some en /\ offends t' (snd en) i' e
                                   /\ i = entry_offset es j + 2 + i'
      | _ => i = 0 /\ e = KObject
      end
  end.
