(* Spec/Grammar.v -- RFC 8259 as an annotated grammar: which character sequences are
   JSON texts, which value each denotes, and which code map (one (start, end, volume)
   per fragment, in pre-order) it carries.  Nothing here mentions the parser.
   A source character is an [item] = (code point, byte length in the source). *)
From JsonSyntax Require Import Base.Prelude Base.Value Base.Unicode Base.Source.

Definition item := (N * N)%type.
Definition cps (t : list item) : list N := map fst t.
Definition blen (t : list item) : N := fold_right (fun i a => snd i + a) 0 t.
Definition shift (d : N) (m : list cme) : list cme :=
  map (fun e => match e with (a, b, v) => (a + d, b + d, v) end) m.
Definition vol (m : list cme) : N := N.of_nat (length m).

(* ---------- characters ---------- *)
Definition ws_char (c : N) : bool := (c =? 0x20) || (c =? 0x09) || (c =? 0x0A) || (c =? 0x0D).
Definition ws (t : list item) : Prop := Forall (fun i => ws_char (fst i) = true) t.
Definition digit (c : N) : bool := (0x30 <=? c) && (c <=? 0x39).
Definition onenine (c : N) : bool := (0x31 <=? c) && (c <=? 0x39).
Definition hexdig (c : N) : option N :=
  if digit c then Some (c - 0x30)
  else if (0x41 <=? c) && (c <=? 0x46) then Some (c - 0x41 + 10)
  else if (0x61 <=? c) && (c <=? 0x66) then Some (c - 0x61 + 10)
  else None.
(* unescaped = %x20-21 / %x23-5B / %x5D-10FFFF *)
Definition unescaped (c : N) : bool :=
  (0x20 <=? c) && negb (c =? 0x22) && negb (c =? 0x5C) && (c <=? 0x10FFFF).

(* ---------- numbers: RFC 8259 section 6 ---------- *)
Definition digits1 (d : list N) : Prop := d <> [] /\ Forall (fun c => digit c = true) d.
Definition jint (i : list N) : Prop :=
  i = [0x30] \/ exists d ds, onenine d = true /\ Forall (fun c => digit c = true) ds /\ i = d :: ds.
Definition jfrac (f : list N) : Prop := f = [] \/ exists ds, digits1 ds /\ f = 0x2E :: ds.
Definition jexp (e : list N) : Prop :=
  e = [] \/ exists E s ds, (E = 0x65 \/ E = 0x45) /\ (s = [] \/ s = [0x2B] \/ s = [0x2D]) /\
                           digits1 ds /\ e = E :: s ++ ds.
Definition jnum (n : list N) : Prop :=
  exists m i f e, (m = [] \/ m = [0x2D]) /\ jint i /\ jfrac f /\ jexp e /\ n = m ++ i ++ f ++ e.

(* ---------- strings: RFC 8259 section 7 ---------- *)
(* a string body is a sequence of elements; \uXXXX escapes are UTF-16 code units *)
Inductive selem := Raw (c : N) | Esc (c : N) | U16 (u : N).
Definition esc_table : list (N * N) :=
  [(0x22, 0x22); (0x5C, 0x5C); (0x2F, 0x2F); (0x62, 0x08); (0x66, 0x0C); (0x6E, 0x0A); (0x72, 0x0D); (0x74, 0x09)].
Inductive elem_src : list N -> selem -> Prop :=
| es_raw c : unescaped c = true -> elem_src [c] (Raw c)
| es_esc l d : In (l, d) esc_table -> elem_src [0x5C; l] (Esc d)
| es_u h3 h2 h1 h0 d3 d2 d1 d0 :
    hexdig h3 = Some d3 -> hexdig h2 = Some d2 -> hexdig h1 = Some d1 -> hexdig h0 = Some d0 ->
    elem_src [0x5C; 0x75; h3; h2; h1; h0] (U16 (d3 * 4096 + d2 * 256 + d1 * 16 + d0)).

(* UTF-16 decoding of the element sequence.  A high unit immediately followed by a low
   unit is one scalar.  An unpaired high unit is admitted only with [trunc] and a lone
   low unit only with [inval]; each then denotes exactly one U+FFFD. *)
Fixpoint decode (o : opts) (l : list selem) : option (list N) :=
  let cons c r := match r with Some s => Some (c :: s) | None => None end in
  match l with
  | [] => Some []
  | Raw c :: r => cons c (decode o r)
  | Esc c :: r => cons c (decode o r)
  | U16 u :: r =>
      if is_high u then
        match r with
        | U16 l :: r' =>
            if is_low l then cons (0x10000 + (u - 0xD800) * 0x400 + (l - 0xDC00)) (decode o r')
            else if trunc o then cons 0xFFFD (decode o r) else None
        | _ => if trunc o then cons 0xFFFD (decode o r) else None
        end
      else if is_low u then (if inval o then cons 0xFFFD (decode o r) else None)
      else cons u (decode o r)
  end.

Definition jstr (o : opts) (t : list N) (s : list N) : Prop :=
  exists srcs els, Forall2 elem_src srcs els /\ t = 0x22 :: concat srcs ++ [0x22] /\ decode o els = Some s.

(* ---------- values, with denotation and code map ----------
   Spans are relative to the first character of the construct; children are shifted.
   volume = 1 + number of fragments below; an entry has its key and its value below it. *)
Inductive jv (o : opts) : list item -> value -> list cme -> Prop :=
| jv_null t : cps t = [0x6E; 0x75; 0x6C; 0x6C] -> jv o t VNull [(0, blen t, 1)]
| jv_true t : cps t = [0x74; 0x72; 0x75; 0x65] -> jv o t (VBool true) [(0, blen t, 1)]
| jv_false t : cps t = [0x66; 0x61; 0x6C; 0x73; 0x65] -> jv o t (VBool false) [(0, blen t, 1)]
| jv_num t : jnum (cps t) -> jv o t (VNum (cps t)) [(0, blen t, 1)]
| jv_str t s : jstr o (cps t) s -> jv o t (VStr s) [(0, blen t, 1)]
| jv_arr0 lb w rb : fst lb = 0x5B -> fst rb = 0x5D -> ws w ->
    jv o (lb :: w ++ [rb]) (VArr []) [(0, blen (lb :: w ++ [rb]), 1)]
| jv_arr lb t rb vs m : fst lb = 0x5B -> fst rb = 0x5D -> jitems o t vs m ->
    jv o (lb :: t ++ [rb]) (VArr vs) ((0, blen (lb :: t ++ [rb]), 1 + vol m) :: shift (snd lb) m)
| jv_obj0 lb w rb : fst lb = 0x7B -> fst rb = 0x7D -> ws w ->
    jv o (lb :: w ++ [rb]) (VObj []) [(0, blen (lb :: w ++ [rb]), 1)]
| jv_obj lb t rb es m : fst lb = 0x7B -> fst rb = 0x7D -> jmembers o t es m ->
    jv o (lb :: t ++ [rb]) (VObj es) ((0, blen (lb :: t ++ [rb]), 1 + vol m) :: shift (snd lb) m)
(* ws value ws *( "," ws value ws ) *)
with jitems (o : opts) : list item -> list value -> list cme -> Prop :=
| ji_one w1 t w2 v m : ws w1 -> ws w2 -> jv o t v m ->
    jitems o (w1 ++ t ++ w2) [v] (shift (blen w1) m)
| ji_cons w1 t w2 comma r v m vs ms : ws w1 -> ws w2 -> fst comma = 0x2C -> jv o t v m -> jitems o r vs ms ->
    jitems o (w1 ++ t ++ w2 ++ comma :: r) (v :: vs)
           (shift (blen w1) m ++ shift (blen (w1 ++ t ++ w2) + snd comma) ms)
with jmembers (o : opts) : list item -> list (list N * value) -> list cme -> Prop :=
| jm_one pre e post k v m : ws pre -> ws post -> jentry o e k v m ->
    jmembers o (pre ++ e ++ post) [(k, v)] (shift (blen pre) m)
| jm_cons pre e post comma r k v m es ms : ws pre -> ws post -> fst comma = 0x2C -> jentry o e k v m -> jmembers o r es ms ->
    jmembers o (pre ++ e ++ post ++ comma :: r) ((k, v) :: es)
             (shift (blen pre) m ++ shift (blen (pre ++ e ++ post) + snd comma) ms)
(* string ws ":" ws value : the entry fragment, then the key fragment, then the value's *)
with jentry (o : opts) : list item -> list N -> value -> list cme -> Prop :=
| je kt w1 colon w2 vt k v m : jstr o (cps kt) k -> ws w1 -> ws w2 -> fst colon = 0x3A -> jv o vt v m ->
    jentry o (kt ++ w1 ++ colon :: w2 ++ vt) k v
           ((0, blen (kt ++ w1 ++ colon :: w2 ++ vt), 2 + vol m) :: (0, blen kt, 1)
              :: shift (blen (kt ++ w1) + snd colon + blen w2) m).

Scheme jv_mut := Induction for jv Sort Prop
  with jitems_mut := Induction for jitems Sort Prop
  with jmembers_mut := Induction for jmembers Sort Prop
  with jentry_mut := Induction for jentry Sort Prop.
Combined Scheme jv_mutind from jv_mut, jitems_mut, jmembers_mut, jentry_mut.

(* JSON-text = ws value ws *)
Definition jtext (o : opts) (s : list item) (v : value) (m : list cme) : Prop :=
  exists pre mid post m0, s = pre ++ mid ++ post /\ ws pre /\ ws post /\ jv o mid v m0 /\ m = shift (blen pre) m0.

(* the items of an error-free stream *)
Fixpoint items_of (s : list sitem) : list item :=
  match s with
  | [] => []
  | SOk c len :: r => (c, len) :: items_of r
  | SErr :: r => items_of r
  end.

(* strict acceptance of a text given as scalar values *)
Definition text_items (cs : list N) : list item := map (fun c => (c, utf8_len c)) cs.
Definition Strict (cs : list N) : Prop := exists v m, jtext strict (text_items cs) v m.

(* the pure ABNF: any \uXXXX is syntactically allowed *)
Definition abnf_text (cs : list N) : Prop := exists v m, jtext flexible (text_items cs) v m.
Definition viable (p : list N) : Prop := exists t, abnf_text (p ++ t).

(* sanity: code map of   { "a": 0 }  preceded by one space (shape of the suite's code_map_t1) *)
Definition ch (c : N) : item := (c, 1).
Definition str (l : list N) : list item := map ch l.
Lemma jv_eq o t v m m' : jv o t v m' -> m' = m -> jv o t v m.
Proof. intros H E; subst; exact H. Qed.
Lemma jm_eq o t v m m' : jmembers o t v m' -> m' = m -> jmembers o t v m.
Proof. intros H E; subst; exact H. Qed.
Lemma je_eq o t k v m m' : jentry o t k v m' -> m' = m -> jentry o t k v m.
Proof. intros H E; subst; exact H. Qed.
Ltac wsgoal := match goal with |- ws _ => repeat constructor end.
Example grammar_example :
  jtext strict (str [0x20; 0x7B; 0x20; 0x22; 0x61; 0x22; 0x3A; 0x20; 0x30; 0x20; 0x7D])
        (VObj [([0x61], VNum [0x30])]) [(1, 11, 4); (3, 9, 3); (3, 6, 1); (8, 9, 1)].
Proof.
  exists (str [0x20]), (str [0x7B; 0x20; 0x22; 0x61; 0x22; 0x3A; 0x20; 0x30; 0x20; 0x7D]), [],
         [(0, 10, 4); (2, 8, 3); (2, 5, 1); (7, 8, 1)].
  split; [reflexivity|]. split; [wsgoal|]. split; [wsgoal|]. split; [|reflexivity].
  eapply jv_eq.
  { apply (jv_obj strict (ch 0x7B) (str [0x20; 0x22; 0x61; 0x22; 0x3A; 0x20; 0x30; 0x20]) (ch 0x7D));
      [reflexivity|reflexivity|].
    eapply jm_eq.
    { apply (jm_one strict (str [0x20]) (str [0x22; 0x61; 0x22; 0x3A; 0x20; 0x30]) (str [0x20])); [wsgoal|wsgoal|].
      eapply je_eq.
      { apply (je strict (str [0x22; 0x61; 0x22]) [] (ch 0x3A) (str [0x20]) (str [0x30])); [|wsgoal|wsgoal|reflexivity|].
        - exists [[0x61]], [Raw 0x61]. split; [repeat constructor|]. split; reflexivity.
        - apply (jv_num strict (str [0x30])). exists [], [0x30], [], [].
          split; [left; reflexivity|]. split; [left; reflexivity|]. split; [left; reflexivity|].
          split; [left; reflexivity|reflexivity]. }
      reflexivity. }
    reflexivity. }
  vm_compute. reflexivity.
Qed.
