(* Base/ConstSyntax.v -- the neutral data in which lib/const_translate.py prints the constant
   tables and character classes it reads off the Rust source (Generated/Consts.v), and the
   functions with which Proofs/ConstsTie.v computes the same data from the model's own functions.
   Definitions only; nothing here mentions a model.

   A character class is evaluated on a fixed list of code points ([char_domain]: every code point
   below U+0300, then boundary points up to U+10FFFF -- the images of the interesting ASCII
   characters under truncation to 8 and 16 bits are among them) and written as the maximal runs of
   domain points on which it holds ([set_of]); a function of a character is written as the list of
   domain points on which it differs from a default ([exceptions_of]). *)
From JsonSyntax Require Import Base.Prelude.
From Coq Require Import String.

(* structured constants: struct literals, enum constructors *)
Inductive cval :=
| CNum (n : N)
| CBool (b : bool)
| CStr (s : list N)
| CCtor (name : string) (args : list cval)
| CRec (name : string) (fields : list (string * cval)).

Fixpoint N_range_nat (lo : N) (n : nat) : list N :=
  match n with O => [] | S k => lo :: N_range_nat (N.succ lo) k end.
(* lo, lo+1, .., lo+len-1 *)
Definition N_range (lo len : N) : list N := N_range_nat lo (N.to_nat len).

(* scalar values on which a predicate / function of a `char` is evaluated (no surrogates) *)
Definition char_domain : list N :=
  N_range 0 0x300 ++
  [0x7FF; 0x800; 0xFFF; 0x1000; 0x1FFF; 0x2000; 0x2028; 0x2029; 0x205F; 0x3000; 0xD7FF; 0xE000;
   0xFEFF; 0xFFFD; 0xFFFE; 0xFFFF; 0x10000; 0x10009; 0x1000A; 0x1000D; 0x10020; 0x10022; 0x1005C;
   0x1007F; 0x100FF; 0x1FFFF; 0x20000; 0x10FFFE; 0x10FFFF].

(* 16-bit code units (the result of parse_hex4) on which the surrogate tests are evaluated:
   every unit from U+D700 to U+E0FF and the ends of the range *)
Definition unit_domain : list N :=
  [0; 1; 0x7F; 0xFF; 0x100] ++ N_range 0xD700 0xA00 ++ [0xFFFE; 0xFFFF].

(* every u8 *)
Definition byte_domain : list N := N_range 0 256.
(* the arguments of print::digit *)
Definition nibble_domain : list N := N_range 0 16.

(* strings on which string_literal / printed_string_size are evaluated as a whole, besides every
   one-character string over [char_domain]; in the last two the number of bytes of the UTF-8 form
   equals the number of characters of the literal without its quotes *)
Definition string_samples : list (list N) :=
  [[]; [0x61; 0x62]; [0x61; 0x0A; 0x22; 0x5C; 0x01; 0xE9; 0x1F600; 0x7F]; [0x1F; 0x20; 0x08; 0x0C; 0x0D; 0x09];
   [0xE9; 0x0A]; [0x1F600; 0x22; 0x5C; 0x0D]].

(* (high, low) pairs on which the surrogate-pair arithmetic is evaluated *)
Definition pair_domain : list (N * N) :=
  list_prod [0xD800; 0xD801; 0xD83D; 0xDABC; 0xDBFE; 0xDBFF] [0xDC00; 0xDC01; 0xDE00; 0xDEAD; 0xDFFE; 0xDFFF].

(* maximal runs of consecutive numbers of an increasing list *)
Fixpoint intervals_go (lo hi : N) (l : list N) : list (N * N) :=
  match l with
  | [] => [(lo, hi)]
  | x :: r => if x =? hi + 1 then intervals_go lo x r else (lo, hi) :: intervals_go x x r
  end.
Definition intervals_of (l : list N) : list (N * N) :=
  match l with [] => [] | x :: r => intervals_go x x r end.

Definition set_of (f : N -> bool) (dom : list N) : list (N * N) := intervals_of (filter f dom).

Definition table_of {A V} (f : A -> V) (dom : list A) : list (A * V) := map (fun c => (c, f c)) dom.

(* the points of [dom] at which [f] differs from [default], with the value of [f] *)
Definition exceptions_of {V} (eqb : V -> V -> bool) (f default : N -> V) (dom : list N) : list (N * V) :=
  filter (fun p => negb (eqb (snd p) (default (fst p)))) (table_of f dom).
