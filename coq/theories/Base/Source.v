(* Base/Source.v -- input streams, code-map entries, parser options: the vocabulary
   shared by the parser model and the grammar specification. *)
From JsonSyntax Require Import Base.Prelude.

Inductive sitem := SOk (c : N) (len : N) | SErr.       (* Result<DecodedChar, E> *)
Definition cme := (N * N * N)%type.                    (* span start, span end, volume *)

Record opts := { trunc : bool; inval : bool }.
  (* trunc = accept_truncated_surrogate_pair, inval = accept_invalid_codepoints *)
Definition strict := {| trunc := false; inval := false |}.
Definition flexible := {| trunc := true; inval := true |}.

Definition stream_ok (s : list sitem) : Prop := Forall (fun x => x <> SErr) s.
