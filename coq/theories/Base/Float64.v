(* Base/Float64.v -- binary64 as Coq's SpecFloat, and the correctly rounded
   decimal -> double conversion assembled from operations whose correctness Flocq
   proves (binary_round for non-negative decimal exponents, SFdiv_core_binary +
   binary_round_aux for negative ones).  Definitions only; executable. *)
From Coq Require Import ZArith List Bool SpecFloat.
From Flocq Require Import Core BinarySingleNaN.
Import ListNotations.
Local Open Scope Z_scope.

Definition prec64 : Z := 53.
Definition emax64 : Z := 1024.

(* number of decimal digits of a positive integer *)
Fixpoint digits10_fuel (fuel : nat) (m : Z) (acc : Z) : Z :=
  match fuel with
  | O => acc
  | S f => if m <? 10 then acc + 1 else digits10_fuel f (m / 10) (acc + 1)
  end.
Definition digits10 (m : Z) : Z := digits10_fuel (Z.to_nat (Z.log2 m) + 2) m 0.

(* nearest binary64 (ties to even) of m * 10^e10, m > 0.
   Magnitudes that certainly overflow (>= 10^309) or certainly round to zero
   (< 10^-325, below half the least subnormal) are answered directly so that absurd
   exponents do not force huge powers of ten. *)
Definition nearest_double_pos (m : positive) (e10 : Z) : spec_float :=
  let k := digits10 (Zpos m) in
  if 309 <=? k - 1 + e10 then S754_infinity false
  else if k + e10 <=? -325 then S754_zero false
  else if 0 <=? e10 then binary_round prec64 emax64 mode_NE false (m * Z.to_pos (10 ^ e10)) 0
  else let '(mz, ez, lz) := SFdiv_core_binary prec64 emax64 (Zpos m) 0 (10 ^ (- e10)) 0 in
       binary_round_aux prec64 emax64 mode_NE false mz ez lz.

Definition sf_neg (x : spec_float) : spec_float :=
  match x with
  | S754_zero s => S754_zero (negb s)
  | S754_infinity s => S754_infinity (negb s)
  | S754_finite s m e => S754_finite (negb s) m e
  | S754_nan => S754_nan
  end.

Definition sf_eqb (a b : spec_float) : bool :=
  match a, b with
  | S754_finite s1 m1 e1, S754_finite s2 m2 e2 => Bool.eqb s1 s2 && Pos.eqb m1 m2 && Z.eqb e1 e2
  | S754_zero s1, S754_zero s2 => Bool.eqb s1 s2
  | S754_infinity s1, S754_infinity s2 => Bool.eqb s1 s2
  | _, _ => false
  end.

Definition sf_is_finite (x : spec_float) : bool :=
  match x with S754_zero _ | S754_finite _ _ _ => true | _ => false end.

(* the IEEE-754 bit pattern, for comparison with f64::to_bits *)
Definition sf_bits (x : spec_float) : Z :=
  match x with
  | S754_zero s => if s then 2 ^ 63 else 0
  | S754_infinity s => (if s then 2 ^ 63 else 0) + 2047 * 2 ^ 52
  | S754_nan => 2047 * 2 ^ 52 + 2 ^ 51
  | S754_finite s m e =>
      (if s then 2 ^ 63 else 0) +
      (if Zpos m <? 2 ^ 52 then Zpos m                          (* subnormal: e = -1074 *)
       else (e + 1075) * 2 ^ 52 + (Zpos m - 2 ^ 52))
  end.

(* positive finite double from its bit pattern (canonical mantissa/exponent) *)
Definition sf_of_bits (b : Z) : spec_float :=
  let s := 2 ^ 63 <=? b in
  let b' := b mod 2 ^ 63 in
  let ex := b' / 2 ^ 52 in
  let fr := b' mod 2 ^ 52 in
  if ex =? 2047 then (if fr =? 0 then S754_infinity s else S754_nan)
  else if ex =? 0 then (if fr =? 0 then S754_zero s else S754_finite s (Z.to_pos fr) (-1074))
  else S754_finite s (Z.to_pos (fr + 2 ^ 52)) (ex - 1075).
