(* Base/Unicode.v -- scalar values, UTF-8 encoding and the decoder used for byte input.
   Definitions only (proofs in Proofs/Utf8Proofs.v).
   [utf8_decode] models what `core::str::from_utf8` + `str::chars` give: the scalar
   values of the longest well-formed prefix (Unicode Table 3-7) and whether the whole
   input was consumed.  Arithmetic is written with div/mod so that lia applies. *)
From JsonSyntax Require Import Base.Prelude.

Definition is_scalar (c : N) : bool :=
  (c <? 0xD800) || ((0xE000 <=? c) && (c <=? 0x10FFFF)).

Definition is_high (u : N) : bool := (0xD800 <=? u) && (u <=? 0xDBFF).
Definition is_low (u : N) : bool := (0xDC00 <=? u) && (u <=? 0xDFFF).
Definition is_surrogate (u : N) : bool := (0xD800 <=? u) && (u <=? 0xDFFF).

(* char::len_utf8 *)
Definition utf8_len (c : N) : N :=
  if c <? 0x80 then 1 else if c <? 0x800 then 2 else if c <? 0x10000 then 3 else 4.

(* char::len_utf16 *)
Definition utf16_len (c : N) : N := if c <? 0x10000 then 1 else 2.

Definition utf8_encode (c : N) : list N :=
  if c <? 0x80 then [c]
  else if c <? 0x800 then [0xC0 + c / 64; 0x80 + c mod 64]
  else if c <? 0x10000 then [0xE0 + c / 4096; 0x80 + (c / 64) mod 64; 0x80 + c mod 64]
  else [0xF0 + c / 262144; 0x80 + (c / 4096) mod 64; 0x80 + (c / 64) mod 64; 0x80 + c mod 64].

Definition utf8_encode_all (cs : list N) : list N := flat_map utf8_encode cs.

(* str::encode_utf16 of one scalar *)
Definition utf16_encode (c : N) : list N :=
  if c <? 0x10000 then [c]
  else [0xD800 + (c - 0x10000) / 1024; 0xDC00 + (c - 0x10000) mod 1024].

Definition utf16_units (cs : list N) : list N := flat_map utf16_encode cs.

Definition in_range (lo hi b : N) : bool := (lo <=? b) && (b <=? hi).
Definition is_cont (b : N) : bool := in_range 0x80 0xBF b.

(* One well-formed sequence at the head of [bs] (Table 3-7 of the Unicode standard):
   Some (scalar, remaining bytes) or None when the head is ill-formed or truncated. *)
Definition utf8_decode1 (bs : list N) : option (N * list N) :=
  match bs with
  | [] => None
  | a :: r =>
      if a <? 0x80 then Some (a, r)
      else if in_range 0xC2 0xDF a then
        match r with
        | b :: r1 => if is_cont b then Some ((a - 0xC0) * 64 + (b - 0x80), r1) else None
        | _ => None
        end
      else if in_range 0xE0 0xEF a then
        match r with
        | b :: c :: r2 =>
            if (if a =? 0xE0 then in_range 0xA0 0xBF b
                else if a =? 0xED then in_range 0x80 0x9F b
                else is_cont b) && is_cont c
            then Some ((a - 0xE0) * 4096 + (b - 0x80) * 64 + (c - 0x80), r2)
            else None
        | _ => None
        end
      else if in_range 0xF0 0xF4 a then
        match r with
        | b :: c :: d :: r3 =>
            if (if a =? 0xF0 then in_range 0x90 0xBF b
                else if a =? 0xF4 then in_range 0x80 0x8F b
                else is_cont b) && is_cont c && is_cont d
            then Some ((a - 0xF0) * 262144 + (b - 0x80) * 4096 + (c - 0x80) * 64 + (d - 0x80), r3)
            else None
        | _ => None
        end
      else None
  end.

(* fuel = number of bytes; every successful decode1 consumes at least one *)
Fixpoint utf8_decode_fuel (fuel : nat) (bs : list N) : list N * bool :=
  match bs with
  | [] => ([], true)
  | _ =>
      match fuel with
      | O => ([], false)
      | S f =>
          match utf8_decode1 bs with
          | Some (c, r) => let '(cs, ok) := utf8_decode_fuel f r in (c :: cs, ok)
          | None => ([], false)
          end
      end
  end.

Definition utf8_decode (bs : list N) : list N * bool := utf8_decode_fuel (length bs) bs.

Definition is_byte (b : N) : bool := b <? 256.
