(* Base/Value.v -- the JSON value model shared by every family.
   Strings and keys are lists of Unicode scalar values (N); numbers keep their
   source spelling (list of ASCII code points); objects are entry lists in order,
   duplicates allowed (the hash index is modelled separately in Model/Object.v). *)
From JsonSyntax Require Import Base.Prelude.

Inductive value : Type :=
| VNull
| VBool (b : bool)
| VNum (s : list N)
| VStr (s : list N)
| VArr (l : list value)
| VObj (l : list (list N * value)).

Definition key := list N.
Definition entry := (key * value)%type.

(* Nested induction principle. *)
Section ValueInd.
  Variable P : value -> Prop.
  Hypothesis Hnull : P VNull.
  Hypothesis Hbool : forall b, P (VBool b).
  Hypothesis Hnum : forall s, P (VNum s).
  Hypothesis Hstr : forall s, P (VStr s).
  Hypothesis Harr : forall l, Forall P l -> P (VArr l).
  Hypothesis Hobj : forall l, Forall (fun e => P (snd e)) l -> P (VObj l).

  Fixpoint value_ind' (v : value) : P v :=
    match v with
    | VNull => Hnull
    | VBool b => Hbool b
    | VNum s => Hnum s
    | VStr s => Hstr s
    | VArr l =>
        Harr l ((fix go (l : list value) : Forall P l :=
                   match l with
                   | [] => Forall_nil _
                   | x :: r => Forall_cons _ (value_ind' x) (go r)
                   end) l)
    | VObj l =>
        Hobj l ((fix go (l : list (list N * value)) : Forall (fun e => P (snd e)) l :=
                   match l with
                   | [] => Forall_nil _
                   | x :: r => Forall_cons _ (value_ind' (snd x)) (go r)
                   end) l)
    end.
End ValueInd.

(* Type-valued version, for definitions by nested recursion proofs are not needed;
   functions over [value] use the [fix ... with nested fix] pattern directly. *)

(* Size (number of constructors), handy as a measure. *)
Fixpoint vsize (v : value) : nat :=
  match v with
  | VArr l => S (fold_right (fun x a => vsize x + a)%nat O l)
  | VObj l => S (fold_right (fun e a => S (vsize (snd e)) + a)%nat O l)
  | _ => 1%nat
  end.

(* Decidable equality as a boolean function (structural). *)
Fixpoint value_eqb (a b : value) : bool :=
  match a, b with
  | VNull, VNull => true
  | VBool x, VBool y => Bool.eqb x y
  | VNum x, VNum y => str_eqb x y
  | VStr x, VStr y => str_eqb x y
  | VArr x, VArr y =>
      (fix go (x y : list value) : bool :=
         match x, y with
         | [], [] => true
         | p :: x', q :: y' => value_eqb p q && go x' y'
         | _, _ => false
         end) x y
  | VObj x, VObj y =>
      (fix go (x y : list (list N * value)) : bool :=
         match x, y with
         | [], [] => true
         | (k, p) :: x', (k', q) :: y' => str_eqb k k' && value_eqb p q && go x' y'
         | _, _ => false
         end) x y
  | _, _ => false
  end.

Lemma value_eqb_spec : forall a b, value_eqb a b = true <-> a = b.
Proof.
  induction a as [| b0 | s | s | l IH | l IH] using value_ind'; destruct b; cbn;
    try (split; congruence).
  - rewrite Bool.eqb_true_iff. split; congruence.
  - rewrite str_eqb_spec. split; congruence.
  - rewrite str_eqb_spec. split; congruence.
  - revert l0. induction IH as [|x l Hx _ IHl]; destruct l0 as [|y l0]; try (split; congruence).
    rewrite andb_true_iff, Hx. specialize (IHl l0).
    split.
    + intros [-> H]. apply IHl in H. congruence.
    + intros E. inversion E; subst. split; [reflexivity|]. apply IHl. reflexivity.
  - revert l0. induction IH as [|[k x] l Hx _ IHl]; destruct l0 as [|[k' y] l0]; try (split; congruence).
    cbn in Hx. rewrite !andb_true_iff, str_eqb_spec, Hx. specialize (IHl l0).
    split.
    + intros [[-> ->] H]. apply IHl in H. congruence.
    + intros E. inversion E; subst. repeat split. apply IHl. reflexivity.
Qed.

(* Kind tags, used by several families. *)
Inductive kind := KNull | KBoolean | KNumber | KString | KArray | KObject.

Definition kind_of (v : value) : kind :=
  match v with
  | VNull => KNull | VBool _ => KBoolean | VNum _ => KNumber
  | VStr _ => KString | VArr _ => KArray | VObj _ => KObject
  end.
