(* Base/Prelude.v -- common imports, outcome type, ASCII helpers.
   No axioms. stdlib only. *)
From Coq Require Export List NArith ZArith Bool Lia.
From Coq Require Import Ascii String.
Export String.StringSyntax.
From Coq Require Import ZifyBool ZifyN ZifyNat.
Export ListNotations.

Global Arguments N.add : simpl never.
Global Arguments N.sub : simpl never.
Global Arguments N.mul : simpl never.
Global Arguments N.eqb : simpl never.
Global Arguments N.ltb : simpl never.
Global Arguments N.leb : simpl never.
Global Arguments N.div : simpl never.
Global Arguments N.modulo : simpl never.

Open Scope N_scope.

(* Result of running a model function.  [Panic site] stands for a Rust panic
   (unwrap on None, index out of bounds, arithmetic underflow ...); [OutOfFuel]
   for a loop whose fuel was exhausted.  Theorems exclude both by proof. *)
Inductive outcome (E A : Type) : Type :=
| Ok (a : A)
| Err (e : E)
| Panic (site : N)
| OutOfFuel.
Arguments Ok {E A} a.
Arguments Err {E A} e.
Arguments Panic {E A} site.
Arguments OutOfFuel {E A}.

Definition obind {E A B} (x : outcome E A) (f : A -> outcome E B) : outcome E B :=
  match x with
  | Ok a => f a
  | Err e => Err e
  | Panic s => Panic s
  | OutOfFuel => OutOfFuel
  end.

(* ASCII string literal -> list of code points *)
Fixpoint s2l (s : string) : list N :=
  match s with
  | EmptyString => []
  | String a r => N_of_ascii a :: s2l r
  end.
Arguments s2l _%string.

Fixpoint list_eqb {A} (eqb : A -> A -> bool) (a b : list A) : bool :=
  match a, b with
  | [], [] => true
  | x :: a', y :: b' => eqb x y && list_eqb eqb a' b'
  | _, _ => false
  end.

Definition str_eqb := list_eqb N.eqb.

Lemma list_eqb_spec {A} (eqb : A -> A -> bool)
      (H : forall x y, eqb x y = true <-> x = y) :
  forall a b, list_eqb eqb a b = true <-> a = b.
Proof.
  induction a as [|x a IH]; destruct b as [|y b]; cbn; try (split; congruence).
  rewrite andb_true_iff, H, IH. split; [intros [-> ->]; reflexivity|].
  intros E; inversion E; auto.
Qed.

Lemma str_eqb_spec a b : str_eqb a b = true <-> a = b.
Proof. apply list_eqb_spec. intros; apply N.eqb_eq. Qed.

Lemma str_eqb_refl a : str_eqb a a = true.
Proof. apply str_eqb_spec; reflexivity. Qed.

Fixpoint repeatN {A} (x : A) (n : nat) : list A :=
  match n with O => [] | S k => x :: repeatN x k end.
