(* Proofs/ParserSpec.v -- the parser model meets the annotated RFC 8259 grammar:
   assembly of the three layers
     L1  machine_eq_rec      (Proofs/ParserL1.v)        machine = recursive-descent reference
     L2  rec_sound           (Proofs/ParserSound.v)     reference  => grammar
     L3  rec_complete        (Proofs/ParserComplete.v)  grammar    => reference
   plus the two facts about stream errors that the layers leave open:
     parse_ok_stream_ok          an accepted stream contains no stream error
     stream_ok_no_stream_error   an error-free stream never yields Error::Stream
   Both come from one invariant ([cpost]) proved function by function on the model. *)
From JsonSyntax Require Import Base.Prelude Base.Value Base.Unicode Base.Source
  Model.Parser Model.EntryPoints Spec.Grammar Spec.Utf8Spec
  Proofs.ParserRecDef Proofs.ParserL1 Proofs.ParserSafety Proofs.ParserSoundLex Proofs.ParserSound
  Proofs.ParserCompleteLex Proofs.ParserComplete Proofs.Utf8Proofs Proofs.RoundTrip.

Definition chars_ok (s : list sitem) : Prop := Forall (fun it => fst it <= 0x10FFFF) (items_of s).

(* ================= consumption invariant ================= *)
(* [eats st st'] : st' is reached from st by consuming error-free items only *)
Definition eats (st st' : pstate) : Prop := exists t : list item, rest st = map inj t ++ rest st'.

Lemma eats_refl st : eats st st.
Proof. exists []. reflexivity. Qed.

Lemma eats_same st st' : rest st' = rest st -> eats st st'.
Proof. intros E. exists []. rewrite E. reflexivity. Qed.

Lemma eats_trans a b c : eats a b -> eats b c -> eats a c.
Proof.
  intros [t1 H1] [t2 H2]. exists (t1 ++ t2). rewrite H1, H2, map_app, app_assoc. reflexivity.
Qed.

Lemma eats_bad a b : eats a b -> ~ stream_ok (rest b) -> ~ stream_ok (rest a).
Proof.
  intros [t H] Hb Ha. apply Hb. unfold stream_ok in *. rewrite H in Ha.
  apply Forall_app in Ha. apply Ha.
Qed.

Lemma serr_bad r : ~ stream_ok (SErr :: r).
Proof. intros H. inversion H as [|x l Hx _]; subst. apply Hx. reflexivity. Qed.

(* Ok: only error-free items were consumed.  Err Stream: the input contains a stream error. *)
Definition cpost {A} (st : pstate) (x : res A) : Prop :=
  match x with
  | Ok (_, st') => eats st st'
  | Err (EStream _) => ~ stream_ok (rest st)
  | _ => True
  end.

Lemma cpost_err {A} st (e : perr) :
  (forall p, e <> EStream p) -> cpost st (Err e : res A).
Proof. intros H. destruct e; cbn; try exact I. exfalso. eapply H. reflexivity. Qed.

Lemma cpost_pre {A} st st1 (x : res A) : eats st st1 -> cpost st1 x -> cpost st x.
Proof.
  intros E H. destruct x as [[a st2]|e|s|]; cbn in *; try exact I.
  - eapply eats_trans; eassumption.
  - destruct e; try exact I. eapply eats_bad; eassumption.
Qed.

Lemma cpost_bind {A B} st (x : res A) (f : A * pstate -> res B) :
  cpost st x -> (forall a st1, eats st st1 -> cpost st1 (f (a, st1))) -> cpost st (obind x f).
Proof.
  intros Hx Hf. destruct x as [[a st1]|e|s|]; cbn [obind]; try exact I.
  - cbn in Hx. eapply cpost_pre; [exact Hx|]. apply Hf. exact Hx.
  - exact Hx.
Qed.

Lemma cpost_ok {A} st (a : A) st' : eats st st' -> cpost st (Ok (a, st')).
Proof. intros H; exact H. Qed.

(* ---------- primitives ---------- *)
Lemma next_char_cpost st : cpost st (next_char st).
Proof.
  unfold next_char. destruct (rest st) as [|[c l|] r] eqn:E; cbn.
  - apply eats_refl.
  - exists [(c, l)]. cbn. exact E.
  - rewrite E. apply serr_bad.
Qed.

Lemma peek_bind_cpost {B} st (f : option N -> res B) :
  (forall oc, cpost st (f oc)) -> cpost st (obind (peek_char st) f).
Proof.
  intros Hf. unfold peek_char. destruct (rest st) as [|[c l|] r] eqn:E; cbn [obind]; try apply Hf.
  cbn. rewrite E. apply serr_bad.
Qed.

Lemma skip_ws_list_cpost l : forall p,
  match skip_ws_list l p with
  | Ok (l', _) => exists t : list item, l = map inj t ++ l'
  | Err (EStream _) => ~ stream_ok l
  | _ => True
  end.
Proof.
  induction l as [|[c len|] r IH]; intros p; cbn [skip_ws_list].
  - exists []. reflexivity.
  - destruct (is_ws c).
    + specialize (IH (p + len)). destruct (skip_ws_list r (p + len)) as [[l' p']|e|s|]; try exact I.
      * destruct IH as [t ->]. exists ((c, len) :: t). reflexivity.
      * destruct e; try exact I. intros H. apply IH. inversion H; assumption.
    + exists []. reflexivity.
  - apply serr_bad.
Qed.

Lemma skip_whitespaces_cpost st : cpost st (skip_whitespaces st).
Proof.
  unfold skip_whitespaces. pose proof (skip_ws_list_cpost (rest st) (pos st)) as H.
  destruct (skip_ws_list (rest st) (pos st)) as [[l p]|e|s|]; cbn; try exact I; exact H.
Qed.

Lemma end_fragment_cpost i st : cpost st (end_fragment i st).
Proof.
  unfold end_fragment. destruct (nth_error (cm st) (N.to_nat i)) as [[[s e] v]|]; [|exact I].
  destruct (N.of_nat (length (cm st)) <? i); [exact I|]. cbn. apply eats_same. reflexivity.
Qed.

(* begin_fragment leaves the input alone *)
Lemma begin_cpost {A} st (x : res A) : cpost (snd (begin_fragment st)) x -> cpost st x.
Proof. apply cpost_pre. apply eats_same. reflexivity. Qed.

Ltac cbind L := eapply cpost_bind; [apply L|].
Ltac cerr := apply cpost_err; intros ?; discriminate.

(* ---------- literals ---------- *)
Lemma expect_chars_cpost cs : forall st, cpost st (expect_chars cs st).
Proof.
  induction cs as [|c cs IH]; intros st; cbn [expect_chars].
  - apply eats_refl.
  - cbind next_char_cpost. intros [p oc] st1 _. destruct oc as [x|]; [|cerr].
    destruct (x =? c); [apply IH|cerr].
Qed.

Lemma parse_null_cpost st : cpost st (parse_null st).
Proof.
  unfold parse_null. apply begin_cpost. destruct (begin_fragment st) as [i st0]. cbn [snd].
  cbind expect_chars_cpost. intros u st1 _. cbind end_fragment_cpost. intros u2 st2 _.
  apply eats_refl.
Qed.

Lemma parse_bool_cpost st : cpost st (parse_bool st).
Proof.
  rewrite parse_bool_eq. apply begin_cpost. destruct (begin_fragment st) as [i st0]. cbn [snd].
  cbind next_char_cpost. intros [p oc] st1 _. destruct oc as [c|]; [|cerr].
  destruct (c =? 0x74).
  { cbind expect_chars_cpost. intros u st2 _. cbind end_fragment_cpost. intros u2 st3 _. apply eats_refl. }
  destruct (c =? 0x66); [|cerr].
  cbind expect_chars_cpost. intros u st2 _. cbind end_fragment_cpost. intros u2 st3 _. apply eats_refl.
Qed.

(* ---------- numbers ---------- *)
Lemma num_loop_cpost ctx l : forall s buf p,
  match num_loop ctx s buf l p with
  | Ok (_, _, l', _) => exists t : list item, l = map inj t ++ l'
  | Err (EStream _) => ~ stream_ok l
  | _ => True
  end.
Proof.
  induction l as [|[c len|] r IH]; intros s buf p; cbn [num_loop].
  - exists []. reflexivity.
  - destruct (num_trans ctx s c) as [s'| |].
    + specialize (IH s' (buf ++ [c]) (p + len)).
      destruct (num_loop ctx s' (buf ++ [c]) r (p + len)) as [[[[b s2] l'] p']|e|x|]; try exact I.
      * destruct IH as [t ->]. exists ((c, len) :: t). reflexivity.
      * destruct e; try exact I. intros H. apply IH. inversion H; assumption.
    + exists []. reflexivity.
    + exact I.
  - apply serr_bad.
Qed.

Lemma parse_number_cpost ctx st : cpost st (parse_number ctx st).
Proof.
  unfold parse_number. apply begin_cpost. destruct (begin_fragment st) as [i st0]. cbn [snd].
  pose proof (num_loop_cpost ctx (rest st0) NInit [] (pos st0)) as H.
  destruct (num_loop ctx NInit [] (rest st0) (pos st0)) as [[[[b s] l] p]|e|x|]; try exact I.
  - destruct (num_final s); [|cerr].
    eapply cpost_pre; [exact (H : eats st0 {| rest := l; pos := p; cm := cm st0 |})|].
    cbind end_fragment_cpost. intros u st2 _. apply eats_refl.
  - exact H.
Qed.

(* ---------- strings ---------- *)
Lemma hex_digit_cpost st : cpost st (hex_digit st).
Proof.
  unfold hex_digit. cbind next_char_cpost. intros [p oc] st1 _. destruct oc as [c|]; [|cerr].
  destruct (hexval c); [apply eats_refl|cerr].
Qed.

Lemma parse_hex4_cpost st : cpost st (parse_hex4 st).
Proof.
  unfold parse_hex4. cbind hex_digit_cpost. intros h3 st1 _. cbind hex_digit_cpost. intros h2 st2 _.
  cbind hex_digit_cpost. intros h1 st3 _. cbind hex_digit_cpost. intros h0 st4 _. apply eats_refl.
Qed.

Definition rec_c (rec : list N -> option (N * N) -> pstate -> res (list N * N)) : Prop :=
  forall acc high st, cpost st (rec acc high st).

Lemma push_plain_cpost o rec (Hrec : rec_c rec) acc high es c st :
  cpost st (ParserSafety.push_plain o rec acc high es c st).
Proof.
  unfold ParserSafety.push_plain. destruct high as [[ph hi]|]; [|apply Hrec].
  destruct (trunc o); [apply Hrec|]. unfold span_new. cerr.
Qed.

Lemma sl_quote_cpost o i acc high p st : cpost st (sl_quote o i acc high p st).
Proof.
  unfold sl_quote. destruct high as [[ph hi]|].
  - destruct (trunc o); [|unfold span_new; cerr].
    cbind end_fragment_cpost. intros u st2 _. apply eats_refl.
  - cbind end_fragment_cpost. intros u st2 _. apply eats_refl.
Qed.

Lemma cor_rec_cpost rec (Hrec : rec_c rec) o cp s e (k : N -> list N) hi st :
  cpost st (match char_or_replace o cp s e with
            | Ok c' => rec (k c') hi st
            | Err e => Err e
            | Panic y => Panic y
            | OutOfFuel => OutOfFuel
            end).
Proof.
  unfold char_or_replace. destruct (from_u32 cp); [apply Hrec|].
  destruct (inval o); [apply Hrec|exact I].
Qed.

Lemma sl_u_cpost o rec (Hrec : rec_c rec) acc high p2 st : cpost st (sl_u o rec acc high p2 st).
Proof.
  unfold sl_u. cbind parse_hex4_cpost. intros cp st3 _.
  destruct high as [[ph hi]|].
  - destruct (is_low cp).
    + destruct ((hi <? 0xD800) || (cp <? 0xDC00)); [exact I|].
      unfold span_new. apply (cor_rec_cpost rec Hrec o _ _ _ (fun c' => acc ++ [c'])).
    + destruct (trunc o); [|unfold span_new; cerr].
      destruct (is_high cp); [apply Hrec|].
      unfold span_new. apply (cor_rec_cpost rec Hrec o _ _ _ (fun c' => acc ++ [0xFFFD; c'])).
  - destruct (is_high cp); [apply Hrec|].
    unfold span_new. apply (cor_rec_cpost rec Hrec o _ _ _ (fun c' => acc ++ [c'])).
Qed.

Lemma sl_body_cpost o i rec (Hrec : rec_c rec) acc high st : cpost st (sl_body o i rec acc high st).
Proof.
  unfold sl_body. cbind next_char_cpost. intros [p oc] st1 _. destruct oc as [c|]; [|cerr].
  destruct (c =? 0x22); [apply sl_quote_cpost|].
  destruct (c =? 0x5C).
  - cbind next_char_cpost. intros [p2 oc2] st2 _. destruct oc2 as [c2|]; [|cerr].
    destruct (ParserSafety.esc_char c2) as [x|]; [apply push_plain_cpost; exact Hrec|].
    destruct (c2 =? 0x75); [apply sl_u_cpost; exact Hrec|cerr].
  - destruct (is_control c); [cerr|]. apply push_plain_cpost; exact Hrec.
Qed.

Lemma string_loop_cpost fuel o i : forall acc high st, cpost st (string_loop fuel o i acc high st).
Proof.
  induction fuel as [|fuel IH]; intros acc high st; [exact I|].
  rewrite ParserSafety.string_loop_eq. apply sl_body_cpost. exact IH.
Qed.

Lemma parse_string_cpost o st : cpost st (parse_string o st).
Proof.
  rewrite parse_string_eq. apply begin_cpost. destruct (begin_fragment st) as [i st0]. cbn [snd].
  cbind next_char_cpost. intros [p oc] st1 _. destruct oc as [c|]; [|cerr].
  destruct (c =? 0x22); [apply string_loop_cpost|cerr].
Qed.

(* ---------- arrays and objects ---------- *)
Lemma array_start_cpost st : cpost st (array_start st).
Proof.
  rewrite array_start_eq. apply begin_cpost. destruct (begin_fragment st) as [i st0]. cbn [snd].
  cbind next_char_cpost. intros [p oc] st1 _. destruct oc as [c|]; [|cerr].
  destruct (c =? 0x5B); [|cerr].
  cbind skip_whitespaces_cpost. intros u st2 _. apply peek_bind_cpost. intros oc2.
  destruct (match oc2 with Some c2 => c2 =? 0x5D | None => false end); [|apply eats_refl].
  cbind next_char_cpost. intros x st3 _. cbind end_fragment_cpost. intros u2 st4 _. apply eats_refl.
Qed.

Lemma array_continue_cpost i st : cpost st (array_continue i st).
Proof.
  rewrite array_continue_eq. cbind skip_whitespaces_cpost. intros u st1 _.
  cbind next_char_cpost. intros [p oc] st2 _. destruct oc as [c|]; [|cerr].
  destruct (c =? 0x2C); [apply eats_refl|]. destruct (c =? 0x5D); [|cerr].
  cbind end_fragment_cpost. intros u2 st3 _. apply eats_refl.
Qed.

Lemma object_key_cpost o st : cpost st (object_key o st).
Proof.
  rewrite object_key_eq. apply begin_cpost. destruct (begin_fragment st) as [e st0]. cbn [snd].
  cbind parse_string_cpost. intros [k j] st1 _. cbind skip_whitespaces_cpost. intros u st2 _.
  cbind next_char_cpost. intros [p oc] st3 _. destruct oc as [c|]; [|cerr].
  destruct (c =? 0x3A); [apply eats_refl|cerr].
Qed.

Lemma object_start_cpost o st : cpost st (object_start o st).
Proof.
  rewrite object_start_eq. apply begin_cpost. destruct (begin_fragment st) as [i st0]. cbn [snd].
  cbind next_char_cpost. intros [p oc] st1 _. destruct oc as [c|]; [|cerr].
  destruct (c =? 0x7B); [|cerr].
  cbind skip_whitespaces_cpost. intros u st2 _. apply peek_bind_cpost. intros oc2.
  destruct (match oc2 with Some c2 => c2 =? 0x7D | None => false end).
  - cbind next_char_cpost. intros x st3 _. cbind end_fragment_cpost. intros u2 st4 _. apply eats_refl.
  - cbind object_key_cpost. intros [k e] st3 _. apply eats_refl.
Qed.

Lemma object_continue_cpost o i st : cpost st (object_continue o i st).
Proof.
  rewrite object_continue_eq. cbind skip_whitespaces_cpost. intros u st1 _.
  cbind next_char_cpost. intros [p oc] st2 _. destruct oc as [c|]; [|cerr].
  destruct (c =? 0x2C).
  - cbind skip_whitespaces_cpost. intros u2 st3 _. cbind object_key_cpost. intros [k e] st4 _. apply eats_refl.
  - destruct (c =? 0x7D); [|cerr]. cbind end_fragment_cpost. intros u2 st3 _. apply eats_refl.
Qed.

Lemma parse_fragment_cpost o ctx st : cpost st (parse_fragment o ctx st).
Proof.
  rewrite parse_fragment_eq. cbind skip_whitespaces_cpost. intros u st1 _.
  apply peek_bind_cpost. intros oc. destruct oc as [c|]; [|cerr].
  destruct (c =? 0x6E). { cbind parse_null_cpost. intros i st2 _. apply eats_refl. }
  destruct ((c =? 0x74) || (c =? 0x66)). { cbind parse_bool_cpost. intros [b i] st2 _. apply eats_refl. }
  destruct (c =? 0x22). { cbind parse_string_cpost. intros [s i] st2 _. apply eats_refl. }
  destruct (c =? 0x5B). { cbind array_start_cpost. intros [[|] i] st2 _; apply eats_refl. }
  destruct (c =? 0x7B). { cbind object_start_cpost. intros [[|k e] i] st2 _; apply eats_refl. }
  destruct (is_digit c || (c =? 0x2D)); [|cerr].
  cbind parse_number_cpost. intros [n i] st2 _. apply eats_refl.
Qed.

(* ---------- the recursive-descent reference parser ---------- *)
Lemma rec_cpost f :
  (forall o ctx st, cpost st (pvalue f o ctx st)) /\
  (forall o a i st, cpost st (parr_items f o a i st)) /\
  (forall o a i st, cpost st (parr_cont f o a i st)) /\
  (forall o es i k e st, cpost st (pobj_entry f o es i k e st)) /\
  (forall o es i st, cpost st (pobj_cont f o es i st)).
Proof.
  induction f as [|f (IHv & IHai & IHac & IHoe & IHoc)].
  - repeat split; intros; exact I.
  - split; [|split; [|split; [|split]]].
    + intros o ctx st. rewrite pvalue_S. cbind parse_fragment_cpost. intros [fr i] st1 _.
      destruct fr as [v| |k e]; [apply eats_refl|apply IHai|apply IHoe].
    + intros o a i st. rewrite parr_items_S. eapply cpost_bind; [apply IHv|]. intros [v j] st1 _. apply IHac.
    + intros o a i st. rewrite parr_cont_S. cbind array_continue_cpost. intros [|] st1 _; [apply IHai|apply eats_refl].
    + intros o es i k e st. rewrite pobj_entry_S. eapply cpost_bind; [apply IHv|]. intros [v j] st1 _.
      cbind end_fragment_cpost. intros u st2 _. apply IHoc.
    + intros o es i st. rewrite pobj_cont_S. cbind object_continue_cpost. intros [[k e]|] st1 _;
        [apply IHoe|apply eats_refl].
Qed.

(* the top level: on Ok the whole input was eaten *)
Lemma ptop_cpost f o st :
  match ptop f o st with
  | Ok (_, _, st') => eats st st' /\ rest st' = []
  | Err (EStream _) => ~ stream_ok (rest st)
  | _ => True
  end.
Proof.
  unfold ptop. pose proof (proj1 (rec_cpost f) o CNone st) as Hv.
  destruct (pvalue f o CNone st) as [[[v i] st1]|e|x|]; cbn [obind]; try exact I; [|exact Hv].
  cbn in Hv. pose proof (skip_whitespaces_cpost st1) as Hw.
  destruct (skip_whitespaces st1) as [[u st2]|e|x|]; cbn [obind]; try exact I.
  2:{ destruct e; try exact I. eapply eats_bad; [exact Hv|exact Hw]. }
  cbn in Hw. pose proof (eats_trans _ _ _ Hv Hw) as H2. unfold next_char.
  destruct (rest st2) as [|[c l|] r] eqn:E; cbn [obind].
  - split; [exact H2|exact E].
  - exact I.
  - eapply eats_bad; [exact H2|]. rewrite E. apply serr_bad.
Qed.

Lemma stream_ok_inj t : stream_ok (map inj t).
Proof.
  unfold stream_ok. apply Forall_forall. intros x Hx. apply in_map_iff in Hx as (i & <- & _). discriminate.
Qed.

(* ================= the main theorems ================= *)
Theorem parse_ok_stream_ok : forall o s v m, parse_items o s = Ok (v, m) -> stream_ok s.
Proof.
  intros o s v m H. rewrite machine_eq_rec in H. unfold parse_items_rec in H.
  pose proof (ptop_cpost (rec_fuel s) o {| rest := s; pos := 0; cm := [] |}) as P.
  destruct (ptop (rec_fuel s) o {| rest := s; pos := 0; cm := [] |}) as [[[v0 i] st']|e|x|]; try discriminate.
  destruct P as [[t Ht] Hnil]. cbn [rest] in Ht. rewrite Hnil, app_nil_r in Ht. rewrite Ht.
  apply stream_ok_inj.
Qed.

Theorem stream_ok_no_stream_error : forall o s p, stream_ok s -> parse_items o s <> Err (EStream p).
Proof.
  intros o s p Hs H. rewrite machine_eq_rec in H. unfold parse_items_rec in H.
  pose proof (ptop_cpost (rec_fuel s) o {| rest := s; pos := 0; cm := [] |}) as P.
  destruct (ptop (rec_fuel s) o {| rest := s; pos := 0; cm := [] |}) as [[[v0 i] st']|e|x|]; try discriminate.
  injection H as ->. apply P. exact Hs.
Qed.

Theorem parse_spec : forall o s v m,
  stream_ok s -> chars_ok s -> (parse_items o s = Ok (v, m) <-> jtext o (items_of s) v m).
Proof.
  intros o s v m Hs Hc. rewrite machine_eq_rec. split.
  - apply rec_sound; assumption.
  - apply rec_complete; assumption.
Qed.

Lemma stream_ok_chars cs : stream_ok (chars cs).
Proof. rewrite chars_soks. apply stream_ok_soks_of. Qed.

Lemma items_of_chars cs : items_of (chars cs) = text_items cs.
Proof. rewrite chars_soks. apply items_of_soks. Qed.

Lemma chars_ok_chars cs : Forall (fun c => c <= 0x10FFFF) cs -> chars_ok (chars cs).
Proof.
  intros H. unfold chars_ok. rewrite items_of_chars. unfold text_items.
  apply Forall_map. cbn [fst]. exact H.
Qed.

Theorem parse_str_spec : forall o cs v m,
  Forall (fun c => c <= 0x10FFFF) cs ->
  (parse_str_with o cs = Ok (v, m) <-> jtext o (text_items cs) v m).
Proof.
  intros o cs v m H. unfold parse_str_with, parse_utf8_with, parse_with.
  rewrite <- items_of_chars. apply parse_spec; [apply stream_ok_chars|apply chars_ok_chars; exact H].
Qed.

Print Assumptions parse_ok_stream_ok.
Print Assumptions stream_ok_no_stream_error.
Print Assumptions parse_spec.
Print Assumptions parse_str_spec.
