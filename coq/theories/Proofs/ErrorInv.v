(* Proofs/ErrorInv.v -- every error reported by the parser model is located:
     - all positions carried by an error are item boundaries of the input,
     - Error::Unexpected reports the input item found at its offset (or end of input),
     - the surrogate errors carry the code units and the exact spans of the offending
       \uXXXX escape(s).
   One invariant ([csm st u] : "u is what has been consumed"), one Hoare-style
   postcondition ([hpost]) with its bind lemma, one lemma per model function in the order
   of Model/Parser.v, then the recursive reference parser by induction on fuel, then the
   machine through Proofs/ParserL1.v.  Corollaries for the str / slice entry points. *)
From JsonSyntax Require Import Base.Prelude Base.Value Base.Unicode Base.Source
  Model.Parser Model.EntryPoints Spec.Grammar Spec.Utf8Spec
  Proofs.ParserRecDef Proofs.ParserL1 Proofs.Utf8Proofs Proofs.ParserSound Proofs.ParserSoundLex.

(* ================= statements ================= *)
(* q is the byte offset of an item boundary of s lying before any stream error *)
Definition bnd (s : list sitem) (q : N) : Prop := exists u r, s = map inj u ++ r /\ q = blen u.

(* at offset q the input s has the item c (None = end of input) *)
Definition rep (s : list sitem) (q : N) (c : option N) : Prop :=
  exists u r, s = map inj u ++ r /\ q = blen u /\
    match c with None => r = [] | Some ch => exists l r', r = SOk ch l :: r' end.

(* one \uXXXX escape given as items, denoting the UTF-16 code unit cu *)
Definition uesc (esc : list item) (cu : N) : Prop :=
  exists h3 h2 h1 h0 d3 d2 d1 d0, cps esc = [0x5C; 0x75; h3; h2; h1; h0] /\
    hexdig h3 = Some d3 /\ hexdig h2 = Some d2 /\ hexdig h1 = Some d1 /\ hexdig h0 = Some d0 /\
    cu = d3 * 4096 + d2 * 256 + d1 * 16 + d0.

Definition err_ok (s : list sitem) (e : perr) : Prop :=
  match e with
  | EStream p => exists u r, s = map inj u ++ SErr :: r /\ p = blen u
  | EUnexpected p c => rep s p c
  | EMissingLow a b hi =>            (* the escape, then at least one more error-free item *)
      exists u esc x l r, s = map inj (u ++ esc) ++ SOk x l :: r /\ uesc esc hi /\ is_high hi = true /\
        a = blen u + blen (firstn 1 esc) /\ b = blen (u ++ esc)
  | EInvalidLow a b hi lo =>         (* two adjacent escapes *)
      exists u esc1 esc2 r, s = map inj (u ++ esc1 ++ esc2) ++ r /\ uesc esc1 hi /\ uesc esc2 lo /\
        is_high hi = true /\ is_low lo = false /\
        a = blen (u ++ esc1) + blen (firstn 1 esc2) /\ b = blen (u ++ esc1 ++ esc2)
  | EInvalidCodePoint a b cp =>      (* a lone low surrogate escape *)
      exists u esc r, s = map inj (u ++ esc) ++ r /\ uesc esc cp /\ is_low cp = true /\
        a = blen u + blen (firstn 1 esc) /\ b = blen (u ++ esc)
  | EInvalidUtf8 _ => False
  end.

(* ================= small facts ================= *)
Lemma blen_firstn_le n : forall t : list item, blen (firstn n t) <= blen t.
Proof.
  induction n as [|n IH]; intros [|x t]; cbn [firstn]; bl; try lia.
  specialize (IH t). lia.
Qed.

Lemma num_break_final ctx s c : num_trans ctx s c = NBreak -> num_final s = true.
Proof.
  intros H. destruct s; cbn [num_final]; try reflexivity; exfalso; unfold num_trans in H;
    repeat match type of H with context [if ?b then _ else _] => destruct b end; discriminate H.
Qed.

(* ================= the invariant, relative to a fixed input ================= *)
Section Inv.
  Variable s0 : list sitem.

  (* u is exactly what has been consumed on the way to st *)
  Definition csm (st : pstate) (u : list item) : Prop := s0 = map inj u ++ rest st /\ pos st = blen u.
  Definition atb (st : pstate) : Prop := exists u, csm st u.

  Lemma csm_reads st u t st' : csm st u -> reads st t st' -> csm st' (u ++ t).
  Proof.
    intros [H1 H2] [R1 R2]. split.
    - rewrite H1, R1, map_app, app_assoc. reflexivity.
    - rewrite R2, H2, blen_app. reflexivity.
  Qed.

  Lemma atb_same st st' : rest st' = rest st -> pos st' = pos st -> atb st -> atb st'.
  Proof. intros E1 E2 [u [H1 H2]]. exists u. split; [rewrite E1; exact H1|rewrite E2; exact H2]. Qed.

  Lemma csm_rep_some st u c l r : csm st u -> rest st = SOk c l :: r -> rep s0 (blen u) (Some c).
  Proof. intros [H1 H2] E. exists u, (rest st). split; [exact H1|]. split; [reflexivity|]. exists l, r. exact E. Qed.

  Lemma csm_rep_none st u : csm st u -> rest st = [] -> rep s0 (blen u) None.
  Proof. intros [H1 H2] E. exists u, (rest st). split; [exact H1|]. split; [reflexivity|exact E]. Qed.

  Lemma csm_stream st u r : csm st u -> rest st = SErr :: r -> err_ok s0 (EStream (pos st)).
  Proof. intros [H1 H2] E. exists u, r. rewrite <- E. split; assumption. Qed.

  (* Ok: the new state is at a boundary and Q holds.  Err: the error is located. *)
  Definition hpost {A} (x : res A) (Q : A -> pstate -> Prop) : Prop :=
    match x with
    | Ok (a, st') => atb st' /\ Q a st'
    | Err e => err_ok s0 e
    | _ => True
    end.
  Definition hp {A} (x : res A) : Prop := hpost x (fun _ _ => True).

  Lemma hbind {A B} (x : res A) (f : A * pstate -> res B) Q R :
    hpost x Q -> (forall a st1, atb st1 -> Q a st1 -> hpost (f (a, st1)) R) -> hpost (obind x f) R.
  Proof.
    intros Hx Hf. destruct x as [[a st1]|e|n|]; cbn [obind]; try exact I.
    - destruct Hx as [Ha Hq]. apply Hf; assumption.
    - exact Hx.
  Qed.

  Lemma hp_ok {A} (a : A) st : atb st -> hp (Ok (a, st)).
  Proof. intros H. split; [exact H|exact I]. Qed.

  (* ---------- primitives ---------- *)
  Lemma next_char_h st : atb st -> hpost (next_char st) (fun a _ => rep s0 (fst a) (snd a)).
  Proof.
    intros [u Hu]. unfold next_char. destruct (rest st) as [|[c l|] r] eqn:E; cbn [hpost fst snd].
    - split; [exists u; exact Hu|]. destruct Hu as [H1 H2]. rewrite H2. eapply csm_rep_none; [split; eassumption|exact E].
    - split.
      + exists (u ++ [(c, l)]). apply (csm_reads st); [exact Hu|]. split; cbn [rest pos]; [exact E|bl; lia].
      + destruct Hu as [H1 H2]. rewrite H2. eapply csm_rep_some; [split; eassumption|exact E].
    - eapply csm_stream; eassumption.
  Qed.

  Lemma peek_h {B} st (f : option N -> res B) R :
    atb st -> (forall oc, rep s0 (pos st) oc -> hpost (f oc) R) -> hpost (obind (peek_char st) f) R.
  Proof.
    intros [u Hu] Hf. unfold peek_char. destruct (rest st) as [|[c l|] r] eqn:E; cbn [obind].
    - apply Hf. destruct Hu as [H1 H2]. rewrite H2. eapply csm_rep_none; [split; eassumption|exact E].
    - apply Hf. destruct Hu as [H1 H2]. rewrite H2. eapply csm_rep_some; [split; eassumption|exact E].
    - eapply csm_stream; eassumption.
  Qed.

  Lemma skip_ws_list_h l : forall p u, s0 = map inj u ++ l -> p = blen u ->
    match skip_ws_list l p with
    | Ok (l', p') => exists u', s0 = map inj u' ++ l' /\ p' = blen u'
    | Err e => err_ok s0 e
    | _ => True
    end.
  Proof.
    induction l as [|[c len|] r IH]; intros p u H1 H2; cbn [skip_ws_list].
    - exists u. split; assumption.
    - destruct (is_ws c).
      + apply (IH (p + len) (u ++ [(c, len)])).
        * rewrite H1, map_app, <- app_assoc. reflexivity.
        * rewrite H2. bl. lia.
      + exists u. split; assumption.
    - exists u, r. split; assumption.
  Qed.

  Lemma skip_whitespaces_h st : atb st -> hp (skip_whitespaces st).
  Proof.
    intros [u [H1 H2]]. unfold skip_whitespaces.
    pose proof (skip_ws_list_h (rest st) (pos st) u H1 H2) as H.
    destruct (skip_ws_list (rest st) (pos st)) as [[l p]|e|n|]; cbn [hp hpost]; try exact I; [|exact H].
    destruct H as (u' & H3 & H4). split; [|exact I]. exists u'. split; assumption.
  Qed.

  Lemma end_fragment_h i st : atb st -> hp (end_fragment i st).
  Proof.
    intros H. unfold end_fragment. destruct (nth_error (cm st) (N.to_nat i)) as [[[s e] v]|]; [|exact I].
    destruct (N.of_nat (length (cm st)) <? i); [exact I|]. apply hp_ok.
    eapply atb_same; [| |exact H]; reflexivity.
  Qed.

  Lemma begin_atb st : atb st -> atb (snd (begin_fragment st)).
  Proof. apply atb_same; reflexivity. Qed.

  Ltac hb L := eapply hbind; [apply L; assumption|].

  (* ---------- literals ---------- *)
  Lemma expect_chars_h cs : forall st, atb st -> hp (expect_chars cs st).
  Proof.
    induction cs as [|c cs IH]; intros st H; cbn [expect_chars].
    - apply hp_ok. exact H.
    - hb next_char_h. intros [p oc] st1 H1 Hq. cbn [fst snd] in Hq.
      destruct oc as [x|]; [|exact Hq]. destruct (x =? c); [apply IH; exact H1|exact Hq].
  Qed.

  Lemma parse_null_h st : atb st -> hp (parse_null st).
  Proof.
    intros H. apply begin_atb in H. unfold parse_null. destruct (begin_fragment st) as [i st0]. cbn [snd] in H.
    hb expect_chars_h. intros u1 st1 H1 _. hb end_fragment_h. intros u2 st2 H2 _. apply hp_ok. exact H2.
  Qed.

  Lemma parse_bool_h st : atb st -> hp (parse_bool st).
  Proof.
    intros H. apply begin_atb in H. rewrite parse_bool_eq. destruct (begin_fragment st) as [i st0]. cbn [snd] in H.
    hb next_char_h. intros [p oc] st1 H1 Hq. cbn [fst snd] in Hq. destruct oc as [c|]; [|exact Hq].
    destruct (c =? 0x74).
    { hb expect_chars_h. intros u2 st2 H2 _. hb end_fragment_h. intros u3 st3 H3 _. apply hp_ok. exact H3. }
    destruct (c =? 0x66); [|exact Hq].
    hb expect_chars_h. intros u2 st2 H2 _. hb end_fragment_h. intros u3 st3 H3 _. apply hp_ok. exact H3.
  Qed.

  (* ---------- numbers ---------- *)
  Lemma num_loop_h ctx l : forall s buf p u, s0 = map inj u ++ l -> p = blen u ->
    match num_loop ctx s buf l p with
    | Ok (_, s', l', p') => (exists u', s0 = map inj u' ++ l' /\ p' = blen u') /\ (num_final s' = false -> l' = [])
    | Err e => err_ok s0 e
    | _ => True
    end.
  Proof.
    induction l as [|[c len|] r IH]; intros s buf p u H1 H2; cbn [num_loop].
    - split; [exists u; split; assumption|reflexivity].
    - destruct (num_trans ctx s c) as [s'| |] eqn:T.
      + apply (IH s' (buf ++ [c]) (p + len) (u ++ [(c, len)])).
        * rewrite H1, map_app, <- app_assoc. reflexivity.
        * rewrite H2. bl. lia.
      + split; [exists u; split; assumption|]. intros F. apply num_break_final in T. congruence.
      + cbn [err_ok]. exists u, (SOk c len :: r). split; [exact H1|]. split; [exact H2|]. exists len, r. reflexivity.
    - exists u, r. split; assumption.
  Qed.

  Lemma parse_number_h ctx st : atb st -> hp (parse_number ctx st).
  Proof.
    intros H. apply begin_atb in H. unfold parse_number. destruct (begin_fragment st) as [i st0]. cbn [snd] in H.
    destruct H as [u [H1 H2]].
    pose proof (num_loop_h ctx (rest st0) NInit [] (pos st0) u H1 H2) as HL.
    destruct (num_loop ctx NInit [] (rest st0) (pos st0)) as [[[[b s] l] p]|e|x|]; try exact I; [|exact HL].
    destruct HL as [(u' & H3 & H4) HF]. destruct (num_final s).
    - assert (Hat : atb {| rest := l; pos := p; cm := cm st0 |}) by (exists u'; split; assumption).
      hb end_fragment_h. intros u2 st2 Hat2 _. apply hp_ok. exact Hat2.
    - cbn [hp hpost err_ok]. exists u', l. split; [exact H3|]. split; [exact H4|]. apply HF. reflexivity.
  Qed.

  (* ---------- strings ---------- *)
  Lemma hex_digit_h st : atb st -> hp (hex_digit st).
  Proof.
    intros H. unfold hex_digit. hb next_char_h. intros [p oc] st1 H1 Hq. cbn [fst snd] in Hq.
    destruct oc as [c|]; [|exact Hq]. destruct (hexval c); [apply hp_ok; exact H1|exact Hq].
  Qed.

  Lemma parse_hex4_h st : atb st -> hp (parse_hex4 st).
  Proof.
    intros H. unfold parse_hex4. hb hex_digit_h. intros h3 st1 H1 _. hb hex_digit_h. intros h2 st2 H2 _.
    hb hex_digit_h. intros h1 st3 H3 _. hb hex_digit_h. intros h0 st4 H4 _. apply hp_ok. exact H4.
  Qed.

  (* the pending high surrogate was set by the escape that ends the consumed input *)
  Definition hinv (u : list item) (high : option (N * N)) : Prop :=
    match high with
    | None => True
    | Some (ph, hi) =>
        exists u0 esc, u = u0 ++ esc /\ uesc esc hi /\ is_high hi = true /\ ph = blen u0 + blen (firstn 1 esc)
    end.

  Definition sl_ok (k : list N -> option (N * N) -> pstate -> res (list N * N)) : Prop :=
    forall acc high st u, csm st u -> hinv u high -> hp (k acc high st).

  (* [st] is the state at the start of the loop iteration, [stn] the one after the element *)
  Lemma push_plain_h k o (Hk : sl_ok k) acc high st u x l r d stn un :
    csm st u -> rest st = SOk x l :: r -> hinv u high -> csm stn un ->
    hp (push_plain k o acc high (pos st) d stn).
  Proof.
    intros Hu E Hh Hn. unfold push_plain. destruct high as [[ph hi]|].
    - destruct (trunc o); [apply (Hk _ None _ un Hn I)|].
      destruct Hh as (u0 & esc & -> & He & Hi & ->). destruct Hu as [H1 H2].
      unfold span_new. cbn [hp hpost err_ok].
      exists u0, esc, x, l, r. split; [rewrite H1, E; reflexivity|]. split; [exact He|]. split; [exact Hi|].
      split; [reflexivity|]. rewrite H2. pose proof (blen_firstn_le 1 esc) as Hle. bl. lia.
    - apply (Hk _ None _ un Hn I).
  Qed.

  Lemma unicode_case_h k o (Hk : sl_ok k) acc high st2 u b1 b2 p2 :
    csm st2 (u ++ [b1; b2]) -> fst b1 = 0x5C -> fst b2 = 0x75 -> hinv u high -> p2 = blen u + snd b1 ->
    hp (unicode_case k o acc high p2 st2).
  Proof.
    intros Hc F1 F2 Hh Hp2. unfold unicode_case.
    destruct (parse_hex4 st2) as [[cp st3]|e|n|] eqn:E4; cbn [obind]; try exact I.
    2:{ pose proof (parse_hex4_h st2 (ex_intro _ _ Hc)) as H. rewrite E4 in H. exact H. }
    apply parse_hex4_ok in E4 as (t & h3 & h2 & h1 & h0 & d3 & d2 & d1 & d0 & Ct & E3 & E2 & E1 & E0 & Hcp & Lt & R & _).
    pose (esc := [b1; b2] ++ t).
    assert (Hue : uesc esc cp).
    { exists h3, h2, h1, h0, d3, d2, d1, d0. split; [|auto 10].
      unfold esc. rewrite cps_app, Ct. cbn [cps map app]. rewrite F1, F2. reflexivity. }
    assert (Hc3 : csm st3 (u ++ esc)).
    { unfold esc. rewrite app_assoc. eapply csm_reads; eassumption. }
    assert (Hf : blen (firstn 1 esc) = snd b1) by (unfold esc; cbn [app firstn]; bl; lia).
    pose proof (blen_firstn_le 1 esc) as Hle.
    clearbody esc. clear Ct E3 E2 E1 E0 Hcp R Hc.
    pose proof Hc3 as [S1 S2].
    cbv zeta. unfold span_new, char_or_replace, from_u32.
    destruct high as [[ph hi]|].
    - destruct Hh as (u0 & esc1 & -> & He1 & Hi1 & ->).
      destruct (is_low cp) eqn:Lo.
      + destruct ((hi <? 0xD800) || (cp <? 0xDC00)); [exact I|].
        assert (Hs : is_scalar ((hi - 0xD800) * 1024 + (cp - 0xDC00) + 0x10000) = true)
          by (unfold is_scalar, is_high, is_low in *; lia).
        rewrite Hs. apply (Hk _ None _ _ Hc3 I).
      + destruct (trunc o).
        * destruct (is_high cp) eqn:Hi2.
          -- apply (Hk _ (Some (p2, cp)) _ _ Hc3). exists (u0 ++ esc1), esc.
             split; [reflexivity|]. split; [exact Hue|]. split; [exact Hi2|]. lia.
          -- assert (Hs : is_scalar cp = true) by (unfold is_scalar, is_high, is_low in *; lia).
             rewrite Hs. apply (Hk _ None _ _ Hc3 I).
        * cbn [hp hpost err_ok]. exists u0, esc1, esc, (rest st3).
          split; [rewrite S1, <- app_assoc; reflexivity|]. split; [exact He1|]. split; [exact Hue|].
          split; [exact Hi1|]. split; [exact Lo|]. split; [lia|].
          rewrite S2, app_assoc. rewrite (blen_app (u0 ++ esc1) esc). lia.
    - destruct (is_high cp) eqn:Hi2.
      + apply (Hk _ (Some (p2, cp)) _ _ Hc3). exists u, esc.
        split; [reflexivity|]. split; [exact Hue|]. split; [exact Hi2|]. lia.
      + destruct (is_scalar cp) eqn:Sc; [apply (Hk _ None _ _ Hc3 I)|].
        destruct (inval o); [apply (Hk _ None _ _ Hc3 I)|].
        cbn [hp hpost err_ok]. exists u, esc, (rest st3).
        split; [exact S1|]. split; [exact Hue|].
        split; [unfold is_scalar, is_high, is_low in *; lia|]. split; [lia|].
        rewrite S2. rewrite (blen_app u esc). lia.
  Qed.

  Lemma string_loop_h o i fuel : sl_ok (string_loop fuel o i).
  Proof.
    induction fuel as [|fuel IH]; intros acc high st u Hu Hh; [exact I|].
    rewrite string_loop_eq. cbv zeta.
    pose proof (next_char_h st (ex_intro _ u Hu)) as Hn.
    destruct (next_char st) as [[[p oc] st1]|e|n|] eqn:E1; cbn [obind]; try exact I; [|exact Hn].
    destruct Hn as [Hat1 Hrep]. cbn [fst snd] in Hrep.
    destruct oc as [c|]; [|exact Hrep].
    apply next_char_reads in E1 as (len & R1 & _ & Hp).
    pose proof (csm_reads _ _ _ _ Hu R1) as Hu1.
    assert (Er : rest st = SOk c len :: rest st1) by exact (proj1 R1).
    destruct (N.eqb_spec c 0x22) as [->|N1].
    { (* closing quote *)
      destruct high as [[ph hi]|].
      - destruct (trunc o).
        + eapply hbind; [apply end_fragment_h; exact Hat1|]. intros u2 st2 H2 _. apply hp_ok. exact H2.
        + destruct Hh as (u0 & esc & -> & He & Hi & ->). destruct Hu as [H1 H2].
          unfold span_new. cbn [hp hpost err_ok].
          exists u0, esc, 0x22, len, (rest st1). split; [rewrite H1, Er; reflexivity|].
          split; [exact He|]. split; [exact Hi|]. split; [reflexivity|].
          rewrite Hp, H2. pose proof (blen_firstn_le 1 esc) as Hle. bl. lia.
      - eapply hbind; [apply end_fragment_h; exact Hat1|]. intros u2 st2 H2 _. apply hp_ok. exact H2. }
    destruct (N.eqb_spec c 0x5C) as [->|N2].
    { (* escape *)
      pose proof (next_char_h st1 Hat1) as Hn2.
      destruct (next_char st1) as [[[p2 oc2] st2]|e|n|] eqn:E2; cbn [obind]; try exact I; [|exact Hn2].
      destruct Hn2 as [Hat2 Hrep2]. cbn [fst snd] in Hrep2.
      destruct oc2 as [c2|]; [|exact Hrep2].
      apply next_char_reads in E2 as (len2 & R2 & _ & Hp2).
      pose proof (csm_reads _ _ _ _ Hu1 R2) as Hu2.
      destruct (esc_char c2) as [d|].
      { eapply push_plain_h; [exact IH|exact Hu|exact Er|exact Hh|exact Hu2]. }
      destruct (N.eqb_spec c2 0x75) as [->|N3]; [|exact Hrep2].
      rewrite <- app_assoc in Hu2. cbn [app] in Hu2.
      eapply unicode_case_h; [exact IH|exact Hu2|reflexivity|reflexivity|exact Hh|].
      rewrite Hp2. destruct Hu1 as [_ ->]. bl. lia. }
    destruct (is_control c); [exact Hrep|].
    eapply push_plain_h; [exact IH|exact Hu|exact Er|exact Hh|exact Hu1].
  Qed.

  Lemma parse_string_h o st : atb st -> hp (parse_string o st).
  Proof.
    intros H. apply begin_atb in H. rewrite parse_string_eq. destruct (begin_fragment st) as [i st0]. cbn [snd] in H.
    hb next_char_h. intros [p oc] st1 [u1 H1] Hq. cbn [fst snd] in Hq. destruct oc as [c|]; [|exact Hq].
    destruct (c =? 0x22); [|exact Hq]. eapply string_loop_h; [exact H1|exact I].
  Qed.

  (* ---------- arrays and objects ---------- *)
  Lemma array_start_h st : atb st -> hp (array_start st).
  Proof.
    intros H. apply begin_atb in H. rewrite array_start_eq. destruct (begin_fragment st) as [i st0]. cbn [snd] in H.
    hb next_char_h. intros [p oc] st1 H1 Hq. cbn [fst snd] in Hq. destruct oc as [c|]; [|exact Hq].
    destruct (c =? 0x5B); [|exact Hq].
    hb skip_whitespaces_h. intros u2 st2 H2 _. apply peek_h; [exact H2|]. intros oc2 _.
    destruct (match oc2 with Some c2 => c2 =? 0x5D | None => false end); [|apply hp_ok; exact H2].
    hb next_char_h. intros x st3 H3 _. hb end_fragment_h. intros u4 st4 H4 _. apply hp_ok. exact H4.
  Qed.

  Lemma array_continue_h i st : atb st -> hp (array_continue i st).
  Proof.
    intros H. rewrite array_continue_eq. hb skip_whitespaces_h. intros u1 st1 H1 _.
    hb next_char_h. intros [p oc] st2 H2 Hq. cbn [fst snd] in Hq. destruct oc as [c|]; [|exact Hq].
    destruct (c =? 0x2C); [apply hp_ok; exact H2|]. destruct (c =? 0x5D); [|exact Hq].
    hb end_fragment_h. intros u3 st3 H3 _. apply hp_ok. exact H3.
  Qed.

  Lemma object_key_h o st : atb st -> hp (object_key o st).
  Proof.
    intros H. apply begin_atb in H. rewrite object_key_eq. destruct (begin_fragment st) as [e st0]. cbn [snd] in H.
    hb parse_string_h. intros [k j] st1 H1 _. hb skip_whitespaces_h. intros u2 st2 H2 _.
    hb next_char_h. intros [p oc] st3 H3 Hq. cbn [fst snd] in Hq. destruct oc as [c|]; [|exact Hq].
    destruct (c =? 0x3A); [apply hp_ok; exact H3|exact Hq].
  Qed.

  Lemma object_start_h o st : atb st -> hp (object_start o st).
  Proof.
    intros H. apply begin_atb in H. rewrite object_start_eq. destruct (begin_fragment st) as [i st0]. cbn [snd] in H.
    hb next_char_h. intros [p oc] st1 H1 Hq. cbn [fst snd] in Hq. destruct oc as [c|]; [|exact Hq].
    destruct (c =? 0x7B); [|exact Hq].
    hb skip_whitespaces_h. intros u2 st2 H2 _. apply peek_h; [exact H2|]. intros oc2 _.
    destruct (match oc2 with Some c2 => c2 =? 0x7D | None => false end).
    - hb next_char_h. intros x st3 H3 _. hb end_fragment_h. intros u4 st4 H4 _. apply hp_ok. exact H4.
    - hb object_key_h. intros [k e] st3 H3 _. apply hp_ok. exact H3.
  Qed.

  Lemma object_continue_h o i st : atb st -> hp (object_continue o i st).
  Proof.
    intros H. rewrite object_continue_eq. hb skip_whitespaces_h. intros u1 st1 H1 _.
    hb next_char_h. intros [p oc] st2 H2 Hq. cbn [fst snd] in Hq. destruct oc as [c|]; [|exact Hq].
    destruct (c =? 0x2C).
    - hb skip_whitespaces_h. intros u3 st3 H3 _. hb object_key_h. intros [k e] st4 H4 _. apply hp_ok. exact H4.
    - destruct (c =? 0x7D); [|exact Hq]. hb end_fragment_h. intros u3 st3 H3 _. apply hp_ok. exact H3.
  Qed.

  Lemma parse_fragment_h o ctx st : atb st -> hp (parse_fragment o ctx st).
  Proof.
    intros H. rewrite parse_fragment_eq. hb skip_whitespaces_h. intros u1 st1 H1 _.
    apply peek_h; [exact H1|]. intros oc Hq. destruct oc as [c|]; [|exact Hq].
    destruct (c =? 0x6E). { hb parse_null_h. intros i st2 H2 _. apply hp_ok. exact H2. }
    destruct ((c =? 0x74) || (c =? 0x66)). { hb parse_bool_h. intros [b i] st2 H2 _. apply hp_ok. exact H2. }
    destruct (c =? 0x22). { hb parse_string_h. intros [s i] st2 H2 _. apply hp_ok. exact H2. }
    destruct (c =? 0x5B). { hb array_start_h. intros [[|] i] st2 H2 _; apply hp_ok; exact H2. }
    destruct (c =? 0x7B). { hb object_start_h. intros [[|k e] i] st2 H2 _; apply hp_ok; exact H2. }
    destruct (is_digit c || (c =? 0x2D)); [|exact Hq].
    hb parse_number_h. intros [n i] st2 H2 _. apply hp_ok. exact H2.
  Qed.

  (* ---------- the recursive-descent reference parser ---------- *)
  Lemma rec_h f :
    (forall o ctx st, atb st -> hp (pvalue f o ctx st)) /\
    (forall o a i st, atb st -> hp (parr_items f o a i st)) /\
    (forall o a i st, atb st -> hp (parr_cont f o a i st)) /\
    (forall o es i k e st, atb st -> hp (pobj_entry f o es i k e st)) /\
    (forall o es i st, atb st -> hp (pobj_cont f o es i st)).
  Proof.
    induction f as [|f (IHv & IHai & IHac & IHoe & IHoc)].
    - repeat split; intros; exact I.
    - split; [|split; [|split; [|split]]].
      + intros o ctx st H. change (pvalue (S f) o ctx st) with
          (obind (parse_fragment o ctx st) (fun x => let '((fr, i), st1) := x in
             match fr with
             | FrValue v => Ok ((v, i), st1)
             | FrBeginArray => parr_items f o [] i st1
             | FrBeginObject k e => pobj_entry f o [] i k e st1
             end)).
        hb parse_fragment_h. intros [fr i] st1 H1 _.
        destruct fr as [v| |k e]; [apply hp_ok; exact H1|apply IHai; exact H1|apply IHoe; exact H1].
      + intros o a i st H. change (parr_items (S f) o a i st) with
          (obind (pvalue f o CArray st) (fun x => let '((v, _), st1) := x in parr_cont f o (a ++ [v]) i st1)).
        eapply hbind; [apply IHv; exact H|]. intros [v j] st1 H1 _. apply IHac. exact H1.
      + intros o a i st H. change (parr_cont (S f) o a i st) with
          (obind (array_continue i st) (fun x => let '(item, st1) := x in
             if item then parr_items f o a i st1 else Ok ((VArr a, i), st1))).
        hb array_continue_h. intros [|] st1 H1 _; [apply IHai; exact H1|apply hp_ok; exact H1].
      + intros o es i k e st H. change (pobj_entry (S f) o es i k e st) with
          (obind (pvalue f o CObjectValue st) (fun x => let '((v, _), st1) := x in
             obind (end_fragment e st1) (fun y => let '(_, st2) := y in pobj_cont f o (es ++ [(k, v)]) i st2))).
        eapply hbind; [apply IHv; exact H|]. intros [v j] st1 H1 _.
        hb end_fragment_h. intros u2 st2 H2 _. apply IHoc. exact H2.
      + intros o es i st H. change (pobj_cont (S f) o es i st) with
          (obind (object_continue o i st) (fun x => let '(next, st1) := x in
             match next with
             | Some (k, e) => pobj_entry f o es i k e st1
             | None => Ok ((VObj es, i), st1)
             end)).
        hb object_continue_h. intros [[k e]|] st1 H1 _; [apply IHoe; exact H1|apply hp_ok; exact H1].
  Qed.

  Lemma ptop_h f o st : atb st -> hp (ptop f o st : res (value * N)).
  Proof.
    intros H. unfold ptop. eapply hbind; [apply (proj1 (rec_h f)); exact H|]. intros [v i] st1 H1 _.
    hb skip_whitespaces_h. intros u2 st2 H2 _.
    hb next_char_h. intros [p oc] st3 H3 Hq. cbn [fst snd] in Hq.
    destruct oc as [c|]; [exact Hq|]. apply (hp_ok (v, i)). exact H3.
  Qed.

End Inv.

(* ================= the main theorem ================= *)
Theorem parse_items_err_ok : forall o s e, parse_items o s = Err e -> err_ok s e.
Proof.
  intros o s e H. rewrite machine_eq_rec in H. unfold parse_items_rec in H.
  assert (Hat : atb s {| rest := s; pos := 0; cm := [] |}) by (exists []; split; reflexivity).
  pose proof (ptop_h s (rec_fuel s) o _ Hat) as P.
  destruct (ptop (rec_fuel s) o {| rest := s; pos := 0; cm := [] |}) as [[[v0 i] st']|e'|x|]; try discriminate.
  injection H as <-. exact P.
Qed.

(* ================= corollaries ================= *)
Definition err_offsets (e : perr) : list N :=
  match e with
  | EStream p | EUnexpected p _ | EInvalidUtf8 p => [p]
  | EInvalidCodePoint a b _ | EMissingLow a b _ | EInvalidLow a b _ _ => [a; b]
  end.

Lemma bnd_whole s u r : s = map inj u ++ r -> bnd s (blen u).
Proof. intros H. exists u, r. split; [exact H|reflexivity]. Qed.

Lemma bnd_prefix s u v r : s = map inj (u ++ v) ++ r -> bnd s (blen u).
Proof. intros ->. exists u, (map inj v ++ r). split; [rewrite map_app, app_assoc; reflexivity|reflexivity]. Qed.

Lemma firstn1_split (u esc : list item) : u ++ esc = (u ++ firstn 1 esc) ++ skipn 1 esc.
Proof. rewrite <- app_assoc, firstn_skipn. reflexivity. Qed.

Lemma err_ok_bnd s e q : err_ok s e -> In q (err_offsets e) -> bnd s q.
Proof.
  intros H Hq. destruct e as [p|p c|a b cp|a b hi|a b hi lo|p]; cbn [err_ok err_offsets In] in *.
  - destruct Hq as [<-|[]]. destruct H as (u & r & H1 & ->). eapply bnd_whole. exact H1.
  - destruct Hq as [<-|[]]. destruct H as (u & r & H1 & -> & _). eapply bnd_whole. exact H1.
  - destruct H as (u & esc & r & H1 & _ & _ & Ha & Hb). destruct Hq as [<-|[<-|[]]].
    + rewrite Ha, <- blen_app. eapply bnd_prefix. rewrite <- firstn1_split. exact H1.
    + rewrite Hb. eapply bnd_whole. exact H1.
  - destruct H as (u & esc & x & l & r & H1 & _ & _ & Ha & Hb). destruct Hq as [<-|[<-|[]]].
    + rewrite Ha, <- blen_app. eapply bnd_prefix. rewrite <- firstn1_split. exact H1.
    + rewrite Hb. eapply bnd_whole. exact H1.
  - destruct H as (u & esc1 & esc2 & r & H1 & _ & _ & _ & _ & Ha & Hb). destruct Hq as [<-|[<-|[]]].
    + rewrite Ha, <- blen_app. eapply bnd_prefix. rewrite <- firstn1_split, <- app_assoc. exact H1.
    + rewrite Hb. eapply bnd_whole. exact H1.
  - destruct H.
Qed.

Theorem items_boundaries : forall o s e q, parse_with o s = Err e -> In q (err_offsets e) -> bnd s q.
Proof.
  intros o s e q H Hq. unfold parse_with in H. eapply err_ok_bnd; [eapply parse_items_err_ok; exact H|exact Hq].
Qed.

Theorem items_reported_char : forall o s p c, parse_with o s = Err (EUnexpected p c) -> rep s p c.
Proof. intros o s p c H. unfold parse_with in H. exact (parse_items_err_ok _ _ _ H). Qed.

(* ---------- texts given as code points ---------- *)
Lemma chars_inj cs : chars cs = map inj (text_items cs).
Proof. unfold chars, text_items. rewrite map_map. reflexivity. Qed.

Lemma text_items_app a b : text_items (a ++ b) = text_items a ++ text_items b.
Proof. apply map_app. Qed.

Lemma cps_text_items a : cps (text_items a) = a.
Proof. unfold cps, text_items. rewrite map_map. cbn [fst]. apply map_id. Qed.

Lemma text_items_split a u v :
  text_items a = u ++ v -> exists p q, a = p ++ q /\ u = text_items p /\ v = text_items q.
Proof. intros H. unfold text_items in H. apply map_eq_app in H as (p & q & -> & <- & <-). eauto. Qed.

Lemma utf8_len_pos c : 1 <= utf8_len c.
Proof. unfold utf8_len. destruct (c <? 0x80), (c <? 0x800), (c <? 0x10000); lia. Qed.

(* an error-free prefix of [chars cs ++ tl] is the image of a prefix of cs *)
Lemma chars_split : forall u cs tl r,
  chars cs ++ tl = map inj u ++ r -> (forall c l t, tl <> SOk c l :: t) ->
  exists a b, cs = a ++ b /\ u = text_items a /\ r = chars b ++ tl.
Proof.
  induction u as [|[c l] u IH]; intros cs tl r H Ht.
  - exists [], cs. split; [reflexivity|]. split; [reflexivity|]. symmetry. exact H.
  - destruct cs as [|c0 cs].
    + exfalso. eapply Ht. exact H.
    + cbn [chars map app inj fst snd] in H. injection H as Hc Hl H.
      destruct (IH cs tl r H Ht) as (a & b & -> & -> & ->).
      exists (c0 :: a), b. subst c l. split; [reflexivity|]. split; reflexivity.
Qed.

Lemma bnd_chars cs tl q : (forall c l t, tl <> SOk c l :: t) -> bnd (chars cs ++ tl) q ->
  exists a b, cs = a ++ b /\ q = blen (text_items a).
Proof.
  intros Ht (u & r & H1 & ->). apply chars_split in H1 as (a & b & -> & -> & _); [|exact Ht].
  exists a, b. split; reflexivity.
Qed.

Lemma rep_chars cs tl p c : (forall c l t, tl <> SOk c l :: t) -> rep (chars cs ++ tl) p c ->
  exists a b, cs = a ++ b /\ p = blen (text_items a) /\ c = hd_error b /\ (c = None -> tl = []).
Proof.
  intros Ht (u & r & H1 & -> & H3). apply chars_split in H1 as (a & b & -> & -> & ->); [|exact Ht].
  exists a, b. split; [reflexivity|]. split; [reflexivity|]. destruct c as [ch|].
  - destruct H3 as (l & r' & H3). split; [|discriminate]. destruct b as [|b0 b].
    + exfalso. eapply Ht. exact H3.
    + cbn [chars map app] in H3. injection H3 as -> _ _. reflexivity.
  - destruct b as [|b0 b]; [|discriminate H3]. split; [reflexivity|]. intros _. exact H3.
Qed.

Lemma nil_not_ok : forall (c l : N) (t : list sitem), [] <> SOk c l :: t.
Proof. intros c l t. discriminate. Qed.

Lemma parse_str_err_ok o cs e : parse_str_with o cs = Err e -> err_ok (chars cs ++ []) e.
Proof.
  unfold parse_str_with, parse_utf8_with, parse_with. intros H. rewrite app_nil_r.
  exact (parse_items_err_ok _ _ _ H).
Qed.

Theorem str_reported_char : forall o cs p c, parse_str_with o cs = Err (EUnexpected p c) ->
  exists a b, cs = a ++ b /\ p = blen (text_items a) /\ c = hd_error b.
Proof.
  intros o cs p c H. apply parse_str_err_ok in H. cbn [err_ok] in H.
  apply rep_chars in H as (a & b & H1 & H2 & H3 & _); [|exact nil_not_ok]. eauto.
Qed.

Theorem str_reported_none_iff : forall o cs p c, parse_str_with o cs = Err (EUnexpected p c) ->
  (c = None <-> p = blen (text_items cs)).
Proof.
  intros o cs p c H. apply str_reported_char in H as (a & b & -> & -> & ->). split.
  - intros Hn. destruct b as [|b0 b]; [|discriminate Hn]. rewrite app_nil_r. reflexivity.
  - intros Hp. destruct b as [|b0 b]; [reflexivity|]. exfalso.
    rewrite text_items_app, blen_app in Hp.
    change (text_items (b0 :: b)) with ((b0, utf8_len b0) :: text_items b) in Hp.
    rewrite blen_cons in Hp. cbn [snd] in Hp. pose proof (utf8_len_pos b0) as Hl. lia.
Qed.

Theorem str_boundaries : forall o cs e q, parse_str_with o cs = Err e -> In q (err_offsets e) ->
  exists a b, cs = a ++ b /\ q = blen (text_items a).
Proof.
  intros o cs e q H Hq. apply parse_str_err_ok in H.
  eapply bnd_chars; [exact nil_not_ok|]. eapply err_ok_bnd; eassumption.
Qed.

(* ---------- byte slices ---------- *)
Lemma blen_text_items a : scalars a -> blen (text_items a) = N.of_nat (length (utf8_encode_all a)).
Proof.
  induction 1 as [|c a Hc Ha IH]; [reflexivity|].
  change (text_items (c :: a)) with ((c, utf8_len c) :: text_items a).
  change (utf8_encode_all (c :: a)) with (utf8_encode c ++ utf8_encode_all a).
  rewrite blen_cons, IH, app_length, Nat2N.inj_add, utf8_len_encode by exact Hc. reflexivity.
Qed.

Lemma slice_items_eq bs :
  slice_items bs = chars (fst (utf8_decode bs)) ++ (if snd (utf8_decode bs) then [] else [SErr]).
Proof. unfold slice_items. destruct (utf8_decode bs) as [cs ok]. reflexivity. Qed.

Lemma tl_not_ok (ok : bool) : forall (c l : N) (t : list sitem), (if ok then [] else [SErr]) <> SOk c l :: t.
Proof. intros c l t. destruct ok; discriminate. Qed.

Lemma slice_err o bs e : parse_slice_with o bs = Err e ->
  exists e', err_ok (slice_items bs) e' /\ e = io_into_utf8 e'.
Proof.
  unfold parse_slice_with, parse_with, map_err. intros H.
  destruct (parse_items o (slice_items bs)) as [x|e'|n|] eqn:E; try discriminate H.
  injection H as <-. exists e'. split; [exact (parse_items_err_ok _ _ _ E)|reflexivity].
Qed.

Lemma err_offsets_io e : err_offsets (io_into_utf8 e) = err_offsets e.
Proof. destruct e; reflexivity. Qed.

Lemma decode_scalars bs : scalars (fst (utf8_decode bs)) /\
  exists rest, bs = utf8_encode_all (fst (utf8_decode bs)) ++ rest.
Proof.
  destruct (utf8_decode bs) as [cs ok] eqn:D. destruct (decode_sound _ _ _ D) as (Hs & rest & Hb & _).
  split; [exact Hs|]. exists rest. exact Hb.
Qed.

Theorem slice_boundaries : forall o bs e q, parse_slice_with o bs = Err e -> In q (err_offsets e) ->
  exists a rest, scalars a /\ bs = utf8_encode_all a ++ rest /\ q = N.of_nat (length (utf8_encode_all a)).
Proof.
  intros o bs e q H Hq. apply slice_err in H as (e' & H & ->). rewrite err_offsets_io in Hq.
  pose proof (err_ok_bnd _ _ _ H Hq) as B. rewrite slice_items_eq in B.
  apply bnd_chars in B as (a & b & Hcs & ->); [|apply tl_not_ok].
  destruct (decode_scalars bs) as (Hs & rest & Hb). rewrite Hcs in Hs, Hb.
  apply Forall_app in Hs as [Hsa Hsb]. exists a, (utf8_encode_all b ++ rest).
  split; [exact Hsa|]. split; [|apply blen_text_items; exact Hsa].
  rewrite Hb at 1. unfold utf8_encode_all. rewrite flat_map_app, app_assoc. reflexivity.
Qed.

Theorem slice_reported_char : forall o bs p c, parse_slice_with o bs = Err (EUnexpected p c) ->
  exists a b, fst (utf8_decode bs) = a ++ b /\ p = N.of_nat (length (utf8_encode_all a)) /\ c = hd_error b /\
              (c = None -> snd (utf8_decode bs) = true).
Proof.
  intros o bs p c H. apply slice_err in H as (e' & H & He).
  destruct e' as [p'|p' c'|? ? ?|? ? ?|? ? ? ?|p']; cbn [io_into_utf8] in He; try discriminate He.
  injection He as <- <-. cbn [err_ok] in H. rewrite slice_items_eq in H.
  apply rep_chars in H as (a & b & Hcs & -> & Hc & Hn); [|apply tl_not_ok].
  destruct (decode_scalars bs) as (Hs & _). rewrite Hcs in Hs. apply Forall_app in Hs as [Hsa _].
  exists a, b. split; [exact Hcs|]. split; [apply blen_text_items; exact Hsa|]. split; [exact Hc|].
  intros Hnone. apply Hn in Hnone. destruct (snd (utf8_decode bs)); [reflexivity|discriminate Hnone].
Qed.

Theorem slice_invalid_utf8 : forall o bs k, parse_slice_with o bs = Err (EInvalidUtf8 k) ->
  snd (utf8_decode bs) = false /\ k = N.of_nat (length (utf8_encode_all (fst (utf8_decode bs)))).
Proof.
  intros o bs k H. apply slice_err in H as (e' & H & He).
  destruct e' as [p'|p' c'|? ? ?|? ? ?|? ? ? ?|p']; cbn [io_into_utf8] in He; try discriminate He.
  2:{ destruct H. }
  injection He as <-. destruct H as (u & r & H1 & ->). rewrite slice_items_eq in H1.
  apply chars_split in H1 as (a & b & Hcs & -> & Hr); [|apply tl_not_ok].
  destruct b as [|b0 b]; [|discriminate Hr]. rewrite app_nil_r in Hcs. subst a.
  destruct (decode_scalars bs) as (Hs & _). split; [|apply blen_text_items; exact Hs].
  cbn [chars map app] in Hr. destruct (snd (utf8_decode bs)); [discriminate Hr|reflexivity].
Qed.

(* ---------- surrogate errors on texts ---------- *)
Definition uesc_chars (esc : list N) (cu : N) : Prop :=
  exists h3 h2 h1 h0 d3 d2 d1 d0, esc = [0x5C; 0x75; h3; h2; h1; h0] /\
    hexdig h3 = Some d3 /\ hexdig h2 = Some d2 /\ hexdig h1 = Some d1 /\ hexdig h0 = Some d0 /\
    cu = d3 * 4096 + d2 * 256 + d1 * 16 + d0.

Lemma uesc_text esc cu : uesc (text_items esc) cu -> uesc_chars esc cu /\ blen (firstn 1 (text_items esc)) = 1.
Proof.
  intros (h3 & h2 & h1 & h0 & d3 & d2 & d1 & d0 & Hc & E3 & E2 & E1 & E0 & Hcu).
  rewrite cps_text_items in Hc. subst esc. split; [|vm_compute; reflexivity].
  exists h3, h2, h1, h0, d3, d2, d1, d0. auto 10.
Qed.

Theorem str_surrogate : forall o cs,
  (forall a b hi, parse_str_with o cs = Err (EMissingLow a b hi) ->
     exists p esc r, cs = p ++ esc ++ r /\ r <> [] /\ uesc_chars esc hi /\ is_high hi = true /\
       a = blen (text_items p) + 1 /\ b = blen (text_items (p ++ esc))) /\
  (forall a b hi lo, parse_str_with o cs = Err (EInvalidLow a b hi lo) ->
     exists p esc1 esc2 r, cs = p ++ esc1 ++ esc2 ++ r /\ uesc_chars esc1 hi /\ uesc_chars esc2 lo /\
       is_high hi = true /\ is_low lo = false /\
       a = blen (text_items (p ++ esc1)) + 1 /\ b = blen (text_items (p ++ esc1 ++ esc2))) /\
  (forall a b cp, parse_str_with o cs = Err (EInvalidCodePoint a b cp) ->
     exists p esc r, cs = p ++ esc ++ r /\ uesc_chars esc cp /\ is_low cp = true /\
       a = blen (text_items p) + 1 /\ b = blen (text_items (p ++ esc))).
Proof.
  intros o cs. split; [|split].
  - intros a b hi H. apply parse_str_err_ok in H.
    destruct H as (u & esc & x & l & r & H1 & He & Hi & -> & ->).
    apply chars_split in H1 as (a & b & -> & Hu & Hr); [|exact nil_not_ok].
    symmetry in Hu. apply text_items_split in Hu as (p & q & -> & -> & ->).
    apply uesc_text in He as [He Hf]. exists p, q, b. split; [rewrite app_assoc; reflexivity|].
    split; [intros ->; discriminate Hr|]. split; [exact He|]. split; [exact Hi|].
    split; [rewrite Hf; reflexivity|rewrite text_items_app; reflexivity].
  - intros a b hi lo H. apply parse_str_err_ok in H.
    destruct H as (u & esc1 & esc2 & r & H1 & He1 & He2 & Hi & Hl & -> & ->).
    apply chars_split in H1 as (a & b & -> & Hu & _); [|exact nil_not_ok].
    symmetry in Hu. apply text_items_split in Hu as (p & q & -> & -> & Hq).
    symmetry in Hq. apply text_items_split in Hq as (q1 & q2 & -> & -> & ->).
    apply uesc_text in He1 as [He1 _]. apply uesc_text in He2 as [He2 Hf]. exists p, q1, q2, b.
    split; [rewrite <- !app_assoc; reflexivity|]. split; [exact He1|]. split; [exact He2|].
    split; [exact Hi|]. split; [exact Hl|].
    split; [rewrite Hf, text_items_app; reflexivity|rewrite !text_items_app; reflexivity].
  - intros a b cp H. apply parse_str_err_ok in H.
    destruct H as (u & esc & r & H1 & He & Hl & -> & ->).
    apply chars_split in H1 as (a & b & -> & Hu & _); [|exact nil_not_ok].
    symmetry in Hu. apply text_items_split in Hu as (p & q & -> & -> & ->).
    apply uesc_text in He as [He Hf]. exists p, q, b. split; [rewrite app_assoc; reflexivity|].
    split; [exact He|]. split; [exact Hl|].
    split; [rewrite Hf; reflexivity|rewrite text_items_app; reflexivity].
Qed.

(* ---------- the shapes, computed on the model (strict and mixed options) ---------- *)
Example ex_missing_low : parse_str (s2l """\uD800a""") = Err (EMissingLow 2 7 55296).
Proof. vm_compute. reflexivity. Qed.
Example ex_missing_low_esc : parse_str (s2l """\uD800\n""") = Err (EMissingLow 2 7 55296).
Proof. vm_compute. reflexivity. Qed.
Example ex_invalid_low : parse_str (s2l """\uD800\uD800""") = Err (EInvalidLow 8 13 55296 55296).
Proof. vm_compute. reflexivity. Qed.
Example ex_invalid_cp : parse_str (s2l """\uDC00""") = Err (EInvalidCodePoint 2 7 56320).
Proof. vm_compute. reflexivity. Qed.
Example ex_trunc_only :
  parse_str_with {| trunc := true; inval := false |} (s2l """\uD800a\uDC00""") = Err (EInvalidCodePoint 9 14 56320).
Proof. vm_compute. reflexivity. Qed.
Example ex_inval_only :
  parse_str_with {| trunc := false; inval := true |} (s2l """\uDC00\uD800\uD801""") = Err (EInvalidLow 14 19 55296 55297).
Proof. vm_compute. reflexivity. Qed.

Print Assumptions parse_items_err_ok.
Print Assumptions str_surrogate.
Print Assumptions slice_boundaries.
Print Assumptions slice_reported_char.
