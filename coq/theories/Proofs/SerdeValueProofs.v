(* Proofs/SerdeValueProofs.v -- C17: Value's own Serialize / Deserialize.
   Serialising reproduces the value (duplicates collapse to first position / last value,
   "-0" becomes "0") outside the class K4 (an object whose first key is serde_json's
   private number token); deserialising from a Value or from a self-describing front end
   yields the same structure with every number denoting the same integer or double, outside
   K3 (nearest double infinite) and K4, under the explicit hypothesis that lexical's float
   writer prints a spelling that reads back to the same double. *)
From Coq Require Import SpecFloat.
From JsonSyntax Require Import Base.Prelude Base.Value Base.Float64 Spec.Multimap
  Spec.EcmaNumber Spec.NumSpelling Spec.SerdeData Spec.SerdeJsonValue Spec.SerdeRoundTrip
  Model.SerdeValue Proofs.NumSpellingProofs Proofs.SerdeCollapse.

Local Open Scope nat_scope.
Local Opaque number_token.

(* ================================================================== *)
(* predicates over the numbers of a value                              *)
(* ================================================================== *)
Lemma all_nums_arr p l : all_nums p (VArr l) = true <-> Forall (fun x => all_nums p x = true) l.
Proof. cbn [all_nums]. rewrite forallb_forall, Forall_forall. tauto. Qed.

Lemma all_nums_obj p es :
  all_nums p (VObj es) = true <-> Forall (fun e : list N * value => all_nums p (snd e) = true) es.
Proof. cbn [all_nums]. rewrite forallb_forall, Forall_forall. tauto. Qed.

Lemma some_num_false p v : some_num p v = false <-> all_nums (fun n => negb (p n)) v = true.
Proof. unfold some_num. destruct (all_nums _ v); cbn; split; congruence. Qed.

Lemma all_nums_and p q v : all_nums (fun n => p n && q n) v = all_nums p v && all_nums q v.
Proof.
  induction v as [| b | s | s | l IH | l IH] using value_ind'; cbn [all_nums]; auto.
  - induction IH as [|x r Hx _ IHr]; cbn; auto. rewrite Hx, IHr.
    destruct (all_nums p x), (all_nums q x), (forallb (all_nums p) r); cbn; auto.
  - induction IH as [|x r Hx _ IHr]; cbn; auto. rewrite Hx, IHr.
    destruct (all_nums p (snd x)), (all_nums q (snd x)),
      (forallb (fun e : list N * value => all_nums p (snd e)) r); cbn; auto.
Qed.

Lemma all_nums_impl (p q : list N -> bool) v :
  (forall n, p n = true -> q n = true) -> all_nums p v = true -> all_nums q v = true.
Proof.
  intros Hpq. induction v as [| b | s | s | l IH | l IH] using value_ind'; cbn [all_nums]; auto.
  - rewrite !forallb_forall. rewrite Forall_forall in IH. auto.
  - rewrite !forallb_forall. rewrite Forall_forall in IH. auto.
Qed.

Lemma K4_arr l : K4 (VArr l) = false <-> Forall (fun x => K4 x = false) l.
Proof.
  cbn [K4]. rewrite Forall_forall. split.
  - intros H x Hx. destruct (K4 x) eqn:E; auto.
    assert (existsb K4 l = true) by (apply existsb_exists; eauto). congruence.
  - intros H. destruct (existsb K4 l) eqn:E; auto.
    apply existsb_exists in E as (x & Hx & E). rewrite (H x Hx) in E. discriminate.
Qed.

Definition first_key_not_token {A} (es : list (list N * A)) : Prop :=
  match es with
  | (k, _) :: _ => str_eqb k number_token = false
  | [] => True
  end.

Lemma K4_obj es :
  K4 (VObj es) = false <->
  first_key_not_token es /\ Forall (fun e : list N * value => K4 (snd e) = false) es.
Proof.
  cbn [K4]. rewrite orb_false_iff, Forall_forall. split.
  - intros [H1 H2]. split.
    + destruct es as [|[k x] r]; cbn; auto.
    + intros e He. destruct (K4 (snd e)) eqn:E; auto.
      assert (existsb (fun e : list N * value => K4 (snd e)) es = true)
        by (apply existsb_exists; eauto). congruence.
  - intros [H1 H2]. split.
    + destruct es as [|[k x] r]; cbn in *; auto.
    + destruct (existsb _ es) eqn:E; auto.
      apply existsb_exists in E as (e & He & E). rewrite (H2 e He) in E. discriminate.
Qed.

(* ---- general facts ---- *)
Lemma vins_nonempty acc k y : vins acc k y <> [].
Proof.
  destruct acc as [|e r]; [discriminate|]. rewrite vins_cons. destruct (has_key k e); discriminate.
Qed.

Lemma is_int64_false n : is_int64 n = false <-> parse_i64 n = None /\ parse_u64 n = None.
Proof.
  unfold is_int64, int64_val. destruct (parse_i64 n); [split; [discriminate|intros [? _]; discriminate]|].
  destruct (parse_u64 n); split; try tauto; try discriminate. intros [_ ?]; discriminate.
Qed.

Lemma nodupb_NoDup ks : nodupb ks = true -> NoDup ks.
Proof.
  induction ks as [|k r IH]; cbn; [constructor|].
  rewrite andb_true_iff, negb_true_iff. intros [Hn Hd]. constructor; auto.
  intros Hin. assert (existsb (key_eqb k) r = true); [|congruence].
  apply existsb_exists. exists k. split; auto. apply key_eqb_refl.
Qed.

Definition vrel (a b : value) : Prop := vrelb a b = true.

Lemma vrelb_arr xs ys : Forall2 vrel xs ys -> vrelb (VArr xs) (VArr ys) = true.
Proof.
  intros H. cbn [vrelb]. induction H as [|x y xs ys Hxy _ IH]; [reflexivity|].
  unfold vrel in Hxy. rewrite Hxy, IH. reflexivity.
Qed.

Lemma vrelb_obj xs ys : Forall2 (erel vrel) xs ys -> vrelb (VObj xs) (VObj ys) = true.
Proof.
  intros H. cbn [vrelb]. induction H as [|[k x] [k' y] xs ys [E Hxy] _ IH]; [reflexivity|].
  cbn in E, Hxy. subst k'. unfold vrel in Hxy. rewrite str_eqb_refl, Hxy, IH. reflexivity.
Qed.

Lemma sf_eqb_refl x : sf_is_finite x = true -> sf_eqb x x = true.
Proof.
  destruct x as [s|s| |s m e]; cbn; try discriminate; intros _.
  - apply Bool.eqb_reflx.
  - rewrite Bool.eqb_reflx, Pos.eqb_refl, Z.eqb_refl. reflexivity.
Qed.

Lemma num_pres_u64 n z : parse_u64 n = Some z -> num_pres n (fmt_int z) = true.
Proof.
  intros Hu. pose proof (parse_u64_range n z Hu) as R. unfold num_pres.
  assert (Hn : int64_val n = Some z).
  { unfold int64_val. destruct (parse_i64 n) as [a|] eqn:Hi; auto.
    rewrite (parse_i64_u64_agree n a z Hi Hu). reflexivity. }
  rewrite Hn, int64_val_fmt_int by lia. apply Z.eqb_refl.
Qed.

Lemma num_pres_i64 n z : parse_i64 n = Some z -> num_pres n (fmt_int z) = true.
Proof.
  intros Hi. pose proof (parse_i64_range n z Hi) as R. unfold num_pres.
  assert (Hn : int64_val n = Some z) by (unfold int64_val; rewrite Hi; reflexivity).
  rewrite Hn, int64_val_fmt_int by lia. apply Z.eqb_refl.
Qed.


Lemma parse_i64_nonneg_not_u64 n z :
  parse_i64 n = Some z -> parse_u64 n = None -> (0 <= z)%Z -> z = 0%Z.
Proof.
  intros Hi Hu Hz. destruct (parse_i64_cases n) as [[r ->]|E].
  - rewrite parse_i64_minus in Hi. destruct (parse_nat r) as [m|]; [|discriminate].
    destruct (m <=? 9223372036854775808)%N; [|discriminate]. injection Hi as <-. lia.
  - rewrite E in Hi. apply parse_i64_pos_inv in Hi as (m & Hm & Hlt & ->).
    unfold parse_u64 in Hu. rewrite Hm in Hu.
    destruct (N.ltb_spec m 18446744073709551616); [discriminate|]. lia.
Qed.

(* ================================================================== *)
(* the local fixpoints of the model, named                             *)
(* ================================================================== *)
Section Proofs.
  Variable fmt_lex : spec_float -> list N.

  Notation ser := (ser fmt_lex).
  Notation to_value := (to_value fmt_lex).
  Notation de_value := (de_value fmt_lex).
  Notation from_value := (from_value fmt_lex).
  Notation from_text := (from_text fmt_lex).

  Fixpoint ser_list (l : list sd) : outcome ser_err (list value) :=
    match l with
    | [] => Ok []
    | x :: r => obind (ser x) (fun y => obind (ser_list r) (fun ys => Ok (y :: ys)))
    end.

  Fixpoint ser_entries (es : list (list N * sd)) (st : map_state) : outcome ser_err value :=
    match es with
    | [] => map_end st
    | (k, x) :: r =>
        match st with
        | MSNumber _ => Err EMalformed
        | MSObject obj =>
            if obj_is_empty obj && str_eqb k number_token then
              obind (ser_string_number x) (fun n => ser_entries r (MSNumber (Some n)))
            else
              obind (ser x) (fun y => ser_entries r (MSObject (fst (m_insert obj k y))))
        end
    end.

  Lemma ser_seq_eq l : ser (SSeq l) = obind (ser_list l) (fun ys => Ok (VArr ys)).
  Proof. reflexivity. Qed.

  Lemma ser_map_eq es : ser (SMap es) = ser_entries es (MSObject []).
  Proof. reflexivity. Qed.

  (* ---------------------------------------------------------------- arrays *)
  Lemma ser_list_map (f : value -> value) l :
    Forall (fun x => ser (emit x) = Ok (f x)) l ->
    ser_list (map emit l) = Ok (map f l).
  Proof.
    induction 1 as [|x r Hx _ IH]; [reflexivity|].
    cbn [map ser_list]. rewrite Hx, IH. reflexivity.
  Qed.

  (* ---------------------------------------------------------------- objects *)

  Lemma ser_entries_ok (f : value -> value) es :
    Forall (fun e : list N * value => ser (emit (snd e)) = Ok (f (snd e))) es ->
    forall acc, acc <> [] \/ first_key_not_token es ->
    ser_entries (map (fun e : list N * value => (fst e, emit (snd e))) es) (MSObject acc)
    = Ok (VObj (fold_left vstep (map (fun e : list N * value => (fst e, f (snd e))) es) acc)).
  Proof.
    induction 1 as [|[k x] r Hx _ IH]; intros acc Hacc; [reflexivity|].
    cbn [map ser_entries fst snd fold_left].
    assert (E : obj_is_empty acc && str_eqb k number_token = false).
    { destruct Hacc as [Hne|Hk].
      - destruct acc; [contradiction|reflexivity].
      - cbn in Hk. rewrite Hk. apply andb_false_r. }
    rewrite E. cbn in Hx. rewrite Hx. cbn [obind].
    unfold vstep at 2. cbn [fst snd]. apply IH. left. apply vins_nonempty.
  Qed.

  (* ---------------------------------------------------------------- numbers *)

  Lemma neg_zero_num_not_i64 n : parse_i64 n = None -> neg_zero_num n = n.
  Proof.
    intros H. destruct (neg_zero_num_spec n) as [->|E]; [|exact E]. vm_compute in H. discriminate.
  Qed.

  Lemma ser_number n :
    valid_number n = true -> ser (emit_number n) = Ok (VNum (neg_zero_num n)).
  Proof.
    intros Hv. unfold emit_number. destruct (has_decimal_point n) eqn:Hd.
    - cbn [SerdeValue.ser]. rewrite Hv. rewrite neg_zero_num_id by auto. reflexivity.
    - destruct (parse_i64 n) as [z|] eqn:Hi.
      + cbn [SerdeValue.ser]. rewrite (fmt_int_parse_i64 n z Hv Hi). reflexivity.
      + destruct (parse_u64 n) as [z|] eqn:Hu.
        * cbn [SerdeValue.ser]. rewrite (fmt_int_parse_u64 n z Hv Hu).
          rewrite neg_zero_num_id; auto. right. congruence.
        * cbn [SerdeValue.ser]. rewrite Hv, neg_zero_num_not_i64 by exact Hi. reflexivity.
  Qed.

  (* ---------------------------------------------------------------- C17, serialisation *)
  Theorem to_value_collapses : forall v,
    wf_nums v = true -> K4 v = false -> to_value v = Ok (ser_spec v).
  Proof.
    unfold to_value, wf_nums.
    induction v as [| b | n | s | l IH | es IH] using value_ind'; intros Hw Hk4; try reflexivity.
    - cbn [emit ser_spec]. apply ser_number. exact Hw.
    - cbn [emit ser_spec]. rewrite ser_seq_eq.
      rewrite (ser_list_map ser_spec); [reflexivity|].
      apply all_nums_arr in Hw. apply K4_arr in Hk4. rewrite Forall_forall in *. intros x Hx.
      apply IH; auto.
    - cbn [emit ser_spec]. rewrite ser_map_eq.
      apply all_nums_obj in Hw. apply K4_obj in Hk4 as [Hfirst Hk4].
      rewrite (ser_entries_ok ser_spec).
      + rewrite fold_insert_collapse. reflexivity.
      + rewrite Forall_forall in *. intros e He. apply IH; auto.
      + right. destruct es as [|[k x] r]; cbn in *; auto.
  Qed.

  Lemma ser_spec_nodup v : nodup_keysb v = true -> ser_spec v = neg_zero_norm v.
  Proof.
    induction v as [| b | n | s | l IH | es IH] using value_ind'; intros H; try reflexivity.
    - cbn [ser_spec neg_zero_norm]. f_equal. apply map_ext_in. intros x Hx.
      cbn [nodup_keysb] in H. rewrite forallb_forall in H. rewrite Forall_forall in IH. auto.
    - cbn [ser_spec neg_zero_norm]. f_equal.
      cbn [nodup_keysb] in H. apply andb_true_iff in H as [Hd Hs].
      rewrite collapse_nodup.
      + apply map_ext_in. intros e He. f_equal.
        rewrite forallb_forall in Hs. rewrite Forall_forall in IH. auto.
      + unfold keys. rewrite map_map. cbn [fst]. apply nodupb_NoDup. exact Hd.
  Qed.

  Theorem to_value_reproduces : forall v,
    wf_nums v = true -> K4 v = false -> nodup_keysb v = true ->
    to_value v = Ok (neg_zero_norm v).
  Proof.
    intros v Hw H4 Hd. rewrite to_value_collapses by assumption.
    rewrite ser_spec_nodup by assumption. reflexivity.
  Qed.

  (* ================================================================== *)
  (* deserialisation                                                     *)
  (* ================================================================== *)
  Fixpoint de_list (l : list sd) : outcome de_err (list value) :=
    match l with
    | [] => Ok []
    | x :: r => obind (de_value x) (fun y => obind (de_list r) (fun ys => Ok (y :: ys)))
    end.

  Fixpoint de_entries (r : list (list N * sd)) (obj : list entry) : outcome de_err value :=
    match r with
    | [] => Ok (VObj obj)
    | (k', x') :: r' => obind (de_value x') (fun y' => de_entries r' (fst (m_insert obj k' y')))
    end.

  Lemma de_seq_eq l : de_value (SSeq l) = obind (de_list l) (fun ys => Ok (VArr ys)).
  Proof. reflexivity. Qed.

  Lemma de_map_cons k x r :
    str_eqb k number_token = false ->
    de_value (SMap ((k, x) :: r)) = obind (de_value x) (fun y => de_entries r (fst (m_insert [] k y))).
  Proof. intros E. cbn [SerdeValue.de_value]. rewrite E. reflexivity. Qed.

  (* the two event sources differ only in how a number is presented *)
  Section Gen.
    Variable numf : list N -> sd.
    Fixpoint gen_events (v : value) : sd :=
      match v with
      | VNull => SUnit
      | VBool b => SBool b
      | VNum n => numf n
      | VStr s => SStr s
      | VArr l => SSeq (map gen_events l)
      | VObj es => SMap (map (fun e : list N * value => (fst e, gen_events (snd e))) es)
      end.
  End Gen.

  Lemma events_gen v : events v = gen_events number_events v.
  Proof. reflexivity. Qed.
  Lemma events_sj_gen v : events_sj v = gen_events sj_number_events v.
  Proof. reflexivity. Qed.

  (* ---------------------------------------------------------------- vrelb *)



  (* ---------------------------------------------------------------- main lemma *)
  Definition numok (numf : list N -> sd) (n : list N) : Prop :=
    exists m, de_value (numf n) = Ok (VNum m) /\ num_pres n m = true.

  Section Main.
    Variable numf : list N -> sd.
    Variable p : list N -> bool.
    Hypothesis Hnum : forall n, p n = true -> numok numf n.

    Definition de_good (x : value) : Prop :=
      exists w, de_value (gen_events numf x) = Ok w /\ vrel (collapse x) w.

    Lemma de_list_ok l : Forall de_good l ->
      exists ws, de_list (map (gen_events numf) l) = Ok ws /\ Forall2 vrel (map collapse l) ws.
    Proof.
      induction 1 as [|x r (w & Hw & Hr) _ (ws & Hws & Hrs)].
      - exists []. split; [reflexivity|constructor].
      - exists (w :: ws). cbn [map de_list]. rewrite Hw, Hws. split; [reflexivity|].
        constructor; auto.
    Qed.

    Lemma de_entries_ok r : Forall (fun e : list N * value => de_good (snd e)) r ->
      forall acc, exists ws,
        de_entries (map (fun e : list N * value => (fst e, gen_events numf (snd e))) r) acc
        = Ok (VObj (fold_left vstep ws acc)) /\
        Forall2 (erel vrel) (map (fun e : list N * value => (fst e, collapse (snd e))) r) ws.
    Proof.
      induction 1 as [|[k x] r (w & Hw & Hr) _ IH]; intros acc.
      - exists []. split; [reflexivity|constructor].
      - cbn [snd] in Hw, Hr. destruct (IH (vins acc k w)) as (ws & Hws & Hrel).
        exists ((k, w) :: ws). cbn [map de_entries fst snd fold_left]. rewrite Hw. cbn [obind].
        split.
        + exact Hws.
        + constructor; auto. split; auto.
    Qed.

    Lemma de_main : forall v, all_nums p v = true -> K4 v = false -> de_good v.
    Proof.
      induction v as [| b | n | s | l IH | es IH] using value_ind'; intros Hp Hk4.
      - exists VNull. split; reflexivity.
      - exists (VBool b). split; [reflexivity|]. unfold vrel. cbn. apply Bool.eqb_reflx.
      - destruct (Hnum n Hp) as (m & Hm & Hpres). exists (VNum m). split; [exact Hm|exact Hpres].
      - exists (VStr s). split; [reflexivity|]. unfold vrel. cbn. apply str_eqb_refl.
      - assert (Hg : Forall de_good l).
        { apply all_nums_arr in Hp. apply K4_arr in Hk4. rewrite Forall_forall in *. auto. }
        destruct (de_list_ok l Hg) as (ws & Hws & Hrel).
        exists (VArr ws). cbn [gen_events]. rewrite de_seq_eq, Hws. split; [reflexivity|].
        cbn [collapse]. apply vrelb_arr. exact Hrel.
      - apply all_nums_obj in Hp. apply K4_obj in Hk4 as [Hfirst Hk4].
        assert (Hg : Forall (fun e : list N * value => de_good (snd e)) es).
        { rewrite Forall_forall in *. auto. }
        destruct es as [|[k x] r].
        + exists (VObj []). split; reflexivity.
        + inversion Hg as [|? ? (w & Hw & Hr) Hg']; subst. cbn [snd] in Hw, Hr.
          destruct (de_entries_ok r Hg' (vins [] k w)) as (ws & Hws & Hrel).
          exists (VObj (collapse_entries ((k, w) :: ws))).
          cbn [gen_events map fst snd]. rewrite de_map_cons by exact Hfirst.
          rewrite Hw. cbn [obind]. fold (vins [] k w). rewrite Hws, fold_insert_first.
          split; [reflexivity|].
          cbn [collapse map fst snd]. apply vrelb_obj. apply collapse_rel.
          constructor; auto. split; auto.
    Qed.
  End Main.

  (* ---------------------------------------------------------------- numbers *)



  Definition lex_round_trips : Prop :=
    forall n, sf_is_finite (dbl n) = true -> dbl (fmt_lex (dbl n)) = dbl n.

  Lemma num_pres_dbl n :
    lex_round_trips -> is_int64 n = false -> sf_is_finite (dbl n) = true ->
    num_pres n (fmt_lex (dbl n)) = true.
  Proof.
    intros Hlex Hi Hf. unfold num_pres. unfold is_int64 in Hi.
    destruct (int64_val n); [discriminate|]. rewrite Hlex by exact Hf. apply sf_eqb_refl. exact Hf.
  Qed.

  (* ---------------------------------------------------------------- from_value *)
  Definition p_de (n : list N) : bool := negb (K3num n).

  Lemma K3num_false_finite n : is_int64 n = false -> K3num n = false -> sf_is_finite (dbl n) = true.
  Proof.
    intros Hint H3. unfold K3num in H3. rewrite Hint in H3. cbn in H3.
    apply negb_false_iff in H3. exact H3.
  Qed.

  Lemma numok_de : lex_round_trips -> forall n, p_de n = true -> numok number_events n.
  Proof.
    intros Hlex n Hp. unfold p_de in Hp. apply negb_true_iff in Hp. unfold numok, number_events.
    destruct (parse_u64 n) as [z|] eqn:Hu.
    - exists (fmt_int z). split; [reflexivity|]. apply num_pres_u64. exact Hu.
    - destruct (parse_i64 n) as [z|] eqn:Hi.
      + exists (fmt_int z). split; [reflexivity|]. apply num_pres_i64. exact Hi.
      + assert (Hint : is_int64 n = false) by (apply is_int64_false; auto).
        pose proof (K3num_false_finite n Hint Hp) as Hf.
        exists (fmt_lex (dbl n)). cbn [SerdeValue.de_value]. unfold f64_value. rewrite Hf.
        split; [reflexivity|]. apply num_pres_dbl; auto.
  Qed.

  Theorem from_value_preserves :
    lex_round_trips ->
    forall v, K3 v = false -> K4 v = false ->
    exists w, from_value v = Ok w /\ de_ok v w = true.
  Proof.
    intros Hlex v H3 H4. unfold from_value. rewrite events_gen.
    apply (de_main number_events p_de (numok_de Hlex)); [|exact H4].
    apply some_num_false. exact H3.
  Qed.

  (* ---------------------------------------------------------------- from_text *)
  (* lexical prints -0.0 as "-0" *)
  Definition lex_neg_zero : Prop := fmt_lex (S754_zero true) = [0x2D; 0x30]%N.

  Lemma numok_txt : lex_round_trips -> lex_neg_zero ->
    forall n, p_de n = true -> numok sj_number_events n.
  Proof.
    intros Hlex Hnz n Hp. unfold p_de in Hp. apply negb_true_iff in Hp.
    unfold numok, sj_number_events.
    destruct (parse_u64 n) as [z|] eqn:Hu.
    - exists (fmt_int z). split; [reflexivity|]. apply num_pres_u64. exact Hu.
    - destruct (parse_i64 n) as [z|] eqn:Hi.
      + destruct (Z.ltb_spec z 0).
        * exists (fmt_int z). split; [reflexivity|]. apply num_pres_i64. exact Hi.
        * assert (z = 0%Z) by (eapply parse_i64_nonneg_not_u64; eauto). subst z.
          exists [0x2D; 0x30]%N. cbn [SerdeValue.de_value]. unfold f64_value. cbn [sf_is_finite].
          rewrite Hnz. split; [reflexivity|].
          unfold num_pres, int64_val. rewrite Hi. reflexivity.
      + assert (Hint : is_int64 n = false) by (apply is_int64_false; auto).
        pose proof (K3num_false_finite n Hint Hp) as Hf. rewrite Hf.
        exists (fmt_lex (dbl n)). cbn [SerdeValue.de_value]. unfold f64_value. rewrite Hf.
        split; [reflexivity|]. apply num_pres_dbl; auto.
  Qed.

  Theorem from_text_preserves :
    lex_round_trips -> lex_neg_zero ->
    forall v, K3 v = false -> K4 v = false ->
    exists w, from_text v = Ok w /\ de_ok v w = true.
  Proof.
    intros Hlex Hnz v H3 H4. unfold from_text. rewrite events_sj_gen.
    apply (de_main sj_number_events p_de (numok_txt Hlex Hnz)); [|exact H4].
    apply some_num_false. exact H3.
  Qed.

  (* on duplicate-free values nothing collapses *)
  Lemma collapse_nodup_keys v : nodup_keysb v = true -> collapse v = v.
  Proof.
    induction v as [| b | n | s | l IH | es IH] using value_ind'; intros H; try reflexivity.
    - cbn [collapse]. f_equal. rewrite <- (map_id l) at 2. apply map_ext_in. intros x Hx.
      cbn [nodup_keysb] in H. rewrite forallb_forall in H. rewrite Forall_forall in IH. auto.
    - cbn [collapse]. f_equal.
      cbn [nodup_keysb] in H. apply andb_true_iff in H as [Hd Hs].
      rewrite collapse_nodup.
      + rewrite <- (map_id es) at 2. apply map_ext_in. intros [k x] He. cbn [fst snd]. f_equal.
        rewrite forallb_forall in Hs. rewrite Forall_forall in IH. apply (IH (k, x) He). apply (Hs (k, x) He).
      + unfold keys. rewrite map_map. cbn [fst]. apply nodupb_NoDup. exact Hd.
  Qed.
End Proofs.

Print Assumptions to_value_collapses.
Print Assumptions to_value_reproduces.
Print Assumptions from_value_preserves.
Print Assumptions from_text_preserves.
