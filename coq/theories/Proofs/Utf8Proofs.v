(* Proofs/Utf8Proofs.v -- the UTF-8 decoder of Base/Unicode.v accepts exactly the
   encodings of scalar sequences (Spec/Utf8Spec.v) and returns the longest
   well-formed prefix. *)
From JsonSyntax Require Import Base.Prelude Base.Unicode Spec.Utf8Spec.
From Coq Require Import ZifyN ZifyBool ZifyNat.

Ltac Zify.zify_post_hook ::= Z.div_mod_to_equations.

(* ------------------------------------------------------------------ *)
(* one scalar: encoder facts *)

Lemma utf8_len_encode : forall c, is_scalar c = true ->
  N.of_nat (length (utf8_encode c)) = utf8_len c.
Proof.
  intros c _. unfold utf8_encode, utf8_len.
  destruct (c <? 0x80); [reflexivity|].
  destruct (c <? 0x800); [reflexivity|].
  destruct (c <? 0x10000); reflexivity.
Qed.

Lemma encode_bytes : forall c, is_scalar c = true ->
  Forall (fun b => is_byte b = true) (utf8_encode c).
Proof.
  intros c Hc. unfold is_scalar in Hc. unfold utf8_encode.
  destruct (N.ltb_spec c 0x80) as [H1|H1];
    [|destruct (N.ltb_spec c 0x800) as [H2|H2];
      [|destruct (N.ltb_spec c 0x10000) as [H3|H3]]];
    repeat constructor; unfold is_byte; timeout 60 lia.
Qed.

Lemma encode_nonempty : forall c, (1 <= length (utf8_encode c))%nat.
Proof.
  intros c. unfold utf8_encode.
  destruct (c <? 0x80); [cbn [length]; lia|].
  destruct (c <? 0x800); [cbn [length]; lia|].
  destruct (c <? 0x10000); cbn [length]; lia.
Qed.

(* ------------------------------------------------------------------ *)
(* decode1 after encode, by length class *)

(* resolve the next [if] of the goal: the branch contradicted by the context is closed by lia *)
Ltac step_if :=
  match goal with
  | |- context [if ?cnd then _ else _] =>
      lazymatch cnd with context [if _ then _ else _] => fail | _ => idtac end;
      let E := fresh "E" in
      destruct cnd eqn:E; [try (exfalso; timeout 60 lia)|try (exfalso; timeout 60 lia)]
  end.

Lemma decode1_encode_1 : forall c r, c < 0x80 ->
  utf8_decode1 (utf8_encode c ++ r) = Some (c, r).
Proof.
  intros c r H. unfold utf8_encode.
  destruct (N.ltb_spec c 0x80) as [H1|H1]; [|lia].
  cbn [app]. unfold utf8_decode1.
  destruct (N.ltb_spec c 0x80) as [H2|H2]; [reflexivity|lia].
Qed.

Lemma decode1_encode_2 : forall c r, 0x80 <= c < 0x800 ->
  utf8_decode1 (utf8_encode c ++ r) = Some (c, r).
Proof.
  intros c r H. unfold utf8_encode.
  destruct (N.ltb_spec c 0x80) as [H1|H1]; [lia|].
  destruct (N.ltb_spec c 0x800) as [H2|H2]; [|lia].
  cbn [app]. unfold utf8_decode1, is_cont, in_range.
  repeat step_if.
  all: f_equal; f_equal; timeout 60 lia.
Qed.

Lemma decode1_encode_3 : forall c r, 0x800 <= c < 0x10000 -> is_scalar c = true ->
  utf8_decode1 (utf8_encode c ++ r) = Some (c, r).
Proof.
  intros c r H Hs. unfold is_scalar in Hs. unfold utf8_encode.
  destruct (N.ltb_spec c 0x80) as [H1|H1]; [lia|].
  destruct (N.ltb_spec c 0x800) as [H2|H2]; [lia|].
  destruct (N.ltb_spec c 0x10000) as [H3|H3]; [|lia].
  cbn [app]. unfold utf8_decode1, is_cont, in_range.
  repeat step_if.
  all: f_equal; f_equal; timeout 60 lia.
Qed.

Lemma decode1_encode_4 : forall c r, 0x10000 <= c <= 0x10FFFF ->
  utf8_decode1 (utf8_encode c ++ r) = Some (c, r).
Proof.
  intros c r H. unfold utf8_encode.
  destruct (N.ltb_spec c 0x80) as [H1|H1]; [lia|].
  destruct (N.ltb_spec c 0x800) as [H2|H2]; [lia|].
  destruct (N.ltb_spec c 0x10000) as [H3|H3]; [lia|].
  cbn [app]. unfold utf8_decode1, is_cont, in_range.
  repeat step_if.
  all: f_equal; f_equal; timeout 60 lia.
Qed.

Lemma decode1_encode : forall c r, is_scalar c = true ->
  utf8_decode1 (utf8_encode c ++ r) = Some (c, r).
Proof.
  intros c r Hs.
  destruct (N.lt_ge_cases c 0x80) as [H1|H1]; [apply decode1_encode_1; assumption|].
  destruct (N.lt_ge_cases c 0x800) as [H2|H2]; [apply decode1_encode_2; lia|].
  destruct (N.lt_ge_cases c 0x10000) as [H3|H3]; [apply decode1_encode_3; [lia|assumption]|].
  apply decode1_encode_4. unfold is_scalar in Hs. lia.
Qed.

(* ------------------------------------------------------------------ *)
(* decode1 is sound: whatever it accepts is the encoding of the scalar it returns *)

Ltac hyp_if H :=
  match type of H with
  | context [if ?cnd then _ else _] =>
      lazymatch cnd with context [if _ then _ else _] => fail | _ => idtac end;
      let E := fresh "E" in destruct cnd eqn:E
  end.

Ltac finish_sound H :=
  injection H as <- <-; split;
  [ unfold is_scalar; timeout 60 lia
  | unfold utf8_encode; repeat step_if; cbn [app];
    repeat (apply (f_equal2 (@cons N)); [timeout 60 lia|]); reflexivity ].

Lemma decode1_sound : forall bs c r, utf8_decode1 bs = Some (c, r) ->
  is_scalar c = true /\ bs = utf8_encode c ++ r.
Proof.
  intros bs c r H. destruct bs as [|a r0]; [discriminate H|].
  unfold utf8_decode1, is_cont, in_range in H.
  hyp_if H.
  { finish_sound H. }
  hyp_if H.
  { destruct r0 as [|b r1]; [discriminate H|].
    repeat hyp_if H; try discriminate H.
    finish_sound H. }
  hyp_if H.
  { destruct r0 as [|b [|b2 r2]]; try discriminate H.
    repeat hyp_if H; try discriminate H; finish_sound H. }
  hyp_if H; [|discriminate H].
  destruct r0 as [|b [|b2 [|b3 r3]]]; try discriminate H.
  repeat hyp_if H; try discriminate H; finish_sound H.
Qed.

Lemma decode1_shorter : forall bs c r, utf8_decode1 bs = Some (c, r) ->
  (length r < length bs)%nat.
Proof.
  intros bs c r H. apply decode1_sound in H. destruct H as [_ ->].
  rewrite app_length. pose proof (encode_nonempty c) as Hn. lia.
Qed.

(* ------------------------------------------------------------------ *)
(* the fuel is irrelevant once it covers the input; unfolding equations for utf8_decode *)

Lemma decode_fuel_irrel : forall f1 f2 bs,
  (length bs <= f1)%nat -> (length bs <= f2)%nat ->
  utf8_decode_fuel f1 bs = utf8_decode_fuel f2 bs.
Proof.
  induction f1 as [|f1 IH]; intros f2 bs H1 H2.
  - destruct bs as [|b bs]; [destruct f2; reflexivity|cbn [length] in H1; lia].
  - destruct bs as [|b bs]; [destruct f2; reflexivity|].
    destruct f2 as [|f2]; [cbn [length] in H2; lia|].
    cbn [utf8_decode_fuel].
    destruct (utf8_decode1 (b :: bs)) as [[c r]|] eqn:E; [|reflexivity].
    apply decode1_shorter in E.
    rewrite (IH f2 r); [reflexivity|lia|lia].
Qed.

Lemma decode_nil : utf8_decode [] = ([], true).
Proof. reflexivity. Qed.

Lemma decode_step_some : forall bs c r, utf8_decode1 bs = Some (c, r) ->
  utf8_decode bs = (c :: fst (utf8_decode r), snd (utf8_decode r)).
Proof.
  intros bs c r H. pose proof (decode1_shorter _ _ _ H) as Hl.
  unfold utf8_decode. destruct bs as [|b bs]; [discriminate H|].
  cbn [length utf8_decode_fuel]. rewrite H.
  rewrite (decode_fuel_irrel (length bs) (length r) r); [|cbn [length] in Hl; lia|lia].
  destruct (utf8_decode_fuel (length r) r) as [cs ok]. reflexivity.
Qed.

Lemma decode_step_none : forall bs, bs <> [] -> utf8_decode1 bs = None ->
  utf8_decode bs = ([], false).
Proof.
  intros bs Hne H. unfold utf8_decode. destruct bs as [|b bs]; [congruence|].
  cbn [length utf8_decode_fuel]. rewrite H. reflexivity.
Qed.

(* ------------------------------------------------------------------ *)
(* whole sequences *)

Lemma encode_all_cons : forall c cs, utf8_encode_all (c :: cs) = utf8_encode c ++ utf8_encode_all cs.
Proof. reflexivity. Qed.

Lemma encode_all_app : forall cs1 cs2,
  utf8_encode_all (cs1 ++ cs2) = utf8_encode_all cs1 ++ utf8_encode_all cs2.
Proof. intros cs1 cs2. unfold utf8_encode_all. apply flat_map_app. Qed.

(* decoding the encoding of [cs] followed by anything: [cs], then whatever the rest decodes to *)
Lemma decode_encode_app : forall cs r, scalars cs ->
  utf8_decode (utf8_encode_all cs ++ r) = (cs ++ fst (utf8_decode r), snd (utf8_decode r)).
Proof.
  induction cs as [|c cs IH]; intros r Hs.
  - cbn [utf8_encode_all flat_map app]. destruct (utf8_decode r); reflexivity.
  - inversion Hs as [|c' cs' Hc Hcs]; subst.
    rewrite encode_all_cons, <- app_assoc.
    rewrite (decode_step_some _ c (utf8_encode_all cs ++ r)); [|apply decode1_encode; assumption].
    rewrite IH by assumption. reflexivity.
Qed.

Theorem decode_encode : forall cs, scalars cs -> utf8_decode (utf8_encode_all cs) = (cs, true).
Proof.
  intros cs Hs. pose proof (decode_encode_app cs [] Hs) as H.
  rewrite !app_nil_r in H. exact H.
Qed.

Theorem decode_sound : forall bs cs ok, utf8_decode bs = (cs, ok) ->
  scalars cs /\ exists rest, bs = utf8_encode_all cs ++ rest /\ (ok = true <-> rest = []) /\
    (ok = false -> rest <> [] /\ utf8_decode1 rest = None).
Proof.
  intros bs. remember (length bs) as n eqn:Hn. revert bs Hn.
  induction n as [n IH] using lt_wf_ind; intros bs Hn cs ok H.
  destruct bs as [|b bs'].
  - rewrite decode_nil in H. injection H as <- <-. split; [constructor|].
    exists []. split; [reflexivity|]. split; [tauto|discriminate].
  - destruct (utf8_decode1 (b :: bs')) as [[c r]|] eqn:E.
    + rewrite (decode_step_some _ _ _ E) in H. injection H as <- <-.
      pose proof (decode1_shorter _ _ _ E) as Hl.
      pose proof (decode1_sound _ _ _ E) as [Hc Hb].
      destruct (utf8_decode r) as [cs' ok'] eqn:Er.
      destruct (IH (length r) ltac:(lia) r eq_refl cs' ok' Er) as [Hs [rest [Hr [Hok Hno]]]].
      cbn [fst snd]. split; [constructor; assumption|].
      exists rest. split; [|split; assumption].
      rewrite encode_all_cons, <- app_assoc, <- Hr. exact Hb.
    + rewrite decode_step_none in H by (assumption || discriminate).
      injection H as <- <-. split; [constructor|].
      exists (b :: bs'). split; [reflexivity|]. split; [split; discriminate|].
      intros _. split; [discriminate|assumption].
Qed.

Theorem decode_valid_iff : forall bs, snd (utf8_decode bs) = true <-> valid_utf8 bs.
Proof.
  intros bs. split.
  - intros H. destruct (utf8_decode bs) as [cs ok] eqn:E. cbn [snd] in H. subst ok.
    destruct (decode_sound _ _ _ E) as [Hs [rest [Hb [Hok _]]]].
    exists cs. split; [assumption|].
    assert (rest = []) as -> by (apply Hok; reflexivity).
    rewrite app_nil_r in Hb. exact Hb.
  - intros [cs [Hs ->]]. rewrite decode_encode by assumption. reflexivity.
Qed.

Theorem decode_longest_prefix : forall bs cs ok, utf8_decode bs = (cs, ok) ->
  forall cs', scalars cs' -> (exists r, bs = utf8_encode_all cs' ++ r) -> exists t, cs = cs' ++ t.
Proof.
  intros bs cs ok H cs' Hs [r ->].
  rewrite decode_encode_app in H by assumption.
  injection H as <- _. eexists; reflexivity.
Qed.

Corollary valid_up_to : forall bs cs ok, utf8_decode bs = (cs, ok) -> ok = false ->
  forall n, (n <= length bs)%nat -> valid_utf8 (firstn n bs) -> (n <= length (utf8_encode_all cs))%nat.
Proof.
  intros bs cs ok H _ n Hn [cs' [Hs Hf]].
  destruct (decode_longest_prefix bs cs ok H cs' Hs) as [t ->].
  - exists (skipn n bs). rewrite <- Hf. symmetry. apply firstn_skipn.
  - rewrite encode_all_app, app_length, <- Hf, firstn_length. lia.
Qed.

Lemma no_bom_special : utf8_decode [0xEF; 0xBB; 0xBF] = ([0xFEFF], true).
Proof. vm_compute. reflexivity. Qed.

(* the rejected forms named in the specification *)
Lemma reject_overlong : utf8_decode1 [0xC0; 0xAF] = None.
Proof. vm_compute. reflexivity. Qed.
Lemma reject_surrogate : utf8_decode1 [0xED; 0xA0; 0x80] = None.
Proof. vm_compute. reflexivity. Qed.
Lemma reject_above_max : utf8_decode1 [0xF4; 0x90; 0x80; 0x80] = None.
Proof. vm_compute. reflexivity. Qed.

(* ------------------------------------------------------------------ *)
(* small consequences *)

(* the encoding is injective on scalar sequences: a valid byte string has ONE reading *)
Lemma encode_all_inj : forall cs1 cs2, scalars cs1 -> scalars cs2 ->
  utf8_encode_all cs1 = utf8_encode_all cs2 -> cs1 = cs2.
Proof.
  intros cs1 cs2 H1 H2 E. pose proof (decode_encode cs1 H1) as D1.
  rewrite E, (decode_encode cs2 H2) in D1. congruence.
Qed.

Lemma encode_all_bytes : forall cs, scalars cs ->
  Forall (fun b => is_byte b = true) (utf8_encode_all cs).
Proof.
  induction cs as [|c cs IH]; intros Hs; [constructor|].
  inversion Hs as [|c' cs' Hc Hcs]; subst.
  rewrite encode_all_cons. apply Forall_app. split; [apply encode_bytes; assumption|auto].
Qed.

(* the consumed prefix (what Utf8Error::valid_up_to delimits) is itself well formed;
   with [valid_up_to] it is the longest well-formed prefix of the input *)
Lemma decoded_prefix_valid : forall bs cs ok, utf8_decode bs = (cs, ok) ->
  firstn (length (utf8_encode_all cs)) bs = utf8_encode_all cs /\
  valid_utf8 (firstn (length (utf8_encode_all cs)) bs).
Proof.
  intros bs cs ok H. destruct (decode_sound _ _ _ H) as [Hs [rest [-> _]]].
  assert (firstn (length (utf8_encode_all cs)) (utf8_encode_all cs ++ rest) = utf8_encode_all cs) as E.
  { rewrite firstn_app, Nat.sub_diag, firstn_all. cbn [firstn]. apply app_nil_r. }
  rewrite E. split; [reflexivity|]. exists cs. split; [assumption|reflexivity].
Qed.

Print Assumptions utf8_len_encode.
Print Assumptions encode_bytes.
Print Assumptions decode1_encode.
Print Assumptions decode1_sound.
Print Assumptions decode_encode.
Print Assumptions decode_sound.
Print Assumptions decode_valid_iff.
Print Assumptions decode_longest_prefix.
Print Assumptions valid_up_to.
Print Assumptions no_bom_special.
Print Assumptions encode_all_inj.
Print Assumptions decoded_prefix_valid.
