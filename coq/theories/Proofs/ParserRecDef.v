(* Proofs/ParserRecDef.v -- the recursive-descent reference parser (definitions only).
   It calls the SAME leaf functions as the machine of Model/Parser.v (parse_fragment,
   array_continue, object_continue, end_fragment); only the control structure differs:
   the explicit stack becomes recursion on fuel.  Layer L1 proves machine = reference,
   layers L2/L3 relate the reference to Spec/Grammar.v. *)
From JsonSyntax Require Import Base.Prelude Base.Value Base.Unicode Model.Parser.

Notation "'do' x <- e ; f" := (obind e (fun x => f)) (at level 200, x pattern, e at level 100, f at level 200).

(* pvalue      : a whole value in context ctx                     (Fragment::parse_in + containers)
   parr_items  : frame FArrItem a i on top, no pending value      (expects a value, then parr_cont)
   parr_cont   : frame FArr a i on top                            (expects , or ])
   pobj_entry  : frame FObjEntry es i k e on top, no pending value
   pobj_cont   : frame FObj es i on top                           (expects , "key" : or }) *)
Fixpoint pvalue (fuel : nat) (o : opts) (ctx : context) (st : pstate) : res (value * N) :=
  match fuel with
  | O => OutOfFuel
  | S f =>
      do ((fr, i), st1) <- parse_fragment o ctx st;
      match fr with
      | FrValue v => Ok ((v, i), st1)
      | FrBeginArray => parr_items f o [] i st1
      | FrBeginObject k e => pobj_entry f o [] i k e st1
      end
  end
with parr_items (fuel : nat) (o : opts) (a : list value) (i : N) (st : pstate) : res (value * N) :=
  match fuel with
  | O => OutOfFuel
  | S f =>
      do ((v, _), st1) <- pvalue f o CArray st;
      parr_cont f o (a ++ [v]) i st1
  end
with parr_cont (fuel : nat) (o : opts) (a : list value) (i : N) (st : pstate) : res (value * N) :=
  match fuel with
  | O => OutOfFuel
  | S f =>
      do (item, st1) <- array_continue i st;
      if item then parr_items f o a i st1 else Ok ((VArr a, i), st1)
  end
with pobj_entry (fuel : nat) (o : opts) (es : list entry) (i : N) (k : key) (e : N) (st : pstate)
  : res (value * N) :=
  match fuel with
  | O => OutOfFuel
  | S f =>
      do ((v, _), st1) <- pvalue f o CObjectValue st;
      do (_, st2) <- end_fragment e st1;
      pobj_cont f o (es ++ [(k, v)]) i st2
  end
with pobj_cont (fuel : nat) (o : opts) (es : list entry) (i : N) (st : pstate) : res (value * N) :=
  match fuel with
  | O => OutOfFuel
  | S f =>
      do (next, st1) <- object_continue o i st;
      match next with
      | Some (k, e) => pobj_entry f o es i k e st1
      | None => Ok ((VObj es, i), st1)
      end
  end.

(* the top level: a value, white space, end of input *)
Definition ptop (fuel : nat) (o : opts) (st : pstate) : outcome perr (value * N * pstate) :=
  do ((v, i), st1) <- pvalue fuel o CNone st;
  do (_, st2) <- skip_whitespaces st1;
  do ((p, oc), st3) <- next_char st2;
  match oc with
  | Some ch => Err (EUnexpected p (Some ch))
  | None => Ok (v, i, st3)
  end.

Definition rec_fuel (s : list sitem) : nat := (3 * length s + 4)%nat.

Definition parse_items_rec (o : opts) (s : list sitem) : outcome perr (value * list cme) :=
  match ptop (rec_fuel s) o {| rest := s; pos := 0; cm := [] |} with
  | Ok (v, _, st) => Ok (v, cm st)
  | Err e => Err e
  | Panic x => Panic x
  | OutOfFuel => OutOfFuel
  end.
