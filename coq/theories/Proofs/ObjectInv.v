(* Proofs/ObjectInv.v -- the index invariant of the Object model and, for every operation,
   the refinement lemma: from [Inv o] the operation does not panic, re-establishes [Inv],
   and its entries and result are those of the list specification Spec/Multimap.v. *)
From Coq Require Import Sorting.Permutation Sorting.Sorted.
From JsonSyntax Require Import Base.Prelude Base.Value Model.Compare Model.Object Spec.Multimap.
Local Open Scope nat_scope.

(* ================================================================== *)
(* 1. generic list lemmas                                              *)
(* ================================================================== *)
Lemma remove_nth_drop_nth {A} n (l : list A) : remove_nth n l = drop_nth n l.
Proof.
  revert n; induction l as [|x l IH]; intros [|n]; cbn; auto; try (f_equal; auto).
Qed.

Lemma drop_nth_app {A} (x : list A) y z : drop_nth (length x) (x ++ y :: z) = x ++ z.
Proof. induction x as [|a x IH]; cbn; auto; try (f_equal; auto). Qed.

Lemma nth_error_mid {A} (x : list A) y z : nth_error (x ++ y :: z) (length x) = Some y.
Proof. induction x as [|a x IH]; cbn; auto. Qed.

Lemma replace_nth_app {A} (x : list A) y y' z : replace_nth (length x) y' (x ++ y :: z) = x ++ y' :: z.
Proof. induction x as [|a x IH]; cbn; auto; try (f_equal; auto). Qed.

Lemma has_key_eq k e : has_key k e = true <-> fst e = k.
Proof. unfold has_key. apply str_eqb_spec. Qed.

Lemma has_key_neq k e : has_key k e = false <-> fst e <> k.
Proof.
  split.
  - intros H E. apply has_key_eq in E. congruence.
  - intros H. destruct (has_key k e) eqn:E; auto. apply has_key_eq in E. contradiction.
Qed.

Lemma str_eqb_false a b : str_eqb a b = false <-> a <> b.
Proof.
  split.
  - intros H E. apply str_eqb_spec in E. congruence.
  - intros H. destruct (str_eqb a b) eqn:E; auto. apply str_eqb_spec in E. contradiction.
Qed.

Lemma str_eqb_sym a b : str_eqb a b = str_eqb b a.
Proof.
  destruct (str_eqb a b) eqn:E; symmetry.
  - apply str_eqb_spec in E. subst. apply str_eqb_refl.
  - apply str_eqb_false in E. apply str_eqb_false. congruence.
Qed.

Lemma remove_first_notin x l : Forall (fun j => j <> x) l -> remove_first x l = l.
Proof.
  induction 1 as [|y l Hy Hl IH]; cbn; auto.
  destruct (Nat.eqb_spec x y); [congruence|]. f_equal; auto.
Qed.

Lemma remove_first_app_notin x a b :
  Forall (fun j => j <> x) a -> remove_first x (a ++ b) = a ++ remove_first x b.
Proof.
  induction 1 as [|y l Hy Hl IH]; cbn; auto.
  destruct (Nat.eqb_spec x y); [congruence|]. f_equal; auto.
Qed.

(* ================================================================== *)
(* 2. positions_from                                                   *)
(* ================================================================== *)
Lemma pos_S s es k : positions_from (S s) es k = map S (positions_from s es k).
Proof.
  revert s; induction es as [|e r IH]; intros s; cbn; auto.
  destruct (has_key k e); cbn; rewrite IH; auto.
Qed.

Lemma pos_app s a b k :
  positions_from s (a ++ b) k = positions_from s a k ++ positions_from (s + length a) b k.
Proof.
  revert s; induction a as [|e a IH]; intros s; cbn [app positions_from length].
  - rewrite Nat.add_0_r; auto.
  - rewrite IH. replace (S s + length a) with (s + S (length a)) by lia.
    destruct (has_key k e); auto.
Qed.

Lemma pos_ge s es k : Forall (fun j => s <= j) (positions_from s es k).
Proof.
  revert s; induction es as [|e r IH]; intros s; cbn; auto.
  assert (H : Forall (fun j => s <= j) (positions_from (S s) r k)).
  { eapply Forall_impl; [|apply (IH (S s))]. cbn; intros; lia. }
  destruct (has_key k e); auto.
Qed.

Lemma pos_lt s es k : Forall (fun j => j < s + length es) (positions_from s es k).
Proof.
  revert s; induction es as [|e r IH]; intros s; cbn [positions_from length]; auto.
  assert (H : Forall (fun j => j < s + S (length r)) (positions_from (S s) r k)).
  { eapply Forall_impl; [|apply (IH (S s))]. cbn; intros; lia. }
  destruct (has_key k e); auto; constructor; auto; lia.
Qed.

Lemma pos_nil_filter s es k :
  positions_from s es k = [] -> filter (has_key k) es = [] /\ filter (lacks_key k) es = es.
Proof.
  revert s; induction es as [|e r IH]; intros s H; cbn in *; auto.
  unfold lacks_key at 1. destruct (has_key k e) eqn:E; [discriminate|]. cbn.
  destruct (IH _ H) as [-> ->]. auto.
Qed.

Lemma pos_hd s es k j r :
  positions_from s es k = j :: r ->
  exists a e b, es = a ++ e :: b /\ j = s + length a /\ has_key k e = true /\
                positions_from s a k = [] /\ r = positions_from (S j) b k.
Proof.
  revert s; induction es as [|e0 es IH]; intros s H; cbn in H; [discriminate|].
  destruct (has_key k e0) eqn:E.
  - inversion H; subst. exists [], e0, es. cbn. rewrite Nat.add_0_r. repeat split; auto.
  - destruct (IH _ H) as (a & e & b & -> & -> & He & Ha & ->).
    exists (e0 :: a), e, b. cbn [app length positions_from]. rewrite E.
    repeat split; auto; try lia.
Qed.

Lemma pos_mid s a e b k :
  positions_from s (a ++ e :: b) k =
  positions_from s a k ++ (if has_key k e then [s + length a] else []) ++
  positions_from (S (s + length a)) b k.
Proof.
  rewrite pos_app. cbn [positions_from]. destruct (has_key k e); auto.
Qed.

Lemma contains_pos s es k :
  m_contains es k = match positions_from s es k with [] => false | _ => true end.
Proof.
  unfold m_contains. revert s; induction es as [|e r IH]; intros s; cbn; auto.
  destruct (has_key k e); cbn; auto.
Qed.

Lemma pos_in_mid a e b k :
  In (length a) (positions_from 0 (a ++ e :: b) k) <-> has_key k e = true.
Proof.
  rewrite pos_mid. cbn [Nat.add]. rewrite !in_app_iff. split.
  - intros [H|[H|H]].
    + pose proof (pos_lt 0 a k) as F. rewrite Forall_forall in F. apply F in H. lia.
    + destruct (has_key k e); auto; destruct H.
    + pose proof (pos_ge (S (length a)) b k) as F. rewrite Forall_forall in F. apply F in H. lia.
  - intros ->. right; left; left; auto.
Qed.

Definition sd (i j : nat) : nat := if Nat.ltb i j then pred j else j.
Definition su (i j : nat) : nat := if Nat.leb i j then S j else j.

Lemma pos_remove a e b k :
  positions_from 0 (a ++ b) k =
  map (sd (length a)) (remove_first (length a) (positions_from 0 (a ++ e :: b) k)).
Proof.
  rewrite pos_mid, pos_app. cbn [Nat.add].
  pose proof (pos_lt 0 a k) as Fa. cbn [Nat.add] in Fa.
  pose proof (pos_ge (S (length a)) b k) as Fb.
  rewrite remove_first_app_notin.
  2:{ eapply Forall_impl; [|apply Fa]. cbn; intros; lia. }
  assert (R : remove_first (length a)
               ((if has_key k e then [length a] else []) ++ positions_from (S (length a)) b k)
              = positions_from (S (length a)) b k).
  { destruct (has_key k e); cbn [app remove_first].
    - rewrite Nat.eqb_refl; auto.
    - apply remove_first_notin. eapply Forall_impl; [|apply Fb]. cbn; intros; lia. }
  rewrite R, map_app. f_equal.
  - symmetry. rewrite <- (map_id (positions_from 0 a k)) at 2. apply map_ext_in.
    intros j Hj. rewrite Forall_forall in Fa. apply Fa in Hj. unfold sd.
    destruct (Nat.ltb_spec (length a) j); lia.
  - rewrite pos_S, map_map. rewrite <- (map_id (positions_from (length a) b k)) at 1.
    apply map_ext_in. intros j Hj.
    pose proof (pos_ge (length a) b k) as F. rewrite Forall_forall in F. apply F in Hj.
    unfold sd. destruct (Nat.ltb_spec (length a) (S j)); lia.
Qed.

Lemma pos_keys s es es' k : map fst es = map fst es' -> positions_from s es k = positions_from s es' k.
Proof.
  revert s es'; induction es as [|e r IH]; intros s [|e' r'] H; cbn in *; try discriminate; auto.
  inversion H as [[H1 H2]]. unfold has_key. rewrite H1, (IH (S s) r' H2). auto.
Qed.

(* the first position is smaller than the others *)
Lemma pos_hd_lt s es k j r : positions_from s es k = j :: r -> Forall (fun x => j < x) r.
Proof.
  intros H. destruct (pos_hd _ _ _ _ _ H) as (a & e & b & _ & _ & _ & _ & ->).
  eapply Forall_impl; [|apply pos_ge]. cbn; intros; lia.
Qed.

(* ================================================================== *)
(* 3. the invariant                                                    *)
(* ================================================================== *)
(* [InvG idx bs]: the bucket list [bs] represents the map [idx] from keys to position
   lists: the bucket hashed under k holds exactly [idx k] (representative first, then the
   others, in order), no two buckets are hashed under the same key, and every key with a
   non-empty position list has its bucket.  Buckets are never empty ([bucket_indexes]
   always has a head). *)
Definition InvG (idx : key -> list nat) (bs : list bucket) : Prop :=
  Forall (fun b => bucket_indexes b = idx (hkey b)) bs /\
  NoDup (map hkey bs) /\
  (forall k, idx k <> [] -> In k (map hkey bs)).

(* the object invariant: the index represents the linear-scan position lists *)
Definition Inv (o : obj) : Prop := InvG (m_indexes_of (entries o)) (buckets o).

Lemma inv_empty : Inv empty_obj.
Proof.
  split; [constructor|split; [constructor|]].
  intros k H. exfalso. apply H. reflexivity.
Qed.

Lemma InvG_ext idx idx' bs : (forall k, idx k = idx' k) -> InvG idx bs -> InvG idx' bs.
Proof.
  intros E (H1 & H2 & H3). repeat split; auto.
  - eapply Forall_impl; [|apply H1]. cbn; intros b Hb. rewrite <- E; auto.
  - intros k Hk. apply H3. rewrite E; auto.
Qed.

(* position of the bucket hashed under k *)
Fixpoint pos_of (k : key) (bs : list bucket) : option nat :=
  match bs with
  | [] => None
  | b :: r => if str_eqb (hkey b) k then Some 0 else option_map S (pos_of k r)
  end.

Definition rep_ok (es : list entry) (b : bucket) : Prop := key_at es (rep b) = Some (hkey b).

Lemma find_pos_ok es bs k : Forall (rep_ok es) bs -> find_pos es bs k = Some (pos_of k bs).
Proof.
  induction 1 as [|b r Hb Hr IH]; cbn; auto.
  destruct (str_eqb (hkey b) k) eqn:E.
  - unfold rep_ok in Hb. rewrite Hb, E. auto.
  - rewrite IH. destruct (pos_of k r); auto.
Qed.

Lemma rehash_ok es bs : Forall (rep_ok es) bs -> rehash es bs = Some bs.
Proof.
  induction 1 as [|b r Hb Hr IH]; cbn; auto.
  unfold rep_ok in Hb. rewrite Hb, IH. destruct b; auto.
Qed.

Lemma pos_of_some k bs n :
  pos_of k bs = Some n -> exists b, nth_error bs n = Some b /\ hkey b = k.
Proof.
  revert n; induction bs as [|b r IH]; intros n H; cbn in H; [discriminate|].
  destruct (str_eqb (hkey b) k) eqn:E.
  - inversion H; subst. exists b. split; auto. apply str_eqb_spec; auto.
  - destruct (pos_of k r) as [m|]; cbn in H; inversion H; subst.
    destruct (IH _ eq_refl) as (b' & ? & ?). exists b'; auto.
Qed.

Lemma pos_of_none k bs : pos_of k bs = None -> ~ In k (map hkey bs).
Proof.
  induction bs as [|b r IH]; cbn; auto.
  destruct (str_eqb (hkey b) k) eqn:E; [discriminate|].
  destruct (pos_of k r); cbn; [discriminate|]. intros _ [H|H].
  - apply str_eqb_false in E; auto.
  - apply IH; auto.
Qed.

Lemma pos_of_InvG idx bs k :
  InvG idx bs ->
  match pos_of k bs with
  | Some n => exists b, nth_error bs n = Some b /\ hkey b = k /\ bucket_indexes b = idx k
  | None => idx k = []
  end.
Proof.
  intros (H1 & H2 & H3). destruct (pos_of k bs) as [n|] eqn:E.
  - destruct (pos_of_some _ _ _ E) as (b & Hn & Hk). exists b. repeat split; auto.
    rewrite Forall_forall in H1. rewrite <- Hk. apply H1. eapply nth_error_In; eauto.
  - destruct (idx k) eqn:Ek; auto. exfalso. eapply pos_of_none; eauto.
    apply H3. rewrite Ek; discriminate.
Qed.

Lemma map_cond_id k (f : bucket -> bucket) r :
  ~ In k (map hkey r) -> map (fun b => if str_eqb (hkey b) k then f b else b) r = r.
Proof.
  induction r as [|b r IH]; cbn; auto. intros H. destruct (str_eqb (hkey b) k) eqn:E.
  - apply str_eqb_spec in E. tauto.
  - f_equal. apply IH. tauto.
Qed.

Lemma update_nth_map k f bs n :
  NoDup (map hkey bs) -> pos_of k bs = Some n ->
  update_nth n f bs = map (fun b => if str_eqb (hkey b) k then f b else b) bs.
Proof.
  revert n; induction bs as [|b r IH]; intros n ND H; cbn in H; [discriminate|].
  cbn in ND. inversion ND as [|x l Hx Hl]; subst.
  cbn [map]. destruct (str_eqb (hkey b) k) eqn:E.
  - inversion H; subst. cbn. f_equal. symmetry. apply map_cond_id.
    apply str_eqb_spec in E. subst; auto.
  - destruct (pos_of k r) as [m|]; cbn in H; inversion H; subst. cbn. f_equal. apply IH; auto.
Qed.

Lemma filter_cond_id k r :
  ~ In k (map hkey r) -> filter (fun b => negb (str_eqb (hkey b) k)) r = r.
Proof.
  induction r as [|b r IH]; cbn; auto. intros H. destruct (str_eqb (hkey b) k) eqn:E; cbn.
  - apply str_eqb_spec in E. tauto.
  - f_equal. apply IH. tauto.
Qed.

Lemma remove_nth_filter k bs n :
  NoDup (map hkey bs) -> pos_of k bs = Some n ->
  remove_nth n bs = filter (fun b => negb (str_eqb (hkey b) k)) bs.
Proof.
  revert n; induction bs as [|b r IH]; intros n ND H; cbn in H; [discriminate|].
  cbn in ND. inversion ND as [|x l Hx Hl]; subst.
  cbn [filter]. destruct (str_eqb (hkey b) k) eqn:E; cbn [negb].
  - inversion H; subst. cbn. symmetry. apply filter_cond_id.
    apply str_eqb_spec in E. subst; auto.
  - destruct (pos_of k r) as [m|]; cbn in H; inversion H; subst. cbn. f_equal. apply IH; auto.
Qed.

Lemma NoDup_map_filter {A B} (f : A -> B) p l : NoDup (map f l) -> NoDup (map f (filter p l)).
Proof.
  induction l as [|x l IH]; cbn; auto. intros H. inversion H as [|y m Hy Hm]; subst.
  destruct (p x); cbn; auto. constructor; auto.
  intros Hin. apply Hy. apply in_map_iff in Hin. destruct Hin as (z & Hz & Hin).
  apply filter_In in Hin. rewrite <- Hz. apply in_map. tauto.
Qed.

Lemma InvG_map idx idx' F bs :
  InvG idx bs ->
  (forall b, In b bs -> hkey (F b) = hkey b) ->
  (forall b, In b bs -> bucket_indexes b = idx (hkey b) -> bucket_indexes (F b) = idx' (hkey b)) ->
  (forall k, idx' k <> [] -> idx k <> [] \/ In k (map hkey bs)) ->
  InvG idx' (map F bs).
Proof.
  intros (H1 & H2 & H3) HF Hb Hc.
  assert (E : map hkey (map F bs) = map hkey bs).
  { rewrite map_map. apply map_ext_in. auto. }
  repeat split.
  - rewrite Forall_forall in *. intros b' Hin. apply in_map_iff in Hin.
    destruct Hin as (b & <- & Hin). rewrite HF; auto.
  - rewrite E; auto.
  - intros k Hk. rewrite E. destruct (Hc k Hk); auto.
Qed.

Lemma InvG_app idx idx' bs nb :
  InvG idx bs -> ~ In (hkey nb) (map hkey bs) ->
  bucket_indexes nb = idx' (hkey nb) ->
  (forall k, k <> hkey nb -> idx' k = idx k) ->
  InvG idx' (bs ++ [nb]).
Proof.
  intros (H1 & H2 & H3) Hn Hi He. repeat split.
  - apply Forall_app. split.
    + rewrite Forall_forall in *. intros b Hb. rewrite He; auto.
      intros E. apply Hn. rewrite <- E. apply in_map; auto.
    + constructor; auto.
  - rewrite map_app. cbn. eapply Permutation_NoDup; [apply Permutation_cons_append|].
    constructor; auto.
  - intros k Hk. rewrite map_app, in_app_iff. cbn.
    destruct (str_eqb k (hkey nb)) eqn:E.
    + apply str_eqb_spec in E. auto.
    + apply str_eqb_false in E. left. apply H3. rewrite <- He; auto.
Qed.

Lemma InvG_filter idx idx' bs k :
  InvG idx bs -> idx' k = [] -> (forall k', k' <> k -> idx' k' = idx k') ->
  InvG idx' (filter (fun b => negb (str_eqb (hkey b) k)) bs).
Proof.
  intros (H1 & H2 & H3) Hn He. repeat split.
  - rewrite Forall_forall in *. intros b Hb. apply filter_In in Hb. destruct Hb as [Hb Hk].
    apply negb_true_iff, str_eqb_false in Hk. rewrite He; auto.
  - apply NoDup_map_filter; auto.
  - intros k' Hk'. destruct (str_eqb k' k) eqn:E.
    + apply str_eqb_spec in E. subst. contradiction.
    + apply str_eqb_false in E. rewrite He in Hk'; auto. apply H3 in Hk'.
      apply in_map_iff in Hk'. destruct Hk' as (b & Hb & Hin). apply in_map_iff.
      exists b. split; auto. apply filter_In. split; auto.
      apply negb_true_iff, str_eqb_false. congruence.
Qed.

(* ---- Indexes::insert / remove ---- *)
Lemma insert_sorted_end x l : Forall (fun j => j < x) l -> insert_sorted x l = l ++ [x].
Proof.
  induction 1 as [|y l Hy Hl IH]; cbn [insert_sorted app]; auto.
  destruct (Nat.eqb_spec x y); [lia|]. destruct (Nat.ltb_spec x y); [lia|]. f_equal; auto.
Qed.

Lemma indexes_insert_hkey b i : hkey (indexes_insert b i) = hkey b.
Proof.
  unfold indexes_insert. destruct (Nat.eqb i (rep b)); auto. destruct (Nat.ltb i (rep b)); auto.
Qed.

Lemma indexes_insert_end b i :
  Forall (fun j => j < i) (bucket_indexes b) ->
  bucket_indexes (indexes_insert b i) = bucket_indexes b ++ [i].
Proof.
  unfold bucket_indexes, indexes_insert. intros H. inversion H as [|x l Hx Hl]; subst.
  destruct (Nat.eqb_spec i (rep b)); [lia|]. destruct (Nat.ltb_spec i (rep b)); [lia|].
  cbn. rewrite insert_sorted_end; auto.
Qed.

Lemma indexes_insert_front b :
  0 < rep b -> Forall (fun j => rep b < j) (other b) ->
  bucket_indexes (indexes_insert b 0) = 0 :: bucket_indexes b.
Proof.
  unfold bucket_indexes, indexes_insert. intros H0 H.
  destruct (Nat.eqb_spec 0 (rep b)); [lia|]. destruct (Nat.ltb_spec 0 (rep b)); [|lia].
  cbn [rep other]. f_equal. destruct (other b) as [|y r]; cbn [insert_sorted]; auto.
  inversion H as [|x l Hx Hl]; subst.
  destruct (Nat.eqb_spec (rep b) y); [lia|]. destruct (Nat.ltb_spec (rep b) y); [|lia]. auto.
Qed.

Lemma indexes_remove_ok b i :
  let '(b', kept) := indexes_remove b i in
  hkey b' = hkey b /\
  if kept then bucket_indexes b' = remove_first i (bucket_indexes b)
  else remove_first i (bucket_indexes b) = [].
Proof.
  unfold indexes_remove, bucket_indexes. cbn [remove_first]. rewrite (Nat.eqb_sym i (rep b)).
  destruct (Nat.eqb (rep b) i).
  - destruct (other b); cbn; auto.
  - cbn. auto.
Qed.

(* ---- IndexMap::insert / remove on a represented map ---- *)
Lemma im_insert_ok es bs i k idx idx' :
  key_at es i = Some k ->
  Forall (rep_ok es) bs ->
  InvG idx bs ->
  (forall b, bucket_indexes b = idx k -> bucket_indexes (indexes_insert b i) = idx' k) ->
  (idx k = [] -> idx' k = [i]) ->
  (forall k', k' <> k -> idx' k' = idx k') ->
  exists bs', im_insert es bs i = Some (bs', match idx k with [] => true | _ => false end) /\
              InvG idx' bs'.
Proof.
  intros Hk Hr HI Hins Hnew Hoth. unfold im_insert. rewrite Hk, (find_pos_ok _ _ _ Hr).
  pose proof (pos_of_InvG idx bs k HI) as P. destruct (pos_of k bs) as [n|] eqn:E.
  - destruct P as (b & Hn & Hb & Hi).
    assert (Hm : match idx k with [] => true | _ => false end = false).
    { rewrite <- Hi. reflexivity. }
    rewrite Hm. eexists; split; [reflexivity|].
    pose proof HI as (H1 & H2 & H3). rewrite (update_nth_map k _ _ _ H2 E).
    apply InvG_map with (idx := idx); auto.
    + intros b0 _. destruct (str_eqb (hkey b0) k); auto. apply indexes_insert_hkey.
    + intros b0 _ Hb0. destruct (str_eqb (hkey b0) k) eqn:E0.
      * apply str_eqb_spec in E0. rewrite E0 in *. apply Hins; auto.
      * apply str_eqb_false in E0. rewrite Hoth; auto.
    + intros k' Hk'. destruct (str_eqb k' k) eqn:E0.
      * apply str_eqb_spec in E0; subst. left. rewrite <- Hi. discriminate.
      * apply str_eqb_false in E0. left. rewrite <- Hoth; auto.
  - rewrite (rehash_ok _ _ Hr). rewrite P. eexists; split; [reflexivity|].
    apply InvG_app with (idx := idx); cbn; auto.
    + eapply pos_of_none; eauto.
    + symmetry; auto.
Qed.

Lemma im_remove_ok es bs i k idx :
  key_at es i = Some k -> Forall (rep_ok es) bs -> InvG idx bs ->
  In i (idx k) -> (forall k', k' <> k -> ~ In i (idx k')) ->
  exists bs', im_remove es bs i = Some bs' /\ InvG (fun k' => remove_first i (idx k')) bs'.
Proof.
  intros Hk Hr HI Hin Hoth. unfold im_remove. rewrite Hk, (find_pos_ok _ _ _ Hr).
  pose proof (pos_of_InvG idx bs k HI) as P. destruct (pos_of k bs) as [n|] eqn:E.
  2:{ rewrite P in Hin. destruct Hin. }
  destruct P as (b & Hn & Hb & Hi). rewrite Hn.
  pose proof (indexes_remove_ok b i) as R. destruct (indexes_remove b i) as [b' kept].
  destruct R as [Rk R].
  assert (Hno : forall k', k' <> k -> remove_first i (idx k') = idx k').
  { intros k' Hk'. apply remove_first_notin. apply Forall_forall. intros j Hj ->.
    eapply Hoth; eauto. }
  pose proof HI as (H1 & H2 & H3).
  destruct kept; eexists; (split; [reflexivity|]).
  - rewrite (update_nth_map k _ _ _ H2 E). apply InvG_map with (idx := idx); auto.
    + intros b0 _. destruct (str_eqb (hkey b0) k) eqn:E0; auto.
      apply str_eqb_spec in E0. congruence.
    + intros b0 _ Hi0. destruct (str_eqb (hkey b0) k) eqn:E0.
      * apply str_eqb_spec in E0. rewrite E0, R, Hi. auto.
      * apply str_eqb_false in E0. rewrite Hno; auto.
    + intros k' Hk'. left. intros Z. apply Hk'. rewrite Z. reflexivity.
  - rewrite (remove_nth_filter k _ _ H2 E). apply InvG_filter with (idx := idx); auto.
    rewrite <- Hi; auto.
Qed.

Lemma Inv_rep_ok es bs : InvG (m_indexes_of es) bs -> Forall (rep_ok es) bs.
Proof.
  intros (H1 & _). eapply Forall_impl; [|apply H1]. cbn. intros b Hb.
  unfold bucket_indexes, m_indexes_of in Hb. symmetry in Hb.
  destruct (pos_hd _ _ _ _ _ Hb) as (a & e & b' & -> & Hj & He & _). cbn in Hj.
  unfold rep_ok, key_at. rewrite Hj, nth_error_mid. destruct e as [k0 v0].
  apply has_key_eq in He. cbn in He. congruence.
Qed.

(* ---- the invariant, spelled out ---- *)
Lemma pos_in s es k j :
  In j (positions_from s es k) <-> exists i, j = s + i /\ key_at es i = Some k.
Proof.
  revert s; induction es as [|e r IH]; intros s; cbn [positions_from].
  - split; [intros []|]. intros (i & _ & H). destruct i; discriminate.
  - assert (Hcons : In j (positions_from (S s) r k) <->
                    exists i, j = s + S i /\ key_at r i = Some k).
    { rewrite IH. split; intros (i & -> & H); exists i; split; auto; lia. }
    destruct (has_key k e) eqn:E.
    + cbn [In]. rewrite Hcons. split.
      * intros [<-|(i & -> & H)].
        -- exists 0. split; [lia|]. unfold key_at; cbn. destruct e as [k0 v0].
           apply has_key_eq in E; cbn in E; congruence.
        -- exists (S i); auto.
      * intros (i & -> & H). destruct i as [|i]; [left; lia|]. right. exists i; auto.
    + rewrite Hcons. split.
      * intros (i & -> & H). exists (S i); auto.
      * intros (i & -> & H). destruct i as [|i]; [|exists i; auto].
        exfalso. unfold key_at in H; cbn in H. destruct e as [k0 v0]. inversion H.
        apply has_key_neq in E. cbn in E. congruence.
Qed.

Lemma pos_sorted s es k : StronglySorted lt (positions_from s es k).
Proof.
  revert s; induction es as [|e r IH]; intros s; cbn [positions_from]; [constructor|].
  destruct (has_key k e); auto. constructor; auto.
  eapply Forall_impl; [|apply (pos_ge (S s))]. cbn; intros; lia.
Qed.

Lemma NoDup_map_inj {A B} (f : A -> B) l x y :
  NoDup (map f l) -> In x l -> In y l -> f x = f y -> x = y.
Proof.
  induction l as [|a l IH]; cbn; [tauto|]. intros H Hx Hy E. inversion H as [|z m Hz Hm]; subst.
  destruct Hx as [->|Hx], Hy as [->|Hy]; auto.
  - exfalso. apply Hz. rewrite E. apply in_map; auto.
  - exfalso. apply Hz. rewrite <- E. apply in_map; auto.
Qed.

(* [Inv] in explicit form: a bucket holds exactly the positions carrying the key it is hashed
   under, representative first and smallest, the others strictly increasing; hashed keys are
   pairwise distinct; every position below the length lies in exactly one bucket. *)
Theorem Inv_explicit o :
  Inv o ->
  (forall b, In b (buckets o) ->
     (forall i, In i (bucket_indexes b) <-> key_at (entries o) i = Some (hkey b)) /\
     key_at (entries o) (rep b) = Some (hkey b) /\
     StronglySorted lt (rep b :: other b) /\
     Forall (fun i => i < length (entries o)) (bucket_indexes b)) /\
  NoDup (map hkey (buckets o)) /\
  (forall i, i < length (entries o) -> exists b, In b (buckets o) /\ In i (bucket_indexes b)) /\
  (forall b1 b2 i, In b1 (buckets o) -> In b2 (buckets o) ->
     In i (bucket_indexes b1) -> In i (bucket_indexes b2) -> b1 = b2).
Proof.
  intros HI. pose proof HI as (H1 & H2 & H3). rewrite Forall_forall in H1.
  assert (Hm : forall b, In b (buckets o) ->
               forall i, In i (bucket_indexes b) <-> key_at (entries o) i = Some (hkey b)).
  { intros b Hb i. rewrite (H1 b Hb). unfold m_indexes_of. rewrite pos_in. cbn [Nat.add].
    split; [intros (j & -> & H); auto|]. intros H. exists i; auto. }
  split; [|split; [auto|split]].
  - intros b Hb. split; [apply Hm; auto|]. split; [|split].
    + apply Hm; auto. left; auto.
    + fold (bucket_indexes b). rewrite (H1 b Hb). apply pos_sorted.
    + rewrite (H1 b Hb). apply (pos_lt 0).
  - intros i Hi. destruct (nth_error (entries o) i) as [e|] eqn:E;
      [|apply nth_error_None in E; lia].
    assert (Hk : key_at (entries o) i = Some (fst e)) by (unfold key_at; rewrite E; destruct e; auto).
    assert (Hin : In i (m_indexes_of (entries o) (fst e))).
    { unfold m_indexes_of. apply pos_in. exists i; auto. }
    assert (Hne : m_indexes_of (entries o) (fst e) <> []).
    { intros Z. rewrite Z in Hin. destruct Hin. }
    apply H3, in_map_iff in Hne. destruct Hne as (b & Hb & Hbin). exists b. split; auto.
    apply Hm; auto. congruence.
  - intros b1 b2 i Hb1 Hb2 Hi1 Hi2. apply (NoDup_map_inj hkey (buckets o)); auto.
    apply Hm in Hi1; auto. apply Hm in Hi2; auto. congruence.
Qed.

(* ================================================================== *)
(* 4. push, remove_at, queries                                         *)
(* ================================================================== *)
Lemma rep_ok_app es l b : rep_ok es b -> rep_ok (es ++ l) b.
Proof.
  unfold rep_ok, key_at. intros H.
  destruct (nth_error es (rep b)) eqn:E; [|discriminate].
  rewrite nth_error_app1, E; auto. apply nth_error_Some. congruence.
Qed.

(* IndexMap::insert of the position just after an indexed prefix (push, from_vec) *)
Lemma im_insert_push es e rest bs :
  InvG (m_indexes_of es) bs ->
  exists bs', im_insert (es ++ e :: rest) bs (length es) =
              Some (bs', match m_indexes_of es (fst e) with [] => true | _ => false end) /\
              InvG (m_indexes_of (es ++ [e])) bs'.
Proof.
  intros HI.
  assert (Hk : has_key (fst e) e = true) by (unfold has_key; apply str_eqb_refl).
  apply im_insert_ok with (idx := m_indexes_of es); auto.
  - unfold key_at. rewrite nth_error_mid. destruct e; auto.
  - eapply Forall_impl; [|apply Inv_rep_ok; exact HI]. intros b Hb. apply rep_ok_app; auto.
  - intros b Hb. unfold m_indexes_of in *. rewrite pos_app. cbn [positions_from Nat.add].
    rewrite Hk. rewrite indexes_insert_end, Hb; auto.
    rewrite Hb. apply (pos_lt 0 es (fst e)).
  - intros Hnil. unfold m_indexes_of in *. rewrite pos_app, Hnil. cbn [positions_from Nat.add app].
    rewrite Hk. auto.
  - intros k' Hk'. unfold m_indexes_of. rewrite pos_app. cbn [positions_from].
    assert (E : has_key k' e = false) by (apply has_key_neq; congruence).
    rewrite E, app_nil_r. auto.
Qed.

Lemma push_entry_refines o e :
  Inv o ->
  exists o' fresh, push_entry o e = Some (o', fresh) /\ Inv o' /\
                   (entries o', fresh) = m_push (entries o) e.
Proof.
  intros HI. destruct o as [es bs].
  unfold Inv, push_entry, m_push in *. cbv zeta. cbn [entries buckets] in *.
  destruct (im_insert_push es e [] bs HI) as (bs' & Hins & HI').
  eexists; eexists. rewrite Hins. split; [reflexivity|]. split; [exact HI'|].
  cbn [entries]. f_equal. rewrite (contains_pos 0). unfold m_indexes_of.
  destruct (positions_from 0 es (fst e)); auto.
Qed.

Lemma push_refines o k v :
  Inv o ->
  exists o' fresh, push o k v = Some (o', fresh) /\ Inv o' /\
                   (entries o', fresh) = m_push (entries o) (k, v).
Proof. apply push_entry_refines. Qed.

Lemma drop_nth_ge {A} n (l : list A) : length l <= n -> drop_nth n l = l.
Proof.
  revert n; induction l as [|x l IH]; intros [|n] H; cbn in *; auto; try lia.
  f_equal. apply IH. lia.
Qed.

Lemma remove_at_refines o i :
  Inv o ->
  exists o' r, remove_at o i = Some (o', r) /\ Inv o' /\
               (entries o', r) = m_remove_at (entries o) i.
Proof.
  intros HI. destruct o as [es bs]. unfold Inv, remove_at, m_remove_at in *.
  cbn [entries buckets] in *.
  destruct (Nat.ltb_spec i (length es)) as [Hlt|Hge].
  - destruct (nth_error es i) as [e|] eqn:En; [|apply nth_error_None in En; lia].
    destruct (nth_error_split _ _ En) as (a & b & -> & <-).
    assert (Hke : has_key (fst e) e = true) by (unfold has_key; apply str_eqb_refl).
    destruct (im_remove_ok (a ++ e :: b) bs (length a) (fst e)
                (m_indexes_of (a ++ e :: b))) as (bs' & Hr & HI'); auto.
    + unfold key_at. rewrite nth_error_mid; destruct e; auto.
    + apply Inv_rep_ok; auto.
    + apply pos_in_mid. auto.
    + intros k' Hk' Hin. apply pos_in_mid in Hin. apply has_key_eq in Hin. congruence.
    + eexists; eexists. rewrite Hr. split; [reflexivity|]. cbn [entries buckets]. split.
      * rewrite remove_nth_drop_nth, drop_nth_app. unfold im_shift_down.
        apply InvG_map
          with (idx := fun k' => remove_first (length a) (m_indexes_of (a ++ e :: b) k')); auto.
        -- intros b0 _ Hb0. unfold m_indexes_of. rewrite (pos_remove a e b).
           cbn [shift_down_b hkey]. unfold m_indexes_of in Hb0. rewrite <- Hb0. reflexivity.
        -- intros k' Hk'. left. intros Z. apply Hk'. unfold m_indexes_of in *.
           rewrite (pos_remove a e b), Z. reflexivity.
      * rewrite remove_nth_drop_nth. reflexivity.
  - exists {| entries := es; buckets := bs |}, None. split; auto. split; auto. f_equal.
    + rewrite drop_nth_ge; auto.
    + symmetry; apply nth_error_None; auto.
Qed.

(* ---- queries ---- *)
Definition conv_unique {A} (u : unique A) : m_unique A :=
  match u with UNone => MNone | UOne a => MOne a | UDup a b => MDup a b end.

Lemma conv_unique_of {A} (l : list A) : conv_unique (unique_of l) = m_unique_of l.
Proof. destruct l as [|a [|b r]]; reflexivity. Qed.

Lemma lookup_spec o k :
  Inv o ->
  exists ob, lookup o k = Some ob /\
             match ob with
             | Some b => bucket_indexes b = m_indexes_of (entries o) k
             | None => m_indexes_of (entries o) k = []
             end.
Proof.
  intros HI. unfold lookup, find. rewrite (find_pos_ok _ _ _ (Inv_rep_ok _ _ HI)).
  pose proof (pos_of_InvG _ _ k HI) as P. destruct (pos_of k (buckets o)) as [n|].
  - destruct P as (b & Hn & _ & Hi). exists (Some b). rewrite Hn; auto.
  - exists None; auto.
Qed.

Lemma entries_at_pos pre es k :
  entries_at (pre ++ es) (positions_from (length pre) es k) =
  Some (combine (positions_from (length pre) es k) (filter (has_key k) es)).
Proof.
  revert pre; induction es as [|e r IH]; intros pre; cbn [positions_from filter]; auto.
  specialize (IH (pre ++ [e])). rewrite <- app_assoc, app_length in IH.
  cbn [app length] in IH. rewrite Nat.add_1_r in IH.
  destruct (has_key k e); auto. cbn [entries_at combine]. rewrite nth_error_mid, IH. auto.
Qed.

Lemma pos_length s es k : length (positions_from s es k) = length (filter (has_key k) es).
Proof.
  revert s; induction es as [|e r IH]; intros s; cbn; auto.
  destruct (has_key k e); cbn; auto.
Qed.

Lemma map_snd_combine_eq {A B} (a : list A) (b : list B) :
  length a = length b -> map snd (combine a b) = b.
Proof.
  revert b; induction a as [|x a IH]; intros [|y b] H; cbn in *; try discriminate; auto.
  f_equal. apply IH. lia.
Qed.

Lemma index_of_refines o k : Inv o -> index_of o k = Some (m_index_of (entries o) k).
Proof.
  intros HI. destruct (lookup_spec o k HI) as (ob & Hl & Hob). unfold index_of, m_index_of.
  rewrite Hl. destruct ob as [b|]; [rewrite <- Hob|rewrite Hob]; reflexivity.
Qed.

Lemma redundant_index_of_refines o k :
  Inv o -> redundant_index_of o k = Some (m_redundant_index_of (entries o) k).
Proof.
  intros HI. destruct (lookup_spec o k HI) as (ob & Hl & Hob).
  unfold redundant_index_of, m_redundant_index_of.
  rewrite Hl. destruct ob as [b|]; [rewrite <- Hob|rewrite Hob]; reflexivity.
Qed.

Lemma indexes_of_refines o k : Inv o -> indexes_of o k = Some (m_indexes_of (entries o) k).
Proof.
  intros HI. destruct (lookup_spec o k HI) as (ob & Hl & Hob). unfold indexes_of.
  rewrite Hl. destruct ob as [b|]; [rewrite <- Hob|rewrite Hob]; reflexivity.
Qed.

Lemma get_entries_with_index_refines o k :
  Inv o -> get_entries_with_index o k = Some (m_get_entries_with_index (entries o) k).
Proof.
  intros HI. unfold get_entries_with_index. rewrite indexes_of_refines; auto.
  apply (entries_at_pos [] (entries o) k).
Qed.

Lemma get_entries_refines o k : Inv o -> get_entries o k = Some (m_get_entries (entries o) k).
Proof.
  intros HI. unfold get_entries. rewrite get_entries_with_index_refines; auto. cbn. f_equal.
  apply map_snd_combine_eq. apply pos_length.
Qed.

Lemma get_refines o k : Inv o -> get o k = Some (m_get (entries o) k).
Proof.
  intros HI. unfold get. rewrite get_entries_with_index_refines; auto. cbn. f_equal.
  unfold m_get, m_get_entries_with_index.
  rewrite <- (map_snd_combine_eq (m_indexes_of (entries o) k) (m_get_entries (entries o) k)) at 2.
  - rewrite map_map. reflexivity.
  - apply pos_length.
Qed.

Theorem queries_scan o k :
  Inv o ->
  contains_key o k = Some (m_contains (entries o) k) /\
  index_of o k = Some (m_index_of (entries o) k) /\
  redundant_index_of o k = Some (m_redundant_index_of (entries o) k) /\
  indexes_of o k = Some (m_indexes_of (entries o) k) /\
  get o k = Some (m_get (entries o) k) /\
  get_entries o k = Some (m_get_entries (entries o) k) /\
  get_entries_with_index o k = Some (m_get_entries_with_index (entries o) k) /\
  option_map conv_unique (get_unique o k) = Some (m_get_unique (entries o) k) /\
  option_map conv_unique (get_unique_entry o k) = Some (m_get_unique_entry (entries o) k).
Proof.
  intros HI. repeat split.
  - destruct (lookup_spec o k HI) as (ob & Hl & Hob). unfold contains_key. rewrite Hl.
    rewrite (contains_pos 0). fold (m_indexes_of (entries o) k).
    destruct ob as [b|]; [rewrite <- Hob|rewrite Hob]; reflexivity.
  - apply index_of_refines; auto.
  - apply redundant_index_of_refines; auto.
  - apply indexes_of_refines; auto.
  - apply get_refines; auto.
  - apply get_entries_refines; auto.
  - apply get_entries_with_index_refines; auto.
  - unfold get_unique, m_get_unique. rewrite get_refines; auto. cbn. rewrite conv_unique_of. auto.
  - unfold get_unique_entry, m_get_unique_entry. rewrite get_entries_refines; auto. cbn.
    rewrite conv_unique_of. auto.
Qed.

Lemma get_with_index_refines o k :
  Inv o ->
  get_with_index o k =
  Some (map (fun p => (fst p, snd (snd p))) (m_get_entries_with_index (entries o) k)).
Proof.
  intros HI. unfold get_with_index. rewrite get_entries_with_index_refines; auto.
Qed.

(* IndexMap::contains_duplicate_keys: some key is carried by at least two entries *)
Lemma contains_duplicate_keys_refines o :
  Inv o ->
  (im_contains_duplicate_keys (buckets o) = true <->
   exists k, 2 <= length (m_indexes_of (entries o) k)).
Proof.
  intros HI. unfold im_contains_duplicate_keys. rewrite existsb_exists. split.
  - intros (b & Hb & Ho). exists (hkey b). destruct HI as (H1 & _). rewrite Forall_forall in H1.
    rewrite <- (H1 b Hb). unfold bucket_indexes. destruct (other b); [discriminate|]. cbn. lia.
  - intros (k & Hk). pose proof (pos_of_InvG _ _ k HI) as P.
    destruct (pos_of k (buckets o)) as [n|].
    + destruct P as (b & Hn & _ & Hi). exists b. split; [eapply nth_error_In; eauto|].
      rewrite <- Hi in Hk. unfold bucket_indexes in Hk. destruct (other b); auto. cbn in Hk. lia.
    + rewrite P in Hk. cbn in Hk. lia.
Qed.

(* ================================================================== *)
(* 5. push_front                                                       *)
(* ================================================================== *)
Lemma push_entry_front_refines o e :
  Inv o ->
  exists o' fresh, push_entry_front o e = Some (o', fresh) /\ Inv o' /\
                   (entries o', fresh) = m_push_front (entries o) e.
Proof.
  intros HI. destruct o as [es bs].
  unfold Inv, push_entry_front, m_push_front in *. cbv zeta. cbn [entries buckets] in *.
  assert (Hk : has_key (fst e) e = true) by (unfold has_key; apply str_eqb_refl).
  assert (H1 : InvG (fun k => positions_from 1 es k) (im_shift_up bs 0)).
  { unfold im_shift_up. apply InvG_map with (idx := m_indexes_of es); auto.
    - intros b _ Hb. unfold bucket_indexes, shift_up_b in *. cbn [rep other hkey Nat.leb].
      rewrite pos_S. unfold m_indexes_of in Hb. rewrite <- Hb. reflexivity.
    - intros k Hk'. left. unfold m_indexes_of. intros Z. apply Hk'. rewrite pos_S, Z. reflexivity. }
  destruct (im_insert_ok (e :: es) (im_shift_up bs 0) 0 (fst e)
              (fun k => positions_from 1 es k) (m_indexes_of (e :: es))) as (bs' & Hins & HI'); auto.
  - unfold key_at; cbn. destruct e; auto.
  - unfold im_shift_up. apply Forall_forall. intros b' Hin. apply in_map_iff in Hin.
    destruct Hin as (b & <- & Hin). pose proof (Inv_rep_ok _ _ HI) as R.
    rewrite Forall_forall in R. apply R in Hin. unfold rep_ok, key_at, shift_up_b in *.
    cbn [rep hkey Nat.leb nth_error]. exact Hin.
  - intros b Hb. unfold m_indexes_of. cbn [positions_from]. rewrite Hk.
    rewrite indexes_insert_front.
    + rewrite Hb; reflexivity.
    + pose proof (pos_ge 1 es (fst e)) as F. rewrite <- Hb in F. unfold bucket_indexes in F.
      inversion F; subst. lia.
    + symmetry in Hb. unfold bucket_indexes in Hb. eapply pos_hd_lt; eauto.
  - intros Hnil. unfold m_indexes_of. cbn [positions_from]. rewrite Hk, Hnil. auto.
  - intros k' Hk'. unfold m_indexes_of. cbn [positions_from].
    assert (E : has_key k' e = false) by (apply has_key_neq; congruence).
    rewrite E. auto.
  - eexists; eexists. rewrite Hins. split; [reflexivity|]. split; [exact HI'|].
    cbn [entries]. f_equal. rewrite (contains_pos 1).
    destruct (positions_from 1 es (fst e)); auto.
Qed.

Lemma push_front_refines o k v :
  Inv o ->
  exists o' fresh, push_front o k v = Some (o', fresh) /\ Inv o' /\
                   (entries o', fresh) = m_push_front (entries o) (k, v).
Proof. apply push_entry_front_refines. Qed.

(* ================================================================== *)
(* 6. the removal loops: remove, insert, insert_front                  *)
(* ================================================================== *)
Lemma filter_len {A} p (l : list A) : length (filter p l) <= length l.
Proof. induction l as [|x l IH]; cbn; auto. destruct (p x); cbn; lia. Qed.

Lemma filter_has_pre s k a b :
  positions_from s a k = [] -> filter (has_key k) (a ++ b) = filter (has_key k) b.
Proof. intros H. destruct (pos_nil_filter _ _ _ H) as [H1 _]. rewrite filter_app, H1. auto. Qed.

Lemma filter_has_mid s k a e b :
  positions_from s a k = [] -> has_key k e = true ->
  filter (has_key k) (a ++ e :: b) = e :: filter (has_key k) b.
Proof. intros H He. rewrite (filter_has_pre s); auto. cbn. rewrite He. auto. Qed.

Lemma filter_lacks_mid k a e b :
  has_key k e = true -> filter (lacks_key k) (a ++ e :: b) = filter (lacks_key k) (a ++ b).
Proof. intros He. rewrite !filter_app. cbn. unfold lacks_key at 2. rewrite He. auto. Qed.

Lemma filter_lacks_pre s k a b :
  positions_from s a k = [] -> filter (lacks_key k) (a ++ b) = a ++ filter (lacks_key k) b.
Proof. intros H. destruct (pos_nil_filter _ _ _ H) as [_ H2]. rewrite filter_app, H2. auto. Qed.

Lemma remove_all_refines fuel o k :
  Inv o -> length (m_get_entries (entries o) k) < fuel ->
  exists o', remove_all fuel o k = Some (o', m_get_entries (entries o) k) /\ Inv o' /\
             entries o' = filter (lacks_key k) (entries o).
Proof.
  revert o; induction fuel as [|f IH]; intros o HI Hf; [lia|].
  cbn [remove_all]. rewrite index_of_refines; auto. unfold m_index_of, m_indexes_of.
  unfold m_get_entries in *.
  destruct (positions_from 0 (entries o) k) as [|j r] eqn:E; cbn [hd_error].
  - destruct (pos_nil_filter _ _ _ E) as [H1 H2]. exists o. rewrite H1, H2. auto.
  - destruct (pos_hd _ _ _ _ _ E) as (a & e & b & Hes & Hj & He & Ha & _). cbn in Hj. subst j.
    destruct (remove_at_refines o (length a) HI) as (o' & res & Hr & HI' & Hm). rewrite Hr.
    unfold m_remove_at in Hm. rewrite Hes, drop_nth_app, nth_error_mid in Hm.
    inversion Hm as [[Hes' Hres]]. clear Hm.
    rewrite Hes, (filter_has_mid 0) in *; auto. cbn [length] in Hf.
    destruct (IH o' HI') as (o'' & Hrec & HI'' & Hes'').
    + rewrite Hes', (filter_has_pre 0); auto. lia.
    + rewrite Hrec. exists o''. split; [|split; auto].
      * rewrite Hes', (filter_has_pre 0); auto.
      * rewrite Hes'', Hes', filter_lacks_mid; auto.
Qed.

Lemma remove_refines o k :
  Inv o ->
  exists o' r, remove o k = Some (o', r) /\ Inv o' /\ (entries o', r) = m_remove (entries o) k.
Proof.
  intros HI. unfold remove, m_remove.
  destruct (remove_all_refines (S (length (entries o))) o k HI) as (o' & H & HI' & He).
  - unfold m_get_entries. pose proof (filter_len (has_key k) (entries o)). lia.
  - exists o', (m_get_entries (entries o) k). rewrite He. auto.
Qed.

Lemma remove_unique_refines o k :
  Inv o ->
  exists o' r, remove_unique o k = Some (o', r) /\ Inv o' /\
               (entries o', conv_unique r) = m_remove_unique (entries o) k.
Proof.
  intros HI. unfold remove_unique, m_remove_unique.
  destruct (remove_refines o k HI) as (o' & r & H & HI' & He). rewrite H.
  unfold m_remove in He. inversion He as [[He1 He2]].
  eexists; eexists; split; [reflexivity|]. split; auto. rewrite conv_unique_of. auto.
Qed.

(* RemovedByInsertion / RemovedByInsertFront drained: [at_] is the first position of its key *)
Lemma purge_refines fuel o a e b :
  Inv o -> entries o = a ++ e :: b -> positions_from 0 a (fst e) = [] ->
  length (filter (has_key (fst e)) b) < fuel ->
  exists o', purge_redundant fuel o (length a) = Some (o', filter (has_key (fst e)) b) /\ Inv o' /\
             entries o' = a ++ e :: filter (lacks_key (fst e)) b.
Proof.
  revert o b; induction fuel as [|f IH]; intros o b HI Hes Ha Hf; [lia|].
  assert (Hk : has_key (fst e) e = true) by (unfold has_key; apply str_eqb_refl).
  cbn [purge_redundant].
  assert (Hka : key_at (entries o) (length a) = Some (fst e)).
  { unfold key_at. rewrite Hes, nth_error_mid. destruct e; auto. }
  rewrite Hka. rewrite redundant_index_of_refines; auto.
  unfold m_redundant_index_of, m_indexes_of. rewrite Hes, pos_mid, Ha, Hk. cbn [app tl Nat.add].
  destruct (positions_from (S (length a)) b (fst e)) as [|j r] eqn:E; cbn [hd_error].
  - destruct (pos_nil_filter _ _ _ E) as [H1 H2]. exists o. rewrite H1, H2. auto.
  - destruct (pos_hd _ _ _ _ _ E) as (b1 & e2 & b2 & Hb & Hj & He2 & Hb1 & _).
    assert (Hj' : j = length (a ++ e :: b1)) by (rewrite app_length; cbn [length]; lia).
    assert (Hes2 : entries o = (a ++ e :: b1) ++ e2 :: b2).
    { rewrite Hes, Hb, <- app_assoc. reflexivity. }
    destruct (remove_at_refines o j HI) as (o' & res & Hr & HI' & Hm). rewrite Hr.
    unfold m_remove_at in Hm. rewrite Hes2, Hj', drop_nth_app, nth_error_mid in Hm.
    inversion Hm as [[Hes' Hres]]. clear Hm.
    rewrite Hb, (filter_has_mid (S (length a))) in *; auto. cbn [length] in Hf.
    destruct (IH o' (b1 ++ b2) HI') as (o'' & Hrec & HI'' & Hes''); auto.
    + rewrite Hes', <- app_assoc. reflexivity.
    + rewrite (filter_has_pre (S (length a))); auto. lia.
    + rewrite Hrec. exists o''. split; [|split; auto].
      * rewrite (filter_has_pre (S (length a))); auto.
      * rewrite Hes'', filter_lacks_mid; auto.
Qed.

Lemma firstn_app_len {A} (a l : list A) : firstn (length a) (a ++ l) = a.
Proof. induction a as [|x a IH]; cbn; [destruct l|]; auto. f_equal; auto. Qed.

Lemma skipn_app_len {A} (a : list A) e b : skipn (S (length a)) (a ++ e :: b) = b.
Proof. induction a as [|x a IH]; cbn; auto. Qed.

Lemma Inv_same_keys o es' :
  Inv o -> map fst (entries o) = map fst es' -> Inv {| entries := es'; buckets := buckets o |}.
Proof.
  intros HI Hk. unfold Inv in *. cbn [entries buckets]. eapply InvG_ext; [|exact HI].
  intros k. unfold m_indexes_of. apply pos_keys; auto.
Qed.

Lemma insert_refines o k v :
  Inv o ->
  exists o' r, insert o k v = Some (o', r) /\ Inv o' /\ (entries o', r) = m_insert (entries o) k v.
Proof.
  intros HI. unfold insert, m_insert. rewrite index_of_refines; auto.
  unfold m_index_of, m_indexes_of.
  destruct (positions_from 0 (entries o) k) as [|j r] eqn:E; cbn [hd_error].
  - destruct (push_refines o k v HI) as (o' & fresh & Hp & HI' & Hm). rewrite Hp.
    exists o', None. split; auto. split; auto. unfold m_push in Hm.
    inversion Hm as [[Hm1 Hm2]]. rewrite Hm1. reflexivity.
  - destruct (pos_hd _ _ _ _ _ E) as (a & e & b & Hes & Hj & He & Ha & _). cbn in Hj. subst j.
    rewrite Hes. rewrite nth_error_mid, replace_nth_app. cbv zeta.
    apply has_key_eq in He.
    destruct (purge_refines (length (a ++ e :: b))
                {| entries := a ++ (k, v) :: b; buckets := buckets o |} a (k, v) b)
      as (o' & Hp & HI' & Hes'); auto.
    + apply Inv_same_keys; auto. rewrite Hes, !map_app. cbn. rewrite He. auto.
    + rewrite app_length. cbn [length fst].
      pose proof (filter_len (has_key k) b). lia.
    + cbn [fst] in *. unfold entry in *. rewrite Hp. eexists; eexists. split; [reflexivity|]. split; auto.
      rewrite Hes', firstn_app_len, skipn_app_len.
      unfold m_get_entries. rewrite (filter_has_mid 0); auto. apply has_key_eq; auto.
Qed.

(* push_front followed by the drained RemovedByInsertFront iterator *)
Lemma push_front_purge o k v fuel :
  Inv o -> length (entries o) < fuel ->
  exists o', match push_front o k v with
             | None => None
             | Some (o1, _) => purge_redundant fuel o1 0
             end = Some (o', m_get_entries (entries o) k) /\ Inv o' /\
             entries o' = (k, v) :: filter (lacks_key k) (entries o).
Proof.
  intros HI Hf. destruct (push_front_refines o k v HI) as (o1 & fresh & Hp & HI1 & Hm).
  rewrite Hp. unfold m_push_front in Hm. inversion Hm as [[Hm1 Hm2]].
  destruct (purge_refines fuel o1 [] (k, v) (entries o)) as (o' & Hp' & HI' & Hes'); auto.
  - cbn [fst]. pose proof (filter_len (has_key k) (entries o)). lia.
  - cbn [fst length app] in *. exists o'. auto.
Qed.

Lemma insert_front_refines o k v :
  Inv o ->
  exists o' r, insert_front o k v = Some (o', r) /\ Inv o' /\
               (entries o', r) = m_insert_front (entries o) k v.
Proof.
  intros HI. unfold insert_front, m_insert_front.
  destruct (entries o) as [|[k0 v0] r] eqn:Hes.
  - destruct (push_front_purge o k v 1 HI) as (o' & H & HI' & He); [rewrite Hes; cbn; lia|].
    rewrite H. rewrite Hes in *. exists o', (m_get_entries [] k). rewrite He. auto.
  - destruct (str_eqb k0 k) eqn:Ek.
    + apply str_eqb_spec in Ek. subst k0.
      destruct (purge_refines (length ((k, v0) :: r))
                  {| entries := (k, v) :: r; buckets := buckets o |} [] (k, v) r)
        as (o' & Hp & HI' & Hes'); auto.
      * apply Inv_same_keys; auto. rewrite Hes. reflexivity.
      * cbn [length fst]. pose proof (filter_len (has_key k) r). unfold entry in *. lia.
      * cbn [fst length app] in *. unfold entry in *. rewrite Hp.
        eexists; eexists. split; [reflexivity|]. split; auto. rewrite Hes'.
        unfold m_get_entries. cbn [filter]. unfold lacks_key at 2. unfold has_key at 2 3.
        cbn [fst]. rewrite str_eqb_refl. reflexivity.
    + destruct (push_front_purge o k v (S (length ((k0, v0) :: r))) HI) as (o' & H & HI' & He).
      { rewrite Hes. unfold entry in *. cbn [length]. lia. }
      unfold entry in *. rewrite H. rewrite Hes in *. eexists; eexists. split; [reflexivity|]. split; auto.
      rewrite He. auto.
Qed.

Lemma get_or_insert_with_refines o k v :
  Inv o ->
  exists o' r, get_or_insert_with o k v = Some (o', r) /\ Inv o' /\
               (entries o', r) = m_get_or_insert_with (entries o) k v.
Proof.
  intros HI. unfold get_or_insert_with, m_get_or_insert_with. rewrite index_of_refines; auto.
  unfold m_index_of, m_indexes_of, m_get, m_get_entries.
  destruct (positions_from 0 (entries o) k) as [|j r] eqn:E; cbn [hd_error].
  - destruct (push_refines o k v HI) as (o' & fresh & Hp & HI' & Hm). rewrite Hp.
    destruct (pos_nil_filter _ _ _ E) as [H1 _]. rewrite H1. cbn [map].
    exists o', v. split; auto. split; auto. unfold m_push in Hm.
    inversion Hm as [[Hm1 Hm2]]. rewrite Hm1. reflexivity.
  - destruct (pos_hd _ _ _ _ _ E) as (a & e & b & Hes & Hj & He & Ha & _). cbn in Hj. subst j.
    rewrite Hes, nth_error_mid, (filter_has_mid 0); auto. cbn [map].
    exists o, (snd e). rewrite Hes. auto.
Qed.

(* ================================================================== *)
(* 7. set_value_at, extend, from_vec, from_iter                        *)
(* ================================================================== *)
Lemma update_nth_set es i v : update_nth i (fun e : entry => (fst e, v)) es = m_set_value_at es i v.
Proof.
  revert i; induction es as [|[k w] r IH]; intros [|i]; cbn; auto. f_equal; auto.
Qed.

Lemma set_value_keys es i v : map fst (m_set_value_at es i v) = map fst es.
Proof.
  revert i; induction es as [|[k w] r IH]; intros [|i]; cbn; auto. f_equal; auto.
Qed.

Lemma set_value_at_refines o i v :
  Inv o ->
  Inv (set_value_at o i v) /\ entries (set_value_at o i v) = m_set_value_at (entries o) i v.
Proof.
  intros HI. unfold set_value_at. rewrite update_nth_set. split; auto.
  apply Inv_same_keys; auto. rewrite set_value_keys. auto.
Qed.

Lemma extend_refines l : forall o,
  Inv o -> exists o', extend o l = Some o' /\ Inv o' /\ entries o' = m_extend (entries o) l.
Proof.
  unfold m_extend. induction l as [|e r IH]; intros o HI; cbn [extend].
  - exists o. rewrite app_nil_r. auto.
  - destruct (push_entry_refines o e HI) as (o1 & fresh & Hp & HI1 & Hm). rewrite Hp.
    unfold m_push in Hm. inversion Hm as [[Hm1 Hm2]].
    destruct (IH o1 HI1) as (o' & He & HI' & Hes). exists o'. split; auto. split; auto.
    rewrite Hes, Hm1, <- app_assoc. reflexivity.
Qed.

Lemma from_iter_refines l : exists o, from_iter l = Some o /\ Inv o /\ entries o = l.
Proof.
  unfold from_iter. destruct (extend_refines l empty_obj inv_empty) as (o & H & HI & He).
  exists o. auto.
Qed.

Lemma insert_all_ok es2 : forall es1 bs,
  InvG (m_indexes_of es1) bs ->
  exists bs', insert_all (es1 ++ es2) bs (length es1) (length es2) = Some bs' /\
              InvG (m_indexes_of (es1 ++ es2)) bs'.
Proof.
  induction es2 as [|e r IH]; intros es1 bs HI; cbn [insert_all length].
  - exists bs. rewrite app_nil_r. auto.
  - destruct (im_insert_push es1 e r bs HI) as (bs1 & H1 & HI1). rewrite H1.
    destruct (IH (es1 ++ [e]) bs1 HI1) as (bs' & H & HI').
    rewrite <- app_assoc, app_length in H. cbn [app length] in H. rewrite Nat.add_1_r in H.
    rewrite <- app_assoc in HI'. exists bs'. auto.
Qed.

Lemma from_vec_refines l : exists o, from_vec l = Some o /\ Inv o /\ entries o = m_from_vec l.
Proof.
  unfold from_vec, m_from_vec.
  destruct (insert_all_ok l [] []) as (bs & H & HI); [apply inv_empty|].
  cbn [app length] in H. rewrite H. eexists. split; [reflexivity|]. split; auto.
Qed.

(* ================================================================== *)
(* 8. sort                                                             *)
(* ================================================================== *)
Lemma insert_by_perm {A} (cmp : A -> A -> comparison) x l : Permutation (x :: l) (insert_by cmp x l).
Proof.
  induction l as [|y r IH]; cbn; auto. destruct (cmp x y); auto.
  eapply perm_trans; [apply perm_swap|]. constructor; auto.
Qed.

Lemma stable_sort_perm {A} (cmp : A -> A -> comparison) l : Permutation l (stable_sort cmp l).
Proof.
  unfold stable_sort. induction l as [|x r IH]; cbn; auto.
  eapply perm_trans; [|apply insert_by_perm]. constructor; auto.
Qed.

Section Sorted.
  Context {A : Type} (cmp : A -> A -> comparison).
  Hypothesis cmp_total : forall a b, cmp a b = Gt -> cmp b a <> Gt.
  Hypothesis cmp_trans : forall a b c, cmp a b <> Gt -> cmp b c <> Gt -> cmp a c <> Gt.

  Lemma insert_by_sorted x l :
    StronglySorted (fun a b => cmp a b <> Gt) l ->
    StronglySorted (fun a b => cmp a b <> Gt) (insert_by cmp x l).
  Proof.
    induction 1 as [|y r Hr IH Hy]; cbn [insert_by].
    - constructor; constructor.
    - destruct (cmp x y) eqn:E.
      + constructor; [constructor; auto|]. constructor; [congruence|].
        eapply Forall_impl; [|exact Hy]. cbn. intros z Hz. eapply cmp_trans; eauto. congruence.
      + constructor; [constructor; auto|]. constructor; [congruence|].
        eapply Forall_impl; [|exact Hy]. cbn. intros z Hz. eapply cmp_trans; eauto. congruence.
      + constructor; auto. apply Forall_forall. intros z Hz.
        apply (Permutation_in _ (Permutation_sym (insert_by_perm cmp x r))) in Hz.
        destruct Hz as [<-|Hz]; [apply cmp_total; auto|].
        rewrite Forall_forall in Hy. auto.
  Qed.

  Lemma stable_sort_sorted l : StronglySorted (fun a b => cmp a b <> Gt) (stable_sort cmp l).
  Proof.
    unfold stable_sort. induction l as [|x r IH]; cbn [fold_right].
    - constructor.
    - apply insert_by_sorted; auto.
  Qed.
End Sorted.

Lemma sort_with_refines cmp o :
  exists o', sort_with cmp o = Some o' /\ Inv o' /\ entries o' = stable_sort cmp (entries o) /\
             Permutation (entries o) (entries o').
Proof.
  unfold sort_with. destruct (from_vec_refines (stable_sort cmp (entries o))) as (o' & H & HI & He).
  exists o'. unfold m_from_vec in He. split; [auto|split; [auto|split; [auto|]]].
  rewrite He. apply stable_sort_perm.
Qed.

(* [cmp_total] and [cmp_trans] (facts about Model.Compare.entry_cmp proved elsewhere) are
   explicit hypotheses: they are needed for sortedness only, not for [Inv] nor [Permutation]. *)
Theorem sort_refines
  (cmp_total : forall a b, entry_cmp a b = Gt -> entry_cmp b a <> Gt)
  (cmp_trans : forall a b c, entry_cmp a b <> Gt -> entry_cmp b c <> Gt -> entry_cmp a c <> Gt) o :
  Inv o -> exists o', sort o = Some o' /\ Inv o' /\ m_is_sort_of entry_cmp (entries o) (entries o').
Proof.
  intros _. unfold sort. destruct (sort_with_refines entry_cmp o) as (o' & H & HI & He & Hp).
  exists o'. split; [auto|split; [auto|split; [auto|]]].
  unfold m_sorted_by. rewrite He. apply stable_sort_sorted; auto.
Qed.

Theorem sort_refines_uncond o :
  exists o', sort o = Some o' /\ Inv o' /\ entries o' = stable_sort entry_cmp (entries o) /\
             Permutation (entries o) (entries o').
Proof. apply sort_with_refines. Qed.

Print Assumptions inv_empty.
Print Assumptions Inv_explicit.
Print Assumptions push_refines.
Print Assumptions push_front_refines.
Print Assumptions remove_at_refines.
Print Assumptions insert_refines.
Print Assumptions insert_front_refines.
Print Assumptions remove_refines.
Print Assumptions remove_unique_refines.
Print Assumptions get_or_insert_with_refines.
Print Assumptions set_value_at_refines.
Print Assumptions extend_refines.
Print Assumptions from_vec_refines.
Print Assumptions from_iter_refines.
Print Assumptions sort_refines.
Print Assumptions sort_refines_uncond.
Print Assumptions queries_scan.
