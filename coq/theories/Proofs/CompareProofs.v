(* Proofs/CompareProofs.v -- the derived PartialEq/Eq/PartialOrd/Ord/Hash of Value and
   Entry (Model/Compare.v) form a lawful total order consistent with ==, and the hash
   write stream determines the value.
   Generic lex_cmp laws and the UTF-8 order lemmas are in Proofs/Utf8Order.v. *)
From JsonSyntax Require Import Base.Prelude Base.Value Base.Unicode Model.Compare.
From JsonSyntax Require Import Proofs.Utf8Order.

(* ------------------------------------------------------------------------- *)
(* Well-formed values: strings and keys are sequences of scalar values        *)
(* ------------------------------------------------------------------------- *)
Fixpoint wfv (v : value) : Prop :=
  match v with
  | VStr s => Forall (fun c => is_scalar c = true) s
  | VArr l =>
      (fix go (l : list value) : Prop :=
         match l with
         | [] => True
         | x :: r => wfv x /\ go r
         end) l
  | VObj l =>
      (fix go (l : list (list N * value)) : Prop :=
         match l with
         | [] => True
         | (k, x) :: r => (Forall (fun c => is_scalar c = true) k /\ wfv x) /\ go r
         end) l
  | _ => True
  end.

Definition wf_entry (e : entry) : Prop :=
  Forall (fun c => is_scalar c = true) (fst e) /\ wfv (snd e).

Lemma wfv_arr l : wfv (VArr l) <-> Forall wfv l.
Proof.
  induction l as [|x l IH]; cbn [wfv].
  - split; [constructor|exact (fun _ => I)].
  - cbn [wfv] in IH. rewrite IH. split.
    + intros [Hx Hl]. constructor; assumption.
    + intros H. inversion H; subst. split; assumption.
Qed.

Lemma wfv_obj l : wfv (VObj l) <-> Forall wf_entry l.
Proof.
  induction l as [|[k x] l IH]; cbn [wfv].
  - split; [constructor|exact (fun _ => I)].
  - cbn [wfv] in IH. rewrite IH. split.
    + intros [Hx Hl]. constructor; assumption.
    + intros H. inversion H; subst. split; assumption.
Qed.

(* ------------------------------------------------------------------------- *)
(* The local fixpoints of value_cmp are lex_cmp                               *)
(* ------------------------------------------------------------------------- *)
Lemma entry_cmp_pair : entry_cmp = pair_cmp str_cmp value_cmp.
Proof. reflexivity. Qed.

Lemma value_cmp_arr x y : value_cmp (VArr x) (VArr y) = lex_cmp value_cmp x y.
Proof.
  revert y. induction x as [|p x IH]; intros [|q y]; try reflexivity.
  cbn [lex_cmp]. rewrite <- IH. reflexivity.
Qed.

Lemma value_cmp_obj x y : value_cmp (VObj x) (VObj y) = lex_cmp entry_cmp x y.
Proof.
  revert y. induction x as [|[k p] x IH]; intros [|[k' q] y]; try reflexivity.
  cbn [lex_cmp]. rewrite <- IH. unfold entry_cmp. cbn [fst snd].
  change (value_cmp (VObj ((k, p) :: x)) (VObj ((k', q) :: y)))
    with (match str_cmp k k' with
          | Eq => match value_cmp p q with Eq => value_cmp (VObj x) (VObj y) | c => c end
          | c => c
          end).
  destruct (str_cmp k k'); try reflexivity.
Qed.

(* objects compare as their entry lists (src/object/mod.rs:801-858) *)
Lemma value_cmp_obj_entries x y : value_cmp (VObj x) (VObj y) = entries_cmp x y.
Proof. apply value_cmp_obj. Qed.

Lemma entry_Forall (P : value -> Prop) (Q : entry -> Prop) l :
  (forall e, P (snd e) -> Q e) -> Forall (fun e : list N * value => P (snd e)) l -> Forall Q l.
Proof. intros H HF. eapply Forall_impl; [|exact HF]. exact H. Qed.

(* ------------------------------------------------------------------------- *)
(* Pointwise laws of value_cmp, by nested induction                           *)
(* ------------------------------------------------------------------------- *)
Lemma value_cmp_refl_at : forall a, refl_at value_cmp a.
Proof.
  induction a as [| b | s | s | l IH | l IH] using value_ind'; unfold refl_at.
  - reflexivity.
  - destruct b; reflexivity.
  - apply bytes_cmp_refl.
  - apply str_cmp_refl.
  - rewrite value_cmp_arr. apply lex_cmp_refl_at, IH.
  - rewrite value_cmp_obj. apply lex_cmp_refl_at.
    apply (entry_Forall _ _ _ (fun e He => pair_cmp_refl_at _ _ e (str_cmp_refl _) He)), IH.
Qed.

Lemma value_cmp_antisym_at : forall a, antisym_at value_cmp a.
Proof.
  induction a as [| b | s | s | l IH | l IH] using value_ind'; intros [| b' | s' | s' | l' | l'];
    try reflexivity.
  - destruct b, b'; reflexivity.
  - apply bytes_cmp_antisym.
  - apply str_cmp_antisym.
  - rewrite !value_cmp_arr. apply lex_cmp_antisym_at, IH.
  - rewrite !value_cmp_obj. apply lex_cmp_antisym_at.
    refine (entry_Forall _ _ _ _ IH). intros e He.
    apply pair_cmp_antisym_at; [|exact He]. intros q. apply str_cmp_antisym.
Qed.

Lemma value_cmp_trans_at : forall a, trans_at value_cmp a.
Proof.
  induction a as [| b | s | s | l IH | l IH] using value_ind';
    intros [| b' | s' | s' | l' | l'] [| b'' | s'' | s'' | l'' | l''];
    try solve [ cbn; auto
              | match goal with |- comp_compose ?x _ _ => destruct x; cbn; auto end
              | match goal with |- comp_compose _ ?y _ => destruct y; cbn; auto end ].
  - destruct b, b', b''; cbn; auto.
  - apply (bytes_cmp_trans_at s s' s'').
  - apply (str_cmp_trans_at s s' s'').
  - rewrite !value_cmp_arr. apply lex_cmp_trans_at, IH.
  - rewrite !value_cmp_obj. apply lex_cmp_trans_at.
    refine (entry_Forall _ _ _ _ IH). intros e He.
    apply pair_cmp_trans_at; [apply str_cmp_trans_at|exact He].
Qed.

(* No well-formedness needed: the model's UTF-8 encoder is injective on all of N. *)
Lemma value_cmp_eq_at : forall a, eq_at value_cmp a.
Proof.
  induction a as [| b | s | s | l IH | l IH] using value_ind'; intros [| b' | s' | s' | l' | l'];
    try (cbn; split; discriminate).
  - split; reflexivity.
  - destruct b, b'; cbn; split; congruence.
  - cbn [value_cmp]. unfold num_cmp. rewrite bytes_cmp_eq_iff. split; congruence.
  - cbn [value_cmp]. rewrite str_cmp_eq_iff_strong. split; congruence.
  - rewrite value_cmp_arr, (lex_cmp_eq_at _ _ IH l'). split; congruence.
  - rewrite value_cmp_obj.
    assert (H : Forall (eq_at entry_cmp) l).
    { refine (entry_Forall _ _ _ _ IH). intros e He.
      apply pair_cmp_eq_at; [|exact He]. intros k. apply str_cmp_eq_iff_strong. }
    rewrite (lex_cmp_eq_at _ _ H l'). split; congruence.
Qed.

(* ------------------------------------------------------------------------- *)
(* Total order laws for value_cmp                                             *)
(* ------------------------------------------------------------------------- *)
Theorem cmp_refl : forall a, value_cmp a a = Eq.
Proof. exact value_cmp_refl_at. Qed.

Theorem cmp_antisym : forall a b, value_cmp b a = CompOpp (value_cmp a b).
Proof. intros a b. apply value_cmp_antisym_at. Qed.

Theorem cmp_trans : forall a b c x,
  value_cmp a b = x -> value_cmp b c = x -> value_cmp a c = x.
Proof. intros a b c x. apply trans_at_same, value_cmp_trans_at. Qed.

(* mixed cases *)
Theorem cmp_trans_eq_l : forall a b c, value_cmp a b = Eq -> value_cmp a c = value_cmp b c.
Proof. intros a b c. apply trans_at_eq_l, value_cmp_trans_at. Qed.

Theorem cmp_trans_eq_r : forall a b c, value_cmp b c = Eq -> value_cmp a c = value_cmp a b.
Proof. intros a b c. apply trans_at_eq_r, value_cmp_trans_at. Qed.

Theorem cmp_le_trans : forall a b c,
  value_cmp a b <> Gt -> value_cmp b c <> Gt -> value_cmp a c <> Gt.
Proof. intros a b c. apply trans_at_le, value_cmp_trans_at. Qed.

Theorem cmp_lt_le_trans : forall a b c,
  value_cmp a b = Lt -> value_cmp b c <> Gt -> value_cmp a c = Lt.
Proof. intros a b c. apply trans_at_lt_le, value_cmp_trans_at. Qed.

Theorem cmp_le_lt_trans : forall a b c,
  value_cmp a b <> Gt -> value_cmp b c = Lt -> value_cmp a c = Lt.
Proof. intros a b c. apply trans_at_le_lt, value_cmp_trans_at. Qed.

Theorem cmp_eq_iff_strong : forall a b, value_cmp a b = Eq <-> a = b.
Proof. intros a b. apply value_cmp_eq_at. Qed.

Theorem cmp_eq_iff : forall a b, wfv a -> wfv b -> (value_cmp a b = Eq <-> a = b).
Proof. intros a b _ _. apply cmp_eq_iff_strong. Qed.

Theorem eq_iff_cmp_strong : forall a b, value_eq a b = true <-> value_cmp a b = Eq.
Proof. intros a b. unfold value_eq. rewrite value_eqb_spec, cmp_eq_iff_strong. reflexivity. Qed.

Theorem eq_iff_cmp : forall a b, wfv a -> wfv b -> (value_eq a b = true <-> value_cmp a b = Eq).
Proof. intros a b _ _. apply eq_iff_cmp_strong. Qed.

Theorem partial_cmp_total : forall a b, partial_cmp a b = Some (value_cmp a b).
Proof. reflexivity. Qed.

(* ------------------------------------------------------------------------- *)
(* Entries                                                                    *)
(* ------------------------------------------------------------------------- *)
Lemma entry_cmp_refl_at e : refl_at entry_cmp e.
Proof. apply pair_cmp_refl_at; [apply str_cmp_refl|apply value_cmp_refl_at]. Qed.

Lemma entry_cmp_antisym_at e : antisym_at entry_cmp e.
Proof.
  apply pair_cmp_antisym_at; [|apply value_cmp_antisym_at]. intros q. apply str_cmp_antisym.
Qed.

Lemma entry_cmp_trans_at e : trans_at entry_cmp e.
Proof. apply pair_cmp_trans_at; [apply str_cmp_trans_at|apply value_cmp_trans_at]. Qed.

Lemma entry_cmp_eq_at e : eq_at entry_cmp e.
Proof.
  apply pair_cmp_eq_at; [|apply value_cmp_eq_at]. intros k. apply str_cmp_eq_iff_strong.
Qed.

Theorem entry_cmp_refl : forall a, entry_cmp a a = Eq.
Proof. exact entry_cmp_refl_at. Qed.

Theorem entry_cmp_antisym : forall a b, entry_cmp b a = CompOpp (entry_cmp a b).
Proof. intros a b. apply entry_cmp_antisym_at. Qed.

Theorem entry_cmp_trans : forall a b c x,
  entry_cmp a b = x -> entry_cmp b c = x -> entry_cmp a c = x.
Proof. intros a b c x. apply trans_at_same, entry_cmp_trans_at. Qed.

Theorem entry_cmp_trans_eq_l : forall a b c, entry_cmp a b = Eq -> entry_cmp a c = entry_cmp b c.
Proof. intros a b c. apply trans_at_eq_l, entry_cmp_trans_at. Qed.

Theorem entry_cmp_trans_eq_r : forall a b c, entry_cmp b c = Eq -> entry_cmp a c = entry_cmp a b.
Proof. intros a b c. apply trans_at_eq_r, entry_cmp_trans_at. Qed.

Theorem entry_cmp_eq_iff_strong : forall a b, entry_cmp a b = Eq <-> a = b.
Proof. intros a b. apply entry_cmp_eq_at. Qed.

Theorem entry_cmp_eq_iff : forall a b, wf_entry a -> wf_entry b -> (entry_cmp a b = Eq <-> a = b).
Proof. intros a b _ _. apply entry_cmp_eq_iff_strong. Qed.

(* for the sorting proofs *)
Lemma entry_cmp_total : forall a b, entry_cmp a b = Gt -> entry_cmp b a <> Gt.
Proof. intros a b H. rewrite entry_cmp_antisym, H. discriminate. Qed.

Lemma entry_cmp_le_trans : forall a b c,
  entry_cmp a b <> Gt -> entry_cmp b c <> Gt -> entry_cmp a c <> Gt.
Proof. intros a b c. apply trans_at_le, entry_cmp_trans_at. Qed.

Lemma entry_cmp_lt_le_trans : forall a b c,
  entry_cmp a b = Lt -> entry_cmp b c <> Gt -> entry_cmp a c = Lt.
Proof. intros a b c. apply trans_at_lt_le, entry_cmp_trans_at. Qed.

Lemma entry_cmp_le_lt_trans : forall a b c,
  entry_cmp a b <> Gt -> entry_cmp b c = Lt -> entry_cmp a c = Lt.
Proof. intros a b c. apply trans_at_le_lt, entry_cmp_trans_at. Qed.

(* entry lists (Object's Ord) *)
Theorem entries_cmp_refl : forall a, entries_cmp a a = Eq.
Proof. apply lex_cmp_refl, entry_cmp_refl. Qed.

Theorem entries_cmp_antisym : forall a b, entries_cmp b a = CompOpp (entries_cmp a b).
Proof. apply lex_cmp_antisym. intros x y. apply entry_cmp_antisym. Qed.

Lemma entries_cmp_trans_at a : trans_at entries_cmp a.
Proof. apply lex_cmp_trans, entry_cmp_trans_at. Qed.

Theorem entries_cmp_trans : forall a b c x,
  entries_cmp a b = x -> entries_cmp b c = x -> entries_cmp a c = x.
Proof. intros a b c x. apply trans_at_same, entries_cmp_trans_at. Qed.

Theorem entries_cmp_le_trans : forall a b c,
  entries_cmp a b <> Gt -> entries_cmp b c <> Gt -> entries_cmp a c <> Gt.
Proof. intros a b c. apply trans_at_le, entries_cmp_trans_at. Qed.

Theorem entries_cmp_eq_iff_strong : forall a b, entries_cmp a b = Eq <-> a = b.
Proof. apply lex_cmp_eq_iff, entry_cmp_eq_iff_strong. Qed.

Theorem entries_cmp_eq_iff : forall a b, Forall wf_entry a -> Forall wf_entry b ->
  (entries_cmp a b = Eq <-> a = b).
Proof. intros a b _ _. apply entries_cmp_eq_iff_strong. Qed.

(* ------------------------------------------------------------------------- *)
(* Hash                                                                       *)
(* ------------------------------------------------------------------------- *)
Theorem hash_eq : forall a b, value_eq a b = true -> hash_stream a = hash_stream b.
Proof. intros a b H. apply value_eqb_spec in H. rewrite H. reflexivity. Qed.

Lemma flat_map_app_inj {A B} (f : A -> list B) l :
  Forall (fun x => forall y r r', f x ++ r = f y ++ r' -> x = y /\ r = r') l ->
  forall l0 r r', length l = length l0 ->
    flat_map f l ++ r = flat_map f l0 ++ r' -> l = l0 /\ r = r'.
Proof.
  induction 1 as [|x l Hx _ IH]; intros [|y l0] r r' Hlen H; cbn in Hlen; try discriminate.
  - cbn in H. auto.
  - cbn [flat_map] in H. rewrite <- !app_assoc in H.
    apply Hx in H. destruct H as [-> H]. apply IH in H; [|lia].
    destruct H as [-> ->]. auto.
Qed.

Definition entry_stream (e : list N * value) : list hwrite :=
  HBytes (utf8_encode_all (fst e)) :: HU8 0xFF :: hash_stream (snd e).

Lemma hash_stream_arr l :
  hash_stream (VArr l) = HDiscr 4 :: HLen (N.of_nat (length l)) :: flat_map hash_stream l.
Proof. reflexivity. Qed.

Lemma hash_stream_obj l :
  hash_stream (VObj l) = HDiscr 5 :: HLen (N.of_nat (length l)) :: flat_map entry_stream l.
Proof. reflexivity. Qed.

(* Prefix-freeness of the write stream: a value can be read back off the front. *)
Theorem hash_stream_app_inj_strong : forall a b r r',
  hash_stream a ++ r = hash_stream b ++ r' -> a = b /\ r = r'.
Proof.
  induction a as [| b | s | s | l IH | l IH] using value_ind';
    intros [| b' | s' | s' | l' | l'] r r' H;
    rewrite ?hash_stream_arr, ?hash_stream_obj in H; cbn [hash_stream app] in H;
    try discriminate H.
  - inversion H. auto.
  - inversion H as [[E1 E2]]. destruct b, b'; try discriminate E1; auto.
  - inversion H as [[E1 E2 E3]]. auto.
  - inversion H as [[E1 E2]]. apply utf8_encode_all_inj_strong in E1. subst. auto.
  - inversion H as [[E1 E2]]. apply flat_map_app_inj in E2; [|exact IH|lia].
    destruct E2 as [-> ->]. auto.
  - inversion H as [[E1 E2]]. apply flat_map_app_inj in E2; [| |lia].
    + destruct E2 as [-> ->]. auto.
    + eapply Forall_impl; [|exact IH]. intros [k v] He [k' v'] q q' E.
      unfold entry_stream in E. cbn [fst snd app] in E. cbn [snd] in He.
      inversion E as [[E3 E4]]. apply utf8_encode_all_inj_strong in E3.
      apply He in E4. destruct E4 as [-> ->]. subst. auto.
Qed.

Theorem hash_stream_app_inj : forall a b r r', wfv a -> wfv b ->
  hash_stream a ++ r = hash_stream b ++ r' -> a = b /\ r = r'.
Proof. intros a b r r' _ _. apply hash_stream_app_inj_strong. Qed.

Theorem hash_stream_inj_strong : forall a b, hash_stream a = hash_stream b -> a = b.
Proof.
  intros a b H. apply (hash_stream_app_inj_strong a b [] []). rewrite !app_nil_r. exact H.
Qed.

Theorem hash_stream_inj : forall a b, wfv a -> wfv b -> hash_stream a = hash_stream b -> a = b.
Proof. intros a b _ _. apply hash_stream_inj_strong. Qed.

(* k1 == k2 -> hash(k1) == hash(k2), and conversely on streams *)
Corollary hash_stream_eq_iff : forall a b, hash_stream a = hash_stream b <-> value_eq a b = true.
Proof.
  intros a b. split; [|apply hash_eq].
  intros H. apply value_eqb_spec, hash_stream_inj_strong, H.
Qed.

(* ------------------------------------------------------------------------- *)
(* Byte-level hash input (beyond the task statement)                          *)
(* ------------------------------------------------------------------------- *)
(* In [hash_stream] the boundaries between writes are visible, which is why the
   theorems above need neither the length prefixes, nor the 0xFF terminators, nor
   well-formedness.  A streaming Hasher (SipHash, the std default) only sees the
   concatenation of the bytes written.  Below the writes are flattened to bytes --
   discriminants and length prefixes as [w]-byte little-endian words (w = 8 on a
   64-bit target; endianness is immaterial for injectivity) -- and the byte string
   is shown to determine the value.  Here [wfv] and the terminators do matter. *)
Fixpoint le_bytes (k : nat) (n : N) : list N :=
  match k with
  | O => []
  | S k' => n mod 256 :: le_bytes k' (n / 256)
  end.

Fixpoint pow256 (k : nat) : N :=
  match k with O => 1 | S k' => 256 * pow256 k' end.

Lemma pow256_8 : pow256 8 = 2 ^ 64.
Proof. reflexivity. Qed.

Definition hwrite_bytes (w : nat) (x : hwrite) : list N :=
  match x with
  | HDiscr d => le_bytes w d
  | HLen n => le_bytes w n
  | HBytes b => b
  | HU8 b => [b]
  end.

Definition hash_bytes (w : nat) (v : value) : list N :=
  flat_map (hwrite_bytes w) (hash_stream v).

(* every length that gets written fits in a machine word *)
Fixpoint lens_ok (w : nat) (v : value) : Prop :=
  match v with
  | VNum s => N.of_nat (length s) < pow256 w
  | VArr l =>
      N.of_nat (length l) < pow256 w /\
      (fix go (l : list value) : Prop :=
         match l with
         | [] => True
         | x :: r => lens_ok w x /\ go r
         end) l
  | VObj l =>
      N.of_nat (length l) < pow256 w /\
      (fix go (l : list (list N * value)) : Prop :=
         match l with
         | [] => True
         | (k, x) :: r => lens_ok w x /\ go r
         end) l
  | _ => True
  end.

Lemma lens_ok_arr w l :
  lens_ok w (VArr l) <-> N.of_nat (length l) < pow256 w /\ Forall (lens_ok w) l.
Proof.
  cbn [lens_ok]. apply and_iff_compat_l.
  induction l as [|x l IH].
  - split; [constructor|exact (fun _ => I)].
  - rewrite IH. split.
    + intros [Hx Hl]. constructor; assumption.
    + intros H. inversion H; subst. split; assumption.
Qed.

Lemma lens_ok_obj w l :
  lens_ok w (VObj l) <->
  N.of_nat (length l) < pow256 w /\ Forall (fun e => lens_ok w (snd e)) l.
Proof.
  cbn [lens_ok]. apply and_iff_compat_l.
  induction l as [|[k x] l IH].
  - split; [constructor|exact (fun _ => I)].
  - rewrite IH. split.
    + intros [Hx Hl]. constructor; assumption.
    + intros H. inversion H; subst. split; assumption.
Qed.

Lemma le_bytes_length k : forall n, length (le_bytes k n) = k.
Proof. induction k as [|k IH]; intros n; cbn [le_bytes length]; [reflexivity|]. rewrite IH. reflexivity. Qed.

Lemma pow256_pos k : 0 < pow256 k.
Proof. induction k as [|k IH]; cbn [pow256]; lia. Qed.

Lemma pow256_ge k : (0 < k)%nat -> 256 <= pow256 k.
Proof. destruct k as [|k]; [lia|]. intros _. cbn [pow256]. pose proof (pow256_pos k). lia. Qed.

Section WordArith.
  Local Ltac Zify.zify_post_hook ::= Z.div_mod_to_equations.

  Lemma le_bytes_inj k : forall n m,
    n < pow256 k -> m < pow256 k -> le_bytes k n = le_bytes k m -> n = m.
  Proof.
    induction k as [|k IH]; intros n m Hn Hm H; cbn [le_bytes pow256] in *.
    - lia.
    - injection H as H0 H1. apply IH in H1; lia.
  Qed.
End WordArith.

Lemma app_inj_length {A} (a b r r' : list A) :
  length a = length b -> a ++ r = b ++ r' -> a = b /\ r = r'.
Proof.
  revert b. induction a as [|x a IH]; intros [|y b] Hl H; cbn in Hl; try discriminate.
  - auto.
  - cbn [app] in H. injection H as -> H. apply IH in H; [|lia]. destruct H as [-> ->]. auto.
Qed.

Lemma word_app_inj w n m r r' : n < pow256 w -> m < pow256 w ->
  le_bytes w n ++ r = le_bytes w m ++ r' -> n = m /\ r = r'.
Proof.
  intros Hn Hm H. apply app_inj_length in H; [|rewrite !le_bytes_length; reflexivity].
  destruct H as [H ->]. apply le_bytes_inj in H; auto.
Qed.

Lemma flat_map_flat_map {A B C} (f : B -> list C) (g : A -> list B) l :
  flat_map f (flat_map g l) = flat_map (fun x => flat_map f (g x)) l.
Proof.
  induction l as [|x l IH]; cbn [flat_map]; [reflexivity|].
  rewrite flat_map_app, IH. reflexivity.
Qed.

Definition entry_bytes (w : nat) (e : list N * value) : list N :=
  utf8_encode_all (fst e) ++ 0xFF :: hash_bytes w (snd e).

Definition hash_body (w : nat) (v : value) : list N :=
  match v with
  | VNull => []
  | VBool b => [if b then 1 else 0]
  | VNum s => le_bytes w (N.of_nat (length s)) ++ s
  | VStr s => utf8_encode_all s ++ [0xFF]
  | VArr l => le_bytes w (N.of_nat (length l)) ++ flat_map (hash_bytes w) l
  | VObj l => le_bytes w (N.of_nat (length l)) ++ flat_map (entry_bytes w) l
  end.

Lemma hash_bytes_eqn w v :
  hash_bytes w v = le_bytes w (variant_index v) ++ hash_body w v.
Proof.
  destruct v as [| b | s | s | l | l]; unfold hash_bytes;
    rewrite ?hash_stream_arr, ?hash_stream_obj;
    cbn [hash_stream flat_map hwrite_bytes variant_index hash_body app];
    rewrite ?app_nil_r; try reflexivity.
  - rewrite flat_map_flat_map. reflexivity.
  - rewrite flat_map_flat_map. reflexivity.
Qed.

Lemma variant_index_lt w v : (0 < w)%nat -> variant_index v < pow256 w.
Proof. intros Hw. pose proof (pow256_ge w Hw). destruct v; cbn [variant_index]; lia. Qed.

Lemma flat_map_app_inj_dom {A B} (f : A -> list B) (Q : A -> Prop) l :
  Forall (fun x => forall y r r', Q y -> f x ++ r = f y ++ r' -> x = y /\ r = r') l ->
  forall l0 r r', Forall Q l0 -> length l = length l0 ->
    flat_map f l ++ r = flat_map f l0 ++ r' -> l = l0 /\ r = r'.
Proof.
  induction 1 as [|x l Hx _ IH]; intros [|y l0] r r' HQ Hlen H; cbn in Hlen; try discriminate.
  - cbn in H. auto.
  - cbn [flat_map] in H. rewrite <- !app_assoc in H. inversion HQ as [|? ? Qy Ql0]; subst.
    apply Hx in H; [|exact Qy]. destruct H as [-> H]. apply IH in H; [|exact Ql0|lia].
    destruct H as [-> ->]. auto.
Qed.

(* The bytes fed to a streaming hasher determine the value, and a value can be read
   back off the front of any byte stream that starts with its hash input. *)
Theorem hash_bytes_app_inj : forall w, (0 < w)%nat -> forall a b r r',
  wfv a -> lens_ok w a -> wfv b -> lens_ok w b ->
  hash_bytes w a ++ r = hash_bytes w b ++ r' -> a = b /\ r = r'.
Proof.
  intros w Hw.
  induction a as [| b | s | s | l IH | l IH] using value_ind';
    intros v r r' Wa La Wv Lv H;
    rewrite !hash_bytes_eqn, <- !app_assoc in H;
    (apply word_app_inj in H; [|apply variant_index_lt, Hw|apply variant_index_lt, Hw]);
    destruct H as [Hv H];
    destruct v as [| b' | s' | s' | l' | l']; try discriminate Hv; cbn [hash_body] in H.
  - cbn [app] in H. subst. auto.
  - cbn [app] in H. injection H as H ->. destruct b, b'; try discriminate H; auto.
  - rewrite <- !app_assoc in H. cbn [lens_ok] in La, Lv.
    apply word_app_inj in H; [|exact La|exact Lv]. destruct H as [Hl H].
    apply app_inj_length in H; [|lia]. destruct H as [-> ->]. auto.
  - rewrite <- !app_assoc in H. cbn [app] in H. cbn [wfv] in Wa, Wv.
    apply utf8_term_inj in H; [|exact Wa|exact Wv]. destruct H as [-> ->]. auto.
  - rewrite <- !app_assoc in H.
    apply lens_ok_arr in La, Lv. destruct La as [La1 La2], Lv as [Lv1 Lv2].
    apply wfv_arr in Wa, Wv.
    apply word_app_inj in H; [|exact La1|exact Lv1]. destruct H as [Hl H].
    apply (flat_map_app_inj_dom _ (fun y => wfv y /\ lens_ok w y)) in H; [| | |apply Nat2N.inj, Hl].
    + destruct H as [-> ->]. auto.
    + rewrite Forall_forall in *. intros x Hx y q q' [Wy Ly] E.
      apply (IH x Hx y q q'); auto.
    + rewrite Forall_forall in *. intros y Hy. split; auto.
  - rewrite <- !app_assoc in H.
    apply lens_ok_obj in La, Lv. destruct La as [La1 La2], Lv as [Lv1 Lv2].
    apply wfv_obj in Wa, Wv.
    apply word_app_inj in H; [|exact La1|exact Lv1]. destruct H as [Hl H].
    apply (flat_map_app_inj_dom _ (fun e => wf_entry e /\ lens_ok w (snd e))) in H; [| | |apply Nat2N.inj, Hl].
    + destruct H as [-> ->]. auto.
    + rewrite Forall_forall in *. intros [k x] Hx [k' y] q q' [[Wk Wy] Ly] E.
      unfold entry_bytes in E. cbn [fst snd] in *. rewrite <- !app_assoc in E. cbn [app] in E.
      destruct (Wa _ Hx) as [Wk0 Wx]. cbn [fst snd] in Wk0, Wx.
      apply utf8_term_inj in E; [|exact Wk0|exact Wk]. destruct E as [-> E].
      apply (IH _ Hx y q q') in E; auto.
      cbn [snd] in E. destruct E as [-> ->]. auto.
    + rewrite Forall_forall in *. intros y Hy. split; auto.
Qed.

Theorem hash_bytes_inj : forall w, (0 < w)%nat -> forall a b,
  wfv a -> lens_ok w a -> wfv b -> lens_ok w b ->
  hash_bytes w a = hash_bytes w b -> a = b.
Proof.
  intros w Hw a b Wa La Wb Lb H.
  apply (hash_bytes_app_inj w Hw a b [] []); auto. rewrite !app_nil_r. exact H.
Qed.

(* [wfv] is necessary for the byte-level prefix property: a non-scalar "code point"
   whose model encoding starts with 0xFF imitates the terminator. *)
Example hash_bytes_app_inj_needs_wfv :
  hash_bytes 8 (VStr []) ++ [0x80; 0x80; 0x80; 0xFF] = hash_bytes 8 (VStr [0x3C0000]) ++ [].
Proof. vm_compute. reflexivity. Qed.

Print Assumptions cmp_refl.
Print Assumptions cmp_antisym.
Print Assumptions cmp_trans.
Print Assumptions cmp_le_trans.
Print Assumptions cmp_eq_iff.
Print Assumptions eq_iff_cmp.
Print Assumptions partial_cmp_total.
Print Assumptions entry_cmp_antisym.
Print Assumptions entry_cmp_trans.
Print Assumptions entry_cmp_eq_iff.
Print Assumptions entry_cmp_total.
Print Assumptions entry_cmp_le_trans.
Print Assumptions entries_cmp_antisym.
Print Assumptions entries_cmp_trans.
Print Assumptions entries_cmp_eq_iff.
Print Assumptions hash_eq.
Print Assumptions hash_stream_app_inj.
Print Assumptions hash_stream_inj.
Print Assumptions hash_bytes_app_inj.
Print Assumptions hash_bytes_inj.
