(* Proofs/CanonProofs.v -- the structural half of C09/C10: Value::canonicalize_with /
   Object::canonicalize_with (Model/Canon.v) against the RFC 8785 reference serializer
   (Spec/Jcs.v).  The number conversion is a section variable [num_canon]; every fact about
   floating point is a hypothesis here (see Proofs/NumberProofs.v for that half).

   Contents
   1. unfolding lemmas for the nested predicates (nodup_keys, each_obj, each_num)
   2. the UTF-16 key order: a total order, strict part = Jcs.key_lt, injective on scalar keys
   3. canon_entry_cmp is a total preorder on all entries, an order on scalar-keyed entries
   4. insertion sort: sorted input is a fixpoint; the sorted permutation is unique
   5. T1 canon_jcs (+ definedness of jcs), T2 canon_idem, T3 canon_perm, T4 canon_preserves,
      T5 canon_sorted / canon_keys_increasing, T6 canon_queryable, T7 canon_spelling
   6. counterexamples for the statements without [keys_scalar], and satisfiability Examples. *)
From JsonSyntax Require Import Base.Prelude Base.Value Base.Unicode Model.Compare Model.Object
  Model.Canon Spec.Minimal Spec.EcmaNumber Spec.Jcs Spec.PermEq Spec.Multimap Spec.CanonSpec.
From JsonSyntax Require Import Proofs.Utf8Order Proofs.CompareProofs Proofs.UnorderedProofs
  Proofs.ObjectInv.
From Coq Require Import Sorting.Permutation Sorting.Sorted ZifyBool ZifyN.

(* ------------------------------------------------------------------------- *)
(* 1. Unfolding the nested predicates                                         *)
(* ------------------------------------------------------------------------- *)
Lemma fold_and_Forall {A} (Q : A -> Prop) (l : list A) :
  fold_right (fun x acc => Q x /\ acc) True l <-> Forall Q l.
Proof.
  induction l as [|x l IH]; cbn [fold_right].
  - split; [constructor | exact (fun _ => I)].
  - rewrite IH. split.
    + intros [Hx Hl]. constructor; assumption.
    + intros H. inversion H; subst. split; assumption.
Qed.

Lemma each_obj_arr P l : each_obj P (VArr l) <-> Forall (each_obj P) l.
Proof. cbn [each_obj]. apply fold_and_Forall. Qed.

Lemma each_obj_obj P es :
  each_obj P (VObj es) <-> P es /\ Forall (fun e => each_obj P (snd e)) es.
Proof.
  cbn [each_obj].
  rewrite (fold_and_Forall (fun e : list N * value => each_obj P (snd e))). reflexivity.
Qed.

Lemma each_num_arr P l : each_num P (VArr l) <-> Forall (each_num P) l.
Proof. cbn [each_num]. apply fold_and_Forall. Qed.

Lemma each_num_obj P es : each_num P (VObj es) <-> Forall (fun e => each_num P (snd e)) es.
Proof.
  cbn [each_num]. apply (fold_and_Forall (fun e : list N * value => each_num P (snd e))).
Qed.

Lemma nodup_keys_arr l : nodup_keys (VArr l) <-> Forall nodup_keys l.
Proof.
  induction l as [|x l IH]; cbn [nodup_keys].
  - split; [constructor | exact (fun _ => I)].
  - cbn [nodup_keys] in IH. rewrite IH. split.
    + intros [Hx Hl]. constructor; assumption.
    + intros H. inversion H; subst. split; assumption.
Qed.

Lemma nodup_keys_obj es :
  nodup_keys (VObj es) <-> NoDup (map fst es) /\ Forall (fun e => nodup_keys (snd e)) es.
Proof.
  cbn [nodup_keys].
  assert (E : (fix go (l : list (list N * value)) : Prop :=
                 match l with [] => True | e :: r => nodup_keys (snd e) /\ go r end) es
              <-> Forall (fun e => nodup_keys (snd e)) es).
  { induction es as [|e es IH].
    - split; [constructor | exact (fun _ => I)].
    - rewrite IH. split.
      + intros [Hx Hl]. constructor; assumption.
      + intros H. inversion H; subst. split; assumption. }
  rewrite E. reflexivity.
Qed.

(* nodup_keys in the each_obj vocabulary *)
Lemma nodup_keys_each_obj v : nodup_keys v <-> each_obj (fun es => NoDup (map fst es)) v.
Proof.
  induction v as [| b | s | s | l IH | l IH] using value_ind'; try reflexivity.
  - rewrite nodup_keys_arr, each_obj_arr. rewrite !Forall_forall in *.
    split; intros H x Hx; apply IH; auto.
  - rewrite nodup_keys_obj, each_obj_obj. rewrite !Forall_forall in *.
    split; intros [H1 H2]; (split; [exact H1|]); intros x Hx; apply IH; auto.
Qed.

Lemma each_obj_and P Q v :
  each_obj (fun es => P es /\ Q es) v <-> each_obj P v /\ each_obj Q v.
Proof.
  induction v as [| b | s | s | l IH | l IH] using value_ind'; try (cbn; tauto).
  - rewrite !each_obj_arr. rewrite !Forall_forall in *. split.
    + intros H. split; intros x Hx; apply IH; auto.
    + intros [H1 H2] x Hx. apply IH; auto.
  - rewrite !each_obj_obj. rewrite !Forall_forall in *. split.
    + intros [[H1 H2] H]. repeat split; auto; intros x Hx; apply IH; auto.
    + intros [[H1 H2] [H3 H4]]. repeat split; auto. intros x Hx. apply IH; auto.
Qed.

Lemma each_obj_impl (P Q : list entry -> Prop) (H : forall es, P es -> Q es) v :
  each_obj P v -> each_obj Q v.
Proof.
  induction v as [| b | s | s | l IH | l IH] using value_ind'; try (cbn; tauto).
  - rewrite !each_obj_arr. rewrite !Forall_forall in *. intros H1 x Hx. apply IH; auto.
  - rewrite !each_obj_obj. rewrite !Forall_forall in *. intros [H1 H2]. split; [apply H; exact H1|].
    intros x Hx. apply IH; auto.
Qed.

Lemma each_obj_True v : each_obj (fun _ => True) v.
Proof.
  induction v as [| b | s | s | l IH | l IH] using value_ind'; try exact I.
  - apply each_obj_arr. exact IH.
  - apply each_obj_obj. split; [exact I | exact IH].
Qed.

(* well-formed values (Proofs/CompareProofs.wfv) have scalar keys *)
Lemma wfv_keys_scalar v : wfv v -> keys_scalar v.
Proof.
  unfold keys_scalar.
  induction v as [| b | s | s | l IH | l IH] using value_ind'; try (cbn; tauto).
  - rewrite wfv_arr, each_obj_arr. rewrite !Forall_forall in *. intros H x Hx. apply IH; auto.
  - rewrite wfv_obj, each_obj_obj. rewrite !Forall_forall in *. intros H. split.
    + intros e He. apply (H e He).
    + intros e He. apply IH; auto. apply (H e He).
Qed.

(* ------------------------------------------------------------------------- *)
(* 2. The UTF-16 order on keys                                                *)
(* ------------------------------------------------------------------------- *)
Lemma utf16_cmp_refl a : utf16_cmp a a = Eq.
Proof. apply (lex_cmp_refl N.compare N.compare_refl). Qed.

Lemma utf16_cmp_antisym a b : utf16_cmp b a = CompOpp (utf16_cmp a b).
Proof. apply (lex_cmp_antisym N.compare). intros x y. apply N.compare_antisym. Qed.

Lemma utf16_cmp_trans_at a : trans_at utf16_cmp a.
Proof. intros b c. apply (lex_cmp_trans N.compare Ncompare_trans_at). Qed.

Lemma utf16_cmp_eq_units a b : utf16_cmp a b = Eq <-> utf16_units a = utf16_units b.
Proof. apply (lex_cmp_eq_iff N.compare N.compare_eq_iff). Qed.

Lemma u16_lt_lex : forall a b, u16_lt a b = true <-> lex_cmp N.compare a b = Lt.
Proof.
  induction a as [|x a IH]; intros [|y b]; cbn [u16_lt lex_cmp]; try (split; congruence).
  specialize (IH b).
  destruct (N.compare_spec x y) as [->|H|H].
  - rewrite N.ltb_irrefl, N.eqb_refl. cbn. exact IH.
  - assert (E : (x <? y) = true) by (apply N.ltb_lt; exact H). rewrite E. cbn. tauto.
  - assert (E1 : (x <? y) = false) by (apply N.ltb_ge; lia).
    assert (E2 : (x =? y) = false) by (apply N.eqb_neq; lia).
    rewrite E1, E2. cbn. split; congruence.
Qed.

(* Jcs.key_lt is the strict part of the implementation's key comparison *)
Lemma key_lt_utf16 a b : key_lt a b = true <-> utf16_cmp a b = Lt.
Proof. apply u16_lt_lex. Qed.

Section Utf16Arith.
  Local Ltac Zify.zify_post_hook ::= Z.div_mod_to_equations.

  (* the UTF-16 encoding of scalar values is prefix-free *)
  Lemma utf16_encode_app_inj c d R1 R2 :
    is_scalar c = true -> is_scalar d = true ->
    utf16_encode c ++ R1 = utf16_encode d ++ R2 -> c = d /\ R1 = R2.
  Proof.
    unfold is_scalar, utf16_encode. intros Hc Hd.
    destruct (c <? 0x10000) eqn:C; destruct (d <? 0x10000) eqn:D; cbn [app]; intros H.
    - injection H as H1 H2. auto.
    - exfalso. injection H as H1 H2. lia.
    - exfalso. injection H as H1 H2. lia.
    - injection H as H1 H2 H3. split; [lia | exact H3].
  Qed.
End Utf16Arith.

Lemma utf16_encode_nonempty c : exists x r, utf16_encode c = x :: r.
Proof. unfold utf16_encode. destruct (c <? 0x10000); eauto. Qed.

Lemma utf16_units_inj : forall a b,
  Forall (fun c => is_scalar c = true) a -> Forall (fun c => is_scalar c = true) b ->
  utf16_units a = utf16_units b -> a = b.
Proof.
  unfold utf16_units. intros a b Ha. revert b.
  induction Ha as [|c a Hc _ IH]; intros b Hb H; destruct Hb as [|d b Hd Hb]; cbn [flat_map] in H.
  - reflexivity.
  - destruct (utf16_encode_nonempty d) as (x & r & E). rewrite E in H. discriminate.
  - destruct (utf16_encode_nonempty c) as (x & r & E). rewrite E in H. discriminate.
  - apply utf16_encode_app_inj in H; auto. destruct H as [-> H]. f_equal. apply IH; auto.
Qed.

Lemma utf16_cmp_eq_iff a b :
  Forall (fun c => is_scalar c = true) a -> Forall (fun c => is_scalar c = true) b ->
  (utf16_cmp a b = Eq <-> a = b).
Proof.
  intros Ha Hb. rewrite utf16_cmp_eq_units. split; [apply utf16_units_inj; auto | congruence].
Qed.

(* ------------------------------------------------------------------------- *)
(* 3. The comparator of Object::canonicalize_with                             *)
(* ------------------------------------------------------------------------- *)
Lemma canon_entry_cmp_pair : canon_entry_cmp = pair_cmp utf16_cmp value_cmp.
Proof. reflexivity. Qed.

Lemma canon_entry_cmp_refl a : canon_entry_cmp a a = Eq.
Proof.
  rewrite canon_entry_cmp_pair. apply pair_cmp_refl_at; [apply utf16_cmp_refl | apply cmp_refl].
Qed.

Lemma canon_entry_cmp_antisym a b : canon_entry_cmp b a = CompOpp (canon_entry_cmp a b).
Proof.
  rewrite canon_entry_cmp_pair. apply pair_cmp_antisym_at.
  - intros q. apply utf16_cmp_antisym.
  - intros q. apply cmp_antisym.
Qed.

Lemma canon_entry_cmp_trans_at a : trans_at canon_entry_cmp a.
Proof.
  rewrite canon_entry_cmp_pair. apply pair_cmp_trans_at;
    [apply utf16_cmp_trans_at | apply value_cmp_trans_at].
Qed.

Lemma canon_entry_cmp_total a b : canon_entry_cmp a b = Gt -> canon_entry_cmp b a <> Gt.
Proof. intros H. rewrite canon_entry_cmp_antisym, H. discriminate. Qed.

Lemma canon_entry_cmp_le_trans a b c :
  canon_entry_cmp a b <> Gt -> canon_entry_cmp b c <> Gt -> canon_entry_cmp a c <> Gt.
Proof. apply trans_at_le, canon_entry_cmp_trans_at. Qed.

(* on entries whose keys are scalar sequences the comparator decides equality *)
Lemma canon_entry_cmp_eq_iff a b : scalar_key a -> scalar_key b ->
  (canon_entry_cmp a b = Eq <-> a = b).
Proof.
  unfold scalar_key, canon_entry_cmp. destruct a as [k v], b as [k' v']. cbn [fst snd].
  intros Ha Hb. pose proof (utf16_cmp_eq_iff k k' Ha Hb) as Hk.
  destruct (utf16_cmp k k').
  - destruct Hk as [Hk _]. rewrite (Hk eq_refl), cmp_eq_iff_strong. split; congruence.
  - split; [discriminate|]. intros E. inversion E as [[E1 E2]]. apply Hk in E1. discriminate.
  - split; [discriminate|]. intros E. inversion E as [[E1 E2]]. apply Hk in E1. discriminate.
Qed.

Lemma canon_le_antisym a b : scalar_key a -> scalar_key b ->
  canon_le a b -> canon_le b a -> a = b.
Proof.
  unfold canon_le. intros Ha Hb H1 H2. apply canon_entry_cmp_eq_iff; auto.
  rewrite canon_entry_cmp_antisym in H2. destruct (canon_entry_cmp a b); cbn in *; congruence.
Qed.

(* distinct scalar keys: the comparator is decided by the keys alone, strictly *)
Lemma canon_le_key_lt a b : scalar_key a -> scalar_key b -> fst a <> fst b ->
  canon_le a b -> key_lt (fst a) (fst b) = true.
Proof.
  unfold canon_le, canon_entry_cmp, scalar_key. intros Ha Hb Hne H.
  apply key_lt_utf16. pose proof (utf16_cmp_eq_iff _ _ Ha Hb) as Hk.
  destruct (utf16_cmp (fst a) (fst b)); [exfalso; apply Hne, Hk; reflexivity | reflexivity | congruence].
Qed.

(* ------------------------------------------------------------------------- *)
(* 4. Insertion sort                                                          *)
(* ------------------------------------------------------------------------- *)
Section SortGeneric.
  Context {A : Type} (cmp : A -> A -> comparison).
  Let le (a b : A) : Prop := cmp a b <> Gt.

  Lemma stable_sort_cons x l : stable_sort cmp (x :: l) = insert_by cmp x (stable_sort cmp l).
  Proof. reflexivity. Qed.

  (* sorting a sorted list changes nothing *)
  Lemma stable_sort_sorted_id l : StronglySorted le l -> stable_sort cmp l = l.
  Proof.
    induction 1 as [|x l Hl IH Hx]; [reflexivity|].
    rewrite stable_sort_cons, IH. destruct l as [|y r]; [reflexivity|].
    cbn [insert_by]. inversion Hx as [|? ? Hxy _]; subst. unfold le in Hxy.
    destruct (cmp x y); congruence.
  Qed.

  (* two sorted lists with the same elements are equal, when [le] is antisymmetric on them *)
  Lemma sorted_perm_unique (Q : A -> Prop)
        (Hanti : forall a b, Q a -> Q b -> le a b -> le b a -> a = b) :
    forall l1 l2, Forall Q l1 -> StronglySorted le l1 -> StronglySorted le l2 ->
                  Permutation l1 l2 -> l1 = l2.
  Proof.
    induction l1 as [|a l1 IH]; intros l2 HQ H1 H2 Hp.
    - apply Permutation_nil in Hp. congruence.
    - destruct l2 as [|b l2]; [apply Permutation_sym, Permutation_nil in Hp; discriminate|].
      inversion H1 as [|? ? H1' Ha]; subst. inversion H2 as [|? ? H2' Hb]; subst.
      inversion HQ as [|? ? Qa HQ']; subst.
      assert (E : a = b).
      { assert (Ia : In a (b :: l2)) by (eapply Permutation_in; [exact Hp | left; reflexivity]).
        assert (Ib : In b (a :: l1))
          by (eapply Permutation_in; [apply Permutation_sym; exact Hp | left; reflexivity]).
        destruct Ia as [Ia|Ia]; [congruence|]. destruct Ib as [Ib|Ib]; [congruence|].
        rewrite Forall_forall in Ha, Hb, HQ'. apply Hanti; auto. }
      subst b. f_equal. apply IH; auto. eapply Permutation_cons_inv; exact Hp.
  Qed.
End SortGeneric.

Lemma canon_sort_sorted l : entries_sorted (stable_sort canon_entry_cmp l).
Proof.
  apply stable_sort_sorted; [apply canon_entry_cmp_total | apply canon_entry_cmp_le_trans].
Qed.

(* the result of the sort depends only on the multiset of (scalar-keyed) entries *)
Lemma canon_sort_perm l1 l2 : Forall scalar_key l1 -> Permutation l1 l2 ->
  stable_sort canon_entry_cmp l1 = stable_sort canon_entry_cmp l2.
Proof.
  intros HQ Hp.
  apply (sorted_perm_unique canon_entry_cmp scalar_key canon_le_antisym).
  - eapply Permutation_Forall; [apply stable_sort_perm | exact HQ].
  - apply canon_sort_sorted.
  - apply canon_sort_sorted.
  - eapply Permutation_trans; [apply Permutation_sym, stable_sort_perm|].
    eapply Permutation_trans; [exact Hp | apply stable_sort_perm].
Qed.

Lemma map_id_in {A} (f : A -> A) l : (forall x, In x l -> f x = x) -> map f l = l.
Proof.
  induction l as [|x l IH]; intros H; cbn; [reflexivity|].
  rewrite H by (left; reflexivity). f_equal. apply IH. intros y Hy. apply H. right. exact Hy.
Qed.

Lemma Forall2_map_same {A B C} (R : B -> C -> Prop) (f : A -> B) (g : A -> C) l :
  Forall (fun x => R (f x) (g x)) l -> Forall2 R (map f l) (map g l).
Proof. induction 1; cbn; constructor; auto. Qed.

(* ------------------------------------------------------------------------- *)
(* 5. The theorems                                                            *)
(* ------------------------------------------------------------------------- *)
Section CanonTheorems.
  Variable num_canon : list N -> list N.

  Let canon := canonicalize num_canon.
  Let centry (e : list N * value) : entry := (fst e, canonicalize num_canon (snd e)).

  Lemma canonicalize_obj es :
    canonicalize num_canon (VObj es) = VObj (stable_sort canon_entry_cmp (map centry es)).
  Proof. reflexivity. Qed.

  Lemma canonicalize_arr l :
    canonicalize num_canon (VArr l) = VArr (map (canonicalize num_canon) l).
  Proof. reflexivity. Qed.

  Lemma map_fst_centry es : map fst (map centry es) = map fst es.
  Proof. rewrite map_map. reflexivity. Qed.

  Lemma centry_scalar es : Forall scalar_key es -> Forall scalar_key (map centry es).
  Proof. intros H. apply Forall_map. exact H. Qed.

  (* a property of every object of [v] is carried to every object of the canonical form as
     soon as one sort step carries it *)
  Lemma each_obj_canon (P Q : list entry -> Prop)
        (Hstep : forall es, P es -> Q (stable_sort canon_entry_cmp (map centry es))) :
    forall v, each_obj P v -> each_obj Q (canonicalize num_canon v).
  Proof.
    induction v as [| b | s | s | l IH | l IH] using value_ind'; try (cbn; tauto).
    - rewrite canonicalize_arr, !each_obj_arr. intros H. apply Forall_map.
      rewrite !Forall_forall in *. intros x Hx. apply IH; auto.
    - rewrite canonicalize_obj, !each_obj_obj. intros [H1 H2]. split; [apply Hstep; exact H1|].
      eapply Permutation_Forall; [apply stable_sort_perm|]. apply Forall_map.
      rewrite !Forall_forall in *. intros e He. cbn [centry snd]. apply IH; auto.
  Qed.

  Lemma canon_nodup_keys v : nodup_keys v -> nodup_keys (canonicalize num_canon v).
  Proof.
    rewrite !nodup_keys_each_obj. apply each_obj_canon. intros es H.
    eapply Permutation_NoDup; [apply Permutation_map, stable_sort_perm|].
    rewrite map_fst_centry. exact H.
  Qed.

  Lemma canon_keys_scalar v : keys_scalar v -> keys_scalar (canonicalize num_canon v).
  Proof.
    apply each_obj_canon. intros es H.
    eapply Permutation_Forall; [apply stable_sort_perm | apply centry_scalar, H].
  Qed.

  (* ---- T1 ---- *)
  Let ftext (e : entry) : list N * list N := (fst e, ser_min (snd e)).

  Lemma insert_by_ins_member x S :
    Forall (fun y => utf16_cmp (fst x) (fst y) <> Eq) S ->
    map ftext (insert_by canon_entry_cmp x S) = ins_member (ftext x) (map ftext S).
  Proof.
    induction 1 as [|y r Hy _ IH]; [reflexivity|].
    cbn [insert_by map ins_member].
    change (fst (ftext y)) with (fst y). change (fst (ftext x)) with (fst x).
    assert (D : (canon_entry_cmp x y = Gt /\ key_lt (fst y) (fst x) = true) \/
                (canon_entry_cmp x y <> Gt /\ key_lt (fst y) (fst x) = false)).
    { unfold canon_entry_cmp, key. pose proof (utf16_cmp_antisym (fst x) (fst y)) as Ha.
      destruct (utf16_cmp (fst x) (fst y)) eqn:E; cbn in Ha.
      - congruence.
      - right. split; [discriminate|]. destruct (key_lt (fst y) (fst x)) eqn:K; [|reflexivity].
        apply key_lt_utf16 in K. congruence.
      - left. split; [reflexivity|]. apply key_lt_utf16. exact Ha. }
    destruct D as [[D1 D2]|[D1 D2]]; rewrite D2.
    - rewrite D1. cbn [map]. f_equal. exact IH.
    - destruct (canon_entry_cmp x y); try congruence; reflexivity.
  Qed.

  (* sorting commutes with printing the members, when the keys are distinct scalar sequences *)
  Lemma stable_sort_sort_members L :
    NoDup (map fst L) -> Forall scalar_key L ->
    map ftext (stable_sort canon_entry_cmp L) = sort_members (map ftext L).
  Proof.
    induction L as [|x L IH]; intros Hnd Hs; [reflexivity|].
    inversion Hnd as [|? ? Hx Hnd']; subst. inversion Hs as [|? ? Hsx Hs']; subst.
    rewrite stable_sort_cons. cbn [map sort_members fold_right].
    fold (sort_members (map ftext L)). rewrite <- IH by assumption.
    apply insert_by_ins_member. apply Forall_forall. intros y Hy.
    apply (Permutation_in _ (Permutation_sym (stable_sort_perm canon_entry_cmp L))) in Hy.
    intros E. apply utf16_cmp_eq_iff in E; [| exact Hsx | rewrite Forall_forall in Hs'; apply Hs'; exact Hy].
    apply Hx.
    apply (eq_ind_r (fun k => In k (map fst L)) (in_map fst L y Hy) E).
  Qed.

  Lemma all_some_map {A B} (f : A -> option B) (g : A -> B) l :
    Forall (fun x => f x = Some (g x)) l -> all_some (map f l) = Some (map g l).
  Proof.
    induction 1 as [|x l Hx _ IH]; [reflexivity|]. cbn [map all_some]. rewrite Hx, IH. reflexivity.
  Qed.

  Theorem canon_jcs : forall v,
    nodup_keys v -> keys_scalar v -> nums_ok num_canon v ->
    jcs v = Some (ser_min (canonicalize num_canon v)).
  Proof.
    unfold keys_scalar, nums_ok.
    induction v as [| b | s | s | l IH | l IH] using value_ind'; intros Hnd Hks Hn.
    - reflexivity.
    - destruct b; reflexivity.
    - exact Hn.
    - reflexivity.
    - apply nodup_keys_arr in Hnd. apply each_obj_arr in Hks. apply each_num_arr in Hn.
      cbn [jcs]. rewrite (all_some_map jcs (fun x => ser_min (canonicalize num_canon x))).
      + rewrite canonicalize_arr. cbn [ser_min]. rewrite map_map. reflexivity.
      + rewrite !Forall_forall in *. intros x Hx. apply IH; auto.
    - apply nodup_keys_obj in Hnd. destruct Hnd as [Hnd Hndc].
      apply each_obj_obj in Hks. destruct Hks as [Hks Hksc]. apply each_num_obj in Hn.
      cbn [jcs].
      rewrite (all_some_map _ (fun e : list N * value => ftext (centry e))).
      + rewrite canonicalize_obj. cbn [ser_min]. rewrite <- (map_map centry ftext).
        rewrite <- stable_sort_sort_members;
          [| rewrite map_fst_centry; exact Hnd | apply centry_scalar; exact Hks].
        rewrite map_map. reflexivity.
      + rewrite !Forall_forall in *. intros e He. rewrite (IH e He); auto.
  Qed.

  (* jcs is defined exactly when every number is renderable (no other hypothesis) *)
  Lemma all_some_defined {A B} (f : A -> option B) l :
    (exists ts, all_some (map f l) = Some ts) <-> Forall (fun x => exists t, f x = Some t) l.
  Proof.
    induction l as [|x l IH]; cbn [map all_some].
    - split; [constructor | eauto].
    - destruct (f x) as [t|] eqn:E.
      + split.
        * intros [ts H]. constructor; [eauto|]. apply IH.
          destruct (all_some (map f l)); [eauto | discriminate].
        * intros H. inversion H as [|? ? _ Hl]; subst. apply IH in Hl. destruct Hl as [ts ->].
          cbn. eauto.
      + split; [intros [ts H]; discriminate|].
        intros H. inversion H as [|? ? [t Ht] _]; subst. congruence.
  Qed.

  Theorem jcs_defined_iff : forall v,
    (exists t, jcs v = Some t) <-> each_num (fun n => exists t, canon_number n = Some t) v.
  Proof.
    induction v as [| b | s | s | l IH | l IH] using value_ind'.
    - cbn. split; eauto.
    - destruct b; cbn; split; eauto.
    - reflexivity.
    - cbn. split; eauto.
    - rewrite each_num_arr. cbn [jcs].
      transitivity (exists ts, all_some (map jcs l) = Some ts).
      + destruct (all_some (map jcs l)); split; eauto; intros [t H]; discriminate.
      + rewrite all_some_defined. rewrite !Forall_forall in *.
        split; intros H x Hx; apply IH; auto.
    - rewrite each_num_obj. cbn [jcs].
      set (f := fun e : list N * value => option_map (fun t => (fst e, t)) (jcs (snd e))).
      transitivity (exists ts, all_some (map f l) = Some ts).
      + destruct (all_some (map f l)); split; eauto; intros [t H]; discriminate.
      + rewrite all_some_defined. rewrite !Forall_forall in *.
        split; intros H e He.
        * apply IH; auto. destruct (H e He) as [t Ht]. unfold f in Ht.
          destruct (jcs (snd e)); [eauto | discriminate].
        * destruct (proj2 (IH e He) (H e He)) as [t Ht]. unfold f. rewrite Ht. cbn. eauto.
  Qed.

  (* the failure direction: an unrenderable number anywhere makes jcs fail *)
  Corollary jcs_none : forall v,
    ~ each_num (fun n => exists t, canon_number n = Some t) v -> jcs v = None.
  Proof.
    intros v H. destruct (jcs v) as [t|] eqn:E; [|reflexivity].
    exfalso. apply H. apply jcs_defined_iff. eauto.
  Qed.

  (* ---- T2 ---- *)
  Theorem canon_idem :
    (forall n, num_canon (num_canon n) = num_canon n) ->
    forall v, canonicalize num_canon (canonicalize num_canon v) = canonicalize num_canon v.
  Proof.
    intros Hnum.
    induction v as [| b | s | s | l IH | l IH] using value_ind'; try reflexivity.
    - cbn. rewrite Hnum. reflexivity.
    - rewrite !canonicalize_arr. f_equal. rewrite map_map. apply map_ext_in.
      rewrite Forall_forall in IH. exact IH.
    - rewrite canonicalize_obj. set (S := stable_sort canon_entry_cmp (map centry l)).
      rewrite canonicalize_obj. f_equal.
      assert (E : map centry S = S).
      { apply map_id_in. intros e He.
        apply (Permutation_in _ (Permutation_sym (stable_sort_perm canon_entry_cmp _))) in He.
        apply in_map_iff in He. destruct He as (e0 & <- & He0).
        unfold centry at 1. cbn [centry fst snd]. rewrite Forall_forall in IH.
        rewrite (IH e0 He0). reflexivity. }
      rewrite E. apply stable_sort_sorted_id. apply canon_sort_sorted.
  Qed.

  (* ---- T3 ---- *)
  Theorem canon_perm : forall v w,
    keys_scalar v -> PermEq v w -> canonicalize num_canon v = canonicalize num_canon w.
  Proof.
    unfold keys_scalar.
    induction v as [| b | s | s | l IH | l IH] using value_ind'; intros w Hks H;
      try solve [inversion H; subst; reflexivity].
    - apply permeq_arr_inv in H. destruct H as [y [-> Hf]]. apply each_obj_arr in Hks.
      rewrite !canonicalize_arr. f_equal.
      induction Hf as [|a b x y Hab _ IHf]; [reflexivity|].
      inversion IH; subst. inversion Hks; subst. cbn [map]. f_equal; auto.
    - apply permeq_obj_inv in H. destruct H as [y [y' [-> [Hp Hf]]]].
      apply each_obj_obj in Hks. destruct Hks as [Hks Hksc].
      rewrite !canonicalize_obj. f_equal.
      assert (E : map centry l = map centry y').
      { clear Hp Hks. induction Hf as [|a b x y0 [Hk Hv] _ IHf]; [reflexivity|].
        inversion IH; subst. inversion Hksc; subst. cbn [map]. f_equal; auto.
        unfold centry. f_equal; auto. }
      apply canon_sort_perm; [apply centry_scalar; exact Hks|].
      rewrite E. apply Permutation_map, Permutation_sym. exact Hp.
  Qed.

  (* ---- T4 ---- *)
  Theorem canon_preserves : forall v,
    PermEq (canonicalize num_canon v) (map_numbers num_canon v).
  Proof.
    induction v as [| b | s | s | l IH | l IH] using value_ind'; try (cbn; constructor).
    - apply Forall2_map_same. exact IH.
    - rewrite canonicalize_obj. cbn [map_numbers].
      apply permeq_trans with (b := VObj (map centry l)).
      + apply permeq_obj_intro with (y' := stable_sort canon_entry_cmp (map centry l));
          [apply stable_sort_perm|].
        apply Forall2_refl_Forall. apply Forall_forall. intros e _.
        split; [reflexivity | apply permeq_refl].
      + eapply permeq_obj_intro; [apply Permutation_refl|].
        apply Forall2_map_same. eapply Forall_impl; [|exact IH].
        intros e He. split; [reflexivity | exact He].
  Qed.

  (* ---- T5 ---- *)
  Theorem canon_sorted : forall v, each_obj entries_sorted (canonicalize num_canon v).
  Proof.
    intros v. apply (each_obj_canon (fun _ => True)).
    - intros es _. apply canon_sort_sorted.
    - apply each_obj_True.
  Qed.

  Lemma sorted_keys_increasing S :
    entries_sorted S -> NoDup (map fst S) -> Forall scalar_key S -> keys_increasing S.
  Proof.
    unfold entries_sorted, keys_increasing.
    induction 1 as [|a S HS IH Ha]; intros Hnd Hs; [constructor|].
    inversion Hnd as [|? ? Hx Hnd']; subst. inversion Hs as [|? ? Hsa Hs']; subst.
    constructor; [apply IH; assumption|].
    rewrite Forall_forall in *. intros b Hb. apply canon_le_key_lt; auto.
    intros E. apply Hx. rewrite E. apply in_map. exact Hb.
  Qed.

  Theorem canon_keys_increasing : forall v,
    nodup_keys v -> keys_scalar v -> each_obj keys_increasing (canonicalize num_canon v).
  Proof.
    intros v Hnd Hks. apply nodup_keys_each_obj in Hnd. unfold keys_scalar in Hks.
    apply (each_obj_canon (fun es => NoDup (map fst es) /\ Forall scalar_key es)).
    - intros es [H1 H2]. apply sorted_keys_increasing.
      + apply canon_sort_sorted.
      + eapply Permutation_NoDup; [apply Permutation_map, stable_sort_perm|].
        rewrite map_fst_centry. exact H1.
      + eapply Permutation_Forall; [apply stable_sort_perm | apply centry_scalar, H2].
    - apply each_obj_and. split; assumption.
  Qed.

  (* ---- T6 ---- *)
  (* Object::canonicalize_with ends with `indexes.clear(); for i in 0..len { insert(i) }`,
     i.e. Model.Object.from_vec of the sorted vector (as Model.Object.sort_with). *)
  Theorem canon_queryable : forall es : list entry,
    exists ob, from_vec (stable_sort canon_entry_cmp es) = Some ob /\
               sort_with canon_entry_cmp {| entries := es; buckets := [] |} = Some ob /\
               Inv ob /\
               entries ob = stable_sort canon_entry_cmp es /\
               Permutation es (entries ob) /\
               entries_sorted (entries ob) /\
               forall k,
                 contains_key ob k = Some (m_contains (entries ob) k) /\
                 index_of ob k = Some (m_index_of (entries ob) k) /\
                 redundant_index_of ob k = Some (m_redundant_index_of (entries ob) k) /\
                 indexes_of ob k = Some (m_indexes_of (entries ob) k) /\
                 get ob k = Some (m_get (entries ob) k) /\
                 get_entries ob k = Some (m_get_entries (entries ob) k) /\
                 get_entries_with_index ob k = Some (m_get_entries_with_index (entries ob) k) /\
                 option_map conv_unique (get_unique ob k) = Some (m_get_unique (entries ob) k) /\
                 option_map conv_unique (get_unique_entry ob k) = Some (m_get_unique_entry (entries ob) k).
  Proof.
    intros es.
    destruct (sort_with_refines canon_entry_cmp {| entries := es; buckets := [] |})
      as (ob & Hs & HI & He & Hp).
    cbn [entries] in *. exists ob. split; [exact Hs|]. split; [exact Hs|]. split; [exact HI|].
    split; [exact He|]. split; [exact Hp|]. split; [rewrite He; apply canon_sort_sorted|].
    intros k. apply queries_scan. exact HI.
  Qed.
End CanonTheorems.

(* ---- T7 ---- *)
Theorem canon_spelling : forall n n' d d',
  read_decimal n = Some d -> read_decimal n' = Some d' ->
  nearest_double d = nearest_double d' -> canon_number n = canon_number n'.
Proof.
  intros n n' d d' H1 H2 H3. unfold canon_number. rewrite H1, H2, H3. reflexivity.
Qed.

(* ------------------------------------------------------------------------- *)
(* Corollaries: hypotheses in the vocabulary used elsewhere                   *)
(* ------------------------------------------------------------------------- *)
(* with [wfv] (strings and keys are scalar sequences: true of every Rust value) *)
Corollary canon_jcs_wfv num_canon : forall v,
  wfv v -> nodup_keys v -> nums_ok num_canon v ->
  jcs v = Some (ser_min (canonicalize num_canon v)).
Proof. intros v Hw Hnd Hn. apply canon_jcs; auto. apply wfv_keys_scalar, Hw. Qed.

Corollary canon_perm_wfv num_canon : forall v w,
  wfv v -> PermEq v w -> canonicalize num_canon v = canonicalize num_canon w.
Proof. intros v w Hw. apply canon_perm, wfv_keys_scalar, Hw. Qed.

(* the reference number conversion satisfies [nums_ok] on exactly the I-JSON numbers *)
Lemma nums_ok_ref v :
  each_num (fun n => exists t, canon_number n = Some t) v -> nums_ok ref_num_canon v.
Proof.
  unfold nums_ok.
  induction v as [| b | s | s | l IH | l IH] using value_ind'; try (cbn; tauto).
  - cbn. intros [t Ht]. unfold ref_num_canon. rewrite Ht. reflexivity.
  - rewrite !each_num_arr. rewrite !Forall_forall in *. intros H x Hx. apply IH; auto.
  - rewrite !each_num_obj. rewrite !Forall_forall in *. intros H x Hx. apply IH; auto.
Qed.

(* C09 for the reference conversion: whenever RFC 8785 assigns a canonical text at all,
   it is the compact text of the canonicalized value *)
Corollary canon_jcs_ref : forall v t,
  nodup_keys v -> keys_scalar v -> jcs v = Some t ->
  t = ser_min (canonicalize ref_num_canon v).
Proof.
  intros v t Hnd Hks Hj.
  assert (Hn : nums_ok ref_num_canon v) by (apply nums_ok_ref, jcs_defined_iff; eauto).
  rewrite (canon_jcs ref_num_canon v Hnd Hks Hn) in Hj. congruence.
Qed.

(* ------------------------------------------------------------------------- *)
(* 6. Why [keys_scalar] is there: the statements are false of the model without it *)
(* ------------------------------------------------------------------------- *)
(* The model's keys are arbitrary lists of N.  The two-element key [D800; DC00] (surrogate
   code points, impossible in a Rust String) has the same UTF-16 units as the key [10000]:
   the comparator cannot tell them apart, so
   - T3 without [keys_scalar]: two PermEq objects keep their (different) member order;
   - T1 without [keys_scalar]: the comparator falls through to the values and swaps two
     members that Jcs.sort_members (which only looks at keys) leaves in place. *)
Definition bad_key1 : list N := [0xD800; 0xDC00].
Definition bad_key2 : list N := [0x10000].

Example utf16_units_not_injective :
  bad_key1 <> bad_key2 /\ utf16_units bad_key1 = utf16_units bad_key2.
Proof. split; [discriminate | vm_compute; reflexivity]. Qed.

Example canon_perm_needs_scalar_keys :
  let v := VObj [(bad_key1, VNull); (bad_key2, VNull)] in
  let w := VObj [(bad_key2, VNull); (bad_key1, VNull)] in
  PermEq v w /\ nodup_keys v /\
  canonicalize (fun n => n) v <> canonicalize (fun n => n) w.
Proof.
  cbv zeta. split; [|split].
  - apply permeq_obj_intro with (y' := [(bad_key1, VNull); (bad_key2, VNull)]).
    + apply perm_swap.
    + repeat constructor.
  - cbn. split; [|tauto]. repeat constructor; cbn; intuition discriminate.
  - vm_compute. discriminate.
Qed.

Example canon_jcs_needs_scalar_keys :
  let v := VObj [(bad_key1, VBool true); (bad_key2, VBool false)] in
  nodup_keys v /\ nums_ok (fun n => n) v /\
  jcs v <> Some (ser_min (canonicalize (fun n => n) v)).
Proof.
  cbv zeta. split; [|split].
  - cbn. split; [|tauto]. repeat constructor; cbn; intuition discriminate.
  - cbn. tauto.
  - vm_compute. discriminate.
Qed.

(* ------------------------------------------------------------------------- *)
(* 7. The hypotheses are satisfiable on a non-trivial value                   *)
(* ------------------------------------------------------------------------- *)
(* {"\u{10000}":1.0, "\u{E000}":[0.50, {"b":null,"a":true}], "a":"x", "":10e20}
   U+10000 is D800 DC00 in UTF-16, hence BEFORE U+E000 (code point order says after). *)
Definition ex_value : value :=
  VObj [ ([0x10000], VNum (s2l "1.0"));
         ([0xE000], VArr [VNum (s2l "0.50"); VObj [(s2l "b", VNull); (s2l "a", VBool true)]]);
         (s2l "a", VStr (s2l "x"));
         ([], VNum (s2l "10e20")) ].

Definition ex_canonical : value :=
  VObj [ ([], VNum (s2l "1e+21"));
         (s2l "a", VStr (s2l "x"));
         ([0x10000], VNum (s2l "1"));
         ([0xE000], VArr [VNum (s2l "0.5"); VObj [(s2l "a", VBool true); (s2l "b", VNull)]]) ].

Example ex_hypotheses :
  nodup_keys ex_value /\ keys_scalar ex_value /\ nums_ok ref_num_canon ex_value.
Proof.
  split; [|split].
  - cbn. repeat split; repeat constructor; cbn; intuition discriminate.
  - unfold keys_scalar. cbn. repeat split; repeat constructor.
  - unfold nums_ok. cbn. repeat split; vm_compute; reflexivity.
Qed.

Example ex_canonicalize : canonicalize ref_num_canon ex_value = ex_canonical.
Proof. vm_compute. reflexivity. Qed.

Example ex_jcs :
  jcs ex_value =
  Some (s2l "{"""":1e+21,""a"":""x"","""
          ++ [0x10000] ++ s2l """:1,""" ++ [0xE000] ++ s2l """:[0.5,{""a"":true,""b"":null}]}").
Proof. vm_compute. reflexivity. Qed.

(* T1 instantiated: the premises of canon_jcs hold, so its conclusion is not vacuous *)
Example ex_canon_jcs : jcs ex_value = Some (ser_min (canonicalize ref_num_canon ex_value)).
Proof.
  destruct ex_hypotheses as (H1 & H2 & H3). apply canon_jcs; assumption.
Qed.

(* T3 instantiated on a reshuffled copy (members permuted at both depths) *)
Definition ex_shuffled : value :=
  VObj [ (s2l "a", VStr (s2l "x"));
         ([], VNum (s2l "10e20"));
         ([0xE000], VArr [VNum (s2l "0.50"); VObj [(s2l "a", VBool true); (s2l "b", VNull)]]);
         ([0x10000], VNum (s2l "1.0")) ].

Example ex_permeq : PermEq ex_value ex_shuffled.
Proof. apply C15_unordered_eq_iff. vm_compute. reflexivity. Qed.

Example ex_canon_perm :
  canonicalize ref_num_canon ex_value = canonicalize ref_num_canon ex_shuffled.
Proof. apply canon_perm; [apply ex_hypotheses | apply ex_permeq]. Qed.

(* the idempotence premise of T2 holds of the reference conversion on these spellings *)
Example ex_num_idem :
  Forall (fun n => ref_num_canon (ref_num_canon n) = ref_num_canon n)
         [s2l "1.0"; s2l "0.50"; s2l "10e20"; s2l "1e21"; s2l "-0"; s2l "1E-7"; s2l "123456789012345678901234567890"].
Proof. repeat constructor; vm_compute; reflexivity. Qed.

Print Assumptions canon_jcs.
Print Assumptions jcs_defined_iff.
Print Assumptions jcs_none.
Print Assumptions canon_idem.
Print Assumptions canon_perm.
Print Assumptions canon_preserves.
Print Assumptions canon_sorted.
Print Assumptions canon_keys_increasing.
Print Assumptions canon_nodup_keys.
Print Assumptions canon_keys_scalar.
Print Assumptions canon_queryable.
Print Assumptions canon_spelling.
Print Assumptions canon_jcs_wfv.
Print Assumptions canon_perm_wfv.
Print Assumptions canon_jcs_ref.
Print Assumptions canon_perm_needs_scalar_keys.
Print Assumptions canon_jcs_needs_scalar_keys.
Print Assumptions ex_hypotheses.
Print Assumptions ex_canonicalize.
Print Assumptions ex_jcs.
Print Assumptions ex_canon_jcs.
Print Assumptions ex_canon_perm.
Print Assumptions ex_num_idem.
