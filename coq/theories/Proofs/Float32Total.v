(* Proofs/Float32Total.v -- the binary32 shortest-digits printer of Model/Serde (fmt_sf chk32,
   fmt_f32_ref) is total on finite binary32 values: nine significant digits always suffice.
   Together with Proofs/Float32Proofs.v (S4) this makes the round trip unconditional:
   sgl (fmt_f32_ref b) is the binary32 with bit pattern b, for every finite pattern b. *)
From Coq Require Import ZArith NArith List Bool SpecFloat Reals Lia Lra.
From Flocq Require Import Core BinarySingleNaN.
From JsonSyntax Require Import Base.Prelude Base.Float64 Spec.EcmaNumber Spec.NumSpelling Spec.SerdeTyped
  Model.Serde Proofs.Float64Proofs Proofs.NumberProofs Proofs.NumberTotal Proofs.FloatGenProofs
  Proofs.Float32Proofs Proofs.FloatGenTotal.
Import ListNotations.
Local Open Scope Z_scope.

Local Instance prec32_gt_0_T : Prec_gt_0 24. Proof. reflexivity. Qed.
Local Instance prec32_lt_emax_T : Prec_lt_emax 24 128. Proof. reflexivity. Qed.

Lemma bpow10_m45_le_bpow2_m149 : (bpow radix10 (-45) <= bpow radix2 (emin_g 24 128))%R.
Proof.
  change (emin_g 24 128) with (- (149)). change (-45) with (- (45)).
  rewrite 2!bpow_opp.
  apply Rinv_le. apply bpow_gt_0.
  rewrite <- IZR_pow2, <- IZR_pow10 by lia.
  apply IZR_le. apply Z.leb_le. vm_compute. reflexivity.
Qed.

(* nine significant digits: relative spacing 10^-8 is finer than 2^-24 *)
Lemma ten8_gt_two24 : (bpow radix10 (1 - 9) / 2 < bpow radix2 (- (24 + 1)))%R.
Proof.
  change (1 - 9) with (- (8)). change (- (24 + 1)) with (- (25)). rewrite !bpow_opp.
  rewrite <- IZR_pow10, <- IZR_pow2 by lia.
  assert (H : (IZR (2 ^ 25) < 2 * IZR (10 ^ 8))%R).
  { rewrite <- mult_IZR. apply IZR_lt. vm_compute. reflexivity. }
  assert (H2 : (0 < IZR (2 ^ 25))%R) by (apply IZR_lt; vm_compute; reflexivity).
  assert (H10 : (0 < IZR (10 ^ 8))%R) by (apply IZR_lt; vm_compute; reflexivity).
  apply Rmult_lt_reg_r with (IZR (2 ^ 25) * IZR (10 ^ 8))%R.
  - now apply Rmult_lt_0_compat.
  - replace (/ IZR (10 ^ 8) / 2 * (IZR (2 ^ 25) * IZR (10 ^ 8)))%R with (IZR (2 ^ 25) / 2)%R by (field; lra).
    replace (/ IZR (2 ^ 25) * (IZR (2 ^ 25) * IZR (10 ^ 8)))%R with (IZR (10 ^ 8)) by (field; lra).
    lra.
Qed.

Lemma chk32_gen : forall x s x10, chk32 x s x10 = chk_g 24 128 39 (-46) x s x10.
Proof. reflexivity. Qed.

Theorem nks_g_chk32_total : forall m e,
  valid_binary 24 128 (S754_finite false m e) = true ->
  nks_g (chk32 (S754_finite false m e)) m e <> None.
Proof.
  intros m e Hvalid.
  apply (nks_g_total 24 128 39 (-46) _ _ bpow2_128_le_bpow10_39 bpow10_m46_le_bpow2_m150
           (-45) 9 bpow10_m45_le_bpow2_m149); try exact Hvalid.
  - unfold emin_g. lia.
  - lia.
  - exact ten8_gt_two24.
Qed.

Theorem fmt_sf_chk32_nonempty : forall x,
  valid_binary 24 128 x = true -> is_finite_SF x = true -> fmt_sf chk32 false x <> [].
Proof.
  intros [s0|s0| |s0 m e] Hv Hf; try discriminate; cbn [fmt_sf].
  - destruct s0; discriminate.
  - pose proof (nks_g_chk32_total m e Hv) as Ht.
    destruct (nks_g (chk32 (S754_finite false m e)) m e) as [[[n k] s]|] eqn:E; [|congruence].
    destruct (nks_g_some _ _ _ _ _ _ E) as [Hk [Hs _]].
    destruct (read_layout_lex s0 n k s ltac:(lia) Hs) as [j [_ Hr]].
    intros Hnil. rewrite Hnil in Hr. discriminate Hr.
Qed.

(* S4, unconditional *)
Theorem fmt_sf_chk32_round_trip_total : forall x,
  valid_binary 24 128 x = true -> is_finite_SF x = true -> sgl (fmt_sf chk32 false x) = x.
Proof.
  intros x Hv Hf. apply fmt_sf_chk32_round_trip. now apply fmt_sf_chk32_nonempty.
Qed.

(* ------------------------------------------------------------------ bit patterns *)

Lemma mod_mul_div : forall a b c, 0 < b -> 0 < c -> (a mod (b * c)) / b = (a / b) mod c.
Proof.
  intros a b c Hb Hc. rewrite Z.rem_mul_r by lia.
  rewrite Z.mul_comm, Z.div_add by lia.
  rewrite Z.div_small by (apply Z.mod_pos_bound; lia). lia.
Qed.

Section Bits.
Variable b : Z.
Hypothesis Hwf : 0 <= b < 2 ^ 32.
Let b' := b mod 2 ^ 31.
Let ex := b' / 2 ^ 23.
Let fr := b' mod 2 ^ 23.

Lemma bits_facts :
  0 <= fr < 8388608 /\ 0 <= ex < 256 /\ b' = ex * 8388608 + fr /\
  b = (if 2 ^ 31 <=? b then 2147483648 else 0) + b'.
Proof.
  unfold fr, ex, b'. change (2 ^ 31) with 2147483648 in *. change (2 ^ 23) with 8388608 in *.
  change (2 ^ 32) with 4294967296 in *.
  pose proof (Z.mod_pos_bound b 2147483648 ltac:(lia)) as H1.
  pose proof (Z.div_mod b 2147483648 ltac:(lia)) as H2.
  pose proof (Z.mod_pos_bound (b mod 2147483648) 8388608 ltac:(lia)) as H3.
  pose proof (Z.div_mod (b mod 2147483648) 8388608 ltac:(lia)) as H4.
  assert (0 <= b / 2147483648 < 2).
  { split; [apply Z.div_pos; lia|apply Z.div_lt_upper_bound; lia]. }
  assert (0 <= b mod 2147483648 / 8388608 < 256).
  { split; [apply Z.div_pos; lia|apply Z.div_lt_upper_bound; lia]. }
  split; [lia|]. split; [lia|]. split; [lia|].
  destruct (Z.leb_spec 2147483648 b); lia.
Qed.

Lemma valid_finite_32 : forall s p e,
  (Zpos p < 8388608 /\ e = -149) \/ (8388608 <= Zpos p < 16777216 /\ -149 <= e <= 104) ->
  valid_binary 24 128 (S754_finite s p e) = true.
Proof.
  intros s p e H. cbn [valid_binary]. unfold SpecFloat.bounded, SpecFloat.canonical_mantissa.
  rewrite Zpos_digits2_pos. apply andb_true_intro.
  unfold SpecFloat.fexp, SpecFloat.emin.
  destruct H as [[Hp ->]|[Hp He]].
  - assert (Zdigits radix2 (Zpos p) <= 23).
    { apply Zdigits_le_Zpower. cbn [Z.abs]. exact Hp. }
    split; [apply Zeq_is_eq_bool; lia|apply Zle_imp_le_bool; lia].
  - assert (Zdigits radix2 (Zpos p) <= 24).
    { apply Zdigits_le_Zpower. cbn [Z.abs]. apply Hp. }
    assert (23 < Zdigits radix2 (Zpos p)).
    { apply Zdigits_gt_Zpower. cbn [Z.abs]. apply Hp. }
    split; [apply Zeq_is_eq_bool; lia|apply Zle_imp_le_bool; lia].
Qed.

Theorem valid_sf32_of_bits : valid_binary 24 128 (sf32_of_bits b) = true.
Proof.
  destruct bits_facts as [Hfr [Hex [Hb' Hb]]].
  unfold sf32_of_bits. cbv zeta. fold b'. fold ex. fold fr.
  change (2 ^ 23) with 8388608.
  destruct (Z.eqb_spec ex 255) as [E|E].
  { destruct (fr =? 0); reflexivity. }
  destruct (Z.eqb_spec ex 0) as [E0|E0].
  { destruct (Z.eqb_spec fr 0) as [F|F]; [reflexivity|].
    apply valid_finite_32. left. rewrite Z2Pos.id by lia. split; [lia|reflexivity]. }
  apply valid_finite_32. right. rewrite Z2Pos.id by lia. lia.
Qed.

Theorem finite_sf32_of_bits : is_finite_SF (sf32_of_bits b) = f32_finite b.
Proof.
  destruct bits_facts as [Hfr [Hex [Hb' Hb]]].
  assert (Eex : ex = (b / 2 ^ 23) mod 2 ^ 8).
  { unfold ex, b'. change (2 ^ 31) with (2 ^ 23 * 2 ^ 8). apply mod_mul_div; reflexivity. }
  unfold f32_finite. rewrite <- Eex.
  unfold sf32_of_bits. cbv zeta. fold b'. fold ex. fold fr.
  destruct (Z.eqb_spec ex 255) as [E|E].
  { rewrite E. destruct (fr =? 0); reflexivity. }
  assert (Hlt : (ex <? 255) = true) by (apply Z.ltb_lt; lia). rewrite Hlt.
  destruct (ex =? 0); [destruct (fr =? 0)|]; reflexivity.
Qed.

Theorem sf32_bits_of_bits : sf32_of_bits b <> S754_nan -> sf32_bits (sf32_of_bits b) = b.
Proof.
  destruct bits_facts as [Hfr [Hex [Hb' Hb]]].
  unfold sf32_of_bits. cbv zeta. fold b'. fold ex. fold fr.
  change (2 ^ 23) with 8388608.
  set (s := 2 ^ 31 <=? b) in *.
  destruct (Z.eqb_spec ex 255) as [E|E].
  { destruct (Z.eqb_spec fr 0) as [F|F]; [|intros H; now elim H].
    intros _. cbn [sf32_bits]. change (2 ^ 31) with 2147483648. change (2 ^ 23) with 8388608.
    destruct s; lia. }
  destruct (Z.eqb_spec ex 0) as [E0|E0].
  { destruct (Z.eqb_spec fr 0) as [F|F]; intros _; cbn [sf32_bits];
      change (2 ^ 31) with 2147483648; change (2 ^ 23) with 8388608.
    - destruct s; lia.
    - rewrite Z2Pos.id by lia.
      assert (Hlt : (fr <? 8388608) = true) by (apply Z.ltb_lt; lia). rewrite Hlt.
      destruct s; lia. }
  intros _. cbn [sf32_bits]. change (2 ^ 31) with 2147483648. change (2 ^ 23) with 8388608.
  rewrite Z2Pos.id by lia.
  assert (Hge : (fr + 8388608 <? 8388608) = false) by (apply Z.ltb_ge; lia). rewrite Hge.
  destruct s; lia.
Qed.

End Bits.

(* the statement in terms of bit patterns (what C16 compares) *)
Theorem fmt_f32_ref_round_trip_bits : forall b,
  f32_wf b = true -> f32_finite b = true ->
  sgl (fmt_f32_ref b) = sf32_of_bits b /\ sf32_bits (sgl (fmt_f32_ref b)) = b.
Proof.
  intros b Hwf Hfin. unfold f32_wf in Hwf. apply andb_true_iff in Hwf.
  rewrite Z.leb_le, Z.ltb_lt in Hwf.
  assert (E : sgl (fmt_f32_ref b) = sf32_of_bits b).
  { unfold fmt_f32_ref. apply fmt_sf_chk32_round_trip_total.
    - now apply valid_sf32_of_bits.
    - now rewrite finite_sf32_of_bits. }
  split; [exact E|]. rewrite E. apply sf32_bits_of_bits; [exact Hwf|].
  intros Hn. pose proof (finite_sf32_of_bits b Hwf) as F. rewrite Hn, Hfin in F. discriminate F.
Qed.

Print Assumptions nks_g_chk32_total.
Print Assumptions fmt_sf_chk32_nonempty.
Print Assumptions fmt_sf_chk32_round_trip_total.
Print Assumptions valid_sf32_of_bits.
Print Assumptions finite_sf32_of_bits.
Print Assumptions sf32_bits_of_bits.
Print Assumptions fmt_f32_ref_round_trip_bits.
