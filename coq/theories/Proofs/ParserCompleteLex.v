(* Proofs/ParserCompleteLex.v -- completeness of the leaf lexers of Model/Parser.v with
   respect to Spec/Grammar.v ("grammar implies Ok"): white space, literals, numbers,
   strings, and the array/object punctuation functions.  Used by ParserComplete.v. *)
From JsonSyntax Require Import Base.Prelude Base.Value Base.Unicode Model.Parser
     Proofs.ParserRecDef Spec.Grammar.

(* ---------- streams in normal form ---------- *)
Definition soks (t : list item) : list sitem := map (fun i => SOk (fst i) (snd i)) t.
Notation mk l p c := {| rest := l; pos := p; cm := c |}.

Lemma soks_app a b : soks (a ++ b) = soks a ++ soks b.
Proof. apply map_app. Qed.

Lemma soks_length t : length (soks t) = length t.
Proof. apply map_length. Qed.

Lemma items_of_soks t : items_of (soks t) = t.
Proof.
  induction t as [|[c l] t IH]; cbn; [reflexivity|]. f_equal. exact IH.
Qed.

Lemma stream_ok_soks s : stream_ok s -> s = soks (items_of s).
Proof.
  induction 1 as [|x s Hx Hs IH]; [reflexivity|].
  destruct x as [c l|]; [|congruence]. cbn. f_equal. exact IH.
Qed.

Lemma stream_ok_length s : stream_ok s -> length (items_of s) = length s.
Proof.
  intros H. rewrite (stream_ok_soks s H) at 2. now rewrite soks_length.
Qed.

(* ---------- blen, cps, shift ---------- *)
Lemma blen_app a b : blen (a ++ b) = blen a + blen b.
Proof.
  induction a as [|x a IH].
  - change (blen b = 0 + blen b). lia.
  - change (snd x + blen (a ++ b) = (snd x + blen a) + blen b). lia.
Qed.

Lemma blen_cons x a : blen (x :: a) = snd x + blen a.
Proof. reflexivity. Qed.

Lemma blen_nil : blen [] = 0.
Proof. reflexivity. Qed.

Lemma cps_app a b : cps (a ++ b) = cps a ++ cps b.
Proof. apply map_app. Qed.

Lemma cps_length t : length (cps t) = length t.
Proof. apply map_length. Qed.

Lemma shift_app d a b : shift d (a ++ b) = shift d a ++ shift d b.
Proof. apply map_app. Qed.

Lemma shift_length d m : length (shift d m) = length m.
Proof. apply map_length. Qed.

Lemma shift_shift a b m : shift a (shift b m) = shift (b + a) m.
Proof.
  unfold shift. rewrite map_map. apply map_ext. intros [[x y] v]. f_equal. f_equal; lia.
Qed.

Lemma shift_ext a b m : a = b -> shift a m = shift b m.
Proof. intros ->; reflexivity. Qed.

Lemma vol_shift d m : vol (shift d m) = vol m.
Proof. unfold vol. now rewrite shift_length. Qed.

(* ---------- characters ---------- *)
Lemma ws_is_ws c : ws_char c = is_ws c.
Proof.
  unfold ws_char, is_ws.
  destruct (c =? 0x20), (c =? 0x09), (c =? 0x0A), (c =? 0x0D); reflexivity.
Qed.

Lemma digit_is_digit c : digit c = is_digit c.
Proof. reflexivity. Qed.

Lemma hexdig_hexval c : hexdig c = hexval c.
Proof. reflexivity. Qed.

(* the next item is not white space (or there is none) *)
Definition nows (r : list item) : Prop :=
  match r with [] => True | i :: _ => is_ws (fst i) = false end.

(* ---------- white space ---------- *)
Lemma skip_ws_list_ok w r p :
  ws w -> nows r -> skip_ws_list (soks (w ++ r)) p = Ok (soks r, p + blen w).
Proof.
  intros Hw Hr. revert p. induction Hw as [|[c l] w Hc Hw IH]; intros p.
  - cbn [app blen fold_right]. rewrite N.add_0_r.
    destruct r as [|[c l] r]; [reflexivity|]. cbn in Hr. cbn. rewrite Hr. reflexivity.
  - cbn in Hc. rewrite ws_is_ws in Hc. cbn. rewrite Hc.
    fold (soks (w ++ r)). rewrite IH. fold (blen w). f_equal. f_equal. lia.
Qed.

Lemma skip_ws_ok w r p c :
  ws w -> nows r ->
  skip_whitespaces (mk (soks (w ++ r)) p c) = Ok (tt, mk (soks r) (p + blen w) c).
Proof.
  intros Hw Hr. unfold skip_whitespaces. cbn [rest pos cm].
  rewrite skip_ws_list_ok by assumption. reflexivity.
Qed.

Lemma skip_ws_nows r p c :
  nows r -> skip_whitespaces (mk (soks r) p c) = Ok (tt, mk (soks r) p c).
Proof.
  intros Hr. generalize (skip_ws_ok [] r p c (Forall_nil _) Hr).
  cbn [app blen fold_right]. now rewrite N.add_0_r.
Qed.

Lemma ws_app a b : ws a -> ws b -> ws (a ++ b).
Proof. intros; apply Forall_app; split; assumption. Qed.

(* ---------- fragments ---------- *)
Lemma set_nth_app {A} (C : list A) x y D :
  set_nth (length C) x (C ++ y :: D) = C ++ x :: D.
Proof. induction C as [|z C IH]; cbn; [reflexivity|]. now rewrite IH. Qed.

Lemma end_fragment_ok l p C s0 e0 v0 D :
  s0 <= p ->
  end_fragment (N.of_nat (length C)) (mk l p (C ++ (s0, e0, v0) :: D))
  = Ok (tt, mk l p (C ++ (s0, p, 1 + N.of_nat (length D)) :: D)).
Proof.
  intros Hp. unfold end_fragment. cbn [rest pos cm]. rewrite Nat2N.id.
  rewrite nth_error_app2 by lia. rewrite Nat.sub_diag. cbn [nth_error].
  destruct (_ <? _) eqn:H.
  { apply N.ltb_lt in H. rewrite app_length in H. lia. }
  rewrite set_nth_app. rewrite app_length. cbn [length].
  replace (N.max s0 p) with p by lia.
  replace (N.of_nat (length C + S (length D)) - N.of_nat (length C)) with (1 + N.of_nat (length D)) by lia.
  reflexivity.
Qed.

(* ---------- literals ---------- *)
Lemma expect_chars_ok t r p c :
  expect_chars (cps t) (mk (soks (t ++ r)) p c) = Ok (tt, mk (soks r) (p + blen t) c).
Proof.
  revert p. induction t as [|[x l] t IH]; intros p.
  - cbn. now rewrite N.add_0_r.
  - cbn [cps map fst expect_chars]. cbn [app soks map fst snd next_char rest pos cm obind].
    rewrite N.eqb_refl. fold (soks (t ++ r)). fold (cps t). rewrite IH.
    rewrite blen_cons. cbn [snd]. do 3 f_equal. lia.
Qed.

Lemma cps_cons_inv t c cs : cps t = c :: cs -> exists l t', t = (c, l) :: t' /\ cps t' = cs.
Proof.
  destruct t as [|[x l] t]; cbn; intros H; inversion H. eauto.
Qed.

Lemma cps_nil_inv t : cps t = [] -> t = [].
Proof. destruct t; cbn; congruence. Qed.

Lemma parse_null_ok t r p c :
  cps t = [0x6E; 0x75; 0x6C; 0x6C] ->
  parse_null (mk (soks (t ++ r)) p c)
  = Ok (N.of_nat (length c), mk (soks r) (p + blen t) (c ++ [(p, p + blen t, 1)])).
Proof.
  intros H. unfold parse_null, begin_fragment. cbn [rest pos cm].
  rewrite <- H, expect_chars_ok. cbn [obind].
  rewrite end_fragment_ok by lia. reflexivity.
Qed.

Lemma parse_bool_true_ok t r p c :
  cps t = [0x74; 0x72; 0x75; 0x65] ->
  parse_bool (mk (soks (t ++ r)) p c)
  = Ok ((true, N.of_nat (length c)), mk (soks r) (p + blen t) (c ++ [(p, p + blen t, 1)])).
Proof.
  intros H. apply cps_cons_inv in H. destruct H as (l & t' & -> & H).
  unfold parse_bool, begin_fragment. cbn [rest pos cm app soks map fst snd next_char obind].
  fold (soks (t' ++ r)). rewrite <- H, expect_chars_ok. cbn [obind].
  rewrite end_fragment_ok by lia. rewrite blen_cons. cbn [snd obind].
  rewrite !N.add_assoc. reflexivity.
Qed.

Lemma parse_bool_false_ok t r p c :
  cps t = [0x66; 0x61; 0x6C; 0x73; 0x65] ->
  parse_bool (mk (soks (t ++ r)) p c)
  = Ok ((false, N.of_nat (length c)), mk (soks r) (p + blen t) (c ++ [(p, p + blen t, 1)])).
Proof.
  intros H. apply cps_cons_inv in H. destruct H as (l & t' & -> & H).
  unfold parse_bool, begin_fragment. cbn [rest pos cm app soks map fst snd next_char obind].
  fold (soks (t' ++ r)). rewrite <- H, expect_chars_ok. cbn [obind].
  rewrite end_fragment_ok by lia. rewrite blen_cons. cbn [snd obind].
  rewrite !N.add_assoc. reflexivity.
Qed.

(* ---------- numbers ---------- *)
Ltac chartac :=
  repeat match goal with
  | H : context [N.eqb ?a ?b] |- _ => destruct (N.eqb_spec a b)
  | |- context [N.eqb ?a ?b] => destruct (N.eqb_spec a b)
  | H : context [N.leb ?a ?b] |- _ => destruct (N.leb_spec a b)
  | |- context [N.leb ?a ?b] => destruct (N.leb_spec a b)
  end; cbn in *; try reflexivity; try discriminate; try lia.

(* the automaton run over a list of characters, all transitions being NGo *)
Fixpoint nsteps (ctx : context) (s : nstate) (cs : list N) : option nstate :=
  match cs with
  | [] => Some s
  | c :: r => match num_trans ctx s c with NGo s' => nsteps ctx s' r | _ => None end
  end.

Lemma nsteps_app ctx a : forall s b s1 s2,
  nsteps ctx s a = Some s1 -> nsteps ctx s1 b = Some s2 -> nsteps ctx s (a ++ b) = Some s2.
Proof.
  induction a as [|c a IH]; intros s b s1 s2 H1 H2; cbn in *.
  - inversion H1; subst. exact H2.
  - destruct (num_trans ctx s c); try discriminate. eapply IH; eassumption.
Qed.

Lemma num_loop_steps ctx t : forall s s' buf r p,
  nsteps ctx s (cps t) = Some s' ->
  num_loop ctx s buf (soks (t ++ r)) p = num_loop ctx s' (buf ++ cps t) (soks r) (p + blen t).
Proof.
  induction t as [|[c l] t IH]; intros s s' buf r p H.
  - cbn in H. inversion H; subst. cbn [cps map app blen fold_right].
    now rewrite app_nil_r, N.add_0_r.
  - cbn [cps map fst nsteps] in H. cbn [app soks map fst snd num_loop].
    destruct (num_trans ctx s c) as [s1| |]; try discriminate.
    fold (soks (t ++ r)). fold (cps t) in H. rewrite (IH _ _ _ _ _ H).
    cbn [cps map fst]. fold (cps t). rewrite <- app_assoc. cbn [app].
    rewrite blen_cons. cbn [snd]. now rewrite N.add_assoc.
Qed.

Lemma nsteps_digits ctx s ds :
  (s = NNonZero \/ s = NFracRest \/ s = NExpRest) ->
  Forall (fun c => digit c = true) ds -> nsteps ctx s ds = Some s.
Proof.
  intros Hs H. induction H as [|c ds Hc H IH]; [reflexivity|].
  cbn [nsteps]. replace (num_trans ctx s c) with (NGo s); [exact IH|].
  change (digit c) with (is_digit c) in Hc.
  destruct Hs as [->|[->| ->]]; cbn; rewrite Hc; reflexivity.
Qed.

Lemma nsteps_jint ctx s i :
  (s = NInit \/ s = NFirstDigit) -> jint i ->
  exists s', nsteps ctx s i = Some s' /\ (s' = NZero \/ s' = NNonZero).
Proof.
  intros Hs [->|(d & ds & Hd & Hds & ->)].
  - exists NZero. split; [|now left]. destruct Hs as [->| ->]; reflexivity.
  - exists NNonZero. split; [|now right]. cbn [nsteps].
    replace (num_trans ctx s d) with (NGo NNonZero).
    + apply nsteps_digits; auto.
    + unfold onenine in Hd. destruct Hs as [->| ->]; unfold num_trans, is_onenine; chartac.
Qed.

Lemma nsteps_digits1 ctx s s' d ds :
  (s' = NFracRest \/ s' = NExpRest) ->
  digit d = true -> num_trans ctx s d = NGo s' ->
  Forall (fun c => digit c = true) ds -> nsteps ctx s (d :: ds) = Some s'.
Proof.
  intros Hs' Hd Ht Hds. cbn [nsteps]. rewrite Ht. apply nsteps_digits; tauto.
Qed.

Lemma digits1_inv ds : digits1 ds ->
  exists d ds', ds = d :: ds' /\ digit d = true /\ Forall (fun c => digit c = true) ds'.
Proof.
  intros [Hne H]. destruct ds as [|d ds']; [congruence|].
  inversion H; subst. eauto.
Qed.

Lemma nsteps_jfrac ctx s f :
  (s = NZero \/ s = NNonZero) -> jfrac f ->
  exists s', nsteps ctx s f = Some s' /\ (s' = NZero \/ s' = NNonZero \/ s' = NFracRest).
Proof.
  intros Hs [->|(ds & Hds & ->)].
  - exists s. split; [reflexivity|tauto].
  - exists NFracRest. split; [|tauto].
    apply digits1_inv in Hds. destruct Hds as (d & ds' & -> & Hd & Hds).
    cbn [nsteps]. replace (num_trans ctx s 0x2E) with (NGo NFracFirst)
      by (destruct Hs as [->| ->]; reflexivity).
    apply nsteps_digits1; auto. cbn. change (digit d) with (is_digit d) in Hd. now rewrite Hd.
Qed.

Lemma nsteps_jexp ctx s e :
  (s = NZero \/ s = NNonZero \/ s = NFracRest) -> num_final s = true -> jexp e ->
  exists s', nsteps ctx s e = Some s' /\ num_final s' = true.
Proof.
  intros Hs Hf [->|(E & sg & ds & HE & Hsg & Hds & ->)].
  - exists s. split; [reflexivity|assumption].
  - exists NExpRest. split; [|reflexivity].
    apply digits1_inv in Hds. destruct Hds as (d & ds' & -> & Hd & Hds).
    cbn [nsteps]. replace (num_trans ctx s E) with (NGo NExpSign)
      by (destruct HE as [->| ->]; destruct Hs as [->|[->| ->]]; reflexivity).
    assert (Hd' : is_digit d = true) by exact Hd.
    destruct Hsg as [->|[->| ->]]; cbn [app].
    + apply nsteps_digits1; auto. unfold digit in Hd. unfold num_trans. rewrite Hd'.
      chartac.
    + cbn [nsteps]. change (num_trans ctx NExpSign 43) with (NGo NExpFirst).
      apply nsteps_digits1; auto. cbn. now rewrite Hd'.
    + cbn [nsteps]. change (num_trans ctx NExpSign 45) with (NGo NExpFirst).
      apply nsteps_digits1; auto. cbn. now rewrite Hd'.
Qed.

Lemma nsteps_jnum ctx n : jnum n -> exists s', nsteps ctx NInit n = Some s' /\ num_final s' = true.
Proof.
  intros (m & i & f & e & Hm & Hi & Hf & He & ->).
  assert (H1 : exists s1, nsteps ctx NInit m = Some s1 /\ (s1 = NInit \/ s1 = NFirstDigit)).
  { destruct Hm as [->| ->]; [exists NInit|exists NFirstDigit]; split; auto. }
  destruct H1 as (s1 & H1 & Hs1).
  destruct (nsteps_jint ctx s1 i Hs1 Hi) as (s2 & H2 & Hs2).
  destruct (nsteps_jfrac ctx s2 f Hs2 Hf) as (s3 & H3 & Hs3).
  assert (Hfin : num_final s3 = true) by (destruct Hs3 as [->|[->| ->]]; reflexivity).
  destruct (nsteps_jexp ctx s3 e Hs3 Hfin He) as (s4 & H4 & Hs4).
  exists s4. split; [|exact Hs4].
  eapply nsteps_app; [exact H1|]. eapply nsteps_app; [exact H2|].
  eapply nsteps_app; [exact H3|exact H4].
Qed.

Definition folok (ctx : context) (r : list item) : Prop :=
  match r with [] => True | i :: _ => follows ctx (fst i) = true end.

Lemma follows_chars ctx c : follows ctx c = true ->
  c = 0x20 \/ c = 0x09 \/ c = 0x0D \/ c = 0x0A \/ c = 0x2C \/ c = 0x5D \/ c = 0x3A \/ c = 0x7D.
Proof.
  destruct ctx; unfold follows, is_ws; intros H; chartac; tauto.
Qed.

Lemma num_trans_break ctx s c :
  follows ctx c = true -> num_final s = true -> num_trans ctx s c = NBreak.
Proof.
  intros Hf Hs. pose proof (follows_chars ctx c Hf) as Hc.
  destruct s; try discriminate; unfold num_trans; rewrite Hf;
    destruct Hc as [->|[->|[->|[->|[->|[->|[->| ->]]]]]]]; reflexivity.
Qed.

Lemma parse_number_ok ctx t r p c :
  jnum (cps t) -> folok ctx r ->
  parse_number ctx (mk (soks (t ++ r)) p c)
  = Ok ((cps t, N.of_nat (length c)), mk (soks r) (p + blen t) (c ++ [(p, p + blen t, 1)])).
Proof.
  intros Hn Hr. destruct (nsteps_jnum ctx _ Hn) as (s' & Hs & Hfin).
  unfold parse_number, begin_fragment. cbn [rest pos cm].
  rewrite (num_loop_steps ctx t NInit s' [] r p Hs). cbn [app].
  assert (E : num_loop ctx s' (cps t) (soks r) (p + blen t) = Ok (cps t, s', soks r, p + blen t)).
  { destruct r as [|[x l] r]; [reflexivity|]. cbn in Hr. cbn [soks map fst snd num_loop].
    rewrite (num_trans_break ctx s' x Hr Hfin). reflexivity. }
  rewrite E, Hfin. rewrite end_fragment_ok by lia. reflexivity.
Qed.

(* ---------- strings: one iteration of string_loop per kind of element ---------- *)
Lemma string_loop_quote f o i acc high len y p c :
  string_loop (S f) o i acc high (mk (SOk 0x22 len :: y) p c) =
  match high with
  | Some (p_high, hi) =>
      if trunc o then
        do (_, st2) <- end_fragment i (mk y (p + len) c); Ok ((acc ++ [0xFFFD], i), st2)
      else Err (let '(s, e) := span_new p_high p in EMissingLow s e hi)
  | None => do (_, st2) <- end_fragment i (mk y (p + len) c); Ok ((acc, i), st2)
  end.
Proof. reflexivity. Qed.

Lemma string_loop_raw f o i acc high x len y p c :
  x <> 0x22 -> x <> 0x5C ->
  string_loop (S f) o i acc high (mk (SOk x len :: y) p c) =
  if is_control x then Err (EUnexpected p (Some x)) else
  match high with
  | Some (p_high, hi) =>
      if trunc o then string_loop f o i (acc ++ [0xFFFD; x]) None (mk y (p + len) c)
      else Err (let '(s, e) := span_new p_high p in EMissingLow s e hi)
  | None => string_loop f o i (acc ++ [x]) None (mk y (p + len) c)
  end.
Proof.
  intros H1 H2. cbn [string_loop next_char rest pos cm obind].
  destruct x as [|q]; [reflexivity|].
  do 7 (try (destruct q as [q|q|]); try reflexivity); congruence.
Qed.

Lemma string_loop_esc f o i acc high l d len1 len2 y p c :
  In (l, d) esc_table ->
  string_loop (S f) o i acc high (mk (SOk 0x5C len1 :: SOk l len2 :: y) p c) =
  match high with
  | Some (p_high, hi) =>
      if trunc o then string_loop f o i (acc ++ [0xFFFD; d]) None (mk y (p + len1 + len2) c)
      else Err (let '(s, e) := span_new p_high p in EMissingLow s e hi)
  | None => string_loop f o i (acc ++ [d]) None (mk y (p + len1 + len2) c)
  end.
Proof.
  intros H. cbn in H.
  repeat (destruct H as [H|H]; [inversion H; subst; reflexivity|]). contradiction.
Qed.

Lemma string_loop_u f o i acc high len1 len2 y p c :
  string_loop (S f) o i acc high (mk (SOk 0x5C len1 :: SOk 0x75 len2 :: y) p c) =
  do (cp, st3) <- parse_hex4 (mk y (p + len1 + len2) c);
  match high with
  | Some (p_high, hi) =>
      if is_low cp then
        if (hi <? 0xD800) || (cp <? 0xDC00) then Panic 3 else
        let c := (hi - 0xD800) * 1024 + (cp - 0xDC00) + 0x10000 in
        match (let '(s, e) := span_new p_high (pos st3) in char_or_replace o c s e) with
        | Ok c' => string_loop f o i (acc ++ [c']) None st3
        | Err e => Err e
        | Panic x => Panic x
        | OutOfFuel => OutOfFuel
        end
      else if trunc o then
        if is_high cp then
          string_loop f o i (acc ++ [0xFFFD]) (Some (p + len1, cp)) st3
        else
        match (let '(s, e) := span_new (p + len1) (pos st3) in char_or_replace o cp s e) with
        | Ok c' => string_loop f o i (acc ++ [0xFFFD; c']) None st3
        | Err e => Err e
        | Panic x => Panic x
        | OutOfFuel => OutOfFuel
        end
      else Err (let '(s, e) := span_new (p + len1) (pos st3) in EInvalidLow s e hi cp)
  | None =>
      if is_high cp then string_loop f o i acc (Some (p + len1, cp)) st3
      else
        match (let '(s, e) := span_new (p + len1) (pos st3) in char_or_replace o cp s e) with
        | Ok c' => string_loop f o i (acc ++ [c']) None st3
        | Err e => Err e
        | Panic x => Panic x
        | OutOfFuel => OutOfFuel
        end
  end.
Proof. reflexivity. Qed.

Lemma parse_hex4_ok h3 h2 h1 h0 d3 d2 d1 d0 l3 l2 l1 l0 y p c :
  hexdig h3 = Some d3 -> hexdig h2 = Some d2 -> hexdig h1 = Some d1 -> hexdig h0 = Some d0 ->
  parse_hex4 (mk (SOk h3 l3 :: SOk h2 l2 :: SOk h1 l1 :: SOk h0 l0 :: y) p c)
  = Ok (d3 * 4096 + d2 * 256 + d1 * 16 + d0, mk y (p + l3 + l2 + l1 + l0) c).
Proof.
  intros H3 H2 H1 H0. change hexdig with hexval in *.
  unfold parse_hex4, hex_digit. cbn [next_char rest pos cm obind].
  rewrite H3. cbn [next_char rest pos cm obind]. rewrite H2. cbn [next_char rest pos cm obind].
  rewrite H1. cbn [next_char rest pos cm obind]. rewrite H0. reflexivity.
Qed.

Lemma hexdig_lt h d : hexdig h = Some d -> d < 16.
Proof.
  unfold hexdig, digit. intros H.
  destruct (N.leb_spec 0x30 h), (N.leb_spec h 0x39); cbn in H;
    try (inversion H; lia);
  destruct (N.leb_spec 0x41 h), (N.leb_spec h 0x46); cbn in H;
    try (inversion H; lia);
  destruct (N.leb_spec 0x61 h), (N.leb_spec h 0x66); cbn in H;
    try (inversion H; lia); discriminate.
Qed.

Lemma char_or_replace_scalar o c s e : is_scalar c = true -> char_or_replace o c s e = Ok c.
Proof. intros H. unfold char_or_replace, from_u32. now rewrite H. Qed.

Lemma char_or_replace_low o c s e :
  is_low c = true -> inval o = true -> char_or_replace o c s e = Ok 0xFFFD.
Proof.
  intros H Hi. unfold char_or_replace, from_u32.
  replace (is_scalar c) with false; [now rewrite Hi|].
  unfold is_low, is_scalar in *. chartac.
  all: destruct (N.ltb_spec c 0xD800); try lia; reflexivity.
Qed.

(* ---------- strings: decode equations ---------- *)
Lemma decode_raw o c r : decode o (Raw c :: r) = option_map (cons c) (decode o r).
Proof. reflexivity. Qed.

Lemma decode_esc o c r : decode o (Esc c :: r) = option_map (cons c) (decode o r).
Proof. reflexivity. Qed.

Lemma decode_high_low o u l r : is_high u = true -> is_low l = true ->
  decode o (U16 u :: U16 l :: r)
  = option_map (cons (0x10000 + (u - 0xD800) * 0x400 + (l - 0xDC00))) (decode o r).
Proof. intros Hu Hl. cbn [decode]. rewrite Hu, Hl. reflexivity. Qed.

Definition not_low_head (r : list selem) : Prop :=
  match r with U16 l :: _ => is_low l = false | _ => True end.

Lemma decode_high_other o u r : is_high u = true -> not_low_head r ->
  decode o (U16 u :: r) = if trunc o then option_map (cons 0xFFFD) (decode o r) else None.
Proof.
  intros Hu Hr. destruct r as [|[x|x|l] r]; cbn [decode]; rewrite Hu; try reflexivity.
  cbn in Hr. rewrite Hr. reflexivity.
Qed.

Lemma decode_low o u r : is_high u = false -> is_low u = true ->
  decode o (U16 u :: r) = if inval o then option_map (cons 0xFFFD) (decode o r) else None.
Proof. intros Hu Hl. cbn [decode]. rewrite Hu, Hl. reflexivity. Qed.

Lemma decode_plain o u r : is_high u = false -> is_low u = false ->
  decode o (U16 u :: r) = option_map (cons u) (decode o r).
Proof. intros Hu Hl. cbn [decode]. rewrite Hu, Hl. reflexivity. Qed.

(* ---------- strings: the loop against [decode] ---------- *)
From Coq Require Import ZifyBool ZifyN.

Lemma scalar_of_plain cp : cp < 65536 -> is_high cp = false -> is_low cp = false -> is_scalar cp = true.
Proof. unfold is_high, is_low, is_scalar. lia. Qed.

Lemma scalar_of_pair u l : is_high u = true -> is_low l = true ->
  is_scalar ((u - 0xD800) * 1024 + (l - 0xDC00) + 0x10000) = true.
Proof. unfold is_high, is_low, is_scalar. lia. Qed.

Lemma no_panic3 u l : is_high u = true -> is_low l = true -> (u <? 0xD800) || (l <? 0xDC00) = false.
Proof. unfold is_high, is_low. lia. Qed.

Lemma high_not_low u : is_high u = true -> is_low u = false.
Proof. unfold is_high, is_low. lia. Qed.

Lemma unescaped_facts c : unescaped c = true -> c <> 0x22 /\ c <> 0x5C /\ is_control c = false.
Proof. unfold unescaped, is_control. lia. Qed.

(* what remains to be decoded when a high surrogate is pending *)
Definition dec_pending (o : opts) (high : option (N * N)) (els : list selem) : option (list N) :=
  match high with None => decode o els | Some (_, u) => decode o (U16 u :: els) end.
Definition high_ok (high : option (N * N)) : Prop :=
  match high with None => True | Some (_, u) => is_high u = true end.

Ltac sl_side :=
  first [ assumption | exact I | reflexivity | (rewrite <- app_assoc; reflexivity)
        | (rewrite ?blen_cons; cbn [snd]; lia) ].

Lemma string_loop_ok o i c r ql : forall srcs els, Forall2 elem_src srcs els ->
  forall fuel acc high body p s sfin pfin,
  cps body = concat srcs -> high_ok high -> dec_pending o high els = Some s ->
  (length els < fuel)%nat -> sfin = acc ++ s -> pfin = p + blen body + ql ->
  string_loop fuel o i acc high (mk (soks (body ++ (0x22, ql) :: r)) p c)
  = do (_, st2) <- end_fragment i (mk (soks r) pfin c); Ok ((sfin, i), st2).
Proof.
  induction 1 as [|src el srcs els Hel Hrest IH];
    intros fuel acc high body p s sfin pfin Hb Hh Hd Hf -> ->.
  - apply cps_nil_inv in Hb. subst body. destruct fuel as [|f]; [cbn in Hf; lia|].
    cbn [app soks map fst snd]. rewrite string_loop_quote. rewrite blen_nil, N.add_0_r.
    destruct high as [[ph u]|]; cbn in Hh, Hd.
    + rewrite Hh in Hd. destruct (trunc o); [|discriminate]. inversion Hd; subst. reflexivity.
    + inversion Hd; subst. now rewrite app_nil_r.
  - destruct fuel as [|f]; [cbn in Hf; lia|]. cbn [length] in Hf.
    assert (Hf' : (length els < f)%nat) by lia.
    cbn [concat] in Hb.
    destruct Hel as [x Hx | l d Hld | h3 h2 h1 h0 d3 d2 d1 d0 H3 H2 H1 H0].
    + (* raw character *)
      apply cps_cons_inv in Hb. destruct Hb as (len & body' & -> & Hb).
      destruct (unescaped_facts x Hx) as (N1 & N2 & N3).
      cbn [app soks map fst snd]. rewrite string_loop_raw by assumption. rewrite N3.
      fold (soks (body' ++ (0x22, ql) :: r)).
      destruct high as [[ph u]|]; cbn [dec_pending high_ok] in Hh, Hd.
      * rewrite decode_high_other in Hd by (auto; exact I).
        destruct (trunc o); [|discriminate]. rewrite decode_raw in Hd.
        destruct (decode o els) as [s'|] eqn:E; [|discriminate]. cbn in Hd. inversion Hd; subst.
        eapply (IH f _ None body' _ s'); sl_side.
      * rewrite decode_raw in Hd.
        destruct (decode o els) as [s'|] eqn:E; [|discriminate]. cbn in Hd. inversion Hd; subst.
        eapply (IH f _ None body' _ s'); sl_side.
    + (* two-character escape *)
      cbn [app] in Hb.
      apply cps_cons_inv in Hb. destruct Hb as (len1 & body1 & -> & Hb).
      apply cps_cons_inv in Hb. destruct Hb as (len2 & body' & -> & Hb).
      cbn [app soks map fst snd]. rewrite (string_loop_esc _ _ _ _ _ l d) by assumption.
      fold (soks (body' ++ (0x22, ql) :: r)).
      destruct high as [[ph u]|]; cbn [dec_pending high_ok] in Hh, Hd.
      * rewrite decode_high_other in Hd by (auto; exact I).
        destruct (trunc o); [|discriminate]. rewrite decode_esc in Hd.
        destruct (decode o els) as [s'|] eqn:E; [|discriminate]. cbn in Hd. inversion Hd; subst.
        eapply (IH f _ None body' _ s'); sl_side.
      * rewrite decode_esc in Hd.
        destruct (decode o els) as [s'|] eqn:E; [|discriminate]. cbn in Hd. inversion Hd; subst.
        eapply (IH f _ None body' _ s'); sl_side.
    + (* \uXXXX *)
      cbn [app] in Hb.
      apply cps_cons_inv in Hb. destruct Hb as (len1 & body1 & -> & Hb).
      apply cps_cons_inv in Hb. destruct Hb as (len2 & body2 & -> & Hb).
      apply cps_cons_inv in Hb. destruct Hb as (l3 & body3 & -> & Hb).
      apply cps_cons_inv in Hb. destruct Hb as (l2 & body4 & -> & Hb).
      apply cps_cons_inv in Hb. destruct Hb as (l1 & body5 & -> & Hb).
      apply cps_cons_inv in Hb. destruct Hb as (l0 & body' & -> & Hb).
      cbn [app soks map fst snd]. rewrite string_loop_u.
      rewrite (parse_hex4_ok _ _ _ _ _ _ _ _ _ _ _ _ _ _ _ H3 H2 H1 H0). cbn [obind pos].
      fold (soks (body' ++ (0x22, ql) :: r)).
      pose proof (hexdig_lt _ _ H3). pose proof (hexdig_lt _ _ H2).
      pose proof (hexdig_lt _ _ H1). pose proof (hexdig_lt _ _ H0).
      set (cp := d3 * 4096 + d2 * 256 + d1 * 16 + d0) in *.
      assert (Hcp : cp < 65536) by (unfold cp; lia).
      destruct high as [[ph u]|]; cbn [dec_pending high_ok] in Hh, Hd.
      * destruct (is_low cp) eqn:Hl.
        -- rewrite decode_high_low in Hd by assumption.
           rewrite (no_panic3 u cp Hh Hl). cbv zeta.
           unfold span_new. rewrite char_or_replace_scalar by (apply scalar_of_pair; assumption).
           destruct (decode o els) as [s'|] eqn:E; [|discriminate]. cbn in Hd. inversion Hd; subst.
           eapply (IH f _ None body' _ s'); try sl_side.
           rewrite <- app_assoc. cbn [app]. do 2 f_equal. lia.
        -- rewrite decode_high_other in Hd by (auto; exact Hl).
           destruct (trunc o); [|discriminate].
           destruct (decode o (U16 cp :: els)) as [s'|] eqn:E; [|discriminate].
           cbn in Hd. inversion Hd; subst.
           destruct (is_high cp) eqn:Hh2.
           ++ eapply (IH f _ (Some (p + len1, cp)) body' _ s'); sl_side.
           ++ unfold span_new.
              rewrite char_or_replace_scalar by (apply scalar_of_plain; assumption).
              rewrite decode_plain in E by assumption.
              destruct (decode o els) as [s''|] eqn:E'; [|discriminate]. cbn in E. inversion E; subst.
              eapply (IH f _ None body' _ s''); sl_side.
      * destruct (is_high cp) eqn:Hh2.
        -- eapply (IH f _ (Some (p + len1, cp)) body' _ s); sl_side.
        -- unfold span_new. destruct (is_low cp) eqn:Hl.
           ++ rewrite decode_low in Hd by assumption.
              destruct (inval o) eqn:Hinv; [|discriminate].
              rewrite char_or_replace_low by assumption.
              destruct (decode o els) as [s'|] eqn:E; [|discriminate]. cbn in Hd. inversion Hd; subst.
              eapply (IH f _ None body' _ s'); sl_side.
           ++ rewrite decode_plain in Hd by assumption.
              rewrite char_or_replace_scalar by (apply scalar_of_plain; assumption).
              destruct (decode o els) as [s'|] eqn:E; [|discriminate]. cbn in Hd. inversion Hd; subst.
              eapply (IH f _ None body' _ s'); sl_side.
Qed.

Lemma cps_app_inv a : forall t b, cps t = a ++ b ->
  exists ta tb, t = ta ++ tb /\ cps ta = a /\ cps tb = b.
Proof.
  induction a as [|x a IH]; intros t b H.
  - exists [], t. auto.
  - cbn [app] in H. apply cps_cons_inv in H. destruct H as (l & t' & -> & H).
    destruct (IH _ _ H) as (ta & tb & -> & Ha & Hb).
    exists ((x, l) :: ta), tb. subst a. auto.
Qed.

Lemma elem_src_len srcs els : Forall2 elem_src srcs els -> (length els <= length (concat srcs))%nat.
Proof.
  induction 1 as [|src el srcs els Hel _ IH]; [cbn; lia|].
  cbn [concat length]. rewrite app_length. destruct Hel; cbn [length]; lia.
Qed.

Lemma jstr_inv o t s : jstr o (cps t) s ->
  exists l1 body l2 srcs els, t = (0x22, l1) :: body ++ [(0x22, l2)] /\ cps body = concat srcs /\
    Forall2 elem_src srcs els /\ decode o els = Some s.
Proof.
  intros (srcs & els & HF & Ht & Hd).
  apply cps_cons_inv in Ht. destruct Ht as (l1 & t1 & -> & Ht).
  apply cps_app_inv in Ht. destruct Ht as (body & tb & -> & Hb & Hq).
  apply cps_cons_inv in Hq. destruct Hq as (l2 & tb' & -> & Hq). apply cps_nil_inv in Hq. subst tb'.
  exists l1, body, l2, srcs, els. auto.
Qed.

Lemma parse_string_ok o t s r p c :
  jstr o (cps t) s ->
  parse_string o (mk (soks (t ++ r)) p c)
  = Ok ((s, N.of_nat (length c)), mk (soks r) (p + blen t) (c ++ [(p, p + blen t, 1)])).
Proof.
  intros H. destruct (jstr_inv o t s H) as (l1 & body & l2 & srcs & els & -> & Hb & HF & Hd).
  unfold parse_string, begin_fragment. cbn [app soks map fst snd next_char rest pos cm obind].
  fold (soks ((body ++ [(0x22, l2)]) ++ r)). rewrite <- app_assoc. cbn [app].
  rewrite (string_loop_ok o (N.of_nat (length c)) (c ++ [(p, p, 0)]) r l2 srcs els HF
             _ [] None body (p + l1) s s (p + blen ((0x22, l1) :: body ++ [(0x22, l2)]))); try sl_side.
  - rewrite end_fragment_ok by lia. reflexivity.
  - pose proof (elem_src_len _ _ HF) as Hl. rewrite <- Hb, cps_length in Hl.
    rewrite map_length, app_length. cbn [length]. unfold item in *. lia.
  - rewrite blen_cons, blen_app, blen_cons. cbn [snd blen fold_right]. lia.
Qed.

(* ---------- punctuation: arrays ---------- *)
Ltac not_char x :=
  let q := fresh "q" in
  destruct x as [|q]; [reflexivity|];
  do 7 (try (destruct q as [q|q|]); try reflexivity); congruence.

Lemma array_start_empty l1 w l2 r p c :
  ws w ->
  array_start (mk (soks ((0x5B, l1) :: w ++ (0x5D, l2) :: r)) p c)
  = Ok ((true, N.of_nat (length c)),
        mk (soks r) (p + l1 + blen w + l2) (c ++ [(p, p + l1 + blen w + l2, 1)])).
Proof.
  intros Hw. unfold array_start, begin_fragment.
  cbn [app soks map fst snd next_char rest pos cm obind].
  fold (soks (w ++ (0x5D, l2) :: r)). rewrite skip_ws_ok by (auto; reflexivity).
  cbn [obind soks map fst snd peek_char next_char rest pos cm].
  rewrite end_fragment_ok by lia. reflexivity.
Qed.

Lemma array_start_nonempty l1 w x y p c :
  ws w -> is_ws (fst x) = false -> fst x <> 0x5D ->
  array_start (mk (soks ((0x5B, l1) :: w ++ x :: y)) p c)
  = Ok ((false, N.of_nat (length c)), mk (soks (x :: y)) (p + l1 + blen w) (c ++ [(p, p, 0)])).
Proof.
  intros Hw Hx Hx'. unfold array_start, begin_fragment.
  cbn [app soks map fst snd next_char rest pos cm obind].
  fold (soks (w ++ x :: y)). rewrite skip_ws_ok by (auto; exact Hx).
  destruct x as [xc xl]. cbn [fst] in Hx'.
  cbn [obind soks map fst snd peek_char next_char rest pos cm].
  not_char xc.
Qed.

Lemma array_continue_comma i w l r p c :
  ws w ->
  array_continue i (mk (soks (w ++ (0x2C, l) :: r)) p c) = Ok (true, mk (soks r) (p + blen w + l) c).
Proof.
  intros Hw. unfold array_continue. rewrite skip_ws_ok by (auto; reflexivity). reflexivity.
Qed.

Lemma array_continue_close w l r p C s0 e0 v0 D :
  ws w -> s0 <= p ->
  array_continue (N.of_nat (length C)) (mk (soks (w ++ (0x5D, l) :: r)) p (C ++ (s0, e0, v0) :: D))
  = Ok (false, mk (soks r) (p + blen w + l)
                  (C ++ (s0, p + blen w + l, 1 + N.of_nat (length D)) :: D)).
Proof.
  intros Hw Hs. unfold array_continue. rewrite skip_ws_ok by (auto; reflexivity).
  cbn [obind soks map fst snd next_char rest pos cm].
  rewrite end_fragment_ok by lia. reflexivity.
Qed.

(* ---------- punctuation: objects ---------- *)
Lemma object_key_ok o kt k w1 l r p c :
  jstr o (cps kt) k -> ws w1 ->
  object_key o (mk (soks (kt ++ w1 ++ (0x3A, l) :: r)) p c)
  = Ok ((k, N.of_nat (length c)),
        mk (soks r) (p + blen kt + blen w1 + l) (c ++ [(p, p, 0); (p, p + blen kt, 1)])).
Proof.
  intros Hk Hw. unfold object_key, begin_fragment. cbn [rest pos cm].
  rewrite (parse_string_ok o kt k _ p (c ++ [(p, p, 0)]) Hk). cbn [obind].
  rewrite skip_ws_ok by (auto; reflexivity).
  cbn [obind soks map fst snd next_char rest pos cm].
  rewrite <- app_assoc. reflexivity.
Qed.

Lemma object_start_empty o l1 w l2 r p c :
  ws w ->
  object_start o (mk (soks ((0x7B, l1) :: w ++ (0x7D, l2) :: r)) p c)
  = Ok ((OEmpty, N.of_nat (length c)),
        mk (soks r) (p + l1 + blen w + l2) (c ++ [(p, p + l1 + blen w + l2, 1)])).
Proof.
  intros Hw. unfold object_start, begin_fragment.
  cbn [app soks map fst snd next_char rest pos cm obind].
  fold (soks (w ++ (0x7D, l2) :: r)). rewrite skip_ws_ok by (auto; reflexivity).
  cbn [obind soks map fst snd peek_char next_char rest pos cm].
  rewrite end_fragment_ok by lia. reflexivity.
Qed.

Lemma object_start_nonempty o l1 w x y p c :
  ws w -> is_ws (fst x) = false -> fst x <> 0x7D ->
  object_start o (mk (soks ((0x7B, l1) :: w ++ x :: y)) p c)
  = do ((k, e), st3) <- object_key o (mk (soks (x :: y)) (p + l1 + blen w) (c ++ [(p, p, 0)]));
    Ok ((ONonEmpty k e, N.of_nat (length c)), st3).
Proof.
  intros Hw Hx Hx'. unfold object_start, begin_fragment.
  cbn [app soks map fst snd next_char rest pos cm obind].
  fold (soks (w ++ x :: y)). rewrite skip_ws_ok by (auto; exact Hx).
  destruct x as [xc xl]. cbn [fst] in Hx'.
  cbn [obind soks map fst snd peek_char next_char rest pos cm].
  not_char xc.
Qed.

Lemma object_continue_comma o i w l w2 y p c :
  ws w -> ws w2 -> nows y ->
  object_continue o i (mk (soks (w ++ (0x2C, l) :: w2 ++ y)) p c)
  = do ((k, e), st4) <- object_key o (mk (soks y) (p + blen w + l + blen w2) c);
    Ok (Some (k, e), st4).
Proof.
  intros Hw Hw2 Hy. unfold object_continue. rewrite skip_ws_ok by (auto; reflexivity).
  cbn [obind soks map fst snd next_char rest pos cm].
  fold (soks (w2 ++ y)). rewrite skip_ws_ok by assumption. reflexivity.
Qed.

Lemma object_continue_close o w l r p C s0 e0 v0 D :
  ws w -> s0 <= p ->
  object_continue o (N.of_nat (length C)) (mk (soks (w ++ (0x7D, l) :: r)) p (C ++ (s0, e0, v0) :: D))
  = Ok (None, mk (soks r) (p + blen w + l)
                 (C ++ (s0, p + blen w + l, 1 + N.of_nat (length D)) :: D)).
Proof.
  intros Hw Hs. unfold object_continue. rewrite skip_ws_ok by (auto; reflexivity).
  cbn [obind soks map fst snd next_char rest pos cm].
  rewrite end_fragment_ok by lia. reflexivity.
Qed.

(* ---------- parse_fragment: dispatch on the first character ---------- *)
Lemma parse_fragment_ws o ctx w x y p c :
  ws w -> is_ws (fst x) = false ->
  parse_fragment o ctx (mk (soks (w ++ x :: y)) p c)
  = parse_fragment o ctx (mk (soks (x :: y)) (p + blen w) c).
Proof.
  intros Hw Hx. unfold parse_fragment.
  rewrite skip_ws_ok by (auto; exact Hx). rewrite skip_ws_nows by exact Hx. reflexivity.
Qed.

Lemma pf_null o ctx l y p c :
  parse_fragment o ctx (mk (soks ((0x6E, l) :: y)) p c)
  = do (i, st2) <- parse_null (mk (soks ((0x6E, l) :: y)) p c); Ok ((FrValue VNull, i), st2).
Proof. reflexivity. Qed.

Lemma pf_true o ctx l y p c :
  parse_fragment o ctx (mk (soks ((0x74, l) :: y)) p c)
  = do ((b, i), st2) <- parse_bool (mk (soks ((0x74, l) :: y)) p c); Ok ((FrValue (VBool b), i), st2).
Proof. reflexivity. Qed.

Lemma pf_false o ctx l y p c :
  parse_fragment o ctx (mk (soks ((0x66, l) :: y)) p c)
  = do ((b, i), st2) <- parse_bool (mk (soks ((0x66, l) :: y)) p c); Ok ((FrValue (VBool b), i), st2).
Proof. reflexivity. Qed.

Lemma pf_string o ctx l y p c :
  parse_fragment o ctx (mk (soks ((0x22, l) :: y)) p c)
  = do ((s, i), st2) <- parse_string o (mk (soks ((0x22, l) :: y)) p c); Ok ((FrValue (VStr s), i), st2).
Proof. reflexivity. Qed.

Lemma pf_array o ctx l y p c :
  parse_fragment o ctx (mk (soks ((0x5B, l) :: y)) p c)
  = do ((empty, i), st2) <- array_start (mk (soks ((0x5B, l) :: y)) p c);
    if empty then Ok ((FrValue (VArr []), i), st2) else Ok ((FrBeginArray, i), st2).
Proof. reflexivity. Qed.

Lemma pf_object o ctx l y p c :
  parse_fragment o ctx (mk (soks ((0x7B, l) :: y)) p c)
  = do ((s, i), st2) <- object_start o (mk (soks ((0x7B, l) :: y)) p c);
    match s with
    | OEmpty => Ok ((FrValue (VObj []), i), st2)
    | ONonEmpty k e => Ok ((FrBeginObject k e, i), st2)
    end.
Proof. reflexivity. Qed.

Lemma pf_number o ctx x l y p c :
  is_digit x || (x =? 0x2D) = true ->
  parse_fragment o ctx (mk (soks ((x, l) :: y)) p c)
  = do ((n, i), st2) <- parse_number ctx (mk (soks ((x, l) :: y)) p c); Ok ((FrValue (VNum n), i), st2).
Proof.
  intros H.
  assert (E : x = 0x2D \/ x = 0x30 \/ x = 0x31 \/ x = 0x32 \/ x = 0x33 \/ x = 0x34 \/ x = 0x35 \/
              x = 0x36 \/ x = 0x37 \/ x = 0x38 \/ x = 0x39) by (unfold is_digit in H; lia).
  repeat (destruct E as [->|E]; [reflexivity|]). subst x. reflexivity.
Qed.

Lemma jnum_head n : jnum n -> exists x n', n = x :: n' /\ is_digit x || (x =? 0x2D) = true.
Proof.
  intros (m & i & f & e & Hm & Hi & Hf & He & ->).
  destruct Hm as [->| ->]; [|exists 0x2D; eexists; split; reflexivity].
  destruct Hi as [->|(d & ds & Hd & _ & ->)]; cbn [app].
  - eexists _, _; split; reflexivity.
  - exists d. eexists. split; [reflexivity|]. unfold onenine in Hd. unfold is_digit. lia.
Qed.
