(* Proofs/SerdeCollapse.v -- building an object by successive Object::insert (list
   specification m_insert) from the empty object yields "first position, last value"
   (Spec.SerdeRoundTrip.collapse_entries); it is the identity on duplicate-free lists and
   respects entry-wise relations. *)
From JsonSyntax Require Import Base.Prelude Base.Value Spec.Multimap Spec.SerdeRoundTrip.

Local Open Scope nat_scope.

Section Generic.
  Context {A : Type}.
  Notation ent := (list N * A)%type.

  Definition hask (k : list N) (e : ent) : bool := str_eqb (fst e) k.
  Definition keys (l : list ent) : list (list N) := map fst l.

  Lemma key_eqb_refl k : key_eqb k k = true.
  Proof. apply str_eqb_refl. Qed.

  Lemma key_eqb_eq a b : key_eqb a b = true <-> a = b.
  Proof. apply str_eqb_spec. Qed.

  Lemma key_eqb_neq a b : key_eqb a b = false <-> a <> b.
  Proof.
    split.
    - intros H E. apply key_eqb_eq in E. congruence.
    - intros H. destruct (key_eqb a b) eqn:E; auto. apply key_eqb_eq in E. contradiction.
  Qed.

  Lemma key_eqb_sym a b : key_eqb a b = key_eqb b a.
  Proof.
    destruct (key_eqb a b) eqn:E.
    - apply key_eqb_eq in E. subst. symmetry. apply key_eqb_refl.
    - symmetry. apply key_eqb_neq. apply key_eqb_neq in E. congruence.
  Qed.

  (* ---- last_value ---- *)
  Lemma last_value_none k (l : list ent) : ~ In k (keys l) -> last_value k l = None.
  Proof.
    induction l as [|[k' x] r IH]; cbn; auto. intros H.
    rewrite IH by tauto.
    destruct (key_eqb k' k) eqn:E; auto. apply key_eqb_eq in E. subst. tauto.
  Qed.

  Lemma last_value_some k (l : list ent) : In k (keys l) -> exists y, last_value k l = Some y.
  Proof.
    induction l as [|[k' x] r IH]; cbn; [tauto|]. intros [->|H].
    - destruct (last_value k r); eauto. rewrite key_eqb_refl. eauto.
    - destruct (IH H) as [y ->]. eauto.
  Qed.

  Lemma last_value_filter k k0 (l : list ent) :
    k <> k0 -> last_value k (filter (fun e => negb (hask k0 e)) l) = last_value k l.
  Proof.
    intros N. unfold hask. induction l as [|[k' x] r IH]; [reflexivity|].
    cbn [filter fst]. destruct (str_eqb k' k0) eqn:E; cbn [negb last_value].
    - apply str_eqb_spec in E. subst k'. rewrite IH.
      destruct (last_value k r); auto.
      replace (key_eqb k0 k) with false; auto. symmetry. apply key_eqb_neq. congruence.
    - rewrite IH. reflexivity.
  Qed.

  (* ---- first_keys ---- *)
  Lemma first_keys_in k ks : In k (first_keys ks) <-> In k ks.
  Proof.
    induction ks as [|k0 r IH]; cbn; [tauto|].
    rewrite filter_In, IH. split.
    - intros [H|[H _]]; auto.
    - intros [H|H]; auto.
      destruct (key_eqb k k0) eqn:E.
      + apply key_eqb_eq in E. auto.
      + right. split; auto.
  Qed.

  Lemma first_keys_filter k0 ks :
    first_keys (filter (fun k => negb (key_eqb k k0)) ks)
    = filter (fun k => negb (key_eqb k k0)) (first_keys ks).
  Proof.
    induction ks as [|k r IH]; cbn; auto.
    destruct (key_eqb k k0) eqn:E; cbn [negb].
    - apply key_eqb_eq in E. subst k. rewrite IH.
      (* filtering k0 twice *)
      clear IH. induction (first_keys r) as [|a l IHl]; cbn; auto.
      destruct (key_eqb a k0) eqn:E; cbn [negb]; auto.
      cbn [filter]. rewrite E. cbn [negb]. f_equal. exact IHl.
    - cbn [first_keys]. f_equal. rewrite IH.
      (* the two filters commute *)
      clear IH. induction (first_keys r) as [|a l IHl]; cbn; auto.
      destruct (key_eqb a k0) eqn:E0; destruct (key_eqb a k) eqn:E1; cbn [negb filter];
        rewrite ?E0, ?E1; cbn [negb]; rewrite ?IHl; auto.
  Qed.

  Lemma keys_filter k0 (l : list ent) :
    keys (filter (fun e => negb (hask k0 e)) l) = filter (fun k => negb (key_eqb k k0)) (keys l).
  Proof.
    unfold hask, key_eqb, keys. induction l as [|[k x] r IH]; [reflexivity|].
    cbn [filter map fst]. destruct (str_eqb k k0); cbn [negb map fst]; rewrite IH; reflexivity.
  Qed.

  Lemma first_keys_nodup ks : NoDup ks -> first_keys ks = ks.
  Proof.
    induction 1 as [|k r Hn Hd IH]; cbn; auto. rewrite IH. f_equal.
    clear IH Hd. induction r as [|a l IHl]; cbn; auto.
    destruct (key_eqb a k) eqn:E.
    - apply key_eqb_eq in E. subst. cbn in Hn. tauto.
    - cbn [negb]. f_equal. apply IHl. cbn in Hn. tauto.
  Qed.

  (* ---- the cons equation of collapse_entries ---- *)
  Definition or_default (o : option A) (x : A) : A := match o with Some y => y | None => x end.

  Lemma collapse_cons k x (r : list ent) :
    collapse_entries ((k, x) :: r)
    = (k, or_default (last_value k r) x) :: collapse_entries (filter (fun e => negb (hask k e)) r).
  Proof.
    unfold collapse_entries. cbn [map fst first_keys flat_map last_value].
    rewrite key_eqb_refl.
    replace (match last_value k r with Some y => Some y | None => Some x end)
      with (Some (or_default (last_value k r) x)) by (destruct (last_value k r); reflexivity).
    cbn [app]. f_equal.
    change (map fst (filter (fun e => negb (hask k e)) r)) with (keys (filter (fun e => negb (hask k e)) r)).
    rewrite keys_filter, first_keys_filter.
    change (map fst r) with (keys r).
    induction (first_keys (keys r)) as [|a l IHl]; cbn; auto.
    destruct (key_eqb a k) eqn:E; cbn [negb]; auto.
    cbn [flat_map]. rewrite IHl. f_equal.
    assert (Hak : a <> k) by (apply key_eqb_neq; exact E).
    rewrite last_value_filter by exact Hak.
    destruct (last_value a r); auto.
    rewrite key_eqb_sym, E. reflexivity.
  Qed.

  Lemma filter_lacks_id k (l : list ent) :
    ~ In k (keys l) -> filter (fun e => negb (hask k e)) l = l.
  Proof.
    induction l as [|[k' x] r IH]; cbn; auto. intros H.
    unfold hask at 1. cbn [fst].
    destruct (str_eqb k' k) eqn:E.
    - apply str_eqb_spec in E. subst. tauto.
    - cbn [negb]. f_equal. apply IH. tauto.
  Qed.

  Lemma collapse_nodup (l : list ent) : NoDup (keys l) -> collapse_entries l = l.
  Proof.
    induction l as [|[k x] r IH]; intros H; [reflexivity|].
    cbn in H. inversion H as [|? ? Hn Hd]; subst.
    rewrite collapse_cons, last_value_none, filter_lacks_id by exact Hn.
    cbn. f_equal. apply IH. exact Hd.
  Qed.

  Lemma collapse_keys (l : list ent) : keys (collapse_entries l) = first_keys (keys l).
  Proof.
    unfold collapse_entries.
    assert (H : forall ks, (forall k, In k ks -> In k (keys l)) ->
      keys (flat_map (fun k => match last_value k l with Some x => [(k, x)] | None => [] end) ks) = ks).
    { induction ks as [|k r IH]; intros Hin; cbn; auto.
      destruct (last_value_some k l) as [y ->]; [apply Hin; cbn; auto|].
      cbn. f_equal. apply IH. intros; apply Hin; cbn; auto. }
    apply H. intros k Hk. apply (proj1 (first_keys_in _ _)) in Hk. exact Hk.
  Qed.

End Generic.

Lemma NoDup_snoc {B} (l : list B) (x : B) : NoDup l -> ~ In x l -> NoDup (l ++ [x]).
Proof.
  induction 1 as [|a r Hn Hd IH]; intros Hx; cbn.
  - constructor; [tauto|constructor].
  - constructor.
    + rewrite in_app_iff. cbn. cbn in Hx. intuition congruence.
    + apply IH. cbn in Hx. tauto.
Qed.

(* m_insert is stated for entries of values *)
Definition vins (l : list entry) (k : key) (v : value) : list entry := fst (m_insert l k v).

Lemma pos_S' s es k : positions_from (S s) es k = map S (positions_from s es k).
Proof.
  revert s; induction es as [|e r IH]; intros s; cbn; auto.
  destruct (has_key k e); cbn; rewrite IH; auto.
Qed.

Lemma vins_nil k v : vins [] k v = [(k, v)].
Proof. reflexivity. Qed.

Lemma vins_cons e r k v :
  vins (e :: r) k v = if has_key k e then (k, v) :: filter (lacks_key k) r else e :: vins r k v.
Proof.
  unfold vins, m_insert, m_index_of, m_indexes_of. cbn [positions_from].
  destruct (has_key k e) eqn:E.
  - cbn. reflexivity.
  - rewrite pos_S'. destruct (positions_from 0 r k) as [|i t]; cbn; reflexivity.
Qed.

Lemma vins_absent l k v : ~ In k (keys l) -> vins l k v = l ++ [(k, v)].
Proof.
  induction l as [|[k' x] r IH]; intros H; [reflexivity|].
  rewrite vins_cons. unfold has_key. cbn [fst].
  destruct (str_eqb k' k) eqn:E.
  - apply str_eqb_spec in E. subst. cbn in H. tauto.
  - cbn [app]. f_equal. apply IH. cbn in H. tauto.
Qed.

Definition setv (k : key) (v : value) (l : list entry) : list entry :=
  map (fun e => if has_key k e then (k, v) else e) l.

Lemma setv_absent k v l : ~ In k (keys l) -> setv k v l = l.
Proof.
  induction l as [|[k' x] r IH]; intros H; [reflexivity|].
  cbn. unfold has_key at 1. cbn [fst].
  destruct (str_eqb k' k) eqn:E.
  - apply str_eqb_spec in E. subst. cbn in H. tauto.
  - f_equal. apply IH. cbn in H. tauto.
Qed.

Lemma vins_present l k v : NoDup (keys l) -> In k (keys l) -> vins l k v = setv k v l.
Proof.
  induction l as [|[k' x] r IH]; intros Hd Hin; [contradiction|].
  cbn in Hd. inversion Hd as [|? ? Hn Hd']; subst.
  rewrite vins_cons. cbn [setv map]. unfold has_key. cbn [fst].
  destruct (str_eqb k' k) eqn:E.
  - apply str_eqb_spec in E. subst k'. f_equal.
    change (filter (lacks_key k) r) with (filter (fun e => negb (hask k e)) r).
    rewrite filter_lacks_id by exact Hn. symmetry. apply setv_absent. exact Hn.
  - f_equal. apply IH; auto. cbn in Hin. destruct Hin as [->|H]; auto.
    rewrite str_eqb_refl in E. discriminate.
Qed.

Lemma setv_keys k v l : keys (setv k v l) = keys l.
Proof.
  unfold keys, setv, has_key. induction l as [|[k' x] r IH]; [reflexivity|].
  cbn [map fst]. rewrite IH. f_equal.
  destruct (str_eqb k' k) eqn:E; [|reflexivity].
  apply str_eqb_spec in E. subst. reflexivity.
Qed.

Lemma In_dec_key (k : key) (ks : list key) : {In k ks} + {~ In k ks}.
Proof. apply in_dec. apply list_eq_dec. apply N.eq_dec. Qed.

Lemma vins_nodup l k v : NoDup (keys l) -> NoDup (keys (vins l k v)).
Proof.
  intros Hd. destruct (In_dec_key k (keys l)) as [Hin|Hn].
  - rewrite vins_present, setv_keys; auto.
  - rewrite vins_absent by exact Hn. unfold keys. rewrite map_app. cbn.
    apply NoDup_snoc; auto.
Qed.

(* ================================================================== *)
(* inserting the entries one after the other                           *)
(* ================================================================== *)
Definition vstep (acc : list entry) (e : entry) : list entry := vins acc (fst e) (snd e).
Definition relabel (es acc : list entry) : list entry :=
  map (fun e => (fst e, or_default (last_value (fst e) es) (snd e))) acc.
Definition notin (ks : list key) (e : entry) : bool := negb (existsb (key_eqb (fst e)) ks).

Lemma existsb_key_in k ks : existsb (key_eqb k) ks = true <-> In k ks.
Proof.
  rewrite existsb_exists. split.
  - intros (x & Hx & E). apply key_eqb_eq in E. subst. exact Hx.
  - intros H. exists k. split; auto. apply key_eqb_refl.
Qed.

Lemma last_value_filter_keep (p : entry -> bool) k (l : list entry) :
  (forall e, fst e = k -> p e = true) -> last_value k (filter p l) = last_value k l.
Proof.
  intros Hp. induction l as [|[k' x] r IH]; [reflexivity|].
  cbn [filter]. destruct (p (k', x)) eqn:E; cbn [last_value]; rewrite IH; auto.
  destruct (last_value k r); auto.
  destruct (key_eqb k' k) eqn:E'; auto. apply key_eqb_eq in E'. subst.
  rewrite (Hp (k, x) eq_refl) in E. discriminate.
Qed.

Lemma filter_filter {B} (p q : B -> bool) l :
  filter p (filter q l) = filter (fun x => q x && p x) l.
Proof.
  induction l as [|a r IH]; [reflexivity|]. cbn [filter].
  destruct (q a); cbn [filter andb]; [destruct (p a)|]; rewrite IH; reflexivity.
Qed.

Lemma fold_vins es : forall acc, NoDup (keys acc) ->
  fold_left vstep es acc = relabel es acc ++ collapse_entries (filter (notin (keys acc)) es).
Proof.
  induction es as [|[k y] r IH]; intros acc Hd.
  - cbn. unfold relabel. rewrite app_nil_r. symmetry.
    rewrite <- (map_id acc) at 2. apply map_ext. intros [a b]. reflexivity.
  - cbn [fold_left]. unfold vstep at 2. cbn [fst snd].
    destruct (In_dec_key k (keys acc)) as [Hin|Hn].
    + rewrite vins_present by assumption.
      rewrite IH by (rewrite setv_keys; exact Hd). rewrite setv_keys.
      cbn [filter]. unfold notin at 2. cbn [fst].
      replace (existsb (key_eqb k) (keys acc)) with true
        by (symmetry; apply existsb_key_in; exact Hin).
      cbn [negb]. f_equal.
      unfold relabel, setv. rewrite map_map. apply map_ext. intros [k' x].
      unfold has_key. cbn [fst snd last_value].
      destruct (str_eqb k' k) eqn:E.
      * apply str_eqb_spec in E. subst k'. cbn [fst snd]. rewrite key_eqb_refl.
        destruct (last_value k r); reflexivity.
      * cbn [fst snd]. destruct (last_value k' r); auto.
        rewrite (key_eqb_sym k k'). unfold key_eqb. rewrite E. reflexivity.
    + rewrite vins_absent by assumption.
      rewrite IH.
      2:{ unfold keys. rewrite map_app. apply NoDup_snoc; auto. }
      cbn [filter]. unfold notin at 2. cbn [fst].
      replace (existsb (key_eqb k) (keys acc)) with false.
      2:{ symmetry. destruct (existsb (key_eqb k) (keys acc)) eqn:E; auto.
          apply existsb_key_in in E. contradiction. }
      cbn [negb]. rewrite (collapse_cons k y).
      unfold relabel at 1. rewrite map_app. cbn [map fst snd]. rewrite <- app_assoc. cbn [app].
      f_equal.
      * unfold relabel. apply map_ext_in. intros [k' x] Hx. cbn [fst snd last_value].
        destruct (last_value k' r); auto.
        destruct (key_eqb k k') eqn:E; auto. apply key_eqb_eq in E. subst.
        exfalso. apply Hn. unfold keys. apply in_map_iff. exists (k', x). auto.
      * f_equal.
        -- f_equal. f_equal. symmetry. apply last_value_filter_keep. intros e He.
           unfold notin. rewrite He.
           destruct (existsb (key_eqb k) (keys acc)) eqn:E; auto.
           apply existsb_key_in in E. contradiction.
        -- f_equal. rewrite filter_filter. apply filter_ext. intros [k' x].
           unfold notin, keys. rewrite map_app. cbn [map fst]. rewrite existsb_app. cbn [existsb].
           rewrite orb_false_r, negb_orb. unfold hask. cbn [fst]. reflexivity.
Qed.

Lemma filter_true {B} (p : B -> bool) l : (forall x, p x = true) -> filter p l = l.
Proof.
  intros H. induction l as [|a r IH]; [reflexivity|]. cbn. rewrite H, IH. reflexivity.
Qed.

(* Object::insert of every entry, in order, into the empty object *)
Theorem fold_insert_collapse es : fold_left vstep es [] = collapse_entries es.
Proof.
  rewrite fold_vins by constructor. cbn [relabel map app keys].
  rewrite filter_true; auto.
Qed.

Lemma fold_insert_first k y es :
  fold_left vstep es (vins [] k y) = collapse_entries ((k, y) :: es).
Proof. rewrite <- fold_insert_collapse. reflexivity. Qed.

(* ================================================================== *)
(* collapse respects entry-wise relations                               *)
(* ================================================================== *)
Section Rel.
  Context {A B : Type} (R : A -> B -> Prop).
  Definition erel (a : list N * A) (b : list N * B) : Prop := fst a = fst b /\ R (snd a) (snd b).

  Lemma erel_keys l l' : Forall2 erel l l' -> map fst l = map fst l'.
  Proof. induction 1 as [|a b l l' [E _] _ IH]; cbn; congruence. Qed.

  Lemma last_value_rel k l l' : Forall2 erel l l' ->
    match last_value k l, last_value k l' with
    | Some x, Some y => R x y
    | None, None => True
    | _, _ => False
    end.
  Proof.
    induction 1 as [|[ka a] [kb b] l l' [E Hr] _ IH]; cbn; auto.
    cbn in E, Hr. subst kb.
    destruct (last_value k l), (last_value k l'); try contradiction; auto.
    destruct (key_eqb ka k); auto.
  Qed.

  Lemma collapse_rel l l' : Forall2 erel l l' -> Forall2 erel (collapse_entries l) (collapse_entries l').
  Proof.
    intros H. unfold collapse_entries. rewrite <- (erel_keys _ _ H).
    induction (first_keys (map fst l)) as [|k ks IH]; cbn; [constructor|].
    pose proof (last_value_rel k _ _ H) as Hk.
    destruct (last_value k l), (last_value k l'); try contradiction; cbn; auto.
    constructor; auto. split; auto.
  Qed.
End Rel.

Print Assumptions fold_insert_collapse.
Print Assumptions collapse_nodup.
