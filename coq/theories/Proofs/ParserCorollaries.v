(* Proofs/ParserCorollaries.v -- consequences of Proofs/ParserSpec.v for the entry points:
   C01 (strict acceptance: text and byte input, BOM, white space) and
   C02 (faithful decoding: escapes, surrogate pairs, raw scalars, numbers, literals, lookups). *)
From JsonSyntax Require Import Base.Prelude Base.Value Base.Unicode Base.Source
  Model.Parser Model.EntryPoints Model.Object Spec.Grammar Spec.Utf8Spec Spec.Multimap
  Proofs.ParserRecDef Proofs.ParserL1 Proofs.ParserSafety Proofs.ParserCompleteLex Proofs.ParserComplete
  Proofs.Utf8Proofs Proofs.RoundTrip Proofs.ObjectInv Proofs.ParserSpec.

(* ================================================================== *)
(* C01: strict acceptance                                              *)
(* ================================================================== *)
Lemma parse_str_is_with cs : parse_str cs = parse_str_with strict cs.
Proof. reflexivity. Qed.

Theorem C01_str : forall cs, Forall (fun c => c <= 0x10FFFF) cs ->
  ((exists r, parse_str cs = Ok r) <-> Strict cs).
Proof.
  intros cs Hb. rewrite parse_str_is_with. unfold Strict. split.
  - intros [[v m] H]. exists v, m. apply (parse_str_spec strict cs v m Hb). exact H.
  - intros (v & m & H). exists (v, m). apply (parse_str_spec strict cs v m Hb). exact H.
Qed.

Lemma scalars_bound cs : scalars cs -> Forall (fun c => c <= 0x10FFFF) cs.
Proof.
  unfold scalars. apply Forall_impl. intros c H. unfold is_scalar in H. lia.
Qed.

Lemma map_err_id (x : outcome perr (value * list cme)) :
  (forall p, x <> Err (EStream p)) -> map_err io_into_utf8 x = x.
Proof.
  intros H. destruct x as [a|e|s|]; try reflexivity. destruct e; try reflexivity.
  exfalso. eapply H. reflexivity.
Qed.

Theorem C01_slice_is_str : forall o cs, scalars cs ->
  parse_slice_with o (utf8_encode_all cs) = parse_str_with o cs.
Proof.
  intros o cs Hs. unfold parse_slice_with, slice_items. rewrite (decode_encode cs Hs), app_nil_r.
  unfold parse_str_with, parse_utf8_with. apply map_err_id. intros p.
  apply stream_ok_no_stream_error. apply stream_ok_chars.
Qed.

Lemma map_err_ok (x : outcome perr (value * list cme)) r :
  map_err io_into_utf8 x = Ok r -> x = Ok r.
Proof. destruct x as [a|e|s|]; cbn; intros H; try discriminate H; exact H. Qed.

Theorem C01_slice : forall bs,
  (exists r, parse_slice bs = Ok r) <-> (exists cs, scalars cs /\ bs = utf8_encode_all cs /\ Strict cs).
Proof.
  intros bs. split.
  - intros [[v m] H]. unfold parse_slice, parse_slice_with, slice_items in H.
    destruct (utf8_decode bs) as [cs ok] eqn:D. apply map_err_ok in H. unfold parse_with in H.
    pose proof (parse_ok_stream_ok _ _ _ _ H) as Hok.
    destruct (decode_sound _ _ _ D) as (Hs & r & Hbs & Hr & _).
    destruct ok.
    + rewrite app_nil_r in H. exists cs. split; [exact Hs|].
      split; [rewrite Hbs, (proj1 Hr eq_refl), app_nil_r; reflexivity|].
      exists v, m. apply (parse_str_spec strict cs v m (scalars_bound cs Hs)). exact H.
    + exfalso. unfold stream_ok in Hok. apply Forall_app in Hok as [_ Hok].
      inversion Hok as [|x l Hx _]; subst. apply Hx. reflexivity.
  - intros (cs & Hs & -> & HS). unfold parse_slice. rewrite (C01_slice_is_str strict cs Hs).
    apply C01_str; [apply scalars_bound; exact Hs|exact HS].
Qed.

(* U+FEFF is neither white space nor the first character of any value.  Proved through the
   parser: a Strict text is accepted (completeness needs no bound on the code points), and
   the model rejects a leading U+FEFF by computation. *)
Theorem C01_bom_rejected : forall cs, ~ Strict (0xFEFF :: cs).
Proof.
  intros cs (v & m & H). apply parse_str_complete in H.
  unfold parse_str_with, parse_utf8_with, parse_with in H. rewrite machine_eq_rec in H.
  unfold parse_items_rec, ptop, rec_fuel in H. cbn [chars map length] in H.
  vm_compute in H. discriminate H.
Qed.

Theorem C01_whitespace_exact : forall c,
  ws_char c = true <-> (c = 0x20 \/ c = 0x09 \/ c = 0x0A \/ c = 0x0D).
Proof.
  intros c. unfold ws_char. rewrite !orb_true_iff, !N.eqb_eq. tauto.
Qed.

(* ================================================================== *)
(* C02: faithful decoding                                              *)
(* ================================================================== *)
Theorem C02_sound : forall o cs v m, Forall (fun c => c <= 0x10FFFF) cs ->
  parse_str_with o cs = Ok (v, m) -> jtext o (text_items cs) v m.
Proof. intros o cs v m Hb H. apply (parse_str_spec o cs v m Hb). exact H. Qed.

Theorem C02_denotation_functional : forall o t v m v' m',
  jtext o t v m -> jtext o t v' m' -> v = v' /\ m = m'.
Proof. exact jtext_functional. Qed.

(* ---------- a text that is exactly one value ---------- *)
Lemma cps_text_items cs : cps (text_items cs) = cs.
Proof.
  unfold cps, text_items. rewrite map_map. cbn [fst]. apply map_id.
Qed.

Lemma shift0 m : shift 0 m = m.
Proof.
  unfold shift. rewrite <- (map_id m) at 2. apply map_ext. intros [[x y] v]. f_equal. f_equal; lia.
Qed.

Lemma parse_str_value o cs v m : jv o (text_items cs) v m -> parse_str_with o cs = Ok (v, m).
Proof.
  intros H. apply parse_str_complete. exists [], (text_items cs), [], m.
  split; [rewrite app_nil_r; reflexivity|]. split; [constructor|]. split; [constructor|].
  split; [exact H|]. symmetry. apply shift0.
Qed.

(* a text that is exactly one string *)
Lemma parse_str_string srcs els s :
  Forall2 elem_src srcs els -> decode strict els = Some s ->
  parse_str (0x22 :: concat srcs ++ [0x22])
  = Ok (VStr s, [(0, blen (text_items (0x22 :: concat srcs ++ [0x22])), 1)]).
Proof.
  intros HF Hd. rewrite parse_str_is_with. apply parse_str_value. apply jv_str.
  rewrite cps_text_items. exists srcs, els. auto.
Qed.

Lemma utf8_len_ascii c : c < 128 -> utf8_len c = 1.
Proof. intros H. unfold utf8_len. destruct (N.ltb_spec c 0x80); [reflexivity|lia]. Qed.

Lemma hexdig_ascii h d : hexdig h = Some d -> h < 128.
Proof.
  unfold hexdig, digit.
  destruct ((0x30 <=? h) && (h <=? 0x39)) eqn:E1; [lia|].
  destruct ((0x41 <=? h) && (h <=? 0x46)) eqn:E2; [lia|].
  destruct ((0x61 <=? h) && (h <=? 0x66)) eqn:E3; [lia|discriminate].
Qed.

Lemma blen_text_cons c cs : blen (text_items (c :: cs)) = utf8_len c + blen (text_items cs).
Proof. reflexivity. Qed.
Lemma blen_text_nil : blen (text_items []) = 0.
Proof. reflexivity. Qed.

Theorem C02_unicode_escape : forall h3 h2 h1 h0 d3 d2 d1 d0,
  hexdig h3 = Some d3 -> hexdig h2 = Some d2 -> hexdig h1 = Some d1 -> hexdig h0 = Some d0 ->
  let u := d3 * 4096 + d2 * 256 + d1 * 16 + d0 in
  is_surrogate u = false ->
  parse_str [0x22; 0x5C; 0x75; h3; h2; h1; h0; 0x22] = Ok (VStr [u], [(0, 8, 1)]).
Proof.
  intros h3 h2 h1 h0 d3 d2 d1 d0 H3 H2 H1 H0 u Hu.
  pose proof (parse_str_string [[0x5C; 0x75; h3; h2; h1; h0]] [U16 u] [u]) as P.
  cbn [concat app] in P. rewrite P; clear P.
  - rewrite !blen_text_cons, blen_text_nil.
    rewrite (utf8_len_ascii h3), (utf8_len_ascii h2), (utf8_len_ascii h1), (utf8_len_ascii h0)
      by (eapply hexdig_ascii; eassumption).
    reflexivity.
  - constructor; [|constructor]. apply es_u; assumption.
  - cbn [decode]. unfold is_surrogate, is_high, is_low in *.
    destruct ((0xD800 <=? u) && (u <=? 0xDBFF)) eqn:E1; [lia|].
    destruct ((0xDC00 <=? u) && (u <=? 0xDFFF)) eqn:E2; [lia|]. reflexivity.
Qed.

Theorem C02_surrogate_pair : forall h3 h2 h1 h0 l3 l2 l1 l0 a3 a2 a1 a0 b3 b2 b1 b0,
  hexdig h3 = Some a3 -> hexdig h2 = Some a2 -> hexdig h1 = Some a1 -> hexdig h0 = Some a0 ->
  hexdig l3 = Some b3 -> hexdig l2 = Some b2 -> hexdig l1 = Some b1 -> hexdig l0 = Some b0 ->
  let h := a3 * 4096 + a2 * 256 + a1 * 16 + a0 in
  let l := b3 * 4096 + b2 * 256 + b1 * 16 + b0 in
  is_high h = true -> is_low l = true ->
  parse_str (0x22 :: 0x5C :: 0x75 :: h3 :: h2 :: h1 :: h0 :: 0x5C :: 0x75 :: l3 :: l2 :: l1 :: l0 :: [0x22])
  = Ok (VStr [0x10000 + (h - 0xD800) * 0x400 + (l - 0xDC00)], [(0, 14, 1)]).
Proof.
  intros h3 h2 h1 h0 l3 l2 l1 l0 a3 a2 a1 a0 b3 b2 b1 b0 A3 A2 A1 A0 B3 B2 B1 B0 h l Hh Hl.
  pose proof (parse_str_string [[0x5C; 0x75; h3; h2; h1; h0]; [0x5C; 0x75; l3; l2; l1; l0]] [U16 h; U16 l]
                [0x10000 + (h - 0xD800) * 0x400 + (l - 0xDC00)]) as P.
  cbn [concat app] in P. rewrite P; clear P.
  - rewrite !blen_text_cons, blen_text_nil.
    rewrite (utf8_len_ascii h3), (utf8_len_ascii h2), (utf8_len_ascii h1), (utf8_len_ascii h0),
            (utf8_len_ascii l3), (utf8_len_ascii l2), (utf8_len_ascii l1), (utf8_len_ascii l0)
      by (eapply hexdig_ascii; eassumption).
    reflexivity.
  - constructor; [apply es_u; assumption|]. constructor; [apply es_u; assumption|constructor].
  - cbn [decode]. fold h l. rewrite Hh, Hl. reflexivity.
Qed.

Theorem C02_raw_scalar : forall c, is_scalar c = true -> unescaped c = true ->
  parse_str [0x22; c; 0x22] = Ok (VStr [c], [(0, 2 + utf8_len c, 1)]).
Proof.
  intros c _ Hc.
  pose proof (parse_str_string [[c]] [Raw c] [c]) as P.
  cbn [concat app] in P. rewrite P; clear P.
  - rewrite !blen_text_cons, blen_text_nil. change (utf8_len 0x22) with 1.
    replace (1 + (utf8_len c + (1 + 0))) with (2 + utf8_len c) by lia. reflexivity.
  - constructor; [|constructor]. apply es_raw. exact Hc.
  - reflexivity.
Qed.

Theorem C02_two_char_escapes : forall l d, In (l, d) esc_table ->
  parse_str [0x22; 0x5C; l; 0x22] = Ok (VStr [d], [(0, 4, 1)]).
Proof.
  intros l d H. cbn [esc_table In] in H.
  repeat (destruct H as [H|H]; [injection H as <- <-; vm_compute; reflexivity|]). destruct H.
Qed.

(* ---------- numbers are kept verbatim ---------- *)
Lemma jnum_ascii n : jnum n -> Forall (fun c => c < 128) n.
Proof.
  intros H.
  pose proof (ParserCompleteLex.parse_number_ok CNone (text_items n) [] 0 []) as P.
  rewrite cps_text_items in P. specialize (P H I).
  apply number_buffer_valid in P. apply P.
Qed.

Lemma blen_text_ascii n : Forall (fun c => c < 128) n -> blen (text_items n) = N.of_nat (length n).
Proof.
  induction 1 as [|c n Hc _ IH]; [reflexivity|].
  rewrite blen_text_cons, IH, (utf8_len_ascii c Hc). cbn [length]. lia.
Qed.

Theorem C02_number_verbatim : forall n, jnum n ->
  parse_str n = Ok (VNum n, [(0, N.of_nat (length n), 1)]).
Proof.
  intros n H. rewrite parse_str_is_with.
  rewrite <- (blen_text_ascii n (jnum_ascii n H)).
  apply parse_str_value. rewrite <- (cps_text_items n) at 2. apply jv_num.
  rewrite cps_text_items. exact H.
Qed.

Theorem C02_literals :
  parse_str (s2l "null") = Ok (VNull, [(0, 4, 1)]) /\
  parse_str (s2l "true") = Ok (VBool true, [(0, 4, 1)]) /\
  parse_str (s2l "false") = Ok (VBool false, [(0, 5, 1)]).
Proof. repeat split; vm_compute; reflexivity. Qed.

(* ---------- objects: lookups are linear scans of the parsed entry list ---------- *)
Theorem C02_lookup : forall es k, exists ob,
  from_iter es = Some ob /\ entries ob = es /\
  get ob k = Some (m_get es k) /\
  get_entries ob k = Some (m_get_entries es k) /\
  indexes_of ob k = Some (m_indexes_of es k).
Proof.
  intros es k. destruct (from_iter_refines es) as (ob & Hf & HI & He).
  exists ob. split; [exact Hf|]. split; [exact He|].
  destruct (queries_scan ob k HI) as (_ & _ & _ & Hix & Hg & Hge & _).
  rewrite He in Hix, Hg, Hge. auto.
Qed.

(* sanity: instances of the general theorems agree with direct evaluation of the model *)
Example C02_unicode_escape_e_acute :
  parse_str [0x22; 0x5C; 0x75; 0x30; 0x30; 0x65; 0x39; 0x22] = Ok (VStr [0xE9], [(0, 8, 1)]).
Proof. exact (C02_unicode_escape 0x30 0x30 0x65 0x39 0 0 14 9 eq_refl eq_refl eq_refl eq_refl eq_refl). Qed.
Example C02_surrogate_pair_grinning :
  parse_str (s2l """\uD83D\uDE00""") = Ok (VStr [0x1F600], [(0, 14, 1)]).
Proof.
  exact (C02_surrogate_pair 0x44 0x38 0x33 0x44 0x44 0x45 0x30 0x30 13 8 3 13 13 14 0 0
           eq_refl eq_refl eq_refl eq_refl eq_refl eq_refl eq_refl eq_refl eq_refl eq_refl).
Qed.
Example C01_slice_rejects_bom : ~ exists r, parse_slice [0xEF; 0xBB; 0xBF; 0x31] = Ok r.
Proof.
  intros H. apply C01_slice in H as (cs & Hs & Hb & HS).
  assert (cs = [0xFEFF; 0x31]) as ->.
  { apply (encode_all_inj cs [0xFEFF; 0x31] Hs); [repeat constructor|rewrite <- Hb; reflexivity]. }
  exact (C01_bom_rejected _ HS).
Qed.

Print Assumptions C01_str.
Print Assumptions C01_slice_is_str.
Print Assumptions C01_slice.
Print Assumptions C01_bom_rejected.
Print Assumptions C01_whitespace_exact.
Print Assumptions C02_sound.
Print Assumptions C02_denotation_functional.
Print Assumptions C02_unicode_escape.
Print Assumptions C02_surrogate_pair.
Print Assumptions C02_raw_scalar.
Print Assumptions C02_two_char_escapes.
Print Assumptions C02_number_verbatim.
Print Assumptions C02_literals.
Print Assumptions C02_lookup.
