(* Proofs/ConstsTie.v -- the static tie between the constant tables / character classes of the Rust
   source and the definitions the models transcribe by hand.

   [src_<site>] (Generated/Consts.v) is what lib/const_translate.py's evaluation of the named
   function or constant of the source yields; `bin/check` of the properties concerned regenerates
   that file from the tree under check at the start of every run and rebuilds this file against it.
   The right-hand side of each [tie_<site> : src_<site> = ..] is the SAME data computed from the model's
   own function ([set_of Parser.is_ws char_domain], [table_of Printer.hex_digit_char nibble_domain], ..)
   -- never a second table; the only hand-written parts are the naming conventions (which Rust
   identifier a Coq constructor or record field stands for: [ct_ctx_name], [ct_kind_name],
   [cval_of_popts] ..).  [tie_<site>] is the obligation that breaks when the source changes.
   The lemmas [.._above] extend each table from the evaluated code points to all of them on the MODEL
   side.  Kept small on purpose: this is what gets rebuilt against the regenerated file. *)
From Coq Require Import String.
From JsonSyntax Require Import Base.Prelude Base.Value Base.Unicode Base.ConstSyntax Model.Parser Model.EntryPoints
  Model.Printer Model.Kind Spec.SerdeData Spec.SerdeTyped Generated.Consts.

Local Open Scope string_scope.
Local Open Scope N_scope.

(* [c =? k] is false for every constant k when 256 <= c is among the hypotheses *)
Ltac ct_no_eqb c :=
  repeat match goal with
         | |- context [c =? ?k] => destruct (N.eqb_spec c k); [lia|]
         end.

(* ---------------------------------------------------------------- parser: character classes *)

Definition ct_ctx_name (c : context) : string :=
  match c with CNone => "None" | CArray => "Array" | CObjectKey => "ObjectKey" | CObjectValue => "ObjectValue" end.
Definition ct_contexts : list context := [CNone; CArray; CObjectKey; CObjectValue].

(* tie_surrogate_tests: the three range tests of SmallString::parse_in, in source order: with a pending high surrogate
   `is_low`, then (lenient mode) `is_high`; without one `is_high` -- the order in which
   Parser.string_loop asks them *)
(* the character the parser model returns for the text "\uHHHH\uLLLL" *)
Definition ct_hex4 (n : N) : list N :=
  map hex_digit_char [n / 4096 mod 16; n / 256 mod 16; n / 16 mod 16; n mod 16].
Definition ct_pair_char (h l : N) : N :=
  match from_str ([0x22; 0x5C; 0x75] ++ ct_hex4 h ++ [0x5C; 0x75] ++ ct_hex4 l ++ [0x22]) with
  | Ok (VStr [c]) => c
  | _ => 0
  end.

Theorem tie_is_whitespace : src_is_whitespace =
  set_of Parser.is_ws char_domain.
Proof. vm_compute. reflexivity. Qed.
Theorem tie_follows : src_follows =
  map (fun ctx => (ct_ctx_name ctx, set_of (Parser.follows ctx) char_domain)) ct_contexts.
Proof. vm_compute. reflexivity. Qed.
Theorem tie_is_control : src_is_control =
  set_of Parser.is_control char_domain.
Proof. vm_compute. reflexivity. Qed.
Theorem tie_surrogate_tests : src_surrogate_tests =
  [set_of is_low unit_domain; set_of is_high unit_domain; set_of is_high unit_domain].
Proof. vm_compute. reflexivity. Qed.
Theorem tie_surrogate_combine : src_surrogate_combine =
  map (fun p => (fst p, snd p, ct_pair_char (fst p) (snd p))) pair_domain.
Proof. vm_compute. reflexivity. Qed.

Lemma ct_contexts_all : forall c, In c ct_contexts.
Proof. intros []; cbn; tauto. Qed.

(* beyond the evaluated points the model's classes are empty *)
Lemma is_ws_above : forall c, 256 <= c -> Parser.is_ws c = false.
Proof.
  intros c H. unfold Parser.is_ws.
  ct_no_eqb c. reflexivity.
Qed.
Lemma follows_above : forall ctx c, 256 <= c -> Parser.follows ctx c = false.
Proof.
  intros ctx c H. destruct ctx; cbn [Parser.follows]; rewrite (is_ws_above c H); cbn [orb];
    ct_no_eqb c; reflexivity.
Qed.
Lemma is_control_above : forall c, 256 <= c -> Parser.is_control c = false.
Proof. intros c H. unfold Parser.is_control. apply N.leb_gt. lia. Qed.
Lemma surrogates_outside : forall u, u < 0xD700 \/ 0xE100 <= u -> is_high u = false /\ is_low u = false.
Proof.
  intros u H. unfold is_high, is_low. split; apply andb_false_iff.
  - destruct H; [left; apply N.leb_gt; lia | right; apply N.leb_gt; lia].
  - destruct H; [left; apply N.leb_gt; lia | right; apply N.leb_gt; lia].
Qed.


(* ---------------------------------------------------------------- parser: the number automaton *)
(* number.rs: `match state { State::S => match c { .. } }`.  Naming convention: the variants of the local
   `enum State`; an outcome is the next state, "break" (the loop is left: the character follows a number in this
   context) or an error (left out of the table: every other character) *)
Definition ct_nstate_name (s : nstate) : string :=
  match s with
  | NInit => "Init" | NFirstDigit => "FirstDigit" | NZero => "Zero" | NNonZero => "NonZero"
  | NFracFirst => "FractionalFirst" | NFracRest => "FractionalRest"
  | NExpSign => "ExponentSign" | NExpFirst => "ExponentFirst" | NExpRest => "ExponentRest"
  end.
Definition ct_nstates : list nstate :=
  [NInit; NFirstDigit; NZero; NNonZero; NFracFirst; NFracRest; NExpSign; NExpFirst; NExpRest].
Definition ct_ntrans_name (t : ntrans) : option string :=
  match t with NGo s => Some (ct_nstate_name s) | NBreak => Some "break" | NBad => None end.
Definition ct_outcomes : list string := map ct_nstate_name ct_nstates ++ ["break"].
Definition ct_opt_is (o : string) (x : option string) : bool :=
  match x with Some y => String.eqb y o | None => false end.
Definition ct_num_row (ctx : context) (s : nstate) : list (string * list (N * N)) :=
  filter (fun p => match snd p with [] => false | _ => true end)
    (map (fun o => (o, set_of (fun c => ct_opt_is o (ct_ntrans_name (num_trans ctx s c))) char_domain)) ct_outcomes).
Definition ct_number_automaton :=
  (ct_nstate_name NInit,
   map ct_nstate_name (filter num_final ct_nstates),
   map (fun ctx => (ct_ctx_name ctx, map (fun s => (ct_nstate_name s, ct_num_row ctx s)) ct_nstates)) ct_contexts).

Theorem tie_number_automaton : src_number_automaton = ct_number_automaton.
Proof. vm_compute. reflexivity. Qed.

Lemma ct_nstates_all : forall s, In s ct_nstates.
Proof. intros s; destruct s; cbn; tauto. Qed.
Lemma ct_nstate_name_inj : forall a b, ct_nstate_name a = ct_nstate_name b -> a = b.
Proof. intros a b; destruct a, b; cbn; intros H; try reflexivity; discriminate H. Qed.
(* beyond the evaluated code points every character is an error in every state *)
Lemma num_trans_above : forall ctx s c, 256 <= c -> num_trans ctx s c = NBad.
Proof.
  intros ctx s c H. unfold num_trans. rewrite (follows_above ctx c H).
  assert (Hd : is_digit c = false) by (unfold is_digit; apply andb_false_iff; right; apply N.leb_gt; lia).
  assert (Ho : is_onenine c = false) by (unfold is_onenine; apply andb_false_iff; right; apply N.leb_gt; lia).
  destruct s; rewrite ?Hd, ?Ho; ct_no_eqb c; reflexivity.
Qed.

(* ---------------------------------------------------------------- parser: two-character escapes *)
(* the character the parser model returns for the text "\X" (none: X is no escape letter, or is `u`) *)
Definition ct_escape_char (x : N) : option N :=
  match from_str [0x22; 0x5C; x; 0x22] with
  | Ok (VStr [c]) => Some c
  | _ => None
  end.
Definition ct_escape_table : list (N * N) :=
  flat_map (fun x => match ct_escape_char x with Some c => [(x, c)] | None => [] end) char_domain.
Theorem tie_escape_table : src_escape_table = ct_escape_table.
Proof. vm_compute. reflexivity. Qed.


(* ---------------------------------------------------------------- parser: leaf parsers, executed *)
(* null.rs, boolean.rs, parse_hex4 (string.rs) and the two functions of array.rs are RUN by the translator on short
   inputs against a stub of `Parser` (every character one byte long, one open code-map entry at index 0); the same
   inputs go through the model's leaf functions here.  Outcome: Ok -> [0; payload; fragment index; position] followed by
   the code map flattened; Err(Unexpected(p, c)) -> [1; p; c + 1 | 0]; Err(Stream(p)) -> [5; p]. *)
(* the item 0x110000 of an input word stands for a failing source item *)
Definition ct_state (w : list N) : pstate :=
  {| rest := map (fun c => if c =? 0x110000 then SErr else SOk c 1) w; pos := 0; cm := [(0, 0, 0)] |}.
Definition ct_flat (m : list cme) : list N := flat_map (fun e => match e with (a, b, v) => [a; b; v] end) m.
Definition ct_outcome {A} (pay : A -> N * N) (r : res A) : list N :=
  match r with
  | Ok (x, st) => [0; fst (pay x); snd (pay x); pos st] ++ ct_flat (cm st)
  | Err (EUnexpected p c) => [1; p; match c with Some c => c + 1 | None => 0 end]
  | Err (EStream p) => [5; p]
  | Err _ => [2]
  | Panic _ => [3]
  | OutOfFuel => [4]
  end.
Definition ct_b (b : bool) : N := if b then 1 else 0.
Definition ct_on {A} (pay : A -> N * N) (f : pstate -> res A) (table : list (list N * list N)) : list (list N * list N) :=
  map (fun w => (w, ct_outcome pay (f (ct_state w)))) (map fst table).

Theorem tie_leaf_null : src_leaf_null = ct_on (fun i => (0, i)) parse_null src_leaf_null.
Proof. vm_compute. reflexivity. Qed.
Theorem tie_leaf_bool : src_leaf_bool = ct_on (fun x => (ct_b (fst x), snd x)) parse_bool src_leaf_bool.
Proof. vm_compute. reflexivity. Qed.
Theorem tie_leaf_hex4 : src_leaf_hex4 = ct_on (fun h => (h, 0)) parse_hex4 src_leaf_hex4.
Proof. vm_compute. reflexivity. Qed.
Theorem tie_leaf_array_start : src_leaf_array_start = ct_on (fun x => (ct_b (fst x), snd x)) array_start src_leaf_array_start.
Proof. vm_compute. reflexivity. Qed.
Theorem tie_leaf_array_continue : src_leaf_array_continue = ct_on (fun b => (ct_b b, 0)) (array_continue 0) src_leaf_array_continue.
Proof. vm_compute. reflexivity. Qed.
(* the tables are not empty (the ties above would hold of an empty table) *)
Lemma leaf_tables_nonempty :
  (30 <=? length src_leaf_null)%nat = true /\ (60 <=? length src_leaf_bool)%nat = true /\ (100 <=? length src_leaf_hex4)%nat = true
  /\ (300 <=? length src_leaf_array_start)%nat = true /\ (200 <=? length src_leaf_array_continue)%nat = true.
Proof. vm_compute. repeat split; reflexivity. Qed.


(* ---------------------------------------------------------------- parser: the string scanner, executed *)
(* SmallString::parse_in -- the loop with its pending-high-surrogate state, the escapes, the three surrogate tests, the
   lenient options -- is RUN by the translator under the four option records (first item of an input word: bit 1 =
   accept_truncated_surrogate_pair, bit 2 = accept_invalid_codepoints) on strings built from surrogate escapes, other
   escapes and raw characters in every arrangement of up to two (three, four for surrogates) elements, terminated and not,
   with failing source items.  Outcome: Ok -> [0; index; position; n; c1 .. cn] ++ code map; errors -> [1; p; c], [5; p],
   [6; s; e; high] MissingLowSurrogate, [7; s; e; cp] InvalidUnicodeCodePoint, [8; s; e; high; cp] InvalidLowSurrogate. *)
Definition ct_opts (n : N) : opts := {| trunc := N.odd n; inval := N.odd (n / 2) |}.
Definition ct_string_outcome (r : res (list N * N)) : list N :=
  match r with
  | Ok ((s, i), st) => [0; i; pos st; N.of_nat (length s)] ++ s ++ ct_flat (cm st)
  | Err (EUnexpected p c) => [1; p; match c with Some c => c + 1 | None => 0 end]
  | Err (EStream p) => [5; p]
  | Err (EMissingLow s e hi) => [6; s; e; hi]
  | Err (EInvalidCodePoint s e cp) => [7; s; e; cp]
  | Err (EInvalidLow s e hi cp) => [8; s; e; hi; cp]
  | Err (EInvalidUtf8 _) => [2]
  | Panic _ => [3]
  | OutOfFuel => [4]
  end.
Definition ct_string_on (table : list (list N * list N)) : list (list N * list N) :=
  map (fun w => (w, match w with
                    | o :: cs => ct_string_outcome (parse_string (ct_opts o) (ct_state cs))
                    | [] => []
                    end)) (map fst table).
Theorem tie_leaf_string : src_leaf_string = ct_string_on src_leaf_string.
Proof. vm_compute. reflexivity. Qed.
Lemma leaf_string_nonempty : (2000 <=? length src_leaf_string)%nat = true.
Proof. vm_compute. reflexivity. Qed.


(* ---------------------------------------------------------------- parser: the number parser, executed *)
(* NumberBuf::parse_in -- the `while let` loop around the automaton, the buffer, the final `matches!` -- RUN by the
   translator in each context (first item of an input word: the context's position in `enum Context`; `context.follows`
   is the source's own) on every word of up to three characters over `0 1 - + . e E , ] space x`, longer numbers, and
   failing source items.  Outcome: Ok -> [0; index; position; n; b1 .. bn] ++ code map; errors as for the leaf parsers. *)
Definition ct_number_outcome (r : res (list N * N)) : list N :=
  match r with
  | Ok ((s, i), st) => [0; i; pos st; N.of_nat (length s)] ++ s ++ ct_flat (cm st)
  | Err (EUnexpected p c) => [1; p; match c with Some c => c + 1 | None => 0 end]
  | Err (EStream p) => [5; p]
  | Err _ => [2]
  | Panic _ => [3]
  | OutOfFuel => [4]
  end.
Definition ct_number_on (table : list (list N * list N)) : list (list N * list N) :=
  map (fun w => (w, match w with
                    | k :: cs => ct_number_outcome (parse_number (nth (N.to_nat k) ct_contexts CNone) (ct_state cs))
                    | [] => []
                    end)) (map fst table).
Theorem tie_leaf_number : src_leaf_number = ct_number_on src_leaf_number.
Proof. vm_compute. reflexivity. Qed.
Lemma leaf_number_nonempty : (5000 <=? length src_leaf_number)%nat = true.
Proof. vm_compute. reflexivity. Qed.


(* ---------------------------------------------------------------- parser: the object functions, executed *)
(* object::StartFragment::parse_in and object::ContinueFragment::parse_in, RUN by the translator under the strict and the
   flexible option record (first item of an input word: 0 or 3); `Key::parse_in` is the string scanner of string.rs run on
   the same stub.  Outcome: Ok -> [0; kind (1 = Empty / End); index; position; entry index; n; k1 .. kn] ++ code map; errors
   as for the string scanner. *)
Definition ct_err_outcome (e : perr) : list N :=
  match e with
  | EUnexpected p c => [1; p; match c with Some c => c + 1 | None => 0 end]
  | EStream p => [5; p]
  | EMissingLow s e hi => [6; s; e; hi]
  | EInvalidCodePoint s e cp => [7; s; e; cp]
  | EInvalidLow s e hi cp => [8; s; e; hi; cp]
  | EInvalidUtf8 _ => [2]
  end.
Definition ct_object_start_outcome (r : res (ostart * N)) : list N :=
  match r with
  | Ok ((OEmpty, i), st) => [0; 1; i; pos st; 0; 0] ++ ct_flat (cm st)
  | Ok ((ONonEmpty k e, i), st) => [0; 0; i; pos st; e; N.of_nat (length k)] ++ k ++ ct_flat (cm st)
  | Err e => ct_err_outcome e
  | Panic _ => [3]
  | OutOfFuel => [4]
  end.
Definition ct_object_continue_outcome (r : res (option (key * N))) : list N :=
  match r with
  | Ok (None, st) => [0; 1; 0; pos st; 0; 0] ++ ct_flat (cm st)
  | Ok (Some (k, e), st) => [0; 0; 0; pos st; e; N.of_nat (length k)] ++ k ++ ct_flat (cm st)
  | Err e => ct_err_outcome e
  | Panic _ => [3]
  | OutOfFuel => [4]
  end.
Definition ct_object_on {A} (out : res A -> list N) (f : opts -> pstate -> res A) (table : list (list N * list N)) :=
  map (fun w => (w, match w with o :: cs => out (f (ct_opts o) (ct_state cs)) | [] => [] end)) (map fst table).
Theorem tie_leaf_object_start : src_leaf_object_start = ct_object_on ct_object_start_outcome object_start src_leaf_object_start.
Proof. vm_compute. reflexivity. Qed.
Theorem tie_leaf_object_continue :
  src_leaf_object_continue = ct_object_on ct_object_continue_outcome (fun o => object_continue o 0) src_leaf_object_continue.
Proof. vm_compute. reflexivity. Qed.
Lemma leaf_object_nonempty :
  (2500 <=? length src_leaf_object_start)%nat = true /\ (2500 <=? length src_leaf_object_continue)%nat = true.
Proof. vm_compute. split; reflexivity. Qed.


(* ---------------------------------------------------------------- parser: Fragment::parse_in, executed *)
(* value.rs: white space, the dispatch on the first character, how the result of each sub-parser is wrapped.  RUN by the
   translator in each context (first item of an input word) under the strict and the flexible record (second item), the
   sub-parsers being the functions of null.rs, boolean.rs, number.rs, string.rs, array.rs, object.rs run from their own
   files on the same stub.  Outcome: Ok -> [0; kind; index; position; e; n; payload] ++ code map with kind 0 null, 1 true,
   2 false, 3 number, 4 string, 5 [], 6 {}, 7 BeginArray, 8 BeginObject (e = entry index, payload = key). *)
Definition ct_fragment_outcome (r : res (frag * N)) : list N :=
  match r with
  | Ok ((f, i), st) =>
      let '(kind, e, payload) :=
        match f with
        | FrValue VNull => (0, 0, [])
        | FrValue (VBool true) => (1, 0, [])
        | FrValue (VBool false) => (2, 0, [])
        | FrValue (VNum n) => (3, 0, n)
        | FrValue (VStr s) => (4, 0, s)
        | FrValue (VArr _) => (5, 0, [])
        | FrValue (VObj _) => (6, 0, [])
        | FrBeginArray => (7, 0, [])
        | FrBeginObject k e => (8, e, k)
        end in
      [0; kind; i; pos st; e; N.of_nat (length payload)] ++ payload ++ ct_flat (cm st)
  | Err e => ct_err_outcome e
  | Panic _ => [3]
  | OutOfFuel => [4]
  end.
Definition ct_fragment_on (table : list (list N * list N)) : list (list N * list N) :=
  map (fun w => (w, match w with
                    | k :: o :: cs => ct_fragment_outcome (parse_fragment (ct_opts o) (nth (N.to_nat k) ct_contexts CNone) (ct_state cs))
                    | _ => []
                    end)) (map fst table).
Theorem tie_leaf_fragment : src_leaf_fragment = ct_fragment_on src_leaf_fragment.
Proof. vm_compute. reflexivity. Qed.
Lemma leaf_fragment_nonempty : (2000 <=? length src_leaf_fragment)%nat = true.
Proof. vm_compute. reflexivity. Qed.


(* ---------------------------------------------------------------- parser: the stack machine, executed *)
(* Value::parse_in of value.rs -- the explicit stack with its four kinds of frames, the local function stack_context,
   value_or_parse, the end-of-input check -- RUN by the translator on whole documents under the strict and the flexible
   record (first item of an input word), every function it calls being run from the source as well.  The code map starts
   empty here.  Outcome: Ok -> [0; index; position; n] ++ encoding of the value (n numbers) ++ code map; errors as before.
   Encoding of a value: null [0], true [1], false [2], number [3; n; bytes], string [4; n; characters],
   array [5; count; items ..], object [6; count; (n; key; value) ..]. *)
Fixpoint ct_enc_value (v : value) : list N :=
  match v with
  | VNull => [0]
  | VBool true => [1]
  | VBool false => [2]
  | VNum n => ([3; N.of_nat (length n)] ++ n)%list
  | VStr s => ([4; N.of_nat (length s)] ++ s)%list
  | VArr l => ([5; N.of_nat (length l)] ++ flat_map ct_enc_value l)%list
  | VObj es => ([6; N.of_nat (length es)]
                 ++ flat_map (fun e : list N * value => ([N.of_nat (length (fst e))] ++ fst e ++ ct_enc_value (snd e))%list) es)%list
  end.
Definition ct_machine_outcome (w : list N) (r : outcome perr (value * list cme)) : list N :=
  match r with
  | Ok (v, m) =>
      let enc := ct_enc_value v in
      ([0; 0; N.of_nat (length w); N.of_nat (length enc)] ++ enc ++ ct_flat m)%list
  | Err e => ct_err_outcome e
  | Panic _ => [3]
  | OutOfFuel => [4]
  end.
Definition ct_machine_on (table : list (list N * list N)) : list (list N * list N) :=
  map (fun w => (w, match w with
                    | o :: cs => ct_machine_outcome cs (parse_items (ct_opts o) (rest (ct_state cs)))
                    | [] => []
                    end)) (map fst table).
Theorem tie_leaf_machine : src_leaf_machine = ct_machine_on src_leaf_machine.
Proof. vm_compute. reflexivity. Qed.
Lemma leaf_machine_nonempty : (5000 <=? length src_leaf_machine)%nat = true.
Proof. vm_compute. reflexivity. Qed.

(* ---------------------------------------------------------------- printer: presets *)

Definition cval_of_indent (i : indent) : cval :=
  match i with
  | ISpaces n => CCtor "Indent::Spaces" [CNum n]
  | ITabs n => CCtor "Indent::Tabs" [CNum n]
  end.
Definition cval_of_limit (l : limit) : cval :=
  match l with
  | LAlways => CCtor "Limit::Always" []
  | LItem i => CCtor "Limit::Item" [CNum i]
  | LWidth w => CCtor "Limit::Width" [CNum w]
  | LItemOrWidth i w => CCtor "Limit::ItemOrWidth" [CNum i; CNum w]
  end.
Definition cval_of_olimit (l : option limit) : cval :=
  match l with None => CCtor "None" [] | Some x => CCtor "Some" [cval_of_limit x] end.
(* every field of print::Options, by name, in alphabetical order *)
Definition cval_of_popts (o : popts) : cval :=
  CRec "Options"
    [("array_after_comma", CNum (array_after_comma o));
     ("array_before_comma", CNum (array_before_comma o));
     ("array_begin", CNum (array_begin o));
     ("array_empty", CNum (array_empty o));
     ("array_end", CNum (array_end o));
     ("array_limit", cval_of_olimit (array_limit o));
     ("indent", cval_of_indent (p_indent o));
     ("object_after_colon", CNum (object_after_colon o));
     ("object_after_comma", CNum (object_after_comma o));
     ("object_before_colon", CNum (object_before_colon o));
     ("object_before_comma", CNum (object_before_comma o));
     ("object_begin", CNum (object_begin o));
     ("object_empty", CNum (object_empty o));
     ("object_end", CNum (object_end o));
     ("object_limit", cval_of_olimit (object_limit o))].

Theorem tie_preset_pretty : src_preset_pretty = cval_of_popts Printer.pretty.
Proof. vm_compute. reflexivity. Qed.
Theorem tie_preset_compact : src_preset_compact = cval_of_popts Printer.compact.
Proof. vm_compute. reflexivity. Qed.
Theorem tie_preset_inline : src_preset_inline = cval_of_popts Printer.inline.
Proof. vm_compute. reflexivity. Qed.

(* the rendering loses nothing: two option records with the same rendering are equal *)
Lemma cval_of_popts_inj : forall a b, cval_of_popts a = cval_of_popts b -> a = b.
Proof.
  intros [i1 a1 a2 a3 a4 a5 l1 o1 o2 o3 o4 o5 o6 o7 m1] [i2 b1 b2 b3 b4 b5 l2 p1 p2 p3 p4 p5 p6 p7 m2] H.
  unfold cval_of_popts in H. cbn [array_after_comma array_before_comma array_begin array_empty array_end
    array_limit p_indent object_after_colon object_after_comma object_before_colon object_before_comma
    object_begin object_empty object_end object_limit] in H.
  injection H as E1 E2 E3 E4 E5 E6 E7 E8 E9 E10 E11 E12 E13 E14 E15.
  assert (Hi : i1 = i2) by (destruct i1, i2; cbn in E7; congruence).
  assert (Hl : forall x y, cval_of_olimit x = cval_of_olimit y -> x = y).
  { intros [[]|] [[]|] E; cbn in E; congruence. }
  apply Hl in E6. apply Hl in E15. subst. reflexivity.
Qed.

(* ---------------------------------------------------------------- printer: escapes *)

(* the points of [char_domain] where the literal of the one-character string is not the character
   between quotes, with what is printed; and the whole literal of the sample strings *)

(* the points where the size of the one-character string is not 3 (two quotes and the character) *)


Theorem tie_string_literal : src_string_literal =
  (exceptions_of (list_eqb N.eqb) (fun c => Printer.string_literal [c]) (fun c => [0x22; c; 0x22]) char_domain,
   table_of Printer.string_literal string_samples).
Proof. vm_compute. reflexivity. Qed.
Theorem tie_printed_string_size : src_printed_string_size =
  (exceptions_of N.eqb (fun c => Printer.printed_string_size [c]) (fun _ => 3) char_domain,
   table_of Printer.printed_string_size string_samples).
Proof. vm_compute. reflexivity. Qed.
Theorem tie_digit : src_digit =
  table_of Printer.hex_digit_char nibble_domain.
Proof. vm_compute. reflexivity. Qed.

(* how the one-character tables determine the functions of the model *)
Lemma string_literal_one : forall c, Printer.string_literal [c] = 0x22 :: escape_char c ++ [0x22].
Proof. intros c. unfold Printer.string_literal. cbn [flat_map]. rewrite app_nil_r. reflexivity. Qed.
Lemma printed_string_size_one : forall c, Printer.printed_string_size [c] = 2 + char_width c.
Proof. reflexivity. Qed.

(* beyond the evaluated points the model prints raw *)
Lemma escape_char_above : forall c, 256 <= c -> escape_char c = [c].
Proof.
  intros c H. unfold escape_char.
  ct_no_eqb c.
  destruct (N.leb_spec c 0x1F); [lia|reflexivity].
Qed.
Lemma char_width_above : forall c, 256 <= c -> char_width c = 1.
Proof.
  intros c H. unfold char_width.
  ct_no_eqb c. cbn [orb].
  destruct (N.leb_spec c 0x1F); [lia|reflexivity].
Qed.

(* ---------------------------------------------------------------- KindSet *)

Definition ct_kind_name (k : kind) : string :=
  match k with
  | KNull => "Null" | KBoolean => "Boolean" | KNumber => "Number"
  | KString => "String" | KArray => "Array" | KObject => "Object"
  end.
Definition ct_kind_const (k : kind) : string :=
  match k with
  | KNull => "NULL" | KBoolean => "BOOLEAN" | KNumber => "NUMBER"
  | KString => "STRING" | KArray => "ARRAY" | KObject => "OBJECT"
  end.

(* the entries of the kind_set! invocation, in order: kind, constant, mask *)
(* the variants of `enum Kind`, in order *)
(* what Kind::fmt prints *)
(* the sets (as u8) that the disjunction / conjunction renderings print as a single word, and that word *)

Theorem tie_kind_table : src_kind_table =
  map (fun k => (ct_kind_name k, ct_kind_const k, Kind.mask k)) all_kinds.
Proof. vm_compute. reflexivity. Qed.
Theorem tie_kind_enum : src_kind_enum =
  map ct_kind_name all_kinds.
Proof. vm_compute. reflexivity. Qed.
Theorem tie_kind_all : src_kind_all =
  ks_all.
Proof. vm_compute. reflexivity. Qed.
Theorem tie_kind_display : src_kind_display =
  map (fun k => (ct_kind_name k, kind_name k)) all_kinds.
Proof. vm_compute. reflexivity. Qed.
Theorem tie_kind_anything_disjunction : src_kind_anything_disjunction =
  (set_of (fun s => s =? ks_all) byte_domain, ks_disjunction ks_all).
Proof. vm_compute. reflexivity. Qed.
Theorem tie_kind_anything_conjunction : src_kind_anything_conjunction =
  (set_of (fun s => s =? ks_all) byte_domain, ks_conjunction ks_all).
Proof. vm_compute. reflexivity. Qed.

Lemma all_kinds_all : forall k, In k all_kinds.
Proof. intros []; cbn; tauto. Qed.

(* ---------------------------------------------------------------- serde *)

Theorem tie_number_token : src_number_token = SerdeData.number_token /\ src_number_token = SerdeTyped.num_token.
Proof. split; [vm_compute; reflexivity | vm_compute; reflexivity]. Qed.

(* ---------------------------------------------------------------- the statements of the Props files *)

Theorem whitespace_from_source :
  src_is_whitespace = set_of Parser.is_ws char_domain /\ (forall c, 256 <= c -> Parser.is_ws c = false).
Proof. exact (conj tie_is_whitespace is_ws_above). Qed.

Theorem follows_from_source :
  src_follows = map (fun ctx => (ct_ctx_name ctx, set_of (Parser.follows ctx) char_domain)) ct_contexts
  /\ (forall ctx c, 256 <= c -> Parser.follows ctx c = false).
Proof. exact (conj tie_follows follows_above). Qed.

Theorem number_automaton_from_source :
  src_number_automaton = ct_number_automaton
  /\ (forall ctx s c, 256 <= c -> num_trans ctx s c = NBad)
  /\ (forall s, In s ct_nstates)
  /\ (forall a b, ct_nstate_name a = ct_nstate_name b -> a = b).
Proof. exact (conj tie_number_automaton (conj num_trans_above (conj ct_nstates_all ct_nstate_name_inj))). Qed.

Theorem parser_escapes_from_source : src_escape_table = ct_escape_table.
Proof. exact tie_escape_table. Qed.

Theorem leaf_parsers_from_source :
  src_leaf_null = ct_on (fun i => (0, i)) parse_null src_leaf_null
  /\ src_leaf_bool = ct_on (fun x => (ct_b (fst x), snd x)) parse_bool src_leaf_bool
  /\ src_leaf_hex4 = ct_on (fun h => (h, 0)) parse_hex4 src_leaf_hex4
  /\ src_leaf_array_start = ct_on (fun x => (ct_b (fst x), snd x)) array_start src_leaf_array_start
  /\ src_leaf_array_continue = ct_on (fun b => (ct_b b, 0)) (array_continue 0) src_leaf_array_continue
  /\ ((30 <=? length src_leaf_null)%nat = true /\ (60 <=? length src_leaf_bool)%nat = true /\ (100 <=? length src_leaf_hex4)%nat = true
      /\ (300 <=? length src_leaf_array_start)%nat = true /\ (200 <=? length src_leaf_array_continue)%nat = true).
Proof.
  exact (conj tie_leaf_null (conj tie_leaf_bool (conj tie_leaf_hex4 (conj tie_leaf_array_start
          (conj tie_leaf_array_continue leaf_tables_nonempty))))).
Qed.

Theorem string_scanner_from_source :
  src_leaf_string = ct_string_on src_leaf_string /\ (2000 <=? length src_leaf_string)%nat = true.
Proof. exact (conj tie_leaf_string leaf_string_nonempty). Qed.

Theorem number_parser_from_source :
  src_leaf_number = ct_number_on src_leaf_number /\ (5000 <=? length src_leaf_number)%nat = true.
Proof. exact (conj tie_leaf_number leaf_number_nonempty). Qed.

Theorem object_functions_from_source :
  src_leaf_object_start = ct_object_on ct_object_start_outcome object_start src_leaf_object_start
  /\ src_leaf_object_continue = ct_object_on ct_object_continue_outcome (fun o => object_continue o 0) src_leaf_object_continue
  /\ ((2500 <=? length src_leaf_object_start)%nat = true /\ (2500 <=? length src_leaf_object_continue)%nat = true).
Proof. exact (conj tie_leaf_object_start (conj tie_leaf_object_continue leaf_object_nonempty)). Qed.

Theorem fragment_from_source :
  src_leaf_fragment = ct_fragment_on src_leaf_fragment /\ (2000 <=? length src_leaf_fragment)%nat = true.
Proof. exact (conj tie_leaf_fragment leaf_fragment_nonempty). Qed.

Theorem stack_machine_from_source :
  src_leaf_machine = ct_machine_on src_leaf_machine /\ (5000 <=? length src_leaf_machine)%nat = true.
Proof. exact (conj tie_leaf_machine leaf_machine_nonempty). Qed.

Theorem control_from_source :
  src_is_control = set_of Parser.is_control char_domain /\ (forall c, 256 <= c -> Parser.is_control c = false).
Proof. exact (conj tie_is_control is_control_above). Qed.

Theorem surrogates_from_source :
  src_surrogate_tests = [set_of is_low unit_domain; set_of is_high unit_domain; set_of is_high unit_domain]
  /\ (forall u, u < 0xD700 \/ 0xE100 <= u -> is_high u = false /\ is_low u = false).
Proof. exact (conj tie_surrogate_tests surrogates_outside). Qed.

Theorem surrogate_pair_from_source :
  src_surrogate_combine = map (fun p => (fst p, snd p, ct_pair_char (fst p) (snd p))) pair_domain.
Proof. exact tie_surrogate_combine. Qed.

Theorem presets_from_source :
  src_preset_pretty = cval_of_popts Printer.pretty /\
  src_preset_compact = cval_of_popts Printer.compact /\
  src_preset_inline = cval_of_popts Printer.inline /\
  (forall a b, cval_of_popts a = cval_of_popts b -> a = b).
Proof. exact (conj tie_preset_pretty (conj tie_preset_compact (conj tie_preset_inline cval_of_popts_inj))). Qed.

Theorem escapes_from_source :
  src_string_literal =
    (exceptions_of (list_eqb N.eqb) (fun c => Printer.string_literal [c]) (fun c => [0x22; c; 0x22]) char_domain,
     table_of Printer.string_literal string_samples)
  /\ (forall c, Printer.string_literal [c] = 0x22 :: escape_char c ++ [0x22])
  /\ (forall c, 256 <= c -> escape_char c = [c]).
Proof. exact (conj tie_string_literal (conj string_literal_one escape_char_above)). Qed.

Theorem string_size_from_source :
  src_printed_string_size =
    (exceptions_of N.eqb (fun c => Printer.printed_string_size [c]) (fun _ => 3) char_domain,
     table_of Printer.printed_string_size string_samples)
  /\ (forall c, Printer.printed_string_size [c] = 2 + char_width c)
  /\ (forall c, 256 <= c -> char_width c = 1).
Proof. exact (conj tie_printed_string_size (conj printed_string_size_one char_width_above)). Qed.

Theorem digit_from_source : src_digit = table_of Printer.hex_digit_char nibble_domain.
Proof. exact tie_digit. Qed.

Theorem masks_from_source :
  src_kind_table = map (fun k => (ct_kind_name k, ct_kind_const k, Kind.mask k)) all_kinds /\ (forall k, In k all_kinds).
Proof. exact (conj tie_kind_table all_kinds_all). Qed.

Theorem kinds_from_source : src_kind_enum = map ct_kind_name all_kinds.
Proof. exact tie_kind_enum. Qed.

Theorem all_from_source : src_kind_all = ks_all.
Proof. exact tie_kind_all. Qed.

Theorem names_from_source : src_kind_display = map (fun k => (ct_kind_name k, kind_name k)) all_kinds.
Proof. exact tie_kind_display. Qed.

Theorem anything_from_source :
  src_kind_anything_disjunction = (set_of (fun s => s =? ks_all) byte_domain, ks_disjunction ks_all) /\
  src_kind_anything_conjunction = (set_of (fun s => s =? ks_all) byte_domain, ks_conjunction ks_all).
Proof. exact (conj tie_kind_anything_disjunction tie_kind_anything_conjunction). Qed.

Print Assumptions tie_is_whitespace.
Print Assumptions follows_from_source.
Print Assumptions number_automaton_from_source.
Print Assumptions leaf_parsers_from_source.
Print Assumptions string_scanner_from_source.
Print Assumptions number_parser_from_source.
Print Assumptions object_functions_from_source.
Print Assumptions fragment_from_source.
Print Assumptions stack_machine_from_source.
Print Assumptions parser_escapes_from_source.
Print Assumptions surrogate_pair_from_source.
Print Assumptions presets_from_source.
Print Assumptions escapes_from_source.
Print Assumptions string_size_from_source.
Print Assumptions anything_from_source.
Print Assumptions tie_number_token.
