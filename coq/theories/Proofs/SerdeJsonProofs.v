(* Proofs/SerdeJsonProofs.v -- C18: the serde_json bridge.
   serde_json -> json-syntax -> serde_json is the identity on every well-formed serde_json
   value; json-syntax -> serde_json -> json-syntax preserves a duplicate-free value with
   64-bit / finite-double numbers up to entry order and number spelling; neither direction
   panics.  The one dependency hypothesis: ryu prints a finite double as a valid non-integer
   spelling that reads back (correctly rounded) to the same double. *)
From Coq Require Import SpecFloat Sorting.Permutation.
From JsonSyntax Require Import Base.Prelude Base.Value Base.Float64 Model.Compare Spec.Multimap
  Spec.EcmaNumber Spec.NumSpelling Spec.SerdeData Spec.SerdeJsonValue Spec.SerdeRoundTrip
  Model.SerdeValue Proofs.Utf8Order Proofs.NumSpellingProofs Proofs.SerdeCollapse
  Proofs.SerdeValueProofs Spec.PermEq.

Local Open Scope nat_scope.

(* ================================================================== *)
(* sorted key lists and BTreeMap insertion                             *)
(* ================================================================== *)
Definition bt_step (m : list (list N * sj)) (e : list N * sj) := bt_insert (fst e) (snd e) m.

Lemma str_cmp_lt_trans a b c : str_cmp a b = Lt -> str_cmp b c = Lt -> str_cmp a c = Lt.
Proof. intros H1 H2. exact (trans_at_same str_cmp a (str_cmp_trans_at a) b c Lt H1 H2). Qed.

Lemma str_cmp_gt_of_lt a b : str_cmp a b = Lt -> str_cmp b a = Gt.
Proof. intros H. rewrite str_cmp_antisym, H. reflexivity. Qed.

Lemma keys_sorted_cons a l : keys_sorted (a :: l) = true ->
  keys_sorted l = true /\ Forall (fun b => str_cmp a b = Lt) l.
Proof.
  revert a. induction l as [|b r IH]; intros a H; [split; [reflexivity|constructor]|].
  cbn [keys_sorted] in H. destruct (str_cmp a b) eqn:E; try discriminate.
  split; [exact H|]. constructor; [exact E|].
  destruct (IH b H) as [_ Hb]. eapply Forall_impl; [|exact Hb].
  intros c Hc. cbn in Hc. eapply str_cmp_lt_trans; eauto.
Qed.

Lemma keys_sorted_app_lt l1 k l2 : keys_sorted (l1 ++ k :: l2) = true ->
  Forall (fun a => str_cmp a k = Lt) l1.
Proof.
  induction l1 as [|a r IH]; intros H; [constructor|].
  cbn [app] in H. apply keys_sorted_cons in H as [Hs Ha]. constructor.
  - rewrite Forall_forall in Ha. apply Ha. apply in_or_app. right. left. reflexivity.
  - apply IH. exact Hs.
Qed.

Lemma bt_insert_last k x (acc : list (list N * sj)) :
  Forall (fun e => str_cmp (fst e) k = Lt) acc -> bt_insert k x acc = acc ++ [(k, x)].
Proof.
  induction 1 as [|[k' x'] r Hk _ IH]; [reflexivity|].
  cbn [bt_insert app]. cbn in Hk. rewrite (str_cmp_gt_of_lt _ _ Hk). f_equal. exact IH.
Qed.

Lemma bt_fold_sorted (es : list (list N * sj)) : forall acc,
  keys_sorted (map fst (acc ++ es)) = true -> fold_left bt_step es acc = acc ++ es.
Proof.
  induction es as [|[k x] r IH]; intros acc H; [rewrite app_nil_r; reflexivity|].
  cbn [fold_left]. unfold bt_step at 2. cbn [fst snd].
  rewrite bt_insert_last.
  - rewrite IH; rewrite <- app_assoc; [reflexivity|exact H].
  - rewrite map_app in H. cbn [map fst] in H. apply keys_sorted_app_lt in H.
    rewrite Forall_forall in *. intros e He. apply H. apply in_map. exact He.
Qed.

(* ================================================================== *)
(* sorting by key is a permutation of the entries                       *)
(* ================================================================== *)
Lemma ins_by_key_perm {A} (e : list N * A) l : Permutation (ins_by_key e l) (e :: l).
Proof.
  induction l as [|x r IH]; cbn [ins_by_key]; [reflexivity|].
  destruct (str_cmp (fst e) (fst x)); try reflexivity.
  rewrite IH. apply perm_swap.
Qed.

Lemma sort_fold_perm {A} (l : list (list N * A)) : forall acc,
  Permutation (fold_left (fun acc e => ins_by_key e acc) l acc) (l ++ acc).
Proof.
  induction l as [|e r IH]; intros acc; cbn [fold_left app]; [reflexivity|].
  rewrite IH. rewrite ins_by_key_perm. symmetry. apply Permutation_middle.
Qed.

Lemma sort_by_key_perm {A} (l : list (list N * A)) : Permutation (sort_by_key l) l.
Proof. unfold sort_by_key. rewrite sort_fold_perm, app_nil_r. reflexivity. Qed.

Lemma Forall2_perm {A B} (R : A -> B -> Prop) l1 l2 : Permutation l1 l2 ->
  forall m2, Forall2 R l2 m2 -> exists m1, Permutation m1 m2 /\ Forall2 R l1 m1.
Proof.
  induction 1 as [|x l1 l2 _ IH|x y l|l1 l2 l3 _ IH1 _ IH2]; intros m2 H.
  - inversion H; subst. exists []. split; constructor.
  - inversion H as [|? b ? m2' Hxb Hr]; subst. destruct (IH m2' Hr) as (m1 & Hp & Hf).
    exists (b :: m1). split; [constructor; exact Hp|constructor; auto].
  - inversion H as [|? b ? m2' Hxb Hr]; subst. inversion Hr as [|? c ? m2'' Hyc Hr']; subst.
    exists (c :: b :: m2''). split; [apply perm_swap|repeat constructor; auto].
  - destruct (IH2 m2 H) as (m & Hp & Hf). destruct (IH1 m Hf) as (m1 & Hp1 & Hf1).
    exists m1. split; [etransitivity; eauto|exact Hf1].
Qed.

(* sorting every object's entries by key only permutes entries: the result is PermEq (C15's
   equality up to entry order) to the original *)
Theorem key_sorted_permeq : forall v, PermEq (key_sorted v) v.
Proof.
  induction v as [| b | n | s | l IH | es IH] using value_ind'; cbn [key_sorted]; try constructor.
  - induction IH as [|x r Hx _ IHr]; cbn; constructor; auto.
  - set (L := map (fun e : list N * value => (fst e, key_sorted (snd e))) es).
    assert (HL : Forall2 (fun e e' : list N * value => fst e = fst e' /\ PermEq (snd e) (snd e')) L es).
    { subst L. induction IH as [|x r Hx _ IHr]; cbn; constructor; auto. }
    destruct (Forall2_perm _ _ _ (sort_by_key_perm L) es HL) as (m1 & Hp & Hf).
    eapply pe_obj; [symmetry; exact Hp|exact Hf].
Qed.

Section Proofs.
  Variable fmt_ryu : spec_float -> list N.

  Notation from_sj := (from_sj fmt_ryu).
  Notation number_from_sj := (number_from_sj fmt_ryu).

  (* ---------------------------------------------------------------- named fixpoints *)
  Fixpoint from_list (l : list sj) : outcome unit (list value) :=
    match l with
    | [] => Ok []
    | x :: r => obind (from_sj x) (fun y => obind (from_list r) (fun ys => Ok (y :: ys)))
    end.
  Fixpoint from_entries (es : list (list N * sj)) : outcome unit (list entry) :=
    match es with
    | [] => Ok []
    | (k, x) :: r => obind (from_sj x) (fun y => obind (from_entries r) (fun ys => Ok ((k, y) :: ys)))
    end.
  Fixpoint into_list (l : list value) : outcome unit (list sj) :=
    match l with
    | [] => Ok []
    | x :: r => obind (into_sj x) (fun y => obind (into_list r) (fun ys => Ok (y :: ys)))
    end.
  Fixpoint into_entries (es : list (list N * value)) (m : list (list N * sj)) : outcome unit sj :=
    match es with
    | [] => Ok (JObj m)
    | (k, x) :: r => obind (into_sj x) (fun y => into_entries r (bt_insert k y m))
    end.

  Lemma from_arr_eq l : from_sj (JArr l) = obind (from_list l) (fun ys => Ok (VArr ys)).
  Proof. reflexivity. Qed.
  Lemma from_obj_eq es : from_sj (JObj es) = obind (from_entries es) (fun ys => Ok (VObj ys)).
  Proof. reflexivity. Qed.
  Lemma into_arr_eq l : into_sj (VArr l) = obind (into_list l) (fun ys => Ok (JArr ys)).
  Proof. reflexivity. Qed.
  Lemma into_obj_eq es : into_sj (VObj es) = into_entries es [].
  Proof. reflexivity. Qed.

  (* ---------------------------------------------------------------- hypotheses *)
  (* ryu prints a finite double as a valid JSON number with a '.' or an exponent that reads
     back (exactly, to nearest) as that double *)
  (* the doubles that occur: any f64 bit pattern, or the nearest double of a spelling *)
  Definition is_f64 (x : spec_float) : Prop := canonical_f64 x = true \/ exists n, x = dbl n.

  Definition ryu_round_trips : Prop :=
    forall x, sf_is_finite x = true -> is_f64 x ->
      valid_number (fmt_ryu x) = true /\ is_int64 (fmt_ryu x) = false /\ dbl (fmt_ryu x) = x.

  (* ================================================================== *)
  (* serde_json -> json-syntax -> serde_json                             *)
  (* ================================================================== *)
  Lemma number_there_and_back n :
    ryu_round_trips -> wf_sjnum n = true ->
    exists s, number_from_sj n = Ok s /\ number_into_sj s = JNum n.
  Proof.
    intros Hryu Hwf. unfold SerdeValue.number_from_sj, SerdeValue.number_into_sj.
    destruct n as [z|z|x]; cbn [sjnum_to_string wf_sjnum] in *.
    - apply andb_true_iff in Hwf as [H0 H1]. apply Z.leb_le in H0. apply Z.ltb_lt in H1.
      rewrite valid_number_fmt_int. exists (fmt_int z). split; [reflexivity|].
      rewrite parse_u64_fmt_int by lia. reflexivity.
    - apply andb_true_iff in Hwf as [H0 H1]. apply Z.leb_le in H0. apply Z.ltb_lt in H1.
      rewrite valid_number_fmt_int. exists (fmt_int z). split; [reflexivity|].
      rewrite parse_u64_fmt_int_neg by lia. rewrite parse_i64_fmt_int by lia.
      destruct (Z.ltb_spec z 0); [reflexivity|lia].
    - apply andb_true_iff in Hwf as [Hf Hc].
      destruct (Hryu x Hf (or_introl Hc)) as (Hv & Hi & Hd). rewrite Hv.
      exists (fmt_ryu x). split; [reflexivity|].
      apply is_int64_false in Hi as Hi'. destruct Hi' as [Hi64 Hu64]. rewrite Hu64, Hi64.
      rewrite Hd, Hf. reflexivity.
  Qed.

  Definition tab_good (j : sj) : Prop := exists v, from_sj j = Ok v /\ into_sj v = Ok j.

  Lemma tab_list l : Forall tab_good l ->
    exists vs, from_list l = Ok vs /\ into_list vs = Ok l.
  Proof.
    induction 1 as [|x r (v & Hf & Hi) _ (vs & Hfs & His)].
    - exists []. split; reflexivity.
    - exists (v :: vs). cbn [from_list into_list]. rewrite Hf, Hfs, Hi, His. split; reflexivity.
  Qed.

  Lemma tab_entries es : Forall (fun e : list N * sj => tab_good (snd e)) es ->
    exists ws, from_entries es = Ok ws /\
               forall m, into_entries ws m = Ok (JObj (fold_left bt_step es m)).
  Proof.
    induction 1 as [|[k x] r (v & Hf & Hi) _ (ws & Hfs & His)].
    - exists []. split; reflexivity.
    - cbn [snd] in Hf, Hi. exists ((k, v) :: ws). cbn [from_entries]. rewrite Hf, Hfs.
      split; [reflexivity|]. intros m. cbn [into_entries fold_left]. rewrite Hi. cbn [obind].
      apply His.
  Qed.

  Theorem there_and_back_id :
    ryu_round_trips ->
    forall j, wf_sj j = true -> there_and_back fmt_ryu j = Ok j.
  Proof.
    intros Hryu. unfold there_and_back.
    assert (G : forall j, wf_sj j = true -> tab_good j).
    { induction j as [| b | n | s | l IH | es IH] using sj_ind'; intros Hwf.
      - exists VNull. split; reflexivity.
      - exists (VBool b). split; reflexivity.
      - destruct (number_there_and_back n Hryu Hwf) as (s & Hs & Hb).
        exists (VNum s). cbn [SerdeValue.from_sj SerdeValue.into_sj]. rewrite Hs, Hb.
        split; reflexivity.
      - exists (VStr s). split; reflexivity.
      - cbn [wf_sj] in Hwf. rewrite forallb_forall in Hwf.
        assert (Hg : Forall tab_good l) by (rewrite Forall_forall in *; auto).
        destruct (tab_list l Hg) as (vs & Hf & Hi). exists (VArr vs).
        rewrite from_arr_eq, Hf, into_arr_eq, Hi. split; reflexivity.
      - cbn [wf_sj] in Hwf. apply andb_true_iff in Hwf as [Hs Hwf].
        rewrite forallb_forall in Hwf.
        assert (Hg : Forall (fun e : list N * sj => tab_good (snd e)) es)
          by (rewrite Forall_forall in *; auto).
        destruct (tab_entries es Hg) as (ws & Hf & Hi). exists (VObj ws).
        rewrite from_obj_eq, Hf, into_obj_eq, Hi. split; [reflexivity|].
        rewrite bt_fold_sorted by exact Hs. reflexivity. }
    intros j Hwf. destruct (G j Hwf) as (v & Hf & Hi). rewrite Hf. exact Hi.
  Qed.

  (* ================================================================== *)
  (* from_serde_json never panics                                        *)
  (* ================================================================== *)
  Definition ryu_prints_numbers : Prop :=
    forall x, sf_is_finite x = true -> is_f64 x -> valid_number (fmt_ryu x) = true.

  Theorem from_sj_total : ryu_prints_numbers ->
    forall j, wf_sj j = true -> exists v, from_sj j = Ok v.
  Proof.
    intros Hryu. induction j as [| b | n | s | l IH | es IH] using sj_ind'; intros Hwf.
    - eexists; reflexivity.
    - eexists; reflexivity.
    - cbn [SerdeValue.from_sj]. unfold SerdeValue.number_from_sj.
      assert (Hv : valid_number (sjnum_to_string fmt_ryu n) = true).
      { destruct n as [z|z|x]; cbn [sjnum_to_string]; try apply valid_number_fmt_int.
        cbn [wf_sj wf_sjnum] in Hwf. apply andb_true_iff in Hwf as [Hf Hc]. apply Hryu; [exact Hf|left; exact Hc]. }
      rewrite Hv. eexists; reflexivity.
    - eexists; reflexivity.
    - cbn [wf_sj] in Hwf. rewrite forallb_forall in Hwf. rewrite from_arr_eq.
      assert (exists vs, from_list l = Ok vs) as [vs ->].
      { induction IH as [|x r Hx _ IHr]; [exists []; reflexivity|].
        destruct (Hx (Hwf x (or_introl eq_refl))) as [v Hv].
        destruct IHr as [vs Hvs]; [intros y Hy; apply Hwf; right; exact Hy|].
        exists (v :: vs). cbn [from_list]. rewrite Hv, Hvs. reflexivity. }
      eexists; reflexivity.
    - cbn [wf_sj] in Hwf. apply andb_true_iff in Hwf as [_ Hwf].
      rewrite forallb_forall in Hwf. rewrite from_obj_eq.
      assert (exists ws, from_entries es = Ok ws) as [ws ->].
      { induction IH as [|[k x] r Hx _ IHr]; [exists []; reflexivity|].
        destruct (Hx (Hwf (k, x) (or_introl eq_refl))) as [v Hv]. cbn [snd] in Hv.
        destruct IHr as [ws Hws]; [intros y Hy; apply Hwf; right; exact Hy|].
        exists ((k, v) :: ws). cbn [from_entries]. rewrite Hv, Hws. reflexivity. }
      eexists; reflexivity.
  Qed.

  (* ================================================================== *)
  (* into_serde_json never panics                                        *)
  (* ================================================================== *)
  Theorem into_sj_total : forall v, exists j, into_sj v = Ok j.
  Proof.
    induction v as [| b | n | s | l IH | es IH] using value_ind'; try (eexists; reflexivity).
    - rewrite into_arr_eq.
      assert (exists js, into_list l = Ok js) as [js ->].
      { induction IH as [|x r [j Hj] _ [js Hjs]]; [exists []; reflexivity|].
        exists (j :: js). cbn [into_list]. rewrite Hj, Hjs. reflexivity. }
      eexists; reflexivity.
    - rewrite into_obj_eq. generalize (@nil (list N * sj)).
      induction IH as [|[k x] r [j Hj] _ IHr]; intros m; [eexists; reflexivity|].
      cbn [snd] in Hj. cbn [into_entries]. rewrite Hj. cbn [obind]. apply IHr.
  Qed.

  (* a magnitude beyond the doubles becomes null (serde_json::Value::from(f64)) *)
  Lemma overflow_is_null n : K3num n = true -> into_sj (VNum n) = Ok JNull.
  Proof.
    unfold K3num. intros H. apply andb_true_iff in H as [Hi Hf].
    apply negb_true_iff in Hi, Hf. apply is_int64_false in Hi as [Hi Hu].
    cbn [SerdeValue.into_sj]. unfold SerdeValue.number_into_sj. rewrite Hu, Hi, Hf. reflexivity.
  Qed.

  (* ================================================================== *)
  (* json-syntax -> serde_json -> json-syntax                            *)
  (* ================================================================== *)
  Lemma number_back_and_there n :
    ryu_round_trips -> num64 n = true ->
    exists m s, number_into_sj n = JNum m /\ number_from_sj m = Ok s /\ num_pres n s = true.
  Proof.
    intros Hryu H64.
    unfold SerdeValue.number_into_sj, SerdeValue.number_from_sj.
    destruct (parse_u64 n) as [z|] eqn:Hu.
    - exists (PosInt z), (fmt_int z). cbn [sjnum_to_string]. rewrite valid_number_fmt_int.
      repeat split; try reflexivity. apply num_pres_u64; exact Hu.
    - destruct (parse_i64 n) as [z|] eqn:Hi.
      + exists (if (z <? 0)%Z then NegInt z else PosInt z), (fmt_int z).
        split; [reflexivity|].
        assert (E : sjnum_to_string fmt_ryu (if (z <? 0)%Z then NegInt z else PosInt z) = fmt_int z)
          by (destruct (z <? 0)%Z; reflexivity).
        rewrite E, valid_number_fmt_int. split; [reflexivity|]. apply num_pres_i64; exact Hi.
      + assert (Hint : is_int64 n = false) by (apply is_int64_false; auto).
        assert (Hf : sf_is_finite (dbl n) = true).
        { unfold num64 in H64. rewrite Hint in H64. exact H64. }
        rewrite Hf.
        destruct (Hryu (dbl n) Hf (or_intror (ex_intro _ n eq_refl))) as (Hrv & Hri & Hrd).
        exists (SFloat (dbl n)), (fmt_ryu (dbl n)). cbn [sjnum_to_string]. rewrite Hrv.
        repeat split; try reflexivity.
        unfold num_pres. unfold is_int64 in Hint. destruct (int64_val n); [discriminate|].
        rewrite Hrd. apply sf_eqb_refl. exact Hf.
  Qed.

  Definition bt_good (x : value) : Prop :=
    exists j w, into_sj x = Ok j /\ from_sj j = Ok w /\ vrel (key_sorted x) w.

  Lemma bt_list l : Forall bt_good l ->
    exists js ws, into_list l = Ok js /\ from_list js = Ok ws /\ Forall2 vrel (map key_sorted l) ws.
  Proof.
    induction 1 as [|x r (j & w & Hi & Hf & Hr) _ (js & ws & His & Hfs & Hrs)].
    - exists [], []. repeat split; constructor.
    - exists (j :: js), (w :: ws). cbn [into_list from_list map]. rewrite Hi, His, Hf, Hfs.
      repeat split. constructor; auto.
  Qed.

  (* what relates a sorted spec entry with a BTreeMap entry *)
  Definition conv (a : value) (j : sj) : Prop := exists w, from_sj j = Ok w /\ vrel a w.

  Lemma ins_sim (a : value) (b : sj) k S M :
    Forall2 (erel conv) S M -> ~ In k (keys S) -> conv a b ->
    Forall2 (erel conv) (ins_by_key (k, a) S) (bt_insert k b M).
  Proof.
    intros H. induction H as [|[k1 a1] [k1' b1] S M [E Hr] HF IH]; intros Hn Hab.
    - cbn. constructor; [split; auto|constructor].
    - cbn in E. subst k1'. cbn [ins_by_key bt_insert fst].
      destruct (str_cmp k k1) eqn:C.
      + apply str_cmp_eq_iff_strong in C. subst. exfalso. apply Hn. cbn. auto.
      + constructor; [split; auto|]. constructor; [split; auto|exact HF].
      + constructor; [split; auto|]. apply IH; auto. intros Hin. apply Hn. cbn. auto.
  Qed.

  Lemma ins_keys {A} (e : list N * A) S k' :
    In k' (keys (ins_by_key e S)) <-> k' = fst e \/ In k' (keys S).
  Proof.
    induction S as [|x r IH]; cbn [ins_by_key keys map].
    - cbn. intuition.
    - destruct (str_cmp (fst e) (fst x)); cbn [keys map In]; cbn; intuition.
  Qed.

  Lemma bt_entries es : Forall (fun e : list N * value => bt_good (snd e)) es ->
    NoDup (keys es) ->
    forall S M, Forall2 (erel conv) S M -> (forall k, In k (keys es) -> ~ In k (keys S)) ->
    exists M', into_entries es M = Ok (JObj M') /\
      Forall2 (erel conv)
        (fold_left (fun acc e => ins_by_key e acc)
                   (map (fun e : list N * value => (fst e, key_sorted (snd e))) es) S) M'.
  Proof.
    induction 1 as [|[k x] r (j & w & Hi & Hf & Hr) _ IH]; intros Hd S M HSM Hfresh.
    - exists M. split; [reflexivity|exact HSM].
    - cbn [snd] in Hi, Hf, Hr. cbn [keys map fst] in Hd. inversion Hd as [|? ? Hnk Hd']; subst.
      cbn [into_entries map fold_left fst snd]. rewrite Hi. cbn [obind].
      apply IH; [exact Hd'| |].
      + apply ins_sim; [exact HSM| |exists w; auto]. apply Hfresh. cbn. auto.
      + intros k' Hk' Hin. apply ins_keys in Hin. cbn [fst] in Hin. destruct Hin as [->|Hin].
        * apply Hnk. exact Hk'.
        * apply (Hfresh k'); [cbn; auto|exact Hin].
  Qed.

  Lemma conv_entries S M : Forall2 (erel conv) S M ->
    exists ws, from_entries M = Ok ws /\ Forall2 (erel vrel) S ws.
  Proof.
    induction 1 as [|[k a] [k' j] S M [E (w & Hf & Hr)] _ (ws & Hfs & Hrs)].
    - exists []. split; [reflexivity|constructor].
    - cbn in E. subst k'. cbn [snd] in Hf, Hr. exists ((k, w) :: ws). cbn [from_entries].
      rewrite Hf, Hfs. split; [reflexivity|]. constructor; auto. split; auto.
  Qed.

  Theorem back_and_there_preserves :
    ryu_round_trips ->
    forall v, nodup_keysb v = true -> nums64 v = true ->
    exists j w, into_sj v = Ok j /\ from_sj j = Ok w /\ detour_ok v w = true.
  Proof.
    intros Hryu v Hd Hp. unfold nums64 in Hp. revert Hp Hd.
    change (all_nums num64 v = true -> nodup_keysb v = true -> bt_good v).
    induction v as [| b | n | s | l IH | es IH] using value_ind'; intros Hp Hd.
    - exists JNull, VNull. repeat split.
    - exists (JBool b), (VBool b). repeat split. unfold vrel. cbn. apply Bool.eqb_reflx.
    - destruct (number_back_and_there n Hryu Hp) as (m & s & Hi & Hf & Hr).
      exists (JNum m), (VNum s). cbn [SerdeValue.into_sj SerdeValue.from_sj]. rewrite Hi.
      rewrite Hf. repeat split. exact Hr.
    - exists (JStr s), (VStr s). repeat split. unfold vrel. cbn. apply str_eqb_refl.
    - apply all_nums_arr in Hp. cbn [nodup_keysb] in Hd. rewrite forallb_forall in Hd.
      assert (Hg : Forall bt_good l) by (rewrite Forall_forall in *; auto).
      destruct (bt_list l Hg) as (js & ws & Hi & Hf & Hr).
      exists (JArr js), (VArr ws). rewrite into_arr_eq, Hi. cbn [obind]. rewrite from_arr_eq, Hf.
      repeat split. cbn [key_sorted]. apply vrelb_arr. exact Hr.
    - apply all_nums_obj in Hp. cbn [nodup_keysb] in Hd. apply andb_true_iff in Hd as [Hnd Hd].
      rewrite forallb_forall in Hd.
      assert (Hg : Forall (fun e : list N * value => bt_good (snd e)) es)
        by (rewrite Forall_forall in *; auto).
      destruct (bt_entries es Hg (nodupb_NoDup _ Hnd) [] [] (Forall2_nil _)) as (M' & Hi & Hrel).
      { intros k _ []. }
      destruct (conv_entries _ _ Hrel) as (ws & Hf & Hr).
      exists (JObj M'), (VObj ws). rewrite into_obj_eq, Hi, from_obj_eq, Hf.
      repeat split. cbn [key_sorted]. apply vrelb_obj. exact Hr.
  Qed.
End Proofs.

Print Assumptions there_and_back_id.
Print Assumptions back_and_there_preserves.
Print Assumptions from_sj_total.
Print Assumptions into_sj_total.
Print Assumptions key_sorted_permeq.
