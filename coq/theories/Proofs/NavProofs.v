(* Proofs/NavProofs.v -- Model/CodeMapNav.v refines Spec/Preorder.v:
   the explicit-stack traversal is the recursive pre-order, get_fragment indexes it,
   the mapped iterators and keyed lookups yield the pre-order offsets on a well-shaped
   code map, and TryFromJson never panics on one and reports a genuine mismatch. *)
From Coq Require Import Sorting.Sorted.
From JsonSyntax Require Import Base.Prelude Base.Source Base.Value Model.Object Model.CodeMapNav
     Spec.Preorder Spec.Multimap.

Open Scope nat_scope.

(* ================================================================== *)
(* 1. traversal                                                       *)
(* ================================================================== *)

Lemma flat_map_map {A B C} (f : A -> B) (g : B -> list C) (l : list A) :
  flat_map g (map f l) = flat_map (fun x => g (f x)) l.
Proof. induction l as [|x l IH]; cbn; [reflexivity|]. rewrite IH. reflexivity. Qed.

Lemma preorder_unfold v :
  preorder v = FValue v :: flat_map frag_preorder (sub_fragments (FValue v)).
Proof.
  destruct v as [| b | s | s | l | l]; cbn [preorder sub_fragments flat_map]; try reflexivity.
  - rewrite flat_map_map. reflexivity.
  - rewrite flat_map_map. reflexivity.
Qed.

(* a fragment is followed by the pre-orders of its sub-fragments *)
Lemma frag_preorder_unfold f :
  frag_preorder f = f :: flat_map frag_preorder (sub_fragments f).
Proof.
  destruct f as [v | k v | k].
  - apply preorder_unfold.
  - cbn [frag_preorder sub_fragments flat_map]. rewrite app_nil_r. reflexivity.
  - reflexivity.
Qed.

(* the general stack lemma *)
Lemma traverse_loop_stack : forall fuel fs,
  length (flat_map frag_preorder fs) <= fuel ->
  traverse_loop fuel fs = (flat_map frag_preorder fs, []).
Proof.
  induction fuel as [|fuel IH]; intros fs Hlen.
  - destruct (flat_map frag_preorder fs) eqn:E; [|cbn in Hlen; lia].
    destruct fs as [|x r]; [reflexivity|].
    cbn [flat_map] in E. rewrite frag_preorder_unfold in E. discriminate.
  - destruct fs as [|x r]; [reflexivity|].
    cbn [traverse_loop flat_map]. cbn [flat_map] in Hlen.
    rewrite frag_preorder_unfold in *. cbn [app length] in *.
    rewrite <- flat_map_app in *.
    rewrite IH by lia. reflexivity.
Qed.

Lemma fragment_count_preorder : forall v, fragment_count v = length (preorder v).
Proof.
  induction v as [| b | s | s | l IH | l IH] using value_ind'; try reflexivity.
  - cbn [fragment_count preorder length]. f_equal.
    induction IH as [|x l Hx _ IHl]; [reflexivity|].
    cbn [fold_right flat_map]. rewrite app_length, Hx, IHl. reflexivity.
  - cbn [fragment_count preorder length]. f_equal.
    induction IH as [|x l Hx _ IHl]; [reflexivity|].
    cbn [fold_right flat_map length]. rewrite app_length, Hx, IHl. reflexivity.
Qed.

Lemma traverse_loop_value v :
  traverse_loop (fragment_count v) [FValue v] = (preorder v, []).
Proof.
  rewrite traverse_loop_stack; cbn [flat_map frag_preorder]; rewrite app_nil_r.
  - reflexivity.
  - rewrite fragment_count_preorder. lia.
Qed.

Theorem traverse_preorder : forall v, traverse v = preorder v /\ traverse_leftover v = [].
Proof.
  intros v. unfold traverse, traverse_leftover. rewrite traverse_loop_value. split; reflexivity.
Qed.

Lemma count_where_spec p v : count_where p v = length (filter p (preorder v)).
Proof. unfold count_where. rewrite (proj1 (traverse_preorder v)). reflexivity. Qed.

Theorem value_volume_spec : forall v, value_volume v = length (filter is_value_fragment (preorder v)).
Proof. intros v. apply count_where_spec. Qed.

(* ================================================================== *)
(* 2. get_fragment                                                    *)
(* ================================================================== *)

(* the two inner loops of get_fragment, as standalone functions *)
Fixpoint get_arr_fragment (a : list value) (index : nat) : fragment + nat :=
  match a with
  | [] => inr index
  | x :: r => match get_fragment x index with
              | inl f => inl f
              | inr j => get_arr_fragment r j
              end
  end.

Fixpoint get_obj_fragment (o : list (list N * value)) (index : nat) : fragment + nat :=
  match o with
  | [] => inr index
  | (k, x) :: r =>
      match index with
      | O => inl (FEntry k x)
      | S O => inl (FKey k)
      | S (S j) => match get_fragment x j with
                   | inl f => inl f
                   | inr j' => get_obj_fragment r j'
                   end
      end
  end.

Lemma get_fragment_arr a i : get_fragment (VArr a) (S i) = get_arr_fragment a i.
Proof. reflexivity. Qed.
Lemma get_fragment_obj o i : get_fragment (VObj o) (S i) = get_obj_fragment o i.
Proof. reflexivity. Qed.

Definition nth_or_rest (l : list fragment) (i : nat) : fragment + nat :=
  match nth_error l i with Some f => inl f | None => inr (i - length l) end.

Lemma nth_or_rest_cons a l i : nth_or_rest (a :: l) (S i) = nth_or_rest l i.
Proof. reflexivity. Qed.

Lemma nth_or_rest_app_l l1 l2 i f :
  nth_or_rest l1 i = inl f -> nth_or_rest (l1 ++ l2) i = inl f.
Proof.
  unfold nth_or_rest. destruct (nth_error l1 i) eqn:E; [|discriminate].
  intros H. rewrite nth_error_app1 by (apply nth_error_Some; congruence).
  rewrite E. exact H.
Qed.

Lemma nth_or_rest_app_r l1 l2 i j :
  nth_or_rest l1 i = inr j -> nth_or_rest (l1 ++ l2) i = nth_or_rest l2 j.
Proof.
  unfold nth_or_rest. destruct (nth_error l1 i) eqn:E; [discriminate|].
  intros H. injection H as <-. apply nth_error_None in E.
  rewrite nth_error_app2 by exact E. rewrite app_length.
  destruct (nth_error l2 (i - length l1)); [reflexivity|]. f_equal. lia.
Qed.

Lemma get_fragment_nth : forall v i, get_fragment v i = nth_or_rest (preorder v) i.
Proof.
  induction v as [| b | s | s | l IH | l IH] using value_ind'; intros [|i];
    try reflexivity;
    try (cbn [get_fragment preorder]; unfold nth_or_rest; cbn [nth_error length];
         destruct i; cbn [nth_error]; f_equal; lia).
  - rewrite get_fragment_arr. cbn [preorder]. unfold nth_or_rest at 1. cbn [nth_error length].
    change (get_arr_fragment l i = nth_or_rest (flat_map preorder l) i).
    revert i. induction IH as [|x l Hx _ IHl]; intros i.
    + unfold nth_or_rest. cbn. destruct i; cbn; f_equal; lia.
    + cbn [get_arr_fragment flat_map]. rewrite Hx.
      destruct (nth_or_rest (preorder x) i) as [f|j] eqn:E.
      * symmetry. apply nth_or_rest_app_l. exact E.
      * rewrite IHl. symmetry. apply nth_or_rest_app_r. exact E.
  - rewrite get_fragment_obj. cbn [preorder]. unfold nth_or_rest at 1. cbn [nth_error length].
    change (get_obj_fragment l i =
            nth_or_rest (flat_map (fun e => FEntry (fst e) (snd e) :: FKey (fst e) :: preorder (snd e)) l) i).
    revert i. induction IH as [|[k x] l Hx _ IHl]; intros i.
    + unfold nth_or_rest. cbn. destruct i; cbn; f_equal; lia.
    + cbn [get_obj_fragment flat_map fst snd] in *.
      destruct i as [|[|i]]; try reflexivity.
      rewrite Hx.
      cbn [app]. rewrite !nth_or_rest_cons.
      destruct (nth_or_rest (preorder x) i) as [f|j] eqn:E.
      * symmetry. apply nth_or_rest_app_l. exact E.
      * rewrite IHl. symmetry. apply nth_or_rest_app_r. exact E.
Qed.

Theorem get_fragment_spec : forall v i,
  get_fragment v i = match nth_error (preorder v) i with
                     | Some f => inl f
                     | None => inr (i - length (preorder v))
                     end.
Proof. exact get_fragment_nth. Qed.

(* ================================================================== *)
(* 3. alignment of a code map with a list of volumes                  *)
(* ================================================================== *)

Definition aligned (cm : list cme) (off : nat) (l : list nat) : Prop :=
  forall i, i < length l -> volume_at cm (off + i) = nth_error l i.

Lemma shaped_aligned cm off v : shaped cm off v <-> aligned cm off (volumes v).
Proof. reflexivity. Qed.

Lemma aligned_app cm off l1 l2 :
  aligned cm off (l1 ++ l2) -> aligned cm off l1 /\ aligned cm (off + length l1) l2.
Proof.
  intros H. split; intros i Hi.
  - rewrite H by (rewrite app_length; lia). apply nth_error_app1. exact Hi.
  - rewrite <- Nat.add_assoc. rewrite H by (rewrite app_length; lia).
    rewrite nth_error_app2 by lia. f_equal. lia.
Qed.

Lemma aligned_cons cm off n l :
  aligned cm off (n :: l) -> volume_at cm off = Some n /\ aligned cm (off + 1) l.
Proof.
  intros H. apply (aligned_app cm off [n] l) in H. destruct H as [H1 H2]. split; [|exact H2].
  specialize (H1 0). rewrite Nat.add_0_r in H1. apply H1. cbn. lia.
Qed.

Lemma preorder_head v : exists r, preorder v = FValue v :: r.
Proof. destruct v; eexists; reflexivity. Qed.

Lemma volumes_head v : exists r, volumes v = length (preorder v) :: r.
Proof. destruct v; eexists; reflexivity. Qed.

Lemma volumes_length : forall v, length (volumes v) = length (preorder v).
Proof.
  induction v as [| b | s | s | l IH | l IH] using value_ind'; try reflexivity.
  - cbn [volumes preorder length]. f_equal.
    induction IH as [|x l Hx _ IHl]; [reflexivity|].
    cbn [flat_map]. rewrite !app_length, Hx, IHl. reflexivity.
  - cbn [volumes preorder length]. f_equal.
    induction IH as [|x l Hx _ IHl]; [reflexivity|].
    cbn [flat_map length app]. rewrite !app_length, Hx, IHl. reflexivity.
Qed.

Lemma aligned_head cm off v :
  aligned cm off (volumes v) -> volume_at cm off = Some (length (preorder v)).
Proof.
  destruct (volumes_head v) as [r ->]. intros H. apply aligned_cons in H. apply H.
Qed.

(* partial sums *)
Definition psum {A} (f : A -> nat) (l : list A) (j : nat) : nat := list_sum (map f (firstn j l)).

Lemma psum_0 {A} (f : A -> nat) l : psum f l 0 = 0.
Proof. reflexivity. Qed.
Lemma psum_cons_S {A} (f : A -> nat) x l j : psum f (x :: l) (S j) = f x + psum f l j.
Proof. reflexivity. Qed.
Lemma psum_S {A} (f : A -> nat) : forall l j x,
  nth_error l j = Some x -> psum f l (S j) = psum f l j + f x.
Proof.
  induction l as [|y l IH]; intros [|j] x H; cbn [nth_error] in H; try discriminate.
  - injection H as ->. unfold psum. cbn. lia.
  - rewrite !psum_cons_S, (IH _ _ H). lia.
Qed.
Lemma psum_le {A} (f : A -> nat) : forall l j j', j <= j' -> psum f l j <= psum f l j'.
Proof.
  induction l as [|y l IH]; intros j j' H.
  - unfold psum. rewrite !firstn_nil. lia.
  - destruct j as [|j]; [rewrite psum_0; lia|]. destruct j' as [|j']; [lia|].
    rewrite !psum_cons_S. specialize (IH j j'). lia.
Qed.

Notation vlen := (fun x : value => length (preorder x)).
Notation evol := (fun e : entry => 2 + length (preorder (snd e))).
Notation evolumes := (fun e : key * value => (2 + length (preorder (snd e))) :: 1 :: volumes (snd e)).
Notation epreorder := (fun e : key * value => FEntry (fst e) (snd e) :: FKey (fst e) :: preorder (snd e)).

Lemma item_offset_psum items j : item_offset items j = 1 + psum vlen items j.
Proof. reflexivity. Qed.
Lemma entry_offset_psum es j : entry_offset es j = 1 + psum evol es j.
Proof. reflexivity. Qed.

Lemma nth_error_seq : forall len start j, j < len -> nth_error (seq start len) j = Some (start + j).
Proof.
  induction len as [|len IH]; intros start [|j] H; try lia; cbn [seq nth_error].
  - f_equal. lia.
  - rewrite IH by lia. f_equal. lia.
Qed.

Lemma nth_error_combine {A B} : forall (l1 : list A) (l2 : list B) j a b,
  nth_error l1 j = Some a -> nth_error l2 j = Some b -> nth_error (combine l1 l2) j = Some (a, b).
Proof.
  induction l1 as [|x l1 IH]; intros [|y l2] [|j] a b H1 H2; cbn in *; try discriminate.
  - congruence.
  - apply IH; assumption.
Qed.

Lemma combine_seq_shift {B} : forall (r : list B) a,
  combine (seq (S a) (length r)) r = map (fun p => (S (fst p), snd p)) (combine (seq a (length r)) r).
Proof.
  induction r as [|y r IH]; intros a; [reflexivity|].
  cbn [length seq combine map fst snd]. f_equal. apply IH.
Qed.

(* ================================================================== *)
(* 4. JsonArray::iter_mapped                                          *)
(* ================================================================== *)

Lemma array_iter_from_spec cm : forall items off,
  aligned cm off (flat_map volumes items) ->
  array_iter_mapped_from cm off items =
  Some (combine (map (fun j => off + psum vlen items j) (seq 0 (length items))) items).
Proof.
  induction items as [|x r IH]; intros off H; [reflexivity|].
  cbn [array_iter_mapped_from flat_map] in *.
  apply aligned_app in H. destruct H as [Hx Hr].
  rewrite (aligned_head _ _ _ Hx). rewrite volumes_length in Hr. rewrite (IH _ Hr).
  cbn [length seq map combine]. rewrite psum_0, Nat.add_0_r. do 3 f_equal.
  rewrite <- seq_shift, map_map. apply map_ext. intros j. rewrite psum_cons_S. lia.
Qed.

Lemma nth_flat_preorder : forall items j x,
  nth_error items j = Some x ->
  nth_error (flat_map preorder items) (psum vlen items j) = Some (FValue x).
Proof.
  induction items as [|y items IH]; intros [|j] x H; cbn [nth_error] in H; try discriminate.
  - injection H as ->. rewrite psum_0. cbn [flat_map].
    destruct (preorder_head x) as [r ->]. reflexivity.
  - rewrite psum_cons_S. cbn [flat_map]. rewrite nth_error_app2 by lia.
    replace (length (preorder y) + psum vlen items j - length (preorder y)) with (psum vlen items j) by lia.
    apply IH. exact H.
Qed.

Lemma aligned_item cm : forall items off j x,
  aligned cm off (flat_map volumes items) -> nth_error items j = Some x ->
  aligned cm (off + psum vlen items j) (volumes x).
Proof.
  induction items as [|y items IH]; intros off [|j] x H Hn; cbn [nth_error] in Hn; try discriminate;
    cbn [flat_map] in H; apply aligned_app in H; destruct H as [Hx Hr].
  - injection Hn as ->. rewrite psum_0, Nat.add_0_r. exact Hx.
  - rewrite psum_cons_S, Nat.add_assoc. rewrite volumes_length in Hr. apply IH; assumption.
Qed.

Lemma shaped_arr cm off items :
  shaped cm off (VArr items) -> aligned cm (off + 1) (flat_map volumes items).
Proof.
  unfold shaped. cbn [volumes]. intros H. apply aligned_cons in H. apply H.
Qed.

Lemma shaped_obj cm off es :
  shaped cm off (VObj es) -> aligned cm (off + 1) (flat_map evolumes es).
Proof.
  unfold shaped. cbn [volumes]. intros H. apply aligned_cons in H. apply H.
Qed.

Lemma array_iter_mapped_eq cm off items :
  shaped cm off (VArr items) -> array_iter_mapped cm off items = Some (mapped_items off items).
Proof.
  intros H. unfold array_iter_mapped, mapped_items.
  rewrite array_iter_from_spec by (apply shaped_arr; exact H).
  do 2 f_equal. apply map_ext. intros j. rewrite item_offset_psum. lia.
Qed.

Lemma nth_error_mapped_items off items j x :
  nth_error items j = Some x ->
  nth_error (mapped_items off items) j = Some (off + item_offset items j, x).
Proof.
  intros H. unfold mapped_items. apply nth_error_combine; [|exact H].
  apply map_nth_error with (f := fun j => off + item_offset items j).
  apply (nth_error_seq (length items) 0 j). apply nth_error_Some. congruence.
Qed.

Lemma item_in_preorder items j x :
  nth_error items j = Some x ->
  nth_error (preorder (VArr items)) (item_offset items j) = Some (FValue x).
Proof.
  intros H. rewrite item_offset_psum. cbn [preorder Nat.add nth_error].
  apply nth_flat_preorder. exact H.
Qed.

Lemma shaped_item cm off items j x :
  shaped cm off (VArr items) -> nth_error items j = Some x ->
  shaped cm (off + item_offset items j) x.
Proof.
  intros H Hn. apply shaped_aligned. rewrite item_offset_psum, Nat.add_assoc.
  apply aligned_item; [apply shaped_arr; exact H | exact Hn].
Qed.

Theorem array_iter_mapped_spec : forall cm off items,
  shaped cm off (VArr items) ->
  array_iter_mapped cm off items = Some (mapped_items off items) /\
  length (mapped_items off items) = length items /\
  forall j x, nth_error items j = Some x ->
    nth_error (mapped_items off items) j = Some (off + item_offset items j, x) /\
    nth_error (preorder (VArr items)) (item_offset items j) = Some (FValue x) /\
    shaped cm (off + item_offset items j) x.
Proof.
  intros cm off items H. split; [apply array_iter_mapped_eq; exact H|]. split.
  - unfold mapped_items. rewrite combine_length, map_length, seq_length. lia.
  - intros j x Hn. split; [apply nth_error_mapped_items; exact Hn|]. split.
    + apply item_in_preorder. exact Hn.
    + eapply shaped_item; eassumption.
Qed.

(* ================================================================== *)
(* 5. Object::iter_mapped                                             *)
(* ================================================================== *)

Definition mk_mapped (o : nat) (e : entry) : mapped_entry :=
  {| me_offset := o; me_key_offset := o + 1; me_value_offset := o + 2; me_entry := e |}.

Lemma mapped_entry_at_mk off es j e :
  mapped_entry_at off es j e = mk_mapped (off + entry_offset es j) e.
Proof. reflexivity. Qed.

(* the volume cell read by the object iterators: the value of entry j *)
Lemma aligned_entry cm : forall es off j e,
  aligned cm off (flat_map evolumes es) -> nth_error es j = Some e ->
  aligned cm (off + psum evol es j + 2) (volumes (snd e)).
Proof.
  induction es as [|y es IH]; intros off [|j] e H Hn; cbn [nth_error] in Hn; try discriminate;
    cbn [flat_map] in H; apply aligned_app in H; destruct H as [Hx Hr].
  - injection Hn as ->. rewrite psum_0, Nat.add_0_r.
    apply aligned_cons in Hx. destruct Hx as [_ Hx].
    apply aligned_cons in Hx. destruct Hx as [_ Hx].
    replace (off + 2) with (off + 1 + 1) by lia. exact Hx.
  - rewrite psum_cons_S. cbn [length] in Hr. rewrite volumes_length in Hr.
    replace (off + (2 + length (preorder (snd y)) + psum evol es j) + 2)
      with (off + S (S (length (preorder (snd y)))) + psum evol es j + 2) by lia.
    apply IH; assumption.
Qed.

Lemma volume_at_entry cm es off j e :
  aligned cm off (flat_map evolumes es) -> nth_error es j = Some e ->
  volume_at cm (off + psum evol es j + 2) = Some (length (preorder (snd e))).
Proof. intros H Hn. apply aligned_head. eapply aligned_entry; eassumption. Qed.

Lemma object_iter_from_spec cm : forall es off,
  aligned cm off (flat_map evolumes es) ->
  object_iter_mapped_from cm off es =
  Some (map (fun p => mk_mapped (off + psum evol es (fst p)) (snd p)) (combine (seq 0 (length es)) es)).
Proof.
  induction es as [|e r IH]; intros off H; [reflexivity|].
  cbn [object_iter_mapped_from].
  pose proof (volume_at_entry cm (e :: r) off 0 e H eq_refl) as Hv.
  rewrite psum_0, Nat.add_0_r in Hv. rewrite Hv.
  cbn [flat_map] in H. apply aligned_app in H. destruct H as [_ Hr].
  cbn [length] in Hr. rewrite volumes_length in Hr.
  replace (off + S (S (length (preorder (snd e))))) with (off + 2 + length (preorder (snd e))) in Hr by lia.
  rewrite (IH _ Hr).
  cbn [length seq combine map fst snd]. rewrite psum_0, Nat.add_0_r. unfold mk_mapped at 2.
  do 2 f_equal. rewrite combine_seq_shift, map_map. apply map_ext. intros [j e']. cbn [fst snd].
  rewrite psum_cons_S. f_equal. lia.
Qed.

Lemma object_iter_mapped_eq cm off es :
  shaped cm off (VObj es) -> object_iter_mapped cm off es = Some (mapped_entries off es).
Proof.
  intros H. unfold object_iter_mapped, mapped_entries.
  rewrite object_iter_from_spec by (apply shaped_obj; exact H).
  f_equal. apply map_ext. intros [j e]. cbn [fst snd].
  rewrite mapped_entry_at_mk, entry_offset_psum. f_equal. lia.
Qed.

Lemma nth_error_mapped_entries off es j e :
  nth_error es j = Some e ->
  nth_error (mapped_entries off es) j = Some (mapped_entry_at off es j e).
Proof.
  intros H. unfold mapped_entries.
  apply map_nth_error with (f := fun p => mapped_entry_at off es (fst p) (snd p)) (d := (j, e)).
  apply nth_error_combine; [|exact H].
  apply (nth_error_seq (length es) 0 j). apply nth_error_Some. congruence.
Qed.

Lemma nth_flat_epreorder : forall es j e,
  nth_error es j = Some e ->
  nth_error (flat_map epreorder es) (psum evol es j) = Some (FEntry (fst e) (snd e)) /\
  nth_error (flat_map epreorder es) (psum evol es j + 1) = Some (FKey (fst e)) /\
  nth_error (flat_map epreorder es) (psum evol es j + 2) = Some (FValue (snd e)).
Proof.
  induction es as [|y es IH]; intros [|j] e H; cbn [nth_error] in H; try discriminate.
  - injection H as ->. rewrite psum_0. cbn [flat_map Nat.add app nth_error].
    destruct (preorder_head (snd e)) as [r ->]. repeat split; reflexivity.
  - rewrite psum_cons_S. cbn [flat_map].
    specialize (IH _ _ H). destruct IH as (I1 & I2 & I3).
    repeat split.
    + rewrite nth_error_app2 by (cbn [length]; lia).
      rewrite <- I1. f_equal. cbn [length]. lia.
    + rewrite nth_error_app2 by (cbn [length]; lia).
      rewrite <- I2. f_equal. cbn [length]. lia.
    + rewrite nth_error_app2 by (cbn [length]; lia).
      rewrite <- I3. f_equal. cbn [length]. lia.
Qed.

Lemma entry_in_preorder es j e :
  nth_error es j = Some e ->
  nth_error (preorder (VObj es)) (entry_offset es j) = Some (FEntry (fst e) (snd e)) /\
  nth_error (preorder (VObj es)) (entry_offset es j + 1) = Some (FKey (fst e)) /\
  nth_error (preorder (VObj es)) (entry_offset es j + 2) = Some (FValue (snd e)).
Proof.
  intros H. rewrite entry_offset_psum. cbn [preorder Nat.add nth_error].
  apply nth_flat_epreorder. exact H.
Qed.

Lemma shaped_entry_value cm off es j e :
  shaped cm off (VObj es) -> nth_error es j = Some e ->
  shaped cm (off + entry_offset es j + 2) (snd e).
Proof.
  intros H Hn. apply shaped_aligned. rewrite entry_offset_psum, Nat.add_assoc.
  apply aligned_entry; [apply shaped_obj; exact H | exact Hn].
Qed.

Theorem object_iter_mapped_spec : forall cm off es,
  shaped cm off (VObj es) ->
  object_iter_mapped cm off es = Some (mapped_entries off es) /\
  length (mapped_entries off es) = length es /\
  forall j k x, nth_error es j = Some (k, x) ->
    nth_error (mapped_entries off es) j =
      Some {| me_offset := off + entry_offset es j;
              me_key_offset := off + entry_offset es j + 1;
              me_value_offset := off + entry_offset es j + 2;
              me_entry := (k, x) |} /\
    nth_error (preorder (VObj es)) (entry_offset es j) = Some (FEntry k x) /\
    nth_error (preorder (VObj es)) (entry_offset es j + 1) = Some (FKey k) /\
    nth_error (preorder (VObj es)) (entry_offset es j + 2) = Some (FValue x) /\
    shaped cm (off + entry_offset es j + 2) x.
Proof.
  intros cm off es H. split; [apply object_iter_mapped_eq; exact H|]. split.
  - unfold mapped_entries. rewrite map_length, combine_length, seq_length. apply Nat.min_id.
  - intros j k x Hn. split; [apply (nth_error_mapped_entries off es j (k, x) Hn)|].
    destruct (entry_in_preorder es j (k, x) Hn) as (I1 & I2 & I3). cbn [fst snd] in *.
    repeat split; try assumption.
    apply (shaped_entry_value cm off es j (k, x) H Hn).
Qed.

(* ================================================================== *)
(* 6. keyed lookups (mapped_entries_iter!)                            *)
(* ================================================================== *)

Lemma advance_spec cm (es : list entry) base : aligned cm base (flat_map evolumes es) ->
  forall n j, j + n <= length es ->
  advance cm n (base + psum evol es j) = Some (base + psum evol es (j + n)).
Proof.
  intros Hal. induction n as [|n IH]; intros j Hj.
  - rewrite Nat.add_0_r. reflexivity.
  - cbn [advance].
    destruct (nth_error es j) as [e|] eqn:En; [|apply nth_error_None in En; lia].
    rewrite (volume_at_entry cm es base j e Hal En).
    replace (base + psum evol es j + 2 + length (preorder (snd e))) with (base + psum evol es (S j))
      by (rewrite (psum_S evol es j e En); lia).
    rewrite IH by lia. do 3 f_equal. lia.
Qed.

Definition lookup_from (base : nat) (es : list entry) (is : list nat) : list (nat * mapped_entry) :=
  flat_map (fun j => match nth_error es j with
                     | Some e => [(j, mk_mapped (base + psum evol es j) e)]
                     | None => []
                     end) is.

Lemma mapped_lookup_loop_spec cm (es : list entry) base : aligned cm base (flat_map evolumes es) ->
  forall is last,
  Forall (fun i => last <= i /\ i < length es) is -> StronglySorted lt is ->
  mapped_lookup_loop cm es is (base + psum evol es last) last = Some (lookup_from base es is).
Proof.
  intros Hal. induction is as [|index r IH]; intros last Hb Hs; [reflexivity|].
  inversion Hb as [|? ? [Hlo Hhi] Hb']; subst. inversion Hs as [|? ? Hs' Hlt]; subst.
  cbn [mapped_lookup_loop].
  rewrite (advance_spec cm es base Hal) by lia.
  replace (last + (index - last)) with index by lia.
  rewrite (Nat.max_r last index) by lia.
  destruct (nth_error es index) as [e|] eqn:En; [|apply nth_error_None in En; lia].
  rewrite IH; [| |exact Hs'].
  - unfold lookup_from. cbn [flat_map]. rewrite En. reflexivity.
  - rewrite Forall_forall in *. intros i Hi. specialize (Hb' i Hi). specialize (Hlt i Hi). lia.
Qed.

Lemma lookup_from_mapped off (es : list entry) is : lookup_from (off + 1) es is = lookup_mapped off es is.
Proof.
  unfold lookup_from, lookup_mapped. apply flat_map_ext. intros j.
  destruct (nth_error es j) as [e|]; [|reflexivity].
  rewrite mapped_entry_at_mk, entry_offset_psum. do 3 f_equal. lia.
Qed.

(* the explicit result lists exactly the index positions with iter_mapped's entries *)
Lemma lookup_mapped_char off (es : list entry) : forall is,
  Forall (fun j => j < length es) is ->
  map fst (lookup_mapped off es is) = is /\
  map (fun p => Some (snd p)) (lookup_mapped off es is) = map (nth_error (mapped_entries off es)) is.
Proof.
  induction is as [|j r IH]; intros Hb; [split; reflexivity|].
  inversion Hb as [|? ? Hj Hb']; subst. destruct (IH Hb') as [I1 I2].
  unfold lookup_mapped in *. cbn [flat_map map].
  destruct (nth_error es j) as [e|] eqn:En; [|apply nth_error_None in En; lia].
  cbn [app map fst snd]. rewrite I1, I2, (nth_error_mapped_entries off es j e En). split; reflexivity.
Qed.

Theorem mapped_lookup_spec : forall cm off o k is,
  shaped cm off (VObj (entries o)) ->
  indexes_of o k = Some is ->
  StronglySorted lt is -> Forall (fun j => j < length (entries o)) is ->
  get_mapped_entries_with_index cm off o k = Some (lookup_mapped off (entries o) is) /\
  map fst (lookup_mapped off (entries o) is) = is /\
  map (fun p => Some (snd p)) (lookup_mapped off (entries o) is)
    = map (nth_error (mapped_entries off (entries o))) is.
Proof.
  intros cm off o k is Hsh Hidx Hs Hb. split; [|apply lookup_mapped_char; exact Hb].
  unfold get_mapped_entries_with_index. rewrite Hidx.
  replace (off + 1) with (off + 1 + psum evol (entries o) 0) by (rewrite psum_0; lia).
  rewrite (mapped_lookup_loop_spec cm (entries o) (off + 1) (shaped_obj _ _ _ Hsh)); [| |exact Hs].
  - rewrite lookup_from_mapped. reflexivity.
  - rewrite Forall_forall in *. intros i Hi. specialize (Hb i Hi). lia.
Qed.

(* the index list of the multimap specification is strictly increasing and in range *)
Lemma positions_from_sorted k : forall es i,
  StronglySorted lt (positions_from i es k) /\
  Forall (fun j => i <= j /\ j < i + length es) (positions_from i es k).
Proof.
  induction es as [|e r IH]; intros i; [split; constructor|].
  destruct (IH (S i)) as [Hs Hb]. cbn [positions_from length].
  assert (Hb' : Forall (fun j => i <= j /\ j < i + S (length r)) (positions_from (S i) r k)).
  { rewrite Forall_forall in *. intros j Hj. specialize (Hb j Hj). lia. }
  destruct (has_key k e).
  - split.
    + constructor; [exact Hs|]. rewrite Forall_forall in *. intros j Hj. specialize (Hb j Hj). lia.
    + constructor; [lia|exact Hb'].
  - split; assumption.
Qed.

Lemma m_indexes_of_sorted es k :
  StronglySorted lt (m_indexes_of es k) /\ Forall (fun j => j < length es) (m_indexes_of es k).
Proof.
  unfold m_indexes_of. destruct (positions_from_sorted k es 0) as [Hs Hb]. split; [exact Hs|].
  rewrite Forall_forall in *. intros j Hj. specialize (Hb j Hj). lia.
Qed.

(* composition with the object invariant (proved elsewhere):
   indexes_of o k = Some (m_indexes_of (entries o) k) *)
Corollary mapped_lookup_multimap : forall cm off o k,
  shaped cm off (VObj (entries o)) ->
  indexes_of o k = Some (m_indexes_of (entries o) k) ->
  get_mapped_entries_with_index cm off o k
    = Some (lookup_mapped off (entries o) (m_indexes_of (entries o) k)).
Proof.
  intros cm off o k Hsh Hidx. destruct (m_indexes_of_sorted (entries o) k) as [Hs Hb].
  apply (mapped_lookup_spec cm off o k _ Hsh Hidx Hs Hb).
Qed.

(* ================================================================== *)
(* 7. TryFromJson                                                     *)
(* ================================================================== *)

(* the two inner loops of try_from_json_at, as standalone functions *)
Definition try_items (f : value -> nat -> option (option conv_err)) :=
  fix go (l : list (nat * value)) : option (option conv_err) :=
    match l with
    | [] => Some None
    | (off, x) :: r => match f x off with
                       | Some None => go r
                       | other => other
                       end
    end.

Definition try_entries (f : value -> nat -> option (option conv_err)) :=
  fix go (l : list mapped_entry) : option (option conv_err) :=
    match l with
    | [] => Some None
    | m :: r => match f (snd (me_entry m)) (me_value_offset m) with
                | Some None => go r
                | other => other
                end
    end.

Lemma try_from_vec t' cm items offset :
  try_from_json_at (TVec t') cm (VArr items) offset =
  match array_iter_mapped cm offset items with
  | None => None
  | Some l => try_items (try_from_json_at t' cm) l
  end.
Proof. reflexivity. Qed.

Lemma try_from_map t' cm es offset :
  try_from_json_at (TMap t') cm (VObj es) offset =
  match object_iter_mapped cm offset es with
  | None => None
  | Some l => try_entries (try_from_json_at t' cm) l
  end.
Proof. reflexivity. Qed.

(* a recursive, stack- and code-map-free description of the reported error:
   (index in the pre-order of v, expected kind, found kind) *)
Definition rel_err := (nat * kind * kind)%type.

Definition shift_err (off : nat) (r : option rel_err) : option conv_err :=
  match r with
  | None => None
  | Some (i, e, f) => Some (off + i, e, f)
  end.

Definition first_in_items (fm : value -> option rel_err) :=
  fix go (base : nat) (items : list value) : option rel_err :=
    match items with
    | [] => None
    | x :: r => match fm x with
                | Some (i, e, f) => Some (base + i, e, f)
                | None => go (base + length (preorder x)) r
                end
    end.

Definition first_in_entries (fm : value -> option rel_err) :=
  fix go (base : nat) (es : list entry) : option rel_err :=
    match es with
    | [] => None
    | en :: r => match fm (snd en) with
                 | Some (i, e, f) => Some (base + 2 + i, e, f)
                 | None => go (base + (2 + length (preorder (snd en)))) r
                 end
    end.

Fixpoint first_mismatch (t : jty) (v : value) : option rel_err :=
  match t with
  | TUnit => match v with VNull => None | _ => Some (0, KNull, kind_of v) end
  | TBool => match v with VBool _ => None | _ => Some (0, KBoolean, kind_of v) end
  | TString => match v with VStr _ => None | _ => Some (0, KString, kind_of v) end
  | TNumber => match v with VNum _ => None | _ => Some (0, KNumber, kind_of v) end
  | TOption t' => match v with VNull => None | _ => first_mismatch t' v end
  | TVec t' => match v with
               | VArr items => first_in_items (first_mismatch t') 1 items
               | _ => Some (0, KArray, kind_of v)
               end
  | TMap t' => match v with
               | VObj es => first_in_entries (first_mismatch t') 1 es
               | _ => Some (0, KObject, kind_of v)
               end
  end.

Section TryLoops.
  Context (cm : list cme) (f : value -> nat -> option (option conv_err)) (fm : value -> option rel_err).
  Context (Hf : forall x o, shaped cm o x -> f x o = Some (shift_err o (fm x))).

  Lemma try_items_from : forall items off base,
    aligned cm (off + base) (flat_map volumes items) ->
    match array_iter_mapped_from cm (off + base) items with
    | None => None
    | Some l => try_items f l
    end = Some (shift_err off (first_in_items fm base items)).
  Proof.
    induction items as [|x r IH]; intros off base H; [reflexivity|].
    cbn [array_iter_mapped_from flat_map first_in_items] in *.
    apply aligned_app in H. destruct H as [Hx Hr].
    rewrite (aligned_head _ _ _ Hx). rewrite volumes_length in Hr.
    rewrite <- Nat.add_assoc in *. specialize (IH off _ Hr).
    destruct (array_iter_mapped_from cm (off + (base + length (preorder x))) r) as [l|];
      [|discriminate].
    cbn [try_items]. rewrite (Hf x _ Hx).
    destruct (fm x) as [[[i e] fd]|]; cbn [shift_err].
    - do 4 f_equal. lia.
    - exact IH.
  Qed.

  Lemma try_entries_from : forall (es : list entry) off base,
    aligned cm (off + base) (flat_map evolumes es) ->
    match object_iter_mapped_from cm (off + base) es with
    | None => None
    | Some l => try_entries f l
    end = Some (shift_err off (first_in_entries fm base es)).
  Proof.
    induction es as [|en r IH]; intros off base H; [reflexivity|].
    cbn [object_iter_mapped_from first_in_entries].
    pose proof (aligned_entry cm (en :: r) (off + base) 0 en H eq_refl) as Hx.
    rewrite psum_0, Nat.add_0_r in Hx. rewrite (aligned_head _ _ _ Hx).
    cbn [flat_map] in H. apply aligned_app in H. destruct H as [_ Hr].
    cbn [length] in Hr. rewrite volumes_length in Hr.
    replace (off + base + S (S (length (preorder (snd en)))))
      with (off + (base + (2 + length (preorder (snd en))))) in Hr by lia.
    specialize (IH off _ Hr).
    replace (off + base + 2 + length (preorder (snd en)))
      with (off + (base + (2 + length (preorder (snd en))))) by lia.
    destruct (object_iter_mapped_from cm (off + (base + (2 + length (preorder (snd en))))) r) as [l|];
      [|discriminate].
    cbn [try_entries me_entry me_value_offset]. rewrite (Hf (snd en) _ Hx).
    destruct (fm (snd en)) as [[[i e] fd]|]; cbn [shift_err].
    - do 4 f_equal. lia.
    - exact IH.
  Qed.
End TryLoops.

(* the model computes the recursive description, and never panics, on a shaped code map *)
Lemma try_from_refines : forall t cm v off,
  shaped cm off v -> try_from_json_at t cm v off = Some (shift_err off (first_mismatch t v)).
Proof.
  induction t as [| | | | t' IH | t' IH | t' IH]; intros cm v off Hsh.
  - destruct v; cbn [try_from_json_at first_mismatch shift_err]; rewrite ?Nat.add_0_r; reflexivity.
  - destruct v; cbn [try_from_json_at first_mismatch shift_err]; rewrite ?Nat.add_0_r; reflexivity.
  - destruct v; cbn [try_from_json_at first_mismatch shift_err]; rewrite ?Nat.add_0_r; reflexivity.
  - destruct v; cbn [try_from_json_at first_mismatch shift_err]; rewrite ?Nat.add_0_r; reflexivity.
  - destruct v; cbn [try_from_json_at first_mismatch]; try (apply IH; exact Hsh). reflexivity.
  - destruct v as [| b | s | s | items | es];
      try (cbn [try_from_json_at first_mismatch shift_err]; rewrite ?Nat.add_0_r; reflexivity).
    rewrite try_from_vec. unfold array_iter_mapped. cbn [first_mismatch].
    apply try_items_from.
    + intros x o Hx. apply IH. exact Hx.
    + apply shaped_arr. exact Hsh.
  - destruct v as [| b | s | s | items | es];
      try (cbn [try_from_json_at first_mismatch shift_err]; rewrite ?Nat.add_0_r; reflexivity).
    rewrite try_from_map. unfold object_iter_mapped. cbn [first_mismatch].
    apply try_entries_from.
    + intros x o Hx. apply IH. exact Hx.
    + apply shaped_obj. exact Hsh.
Qed.

(* ---- the recursive description reports a genuine, and the first, offending fragment ---- *)

Lemma nth_flat_preorder_sub : forall items j x i f,
  nth_error items j = Some x -> nth_error (preorder x) i = Some f ->
  nth_error (flat_map preorder items) (psum vlen items j + i) = Some f.
Proof.
  induction items as [|y items IH]; intros [|j] x i f H Hi; cbn [nth_error] in H; try discriminate.
  - injection H as ->. rewrite psum_0. cbn [flat_map Nat.add].
    rewrite nth_error_app1 by (apply nth_error_Some; congruence). exact Hi.
  - rewrite psum_cons_S. cbn [flat_map]. rewrite nth_error_app2 by lia.
    replace (length (preorder y) + psum vlen items j + i - length (preorder y))
      with (psum vlen items j + i) by lia.
    eapply IH; eassumption.
Qed.

Lemma nth_flat_epreorder_sub : forall (es : list entry) j en i f,
  nth_error es j = Some en -> nth_error (preorder (snd en)) i = Some f ->
  nth_error (flat_map epreorder es) (psum evol es j + 2 + i) = Some f.
Proof.
  induction es as [|y es IH]; intros [|j] en i f H Hi; cbn [nth_error] in H; try discriminate.
  - injection H as ->. rewrite psum_0. cbn [flat_map Nat.add app nth_error].
    rewrite nth_error_app1 by (apply nth_error_Some; congruence). exact Hi.
  - rewrite psum_cons_S. cbn [flat_map]. rewrite nth_error_app2 by (cbn [length]; lia).
    erewrite <- (IH j en i f) by eassumption. f_equal. cbn [length]. lia.
Qed.

Lemma sub_in_arr items j x i f :
  nth_error items j = Some x -> nth_error (preorder x) i = Some f ->
  nth_error (preorder (VArr items)) (item_offset items j + i) = Some f.
Proof.
  intros H Hi. rewrite item_offset_psum. cbn [preorder Nat.add nth_error].
  eapply nth_flat_preorder_sub; eassumption.
Qed.

Lemma sub_in_obj (es : list entry) j en i f :
  nth_error es j = Some en -> nth_error (preorder (snd en)) i = Some f ->
  nth_error (preorder (VObj es)) (entry_offset es j + 2 + i) = Some f.
Proof.
  intros H Hi. rewrite entry_offset_psum. cbn [preorder Nat.add nth_error].
  eapply nth_flat_epreorder_sub; eassumption.
Qed.

(* every offending index designates a value fragment of a kind other than the demanded one *)
Lemma offends_sound : forall t v i e,
  offends t v i e -> exists f, nth_error (preorder v) i = Some (FValue f) /\ kind_of f <> e.
Proof.
  induction t as [| | | | t' IH | t' IH | t' IH]; intros v i e H; cbn [offends] in H.
  - destruct H as (-> & -> & H). exists v. destruct (preorder_head v) as [r ->]. split; [reflexivity|exact H].
  - destruct H as (-> & -> & H). exists v. destruct (preorder_head v) as [r ->]. split; [reflexivity|exact H].
  - destruct H as (-> & -> & H). exists v. destruct (preorder_head v) as [r ->]. split; [reflexivity|exact H].
  - destruct H as (-> & -> & H). exists v. destruct (preorder_head v) as [r ->]. split; [reflexivity|exact H].
  - destruct H as [_ H]. apply IH. exact H.
  - destruct v as [| b | s | s | items | es];
      try (destruct H as [-> ->]; eexists; split; [reflexivity|discriminate]).
    destruct H as (j & x & i' & Hn & Ho & ->).
    destruct (IH _ _ _ Ho) as (f & Hf & Hk). exists f. split; [|exact Hk].
    eapply sub_in_arr; eassumption.
  - destruct v as [| b | s | s | items | es];
      try (destruct H as [-> ->]; eexists; split; [reflexivity|discriminate]).
    destruct H as (j & en & i' & Hn & Ho & ->).
    destruct (IH _ _ _ Ho) as (f & Hf & Hk). exists f. split; [|exact Hk].
    eapply sub_in_obj; eassumption.
Qed.

Lemma offends_in_range t v i e : offends t v i e -> i < length (preorder v).
Proof.
  intros H. destruct (offends_sound _ _ _ _ H) as (f & Hf & _).
  apply nth_error_Some. congruence.
Qed.

Lemma first_in_items_spec fm : forall items base,
  match first_in_items fm base items with
  | Some (n, e, fd) =>
      exists j x i, nth_error items j = Some x /\ n = base + psum vlen items j + i
                    /\ fm x = Some (i, e, fd)
                    /\ forall j' x', j' < j -> nth_error items j' = Some x' -> fm x' = None
  | None => forall j x, nth_error items j = Some x -> fm x = None
  end.
Proof.
  induction items as [|x r IH]; intros base; cbn [first_in_items].
  - intros [|j] x H; discriminate.
  - destruct (fm x) as [[[i e] fd]|] eqn:Ex.
    + exists 0, x, i. rewrite psum_0. repeat split; [lia|exact Ex|]. intros j' x' Hj. lia.
    + specialize (IH (base + length (preorder x))).
      destruct (first_in_items fm (base + length (preorder x)) r) as [[[n e] fd]|].
      * destruct IH as (j & x0 & i & Hn & -> & Hx0 & Hbefore).
        exists (S j), x0, i. rewrite psum_cons_S. repeat split; [exact Hn|lia|exact Hx0|].
        intros [|j'] x' Hj Hn'; cbn [nth_error] in Hn'; [congruence|].
        apply (Hbefore j' x'); [lia|exact Hn'].
      * intros [|j] x0 Hn; cbn [nth_error] in Hn; [congruence|]. eapply IH; eassumption.
Qed.

Lemma first_in_entries_spec fm : forall (es : list entry) base,
  match first_in_entries fm base es with
  | Some (n, e, fd) =>
      exists j en i, nth_error es j = Some en /\ n = base + psum evol es j + 2 + i
                     /\ fm (snd en) = Some (i, e, fd)
                     /\ forall j' en', j' < j -> nth_error es j' = Some en' -> fm (snd en') = None
  | None => forall j en, nth_error es j = Some en -> fm (snd en) = None
  end.
Proof.
  induction es as [|x r IH]; intros base; cbn [first_in_entries].
  - intros [|j] en H; discriminate.
  - destruct (fm (snd x)) as [[[i e] fd]|] eqn:Ex.
    + exists 0, x, i. rewrite psum_0. repeat split; [lia|exact Ex|]. intros j' x' Hj. lia.
    + specialize (IH (base + (2 + length (preorder (snd x))))).
      destruct (first_in_entries fm (base + (2 + length (preorder (snd x)))) r) as [[[n e] fd]|].
      * destruct IH as (j & x0 & i & Hn & -> & Hx0 & Hbefore).
        exists (S j), x0, i. rewrite psum_cons_S. repeat split; [exact Hn|lia|exact Hx0|].
        intros [|j'] x' Hj Hn'; cbn [nth_error] in Hn'; [congruence|].
        apply (Hbefore j' x'); [lia|exact Hn'].
      * intros [|j] x0 Hn; cbn [nth_error] in Hn; [congruence|]. eapply IH; eassumption.
Qed.

(* what first_mismatch returns: an offending index, minimal among all offending indexes;
   or nothing when no index offends *)
Definition first_mismatch_ok (t : jty) (v : value) : Prop :=
  match first_mismatch t v with
  | Some (i, e, fd) =>
      offends t v i e /\
      (exists f, nth_error (preorder v) i = Some (FValue f) /\ fd = kind_of f) /\
      (forall i' e', offends t v i' e' -> i <= i')
  | None => forall i e, ~ offends t v i e
  end.

Ltac leaf_ok v :=
  unfold first_mismatch_ok; destruct v; cbn [first_mismatch offends kind_of];
  first [ intros ? ? (_ & _ & H); congruence
        | split; [repeat split; discriminate|]; split; [eexists; split; reflexivity|]; intros; lia ].

Lemma first_mismatch_spec : forall t v, first_mismatch_ok t v.
Proof.
  induction t as [| | | | t' IH | t' IH | t' IH]; intros v.
  - leaf_ok v.
  - leaf_ok v.
  - leaf_ok v.
  - leaf_ok v.
  - unfold first_mismatch_ok. specialize (IH v). unfold first_mismatch_ok in IH.
    destruct v; cbn [first_mismatch offends kind_of] in *;
      try (destruct (first_mismatch t' _) as [[[i e] fd]|];
           [destruct IH as (I1 & I2 & I3); split; [split; [discriminate|exact I1]|];
            split; [exact I2|]; intros i' e' [_ H]; eapply I3; exact H
           | intros i e [_ H]; eapply IH; exact H]).
    intros i e [H _]. congruence.
  - unfold first_mismatch_ok.
    destruct v as [| b | s | s | items | es]; cbn [first_mismatch offends];
      try (split; [split; reflexivity|]; split; [eexists; split; reflexivity|]; intros; lia).
    pose proof (first_in_items_spec (first_mismatch t') items 1) as Hs.
    destruct (first_in_items (first_mismatch t') 1 items) as [[[n e] fd]|].
    + destruct Hs as (j & x & i & Hn & -> & Hx & Hbefore).
      pose proof (IH x) as Ix. unfold first_mismatch_ok in Ix. rewrite Hx in Ix.
      destruct Ix as (I1 & (f & If & ->) & I3).
      split; [exists j, x, i; split; [exact Hn|]; split; [exact I1|]; rewrite item_offset_psum; lia|].
      split; [exists f; split; [|reflexivity];
              replace (1 + psum vlen items j + i) with (item_offset items j + i)
                by (rewrite item_offset_psum; lia);
              eapply sub_in_arr; eassumption|].
      intros i' e' (j' & x' & i'' & Hn' & Ho' & ->). rewrite item_offset_psum.
      destruct (Nat.lt_trichotomy j' j) as [Hlt | [-> | Hgt]].
      * exfalso. pose proof (IH x') as Ix'. unfold first_mismatch_ok in Ix'.
        rewrite (Hbefore j' x' Hlt Hn') in Ix'. eapply Ix'. exact Ho'.
      * assert (x' = x) by congruence. subst x'. specialize (I3 _ _ Ho'). lia.
      * assert (Hi : i < length (preorder x)) by (apply nth_error_Some; congruence).
        pose proof (psum_le vlen items (S j) j' Hgt) as Hle.
        rewrite (psum_S vlen items j x Hn) in Hle. lia.
    + intros i e (j & x & i' & Hn & Ho & _).
      pose proof (IH x) as Ix. unfold first_mismatch_ok in Ix. rewrite (Hs j x Hn) in Ix.
      eapply Ix. exact Ho.
  - unfold first_mismatch_ok.
    destruct v as [| b | s | s | items | es]; cbn [first_mismatch offends];
      try (split; [split; reflexivity|]; split; [eexists; split; reflexivity|]; intros; lia).
    pose proof (first_in_entries_spec (first_mismatch t') es 1) as Hs.
    destruct (first_in_entries (first_mismatch t') 1 es) as [[[n e] fd]|].
    + destruct Hs as (j & x & i & Hn & -> & Hx & Hbefore).
      pose proof (IH (snd x)) as Ix. unfold first_mismatch_ok in Ix. rewrite Hx in Ix.
      destruct Ix as (I1 & (f & If & ->) & I3).
      split; [exists j, x, i; split; [exact Hn|]; split; [exact I1|]; rewrite entry_offset_psum; lia|].
      split; [exists f; split; [|reflexivity];
              replace (1 + psum evol es j + 2 + i) with (entry_offset es j + 2 + i)
                by (rewrite entry_offset_psum; lia);
              eapply sub_in_obj; eassumption|].
      intros i' e' (j' & x' & i'' & Hn' & Ho' & ->). rewrite entry_offset_psum.
      destruct (Nat.lt_trichotomy j' j) as [Hlt | [-> | Hgt]].
      * exfalso. pose proof (IH (snd x')) as Ix'. unfold first_mismatch_ok in Ix'.
        pose proof (Hbefore j' x' Hlt Hn') as Hnone.
        change (first_mismatch t' (snd x') = None) in Hnone.
        rewrite Hnone in Ix'. eapply Ix'. exact Ho'.
      * assert (E : Some x' = Some x) by exact (eq_trans (eq_sym Hn') Hn).
        injection E as ->. specialize (I3 _ _ Ho'). lia.
      * assert (Hi : i < length (preorder (snd x))) by (apply nth_error_Some; congruence).
        pose proof (psum_le evol es (S j) j' Hgt) as Hle.
        rewrite (psum_S evol es j x Hn) in Hle. lia.
    + intros i e (j & x & i' & Hn & Ho & _).
      pose proof (IH (snd x)) as Ix. unfold first_mismatch_ok in Ix.
      pose proof (Hs j x Hn) as Hnone. change (first_mismatch t' (snd x) = None) in Hnone.
      rewrite Hnone in Ix. eapply Ix. exact Ho.
Qed.

(* ---- the theorems about try_from_json_at ---- *)

(* the reported fragment is the FIRST offending one in pre-order; Ok means nothing offends *)
Theorem try_from_first_mismatch : forall t cm v off,
  shaped cm off v ->
  exists r, try_from_json_at t cm v off = Some r /\
    match r with
    | None => forall i e, ~ offends t v i e
    | Some (eoff, expected, found) =>
        exists i f, eoff = off + i /\ nth_error (preorder v) i = Some (FValue f)
                    /\ found = kind_of f /\ found <> expected
                    /\ offends t v i expected
                    /\ forall i' e', offends t v i' e' -> i <= i'
    end.
Proof.
  intros t cm v off Hsh. rewrite (try_from_refines t cm v off Hsh).
  eexists. split; [reflexivity|].
  pose proof (first_mismatch_spec t v) as H. unfold first_mismatch_ok in H.
  destruct (first_mismatch t v) as [[[i e] fd]|]; cbn [shift_err]; [|exact H].
  destruct H as (I1 & (f & If & ->) & I3).
  exists i, f. split; [reflexivity|]. split; [exact If|]. split; [reflexivity|].
  split; [|split; [exact I1|exact I3]].
  destruct (offends_sound _ _ _ _ I1) as (f' & If' & Hk).
  assert (f' = f) by congruence. subst f'. exact Hk.
Qed.

Theorem try_from_ok_or_first_mismatch : forall t cm v off,
  shaped cm off v ->
  exists r, try_from_json_at t cm v off = Some r /\
    match r with
    | None => True
    | Some (eoff, expected, found) =>
        exists i f, eoff = off + i /\ nth_error (preorder v) i = Some (FValue f)
                    /\ found = kind_of f /\ found <> expected
    end.
Proof.
  intros t cm v off Hsh.
  destruct (try_from_first_mismatch t cm v off Hsh) as (r & Hr & H).
  exists r. split; [exact Hr|].
  destruct r as [[[eoff e] fd]|]; [|exact I].
  destruct H as (i & f & H1 & H2 & H3 & H4 & _). exists i, f. repeat split; assumption.
Qed.

(* [shaped] is satisfiable for every value: the code map made of the volumes themselves *)
Lemma shaped_canonical : forall v off (pre : list cme),
  length pre = off ->
  shaped (pre ++ map (fun n => (0%N, 0%N, N.of_nat n)) (volumes v)) off v.
Proof.
  intros v off pre Hlen i Hi. unfold volume_at.
  rewrite nth_error_app2 by lia. replace (off + i - length pre) with i by lia.
  destruct (nth_error (volumes v) i) as [n|] eqn:En; [|apply nth_error_None in En; lia].
  erewrite map_nth_error by exact En.
  rewrite Nat2N.id. reflexivity.
Qed.

Print Assumptions traverse_preorder.
Print Assumptions fragment_count_preorder.
Print Assumptions value_volume_spec.
Print Assumptions get_fragment_spec.
Print Assumptions array_iter_mapped_spec.
Print Assumptions object_iter_mapped_spec.
Print Assumptions mapped_lookup_spec.
Print Assumptions m_indexes_of_sorted.
Print Assumptions mapped_lookup_multimap.
Print Assumptions try_from_refines.
Print Assumptions offends_sound.
Print Assumptions try_from_ok_or_first_mismatch.
Print Assumptions try_from_first_mismatch.
Print Assumptions shaped_canonical.
