(* Proofs/NumSpellingProofs.v -- decimal printing / reading of 64-bit integers round-trips,
   printed integers are valid JSON numbers, and on valid JSON numbers the integer views
   determine the spelling (up to the sign of "-0"). *)
From Coq Require Import Decimal DecimalN DecimalFacts SpecFloat.
From JsonSyntax Require Import Base.Prelude Base.Float64 Spec.EcmaNumber Spec.NumSpelling
  Spec.SerdeRoundTrip.

Local Open Scope Z_scope.

(* ---- auxiliary: digits <-> code points ---- *)

(* case analysis of a code point down to 6-bit literals; [tac] closes the uninteresting cases *)
Local Ltac split_cp c tac :=
  destruct c as [|c]; [try tac|];
  do 6 (try (destruct c as [c|c|]; try tac)).

Lemma cps_uint_uint_cps u : cps_uint (uint_cps u) = Some u.
Proof. induction u; cbn [uint_cps cps_uint]; try rewrite IHu; reflexivity. Qed.

Lemma digit_cons_inv c f :
  digit_cons c = Some f -> forall u, uint_cps (f u) = c :: uint_cps u.
Proof.
  intros H. split_cp c ltac:(discriminate H);
    cbn in H; injection H as <-; reflexivity.
Qed.

Lemma uint_cps_cps_uint l : forall u, cps_uint l = Some u -> uint_cps u = l.
Proof.
  induction l as [|c r IH]; intros u H.
  - cbn in H. injection H as <-. reflexivity.
  - cbn [cps_uint] in H.
    destruct (digit_cons c) as [f|] eqn:Hc; [|discriminate].
    destruct (cps_uint r) as [v|] eqn:Hr; [|discriminate].
    injection H as <-. rewrite (digit_cons_inv _ _ Hc). f_equal. apply IH. reflexivity.
Qed.

Lemma uint_cps_nil u : uint_cps u = [] -> u = Nil.
Proof. destruct u; cbn [uint_cps]; intros H; try discriminate H; reflexivity. Qed.

Lemma parse_nat_nonnil l :
  l <> [] -> parse_nat l = option_map N.of_uint (cps_uint l).
Proof. destruct l; [congruence|reflexivity]. Qed.

Lemma parse_nat_inv l m :
  parse_nat l = Some m -> exists u, l = uint_cps u /\ u <> Nil /\ m = N.of_uint u.
Proof.
  destruct l as [|c r]; [discriminate|].
  rewrite parse_nat_nonnil by discriminate.
  destruct (cps_uint (c :: r)) as [u|] eqn:Hu; [|discriminate].
  cbn [option_map]. intros H; injection H as <-.
  apply uint_cps_cps_uint in Hu. exists u. repeat split; auto.
  intros ->. discriminate Hu.
Qed.

Lemma parse_nat_uint_cps u : u <> Nil -> parse_nat (uint_cps u) = Some (N.of_uint u).
Proof.
  intros Hu. rewrite parse_nat_nonnil.
  - rewrite cps_uint_uint_cps. reflexivity.
  - intros E. apply Hu, uint_cps_nil, E.
Qed.

Lemma to_uint_unorm n : unorm (N.to_uint n) = N.to_uint n.
Proof. rewrite <- DecimalN.Unsigned.to_of, DecimalN.Unsigned.of_to. reflexivity. Qed.

Lemma unorm_fix_nonnil u : unorm u = u -> u <> Nil.
Proof. intros H ->. discriminate H. Qed.

Lemma parse_nat_fmt_nat n : parse_nat (fmt_nat n) = Some n.
Proof.
  unfold fmt_nat. rewrite parse_nat_uint_cps.
  - rewrite DecimalN.Unsigned.of_to. reflexivity.
  - apply unorm_fix_nonnil, to_uint_unorm.
Qed.

Lemma fmt_int_of_N m : fmt_int (Z.of_N m) = fmt_nat m.
Proof. destruct m; reflexivity. Qed.

Lemma fmt_int_nonneg z : 0 <= z -> fmt_int z = fmt_nat (Z.to_N z).
Proof. destruct z; intros H; try reflexivity. lia. Qed.

(* ---- the two shapes of parse_i64 ---- *)
Definition parse_i64_pos (l : list N) : option Z :=
  match parse_nat l with
  | Some n => if (n <? 9223372036854775808)%N then Some (Z.of_N n) else None
  | None => None
  end.

Lemma parse_i64_minus r :
  parse_i64 (0x2D%N :: r) =
  match parse_nat r with
  | Some n => if (n <=? 9223372036854775808)%N then Some (- Z.of_N n) else None
  | None => None
  end.
Proof. reflexivity. Qed.

Lemma parse_i64_cases l :
  (exists r, l = 0x2D%N :: r) \/ parse_i64 l = parse_i64_pos l.
Proof.
  destruct l as [|c r]; [right; reflexivity|].
  split_cp c ltac:(right; reflexivity).
  left. eexists. reflexivity.
Qed.

Lemma parse_i64_uint_cps u : parse_i64 (uint_cps u) = parse_i64_pos (uint_cps u).
Proof. destruct u; reflexivity. Qed.

Lemma parse_u64_minus r : parse_u64 (0x2D%N :: r) = None.
Proof. reflexivity. Qed.

Lemma neg_zero_num_spec l : l = [0x2D%N; 0x30%N] \/ neg_zero_num l = l.
Proof.
  destruct l as [|c [|d [|e t]]]; try (right; reflexivity).
  - split_cp c ltac:(right; reflexivity).
  - split_cp c ltac:(right; reflexivity).
    split_cp d ltac:(right; reflexivity).
    left. reflexivity.
  - split_cp c ltac:(right; reflexivity).
    split_cp d ltac:(right; reflexivity).
Qed.

(* ---- the automaton on digit strings ---- *)
Definition accepts (s : nstate) (l : list N) : bool :=
  match nrun s l with Some s' => naccept s' | None => false end.

Lemma nrun_nonzero u : nrun NNonZero (uint_cps u) = Some NNonZero.
Proof.
  induction u; cbn [uint_cps nrun]; try reflexivity;
    match goal with |- match nstep NNonZero ?c with _ => _ end = _ =>
      change (nstep NNonZero c) with (Some NNonZero) end; exact IHu.
Qed.

Lemma accepts_norm s u :
  s = NInit \/ s = NFirstDigit -> unorm u = u -> accepts s (uint_cps u) = true.
Proof.
  intros Hs Hu. unfold accepts.
  destruct u as [|r|r|r|r|r|r|r|r|r|r].
  - discriminate Hu.
  - rewrite unorm_D0 in Hu.
    assert (r = Nil) as ->.
    { unfold unorm in Hu. destruct (nzhead r) as [|v|v|v|v|v|v|v|v|v|v] eqn:Hn;
        try discriminate Hu.
      - injection Hu as <-. reflexivity.
      - exfalso. exact (nzhead_nonzero r v Hn). }
    destruct Hs as [-> | ->]; reflexivity.
  - cbn [uint_cps nrun].
    replace (nstep s 0x31%N) with (Some NNonZero) by (destruct Hs as [-> | ->]; reflexivity).
    rewrite nrun_nonzero; reflexivity.
  - cbn [uint_cps nrun].
    replace (nstep s 0x32%N) with (Some NNonZero) by (destruct Hs as [-> | ->]; reflexivity).
    rewrite nrun_nonzero; reflexivity.
  - cbn [uint_cps nrun].
    replace (nstep s 0x33%N) with (Some NNonZero) by (destruct Hs as [-> | ->]; reflexivity).
    rewrite nrun_nonzero; reflexivity.
  - cbn [uint_cps nrun].
    replace (nstep s 0x34%N) with (Some NNonZero) by (destruct Hs as [-> | ->]; reflexivity).
    rewrite nrun_nonzero; reflexivity.
  - cbn [uint_cps nrun].
    replace (nstep s 0x35%N) with (Some NNonZero) by (destruct Hs as [-> | ->]; reflexivity).
    rewrite nrun_nonzero; reflexivity.
  - cbn [uint_cps nrun].
    replace (nstep s 0x36%N) with (Some NNonZero) by (destruct Hs as [-> | ->]; reflexivity).
    rewrite nrun_nonzero; reflexivity.
  - cbn [uint_cps nrun].
    replace (nstep s 0x37%N) with (Some NNonZero) by (destruct Hs as [-> | ->]; reflexivity).
    rewrite nrun_nonzero; reflexivity.
  - cbn [uint_cps nrun].
    replace (nstep s 0x38%N) with (Some NNonZero) by (destruct Hs as [-> | ->]; reflexivity).
    rewrite nrun_nonzero; reflexivity.
  - cbn [uint_cps nrun].
    replace (nstep s 0x39%N) with (Some NNonZero) by (destruct Hs as [-> | ->]; reflexivity).
    rewrite nrun_nonzero; reflexivity.
Qed.

Lemma norm_accepts s u :
  s = NInit \/ s = NFirstDigit -> accepts s (uint_cps u) = true -> unorm u = u.
Proof.
  intros Hs H.
  destruct u as [|r|r|r|r|r|r|r|r|r|r]; try reflexivity.
  - destruct Hs as [-> | ->]; discriminate H.
  - destruct r; try reflexivity; destruct Hs as [-> | ->]; discriminate H.
Qed.

Lemma valid_number_accepts l : valid_number l = accepts NInit l.
Proof. reflexivity. Qed.

Lemma accepts_minus r : accepts NInit (0x2D%N :: r) = accepts NFirstDigit r.
Proof. reflexivity. Qed.

Lemma has_decimal_point_uint_cps u : has_decimal_point (uint_cps u) = false.
Proof.
  unfold has_decimal_point.
  induction u; cbn [uint_cps existsb]; try reflexivity;
    match goal with |- (?a || _)%bool = _ => change a with false end; exact IHu.
Qed.

(* ranges *)
Lemma parse_u64_range n z : parse_u64 n = Some z -> 0 <= z < 18446744073709551616.
Proof.
  unfold parse_u64. destruct (parse_nat n) as [m|]; [|discriminate].
  destruct (N.ltb_spec m 18446744073709551616); [|discriminate].
  intros E; injection E as <-. lia.
Qed.

Lemma parse_i64_pos_inv n z :
  parse_i64_pos n = Some z ->
  exists m, parse_nat n = Some m /\ (m < 9223372036854775808)%N /\ z = Z.of_N m.
Proof.
  unfold parse_i64_pos. destruct (parse_nat n) as [m|]; [|discriminate].
  destruct (N.ltb_spec m 9223372036854775808); [|discriminate].
  intros E; injection E as <-. eauto.
Qed.

Lemma parse_i64_range n z : parse_i64 n = Some z -> -9223372036854775808 <= z < 9223372036854775808.
Proof.
  destruct (parse_i64_cases n) as [[r ->] | ->].
  - rewrite parse_i64_minus. destruct (parse_nat r) as [m|]; [|discriminate].
    destruct (N.leb_spec m 9223372036854775808); [|discriminate].
    intros E; injection E as <-. lia.
  - intros H. apply parse_i64_pos_inv in H as (m & _ & Hm & ->). lia.
Qed.

(* the two views agree where both exist *)
Lemma parse_i64_u64_agree n a b : parse_i64 n = Some a -> parse_u64 n = Some b -> a = b.
Proof.
  intros Ha Hb. unfold parse_u64 in Hb.
  destruct (parse_nat n) as [m|] eqn:Hm; [|discriminate].
  destruct (parse_nat_inv _ _ Hm) as (u & -> & _ & _).
  rewrite parse_i64_uint_cps in Ha.
  apply parse_i64_pos_inv in Ha as (m' & Hm' & _ & ->).
  rewrite Hm in Hm'. injection Hm' as <-.
  destruct (m <? 18446744073709551616)%N; [|discriminate]. congruence.
Qed.

(* printing then reading *)
Lemma parse_u64_fmt_int z : 0 <= z < 18446744073709551616 -> parse_u64 (fmt_int z) = Some z.
Proof.
  intros Hz. rewrite fmt_int_nonneg by lia.
  unfold parse_u64. rewrite parse_nat_fmt_nat.
  destruct (N.ltb_spec (Z.to_N z) 18446744073709551616); [f_equal; lia|lia].
Qed.

Lemma parse_u64_fmt_int_neg z : z < 0 -> parse_u64 (fmt_int z) = None.
Proof. destruct z; intros H; try lia. reflexivity. Qed.

Lemma parse_i64_fmt_nat m : parse_i64 (fmt_nat m) = parse_i64_pos (fmt_nat m).
Proof. apply parse_i64_uint_cps. Qed.

Lemma parse_i64_fmt_int z :
  -9223372036854775808 <= z < 9223372036854775808 -> parse_i64 (fmt_int z) = Some z.
Proof.
  intros Hz. destruct (Z_lt_le_dec z 0) as [Hn|Hn].
  - destruct z as [| |p]; try lia.
    cbn [fmt_int]. rewrite parse_i64_minus, parse_nat_fmt_nat.
    destruct (N.leb_spec (Npos p) 9223372036854775808); [reflexivity|lia].
  - rewrite fmt_int_nonneg by lia. rewrite parse_i64_fmt_nat.
    unfold parse_i64_pos. rewrite parse_nat_fmt_nat.
    destruct (N.ltb_spec (Z.to_N z) 9223372036854775808); [f_equal; lia|lia].
Qed.

Lemma int64_val_fmt_int z :
  -9223372036854775808 <= z < 18446744073709551616 -> int64_val (fmt_int z) = Some z.
Proof.
  intros Hz. unfold int64_val.
  destruct (Z_lt_le_dec z 9223372036854775808) as [Hn|Hn].
  - rewrite parse_i64_fmt_int by lia. reflexivity.
  - rewrite parse_u64_fmt_int by lia.
    rewrite fmt_int_nonneg by lia. rewrite parse_i64_fmt_nat.
    unfold parse_i64_pos. rewrite parse_nat_fmt_nat.
    destruct (N.ltb_spec (Z.to_N z) 9223372036854775808); [lia|reflexivity].
Qed.

(* printed integers are valid numbers without a decimal point *)
Lemma valid_number_fmt_int z : valid_number (fmt_int z) = true.
Proof.
  rewrite valid_number_accepts.
  destruct z as [|p|p].
  - reflexivity.
  - apply accepts_norm; [auto|apply to_uint_unorm].
  - cbn [fmt_int]. rewrite accepts_minus.
    apply accepts_norm; [auto|apply to_uint_unorm].
Qed.

Lemma has_decimal_point_fmt_int z : has_decimal_point (fmt_int z) = false.
Proof.
  destruct z as [|p|p];
    [apply has_decimal_point_uint_cps|apply has_decimal_point_uint_cps|].
  cbn [fmt_int]. unfold has_decimal_point. cbn [existsb].
  change (0x2D =? 0x2E)%N with false. apply has_decimal_point_uint_cps.
Qed.

(* reading then printing, on valid numbers *)
Lemma fmt_nat_of_uint u : unorm u = u -> fmt_nat (N.of_uint u) = uint_cps u.
Proof. intros H. unfold fmt_nat. rewrite DecimalN.Unsigned.to_of, H. reflexivity. Qed.

Lemma fmt_int_parse_u64 n z : valid_number n = true -> parse_u64 n = Some z -> fmt_int z = n.
Proof.
  intros Hv H. unfold parse_u64 in H.
  destruct (parse_nat n) as [m|] eqn:Hm; [|discriminate].
  destruct (m <? 18446744073709551616)%N; [|discriminate].
  injection H as <-.
  destruct (parse_nat_inv _ _ Hm) as (u & -> & _ & ->).
  rewrite fmt_int_of_N. apply fmt_nat_of_uint.
  apply (norm_accepts NInit); auto.
Qed.

Lemma fmt_int_parse_i64 n z :
  valid_number n = true -> parse_i64 n = Some z -> fmt_int z = neg_zero_num n.
Proof.
  intros Hv H.
  destruct (parse_i64_cases n) as [[r ->] | E].
  - rewrite parse_i64_minus in H.
    destruct (parse_nat r) as [m|] eqn:Hm; [|discriminate].
    destruct (m <=? 9223372036854775808)%N; [|discriminate].
    injection H as <-.
    destruct (parse_nat_inv _ _ Hm) as (u & -> & _ & ->).
    rewrite valid_number_accepts, accepts_minus in Hv.
    apply norm_accepts in Hv; [|auto].
    pose proof (fmt_nat_of_uint u Hv) as Hf.
    destruct (N.of_uint u) as [|p] eqn:Hp.
    + change (fmt_nat 0) with [0x30%N] in Hf. rewrite <- Hf. reflexivity.
    + cbn [Z.of_N Z.opp fmt_int]. rewrite Hf.
      destruct (neg_zero_num_spec (0x2D%N :: uint_cps u)) as [E | ->]; [|reflexivity].
      exfalso. injection E as E.
      assert (u = D0 Nil) as ->.
      { pose proof (cps_uint_uint_cps u) as Hc. rewrite E in Hc.
        cbn in Hc. congruence. }
      discriminate Hp.
  - rewrite E in H. apply parse_i64_pos_inv in H as (m & Hm & _ & ->).
    destruct (parse_nat_inv _ _ Hm) as (u & -> & Hu & ->).
    rewrite fmt_int_of_N.
    rewrite fmt_nat_of_uint by (apply (norm_accepts NInit); auto).
    destruct u; reflexivity.
Qed.

(* "-0" is not a u64 and has no decimal point *)
Lemma neg_zero_num_id n : has_decimal_point n = true \/ parse_u64 n <> None -> neg_zero_num n = n.
Proof.
  intros H. destruct (neg_zero_num_spec n) as [-> | E]; [|exact E].
  exfalso. destruct H as [H | H]; [discriminate H|apply H; reflexivity].
Qed.

Print Assumptions parse_u64_fmt_int.
Print Assumptions parse_i64_fmt_int.
Print Assumptions int64_val_fmt_int.
Print Assumptions valid_number_fmt_int.
Print Assumptions fmt_int_parse_u64.
Print Assumptions fmt_int_parse_i64.
