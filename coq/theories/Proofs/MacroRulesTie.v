(* Proofs/MacroRulesTie.v -- the static tie between the rule set of `json!` in src/macros.rs
   and the rule functions of Model/Macro.v.

   [src_rules] (Generated/MacroRules.v) is what lib/macro_translate.py reads off the
   definition `macro_rules! json { .. }` of src/macros.rs, in the embedding of
   Model/MacroSyntax.v.  `bin/check C19` regenerates that file from the tree under check at
   the start of every run and rebuilds this file against it: [rules_tie] is the obligation
   that breaks when the rule set of the source changes.
   [model_rules] (Proofs/MacroInterp.v) is the hand-written reference: the 41 rules that the
   functions rA1 .. rM9 of Model/Macro.v implement -- literally so: on every invocation that
   uses the internal markers as the source says they must be used, one step of the model's
   dispatcher is one step of a generic first-match interpreter of the embedding run on
   [model_rules] (MacroInterp.step_model_is_interp), hence on the rules read off the source
   ([src_rules_semantics]); and whole expansions of invocations without internal marker are that
   interpreter iterated ([expand_by_source_rules]).

   The tie is SYNTACTIC: a change of the source that cannot change any expansion -- swapping two
   adjacent rules whose patterns never both match -- breaks [rules_tie] as well (the documented
   price; renaming metavariables, comments and layout do not: names are numbered in order of
   first occurrence).  This file is kept small on purpose: it is what gets rebuilt against the
   regenerated rule set. *)
From Coq Require Import String.
From JsonSyntax Require Import Base.Prelude Base.Value Model.Macro Model.MacroSyntax Generated.MacroRules
  Proofs.MacroInterp Spec.MacroDoc Proofs.MacroProofs.

Theorem rules_tie : src_rules = model_rules.
Proof. vm_compute. reflexivity. Qed.

(* the hidden helper macros that the templates invoke (json_vec!, json_unexpected!, json_expect_expr_comma!): their
   rule sets as the translator renders them, against the ones Model/Macro.v assumes -- json_vec![..] is vec![..] of the
   same tokens (so OVec / OFromVec hold exactly the elements written), the two others accept only the invocations whose
   rejection reports a misuse.  Purely syntactic. *)
Definition model_helpers_shown : list (string * list (string * string)) :=
  [("json_vec", [("$($v0:tt)*", "vec![$($v0)*]")]);
   ("json_unexpected", [("", "")]);
   ("json_expect_expr_comma", [("$v0:expr, $($v1:tt)*", "")])]%string.
Theorem helpers_tie : src_helpers_shown = model_helpers_shown.
Proof. vm_compute. reflexivity. Qed.

Lemma rules_count : List.length src_rules = 41%nat /\ List.length rules = 41%nat /\ src_rules_count = 41%nat.
Proof. repeat split; reflexivity. Qed.

(* the hand-written dispatcher of Model/Macro.v is the generic interpreter on the rules of the
   source *)
Theorem src_rules_semantics : forall ts, inv_ok ts -> first_match rules ts = interp_step src_rules ts.
Proof. intros ts H. rewrite rules_tie. apply step_model_is_interp, H. Qed.

(* whole expansions: for every invocation without internal marker, [expand] of Model/Macro.v
   (the function C19_expand .. are about) is the generic interpreter iterated on the rules of
   the source *)
Theorem expand_by_source_rules : forall fmt_float env fuel ts, user_inv ts = true ->
  expand fmt_float env fuel ts = expand_with (interp_step src_rules) fmt_float env fuel ts.
Proof. intros. rewrite rules_tie. apply expand_is_interp. assumption. Qed.

(* the tokens of a document never begin with an internal marker *)
Lemma tokens_user d : user_inv (tokens d) = true.
Proof.
  destruct d as [|b|ty z|neg s sfx r|s|l tc|l tc]; cbn [tokens]; try reflexivity.
  - destruct (z <? 0)%Z; reflexivity.
  - destruct neg; reflexivity.
Qed.

(* C19_expand, for the generic interpreter on the rules of the source *)
Theorem source_rules_expand_tokens : forall fmt_float env d, dom fmt_float env d ->
  exists fuel, expand_with (interp_step src_rules) fmt_float env fuel (tokens d) = Some (value_of d).
Proof.
  intros fmt_float env d H. destruct (expand_tokens fmt_float env d H) as [fuel E]. exists fuel.
  rewrite <- expand_by_source_rules by apply tokens_user. exact E.
Qed.

Print Assumptions rules_tie.
Print Assumptions src_rules_semantics.
Print Assumptions expand_by_source_rules.
Print Assumptions source_rules_expand_tokens.
