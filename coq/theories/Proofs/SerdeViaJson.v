(* Proofs/SerdeViaJson.v -- C16: converting serde_json's rendering of a datum (model
   ser_sj) into a Value (from_tsj) and deserializing that yields the datum, exactly (the
   sign of zero included), with every map's entries in the order of their rendered keys
   (a BTreeMap-backed serde_json object is in key order; a Rust map does not care). *)
From JsonSyntax Require Import Base.Prelude Base.Value Spec.EcmaNumber Spec.Multimap
  Spec.SerdeTyped Model.Serde Proofs.SerdeBasics Proofs.SerdeProofs Proofs.SerdeShape.
Local Open Scope Z_scope.

Definition unwrap (o : dres) : tsd := match o with Ok x => x | _ => SdUnit end.

Lemma sj_insert_in {A} k (v : A) : forall l e, In e (sj_insert k v l) -> e = (k, v) \/ In e l.
Proof.
  induction l as [|x l IH]; intros e H; cbn [sj_insert] in H.
  - destruct H as [H|[]]; auto.
  - destruct (str_eqb (fst x) k).
    + destruct H as [H|H]; auto. right. right. exact H.
    + destruct (str_ltb k (fst x)).
      * destruct H as [H|H]; auto.
      * destruct H as [H|H]; [right; left; exact H|].
        destruct (IH e H); auto. right. right. auto.
Qed.

Lemma isort_in {A} : forall (l : list (str * A)) e, In e (isort l) -> In e l.
Proof.
  unfold isort. intros l.
  assert (G : forall acc e, In e (fold_left (fun a x => sj_insert (fst x) (snd x) a) l acc) -> In e l \/ In e acc).
  { induction l as [|x l IH]; intros acc e H; [right; exact H|].
    cbn [fold_left] in H. destruct (IH _ _ H) as [H1|H1]; [left; right; exact H1|].
    destruct (sj_insert_in _ _ _ _ H1) as [->|H2]; [left; left; destruct x; reflexivity|right; exact H2]. }
  intros e H. destruct (G [] e H) as [H1|[]]. exact H1.
Qed.

(* looking a key up after sorted insertion of fresh keys *)
Lemma m_get_entries_insert (k : list N) (v : value) f : forall acc : list (list N * value),
  mem_str k (map fst acc) = false ->
  m_get_entries (sj_insert k v acc) f = m_get_entries (acc ++ [(k, v)]) f.
Proof.
  unfold entry, key in *.
  induction acc as [|e acc IH]; intros H; [reflexivity|].
  cbn [map mem_str] in H. apply orb_false_iff in H. destruct H as [H1 H2].
  cbn [sj_insert]. rewrite H1.
  destruct (str_ltb k (fst e)).
  - (* (k,v) :: e :: acc  vs  e :: acc ++ [(k,v)] *)
    unfold m_get_entries. cbn [filter app]. rewrite filter_app. cbn [filter].
    destruct (has_key f (k, v)) eqn:Hk.
    + (* f = k: no other entry has key k *)
      unfold has_key in Hk. cbn [fst] in Hk. apply str_eqb_spec in Hk. subst f.
      assert (He : has_key k e = false) by (unfold has_key; exact H1). rewrite He.
      assert (Hn : filter (has_key k) acc = []) by exact (m_get_entries_fresh k acc H2).
      rewrite Hn. exact (eq_sym (f_equal (fun z => z ++ [(k, v)]) Hn)).
    + rewrite app_nil_r. reflexivity.
  - unfold m_get_entries in *. cbn [filter app]. rewrite (IH H2). reflexivity.
Qed.

Lemma nodup_str_prefix : forall a b, nodup_str (a ++ b) = true -> nodup_str a = true.
Proof.
  induction a as [|x a IH]; intros b H; [reflexivity|].
  cbn [app nodup_str] in *. apply andb_true_iff in H. destruct H as [H1 H2].
  apply andb_true_iff. split; [|eapply IH; eauto].
  apply negb_true_iff. apply negb_true_iff in H1. rewrite mem_str_app in H1.
  apply orb_false_iff in H1. tauto.
Qed.

Lemma m_get_entries_nil_mem (k : list N) : forall es : list (list N * value),
  m_get_entries es k = [] -> mem_str k (map fst es) = false.
Proof.
  unfold key in *. induction es as [|e es IH]; intros H; [reflexivity|].
  unfold m_get_entries in *. cbn [filter map mem_str] in *. unfold has_key in *. unfold key, entry in *.
  destruct (str_eqb (fst e) k) eqn:Ek; [discriminate H|]. cbn. auto.
Qed.

Lemma m_get_app (a b : list (list N * value)) (f : list N) :
  m_get_entries (a ++ b) f = m_get_entries a f ++ m_get_entries b f.
Proof. unfold m_get_entries. apply filter_app. Qed.

Lemma m_get_entries_isort : forall (l acc : list (list N * value)),
  nodup_str (map fst acc ++ map fst l) = true -> forall f : list N,
  m_get_entries (fold_left (fun a e => sj_insert (fst e) (snd e) a) l acc) f = m_get_entries (acc ++ l) f.
Proof.
  intros l. induction l as [|[k v] l IH] using rev_ind; intros acc H f.
  - cbn. rewrite app_nil_r. reflexivity.
  - rewrite fold_left_app. cbn [fold_left fst snd].
    rewrite map_app in H. cbn [map fst] in H. rewrite app_assoc in H.
    destruct (nodup_str_app_cons _ _ _ H) as (H1 & _ & _).
    pose proof (nodup_str_prefix _ _ H) as Hp.
    assert (Hfresh : mem_str k (map fst (fold_left (fun a e => sj_insert (fst e) (snd e) a) l acc)) = false).
    { apply m_get_entries_nil_mem. rewrite (IH acc Hp k).
      apply m_get_entries_fresh. rewrite map_app. exact H1. }
    rewrite (m_get_entries_insert k v f _ Hfresh).
    pose proof (IH acc Hp f) as IHf.
    etransitivity; [apply m_get_app|].
    etransitivity; [exact (f_equal (fun z => z ++ m_get_entries [(k, v)] f) IHf)|].
    symmetry. etransitivity; [|apply m_get_app]. f_equal. apply app_assoc.
Qed.

(* ---- sorted insertion keeps the keys pairwise distinct ---- *)
Lemma mem_str_false_neq k : forall l, mem_str k l = false -> forall x, In x l -> str_eqb x k = false.
Proof.
  induction l as [|y l IH]; intros H x Hin; [destruct Hin|].
  cbn [mem_str] in H. apply orb_false_iff in H. destruct H as [H1 H2].
  destruct Hin as [->|Hin]; auto.
Qed.

Lemma sj_insert_mem {A} k (v : A) f : forall l,
  mem_str f (map fst (sj_insert k v l)) = str_eqb k f || mem_str f (map fst l).
Proof.
  induction l as [|e l IH]; [reflexivity|].
  cbn [sj_insert]. destruct (str_eqb (fst e) k) eqn:Ek.
  - apply str_eqb_spec in Ek. cbn [map fst mem_str]. rewrite Ek.
    destruct (str_eqb k f); reflexivity.
  - destruct (str_ltb k (fst e)); [reflexivity|].
    cbn [map fst mem_str]. rewrite IH.
    destruct (str_eqb (fst e) f), (str_eqb k f); reflexivity.
Qed.

Lemma sj_insert_nodup {A} k (v : A) : forall l,
  nodup_str (map fst l) = true -> mem_str k (map fst l) = false ->
  nodup_str (map fst (sj_insert k v l)) = true.
Proof.
  induction l as [|e l IH]; intros Hn Hm; [reflexivity|].
  cbn [map mem_str] in Hm. apply orb_false_iff in Hm. destruct Hm as [Hm1 Hm2].
  cbn [map nodup_str] in Hn. apply andb_true_iff in Hn. destruct Hn as [Hn1 Hn2].
  cbn [sj_insert]. rewrite Hm1.
  destruct (str_ltb k (fst e)).
  - cbn [map fst nodup_str mem_str]. rewrite Hm1, Hm2, Hn1, Hn2. reflexivity.
  - cbn [map fst nodup_str]. rewrite (IH Hn2 Hm2), andb_true_r.
    rewrite sj_insert_mem. apply negb_true_iff in Hn1. rewrite Hn1.
    rewrite mem_str_eqb_sym, Hm1. reflexivity.
Qed.

Lemma fold_insert_nodup {A} : forall (l acc : list (str * A)),
  nodup_str (map fst acc ++ map fst l) = true ->
  nodup_str (map fst (fold_left (fun a e => sj_insert (fst e) (snd e) a) l acc)) = true.
Proof.
  induction l as [|[k v] l IH] using rev_ind; intros acc H.
  - cbn in *. rewrite app_nil_r in H. exact H.
  - rewrite fold_left_app. cbn [fold_left fst snd].
    rewrite map_app in H. cbn [map fst] in H. rewrite app_assoc in H.
    destruct (nodup_str_app_cons _ _ _ H) as (H1 & _ & _).
    pose proof (nodup_str_prefix _ _ H) as Hp.
    apply sj_insert_nodup; [exact (IH acc Hp)|].
    (* k is fresh in the folded list: its keys are keys of acc or of l *)
    destruct (mem_str k (map fst (fold_left (fun a e => sj_insert (fst e) (snd e) a) l acc))) eqn:Em; [|reflexivity].
    exfalso. clear - Em H1.
    assert (G : forall (l acc : list (str * A)) f,
              mem_str f (map fst (fold_left (fun a e => sj_insert (fst e) (snd e) a) l acc))
              = mem_str f (map fst acc) || mem_str f (map fst l)).
    { clear. induction l as [|[k0 v0] l IHl]; intros acc f; cbn [fold_left map fst snd mem_str].
      - rewrite orb_false_r. reflexivity.
      - rewrite IHl, sj_insert_mem.
        destruct (str_eqb k0 f), (mem_str f (map fst acc)), (mem_str f (map fst l)); reflexivity. }
    rewrite G in Em. rewrite mem_str_app in H1. rewrite H1 in Em. discriminate.
Qed.

Lemma isort_nodup {A} (l : list (str * A)) :
  nodup_str (map fst l) = true -> nodup_str (map fst (isort l)) = true.
Proof. intros H. unfold isort. apply fold_insert_nodup. exact H. Qed.

Section ViaJson.
  Variable E : env.
  Variable fmt_sj : Z -> list N.

  (* serde_json prints a finite double in non-integer syntax and that spelling reads back
     (correctly rounded) as the same double; the spelling of a widened f32 reads back
     (correctly rounded to binary32) as that f32 *)
  Hypothesis Hsj : forall x, f64_wf x = true -> f64_finite x = true ->
    num_event (fmt_sj x) = EvF x.
  Hypothesis Hsj32 : forall b, f32_wf b = true -> f32_finite b = true ->
    de_f32 (fmt_sj (f64_of_f32 b)) = b.

  Notation de := (Serde.de E).
  Notation fsj := (from_tsj fmt_sj).

  Definition VIA (d : tsd) : Prop :=
    forall t, has_type E d t = true -> finite_floats d = true ->
    exists j, ser_sj d = Ok j /\
              exists n, forall fuel, (n <= fuel)%nat -> de fuel t (fsj j) = Ok (sort_maps d).

  Lemma ser_sj_null : forall d, ser_sj d = Ok TjNull -> null_like d = true.
  Proof.
    induction d using tsd_ind'; intros Hs; cbn [ser_sj null_like] in *; try discriminate; auto;
      try (repeat match type of Hs with
                  | context [obind ?x _] => destruct x; cbn [obind] in Hs
                  | context [if ?c then _ else _] => destruct c eqn:?
                  end; try discriminate; auto; fail).
  Qed.

  Lemma fsj_null j : fsj j = VNull -> j = TjNull.
  Proof. destruct j; cbn; congruence. Qed.

  (* ---- lists ---- *)
  Lemma seq_via : forall l, Forall VIA l -> forall t',
    forallb (fun x => has_type E x t') l = true -> forallb finite_floats l = true ->
    exists js, omap (fun x => ser_sj x) l = Ok js /\
               exists n, forall fuel, (n <= fuel)%nat ->
                 de_seq (de fuel) t' (map fsj js) = Ok (map sort_maps l).
  Proof.
    induction 1 as [|x l Hx _ IH]; intros t' Ht Hf.
    - exists []. split; [reflexivity|]. exists O. reflexivity.
    - cbn [forallb existsb] in *. split_and Ht. split_and Hf.
      destruct (Hx t' Ht Hf) as (v & Hv & n1 & Hn1).
      destruct (IH t' Ht0 Hf0) as (vs & Hvs & n2 & Hn2).
      exists (v :: vs). split.
      + cbn [omap]. rewrite Hv. cbn [obind]. rewrite Hvs. reflexivity.
      + exists (Nat.max n1 n2). intros fuel Hfu. cbn [de_seq map].
        rewrite Hn1 by lia. cbn [obind]. rewrite Hn2 by lia. reflexivity.
  Qed.

  Lemma tuple_via : forall l, Forall VIA l -> forall ts,
    all2b (fun x t => has_type E x t) l ts = true -> forallb finite_floats l = true ->
    exists js, omap (fun x => ser_sj x) l = Ok js /\
               exists n, forall fuel, (n <= fuel)%nat ->
                 de_tuple (de fuel) ts (map fsj js) = Ok (map sort_maps l).
  Proof.
    induction 1 as [|x l Hx _ IH]; intros ts Ht Hf.
    - destruct ts; [|discriminate]. exists []. split; [reflexivity|]. exists O. reflexivity.
    - destruct ts as [|t ts]; [discriminate|].
      cbn [all2b forallb existsb] in *. split_and Ht. split_and Hf.
      destruct (Hx t Ht Hf) as (v & Hv & n1 & Hn1).
      destruct (IH ts Ht0 Hf0) as (vs & Hvs & n2 & Hn2).
      exists (v :: vs). split.
      + cbn [omap]. rewrite Hv. cbn [obind]. rewrite Hvs. reflexivity.
      + exists (Nat.max n1 n2). intros fuel Hfu. cbn [de_tuple map].
        rewrite Hn1 by lia. cbn [obind]. rewrite Hn2 by lia. reflexivity.
  Qed.

  (* ---- struct fields: found by name in the key-ordered object ---- *)
  Inductive FV (rec : ty -> value -> dres) (es : list entry) : list (str * tsd) -> list (str * ty) -> Prop :=
  | FV_nil : FV rec es [] []
  | FV_cons f x t v l fts :
      m_get_entries es f = [(f, v)] -> rec t v = Ok (sort_maps x) -> FV rec es l fts ->
      FV rec es ((f, x) :: l) ((f, t) :: fts).

  Lemma de_fields_FV rec es l fts : FV rec es l fts ->
    de_fields rec fts es = Ok (map (fun fx => (fst fx, sort_maps (snd fx))) l).
  Proof.
    induction 1 as [|f x t v l fts Hg Hr _ IH]; [reflexivity|].
    cbn [de_fields fst snd map]. rewrite Hg. cbn [fst snd]. rewrite Hr. cbn [obind]. rewrite IH. reflexivity.
  Qed.

  Lemma FV_ext rec es es' l fts :
    (forall f, m_get_entries es' f = m_get_entries es f) -> FV rec es l fts -> FV rec es' l fts.
  Proof.
    intros Hx. induction 1 as [|f x t v l fts Hg Hr _ IH]; [apply FV_nil|].
    apply (FV_cons _ _ f x t v); auto. rewrite Hx. exact Hg.
  Qed.

  Lemma fields_via : forall l, Forall (fun fx => VIA (snd fx)) l -> forall fts,
    fields2b (fun x t => has_type E x t) l fts = true ->
    forallb (fun fx => finite_floats (snd fx)) l = true ->
    exists js, omap (fun fx : str * tsd => ser_sj (snd fx)) l = Ok js /\
      exists n, forall fuel, (n <= fuel)%nat -> forall pre : list entry,
        nodup_str (map fst pre ++ map fst l) = true ->
        FV (de fuel) (pre ++ combine (map fst l) (map fsj js)) l fts.
  Proof.
    induction 1 as [|[f x] l Hx _ IH]; intros fts Ht Hf.
    - destruct fts; [|discriminate]. exists []. split; [reflexivity|].
      exists O. intros. constructor.
    - destruct fts as [|[f' t] fts]; [discriminate|].
      cbn [fields2b forallb existsb fst snd] in *. split_and Ht. split_and Hf.
     
      apply str_eqb_spec in Ht. subst f'.
      destruct (Hx t Ht1 Hf) as (v & Hv & n1 & Hn1).
      destruct (IH fts Ht0 Hf0) as (vs & Hvs & n2 & Hn2).
      exists (v :: vs). split.
      + cbn [omap snd]. rewrite Hv. cbn [obind]. rewrite Hvs. reflexivity.
      + exists (Nat.max n1 n2). intros fuel Hfu pre Hnd.
        cbn [map fst combine] in *.
        destruct (nodup_str_app_cons _ _ _ Hnd) as (N1 & N2 & N3).
        apply (FV_cons _ _ f x t (fsj v)).
        * apply m_get_entries_unique; auto. apply mem_combine; auto.
        * apply Hn1. lia.
        * replace (pre ++ (f, fsj v) :: combine (map fst l) (map fsj vs))
            with ((pre ++ [(f, fsj v)]) ++ combine (map fst l) (map fsj vs)) by (rewrite <- app_assoc; reflexivity).
          apply Hn2; [lia|]. rewrite map_app. exact N3.
  Qed.

  (* ---- map entries ---- *)
  Inductive ER (rec : ty -> value -> dres) (kt : kty) (t' : ty) :
    list (tsd * tsd) -> list str -> list value -> Prop :=
  | ER_nil : ER rec kt t' [] [] []
  | ER_cons k x s w l ks ws :
      key_str k = Some s -> de_key E kt s = Ok k -> rec t' w = Ok (sort_maps x) ->
      ER rec kt t' l ks ws -> ER rec kt t' ((k, x) :: l) (s :: ks) (w :: ws).

  Definition entryF (rec : ty -> value -> dres) kt t' (k : str) (w : value) : tsd * tsd :=
    (unwrap (de_key E kt k), unwrap (rec t' w)).

  Lemma ER_facts rec kt t' l ks ws : ER rec kt t' l ks ws ->
    map (kmap (entryF rec kt t')) (combine ks ws)
      = map keyed (map (fun kv => (fst kv, sort_maps (snd kv))) l) /\
    Forall (fun e : entry => exists k x, de_key E kt (fst e) = Ok k /\ rec t' (snd e) = Ok x /\
                                          key_str k = Some (fst e)) (combine ks ws).
  Proof.
    induction 1 as [|k x s w l ks ws Hs Hk Hw _ [IH1 IH2]]; [split; [reflexivity|constructor]|].
    split.
    - cbn [combine map fst snd]. rewrite IH1. f_equal.
      unfold kmap, entryF, keyed. cbn [fst snd]. rewrite Hk, Hw, Hs. reflexivity.
    - cbn [combine]. constructor; auto. exists k, (sort_maps x). cbn [fst snd]. auto.
  Qed.

  Lemma nodup_combine : forall (names : list str) (ws : list value),
    nodup_str names = true -> nodup_str (map fst (combine names ws)) = true.
  Proof.
    induction names as [|a names IHn]; intros [|w ws] Hd; cbn in *; auto.
    apply andb_true_iff in Hd. destruct Hd as [D1 D2]. apply andb_true_iff. split; auto.
    apply negb_true_iff. apply negb_true_iff in D1. apply mem_combine. exact D1.
  Qed.

  Lemma keys_of_entryF rec kt t' : forall es : list entry,
    Forall (fun e : entry => exists k x, de_key E kt (fst e) = Ok k /\ rec t' (snd e) = Ok x /\
                                          key_str k = Some (fst e)) es ->
    keys_of (map (fun e => entryF rec kt t' (fst e) (snd e)) es) = map fst es.
  Proof.
    induction 1 as [|[k0 w] es (k & x & Hk & Hx & Hs) _ IH]; [reflexivity|].
    cbn [fst snd] in Hk, Hx, Hs. cbn [map keys_of fst snd]. unfold entryF at 1. rewrite Hk. cbn [unwrap fst].
    rewrite Hs, IH. reflexivity.
  Qed.

  Lemma de_entries_F rec kt t' : forall es : list entry,
    Forall (fun e : entry => exists k x, de_key E kt (fst e) = Ok k /\ rec t' (snd e) = Ok x /\
                                          key_str k = Some (fst e)) es ->
    de_entries E rec kt t' es = Ok (map (fun e => entryF rec kt t' (fst e) (snd e)) es).
  Proof.
    induction 1 as [|[k0 w] es (k & x & Hk & Hx & _) _ IH]; [reflexivity|].
    cbn [fst snd] in Hk, Hx. cbn [de_entries map fst snd]. rewrite Hk. cbn [obind]. rewrite Hx. cbn [obind]. rewrite IH.
    unfold entryF. rewrite Hk, Hx. reflexivity.
  Qed.

  Lemma entries_via : forall l, Forall (fun kv => VIA (fst kv) /\ VIA (snd kv)) l -> forall kt t',
    forallb (fun kv => key_has_type E (fst kv) kt && has_type E (snd kv) t') l = true ->
    forallb (fun kv => finite_floats (fst kv) && finite_floats (snd kv)) l = true ->
    exists js, omap (fun kx : tsd * tsd => ser_sj_key (fst kx)) l = Ok (keys_of l) /\
               omap (fun kx : tsd * tsd => ser_sj (snd kx)) l = Ok js /\
      exists n, forall fuel, (n <= fuel)%nat -> ER (de fuel) kt t' l (keys_of l) (map fsj js).
  Proof.
    induction 1 as [|[k x] l [_ Hx] _ IH]; intros kt t' Ht Hf.
    - exists []. repeat split; try reflexivity. exists O. intros. constructor.
    - cbn [forallb existsb fst snd] in *. split_and Ht. split_and Hf.
     
      destruct (key_ser E k kt Ht) as (s & Ks & _ & Kde & _).
      destruct (key_sj E k kt Ht) as (s' & Ks' & _ & Ksj). rewrite Ks in Ks'. inversion Ks'; subst s'.
      destruct (Hx t' Ht1 Hf1) as (v & Hv & n1 & Hn1).
      destruct (IH kt t' Ht0 Hf0) as (vs & Hks & Hvs & n2 & Hn2).
      exists (v :: vs). cbn [keys_of]. rewrite Ks. split; [|split].
      + cbn [omap fst]. rewrite Ksj. cbn [obind]. rewrite Hks. reflexivity.
      + cbn [omap snd]. rewrite Hv. cbn [obind]. rewrite Hvs. reflexivity.
      + exists (Nat.max n1 n2). intros fuel Hfu. cbn [map].
        apply ER_cons; auto. apply Hn1. lia. apply Hn2. lia.
  Qed.

  Lemma from_sj_obj (ks : list str) (js : list tsj) :
    fsj (TjObj (isort (combine ks js))) = VObj (isort (combine ks (map fsj js))).
  Proof.
    cbn [from_tsj]. f_equal. rewrite (isort_map fsj). rewrite map_combine. reflexivity.
  Qed.

  Ltac fuel1 n :=
    exists (S n); intros [|fuel] Hfuel; [lia|]; cbn [Serde.de].

  Lemma de_option_nonnull f t v : v <> VNull ->
    de (S f) (TyOption t) v = obind (de f t v) (fun x => Ok (SdSome x)).
  Proof. intros H. destruct v; try reflexivity. congruence. Qed.

  Theorem via_VIA : forall d, VIA d.
  Proof.
    induction d using tsd_ind'; intros t Ht Hf; destruct t; cbn [has_type] in Ht; try discriminate;
      cbn [finite_floats] in Hf.
    - (* bool *) exists (TjBool b). split; [reflexivity|]. fuel1 O. reflexivity.
    - (* int *) split_and Ht. apply ikind_eqb_eq in Ht. subst k0.
      exists (TjNum (sj_int z)). split; [reflexivity|]. fuel1 O.
      assert (Htxt : sjnum_text fmt_sj (sj_int z) = z_dec z) by (unfold sj_int; destruct (z <? 0); reflexivity).
      cbn [from_tsj]. rewrite Htxt. rewrite (de_int_roundtrip k z Ht0). reflexivity.
    - (* f32 *) exists (TjNum (SJFloat (f64_of_f32 b))). split.
      + cbn [ser_sj]. rewrite Hf. reflexivity.
      + fuel1 O. cbn [from_tsj sjnum_text]. rewrite (Hsj32 b Ht Hf). reflexivity.
    - (* f64 *) exists (TjNum (SJFloat b)). split.
      + cbn [ser_sj]. rewrite Hf. reflexivity.
      + fuel1 O. cbn [from_tsj sjnum_text]. rewrite (Hsj _ Ht Hf). reflexivity.
    - (* char *) exists (TjStr [c]). split; [reflexivity|]. fuel1 O. reflexivity.
    - (* str *) exists (TjStr s). split; [reflexivity|]. fuel1 O. reflexivity.
    - (* unit *) exists TjNull. split; [reflexivity|]. fuel1 O. reflexivity.
    - (* unit struct *) split_and Ht. apply str_eqb_spec in Ht. subst name.
      destruct (assoc n E) as [[]|] eqn:Ea; try discriminate.
      exists TjNull. split; [reflexivity|]. fuel1 O. rewrite Ea. reflexivity.
    - (* none *) exists TjNull. split; [reflexivity|]. fuel1 O. reflexivity.
    - (* some *) split_and Ht.
      destruct (IHd t Ht Hf) as (j & Hj & m & Hn).
      exists j. split; [exact Hj|].
      assert (Hnn : fsj j <> VNull).
      { intros Hnull. apply fsj_null in Hnull. subst j. apply ser_sj_null in Hj. rewrite Hj in Ht0. discriminate. }
      exists (S m). intros [|fuel] Hfuel; [lia|].
      rewrite (de_option_nonnull fuel t (fsj j) Hnn). rewrite Hn by lia. reflexivity.
    - (* newtype struct *) split_and Ht. apply str_eqb_spec in Ht. subst name.
      destruct (assoc n E) as [[]|] eqn:Ea; try discriminate.
      destruct (IHd t Ht0 Hf) as (j & Hj & m & Hn).
      exists j. split; [exact Hj|]. fuel1 m. rewrite Ea, Hn by lia. reflexivity.
    - (* seq *) destruct (seq_via l H t Ht Hf) as (js & Hjs & m & Hn).
      exists (TjArr js). split.
      + cbn [ser_sj]. rewrite Hjs. reflexivity.
      + fuel1 m. cbn [from_tsj]. rewrite Hn by lia. reflexivity.
    - (* tuple *) destruct (tuple_via l H l0 Ht Hf) as (js & Hjs & m & Hn).
      exists (TjArr js). split.
      + cbn [ser_sj]. rewrite Hjs. reflexivity.
      + fuel1 m. cbn [from_tsj]. rewrite Hn by lia. reflexivity.
    - (* tuple struct *) split_and Ht. apply str_eqb_spec in Ht. subst name.
      destruct (assoc n E) as [[]|] eqn:Ea; try discriminate.
      destruct (tuple_via l H l0 Ht0 Hf) as (js & Hjs & m & Hn).
      exists (TjArr js). split.
      + cbn [ser_sj]. rewrite Hjs. reflexivity.
      + fuel1 m. rewrite Ea. cbn [from_tsj]. rewrite Hn by lia. reflexivity.
    - (* map *) split_and Ht.
      destruct (entries_via l H k t Ht Hf) as (js & Hks & Hjs & m & Hn).
      exists (TjObj (isort (combine (keys_of l) js))). split.
      + cbn [ser_sj].
        assert (X : sj_entries_g ser_sj_key ser_sj l [] = Ok (isort (combine (keys_of l) js)))
          by exact (sj_entries_ok _ _ l [] (keys_of l) js Hks Hjs).
        change (obind (sj_entries_g ser_sj_key ser_sj l []) (fun o => Ok (TjObj o)) = Ok (TjObj (isort (combine (keys_of l) js)))).
        rewrite X. reflexivity.
      + fuel1 m. rewrite from_sj_obj.
        destruct (ER_facts _ _ _ _ _ _ (Hn fuel ltac:(lia))) as [F1 F2].
        assert (F3 : Forall (fun e : entry => exists k0 x, de_key E k (fst e) = Ok k0 /\ de fuel t (snd e) = Ok x /\
                                                   key_str k0 = Some (fst e))
                            (isort (combine (keys_of l) (map fsj js)))).
        { apply Forall_forall. intros e He. apply isort_in in He.
          rewrite Forall_forall in F2. exact (F2 e He). }
        rewrite de_entries_F by exact F3.
        cbn [obind sort_maps]. f_equal. f_equal.
        rewrite last_wins_nodup
          by (rewrite (keys_of_entryF _ _ _ _ F3); apply isort_nodup; apply nodup_combine; exact Ht0).
        unfold sort_map_entries.
        rewrite <- F1.
        pose proof (fold_insert_map (entryF (de fuel) k t) (combine (keys_of l) (map fsj js)) []) as Q.
        cbn [map] in Q. unfold isort. rewrite <- Q. rewrite map_map. apply map_ext. intros e. reflexivity.
    - (* struct *) split_and Ht. apply str_eqb_spec in Ht. subst name.
      destruct (assoc n E) as [[]|] eqn:Ea; try discriminate. split_and Ht0.
      destruct (fields_via l H l0 Ht0 Hf) as (js & Hjs & m & Hn).
      exists (TjObj (isort (combine (map fst l) js))). split.
      + cbn [ser_sj].
        assert (X : sj_fields_g ser_sj l [] = Ok (isort (combine (map fst l) js)))
          by exact (sj_fields_ok _ l [] js Hjs).
        change (obind (sj_fields_g ser_sj l []) (fun o => Ok (TjObj o)) = Ok (TjObj (isort (combine (map fst l) js)))).
        rewrite X. reflexivity.
      + fuel1 m. rewrite Ea. rewrite from_sj_obj.
        assert (Hnd : nodup_str (map fst l) = true) by (rewrite (fields2b_names _ _ _ Ht0); exact Ht1).
        assert (Hfv : FV (de fuel) (isort (combine (map fst l) (map fsj js))) l l0).
        { apply (FV_ext _ ([] ++ combine (map fst l) (map fsj js))).
          - intros f. unfold isort. rewrite m_get_entries_isort; [reflexivity|].
            cbn [map app]. clear - Hnd. 
            assert (G : forall (names : list str) (ws : list value), nodup_str names = true -> nodup_str (map fst (combine names ws)) = true).
            { induction names as [|a names IHn]; intros [|w ws] Hd; cbn in *; auto.
              apply andb_true_iff in Hd. destruct Hd as [D1 D2]. apply andb_true_iff. split; auto.
              apply negb_true_iff. apply negb_true_iff in D1. apply mem_combine. exact D1. }
            apply G. exact Hnd.
          - apply Hn; [lia|]. exact Hnd. }
        rewrite (de_fields_FV _ _ _ _ Hfv). reflexivity.
    - (* unit variant *) split_and Ht. apply str_eqb_spec in Ht. subst name.
      destruct (assoc n E) as [[]|] eqn:Ea; try discriminate.
      destruct (assoc v vs) as [[]|] eqn:Ev; try discriminate.
      exists (TjStr v). split; [reflexivity|]. fuel1 O. rewrite Ea. cbn [from_tsj]. rewrite Ev. reflexivity.
    - (* newtype variant *) split_and Ht. apply str_eqb_spec in Ht. subst name.
      destruct (assoc n E) as [[]|] eqn:Ea; try discriminate.
      destruct (assoc v vs) as [[]|] eqn:Ev; try discriminate.
      destruct (IHd t Ht0 Hf) as (j & Hj & m & Hn).
      exists (TjObj [(v, j)]). split.
      + cbn [ser_sj]. rewrite Hj. reflexivity.
      + fuel1 m. rewrite Ea. cbn [from_tsj map fst snd]. rewrite Ev, Hn by lia. reflexivity.
    - (* tuple variant *) split_and Ht. apply str_eqb_spec in Ht. subst name.
      destruct (assoc n E) as [[]|] eqn:Ea; try discriminate.
      destruct (assoc v vs) as [[]|] eqn:Ev; try discriminate.
      destruct (tuple_via l H l0 Ht0 Hf) as (js & Hjs & m & Hn).
      exists (TjObj [(v, TjArr js)]). split.
      + cbn [ser_sj]. rewrite Hjs. reflexivity.
      + fuel1 m. rewrite Ea. cbn [from_tsj map fst snd]. rewrite Ev.
        rewrite Hn by lia. reflexivity.
    - (* struct variant *) split_and Ht. apply str_eqb_spec in Ht. subst name.
      destruct (assoc n E) as [[]|] eqn:Ea; try discriminate.
      destruct (assoc v vs) as [[]|] eqn:Ev; try discriminate. split_and Ht0.
      destruct (fields_via l H l0 Ht0 Hf) as (js & Hjs & m & Hn).
      exists (TjObj [(v, TjObj (isort (combine (map fst l) js)))]). split.
      + cbn [ser_sj].
        assert (X : sj_fields_g ser_sj l [] = Ok (isort (combine (map fst l) js)))
          by exact (sj_fields_ok _ l [] js Hjs).
        change (obind (sj_fields_g ser_sj l []) (fun o => Ok (TjObj [(v, TjObj o)])) = Ok (TjObj [(v, TjObj (isort (combine (map fst l) js)))])).
        rewrite X. reflexivity.
      + fuel1 m. rewrite Ea.
        change (fsj (TjObj [(v, TjObj (isort (combine (map fst l) js)))]))
          with (VObj [(v, fsj (TjObj (isort (combine (map fst l) js))))]).
        rewrite from_sj_obj. cbn [fst snd]. rewrite Ev.
        assert (Hnd : nodup_str (map fst l) = true) by (rewrite (fields2b_names _ _ _ Ht0); exact Ht1).
        assert (Hfv : FV (de fuel) (isort (combine (map fst l) (map fsj js))) l l0).
        { apply (FV_ext _ ([] ++ combine (map fst l) (map fsj js))).
          - intros f. unfold isort. rewrite m_get_entries_isort; [reflexivity|].
            cbn [map app]. clear - Hnd.
            assert (G : forall (names : list str) (ws : list value), nodup_str names = true -> nodup_str (map fst (combine names ws)) = true).
            { induction names as [|a names IHn]; intros [|w ws] Hd; cbn in *; auto.
              apply andb_true_iff in Hd. destruct Hd as [D1 D2]. apply andb_true_iff. split; auto.
              apply negb_true_iff. apply negb_true_iff in D1. apply mem_combine. exact D1. }
            apply G. exact Hnd.
          - apply Hn; [lia|]. exact Hnd. }
        rewrite (de_fields_FV _ _ _ _ Hfv). reflexivity.
  Qed.
End ViaJson.

(* the premises of via_VIA on a sample, for the reference spelling of serde_json floats *)
Lemma via_premises_sample :
  forallb (fun x => match num_event (fmt_sj_ref x) with EvF y => y =? x | _ => false end) sample64 = true /\
  forallb (fun b => de_f32 (fmt_sj_ref (f64_of_f32 b)) =? b) sample32 = true.
Proof. split; vm_compute; reflexivity. Qed.

Print Assumptions via_VIA.
Print Assumptions shape_SH.
