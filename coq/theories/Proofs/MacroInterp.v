(* Proofs/MacroInterp.v -- the reference rule set of `json!` in the embedding of
   Model/MacroSyntax.v, a generic interpreter of that embedding, and the proof that the
   hand-written rule functions of Model/Macro.v are that interpreter on the reference rules.

   1. [model_rules]: the 41 rules the functions rA1 .. rM9 of Model/Macro.v implement, written
      by hand (same order as [Macro.rules]).  Proofs/MacroRulesTie.v proves that this is the
      rule set lib/macro_translate.py reads off src/macros.rs ([rules_tie]).
   2. [interp_step]: a generic first-match interpreter of the embedding on the token domain of
      Model/Macro.v (the matcher for the fragment classes reuses [lit_frag] / [expr_frag];
      transcription builds the [out] of the model).
   3. [step_model_is_interp]: on every invocation [inv_ok] -- one that uses the internal
      markers as src/macros.rs says they must be used (`@array [acc] ..`,
      `@object [acc] (key) (rest) copy`, `@key (k)`) with parsed expressions in the accumulator --
      one step of the model's hand-written dispatcher [first_match rules] IS one step of
      [interp_step model_rules]; rule by rule, all 41 ([rules_agree], lemmas agree_A1 .. agree_M9).
      Outside that domain the two differ ([step_model_needs_inv_ok]): Model/Macro.v only accepts
      already parsed accumulator items, the generic matcher re-parses them as rustc would.
      [inv_ok_step]: every invocation a step produces is again [inv_ok].
   4. [expand_is_interp]: hence whole expansions agree.  [mrun_with step] is [mrun] of
      Model/Macro.v with the one-step function as a parameter ([mrun_is_with]); under the
      invariant [deep_ok] (accumulator items stand for invocations without internal marker;
      preserved by every step, [deep_step], and true of every invocation without marker,
      [user_deep]) [mrun] = [mrun_with (interp_step model_rules)], so for every invocation
      written by a user of the macro, [expand] is the generic interpreter iterated. *)
From Coq Require Import String.
From JsonSyntax Require Import Base.Prelude Base.Value Model.Macro Model.MacroSyntax.

Local Open Scope string_scope.

(* ================================================================================== *)
(* 1. the reference rule set                                                           *)
(* ================================================================================== *)
Definition comma : stok := SPunct ",".
Definition pI (s : string) : pat := PTok (SIdent s).
Definition pP (s : string) : pat := PTok (SPunct s).
Definition xI (s : string) : tmpl := XTok (SIdent s).
Definition xP (s : string) : tmpl := XTok (SPunct s).

(* pattern pieces *)
Definition p_trail (x : nat) : pat := PGroup Bracket [PRep [PVar x FExpr; pP ","] None RStar].  (* [$($x:expr,)*] *)
Definition p_sep (x : nat) : pat := PGroup Bracket [PRep [PVar x FExpr] (Some comma) RStar].     (* [$($x:expr),*] *)
Definition p_tts (x : nat) : pat := PRep [PVar x FTt] None RStar.                                 (* $($x:tt)*      *)
Definition p_tts1 (x : nat) : pat := PRep [PVar x FTt] None RPlus.                                (* $($x:tt)+      *)
Definition p_unit : pat := PGroup Paren [].                                                       (* ()             *)
(* template pieces *)
Definition x_trail (x : nat) : tmpl := XRep [XVar x; xP ","] None RStar.                          (* $($x,)*        *)
Definition x_sep (x : nat) : tmpl := XRep [XVar x] (Some comma) RStar.                            (* $($x),*        *)
Definition x_tts (x : nat) : tmpl := XRep [XVar x] None RStar.                                    (* $($x)*         *)
Definition x_tts1 (x : nat) : tmpl := XRep [XVar x] None RPlus.                                   (* $($x)+         *)
Definition x_unit : tmpl := XGroup Paren [].
Definition x_json (ts : list tmpl) : tmpl := XMac MJson Paren ts.                                 (* json!( ts )    *)
Definition x_vec (ts : list tmpl) : tmpl := XMac MJsonVec Bracket ts.                             (* json_vec![ ts ] *)

(* ---------- @array ---------- *)
(* (@array [$($elems:expr,)*] REST) *)
Definition arr_p (rest : list pat) : list pat := pP "@" :: pI "array" :: p_trail 0 :: rest.
(* (@array [$($elems:expr),*] REST) *)
Definition arr_p_sep (rest : list pat) : list pat := pP "@" :: pI "array" :: p_sep 0 :: rest.
(* json!(@array [$($elems,)* LAST] $($rest)* )      -- [arr_push] *)
Definition arr_x (last : list tmpl) (rest : list tmpl) : list tmpl :=
  [x_json (xP "@" :: xI "array" :: XGroup Bracket (x_trail 0 :: last) :: rest)].

Definition mA1 := Rule (arr_p []) [x_vec [x_trail 0]].
Definition mA2 := Rule (arr_p_sep []) [x_vec [x_sep 0]].
Definition mA3 := Rule (arr_p [pI "null"; p_tts 1]) (arr_x [x_json [xI "null"]] [x_tts 1]).
Definition mA4 := Rule (arr_p [pI "true"; p_tts 1]) (arr_x [x_json [xI "true"]] [x_tts 1]).
Definition mA5 := Rule (arr_p [pI "false"; p_tts 1]) (arr_x [x_json [xI "false"]] [x_tts 1]).
Definition mA6 := Rule (arr_p [PVar 1 FLiteral; p_tts 2]) (arr_x [x_json [XVar 1]] [x_tts 2]).
Definition mA7 := Rule (arr_p [PGroup Bracket [p_tts 1]; p_tts 2]) (arr_x [x_json [XGroup Bracket [x_tts 1]]] [x_tts 2]).
Definition mA8 := Rule (arr_p [PGroup Brace [p_tts 1]; p_tts 2]) (arr_x [x_json [XGroup Brace [x_tts 1]]] [x_tts 2]).
Definition mA9 := Rule (arr_p [PVar 1 FExpr; pP ","; p_tts 2]) (arr_x [x_json [XVar 1]; xP ","] [x_tts 2]).
Definition mA10 := Rule (arr_p [PVar 1 FExpr]) (arr_x [x_json [XVar 1]] []).
Definition mA11 := Rule (arr_p_sep [pP ","; p_tts 1]) (arr_x [] [x_tts 1]).
Definition mA12 := Rule (arr_p_sep [PVar 1 FTt; p_tts 2]) [XMac MUnexpected Paren [XVar 1]].

(* ---------- @object, @key ---------- *)
(* (@object [$($elems:expr,)*] KEY REST COPY) *)
Definition obj_p (key rest copy : pat) : list pat := [pP "@"; pI "object"; p_trail 0; key; rest; copy].
Definition obj_p_sep (key rest copy : pat) : list pat := [pP "@"; pI "object"; p_sep 0; key; rest; copy].
(* json!(@object [ACC] KEY REST COPY) *)
Definition obj_x (acc : list tmpl) (key rest copy : tmpl) : list tmpl :=
  [x_json [xP "@"; xI "object"; XGroup Bracket acc; key; rest; copy]].
(* $crate::object::Entry::new(json!(@key ($($key)+)), json!(V)) with $key = variable 1 *)
Definition x_entry (v : list tmpl) : tmpl :=
  XBuild BEntryNew [[x_json [xP "@"; xI "key"; XGroup Paren [x_tts1 1]]]; [x_json v]].
(* the head `($($key:tt)+) (: VALUE) $copy:tt` of rO3 .. rO10 *)
Definition obj_value_p (value : list pat) (copy : nat) : list pat :=
  obj_p (PGroup Paren [p_tts1 1]) (PGroup Paren (pP ":" :: value)) (PVar copy FTt).
(* json!(@object [$($elems,)* ENTRY] () ($($rest)* ) ($($rest)* ))      -- [obj_push] *)
Definition obj_push_x (v : list tmpl) (rest : nat) : list tmpl :=
  obj_x [x_trail 0; x_entry v] x_unit (XGroup Paren [x_tts rest]) (XGroup Paren [x_tts rest]).

Definition mO1 := Rule (obj_p p_unit p_unit p_unit) [XBuild BFromVec [[x_vec [x_trail 0]]]].
Definition mO2 := Rule (obj_p_sep p_unit p_unit p_unit) [XBuild BFromVec [[x_vec [x_sep 0]]]].
Definition mK1 := Rule [pP "@"; pI "key"; PGroup Paren [PVar 0 FLiteral]] [XBuild BInto [[XVar 0]]].
Definition mK2 := Rule [pP "@"; pI "key"; PGroup Paren [PVar 0 FExpr]] [XBuild BInto [[XVar 0]]].
Definition mO3 := Rule (obj_value_p [pI "null"; p_tts 2] 3) (obj_push_x [xI "null"] 2).
Definition mO4 := Rule (obj_value_p [pI "true"; p_tts 2] 3) (obj_push_x [xI "true"] 2).
Definition mO5 := Rule (obj_value_p [pI "false"; p_tts 2] 3) (obj_push_x [xI "false"] 2).
Definition mO6 := Rule (obj_value_p [PVar 2 FLiteral; p_tts 3] 4) (obj_push_x [XVar 2] 3).
Definition mO7 := Rule (obj_value_p [PGroup Bracket [p_tts 2]; p_tts 3] 4) (obj_push_x [XGroup Bracket [x_tts 2]] 3).
Definition mO8 := Rule (obj_value_p [PGroup Brace [p_tts 2]; p_tts 3] 4) (obj_push_x [XGroup Brace [x_tts 2]] 3).
Definition mO9 := Rule (obj_value_p [PVar 2 FExpr; pP ","; p_tts 3] 4)
  (obj_x [x_trail 0; x_entry [XVar 2]; xP ","] x_unit (XGroup Paren [x_tts 3]) (XGroup Paren [x_tts 3])).
Definition mO10 := Rule (obj_value_p [PVar 2 FExpr] 3)
  (obj_x [x_trail 0; x_entry [XVar 2]] x_unit x_unit x_unit).
Definition mO11 := Rule (obj_p_sep p_unit (PGroup Paren [pP ","; p_tts 1]) (PVar 2 FTt))
  (obj_x [x_trail 0] x_unit (XGroup Paren [x_tts 1]) (XGroup Paren [x_tts 1])).
Definition mO12 := Rule (obj_p (PGroup Paren [p_tts1 1]) (PGroup Paren [pP ":"]) (PVar 2 FTt)) [x_json []].
Definition mO13 := Rule (obj_p (PGroup Paren [p_tts1 1]) p_unit (PVar 2 FTt)) [x_json []].
Definition mO14 := Rule (obj_p p_unit (PGroup Paren [pP ":"; p_tts 1]) (PGroup Paren [PVar 2 FTt; p_tts 3]))
  [XMac MUnexpected Paren [XVar 2]].
Definition mO15 := Rule (obj_p (PGroup Paren [p_tts 1]) (PGroup Paren [pP ","; p_tts 2]) (PGroup Paren [PVar 3 FTt; p_tts 4]))
  [XMac MUnexpected Paren [XVar 3]].
Definition mO16 := Rule (obj_p p_unit (PGroup Paren [PGroup Paren [PVar 1 FExpr]; pP ":"; p_tts 2]) (PVar 3 FTt))
  (obj_x [x_trail 0] (XGroup Paren [XVar 1]) (XGroup Paren [xP ":"; x_tts 2]) (XGroup Paren [xP ":"; x_tts 2])).
Definition mO17 := Rule (obj_p (PGroup Paren [p_tts 1]) (PGroup Paren [pP ":"; p_tts1 2]) (PVar 3 FTt))
  [XMac MExpectExprComma Paren [x_tts1 2]].
Definition mO18 := Rule (obj_p (PGroup Paren [p_tts 1]) (PGroup Paren [PVar 2 FTt; p_tts 3]) (PVar 4 FTt))
  (obj_x [x_trail 0] (XGroup Paren [x_tts 1; XVar 2]) (XGroup Paren [x_tts 3]) (XGroup Paren [x_tts 3])).

(* ---------- the entry rules ---------- *)
Definition mM1 := Rule [pI "null"] [XBuild BNull []].
Definition mM2 := Rule [pI "true"] [XBuild BBoolean [[xI "true"]]].
Definition mM3 := Rule [pI "false"] [XBuild BBoolean [[xI "false"]]].
Definition mM4 := Rule [PVar 0 FLiteral] [XBuild BTryFromUnwrap [[XVar 0]]].
Definition mM5 := Rule [PGroup Bracket []] [XBuild BArray [[x_vec []]]].
Definition mM6 := Rule [PGroup Bracket [p_tts1 0]]
  [XBuild BArray [[x_json [xP "@"; xI "array"; XGroup Bracket []; x_tts1 0]]]].
Definition mM7 := Rule [PGroup Brace []] [XBuild BObject [[XBuild BObjectNew []]]].
Definition mM8 := Rule [PGroup Brace [p_tts1 0]]
  [XBuild BObject [[x_json [xP "@"; xI "object"; XGroup Bracket []; x_unit; XGroup Paren [x_tts1 0]; XGroup Paren [x_tts1 0]]]]].
Definition mM9 := Rule [PVar 0 FExpr] [XBuild BFrom [[XVar 0]]].

(* in the order of [Macro.rules] *)
Definition model_rules : list rule :=
  [mA1; mA2; mA3; mA4; mA5; mA6; mA7; mA8; mA9; mA10; mA11; mA12;
   mO1; mO2; mK1; mK2;
   mO3; mO4; mO5; mO6; mO7; mO8; mO9; mO10; mO11; mO12; mO13; mO14; mO15; mO16; mO17; mO18;
   mM1; mM2; mM3; mM4; mM5; mM6; mM7; mM8; mM9].

Local Close Scope string_scope.

(* ================================================================================== *)
(* 2. a generic first-match interpreter of the embedding                               *)
(* ================================================================================== *)
(* Source tokens on the token domain of Model/Macro.v.  Anything else (`::`, `.`, a literal
   written in a rule ..) is not a token of that domain: a rule that needs it is an error. *)
Definition tok_of (k : stok) : option tt :=
  match k with
  | SIdent s =>
      Some (if String.eqb s "null"%string then TIdent INull
            else if String.eqb s "true"%string then TLit (LBool true)
            else if String.eqb s "false"%string then TLit (LBool false)
            else if String.eqb s "array"%string then TIdent IArray
            else if String.eqb s "object"%string then TIdent IObject
            else if String.eqb s "key"%string then TIdent IKey
            else TIdent (IVar (s2l s)))
  | SPunct s =>
      if String.eqb s "@"%string then Some (TPunct PAt)
      else if String.eqb s ","%string then Some (TPunct PComma)
      else if String.eqb s ":"%string then Some (TPunct PColon)
      else if String.eqb s "-"%string then Some (TPunct PMinus)
      else None
  | SLit _ => None
  end.

Definition ident_eqb (a b : ident) : bool :=
  match a, b with
  | INull, INull | IArray, IArray | IObject, IObject | IKey, IKey => true
  | IVar x, IVar y => str_eqb x y
  | _, _ => false
  end.
Definition punct_eqb (a b : punct) : bool :=
  match a, b with
  | PAt, PAt | PComma, PComma | PColon, PColon | PMinus, PMinus => true
  | _, _ => false
  end.
Definition delim_eqb (a b : delim) : bool :=
  match a, b with
  | Paren, Paren | Bracket, Bracket | Brace, Brace => true
  | _, _ => false
  end.
(* does the input tree [t] match the pattern token [a] (an image of [tok_of])?  An
   interpolated fragment [TNt] is opaque: it matches no token. *)
Definition tok_eqb (a t : tt) : bool :=
  match a, t with
  | TIdent i, TIdent j => ident_eqb i j
  | TPunct p, TPunct q => punct_eqb p q
  | TLit (LBool x), TLit (LBool y) => Bool.eqb x y
  | _, _ => false
  end.

(* bindings: a metavariable outside any repetition holds one tree (an `expr` / `literal`
   fragment is the interpolated tree [TNt e]); one under a repetition holds a sequence.
   Repetitions nested in repetitions do not occur in this macro and are an error here. *)
Inductive bind := BOne (t : tt) | BSeq (ts : list tt).
Definition benv := list (nat * bind).
Fixpoint lookup (x : nat) (env : benv) : option bind :=
  match env with
  | [] => None
  | (y, b) :: r => if Nat.eqb x y then Some b else lookup x r
  end.

(* ---------- matching ---------- *)
(* FNo: this rule does not match; FErr: rustc commits to a fragment parser that then fails,
   a hard error; FOk: bindings and the rest of the input *)
Definition matcher := list tt -> benv -> frag (benv * list tt).

Definition m_tok (k : stok) : matcher := fun ts env =>
  match tok_of k with
  | None => FErr
  | Some a => match ts with
              | t :: r => if tok_eqb a t then FOk (env, r) else FNo
              | [] => FNo
              end
  end.

Definition m_var (x : nat) (f : fragk) : matcher := fun ts env =>
  match f with
  | FTt => match ts with t :: r => FOk ((x, BOne t) :: env, r) | [] => FNo end
  | FExpr => match expr_frag ts with
             | FOk (e, r) => FOk ((x, BOne (TNt e)) :: env, r)
             | FErr => FErr
             | FNo => FNo
             end
  | FLiteral => match lit_frag ts with
                | FOk (e, r) => FOk ((x, BOne (TNt e)) :: env, r)
                | FErr => FErr
                | FNo => FNo
                end
  | _ => FErr
  end.

Fixpoint m_seq (ms : list matcher) : matcher := fun ts env =>
  match ms with
  | [] => FOk (env, ts)
  | m :: ms' => match m ts env with
                | FOk (env', r) => m_seq ms' r env'
                | FErr => FErr
                | FNo => FNo
                end
  end.

(* the whole input must be consumed *)
Definition m_all (m : matcher) (ts : list tt) (env : benv) : frag benv :=
  match m ts env with
  | FOk (env', []) => FOk env'
  | FOk _ => FNo
  | FErr => FErr
  | FNo => FNo
  end.

Definition m_group (d : delim) (m : matcher) : matcher := fun ts env =>
  match ts with
  | TGroup d' inner :: r =>
      if delim_eqb d d' then
        match m_all m inner env with
        | FOk env' => FOk (env', r)
        | FErr => FErr
        | FNo => FNo
        end
      else FNo
  | _ => FNo
  end.

(* Repetition, greedy and without backtracking: the body is matched (each time from an empty
   environment) as long as it matches; a body that does not match ends the repetition and
   leaves its input to what follows.  After a separator the body MUST match.  Every repetition
   of this macro is the last item of its group, where this is what rustc's matcher does.
   Result: the environments of the iterations, in order. *)
Fixpoint rep_loop (fuel : nat) (body : matcher) (sep : option tt) (must : bool) (ts : list tt)
  : frag (list benv * list tt) :=
  match fuel with
  | O => FErr
  | S f =>
      match body ts [] with
      | FErr => FErr
      | FNo => if must then FNo else FOk ([], ts)
      | FOk (e, r) =>
          match sep with
          | None =>
              match rep_loop f body sep false r with
              | FOk (es, r') => FOk (e :: es, r')
              | FErr => FErr
              | FNo => FNo
              end
          | Some s =>
              match r with
              | t :: r1 =>
                  if tok_eqb s t then
                    match rep_loop f body sep true r1 with
                    | FOk (es, r') => FOk (e :: es, r')
                    | FErr => FErr
                    | FNo => FNo
                    end
                  else FOk ([e], r)
              | [] => FOk ([e], [])
              end
          end
      end
  end.

Definition get_one (x : nat) (e : benv) : tt :=
  match lookup x e with Some (BOne t) => t | _ => TPunct PComma end.

Definition m_rep (vars : list nat) (body : matcher) (sep : option tt) (k : repk) : matcher := fun ts env =>
  let finish (es : list benv) (r : list tt) :=
    FOk (map (fun x => (x, BSeq (map (get_one x) es))) vars ++ env, r) in
  match k with
  | ROpt =>
      match body ts [] with
      | FOk (e, r) => finish [e] r
      | FNo => finish [] ts
      | FErr => FErr
      end
  | _ =>
      match rep_loop (S (List.length ts)) body sep false ts with
      | FOk (es, r) =>
          match k, es with
          | RPlus, [] => FNo
          | _, _ => finish es r
          end
      | FErr => FErr
      | FNo => FNo
      end
  end.

Fixpoint has_rep (p : pat) : bool :=
  match p with
  | PRep _ _ _ => true
  | PGroup _ ps => existsb has_rep ps
  | _ => false
  end.
Fixpoint pvars (p : pat) : list nat :=
  match p with
  | PVar x _ => [x]
  | PGroup _ ps => flat_map pvars ps
  | PRep ps _ _ => flat_map pvars ps
  | PTok _ => []
  end.
Definition sep_tok (sep : option stok) : option (option tt) :=
  match sep with
  | None => Some None
  | Some k => match tok_of k with Some t => Some (Some t) | None => None end
  end.
Definition m_fail : matcher := fun _ _ => FErr.

Fixpoint m_pat (p : pat) : matcher :=
  match p with
  | PTok k => m_tok k
  | PVar x f => m_var x f
  | PGroup d ps => m_group d (m_seq (map m_pat ps))
  | PRep ps sep k =>
      match sep_tok sep with
      | Some s => if existsb has_rep ps then m_fail
                  else m_rep (flat_map pvars ps) (m_seq (map m_pat ps)) s k
      | None => m_fail
      end
  end.

Definition m_rule (ps : list pat) (ts : list tt) : frag benv := m_all (m_seq (map m_pat ps)) ts [].

(* ---------- transcription ---------- *)
Definition transcriber := benv -> option (list tt).

Fixpoint t_seq (fs : list transcriber) : transcriber := fun env =>
  match fs with
  | [] => Some []
  | f :: fs' => match f env, t_seq fs' env with
                | Some a, Some b => Some (a ++ b)
                | _, _ => None
                end
  end.

Fixpoint tvars (t : tmpl) : list nat :=
  match t with
  | XTok _ => []
  | XVar x => [x]
  | XGroup _ ts => flat_map tvars ts
  | XRep ts _ _ => flat_map tvars ts
  | XMac _ _ ts => flat_map tvars ts
  | XBuild _ args => flat_map (flat_map tvars) args
  end.

(* the variables of a repetition body that hold sequences drive it *)
Fixpoint seq_vars (vars : list nat) (env : benv) : list (nat * list tt) :=
  match vars with
  | [] => []
  | x :: r => match lookup x env with
              | Some (BSeq l) => (x, l) :: seq_vars r env
              | _ => seq_vars r env
              end
  end.
Fixpoint heads (seqs : list (nat * list tt)) : option (benv * list (nat * list tt)) :=
  match seqs with
  | [] => Some ([], [])
  | (x, l) :: r =>
      match l, heads r with
      | t :: l', Some (hs, tls) => Some ((x, BOne t) :: hs, (x, l') :: tls)
      | _, _ => None
      end
  end.
Definition all_empty (seqs : list (nat * list tt)) : bool :=
  forallb (fun s => match snd s with [] => true | _ => false end) seqs.
(* one transcription of the body per element of [l0] (the first sequence variable); the
   other sequences must have the same length *)
Fixpoint t_iter (l0 : list tt) (x0 : nat) (others : list (nat * list tt)) (body : transcriber) (env : benv)
  : option (list (list tt)) :=
  match l0 with
  | [] => if all_empty others then Some [] else None
  | t :: l0' =>
      match heads others with
      | None => None
      | Some (hs, tls) =>
          match body ((x0, BOne t) :: hs ++ env), t_iter l0' x0 tls body env with
          | Some a, Some b => Some (a :: b)
          | _, _ => None
          end
      end
  end.
Fixpoint join_sep (sep : option tt) (parts : list (list tt)) : list tt :=
  match parts with
  | [] => []
  | [a] => a
  | a :: r => a ++ (match sep with Some s => [s] | None => [] end) ++ join_sep sep r
  end.
Fixpoint dedup (l : list nat) : list nat :=
  match l with
  | [] => []
  | x :: r => if existsb (Nat.eqb x) r then dedup r else x :: dedup r
  end.
Definition t_rep (vars : list nat) (body : transcriber) (sep : option tt) : transcriber := fun env =>
  match seq_vars (dedup vars) env with
  | [] => None
  | (x0, l0) :: others =>
      match t_iter l0 x0 others body env with
      | Some parts => Some (join_sep sep parts)
      | None => None
      end
  end.

(* Nested expressions inside an invocation: `json!( ts )` is the expression [EJson ts];
   `$crate::object::Entry::new(json!(@key (k)), json!(v))` is [EEntry k v] (the two expression
   forms the accumulators of Model/Macro.v hold); anything else is outside the model: None *)
Fixpoint t_tmpl (t : tmpl) : transcriber :=
  match t with
  | XTok k => fun _ => match tok_of k with Some a => Some [a] | None => None end
  | XVar x => fun env => match lookup x env with Some (BOne a) => Some [a] | _ => None end
  | XGroup d ts => fun env =>
      match t_seq (map t_tmpl ts) env with Some l => Some [TGroup d l] | None => None end
  | XRep ts sep _ =>
      match sep_tok sep with
      | Some s => t_rep (flat_map tvars ts) (t_seq (map t_tmpl ts)) s
      | None => fun _ => None
      end
  | XMac MJson _ ts => fun env =>
      match t_seq (map t_tmpl ts) env with Some l => Some [TNt (EJson l)] | None => None end
  | XMac _ _ _ => fun _ => None
  | XBuild BEntryNew args => fun env =>
      match map (fun a => t_seq (map t_tmpl a) env) args with
      | [Some [TNt (EJson [TPunct PAt; TIdent IKey; TGroup Paren k])]; Some [TNt (EJson v)]] =>
          Some [TNt (EEntry k v)]
      | _ => None
      end
  | XBuild _ _ => fun _ => None
  end.

Definition t_args (ts : list tmpl) : transcriber := t_seq (map t_tmpl ts).

(* the elements of `json_vec![ .. ]`: parsed expressions separated by commas, with or without
   a trailing comma *)
Fixpoint vec_elems (l : list tt) : option (list expr) :=
  match l with
  | [] => Some []
  | TNt e :: r0 =>
      match r0 with
      | [] => Some [e]
      | TPunct PComma :: r =>
          match vec_elems r with Some es => Some (e :: es) | None => None end
      | _ => None
      end
  | _ => None
  end.

(* the right-hand side as a whole: the [out] of Model/Macro.v *)
Definition t_mac (m : mac) (ts : list tmpl) (env : benv) : option out :=
  match m with
  | MJson =>
      match ts with
      | [] => Some OError      (* `json!()`: no rule matches the empty invocation ([step_model_nil]) *)
      | _ => match t_args ts env with Some l => Some (OInvoke l) | None => None end
      end
  | MJsonVec =>
      match t_args ts env with
      | Some l => match vec_elems l with Some es => Some (OVec es) | None => None end
      | None => None
      end
  | MUnexpected | MExpectExprComma =>       (* helper macros whose only purpose is an error message *)
      match t_args ts env with Some (_ :: _) => Some OError | _ => None end
  | MOther _ => None
  end.

Definition t_one_expr (a : list tmpl) (env : benv) : option expr :=
  match t_args a env with Some [TNt e] => Some e | _ => None end.

Definition t_build (b : builder) (args : list (list tmpl)) (env : benv) : option out :=
  match b, args with
  | BNull, [] => Some ONull
  | BBoolean, [a] => match t_args a env with Some [TLit (LBool v)] => Some (OBool v) | _ => None end
  | BTryFromUnwrap, [a] => match t_one_expr a env with Some e => Some (OTryFrom e) | None => None end
  | BFrom, [a] => match t_one_expr a env with Some e => Some (OFrom e) | None => None end
  | BInto, [a] => match t_one_expr a env with Some e => Some (OKeyInto e) | None => None end
  | BArray, [[XMac m _ ts]] =>
      match t_mac m ts env with
      | Some (OVec []) => Some (OArray None)
      | Some (OInvoke inv) => Some (OArray (Some inv))
      | _ => None
      end
  | BObject, [[XBuild BObjectNew []]] => Some (OObject None)
  | BObject, [[XMac m _ ts]] =>
      match t_mac m ts env with
      | Some (OInvoke inv) => Some (OObject (Some inv))
      | _ => None
      end
  | BFromVec, [[XMac m _ ts]] =>
      match t_mac m ts env with
      | Some (OVec es) => Some (OFromVec es)
      | _ => None
      end
  | _, _ => None
  end.

Definition t_out (t : list tmpl) (env : benv) : option out :=
  match t with
  | [XMac m _ ts] => t_mac m ts env
  | [XBuild b args] => t_build b args env
  | _ => None
  end.

(* one rule: a hard error while matching, or a right-hand side outside what the interpreter
   understands, is an error -- the convention of Model/Macro.v ([OError]) *)
Definition apply_rule (r : rule) (ts : list tt) : mres :=
  match m_rule (rule_pat r) ts with
  | FNo => NoMatch
  | FErr => Match OError
  | FOk env => match t_out (rule_tmpl r) env with Some o => Match o | None => Match OError end
  end.

(* first matching rule wins *)
Definition interp_step (rs : list rule) (ts : list tt) : option out :=
  first_match (map apply_rule rs) ts.

(* the model's hand-written dispatcher *)
Definition step_model (ts : list tt) : option out := first_match rules ts.

(* ================================================================================== *)
(* 3. the rule functions of Model/Macro.v are the interpreter on [model_rules]        *)
(* ================================================================================== *)
(* the accumulator of a muncher invocation holds parsed expressions and commas only *)
Definition parsed_tok (t : tt) : bool :=
  match t with TNt _ => true | TPunct PComma => true | _ => false end.
Definition acc_parsed (inv : list tt) : Prop :=
  match inv with
  | TPunct PAt :: TIdent _ :: TGroup Bracket acc :: _ => forallb parsed_tok acc = true
  | _ => True
  end.

Arguments m_rep : simpl never.
Arguments t_rep : simpl never.
Arguments rep_loop : simpl never.

Definition trail_toks (l : list tt) : list tt := flat_map (fun t => [t; TPunct PComma]) l.
Definition sep_toks (l : list tt) : list tt := join_sep (Some (TPunct PComma)) (map (fun t => [t]) l).

Lemma trail_toks_emit es : trail_toks (map TNt es) = emit_trail es.
Proof. unfold trail_toks, emit_trail. induction es as [|e es IH]; [reflexivity|]. cbn. rewrite IH. reflexivity. Qed.

Lemma get_one_map x (f : expr -> tt) es :
  map (get_one x) (map (fun e => [(x, BOne (f e))]) es) = map f es.
Proof.
  induction es as [|e es IH]; [reflexivity|]. cbn [map]. rewrite IH. unfold get_one. cbn [lookup].
  rewrite Nat.eqb_refl. reflexivity.
Qed.

Lemma get_one_map_tt x ts :
  map (get_one x) (map (fun t => [(x, BOne t)]) ts) = ts.
Proof.
  induction ts as [|t ts IH]; [reflexivity|]. cbn [map]. rewrite IH. unfold get_one. cbn [lookup].
  rewrite Nat.eqb_refl. reflexivity.
Qed.

(* ---------- the three repetition shapes of the patterns ---------- *)
Definition body_trail (x : nat) : matcher := m_seq [m_var x FExpr; m_tok (SPunct ",")].
Definition body_expr (x : nat) : matcher := m_seq [m_var x FExpr].
Definition body_tt (x : nat) : matcher := m_seq [m_var x FTt].

Lemma parsed_cons t r : forallb parsed_tok (t :: r) = true ->
  ((exists e, t = TNt e) \/ t = TPunct PComma) /\ forallb parsed_tok r = true.
Proof.
  cbn [forallb]. intros H. apply andb_true_iff in H. destruct H as [Ht Hr]. split; [|exact Hr].
  destruct t as [i|l|p|d g|e]; try discriminate Ht.
  - destruct p; try discriminate Ht. right; reflexivity.
  - left; eexists; reflexivity.
Qed.

Lemma expr_frag_parsed e r : forallb parsed_tok r = true -> expr_frag (TNt e :: r) = FOk (e, r).
Proof.
  intros H. destruct r as [|t r]; [reflexivity|].
  apply parsed_cons in H. destruct H as [[[e' ->]| ->] _]; reflexivity.
Qed.

Lemma body_trail_spec x ts : forallb parsed_tok ts = true ->
  body_trail x ts [] = match ts with
                       | TNt e :: TPunct PComma :: r => FOk ([(x, BOne (TNt e))], r)
                       | _ => FNo
                       end.
Proof.
  intros H. destruct ts as [|t r]; [reflexivity|].
  apply parsed_cons in H. destruct H as [[[e ->]| ->] Hr]; [|reflexivity].
  unfold body_trail. cbn [m_seq m_var]. rewrite (expr_frag_parsed e r Hr).
  destruct r as [|t2 r2]; [reflexivity|].
  apply parsed_cons in Hr. destruct Hr as [[[e' ->]| ->] _]; reflexivity.
Qed.

Lemma body_expr_spec x ts : forallb parsed_tok ts = true ->
  body_expr x ts [] = match ts with
                      | TNt e :: r => FOk ([(x, BOne (TNt e))], r)
                      | _ => FNo
                      end.
Proof.
  intros H. destruct ts as [|t r]; [reflexivity|].
  apply parsed_cons in H. destruct H as [[[e ->]| ->] Hr]; [|reflexivity].
  unfold body_expr. cbn [m_seq m_var]. rewrite (expr_frag_parsed e r Hr). reflexivity.
Qed.

Lemma rep_trail x : forall fuel ts, (List.length ts < fuel)%nat -> forallb parsed_tok ts = true ->
  match elems_trail ts with
  | Some es => rep_loop fuel (body_trail x) None false ts = FOk (map (fun e => [(x, BOne (TNt e))]) es, [])
  | None => exists es r, r <> [] /\ rep_loop fuel (body_trail x) None false ts = FOk (es, r)
  end.
Proof.
  induction fuel as [|f IH]; intros ts Hl Hp; [inversion Hl|].
  unfold rep_loop; fold rep_loop. rewrite (body_trail_spec x ts Hp).
  destruct ts as [|t r]; [reflexivity|].
  destruct t as [i|l|p|d g|e]; try (cbn [elems_trail]; eexists [], _; split; [|reflexivity]; discriminate).
  destruct r as [|t2 r2]; [cbn [elems_trail]; eexists [], _; split; [|reflexivity]; discriminate|].
  destruct t2 as [i|l|p|d g|e2]; try (cbn [elems_trail]; eexists [], _; split; [|reflexivity]; discriminate).
  destruct p; try (cbn [elems_trail]; eexists [], _; split; [|reflexivity]; discriminate).
  cbn [elems_trail].
  assert (Hp2 : forallb parsed_tok r2 = true).
  { apply parsed_cons in Hp. destruct Hp as [_ Hp]. apply parsed_cons in Hp. tauto. }
  assert (Hl2 : (List.length r2 < f)%nat) by (cbn [List.length] in Hl; lia).
  specialize (IH r2 Hl2 Hp2). destruct (elems_trail r2) as [es|].
  - rewrite IH. reflexivity.
  - destruct IH as (es & r' & Hne & Heq). rewrite Heq. eexists _, r'. split; [exact Hne|reflexivity].
Qed.

Lemma elems_sep_cons2 e t r :
  elems_sep (TNt e :: TPunct PComma :: t :: r)
  = match elems_sep (t :: r) with Some es => Some (e :: es) | None => None end.
Proof. reflexivity. Qed.

Lemma rep_sep x : forall fuel ts must, (List.length ts < fuel)%nat -> forallb parsed_tok ts = true ->
  match ts with
  | [] => rep_loop fuel (body_expr x) (Some (TPunct PComma)) must ts = if must then FNo else FOk ([], [])
  | _ =>
      match elems_sep ts with
      | Some es => rep_loop fuel (body_expr x) (Some (TPunct PComma)) must ts
                   = FOk (map (fun e => [(x, BOne (TNt e))]) es, [])
      | None => rep_loop fuel (body_expr x) (Some (TPunct PComma)) must ts = FNo
                \/ exists es r, r <> [] /\ rep_loop fuel (body_expr x) (Some (TPunct PComma)) must ts = FOk (es, r)
      end
  end.
Proof.
  induction fuel as [|f IH]; intros ts must Hl Hp; [inversion Hl|].
  unfold rep_loop; fold rep_loop. rewrite (body_expr_spec x ts Hp).
  destruct ts as [|t r]; [reflexivity|].
  destruct t as [i|l|p|d g|e];
    try (cbn [elems_sep]; destruct must; [left; reflexivity|right; eexists [], _; split; [|reflexivity]; discriminate]).
  destruct r as [|t2 r2]; [reflexivity|].
  assert (Hp2 : forallb parsed_tok r2 = true).
  { apply parsed_cons in Hp. destruct Hp as [_ Hp]. apply parsed_cons in Hp. tauto. }
  assert (Hl2 : (List.length r2 < f)%nat) by (cbn [List.length] in Hl; lia).
  destruct t2 as [i|l|p|d g|e2];
    try (cbn [elems_sep tok_eqb]; right; eexists _, _; split; [|reflexivity]; discriminate).
  destruct p; try (cbn [elems_sep tok_eqb punct_eqb]; right; eexists _, _; split; [|reflexivity]; discriminate).
  cbn [tok_eqb punct_eqb].
  specialize (IH r2 true Hl2 Hp2).
  destruct r2 as [|t3 r3].
  - rewrite IH. cbn [elems_sep]. left; reflexivity.
  - rewrite elems_sep_cons2. remember (t3 :: r3) as r2' eqn:E.
    destruct (elems_sep r2') as [es|].
    + rewrite IH. reflexivity.
    + destruct IH as [IH | (es & r' & Hne & Heq)].
      * rewrite IH. left; reflexivity.
      * rewrite Heq. right. eexists _, r'. split; [exact Hne|reflexivity].
Qed.

Lemma rep_tt x : forall fuel ts, (List.length ts < fuel)%nat ->
  rep_loop fuel (body_tt x) None false ts = FOk (map (fun t => [(x, BOne t)]) ts, []).
Proof.
  induction fuel as [|f IH]; intros ts Hl; [inversion Hl|].
  unfold rep_loop; fold rep_loop.
  destruct ts as [|t r]; [reflexivity|].
  unfold body_tt at 1. cbn [m_seq m_var]. rewrite IH by (cbn [List.length] in Hl; lia). reflexivity.
Qed.

(* ---------- the same, as equations on [m_pat] ---------- *)
Lemma m_pat_tts x ts env : m_pat (p_tts x) ts env = FOk ((x, BSeq ts) :: env, []).
Proof.
  unfold p_tts. cbn [m_pat sep_tok existsb has_rep orb flat_map pvars app map]. unfold m_rep.
  change (m_seq [m_var x FTt]) with (body_tt x). rewrite rep_tt by lia.
  cbn [map app]. rewrite get_one_map_tt. reflexivity.
Qed.

Lemma m_pat_tts1 x ts env :
  m_pat (p_tts1 x) ts env = match ts with [] => FNo | _ => FOk ((x, BSeq ts) :: env, []) end.
Proof.
  unfold p_tts1. cbn [m_pat sep_tok existsb has_rep orb flat_map pvars app map]. unfold m_rep.
  change (m_seq [m_var x FTt]) with (body_tt x). rewrite rep_tt by lia.
  destruct ts as [|t r]; [reflexivity|].
  cbn [map app]. rewrite get_one_map_tt. unfold get_one. cbn [lookup]. rewrite Nat.eqb_refl. reflexivity.
Qed.

Lemma m_trail_all x acc env : forallb parsed_tok acc = true ->
  m_all (m_seq (map m_pat [PRep [PVar x FExpr; pP ","] None RStar])) acc env
  = match elems_trail acc with Some es => FOk ((x, BSeq (map TNt es)) :: env) | None => FNo end.
Proof.
  intros Hp. unfold pP. cbn [m_pat sep_tok existsb has_rep orb flat_map pvars app map].
  change (m_seq [m_var x FExpr; m_tok (SPunct ",")]) with (body_trail x).
  unfold m_all. cbn [m_seq]. unfold m_rep.
  pose proof (rep_trail x (S (List.length acc)) acc (Nat.lt_succ_diag_r _) Hp) as H.
  destruct (elems_trail acc) as [es|].
  - rewrite H. cbn [map app]. rewrite get_one_map. reflexivity.
  - destruct H as (es & r & Hne & Heq). rewrite Heq. destruct r; [congruence|reflexivity].
Qed.

Lemma m_sep_all x acc env : forallb parsed_tok acc = true ->
  m_all (m_seq (map m_pat [PRep [PVar x FExpr] (Some comma) RStar])) acc env
  = match elems_sep acc with Some es => FOk ((x, BSeq (map TNt es)) :: env) | None => FNo end.
Proof.
  intros Hp. unfold comma. cbn [m_pat existsb has_rep orb flat_map pvars app map].
  change (sep_tok (Some (SPunct ","))) with (Some (Some (TPunct PComma))). cbv iota.
  change (m_seq [m_var x FExpr]) with (body_expr x).
  unfold m_all. cbn [m_seq]. unfold m_rep.
  pose proof (rep_sep x (S (List.length acc)) acc false (Nat.lt_succ_diag_r _) Hp) as H.
  destruct acc as [|t r]; [rewrite H; reflexivity|].
  destruct (elems_sep (t :: r)) as [es|].
  - rewrite H. cbn [map app]. rewrite get_one_map. reflexivity.
  - destruct H as [H | (es & r' & Hne & Heq)]; [rewrite H; reflexivity|].
    rewrite Heq. destruct r'; [congruence|reflexivity].
Qed.

(* ---------- the deep invariant of accumulators ---------- *)
(* an invocation written by the user of the macro: it does not begin with an internal marker *)
Definition user_inv (ts : list tt) : bool := match ts with TPunct PAt :: _ => false | _ => true end.
(* the nested invocations an accumulator item stands for are such *)
Definition expr_ok (e : expr) : bool :=
  match e with EJson a => user_inv a | EEntry _ v => user_inv v | _ => true end.
Definition deep_tok (t : tt) : bool :=
  match t with TNt e => expr_ok e | TPunct PComma => true | _ => false end.

Lemma deep_parsed acc : forallb deep_tok acc = true -> forallb parsed_tok acc = true.
Proof.
  induction acc as [|t acc IH]; [reflexivity|]. cbn [forallb]. intros H.
  apply andb_true_iff in H. destruct H as [Ht Ha]. rewrite (IH Ha).
  destruct t as [i|l|p|d g|e]; try discriminate Ht; [destruct p; try discriminate Ht|]; reflexivity.
Qed.

Lemma elems_trail_deep : forall n acc es, (List.length acc <= n)%nat -> elems_trail acc = Some es ->
  forallb deep_tok acc = true -> forallb expr_ok es = true.
Proof.
  induction n as [|n IH]; intros acc es Hl H Hd.
  - destruct acc; [inversion H; reflexivity|cbn [List.length] in Hl; lia].
  - destruct acc as [|t acc]; [inversion H; reflexivity|].
    destruct t as [i|l|p|d g|e]; try discriminate H.
    destruct acc as [|t2 r]; [discriminate H|].
    destruct t2 as [i|l|p|d g|e2]; try discriminate H. destruct p; try discriminate H.
    cbn [elems_trail] in H. destruct (elems_trail r) as [es'|] eqn:E; [|discriminate H].
    inversion H; subst. cbn [forallb deep_tok] in Hd |- *.
    apply andb_true_iff in Hd. destruct Hd as [He Hr]. cbn [andb] in Hr.
    rewrite He, (IH r es'); [reflexivity| cbn [List.length] in Hl; lia | exact E | exact Hr].
Qed.

Lemma elems_sep_deep : forall n acc es, (List.length acc <= n)%nat -> elems_sep acc = Some es ->
  forallb deep_tok acc = true -> forallb expr_ok es = true.
Proof.
  induction n as [|n IH]; intros acc es Hl H Hd.
  - destruct acc; [inversion H; reflexivity|cbn [List.length] in Hl; lia].
  - destruct acc as [|t acc]; [inversion H; reflexivity|].
    destruct t as [i|l|p|d g|e]; try discriminate H.
    destruct acc as [|t2 r]; [inversion H; subst; cbn [forallb deep_tok] in Hd |- *; exact Hd|].
    destruct t2 as [i|l|p|d g|e2]; try discriminate H. destruct p; try discriminate H.
    destruct r as [|t3 r3]; [discriminate H|].
    rewrite elems_sep_cons2 in H. destruct (elems_sep (t3 :: r3)) as [es'|] eqn:E; [|discriminate H].
    inversion H; subst. cbn [forallb deep_tok] in Hd. apply andb_true_iff in Hd. destruct Hd as [He Hr].
    cbn [andb] in Hr. cbn [forallb]. rewrite He.
    rewrite (IH (t3 :: r3) es'); [reflexivity| cbn [List.length] in Hl |- *; lia | exact E | exact Hr].
Qed.

Lemma deep_emit es : forallb expr_ok es = true -> forallb deep_tok (emit_trail es) = true.
Proof.
  induction es as [|e es IH]; [reflexivity|]. cbn [forallb]. intros H.
  apply andb_true_iff in H. destruct H as [He Hs].
  change (emit_trail (e :: es)) with (TNt e :: TPunct PComma :: emit_trail es).
  cbn [forallb deep_tok]. rewrite He, (IH Hs). reflexivity.
Qed.

(* ---------- the repetition shapes of the templates ---------- *)
Lemma t_rep_one x body sep env l : lookup x env = Some (BSeq l) ->
  t_rep [x] body sep env
  = match t_iter l x [] body env with Some parts => Some (join_sep sep parts) | None => None end.
Proof. intros H. unfold t_rep. cbn [dedup existsb seq_vars]. rewrite H. reflexivity. Qed.

Lemma t_iter_trail x env : forall l,
  t_iter l x [] (t_seq [t_tmpl (XVar x); t_tmpl (XTok (SPunct ","))]) env
  = Some (map (fun t => [t; TPunct PComma]) l).
Proof.
  induction l as [|a l IH]; [reflexivity|].
  cbn [t_iter heads all_empty forallb app]. rewrite IH.
  cbn [t_seq t_tmpl lookup]. rewrite Nat.eqb_refl. reflexivity.
Qed.

Lemma t_iter_one x env : forall l,
  t_iter l x [] (t_seq [t_tmpl (XVar x)]) env = Some (map (fun t => [t]) l).
Proof.
  induction l as [|a l IH]; [reflexivity|].
  cbn [t_iter heads all_empty forallb app]. rewrite IH.
  cbn [t_seq t_tmpl lookup]. rewrite Nat.eqb_refl. reflexivity.
Qed.

Lemma join_trail l : join_sep None (map (fun t => [t; TPunct PComma]) l) = trail_toks l.
Proof.
  unfold trail_toks. induction l as [|a [|b l] IH]; [reflexivity|reflexivity|].
  cbn [map join_sep flat_map app] in *. rewrite IH. reflexivity.
Qed.

Lemma join_one l : join_sep None (map (fun t : tt => [t]) l) = l.
Proof.
  induction l as [|a [|b l] IH]; [reflexivity|reflexivity|].
  cbn [map join_sep app] in *. rewrite IH. reflexivity.
Qed.

Lemma t_trail x env l : lookup x env = Some (BSeq l) -> t_tmpl (x_trail x) env = Some (trail_toks l).
Proof.
  intros H. unfold x_trail, xP. cbn [t_tmpl sep_tok flat_map tvars app].
  rewrite (t_rep_one x _ _ env l H). change (map t_tmpl [XVar x; XTok (SPunct ",")]) with [t_tmpl (XVar x); t_tmpl (XTok (SPunct ","))].
  rewrite t_iter_trail, join_trail. reflexivity.
Qed.

Lemma t_tts x k env l : lookup x env = Some (BSeq l) -> t_tmpl (XRep [XVar x] None k) env = Some l.
Proof.
  intros H. cbn [t_tmpl sep_tok flat_map tvars app].
  rewrite (t_rep_one x _ _ env l H). change (map t_tmpl [XVar x]) with [t_tmpl (XVar x)].
  rewrite t_iter_one, join_one. reflexivity.
Qed.

Lemma t_sep x env l : lookup x env = Some (BSeq l) -> t_tmpl (x_sep x) env = Some (sep_toks l).
Proof.
  intros H. unfold x_sep, comma. cbn [t_tmpl flat_map tvars app].
  change (sep_tok (Some (SPunct ","))) with (Some (Some (TPunct PComma))). cbv iota.
  rewrite (t_rep_one x _ _ env l H). change (map t_tmpl [XVar x]) with [t_tmpl (XVar x)].
  rewrite t_iter_one. reflexivity.
Qed.

Lemma vec_elems_trail es : vec_elems (trail_toks (map TNt es)) = Some es.
Proof.
  induction es as [|e es IH]; [reflexivity|].
  unfold trail_toks in *. cbn [map flat_map app vec_elems]. rewrite IH.
  destruct es; reflexivity.
Qed.

Lemma vec_elems_emit es : vec_elems (emit_trail es) = Some es.
Proof. rewrite <- trail_toks_emit. apply vec_elems_trail. Qed.

Lemma vec_elems_sep es : vec_elems (sep_toks (map TNt es)) = Some es.
Proof.
  induction es as [|e [|e2 es] IH]; [reflexivity|reflexivity|].
  unfold sep_toks in *. cbn [map join_sep app vec_elems] in *. rewrite IH. reflexivity.
Qed.

(* ---------- one rule ---------- *)
Definition finish (t : list tmpl) (f : frag benv) : mres :=
  match f with
  | FNo => NoMatch
  | FErr => Match OError
  | FOk env => match t_out t env with Some o => Match o | None => Match OError end
  end.
Lemma apply_rule_eq p t ts : apply_rule (Rule p t) ts = finish t (m_rule p ts).
Proof. reflexivity. Qed.

Definition fbind {A B} (x : frag A) (f : A -> frag B) : frag B :=
  match x with FOk a => f a | FErr => FErr | FNo => FNo end.

(* invocations as the source says the munchers must be invoked, with parsed accumulators *)
Definition inv_ok (inv : list tt) : Prop :=
  match is_arr inv with
  | Some (acc, _) => forallb parsed_tok acc = true
  | None =>
      match inv with
      | TPunct PAt :: TIdent IObject :: _ =>
          match is_obj inv with
          | Some (acc, _, _, _) => forallb parsed_tok acc = true
          | None => False
          end
      | TPunct PAt :: TIdent IKey :: r => match r with [TGroup Paren _] => True | _ => False end
      | _ => True
      end
  end.

Arguments lit_frag : simpl never.
Arguments expr_frag : simpl never.
Arguments elems_trail : simpl never.
Arguments elems_sep : simpl never.
Arguments p_tts : simpl never.
Arguments p_tts1 : simpl never.
Arguments x_trail : simpl never.
Arguments x_sep : simpl never.
Arguments x_tts : simpl never.
Arguments x_tts1 : simpl never.
Arguments trail_toks : simpl never.
Arguments sep_toks : simpl never.
Arguments emit_trail : simpl never.

Lemma t_tts0 x env l : lookup x env = Some (BSeq l) -> t_tmpl (x_tts x) env = Some l.
Proof. apply t_tts. Qed.
Lemma t_tts1 x env l : lookup x env = Some (BSeq l) -> t_tmpl (x_tts1 x) env = Some l.
Proof. apply t_tts. Qed.

Ltac ev :=
  repeat first [ progress unfold m_all | progress unfold fbind | progress cbn
               | rewrite m_pat_tts | rewrite m_pat_tts1
               | erewrite t_trail by reflexivity | erewrite t_tts0 by reflexivity
               | erewrite t_tts1 by reflexivity | erewrite t_sep by reflexivity ];
  rewrite ?trail_toks_emit, ?app_nil_r.

(* ---------- @array ---------- *)
Lemma arr_head accp restp ts env :
  m_all (m_seq (map m_pat (pP "@" :: pI "array" :: PGroup Bracket accp :: restp))) ts env
  = match is_arr ts with
    | Some (acc, rest) =>
        fbind (m_all (m_seq (map m_pat accp)) acc env) (fun e1 => m_all (m_seq (map m_pat restp)) rest e1)
    | None => FNo
    end.
Proof.
  unfold m_all at 1.
  destruct ts as [|t1 ts]; [reflexivity|]. destruct t1; try reflexivity. destruct p; try reflexivity.
  destruct ts as [|t2 ts]; [reflexivity|]. destruct t2; try reflexivity. destruct i; try reflexivity.
  destruct ts as [|t3 ts]; [reflexivity|]. destruct t3; try reflexivity. destruct d; try reflexivity.
  cbn. destruct (m_all (m_seq (map m_pat accp)) ts0 env); reflexivity.
Qed.

Lemma inv_ok_arr ts acc rest : inv_ok ts -> is_arr ts = Some (acc, rest) -> forallb parsed_tok acc = true.
Proof. unfold inv_ok. intros H E. rewrite E in H. exact H. Qed.

Lemma arr_trail_agree restp tmpl k ts : inv_ok ts ->
  (forall es rest, k es rest = finish tmpl (m_all (m_seq (map m_pat restp)) rest [(0%nat, BSeq (map TNt es))])) ->
  arr_trail ts k = apply_rule (Rule (arr_p restp) tmpl) ts.
Proof.
  intros Hok Hk. rewrite apply_rule_eq. unfold m_rule, arr_p, p_trail. rewrite arr_head.
  unfold arr_trail. destruct (is_arr ts) as [[acc rest]|] eqn:E; [|reflexivity].
  rewrite (m_trail_all 0 acc [] (inv_ok_arr ts acc rest Hok E)).
  destruct (elems_trail acc) as [es|]; [|reflexivity].
  cbn [fbind]. apply Hk.
Qed.

Lemma arr_sep_agree restp tmpl (k : list expr -> list tt -> mres) ts : inv_ok ts ->
  (forall es rest, k es rest = finish tmpl (m_all (m_seq (map m_pat restp)) rest [(0%nat, BSeq (map TNt es))])) ->
  match is_arr ts with
  | Some (acc, rest) => match elems_sep acc with Some es => k es rest | None => NoMatch end
  | None => NoMatch
  end = apply_rule (Rule (arr_p_sep restp) tmpl) ts.
Proof.
  intros Hok Hk. rewrite apply_rule_eq. unfold m_rule, arr_p_sep, p_sep. rewrite arr_head.
  destruct (is_arr ts) as [[acc rest]|] eqn:E; [|reflexivity].
  rewrite (m_sep_all 0 acc [] (inv_ok_arr ts acc rest Hok E)).
  destruct (elems_sep acc) as [es|]; [|reflexivity].
  cbn [fbind]. apply Hk.
Qed.

Lemma agree_A1 ts : inv_ok ts -> rA1 ts = apply_rule mA1 ts.
Proof.
  intros Hok. unfold rA1, mA1. rewrite <- (arr_trail_agree [] _ (fun es rest => match rest with [] => Match (OVec es) | _ => NoMatch end) ts Hok).
  - unfold arr_trail. destruct (is_arr ts) as [[acc [|t r]]|]; try reflexivity. destruct (elems_trail acc); reflexivity.
  - intros es [|t r]; [|reflexivity]. unfold finish. ev. rewrite vec_elems_emit. reflexivity.
Qed.

Lemma agree_A2 ts : inv_ok ts -> rA2 ts = apply_rule mA2 ts.
Proof.
  intros Hok. unfold rA2, mA2.
  rewrite <- (arr_sep_agree [] _ (fun es rest => match rest with [] => Match (OVec es) | _ => NoMatch end) ts Hok).
  - destruct (is_arr ts) as [[acc [|t r]]|]; try reflexivity. destruct (elems_sep acc); reflexivity.
  - intros es [|t r]; [|reflexivity]. unfold finish. ev. rewrite vec_elems_sep. reflexivity.
Qed.

Ltac push := unfold arr_push, arr_inv, obj_push, obj_inv.

Lemma agree_A3 ts : inv_ok ts -> rA3 ts = apply_rule mA3 ts.
Proof.
  intros Hok. unfold rA3, mA3. apply arr_trail_agree; [exact Hok|]. intros es rest.
  destruct rest as [|t r]; [reflexivity|]. destruct t; try reflexivity. destruct i; try reflexivity.
  unfold finish. push. ev. reflexivity.
Qed.

Lemma agree_A4 ts : inv_ok ts -> rA4 ts = apply_rule mA4 ts.
Proof.
  intros Hok. unfold rA4, mA4. apply arr_trail_agree; [exact Hok|]. intros es rest.
  destruct rest as [|t r]; [reflexivity|]. destruct t; try reflexivity. destruct l; try reflexivity.
  destruct b; try reflexivity.
  unfold finish. push. ev. reflexivity.
Qed.

Lemma agree_A5 ts : inv_ok ts -> rA5 ts = apply_rule mA5 ts.
Proof.
  intros Hok. unfold rA5, mA5. apply arr_trail_agree; [exact Hok|]. intros es rest.
  destruct rest as [|t r]; [reflexivity|]. destruct t; try reflexivity. destruct l; try reflexivity.
  destruct b; try reflexivity.
  unfold finish. push. ev. reflexivity.
Qed.

Lemma agree_A6 ts : inv_ok ts -> rA6 ts = apply_rule mA6 ts.
Proof.
  intros Hok. unfold rA6, mA6. apply arr_trail_agree; [exact Hok|]. intros es rest.
  unfold finish, m_all; cbn. destruct (lit_frag rest) as [| |[e r]]; [reflexivity|reflexivity|].
  push. ev. reflexivity.
Qed.

Lemma agree_A7 ts : inv_ok ts -> rA7 ts = apply_rule mA7 ts.
Proof.
  intros Hok. unfold rA7, mA7. apply arr_trail_agree; [exact Hok|]. intros es rest.
  destruct rest as [|t r]; [reflexivity|]. destruct t; try reflexivity. destruct d; try reflexivity.
  unfold finish. push. ev. reflexivity.
Qed.

Lemma agree_A8 ts : inv_ok ts -> rA8 ts = apply_rule mA8 ts.
Proof.
  intros Hok. unfold rA8, mA8. apply arr_trail_agree; [exact Hok|]. intros es rest.
  destruct rest as [|t r]; [reflexivity|]. destruct t; try reflexivity. destruct d; try reflexivity.
  unfold finish. push. ev. reflexivity.
Qed.

Lemma agree_A9 ts : inv_ok ts -> rA9 ts = apply_rule mA9 ts.
Proof.
  intros Hok. unfold rA9, mA9. apply arr_trail_agree; [exact Hok|]. intros es rest.
  unfold finish, m_all; cbn. destruct (expr_frag rest) as [| |[e r0]]; [reflexivity|reflexivity|].
  destruct r0 as [|t r]; [reflexivity|]. destruct t; try reflexivity. destruct p; try reflexivity.
  push. ev. reflexivity.
Qed.

Lemma agree_A10 ts : inv_ok ts -> rA10 ts = apply_rule mA10 ts.
Proof.
  intros Hok. unfold rA10, mA10. apply arr_trail_agree; [exact Hok|]. intros es rest.
  unfold finish, m_all; cbn. destruct (expr_frag rest) as [| |[e r0]]; [reflexivity|reflexivity|].
  destruct r0 as [|t r]; [|reflexivity].
  push. ev. reflexivity.
Qed.

Lemma agree_A11 ts : inv_ok ts -> rA11 ts = apply_rule mA11 ts.
Proof.
  intros Hok. unfold rA11, mA11.
  rewrite <- (arr_sep_agree _ _ (fun es rest => match rest with
                                                | TPunct PComma :: r => Match (OInvoke (arr_inv (emit_trail es) r))
                                                | _ => NoMatch end) ts Hok).
  - destruct (is_arr ts) as [[acc rest]|]; [|reflexivity].
    destruct rest as [|t r]; [destruct (elems_sep acc); reflexivity|].
    destruct t; try (destruct (elems_sep acc); reflexivity).
    destruct p; destruct (elems_sep acc); reflexivity.
  - intros es rest. destruct rest as [|t r]; [reflexivity|]. destruct t; try reflexivity.
    destruct p; try reflexivity. unfold finish. push. ev. reflexivity.
Qed.

Lemma agree_A12 ts : inv_ok ts -> rA12 ts = apply_rule mA12 ts.
Proof.
  intros Hok. unfold rA12, mA12.
  rewrite <- (arr_sep_agree _ _ (fun es rest => match rest with _ :: _ => Match OError | [] => NoMatch end) ts Hok).
  - destruct (is_arr ts) as [[acc rest]|]; [|reflexivity].
    destruct rest as [|t r]; destruct (elems_sep acc); reflexivity.
  - intros es rest. destruct rest as [|t r]; [reflexivity|]. unfold finish. ev. reflexivity.
Qed.

(* ---------- @object, @key ---------- *)
Ltac dhyp H :=
  repeat match type of H with
         | context [match ?x with _ => _ end] => is_var x; destruct x; try discriminate H
         end.

Lemma is_obj_some ts acc key rest copy : is_obj ts = Some (acc, key, rest, copy) ->
  ts = [TPunct PAt; TIdent IObject; TGroup Bracket acc; TGroup Paren key; TGroup Paren rest; copy].
Proof. unfold is_obj. intros H. dhyp H. inversion H. reflexivity. Qed.

Lemma obj_head_some accp kp rp copyp acc key rest copy env :
  m_all (m_seq (map m_pat [pP "@"; pI "object"; PGroup Bracket accp; PGroup Paren kp; PGroup Paren rp; copyp]))
        [TPunct PAt; TIdent IObject; TGroup Bracket acc; TGroup Paren key; TGroup Paren rest; copy] env
  = fbind (m_all (m_seq (map m_pat accp)) acc env) (fun e1 =>
    fbind (m_all (m_seq (map m_pat kp)) key e1) (fun e2 =>
    fbind (m_all (m_seq (map m_pat rp)) rest e2) (fun e3 => m_all (m_pat copyp) [copy] e3))).
Proof.
  unfold m_all at 1. cbn.
  destruct (m_all (m_seq (map m_pat accp)) acc env) as [| |e1]; cbn; try reflexivity.
  destruct (m_all (m_seq (map m_pat kp)) key e1) as [| |e2]; cbn; try reflexivity.
  destruct (m_all (m_seq (map m_pat rp)) rest e2) as [| |e3]; cbn; try reflexivity.
  unfold m_all. destruct (m_pat copyp [copy] e3) as [| |[e [|t r]]]; reflexivity.
Qed.

Lemma obj_head_none ps ts env : inv_ok ts -> is_obj ts = None ->
  m_all (m_seq (map m_pat (pP "@" :: pI "object" :: ps))) ts env = FNo.
Proof.
  intros Hok E.
  destruct ts as [|t1 ts]; [reflexivity|]. destruct t1; try reflexivity. destruct p; try reflexivity.
  destruct ts as [|t2 ts]; [reflexivity|]. destruct t2; try reflexivity. destruct i; try reflexivity.
  exfalso. unfold inv_ok in Hok. cbn [is_arr] in Hok. rewrite E in Hok. exact Hok.
Qed.

Lemma inv_ok_obj acc key rest copy :
  inv_ok [TPunct PAt; TIdent IObject; TGroup Bracket acc; TGroup Paren key; TGroup Paren rest; copy] ->
  forallb parsed_tok acc = true.
Proof. intros H. exact H. Qed.

Lemma obj_trail_agree kp rp copyp tmpl k ts : inv_ok ts ->
  (forall es key rest copy, k es key rest copy =
     finish tmpl (fbind (m_all (m_seq (map m_pat kp)) key [(0%nat, BSeq (map TNt es))]) (fun e2 =>
                  fbind (m_all (m_seq (map m_pat rp)) rest e2) (fun e3 => m_all (m_pat copyp) [copy] e3)))) ->
  obj_trail ts k = apply_rule (Rule (obj_p (PGroup Paren kp) (PGroup Paren rp) copyp) tmpl) ts.
Proof.
  intros Hok Hk. rewrite apply_rule_eq. unfold m_rule, obj_p, p_trail, obj_trail.
  destruct (is_obj ts) as [[[[acc key] rest] copy]|] eqn:E.
  - pose proof (is_obj_some _ _ _ _ _ E) as Ets. subst ts.
    rewrite obj_head_some. rewrite (m_trail_all 0 acc [] (inv_ok_obj _ _ _ _ Hok)).
    destruct (elems_trail acc) as [es|]; [|reflexivity]. cbn [fbind]. apply Hk.
  - rewrite obj_head_none by assumption. reflexivity.
Qed.

Lemma obj_sep_agree kp rp copyp tmpl (k : list expr -> list tt -> list tt -> tt -> mres) ts : inv_ok ts ->
  (forall es key rest copy, k es key rest copy =
     finish tmpl (fbind (m_all (m_seq (map m_pat kp)) key [(0%nat, BSeq (map TNt es))]) (fun e2 =>
                  fbind (m_all (m_seq (map m_pat rp)) rest e2) (fun e3 => m_all (m_pat copyp) [copy] e3)))) ->
  match is_obj ts with
  | Some (acc, key, rest, copy) => match elems_sep acc with Some es => k es key rest copy | None => NoMatch end
  | None => NoMatch
  end = apply_rule (Rule (obj_p_sep (PGroup Paren kp) (PGroup Paren rp) copyp) tmpl) ts.
Proof.
  intros Hok Hk. rewrite apply_rule_eq. unfold m_rule, obj_p_sep, p_sep.
  destruct (is_obj ts) as [[[[acc key] rest] copy]|] eqn:E.
  - pose proof (is_obj_some _ _ _ _ _ E) as Ets. subst ts.
    rewrite obj_head_some. rewrite (m_sep_all 0 acc [] (inv_ok_obj _ _ _ _ Hok)).
    destruct (elems_sep acc) as [es|]; [|reflexivity]. cbn [fbind]. apply Hk.
  - rewrite obj_head_none by assumption. reflexivity.
Qed.

Ltac crush :=
  unfold finish; push;
  repeat first
    [ progress ev
    | match goal with
      | |- context [match ?x with _ => _ end] => is_var x; destruct x
      end
    | match goal with
      | |- context [match lit_frag ?r with _ => _ end] => destruct (lit_frag r) as [| |[? ?]]
      | |- context [match expr_frag ?r with _ => _ end] => destruct (expr_frag r) as [| |[? ?]]
      end ];
  try reflexivity.

Lemma agree_O1 ts : inv_ok ts -> rO1 ts = apply_rule mO1 ts.
Proof.
  intros Hok. unfold rO1, mO1.
  rewrite <- (obj_trail_agree [] [] p_unit _
               (fun es key rest copy => match key, rest, copy with
                                        | [], [], TGroup Paren [] => Match (OFromVec es)
                                        | _, _, _ => NoMatch end) ts Hok).
  - unfold obj_trail. destruct (is_obj ts) as [[[[acc key] rest] copy]|]; [|reflexivity].
    destruct (elems_trail acc); crush.
  - intros es key rest copy. crush. rewrite vec_elems_emit. reflexivity.
Qed.

Lemma agree_O2 ts : inv_ok ts -> rO2 ts = apply_rule mO2 ts.
Proof.
  intros Hok. unfold rO2, mO2.
  rewrite <- (obj_sep_agree [] [] p_unit _
               (fun es key rest copy => match key, rest, copy with
                                        | [], [], TGroup Paren [] => Match (OFromVec es)
                                        | _, _, _ => NoMatch end) ts Hok).
  - destruct (is_obj ts) as [[[[acc key] rest] copy]|]; [|reflexivity].
    destruct (elems_sep acc); crush.
  - intros es key rest copy. crush. rewrite vec_elems_sep. reflexivity.
Qed.

Lemma key_agree kp tmpl (k : list tt -> mres) ts : inv_ok ts ->
  (forall kk, k kk = finish tmpl (m_all (m_seq (map m_pat kp)) kk [])) ->
  match ts with [TPunct PAt; TIdent IKey; TGroup Paren kk] => k kk | _ => NoMatch end
  = apply_rule (Rule [pP "@"; pI "key"; PGroup Paren kp] tmpl) ts.
Proof.
  intros Hok Hk.
  destruct ts as [|t1 ts]; [reflexivity|]. destruct t1; try reflexivity. destruct p; try reflexivity.
  destruct ts as [|t2 ts]; [reflexivity|]. destruct t2; try reflexivity. destruct i; try reflexivity.
  destruct ts as [|t3 ts]; [exfalso; exact Hok|].
  destruct t3 as [?|?|?|d g|?]; try (exfalso; exact Hok). destruct d; try (exfalso; exact Hok).
  destruct ts as [|t4 ts]; [|exfalso; exact Hok].
  rewrite apply_rule_eq, Hk. unfold m_rule. unfold m_all at 2. cbn.
  destruct (m_all (m_seq (map m_pat kp)) g []); reflexivity.
Qed.

Lemma agree_K1 ts : inv_ok ts -> rK1 ts = apply_rule mK1 ts.
Proof.
  intros Hok. unfold rK1, mK1. apply key_agree; [exact Hok|]. intros kk. crush.
Qed.

Lemma agree_K2 ts : inv_ok ts -> rK2 ts = apply_rule mK2 ts.
Proof.
  intros Hok. unfold rK2, mK2. apply key_agree; [exact Hok|]. intros kk. crush.
Qed.

Ltac obj_rule := intros Hok; unfold obj_value, obj_value_p; apply obj_trail_agree; [exact Hok|];
                 intros es key rest copy; crush.

Lemma agree_O3 ts : inv_ok ts -> rO3 ts = apply_rule mO3 ts.
Proof. unfold rO3, mO3. obj_rule. Qed.
Lemma agree_O4 ts : inv_ok ts -> rO4 ts = apply_rule mO4 ts.
Proof. unfold rO4, mO4. obj_rule. Qed.
Lemma agree_O5 ts : inv_ok ts -> rO5 ts = apply_rule mO5 ts.
Proof. unfold rO5, mO5. obj_rule. Qed.
Lemma agree_O6 ts : inv_ok ts -> rO6 ts = apply_rule mO6 ts.
Proof. unfold rO6, mO6. obj_rule. Qed.
Lemma agree_O7 ts : inv_ok ts -> rO7 ts = apply_rule mO7 ts.
Proof. unfold rO7, mO7. obj_rule. Qed.
Lemma agree_O8 ts : inv_ok ts -> rO8 ts = apply_rule mO8 ts.
Proof. unfold rO8, mO8. obj_rule. Qed.
Lemma agree_O9 ts : inv_ok ts -> rO9 ts = apply_rule mO9 ts.
Proof. unfold rO9, mO9. obj_rule. Qed.
Lemma agree_O10 ts : inv_ok ts -> rO10 ts = apply_rule mO10 ts.
Proof. unfold rO10, mO10. obj_rule. Qed.

Lemma agree_O11 ts : inv_ok ts -> rO11 ts = apply_rule mO11 ts.
Proof.
  intros Hok. unfold rO11, mO11.
  rewrite <- (obj_sep_agree [] _ _ _
               (fun es key rest copy => match key, rest with
                                        | [], TPunct PComma :: r => Match (OInvoke (obj_inv (emit_trail es) [] r r))
                                        | _, _ => NoMatch end) ts Hok).
  - destruct (is_obj ts) as [[[[acc key] rest] copy]|]; [|reflexivity].
    destruct (elems_sep acc); crush.
  - intros es key rest copy. crush.
Qed.

Lemma agree_O12 ts : inv_ok ts -> rO12 ts = apply_rule mO12 ts.
Proof. unfold rO12, mO12. obj_rule. Qed.
Lemma agree_O13 ts : inv_ok ts -> rO13 ts = apply_rule mO13 ts.
Proof. unfold rO13, mO13. obj_rule. Qed.
Lemma agree_O14 ts : inv_ok ts -> rO14 ts = apply_rule mO14 ts.
Proof. unfold rO14, mO14. obj_rule. Qed.
Lemma agree_O15 ts : inv_ok ts -> rO15 ts = apply_rule mO15 ts.
Proof. unfold rO15, mO15. obj_rule. Qed.
Lemma agree_O16 ts : inv_ok ts -> rO16 ts = apply_rule mO16 ts.
Proof. unfold rO16, mO16. obj_rule. Qed.
Lemma agree_O17 ts : inv_ok ts -> rO17 ts = apply_rule mO17 ts.
Proof. unfold rO17, mO17. obj_rule. Qed.
Lemma agree_O18 ts : inv_ok ts -> rO18 ts = apply_rule mO18 ts.
Proof. unfold rO18, mO18. obj_rule. Qed.

(* ---------- the entry rules ---------- *)
Ltac entry_rule := rewrite apply_rule_eq; unfold m_rule; crush.
Lemma agree_M1 ts : rM1 ts = apply_rule mM1 ts.
Proof. unfold rM1, mM1. entry_rule. Qed.
Lemma agree_M2 ts : rM2 ts = apply_rule mM2 ts.
Proof. unfold rM2, mM2. entry_rule. Qed.
Lemma agree_M3 ts : rM3 ts = apply_rule mM3 ts.
Proof. unfold rM3, mM3. entry_rule. Qed.
Lemma agree_M4 ts : rM4 ts = apply_rule mM4 ts.
Proof. unfold rM4, mM4. entry_rule. Qed.
Lemma agree_M5 ts : rM5 ts = apply_rule mM5 ts.
Proof. unfold rM5, mM5. entry_rule. Qed.
Lemma agree_M6 ts : rM6 ts = apply_rule mM6 ts.
Proof. unfold rM6, mM6. entry_rule. Qed.
Lemma agree_M7 ts : rM7 ts = apply_rule mM7 ts.
Proof. unfold rM7, mM7. entry_rule. Qed.
Lemma agree_M8 ts : rM8 ts = apply_rule mM8 ts.
Proof. unfold rM8, mM8. entry_rule. Qed.
Lemma agree_M9 ts : rM9 ts = apply_rule mM9 ts.
Proof. unfold rM9, mM9. entry_rule. Qed.

(* ---------- all 41, and the dispatcher ---------- *)
Theorem rules_agree ts : inv_ok ts -> Forall2 (fun f r => f ts = apply_rule r ts) rules model_rules.
Proof.
  intros H. unfold rules, model_rules.
  repeat first
    [ apply Forall2_nil
    | apply Forall2_cons;
      [ first [ apply agree_A1 | apply agree_A2 | apply agree_A3 | apply agree_A4 | apply agree_A5
              | apply agree_A6 | apply agree_A7 | apply agree_A8 | apply agree_A9 | apply agree_A10
              | apply agree_A11 | apply agree_A12 | apply agree_O1 | apply agree_O2 | apply agree_K1
              | apply agree_K2 | apply agree_O3 | apply agree_O4 | apply agree_O5 | apply agree_O6
              | apply agree_O7 | apply agree_O8 | apply agree_O9 | apply agree_O10 | apply agree_O11
              | apply agree_O12 | apply agree_O13 | apply agree_O14 | apply agree_O15 | apply agree_O16
              | apply agree_O17 | apply agree_O18 | apply agree_M1 | apply agree_M2 | apply agree_M3
              | apply agree_M4 | apply agree_M5 | apply agree_M6 | apply agree_M7 | apply agree_M8
              | apply agree_M9 ]; exact H | ] ].
Qed.

Lemma first_match_ext ts : forall fs rs, Forall2 (fun f r => f ts = apply_rule r ts) fs rs ->
  first_match fs ts = first_match (map apply_rule rs) ts.
Proof.
  induction 1 as [|f r fs rs Hfr _ IH]; [reflexivity|].
  cbn [map first_match]. rewrite Hfr, IH. reflexivity.
Qed.

(* one step of the hand-written dispatcher = one step of the generic interpreter on the
   reference rules, on every invocation that uses the internal markers as src/macros.rs says
   they must be used ("Must be invoked as: json!(@array [] $($tt)* )" ...) *)
Theorem step_model_is_interp ts : inv_ok ts -> step_model ts = interp_step model_rules ts.
Proof. intros H. apply first_match_ext, rules_agree, H. Qed.

(* an invocation without internal marker is in that domain *)
Lemma inv_ok_user ts : match ts with TPunct PAt :: _ => False | _ => True end -> inv_ok ts.
Proof.
  destruct ts as [|t ts]; [intros _; exact I|]. destruct t; try (intros _; exact I).
  destruct p; try (intros _; exact I). intros [].
Qed.

(* the shortcut `json!()` = error taken by [t_mac] *)
Lemma step_model_nil : step_model [] = None.
Proof. reflexivity. Qed.

(* outside the domain the two differ: json!(@array [1,]) is no rule of the model (the
   accumulator item is not a parsed expression) but rule 1 for the generic matcher *)
Lemma step_model_needs_inv_ok :
  let ts := arr_inv [TLit (LInt 1 None); TPunct PComma] [] in
  step_model ts = None /\ interp_step model_rules ts = Some (OVec [ELit (LInt 1 None)]).
Proof. split; reflexivity. Qed.

(* non-vacuity: the interpreter run on concrete invocations *)
Example interp_examples :
  interp_step model_rules [TGroup Bracket [TIdent INull; TPunct PComma; TLit (LInt 3 None)]]
    = Some (OArray (Some (arr_inv [] [TIdent INull; TPunct PComma; TLit (LInt 3 None)])))
  /\ interp_step model_rules (arr_inv [TNt (EJson [TIdent INull]); TPunct PComma] [TLit (LInt 3 None)])
    = Some (OInvoke (arr_inv [TNt (EJson [TIdent INull]); TPunct PComma; TNt (EJson [TNt (ELit (LInt 3 None))])] []))
  /\ interp_step model_rules (obj_inv [] [TLit (LStr [65])] [TPunct PColon; TPunct PMinus; TLit (LInt 3 None); TPunct PComma] [])
    = Some (OInvoke (obj_inv [TNt (EEntry [TLit (LStr [65])] [TNt (ENeg (LInt 3 None))])] [] [TPunct PComma] [TPunct PComma]))
  /\ interp_step model_rules (key_inv [TGroup Paren [TIdent (IVar [75])]]) = Some (OKeyInto (EParen (EVar [75])))
  /\ interp_step model_rules [TPunct PMinus] = Some OError
  /\ interp_step model_rules [TPunct PColon] = None.
Proof. vm_compute. repeat split; reflexivity. Qed.

Print Assumptions step_model_is_interp.
Print Assumptions rules_agree.
Print Assumptions step_model_needs_inv_ok.

(* ---------- the domain [inv_ok] is closed under one step ---------- *)
(* whatever invocation a step of the model produces (`json!(inv)` as the whole right-hand side
   or inside `Value::Array( .. )` / `Value::Object( .. )`) is again [inv_ok] *)
Definition out_ok (o : out) : Prop :=
  match o with
  | OInvoke inv => inv_ok inv
  | OArray (Some inv) => inv_ok inv
  | OObject (Some inv) => inv_ok inv
  | _ => True
  end.

Lemma parsed_emit es : forallb parsed_tok (emit_trail es) = true.
Proof. rewrite <- trail_toks_emit. unfold trail_toks. induction es as [|e es IH]; [reflexivity|exact IH]. Qed.

Lemma parsed_push es l : forallb parsed_tok l = true -> forallb parsed_tok (emit_trail es ++ l) = true.
Proof. intros H. rewrite forallb_app, parsed_emit, H. reflexivity. Qed.

Lemma ok_arr acc r : forallb parsed_tok acc = true -> inv_ok (arr_inv acc r).
Proof. intros H. exact H. Qed.

Lemma ok_obj acc k r c : forallb parsed_tok acc = true -> inv_ok (obj_inv acc k r c).
Proof. intros H. exact H. Qed.

Ltac rule_ok H :=
  unfold arr_trail, obj_value, obj_trail, is_arr, is_obj in H;
  repeat match type of H with
         | context [match ?x with _ => _ end] => destruct x eqn:?; try discriminate H
         end;
  inversion H; subst; clear H; try exact I;
  unfold out_ok, arr_push, obj_push;
  match goal with
  | |- inv_ok (arr_inv _ _) => apply ok_arr
  | |- inv_ok (obj_inv _ _ _ _) => apply ok_obj
  end;
  first [ apply parsed_emit | apply parsed_push; reflexivity | reflexivity ].

Lemma rules_out_ok ts o : Exists (fun f => f ts = Match o) rules -> out_ok o.
Proof.
  unfold rules. intros H.
  repeat match type of H with
         | Exists _ (_ :: _) => apply Exists_cons in H; destruct H as [H|H]
         end;
  try (inversion H; fail).
  all: match type of H with ?f _ = _ => unfold f in H end; rule_ok H.
Qed.

Lemma first_match_exists ts o : forall fs, first_match fs ts = Some o -> Exists (fun f => f ts = Match o) fs.
Proof.
  induction fs as [|f fs IH]; [discriminate|]. cbn [first_match].
  destruct (f ts) as [|o'] eqn:E.
  - intros H. apply Exists_cons_tl, IH, H.
  - intros H. inversion H; subst. apply Exists_cons_hd, E.
Qed.

Theorem inv_ok_step ts o : step_model ts = Some o -> out_ok o.
Proof. intros H. apply (rules_out_ok ts), first_match_exists, H. Qed.

Print Assumptions inv_ok_step.

(* ================================================================================== *)
(* 4. whole expansions: the model's [mrun] is the interpreter iterated                *)
(* ================================================================================== *)
(* [mrun] of Model/Macro.v with the one-step function as a parameter *)
Section RunWith.
  Variable step : list tt -> option out.
  Variable fmt_float : fty -> list N -> option (list N).
  Variable env : list N -> option (list N).

  Fixpoint mrun_with (fuel : nat) (inv : list tt) : option rv :=
    match fuel with
    | O => None
    | S f =>
        match step inv with
        | None => None
        | Some OError => None
        | Some (OInvoke inv') => mrun_with f inv'
        | Some (OVec es) =>
            match map_opt (ev_elem (mrun_with f)) es with Some l => Some (RVec l) | None => None end
        | Some (OFromVec es) =>
            match map_opt (ev_entry (mrun_with f)) es with Some l => Some (RObj l) | None => None end
        | Some (OKeyInto e) => match key_of_expr env e with Some k => Some (RKey k) | None => None end
        | Some ONull => Some (RVal VNull)
        | Some (OBool b) => Some (RVal (VBool b))
        | Some (OTryFrom e) => match try_from_expr fmt_float e with Some v => Some (RVal v) | None => None end
        | Some (OFrom e) => match from_expr fmt_float e with Some v => Some (RVal v) | None => None end
        | Some (OArray None) => Some (RVal (VArr []))
        | Some (OArray (Some inv')) =>
            match mrun_with f inv' with Some (RVec l) => Some (RVal (VArr l)) | _ => None end
        | Some (OObject None) => Some (RVal (VObj []))
        | Some (OObject (Some inv')) =>
            match mrun_with f inv' with Some (RObj l) => Some (RVal (VObj l)) | _ => None end
        end
    end.

  Definition expand_with (fuel : nat) (ts : list tt) : option value := as_val (mrun_with fuel ts).
End RunWith.

Lemma map_opt_ext_in {A B} (f g : A -> option B) l :
  (forall x, In x l -> f x = g x) -> map_opt f l = map_opt g l.
Proof.
  induction l as [|a l IH]; [reflexivity|]. intros H. cbn [map_opt].
  rewrite (H a (or_introl eq_refl)), IH; [reflexivity|]. intros x Hx. apply H. right; exact Hx.
Qed.

(* [mrun_with] on the model's own dispatcher is [mrun] *)
Lemma mrun_is_with fmt env : forall fuel inv, mrun fmt env fuel inv = mrun_with step_model fmt env fuel inv.
Proof.
  induction fuel as [|f IH]; [reflexivity|]. intros inv. cbn [mrun mrun_with]. unfold step_model at 1.
  destruct (first_match rules inv) as [o|]; [|reflexivity].
  destruct o as [ | inv' | es | es | e | | b | e | e | [inv'|] | [inv'|]]; try reflexivity; rewrite ?IH; try reflexivity.
Qed.

(* the invariant that makes every recursive call of [mrun] an [inv_ok] invocation *)
Definition deep_ok (inv : list tt) : Prop :=
  match is_arr inv with
  | Some (acc, _) => forallb deep_tok acc = true
  | None =>
      match inv with
      | TPunct PAt :: TIdent IObject :: _ =>
          match is_obj inv with
          | Some (acc, _, _, _) => forallb deep_tok acc = true
          | None => False
          end
      | TPunct PAt :: TIdent IKey :: r => match r with [TGroup Paren _] => True | _ => False end
      | _ => True
      end
  end.

Lemma deep_inv_ok inv : deep_ok inv -> inv_ok inv.
Proof.
  unfold deep_ok, inv_ok. destruct (is_arr inv) as [[acc r]|]; [apply deep_parsed|].
  destruct inv as [|t inv]; auto. destruct t; auto. destruct p; auto.
  destruct inv as [|t2 inv]; auto. destruct t2; auto. destruct i; auto.
  destruct (is_obj (TPunct PAt :: TIdent IObject :: inv)) as [[[[a k] r] c]|]; [apply deep_parsed|auto].
Qed.

Lemma user_deep ts : user_inv ts = true -> deep_ok ts.
Proof.
  destruct ts as [|t ts]; [intros _; exact I|]. destruct t; try (intros _; exact I).
  destruct p; try (intros _; exact I). discriminate.
Qed.

Lemma deep_key k : deep_ok (key_inv k).
Proof. exact I. Qed.

Lemma dk_arr acc r : forallb deep_tok acc = true -> deep_ok (arr_inv acc r).
Proof. intros H. exact H. Qed.
Lemma dk_obj acc k r c : forallb deep_tok acc = true -> deep_ok (obj_inv acc k r c).
Proof. intros H. exact H. Qed.

Definition out_deep (o : out) : Prop :=
  match o with
  | OInvoke inv => deep_ok inv
  | OArray (Some inv) => deep_ok inv
  | OObject (Some inv) => deep_ok inv
  | OVec es => forallb expr_ok es = true
  | OFromVec es => forallb expr_ok es = true
  | _ => True
  end.

Ltac es_ok Hd :=
  first [ eapply elems_trail_deep; [apply le_n | eassumption | exact Hd]
        | eapply elems_sep_deep; [apply le_n | eassumption | exact Hd] ].
Ltac acc_ok Hd :=
  first [ reflexivity
        | apply deep_emit; es_ok Hd
        | rewrite forallb_app; rewrite deep_emit; [reflexivity | es_ok Hd] ].
Ltac solve_deep Hd :=
  match goal with
  | |- deep_ok (arr_inv _ _) => apply dk_arr; acc_ok Hd
  | |- deep_ok (obj_inv _ _ _ _) => apply dk_obj; acc_ok Hd
  | |- forallb expr_ok _ = true => es_ok Hd
  end.
Ltac rule_deep H Hd :=
  unfold arr_trail, obj_value, obj_trail, is_arr, is_obj in H;
  repeat first
    [ match type of H with
      | context [match ?x with _ => _ end] => is_var x; destruct x eqn:?; try discriminate H
      end
    | match type of H with
      | context [match ?x with _ => _ end] => destruct x eqn:?; try discriminate H
      end ];
  inversion H; subst; clear H; try exact I;
  unfold out_deep, arr_push, obj_push;
  solve_deep Hd.

Lemma rules_out_deep ts o : deep_ok ts -> Exists (fun f => f ts = Match o) rules -> out_deep o.
Proof.
  unfold rules. intros Hd H.
  repeat match type of H with
         | Exists _ (_ :: _) => apply Exists_cons in H; destruct H as [H|H]
         end;
  try (inversion H; fail).
  all: match type of H with ?f _ = _ => unfold f in H end; rule_deep H Hd.
Qed.

Theorem deep_step ts o : deep_ok ts -> step_model ts = Some o -> out_deep o.
Proof. intros Hd H. apply (rules_out_deep ts); [exact Hd|]. apply first_match_exists, H. Qed.

(* every expansion that starts from [deep_ok] -- in particular from an invocation without
   internal marker -- is, step for step, the generic interpreter on the reference rules *)
Theorem mrun_is_interp fmt env : forall fuel inv, deep_ok inv ->
  mrun fmt env fuel inv = mrun_with (interp_step model_rules) fmt env fuel inv.
Proof.
  induction fuel as [|f IH]; [reflexivity|]. intros inv Hd. cbn [mrun mrun_with].
  rewrite <- (step_model_is_interp inv (deep_inv_ok inv Hd)). unfold step_model.
  destruct (first_match rules inv) as [o|] eqn:E; [|reflexivity].
  pose proof (deep_step inv o Hd E) as Ho.
  destruct o as [ | inv' | es | es | e | | b | e | e | [inv'|] | [inv'|]]; try reflexivity; cbn [out_deep] in Ho.
  - apply IH, Ho.
  - rewrite (map_opt_ext_in _ (ev_elem (mrun_with (interp_step model_rules) fmt env f)) es); [reflexivity|].
    intros e He. pose proof (proj1 (forallb_forall _ _) Ho e He) as Hk.
    destruct e; try reflexivity. cbn [ev_elem]. rewrite IH; [reflexivity|apply user_deep, Hk].
  - rewrite (map_opt_ext_in _ (ev_entry (mrun_with (interp_step model_rules) fmt env f)) es); [reflexivity|].
    intros e He. pose proof (proj1 (forallb_forall _ _) Ho e He) as Hk.
    destruct e; try reflexivity. cbn [ev_entry].
    rewrite (IH (key_inv k) (deep_key k)), (IH v (user_deep v Hk)). reflexivity.
  - rewrite (IH inv' Ho). reflexivity.
  - rewrite (IH inv' Ho). reflexivity.
Qed.

Theorem expand_is_interp fmt env fuel ts : user_inv ts = true ->
  expand fmt env fuel ts = expand_with (interp_step model_rules) fmt env fuel ts.
Proof. intros H. unfold expand, expand_with. rewrite (mrun_is_interp fmt env fuel ts (user_deep ts H)). reflexivity. Qed.

Print Assumptions deep_step.
Print Assumptions expand_is_interp.
