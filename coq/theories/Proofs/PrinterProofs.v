(* Proofs/PrinterProofs.v -- Model/Printer.v (size pre-pass + lock-step emission)
   refines Spec/Layout.v, and the compact preset is the minimal serializer of
   Spec/Minimal.v.  Part 1: string literals, the named local loops of the model with
   their unfolding equations, the loop lemmas and the central lemma [central].
   The user-facing theorems are in Proofs/PrinterTheorems.v. *)
From JsonSyntax Require Import Base.Prelude Base.Value Model.Printer Spec.Minimal Spec.Layout.

(* ------------------------------------------------------------------ *)
(* string literals                                                     *)
(* ------------------------------------------------------------------ *)

Definition controls : list N := map N.of_nat (seq 0 32).

Lemma controls_complete c : c < 0x20 -> In c controls.
Proof.
  intros H. unfold controls. apply in_map_iff. exists (N.to_nat c).
  split; [apply N2Nat.id|]. apply in_seq. lia.
Qed.

Lemma on_controls (Q : N -> bool) :
  forallb Q controls = true -> forall c, c < 0x20 -> Q c = true.
Proof. intros H c Hc. rewrite forallb_forall in H. apply H, controls_complete, Hc. Qed.

(* the digit function of the model agrees with the table of the specification *)
Lemma hex_digit_char_hexd d : d < 16 -> hex_digit_char d = hexd d.
Proof.
  intros H.
  assert (Hin : In d (map N.of_nat (seq 0 16))).
  { apply in_map_iff. exists (N.to_nat d). split; [apply N2Nat.id|]. apply in_seq. lia. }
  assert (Hall : forallb (fun d => hex_digit_char d =? hexd d) (map N.of_nat (seq 0 16)) = true)
    by (vm_compute; reflexivity).
  rewrite forallb_forall in Hall. apply N.eqb_eq, Hall, Hin.
Qed.

Lemma escape_char_esc_min c : escape_char c = esc_min c.
Proof.
  destruct (N.ltb_spec c 0x20) as [Hlt|Hge].
  - apply str_eqb_spec.
    apply (on_controls (fun c => str_eqb (escape_char c) (esc_min c))); [vm_compute; reflexivity|exact Hlt].
  - unfold escape_char, esc_min.
    destruct (N.eqb_spec c 0x5C) as [->|H5c]; [reflexivity|].
    destruct (N.eqb_spec c 0x22) as [->|H22]; [reflexivity|].
    repeat match goal with
           | |- context [N.eqb c ?k] => destruct (N.eqb_spec c k) as [?|?]; [lia|]
           end.
    destruct (N.leb_spec c 0x1F) as [?|_]; [lia|].
    destruct (N.ltb_spec c 0x20) as [?|_]; [lia|]. reflexivity.
Qed.

Lemma string_literal_quote : forall s, string_literal s = quote s.
Proof.
  intros s. unfold string_literal, quote. cbn [app]. f_equal. f_equal.
  induction s as [|c s IH]; [reflexivity|].
  cbn [flat_map]. rewrite IH, escape_char_esc_min. reflexivity.
Qed.

Lemma char_width_length c : char_width c = N.of_nat (length (escape_char c)).
Proof.
  unfold char_width, escape_char.
  repeat match goal with
         | |- context [N.eqb c ?k] => destruct (N.eqb_spec c k) as [?|?]; [subst c; reflexivity|]
         end.
  cbn [orb]. destruct (N.leb_spec c 0x1F) as [?|?]; reflexivity.
Qed.

Lemma fold_char_width s : forall a,
  fold_left (fun w c => w + char_width c) s a = a + N.of_nat (length (flat_map escape_char s)).
Proof.
  induction s as [|c s IH]; intros a; cbn [fold_left flat_map length].
  - lia.
  - rewrite IH, app_length, char_width_length. lia.
Qed.

Lemma printed_string_size_length : forall s, printed_string_size s = N.of_nat (length (string_literal s)).
Proof.
  intros s. unfold printed_string_size, string_literal. rewrite fold_char_width.
  cbn [length]. rewrite app_length. cbn [length]. lia.
Qed.

Lemma printed_string_size_quote s : printed_string_size s = N.of_nat (length (quote s)).
Proof. rewrite printed_string_size_length, string_literal_quote. reflexivity. Qed.

(* no escape sequence contains a line feed *)
Lemma esc_min_no_lf c : ~ In LF (esc_min c).
Proof.
  destruct (N.ltb_spec c 0x20) as [Hlt|Hge].
  - assert (H : negb (existsb (N.eqb LF) (esc_min c)) = true).
    { apply (on_controls (fun c => negb (existsb (N.eqb LF) (esc_min c)))); [vm_compute; reflexivity|exact Hlt]. }
    intros Hin. apply negb_true_iff in H.
    assert (H' : existsb (N.eqb LF) (esc_min c) = true).
    { apply existsb_exists. exists LF. split; [exact Hin|apply N.eqb_refl]. }
    congruence.
  - unfold esc_min.
    repeat match goal with
           | |- context [N.eqb c ?k] => destruct (N.eqb_spec c k) as [?|?]; [try lia|]
           end.
    + intros [H|[H|[]]]; discriminate H.
    + intros [H|[H|[]]]; discriminate H.
    + destruct (N.ltb_spec c 0x20) as [?|_]; [lia|].
      intros [H|[]]. unfold LF in H. lia.
Qed.

Lemma quote_no_lf s : ~ In LF (quote s).
Proof.
  unfold quote. intros H. apply in_app_or in H. destruct H as [[H|[]]|H]; [discriminate H|].
  apply in_app_or in H. destruct H as [H|[H|[]]]; [|discriminate H].
  apply in_flat_map in H. destruct H as [c [_ Hc]]. exact (esc_min_no_lf c Hc).
Qed.

(* ------------------------------------------------------------------ *)
(* display helpers: the model's are the specification's                *)
(* ------------------------------------------------------------------ *)

Lemma spaces_sp n : spaces n = sp n.
Proof. reflexivity. Qed.

Lemma indent_by_indentation i n : indent_by i n = indentation i n.
Proof.
  induction n as [|n IH]; [reflexivity|].
  cbn [indent_by indentation]. rewrite IH. destruct i; reflexivity.
Qed.

Lemma repeatN_length {A} (x : A) n : length (repeatN x n) = n.
Proof. induction n as [|n IH]; cbn [repeatN length]; congruence. Qed.

Lemma sp_length n : length (sp n) = N.to_nat n.
Proof. apply repeatN_length. Qed.

Lemma in_repeatN {A} (x y : A) n : In y (repeatN x n) -> y = x.
Proof. induction n as [|n IH]; cbn [repeatN In]; [tauto|]. intros [H|H]; auto. Qed.

Lemma sp_no_lf n : ~ In LF (sp n).
Proof. intros H. apply in_repeatN in H. discriminate H. Qed.

(* ------------------------------------------------------------------ *)
(* vectors of sizes                                                    *)
(* ------------------------------------------------------------------ *)

Lemma set_nth_size_mid : forall (pre : list size) x y rest,
  set_nth_size (length pre) x (pre ++ y :: rest) = pre ++ x :: rest.
Proof.
  induction pre as [|p pre IH]; intros x y rest; cbn [length app set_nth_size]; [reflexivity|].
  rewrite IH. reflexivity.
Qed.

Lemma nth_error_mid : forall (pre : list size) x rest,
  nth_error (pre ++ x :: rest) (length pre) = Some x.
Proof.
  induction pre as [|p pre IH]; intros x rest; cbn [length app nth_error]; [reflexivity|apply IH].
Qed.

(* ------------------------------------------------------------------ *)
(* sizes vs texts                                                      *)
(* ------------------------------------------------------------------ *)

(* the Size the pre-pass must return for a value whose reference layout is r *)
Definition size_of (r : list N * bool) : size :=
  if snd r then Width (N.of_nat (length (fst r))) else Expanded.

(* what the emission loops print: every item preceded by the separator except the first *)
Fixpoint body (sep : list N) (first : bool) (ts : list (list N)) : list N :=
  match ts with
  | [] => []
  | t :: r => (if first then [] else sep) ++ t ++ body sep false r
  end.

Lemma body_false sep ts :
  body sep false ts = match ts with [] => [] | _ => sep ++ join sep ts end.
Proof.
  induction ts as [|t r IH]; [reflexivity|].
  cbn [body join]. rewrite IH. destruct r as [|t' r]; [|reflexivity].
  rewrite app_nil_r. reflexivity.
Qed.

Lemma body_true_join sep ts : body sep true ts = join sep ts.
Proof.
  destruct ts as [|t r]; [reflexivity|].
  cbn [body join app]. rewrite body_false. destruct r as [|t' r]; [apply app_nil_r|reflexivity].
Qed.

(* accumulated size: [sz] plus [n] more characters if every item so far is on one line *)
Definition acc_size (sz : size) (ok : bool) (n : nat) : size :=
  match sz with
  | Width w0 => if ok then Width (w0 + N.of_nat n) else Expanded
  | Expanded => Expanded
  end.

Lemma acc_size_0 sz : acc_size sz true 0 = sz.
Proof. destruct sz as [|w]; cbn [acc_size]; [reflexivity|]. f_equal. lia. Qed.

Lemma acc_size_step sz (first : bool) sepw sep k ok t :
  N.of_nat (length sep) = sepw ->
  acc_size (size_add (if first then sz else size_add sz (Width sepw)) (size_of k)) ok (length t)
  = acc_size sz (snd k && ok) (length ((if first then [] else sep) ++ fst k ++ t)).
Proof.
  intros Hsep. destruct k as [tk ik]. unfold size_of. cbn [fst snd].
  destruct sz as [|w0], first, ik, ok; cbn [size_add acc_size andb app]; try reflexivity;
    rewrite ?app_length; f_equal; lia.
Qed.

Lemma size_add_key a kw pfx t (i : bool) :
  kw = N.of_nat (length pfx) ->
  size_add (size_add a (Width kw)) (size_of (t, i)) = size_add a (size_of (pfx ++ t, i)).
Proof.
  intros ->. unfold size_of. cbn [fst snd].
  destruct a as [|w], i; cbn [size_add]; try reflexivity.
  rewrite app_length. f_equal. lia.
Qed.

Lemma apply_limit_fits l len w :
  apply_limit l len w = if fits l len w then Width w else Expanded.
Proof.
  unfold apply_limit, fits. destruct l as [[|i|wd|i wd]|]; try reflexivity.
  - destruct (N.ltb_spec i len), (N.leb_spec len i); try reflexivity; lia.
  - destruct (N.ltb_spec wd w), (N.leb_spec w wd); try reflexivity; lia.
  - destruct (N.ltb_spec i len), (N.leb_spec len i), (N.ltb_spec wd w), (N.leb_spec w wd);
      try reflexivity; lia.
Qed.

(* ------------------------------------------------------------------ *)
(* the local loops of the model, named, with unfolding equations       *)
(* ------------------------------------------------------------------ *)

Definition pre_go_arr (o : popts) :=
  fix go (items : list value) (first : bool) (sz : size) (len : N) (sizes : list size)
    : size * N * list size :=
    match items with
    | [] => (sz, len, sizes)
    | x :: r =>
        let sz1 := if first then sz
                   else size_add sz (Width (1 + array_before_comma o + array_after_comma o)) in
        let '(sx, sizes') := pre_compute_size o x sizes in
        go r false (size_add sz1 sx) (len + 1) sizes'
    end.

Definition pre_go_obj (o : popts) :=
  fix go (es : list (list N * value)) (first : bool) (sz : size) (len : N) (sizes : list size)
    : size * N * list size :=
    match es with
    | [] => (sz, len, sizes)
    | (k, x) :: r =>
        let sz1 := if first then sz
                   else size_add sz (Width (1 + object_before_comma o + object_after_comma o)) in
        let sz2 := size_add sz1 (Width (printed_string_size k + 1 + object_before_colon o
                                         + object_after_colon o)) in
        let '(sx, sizes') := pre_compute_size o x sizes in
        go r false (size_add sz2 sx) (len + 1) sizes'
    end.

Definition limit_size (l : option limit) (len : N) (sz' : size) : size :=
  match sz' with
  | Expanded => Expanded
  | Width w => apply_limit l len w
  end.

Lemma pre_compute_size_arr o items sizes :
  pre_compute_size o (VArr items) sizes =
  let '(sz, len, sizes2) :=
    pre_go_arr o items true (Width (2 + array_begin o + array_end o)) 0 (sizes ++ [Width 0]) in
  let final := limit_size (array_limit o) len (if len =? 0 then Width (2 + array_empty o) else sz) in
  (final, set_nth_size (length sizes) final sizes2).
Proof. reflexivity. Qed.

Lemma pre_compute_size_obj o entries sizes :
  pre_compute_size o (VObj entries) sizes =
  let '(sz, len, sizes2) :=
    pre_go_obj o entries true (Width (2 + object_begin o + object_end o)) 0 (sizes ++ [Width 0]) in
  let final := limit_size (object_limit o) len (if len =? 0 then Width (2 + object_empty o) else sz) in
  (final, set_nth_size (length sizes) final sizes2).
Proof. reflexivity. Qed.

Lemma pre_go_arr_cons o x r first sz len sizes :
  pre_go_arr o (x :: r) first sz len sizes =
  let '(sx, sizes') := pre_compute_size o x sizes in
  pre_go_arr o r false
    (size_add (if first then sz
               else size_add sz (Width (1 + array_before_comma o + array_after_comma o))) sx)
    (len + 1) sizes'.
Proof. reflexivity. Qed.

Lemma pre_go_obj_cons o k x r first sz len sizes :
  pre_go_obj o ((k, x) :: r) first sz len sizes =
  let '(sx, sizes') := pre_compute_size o x sizes in
  pre_go_obj o r false
    (size_add (size_add (if first then sz
                         else size_add sz (Width (1 + object_before_comma o + object_after_comma o)))
                        (Width (printed_string_size k + 1 + object_before_colon o + object_after_colon o)))
              sx)
    (len + 1) sizes'.
Proof. reflexivity. Qed.

(* emission loops: E = expanded (one item per line), I = inline *)
Definition fmt_goE_arr (o : popts) (ind : nat) (sizes : list size) :=
  fix go (items : list value) (first : bool) (index : nat) : option (list N * nat) :=
    match items with
    | [] => Some ([], index)
    | x :: r =>
        match fmt_with_size o x (S ind) sizes index with
        | None => None
        | Some (tx, index') =>
            match go r false index' with
            | None => None
            | Some (tr, index'') =>
                Some ((if first then [] else spaces (array_before_comma o) ++ [0x2C; 0x0A])
                        ++ indent_by (p_indent o) (S ind) ++ tx ++ tr, index'')
            end
        end
    end.

Definition fmt_goI_arr (o : popts) (ind : nat) (sizes : list size) :=
  fix go (items : list value) (first : bool) (index : nat) : option (list N * nat) :=
    match items with
    | [] => Some ([], index)
    | x :: r =>
        match fmt_with_size o x (S ind) sizes index with
        | None => None
        | Some (tx, index') =>
            match go r false index' with
            | None => None
            | Some (tr, index'') =>
                Some ((if first then []
                       else spaces (array_before_comma o) ++ [0x2C] ++ spaces (array_after_comma o))
                        ++ tx ++ tr, index'')
            end
        end
    end.

Definition key_text (o : popts) (k : list N) : list N :=
  string_literal k ++ spaces (object_before_colon o) ++ [0x3A] ++ spaces (object_after_colon o).

Definition fmt_goE_obj (o : popts) (ind : nat) (sizes : list size) :=
  fix go (es : list (list N * value)) (first : bool) (index : nat) : option (list N * nat) :=
    match es with
    | [] => Some ([], index)
    | (k, x) :: r =>
        match fmt_with_size o x (S ind) sizes index with
        | None => None
        | Some (tx, index') =>
            match go r false index' with
            | None => None
            | Some (tr, index'') =>
                Some ((if first then [] else spaces (object_before_comma o) ++ [0x2C; 0x0A])
                        ++ indent_by (p_indent o) (S ind) ++ key_text o k ++ tx ++ tr, index'')
            end
        end
    end.

Definition fmt_goI_obj (o : popts) (ind : nat) (sizes : list size) :=
  fix go (es : list (list N * value)) (first : bool) (index : nat) : option (list N * nat) :=
    match es with
    | [] => Some ([], index)
    | (k, x) :: r =>
        match fmt_with_size o x (S ind) sizes index with
        | None => None
        | Some (tx, index') =>
            match go r false index' with
            | None => None
            | Some (tr, index'') =>
                Some ((if first then []
                       else spaces (object_before_comma o) ++ [0x2C] ++ spaces (object_after_comma o))
                        ++ key_text o k ++ tx ++ tr, index'')
            end
        end
    end.

Lemma fmt_with_size_arr o items ind sizes index :
  fmt_with_size o (VArr items) ind sizes index =
  match nth_error sizes index with
  | None => None
  | Some sz =>
      match items with
      | [] =>
          Some (0x5B :: (match sz with
                         | Expanded => 0x0A :: indent_by (p_indent o) ind
                         | Width _ => spaces (array_empty o)
                         end) ++ [0x5D], S index)
      | _ =>
          match sz with
          | Expanded =>
              match fmt_goE_arr o ind sizes items true (S index) with
              | None => None
              | Some (body, index2) =>
                  Some (0x5B :: 0x0A :: body ++ 0x0A :: indent_by (p_indent o) ind ++ [0x5D], index2)
              end
          | Width _ =>
              match fmt_goI_arr o ind sizes items true (S index) with
              | None => None
              | Some (body, index2) =>
                  Some (0x5B :: spaces (array_begin o) ++ body ++ spaces (array_end o) ++ [0x5D], index2)
              end
          end
      end
  end.
Proof. reflexivity. Qed.

Lemma fmt_with_size_obj o entries ind sizes index :
  fmt_with_size o (VObj entries) ind sizes index =
  match nth_error sizes index with
  | None => None
  | Some sz =>
      match entries with
      | [] =>
          Some (0x7B :: (match sz with
                         | Expanded => 0x0A :: indent_by (p_indent o) ind
                         | Width _ => spaces (object_empty o)
                         end) ++ [0x7D], S index)
      | _ =>
          match sz with
          | Expanded =>
              match fmt_goE_obj o ind sizes entries true (S index) with
              | None => None
              | Some (body, index2) =>
                  Some (0x7B :: 0x0A :: body ++ 0x0A :: indent_by (p_indent o) ind ++ [0x7D], index2)
              end
          | Width _ =>
              match fmt_goI_obj o ind sizes entries true (S index) with
              | None => None
              | Some (body, index2) =>
                  Some (0x7B :: spaces (object_begin o) ++ body ++ spaces (object_end o) ++ [0x7D], index2)
              end
          end
      end
  end.
Proof. reflexivity. Qed.

(* ------------------------------------------------------------------ *)
(* the reference layout, with named parts                              *)
(* ------------------------------------------------------------------ *)

Definition sepI_arr (o : popts) : list N := sp (array_before_comma o) ++ [0x2C] ++ sp (array_after_comma o).
Definition sepE_arr (o : popts) : list N := sp (array_before_comma o) ++ [0x2C; LF].
Definition sepI_obj (o : popts) : list N := sp (object_before_comma o) ++ [0x2C] ++ sp (object_after_comma o).
Definition sepE_obj (o : popts) : list N := sp (object_before_comma o) ++ [0x2C; LF].

Definition member (o : popts) (depth : nat) (e : list N * value) : list N * bool :=
  let '(t, i) := layout o (S depth) (snd e) in
  (quote (fst e) ++ sp (object_before_colon o) ++ [0x3A] ++ sp (object_after_colon o) ++ t, i).

Definition on_line (o : popts) (depth : nat) (k : list N * bool) : list N :=
  indentation (p_indent o) (S depth) ++ fst k.

Definition arr_one_line (o : popts) (n : nat) (kids : list (list N * bool)) : list N :=
  [0x5B] ++ (match n with
             | O => sp (array_empty o)
             | _ => sp (array_begin o) ++ join (sepI_arr o) (map fst kids) ++ sp (array_end o)
             end) ++ [0x5D].

Definition arr_expanded (o : popts) (depth : nat) (n : nat) (kids : list (list N * bool)) : list N :=
  [0x5B; LF]
    ++ (match n with
        | O => []
        | _ => join (sepE_arr o) (map (on_line o depth) kids) ++ [LF]
        end)
    ++ indentation (p_indent o) depth ++ [0x5D].

Definition obj_one_line (o : popts) (n : nat) (kids : list (list N * bool)) : list N :=
  [0x7B] ++ (match n with
             | O => sp (object_empty o)
             | _ => sp (object_begin o) ++ join (sepI_obj o) (map fst kids) ++ sp (object_end o)
             end) ++ [0x7D].

Definition obj_expanded (o : popts) (depth : nat) (n : nat) (kids : list (list N * bool)) : list N :=
  [0x7B; LF]
    ++ (match n with
        | O => []
        | _ => join (sepE_obj o) (map (on_line o depth) kids) ++ [LF]
        end)
    ++ indentation (p_indent o) depth ++ [0x7D].

Lemma layout_arr o depth items :
  layout o depth (VArr items) =
  let kids := map (layout o (S depth)) items in
  let n := length items in
  if forallb snd kids && fits (array_limit o) (N.of_nat n) (N.of_nat (length (arr_one_line o n kids)))
  then (arr_one_line o n kids, true)
  else (arr_expanded o depth n kids, false).
Proof. destruct items as [|x r]; reflexivity. Qed.

Lemma layout_obj o depth entries :
  layout o depth (VObj entries) =
  let kids := map (member o depth) entries in
  let n := length entries in
  if forallb snd kids && fits (object_limit o) (N.of_nat n) (N.of_nat (length (obj_one_line o n kids)))
  then (obj_one_line o n kids, true)
  else (obj_expanded o depth n kids, false).
Proof. destruct entries as [|x r]; reflexivity. Qed.

(* ------------------------------------------------------------------ *)
(* the central statement                                               *)
(* ------------------------------------------------------------------ *)

(* For every vector already present and every depth: the pre-pass appends a block [mine]
   (one entry per container of v, in pre-order) and returns the Size of the reference
   layout; the emission started at the beginning of that block, whatever precedes and
   follows it, prints the reference layout and stops at the end of the block. *)
Definition lockstep (o : popts) (v : value) : Prop :=
  forall sizes0 ind, exists mine,
    pre_compute_size o v sizes0 = (size_of (layout o ind v), sizes0 ++ mine) /\
    forall pre extra,
      fmt_with_size o v ind (pre ++ mine ++ extra) (length pre)
      = Some (fst (layout o ind v), (length pre + length mine)%nat).

Lemma sepI_arr_length o :
  N.of_nat (length (sepI_arr o)) = 1 + array_before_comma o + array_after_comma o.
Proof. unfold sepI_arr. rewrite !app_length, !sp_length. cbn [length]. lia. Qed.

Lemma sepI_obj_length o :
  N.of_nat (length (sepI_obj o)) = 1 + object_before_comma o + object_after_comma o.
Proof. unfold sepI_obj. rewrite !app_length, !sp_length. cbn [length]. lia. Qed.

(* ---- arrays: the three loops ---- *)
Lemma arr_loops o ind items :
  Forall (lockstep o) items ->
  forall first sz len sizes,
  exists mines,
    pre_go_arr o items first sz len sizes
    = (acc_size sz (forallb snd (map (layout o (S ind)) items))
                (length (body (sepI_arr o) first (map fst (map (layout o (S ind)) items)))),
       len + N.of_nat (length items), sizes ++ mines)
    /\ (forall pre extra,
          fmt_goE_arr o ind (pre ++ mines ++ extra) items first (length pre)
          = Some (body (sepE_arr o) first (map (on_line o ind) (map (layout o (S ind)) items)),
                  (length pre + length mines)%nat))
    /\ (forall pre extra,
          fmt_goI_arr o ind (pre ++ mines ++ extra) items first (length pre)
          = Some (body (sepI_arr o) first (map fst (map (layout o (S ind)) items)),
                  (length pre + length mines)%nat)).
Proof.
  intros HF. induction HF as [|x r Hx _ IH]; intros first sz len sizes.
  - exists []. cbn [map forallb body length app]. rewrite acc_size_0, N.add_0_r, app_nil_r.
    split; [reflexivity|]. split; intros pre extra; cbn [fmt_goE_arr fmt_goI_arr length];
      rewrite Nat.add_0_r; reflexivity.
  - destruct (Hx sizes (S ind)) as [mx [Hpre Hfmt]].
    set (sz1 := size_add (if first then sz
                          else size_add sz (Width (1 + array_before_comma o + array_after_comma o)))
                         (size_of (layout o (S ind) x))).
    destruct (IH false sz1 (len + 1) (sizes ++ mx)) as [mr [Hpr [HfE HfI]]].
    exists (mx ++ mr). split; [|split].
    + rewrite pre_go_arr_cons, Hpre. cbv beta iota zeta. fold sz1. rewrite Hpr.
      cbn [map forallb body length]. f_equal; [f_equal|].
      * unfold sz1. apply acc_size_step. apply sepI_arr_length.
      * lia.
      * rewrite app_assoc. reflexivity.
    + intros pre extra.
      change (fmt_goE_arr o ind (pre ++ (mx ++ mr) ++ extra) (x :: r) first (length pre))
        with (match fmt_with_size o x (S ind) (pre ++ (mx ++ mr) ++ extra) (length pre) with
              | None => None
              | Some (tx, index') =>
                  match fmt_goE_arr o ind (pre ++ (mx ++ mr) ++ extra) r false index' with
                  | None => None
                  | Some (tr, index'') =>
                      Some ((if first then [] else spaces (array_before_comma o) ++ [0x2C; 0x0A])
                              ++ indent_by (p_indent o) (S ind) ++ tx ++ tr, index'')
                  end
              end).
      rewrite <- (app_assoc mx mr extra), Hfmt.
      specialize (HfE (pre ++ mx) extra). rewrite <- app_assoc, app_length in HfE. rewrite HfE.
      cbn [map body]. rewrite indent_by_indentation.
      change (on_line o ind (layout o (S ind) x)) with (indentation (p_indent o) (S ind) ++ fst (layout o (S ind) x)).
      rewrite <- app_assoc. rewrite app_length.
      f_equal. f_equal. lia.
    + intros pre extra.
      change (fmt_goI_arr o ind (pre ++ (mx ++ mr) ++ extra) (x :: r) first (length pre))
        with (match fmt_with_size o x (S ind) (pre ++ (mx ++ mr) ++ extra) (length pre) with
              | None => None
              | Some (tx, index') =>
                  match fmt_goI_arr o ind (pre ++ (mx ++ mr) ++ extra) r false index' with
                  | None => None
                  | Some (tr, index'') =>
                      Some ((if first then []
                             else spaces (array_before_comma o) ++ [0x2C] ++ spaces (array_after_comma o))
                              ++ tx ++ tr, index'')
                  end
              end).
      rewrite <- (app_assoc mx mr extra), Hfmt.
      specialize (HfI (pre ++ mx) extra). rewrite <- app_assoc, app_length in HfI. rewrite HfI.
      cbn [map body]. rewrite app_length.
      f_equal. f_equal. lia.
Qed.

Lemma pre_go_arr_nil o first sz len sizes : pre_go_arr o [] first sz len sizes = (sz, len, sizes).
Proof. reflexivity. Qed.

Lemma pre_go_obj_nil o first sz len sizes : pre_go_obj o [] first sz len sizes = (sz, len, sizes).
Proof. reflexivity. Qed.

Lemma size_of_if (c : bool) a b :
  size_of (if c then (a, true) else (b, false)) = if c then Width (N.of_nat (length a)) else Expanded.
Proof. destruct c; reflexivity. Qed.

(* the Size stored for an array is the Size of its reference layout *)
Lemma arr_final_size o ind items :
  limit_size (array_limit o) (0 + N.of_nat (length items))
    (if 0 + N.of_nat (length items) =? 0 then Width (2 + array_empty o)
     else acc_size (Width (2 + array_begin o + array_end o))
                   (forallb snd (map (layout o (S ind)) items))
                   (length (body (sepI_arr o) true (map fst (map (layout o (S ind)) items)))))
  = size_of (layout o ind (VArr items)).
Proof.
  rewrite layout_arr. cbv zeta. rewrite size_of_if.
  destruct items as [|x r].
  - cbn [length map forallb andb]. change (0 + N.of_nat 0) with 0. change (0 =? 0) with true.
    cbv iota. unfold limit_size. rewrite apply_limit_fits.
    assert (Hw : N.of_nat (length (arr_one_line o 0 [])) = 2 + array_empty o).
    { unfold arr_one_line. rewrite !app_length, sp_length. cbn [length]. lia. }
    rewrite Hw. reflexivity.
  - set (kids := map (layout o (S ind)) (x :: r)).
    set (n := length (x :: r)).
    assert (Hn : n = S (length r)) by reflexivity.
    destruct (N.eqb_spec (0 + N.of_nat n) 0) as [H0|_]; [lia|].
    destruct (forallb snd kids); cbn [acc_size andb limit_size]; [|reflexivity].
    rewrite apply_limit_fits.
    replace (0 + N.of_nat n) with (N.of_nat n) by lia.
    assert (Hw : N.of_nat (length (arr_one_line o n kids))
                 = 2 + array_begin o + array_end o
                   + N.of_nat (length (body (sepI_arr o) true (map fst kids)))).
    { unfold arr_one_line. rewrite Hn. rewrite body_true_join, !app_length, !sp_length.
      cbn [length]. lia. }
    rewrite Hw. reflexivity.
Qed.

Lemma lockstep_arr o items : Forall (lockstep o) items -> lockstep o (VArr items).
Proof.
  intros HF sizes0 ind.
  destruct (arr_loops o ind items HF true (Width (2 + array_begin o + array_end o)) 0
                      (sizes0 ++ [Width 0])) as [mines [Hpr [HfE HfI]]].
  pose proof (arr_final_size o ind items) as Hfin.
  remember (size_of (layout o ind (VArr items))) as final eqn:Hfinal.
  destruct items as [|x r].
  - (* the empty array *)
    clear mines Hpr HfE HfI.
    exists [final]. split.
    + rewrite pre_compute_size_arr, pre_go_arr_nil. cbv beta iota zeta.
      cbn [length] in Hfin. change (0 + N.of_nat 0) with 0 in Hfin.
      change (0 =? 0) with true in Hfin |- *. cbv iota in Hfin |- *. rewrite Hfin.
      rewrite set_nth_size_mid. reflexivity.
    + intros pre extra. rewrite fmt_with_size_arr. cbn [app]. rewrite nth_error_mid.
      cbn [length]. rewrite Nat.add_1_r. f_equal. f_equal.
      rewrite layout_arr in Hfinal |- *. cbv zeta in Hfinal |- *. rewrite size_of_if in Hfinal.
      cbn [length map forallb andb] in Hfinal |- *.
      destruct (fits (array_limit o) (N.of_nat 0) (N.of_nat (length (arr_one_line o 0 []))));
        subst final; cbn [fst].
      * reflexivity.
      * rewrite indent_by_indentation. reflexivity.
  - exists (final :: mines). split.
    + rewrite pre_compute_size_arr, Hpr. cbv beta iota zeta. rewrite Hfin.
      rewrite <- app_assoc. cbn [app]. rewrite set_nth_size_mid. reflexivity.
    + intros pre extra. rewrite fmt_with_size_arr. cbn [app]. rewrite nth_error_mid.
      specialize (HfE (pre ++ [final]) extra). specialize (HfI (pre ++ [final]) extra).
      rewrite <- app_assoc, app_length in HfE, HfI. cbn [app length] in HfE, HfI.
      rewrite Nat.add_1_r in HfE, HfI.
      rewrite layout_arr in Hfinal |- *. cbv zeta in Hfinal |- *. rewrite size_of_if in Hfinal.
      set (kids := map (layout o (S ind)) (x :: r)) in *.
      set (n := length (x :: r)) in *.
      assert (Hn : n = S (length r)) by reflexivity.
      destruct (forallb snd kids && fits (array_limit o) (N.of_nat n)
                                         (N.of_nat (length (arr_one_line o n kids))));
        subst final; cbn [fst].
      * rewrite HfI. f_equal. f_equal; [|cbn [length]; lia].
        rewrite body_true_join. unfold arr_one_line. rewrite Hn. cbn [app].
        rewrite <- !app_assoc. reflexivity.
      * rewrite HfE. f_equal. f_equal; [|cbn [length]; lia].
        rewrite body_true_join, indent_by_indentation. unfold arr_expanded. rewrite Hn. cbn [app].
        rewrite <- !app_assoc. reflexivity.
Qed.

(* ---- objects: the three loops ---- *)
Definition key_pfx (o : popts) (k : list N) : list N :=
  quote k ++ sp (object_before_colon o) ++ [0x3A] ++ sp (object_after_colon o).

Lemma key_text_pfx o k : key_text o k = key_pfx o k.
Proof. unfold key_text, key_pfx. rewrite string_literal_quote. reflexivity. Qed.

Lemma key_pfx_length o k :
  printed_string_size k + 1 + object_before_colon o + object_after_colon o
  = N.of_nat (length (key_pfx o k)).
Proof.
  unfold key_pfx. rewrite printed_string_size_quote, !app_length, !sp_length. cbn [length]. lia.
Qed.

Lemma member_eq o d k x :
  member o d (k, x) = (key_pfx o k ++ fst (layout o (S d) x), snd (layout o (S d) x)).
Proof.
  unfold member, key_pfx. cbn [fst snd]. destruct (layout o (S d) x) as [t i]. cbn [fst snd].
  rewrite <- !app_assoc. reflexivity.
Qed.

Lemma size_add_key' a kw pfx (r : list N * bool) :
  kw = N.of_nat (length pfx) ->
  size_add (size_add a (Width kw)) (size_of r) = size_add a (size_of (pfx ++ fst r, snd r)).
Proof. destruct r as [t i]. apply size_add_key. Qed.

Lemma obj_loops o ind entries :
  Forall (fun e => lockstep o (snd e)) entries ->
  forall first sz len sizes,
  exists mines,
    pre_go_obj o entries first sz len sizes
    = (acc_size sz (forallb snd (map (member o ind) entries))
                (length (body (sepI_obj o) first (map fst (map (member o ind) entries)))),
       len + N.of_nat (length entries), sizes ++ mines)
    /\ (forall pre extra,
          fmt_goE_obj o ind (pre ++ mines ++ extra) entries first (length pre)
          = Some (body (sepE_obj o) first (map (on_line o ind) (map (member o ind) entries)),
                  (length pre + length mines)%nat))
    /\ (forall pre extra,
          fmt_goI_obj o ind (pre ++ mines ++ extra) entries first (length pre)
          = Some (body (sepI_obj o) first (map fst (map (member o ind) entries)),
                  (length pre + length mines)%nat)).
Proof.
  intros HF. induction HF as [|[k x] r Hx _ IH]; intros first sz len sizes.
  - exists []. cbn [map forallb body length app]. rewrite acc_size_0, N.add_0_r, app_nil_r.
    split; [reflexivity|]. split; intros pre extra; cbn [fmt_goE_obj fmt_goI_obj length];
      rewrite Nat.add_0_r; reflexivity.
  - cbn [snd] in Hx. destruct (Hx sizes (S ind)) as [mx [Hpre Hfmt]].
    set (sz1 := size_add (if first then sz
                          else size_add sz (Width (1 + object_before_comma o + object_after_comma o)))
                         (size_of (member o ind (k, x)))).
    destruct (IH false sz1 (len + 1) (sizes ++ mx)) as [mr [Hpr [HfE HfI]]].
    exists (mx ++ mr). split; [|split].
    + rewrite pre_go_obj_cons, Hpre. cbv beta iota zeta.
      rewrite (size_add_key' _ _ (key_pfx o k)) by apply key_pfx_length.
      rewrite <- member_eq. fold sz1. rewrite Hpr.
      cbn [map forallb body length]. f_equal; [f_equal|].
      * unfold sz1. apply acc_size_step. apply sepI_obj_length.
      * lia.
      * rewrite app_assoc. reflexivity.
    + intros pre extra.
      change (fmt_goE_obj o ind (pre ++ (mx ++ mr) ++ extra) ((k, x) :: r) first (length pre))
        with (match fmt_with_size o x (S ind) (pre ++ (mx ++ mr) ++ extra) (length pre) with
              | None => None
              | Some (tx, index') =>
                  match fmt_goE_obj o ind (pre ++ (mx ++ mr) ++ extra) r false index' with
                  | None => None
                  | Some (tr, index'') =>
                      Some ((if first then [] else spaces (object_before_comma o) ++ [0x2C; 0x0A])
                              ++ indent_by (p_indent o) (S ind) ++ key_text o k ++ tx ++ tr, index'')
                  end
              end).
      rewrite <- (app_assoc mx mr extra), Hfmt.
      specialize (HfE (pre ++ mx) extra). rewrite <- app_assoc, app_length in HfE. rewrite HfE.
      cbn [map body]. rewrite indent_by_indentation, key_text_pfx.
      change (on_line o ind (member o ind (k, x)))
        with (indentation (p_indent o) (S ind) ++ fst (member o ind (k, x))).
      rewrite member_eq. cbn [fst]. rewrite <- !app_assoc. rewrite app_length.
      f_equal. f_equal. lia.
    + intros pre extra.
      change (fmt_goI_obj o ind (pre ++ (mx ++ mr) ++ extra) ((k, x) :: r) first (length pre))
        with (match fmt_with_size o x (S ind) (pre ++ (mx ++ mr) ++ extra) (length pre) with
              | None => None
              | Some (tx, index') =>
                  match fmt_goI_obj o ind (pre ++ (mx ++ mr) ++ extra) r false index' with
                  | None => None
                  | Some (tr, index'') =>
                      Some ((if first then []
                             else spaces (object_before_comma o) ++ [0x2C] ++ spaces (object_after_comma o))
                              ++ key_text o k ++ tx ++ tr, index'')
                  end
              end).
      rewrite <- (app_assoc mx mr extra), Hfmt.
      specialize (HfI (pre ++ mx) extra). rewrite <- app_assoc, app_length in HfI. rewrite HfI.
      cbn [map body]. rewrite key_text_pfx, member_eq. cbn [fst].
      rewrite <- !app_assoc. rewrite app_length.
      f_equal. f_equal. lia.
Qed.

Lemma obj_final_size o ind entries :
  limit_size (object_limit o) (0 + N.of_nat (length entries))
    (if 0 + N.of_nat (length entries) =? 0 then Width (2 + object_empty o)
     else acc_size (Width (2 + object_begin o + object_end o))
                   (forallb snd (map (member o ind) entries))
                   (length (body (sepI_obj o) true (map fst (map (member o ind) entries)))))
  = size_of (layout o ind (VObj entries)).
Proof.
  rewrite layout_obj. cbv zeta. rewrite size_of_if.
  destruct entries as [|x r].
  - cbn [length map forallb andb]. change (0 + N.of_nat 0) with 0. change (0 =? 0) with true.
    cbv iota. unfold limit_size. rewrite apply_limit_fits.
    assert (Hw : N.of_nat (length (obj_one_line o 0 [])) = 2 + object_empty o).
    { unfold obj_one_line. rewrite !app_length, sp_length. cbn [length]. lia. }
    rewrite Hw. reflexivity.
  - set (kids := map (member o ind) (x :: r)).
    set (n := length (x :: r)).
    assert (Hn : n = S (length r)) by reflexivity.
    destruct (N.eqb_spec (0 + N.of_nat n) 0) as [H0|_]; [lia|].
    destruct (forallb snd kids); cbn [acc_size andb limit_size]; [|reflexivity].
    rewrite apply_limit_fits.
    replace (0 + N.of_nat n) with (N.of_nat n) by lia.
    assert (Hw : N.of_nat (length (obj_one_line o n kids))
                 = 2 + object_begin o + object_end o
                   + N.of_nat (length (body (sepI_obj o) true (map fst kids)))).
    { unfold obj_one_line. rewrite Hn. rewrite body_true_join, !app_length, !sp_length.
      cbn [length]. lia. }
    rewrite Hw. reflexivity.
Qed.

Lemma lockstep_obj o entries : Forall (fun e => lockstep o (snd e)) entries -> lockstep o (VObj entries).
Proof.
  intros HF sizes0 ind.
  destruct (obj_loops o ind entries HF true (Width (2 + object_begin o + object_end o)) 0
                      (sizes0 ++ [Width 0])) as [mines [Hpr [HfE HfI]]].
  pose proof (obj_final_size o ind entries) as Hfin.
  remember (size_of (layout o ind (VObj entries))) as final eqn:Hfinal.
  destruct entries as [|x r].
  - (* the empty object *)
    clear mines Hpr HfE HfI.
    exists [final]. split.
    + rewrite pre_compute_size_obj, pre_go_obj_nil. cbv beta iota zeta.
      cbn [length] in Hfin. change (0 + N.of_nat 0) with 0 in Hfin.
      change (0 =? 0) with true in Hfin |- *. cbv iota in Hfin |- *. rewrite Hfin.
      rewrite set_nth_size_mid. reflexivity.
    + intros pre extra. rewrite fmt_with_size_obj. cbn [app]. rewrite nth_error_mid.
      cbn [length]. rewrite Nat.add_1_r. f_equal. f_equal.
      rewrite layout_obj in Hfinal |- *. cbv zeta in Hfinal |- *. rewrite size_of_if in Hfinal.
      cbn [length map forallb andb] in Hfinal |- *.
      destruct (fits (object_limit o) (N.of_nat 0) (N.of_nat (length (obj_one_line o 0 []))));
        subst final; cbn [fst].
      * reflexivity.
      * rewrite indent_by_indentation. reflexivity.
  - exists (final :: mines). split.
    + rewrite pre_compute_size_obj, Hpr. cbv beta iota zeta. rewrite Hfin.
      rewrite <- app_assoc. cbn [app]. rewrite set_nth_size_mid. reflexivity.
    + intros pre extra. rewrite fmt_with_size_obj. cbn [app]. rewrite nth_error_mid.
      specialize (HfE (pre ++ [final]) extra). specialize (HfI (pre ++ [final]) extra).
      rewrite <- app_assoc, app_length in HfE, HfI. cbn [app length] in HfE, HfI.
      rewrite Nat.add_1_r in HfE, HfI.
      rewrite layout_obj in Hfinal |- *. cbv zeta in Hfinal |- *. rewrite size_of_if in Hfinal.
      set (kids := map (member o ind) (x :: r)) in *.
      set (n := length (x :: r)) in *.
      assert (Hn : n = S (length r)) by reflexivity.
      destruct (forallb snd kids && fits (object_limit o) (N.of_nat n)
                                         (N.of_nat (length (obj_one_line o n kids))));
        subst final; cbn [fst].
      * rewrite HfI. f_equal. f_equal; [|cbn [length]; lia].
        rewrite body_true_join. unfold obj_one_line. rewrite Hn. cbn [app].
        rewrite <- !app_assoc. reflexivity.
      * rewrite HfE. f_equal. f_equal; [|cbn [length]; lia].
        rewrite body_true_join, indent_by_indentation. unfold obj_expanded. rewrite Hn. cbn [app].
        rewrite <- !app_assoc. reflexivity.
Qed.

(* ---- the central lemma ---- *)
Lemma lockstep_scalar o v t :
  (forall sizes, pre_compute_size o v sizes = (Width (N.of_nat (length t)), sizes)) ->
  (forall ind, layout o ind v = (t, true)) ->
  (forall ind sizes index, fmt_with_size o v ind sizes index = Some (t, index)) ->
  lockstep o v.
Proof.
  intros Hp Hl Hf sizes0 ind. exists []. split.
  - rewrite Hp, Hl, app_nil_r. reflexivity.
  - intros pre extra. rewrite Hf, Hl. cbn [length fst]. rewrite Nat.add_0_r. reflexivity.
Qed.

Theorem central : forall o v, lockstep o v.
Proof.
  intros o v. induction v as [| b | n | s | l IH | l IH] using value_ind'.
  - apply (lockstep_scalar o VNull (s2l "null")); reflexivity.
  - destruct b.
    + apply (lockstep_scalar o (VBool true) (s2l "true")); reflexivity.
    + apply (lockstep_scalar o (VBool false) (s2l "false")); reflexivity.
  - apply (lockstep_scalar o (VNum n) n); reflexivity.
  - apply (lockstep_scalar o (VStr s) (quote s)).
    + intros sizes. cbn [pre_compute_size]. rewrite printed_string_size_quote. reflexivity.
    + reflexivity.
    + intros ind sizes index. cbn [fmt_with_size]. rewrite string_literal_quote. reflexivity.
  - apply lockstep_arr, IH.
  - apply lockstep_obj, IH.
Qed.

Print Assumptions central.
