(* Proofs/ParserSoundLex.v -- soundness of the leaf lexers of Model/Parser.v with respect to
   Spec/Grammar.v: one lemma per leaf function describing what an Ok outcome consumed,
   returned and appended to the code map.  Used by Proofs/ParserSound.v. *)
From JsonSyntax Require Import Base.Prelude Base.Value Base.Unicode Model.Parser
     Proofs.ParserRecDef Spec.Grammar.

(* ---------- vocabulary ---------- *)
Definition inj (it : item) : sitem := SOk (fst it) (snd it).

(* [reads st t st'] : going from st to st' consumed exactly the items t *)
Definition reads (st : pstate) (t : list item) (st' : pstate) : Prop :=
  rest st = map inj t ++ rest st' /\ pos st' = pos st + blen t.

(* every code point of the stream is at most 0x10FFFF (needed by [unescaped]) *)
Definition good (l : list sitem) : Prop :=
  Forall (fun x => match x with SOk c _ => c <= 0x10FFFF | SErr => True end) l.

Lemma blen_app a b : blen (a ++ b) = blen a + blen b.
Proof. unfold blen. induction a as [|x a IH]; cbn [app fold_right]; [lia|]. rewrite IH. lia. Qed.
Lemma blen_cons x a : blen (x :: a) = snd x + blen a.
Proof. reflexivity. Qed.
Lemma blen_nil : blen [] = 0.
Proof. reflexivity. Qed.
Lemma blen_nil' : blen (@nil (N * N)) = 0.
Proof. reflexivity. Qed.
Ltac bl := rewrite ?blen_app, ?blen_cons, ?blen_nil, ?blen_nil'; cbn [snd fst].
Ltac bl_in H := rewrite ?blen_app, ?blen_cons, ?blen_nil, ?blen_nil' in H; cbn [snd fst] in H.
Ltac blia :=
  repeat first [rewrite blen_app in * | rewrite blen_cons in * | rewrite blen_nil in * | rewrite blen_nil' in *];
  cbn [snd fst] in *; lia.
Lemma cps_app a b : cps (a ++ b) = cps a ++ cps b.
Proof. apply map_app. Qed.
Lemma cps_cons x a : cps (x :: a) = fst x :: cps a.
Proof. reflexivity. Qed.

Lemma reads_refl st : reads st [] st.
Proof. split; [reflexivity|]. bl. lia. Qed.

Lemma reads_trans a t1 b t2 c : reads a t1 b -> reads b t2 c -> reads a (t1 ++ t2) c.
Proof.
  intros [H1 P1] [H2 P2]. split.
  - rewrite H1, H2, map_app, app_assoc. reflexivity.
  - rewrite blen_app. lia.
Qed.

Lemma reads_eq a t b t' : reads a t b -> t = t' -> reads a t' b.
Proof. intros H <-. exact H. Qed.

Lemma reads_good a t b : reads a t b -> good (rest a) -> good (rest b).
Proof. intros [H _] G. rewrite H in G. apply Forall_app in G. apply G. Qed.

Lemma items_of_inj t r : items_of (map inj t ++ r) = t ++ items_of r.
Proof. induction t as [|[c l] t IH]; cbn; [reflexivity|]. rewrite IH. reflexivity. Qed.

Lemma ws_app a b : ws a -> ws b -> ws (a ++ b).
Proof. intros; apply Forall_app; split; assumption. Qed.
Lemma ws_nil : ws [].
Proof. constructor. Qed.

Lemma shift_app d a b : shift d (a ++ b) = shift d a ++ shift d b.
Proof. apply map_app. Qed.
Lemma shift_shift a b m : shift a (shift b m) = shift (b + a) m.
Proof.
  unfold shift. rewrite map_map. apply map_ext. intros [[x y] v]. f_equal. f_equal; lia.
Qed.
Lemma shift_length d m : length (shift d m) = length m.
Proof. apply map_length. Qed.
Lemma shift_ext d d' m : d = d' -> shift d m = shift d' m.
Proof. intros ->; reflexivity. Qed.
Lemma shift_0 m : shift 0 m = m.
Proof.
  unfold shift. rewrite <- (map_id m) at 2. apply map_ext. intros [[x y] v]. f_equal. f_equal; lia.
Qed.

Lemma cme3 (a b c a' b' c' : N) : a = a' -> b = b' -> c = c' -> (a, b, c) = (a', b', c').
Proof. intros -> -> ->; reflexivity. Qed.

(* ---------- monadic plumbing ---------- *)
Ltac dbind H x Hx :=
  match type of H with
  | obind ?e _ = _ =>
      let r := fresh "r" in
      remember e as r eqn:Hx in H; symmetry in Hx; destruct r as [x| | |]; cbn [obind] in H; [|discriminate H..]
  end.

(* closes goals of the form  match oc with <N literals> end = <if-cascade>  *)
Ltac lit_cases p := repeat (destruct p as [p|p|]; try reflexivity).

(* ---------- primitives ---------- *)
Definition close_at (i p : N) (l : list cme) : list cme :=
  match nth_error l (N.to_nat i) with
  | Some (s, _, _) => set_nth (N.to_nat i) (s, N.max s p, N.of_nat (length l) - i) l
  | None => l
  end.

Lemma end_fragment_ok i st u st' :
  end_fragment i st = Ok (u, st') ->
  rest st' = rest st /\ pos st' = pos st /\ cm st' = close_at i (pos st) (cm st).
Proof.
  unfold end_fragment, close_at. destruct (nth_error (cm st) (N.to_nat i)) as [[[s e] v]|]; [|discriminate].
  destruct (N.of_nat (length (cm st)) <? i); [discriminate|]. intros H; inversion H; subst; cbn. auto.
Qed.

Lemma set_nth_app {A} (l : list A) x y r : set_nth (length l) x (l ++ y :: r) = l ++ x :: r.
Proof. induction l as [|z l IH]; cbn; [reflexivity|]. rewrite IH. reflexivity. Qed.

Lemma close_at_app l s e v r p :
  close_at (N.of_nat (length l)) p (l ++ (s, e, v) :: r) = l ++ (s, N.max s p, 1 + N.of_nat (length r)) :: r.
Proof.
  unfold close_at. rewrite Nat2N.id, nth_error_app2, Nat.sub_diag by lia. cbn [nth_error].
  rewrite set_nth_app. do 3 f_equal. rewrite app_length. cbn [length]. lia.
Qed.

Lemma next_char_some st p c st' :
  next_char st = Ok ((p, Some c), st') ->
  exists len, rest st = SOk c len :: rest st' /\ pos st' = pos st + len /\ cm st' = cm st /\ p = pos st.
Proof.
  unfold next_char. destruct (rest st) as [|[c0 len|] r] eqn:E; intros H; inversion H; subst; cbn.
  exists len. auto.
Qed.

Lemma next_char_none st p st' :
  next_char st = Ok ((p, None), st') -> rest st = [] /\ st' = st.
Proof.
  unfold next_char. destruct (rest st) as [|[c0 len|] r] eqn:E; intros H; inversion H; subst; auto.
Qed.

Lemma next_char_reads st p c st' :
  next_char st = Ok ((p, Some c), st') ->
  exists len, reads st [(c, len)] st' /\ cm st' = cm st /\ p = pos st.
Proof.
  intros H. apply next_char_some in H as (len & H1 & H2 & H3 & H4). exists len.
  split; [|auto]. split; [exact H1|]. bl. lia.
Qed.

Lemma peek_char_some st c :
  peek_char st = Ok (Some c) -> exists len r, rest st = SOk c len :: r.
Proof.
  unfold peek_char. destruct (rest st) as [|[c0 len|] r]; intros H; inversion H; subst. eauto.
Qed.

Lemma is_ws_ws_char c : is_ws c = ws_char c.
Proof.
  unfold is_ws, ws_char. destruct (c =? 0x20), (c =? 0x09), (c =? 0x0D), (c =? 0x0A); reflexivity.
Qed.

Lemma skip_ws_list_ok l p l' p' :
  skip_ws_list l p = Ok (l', p') -> exists w, ws w /\ l = map inj w ++ l' /\ p' = p + blen w.
Proof.
  revert p. induction l as [|[c len|] r IH]; intros p H; cbn [skip_ws_list] in H.
  - inversion H; subst. exists []. split; [apply ws_nil|]. split; [reflexivity|]. bl; lia.
  - destruct (is_ws c) eqn:W.
    + apply IH in H as (w & Hw & -> & ->). exists ((c, len) :: w). split.
      * constructor; [cbn; rewrite <- is_ws_ws_char; exact W|exact Hw].
      * split; [reflexivity|]. bl. lia.
    + inversion H; subst. exists []. split; [apply ws_nil|]. split; [reflexivity|]. bl; lia.
  - discriminate.
Qed.

Lemma skip_whitespaces_ok st u st' :
  skip_whitespaces st = Ok (u, st') -> exists w, ws w /\ reads st w st' /\ cm st' = cm st.
Proof.
  unfold skip_whitespaces. destruct (skip_ws_list (rest st) (pos st)) as [[l p]| | |] eqn:E; try discriminate.
  intros H; inversion H; subst. apply skip_ws_list_ok in E as (w & Hw & E1 & E2).
  exists w. split; [exact Hw|]. split; [|reflexivity]. split; cbn; assumption.
Qed.

(* ---------- literals ---------- *)
Lemma expect_chars_ok cs : forall st u st',
  expect_chars cs st = Ok (u, st') -> exists t, cps t = cs /\ reads st t st' /\ cm st' = cm st.
Proof.
  induction cs as [|c cs IH]; intros st u st' H; cbn [expect_chars] in H.
  - inversion H; subst. exists []. split; [reflexivity|]. split; [apply reads_refl|reflexivity].
  - dbind H x Hx. destruct x as [[p oc] st1]. destruct oc as [x|]; [|discriminate].
    destruct (N.eqb_spec x c) as [->|]; [|discriminate].
    apply next_char_reads in Hx as (len & R1 & C1 & _).
    apply IH in H as (t & Ht & R2 & C2). exists ((c, len) :: t).
    split; [rewrite cps_cons, Ht; reflexivity|]. split; [|congruence].
    exact (reads_trans _ _ _ _ _ R1 R2).
Qed.

(* a leaf fragment: begin_fragment, read t without touching the code map, end_fragment *)
Lemma leaf_fragment st t st1 u st2 :
  reads (snd (begin_fragment st)) t st1 -> cm st1 = cm (snd (begin_fragment st)) ->
  end_fragment (fst (begin_fragment st)) st1 = Ok (u, st2) ->
  reads st t st2 /\ cm st2 = cm st ++ [(pos st, pos st + blen t, 1)].
Proof.
  cbn [begin_fragment fst snd]. intros [R1 R2] C H. cbn [rest pos cm] in *.
  apply end_fragment_ok in H as (E1 & E2 & E3). split.
  - split; [rewrite E1; exact R1|lia].
  - rewrite E3, C, close_at_app. cbn [length]. do 2 f_equal. apply cme3; lia.
Qed.

Lemma parse_null_ok st i st' :
  parse_null st = Ok (i, st') ->
  exists t, cps t = [0x6E; 0x75; 0x6C; 0x6C] /\ reads st t st' /\
            i = N.of_nat (length (cm st)) /\ cm st' = cm st ++ [(pos st, pos st + blen t, 1)].
Proof.
  unfold parse_null. destruct (begin_fragment st) as [i0 st0] eqn:B. intros H.
  dbind H x Hx. destruct x as [u st1]. dbind H y Hy. destruct y as [u2 st2]. inversion H; subst.
  apply expect_chars_ok in Hx as (t & Ht & R & C).
  replace st0 with (snd (begin_fragment st)) in R, C by (rewrite B; reflexivity).
  replace i with (fst (begin_fragment st)) in Hy by (rewrite B; reflexivity).
  destruct (leaf_fragment _ _ _ _ _ R C Hy) as [R' C'].
  exists t. split; [exact Ht|]. split; [exact R'|]. split; [|exact C'].
  unfold begin_fragment in B. inversion B; reflexivity.
Qed.

Lemma parse_bool_eq st :
  parse_bool st =
  let '(i, st0) := begin_fragment st in
  do ((p, oc), st1) <- next_char st0;
  match oc with
  | Some c =>
      if c =? 0x74 then
        do (_, st2) <- expect_chars [0x72; 0x75; 0x65] st1;
        do (_, st3) <- end_fragment i st2;
        Ok ((true, i), st3)
      else if c =? 0x66 then
        do (_, st2) <- expect_chars [0x61; 0x6C; 0x73; 0x65] st1;
        do (_, st3) <- end_fragment i st2;
        Ok ((false, i), st3)
      else Err (EUnexpected p (Some c))
  | None => Err (EUnexpected p None)
  end.
Proof.
  unfold parse_bool. destruct (begin_fragment st) as [i st0].
  destruct (next_char st0) as [[[p oc] st1]| | |]; try reflexivity. cbn [obind].
  destruct oc as [[|q]|]; try reflexivity. lit_cases q.
Qed.

Lemma parse_bool_ok st b i st' :
  parse_bool st = Ok ((b, i), st') ->
  exists t, cps t = (if b then [0x74; 0x72; 0x75; 0x65] else [0x66; 0x61; 0x6C; 0x73; 0x65]) /\
            reads st t st' /\
            i = N.of_nat (length (cm st)) /\ cm st' = cm st ++ [(pos st, pos st + blen t, 1)].
Proof.
  rewrite parse_bool_eq. destruct (begin_fragment st) as [i0 st0] eqn:B. intros H.
  assert (Hi0 : i0 = N.of_nat (length (cm st))) by (unfold begin_fragment in B; inversion B; reflexivity).
  dbind H x Hx. destruct x as [[p oc] st1]. destruct oc as [c|]; [|discriminate].
  apply next_char_reads in Hx as (len & R1 & C1 & _).
  destruct (N.eqb_spec c 0x74) as [->|N1]; [|destruct (N.eqb_spec c 0x66) as [->|N2]; [|discriminate]].
  - dbind H y Hy. destruct y as [u st2]. dbind H z Hz. destruct z as [u2 st3]. inversion H; subst b i st3.
    apply expect_chars_ok in Hy as (t & Ht & R & C).
    pose proof (reads_trans _ _ _ _ _ R1 R) as R'.
    replace st0 with (snd (begin_fragment st)) in R', C1 by (rewrite B; reflexivity).
    replace i0 with (fst (begin_fragment st)) in Hz by (rewrite B; reflexivity).
    destruct (leaf_fragment _ _ _ _ _ R' (eq_trans C C1) Hz) as [R'' C''].
    eexists. split; [|split; [exact R''|split; [exact Hi0|exact C'']]].
    cbn [app]. rewrite cps_cons, Ht. reflexivity.
  - dbind H y Hy. destruct y as [u st2]. dbind H z Hz. destruct z as [u2 st3]. inversion H; subst b i st3.
    apply expect_chars_ok in Hy as (t & Ht & R & C).
    pose proof (reads_trans _ _ _ _ _ R1 R) as R'.
    replace st0 with (snd (begin_fragment st)) in R', C1 by (rewrite B; reflexivity).
    replace i0 with (fst (begin_fragment st)) in Hz by (rewrite B; reflexivity).
    destruct (leaf_fragment _ _ _ _ _ R' (eq_trans C C1) Hz) as [R'' C''].
    eexists. split; [|split; [exact R''|split; [exact Hi0|exact C'']]].
    cbn [app]. rewrite cps_cons, Ht. reflexivity.
Qed.

(* ---------- numbers ---------- *)
Definition minus (m : list N) : Prop := m = [] \/ m = [0x2D].
Definition isE (c : N) : Prop := c = 0x65 \/ c = 0x45.
Definition alldig (ds : list N) : Prop := Forall (fun c => digit c = true) ds.
Definition jhead (h : list N) : Prop := exists m i, minus m /\ jint i /\ h = m ++ i.

(* what the buffer looks like in each automaton state *)
Definition nshape (s : nstate) (buf : list N) : Prop :=
  match s with
  | NInit => buf = []
  | NFirstDigit => buf = [0x2D]
  | NZero => exists m, minus m /\ buf = m ++ [0x30]
  | NNonZero => exists m d ds, minus m /\ onenine d = true /\ alldig ds /\ buf = m ++ d :: ds
  | NFracFirst => exists h, jhead h /\ buf = h ++ [0x2E]
  | NFracRest => exists h ds, jhead h /\ digits1 ds /\ buf = h ++ 0x2E :: ds
  | NExpSign => exists h f E, jhead h /\ jfrac f /\ isE E /\ buf = h ++ f ++ [E]
  | NExpFirst => exists h f E sg, jhead h /\ jfrac f /\ isE E /\ (sg = 0x2B \/ sg = 0x2D) /\
                                  buf = h ++ f ++ [E; sg]
  | NExpRest => exists h f E sg ds, jhead h /\ jfrac f /\ isE E /\
                                    (sg = [] \/ sg = [0x2B] \/ sg = [0x2D]) /\ digits1 ds /\
                                    buf = h ++ f ++ E :: sg ++ ds
  end.

Ltac la := repeat (rewrite <- app_assoc; cbn [app]); cbn [app]; rewrite ?app_nil_r; try reflexivity.

Lemma digits1_snoc ds c : digits1 ds -> digit c = true -> digits1 (ds ++ [c]).
Proof.
  intros [H1 H2] Hc. split; [destruct ds; discriminate|]. apply Forall_app; split; [exact H2|]. repeat constructor; exact Hc.
Qed.
Lemma digits1_one c : digit c = true -> digits1 [c].
Proof. intros Hc. split; [discriminate|]. repeat constructor; exact Hc. Qed.

Lemma jhead_zero m : minus m -> jhead (m ++ [0x30]).
Proof. intros Hm. exists m, [0x30]. split; [exact Hm|]. split; [left; reflexivity|reflexivity]. Qed.
Lemma jhead_nz m d ds : minus m -> onenine d = true -> alldig ds -> jhead (m ++ d :: ds).
Proof. intros Hm Hd Hds. exists m, (d :: ds). split; [exact Hm|]. split; [right; eauto|reflexivity]. Qed.

Lemma num_trans_shape ctx s c s' buf :
  nshape s buf -> num_trans ctx s c = NGo s' -> nshape s' (buf ++ [c]).
Proof.
  intros Hs Ht. unfold num_trans in Ht.
  change is_digit with digit in Ht. change is_onenine with onenine in Ht.
  destruct s; cbn [nshape] in Hs;
    repeat match type of Ht with (if ?b then _ else _) = _ => destruct b eqn:? end;
    try discriminate Ht; inversion Ht; subst s'; cbn [nshape].
  - (* Init - *) subst buf. cbn [app]. f_equal. lia.
  - (* Init 0 *) subst buf. exists []. split; [left; reflexivity|]. cbn [app]. f_equal. lia.
  - (* Init 1-9 *) subst buf. exists [], c, []. split; [left; reflexivity|]. split; [assumption|]. split; [constructor|reflexivity].
  - (* FirstDigit 0 *) subst buf. exists [0x2D]. split; [right; reflexivity|]. cbn [app]. do 2 f_equal. lia.
  - (* FirstDigit 1-9 *) subst buf. exists [0x2D], c, []. split; [right; reflexivity|]. split; [assumption|]. split; [constructor|reflexivity].
  - (* Zero . *) destruct Hs as (m & Hm & ->). exists (m ++ [0x30]). split; [apply jhead_zero; exact Hm|]. do 2 f_equal. lia.
  - (* Zero e *) destruct Hs as (m & Hm & ->). exists (m ++ [0x30]), [], c. split; [apply jhead_zero; exact Hm|].
    split; [left; reflexivity|]. split; [unfold isE; lia|reflexivity].
  - (* NonZero digit *) destruct Hs as (m & d & ds & Hm & Hd & Hds & ->). exists m, d, (ds ++ [c]).
    split; [exact Hm|]. split; [exact Hd|]. split; [apply Forall_app; split; [exact Hds|repeat constructor; assumption]|la].
  - (* NonZero . *) destruct Hs as (m & d & ds & Hm & Hd & Hds & ->). exists (m ++ d :: ds).
    split; [apply jhead_nz; assumption|]. do 2 f_equal. lia.
  - (* NonZero e *) destruct Hs as (m & d & ds & Hm & Hd & Hds & ->). exists (m ++ d :: ds), [], c.
    split; [apply jhead_nz; assumption|]. split; [left; reflexivity|]. split; [unfold isE; lia|reflexivity].
  - (* FracFirst digit *) destruct Hs as (h & Hh & ->). exists h, [c]. split; [exact Hh|]. split; [apply digits1_one; assumption|la].
  - (* FracRest digit *) destruct Hs as (h & ds & Hh & Hds & ->). exists h, (ds ++ [c]). split; [exact Hh|].
    split; [apply digits1_snoc; assumption|la].
  - (* FracRest e *) destruct Hs as (h & ds & Hh & Hds & ->). exists h, (0x2E :: ds), c. split; [exact Hh|].
    split; [right; eauto|]. split; [unfold isE; lia|la].
  - (* ExpSign +- *) destruct Hs as (h & f & E & Hh & Hf & HE & ->). exists h, f, E, c. split; [exact Hh|].
    split; [exact Hf|]. split; [exact HE|]. split; [lia|la].
  - (* ExpSign digit *) destruct Hs as (h & f & E & Hh & Hf & HE & ->). exists h, f, E, [], [c]. split; [exact Hh|].
    split; [exact Hf|]. split; [exact HE|]. split; [left; reflexivity|]. split; [apply digits1_one; assumption|la].
  - (* ExpFirst digit *) destruct Hs as (h & f & E & sg & Hh & Hf & HE & Hsg & ->). exists h, f, E, [sg], [c]. split; [exact Hh|].
    split; [exact Hf|]. split; [exact HE|]. split; [destruct Hsg as [-> | ->]; auto|]. split; [apply digits1_one; assumption|la].
  - (* ExpRest digit *) destruct Hs as (h & f & E & sg & ds & Hh & Hf & HE & Hsg & Hds & ->). exists h, f, E, sg, (ds ++ [c]).
    split; [exact Hh|]. split; [exact Hf|]. split; [exact HE|]. split; [exact Hsg|]. split; [apply digits1_snoc; assumption|la].
Qed.

Lemma num_final_jnum s buf : nshape s buf -> num_final s = true -> jnum buf.
Proof.
  intros Hs Hf. destruct s; try discriminate Hf; cbn [nshape] in Hs.
  - destruct Hs as (m & Hm & ->). exists m, [0x30], [], []. split; [exact Hm|]. split; [left; reflexivity|].
    split; [left; reflexivity|]. split; [left; reflexivity|reflexivity].
  - destruct Hs as (m & d & ds & Hm & Hd & Hds & ->). exists m, (d :: ds), [], []. split; [exact Hm|].
    split; [right; eauto|]. split; [left; reflexivity|]. split; [left; reflexivity|la].
  - destruct Hs as (h & ds & (m & i & Hm & Hi & ->) & Hds & ->). exists m, i, (0x2E :: ds), []. split; [exact Hm|].
    split; [exact Hi|]. split; [right; eauto|]. split; [left; reflexivity|la].
  - destruct Hs as (h & f & E & sg & ds & (m & i & Hm & Hi & ->) & Hf' & HE & Hsg & Hds & ->).
    exists m, i, f, (E :: sg ++ ds). split; [exact Hm|]. split; [exact Hi|]. split; [exact Hf'|].
    split; [right; exists E, sg, ds; auto|la].
Qed.

Lemma num_loop_ok ctx : forall l s buf p buf' s' l' p',
  num_loop ctx s buf l p = Ok (buf', s', l', p') -> nshape s buf ->
  exists t, buf' = buf ++ cps t /\ l = map inj t ++ l' /\ p' = p + blen t /\ nshape s' buf'.
Proof.
  induction l as [|[c len|] r IH]; intros s buf p buf' s' l' p' H Hs; cbn [num_loop] in H.
  - inversion H; subst. exists []. cbn. rewrite app_nil_r. repeat split; [bl; lia|exact Hs].
  - destruct (num_trans ctx s c) as [s1| |] eqn:T; [| |discriminate].
    + apply IH in H as (t & -> & -> & -> & Hs'); [|eapply num_trans_shape; eassumption].
      exists ((c, len) :: t). rewrite cps_cons. cbn [fst]. split; [la|]. split; [reflexivity|].
      split; [bl; lia|]. revert Hs'. la. auto.
    + inversion H; subst. exists []. cbn. rewrite app_nil_r. repeat split; [bl; lia|exact Hs].
  - discriminate.
Qed.

Lemma parse_number_ok ctx st n i st' :
  parse_number ctx st = Ok ((n, i), st') ->
  exists t, n = cps t /\ jnum (cps t) /\ reads st t st' /\
            i = N.of_nat (length (cm st)) /\ cm st' = cm st ++ [(pos st, pos st + blen t, 1)].
Proof.
  unfold parse_number. destruct (begin_fragment st) as [i0 st0] eqn:B.
  assert (Hlen : i0 = N.of_nat (length (cm st))) by (unfold begin_fragment in B; inversion B; reflexivity).
  assert (Hi0 : i0 = fst (begin_fragment st)) by (rewrite B; reflexivity).
  assert (Hst0 : st0 = snd (begin_fragment st)) by (rewrite B; reflexivity).
  clear B.
  destruct (num_loop ctx NInit [] (rest st0) (pos st0)) as [[[[buf s] l] p]| | |] eqn:L; try discriminate.
  destruct (num_final s) eqn:F; [|discriminate]. intros H. dbind H x Hx. destruct x as [u st2].
  inversion H; subst n i st2.
  apply num_loop_ok in L as (t & Hb & Hl & Hp & Hs); [|reflexivity]. cbn [app] in Hb. subst buf.
  assert (R : reads st0 t {| rest := l; pos := p; cm := cm st0 |}) by (split; assumption).
  rewrite Hi0 in Hx. subst st0.
  destruct (leaf_fragment _ _ _ _ _ R eq_refl Hx) as [R' C'].
  exists t. split; [reflexivity|]. split; [eapply num_final_jnum; eassumption|]. split; [exact R'|].
  split; [exact Hlen|exact C'].
Qed.

(* ---------- strings ---------- *)
Lemma hexval_hexdig c : hexval c = hexdig c.
Proof. reflexivity. Qed.

Lemma hexval_lt c h : hexval c = Some h -> h < 16.
Proof.
  unfold hexval, is_digit.
  destruct ((0x30 <=? c) && (c <=? 0x39)) eqn:E1; [intros H; inversion H; lia|].
  destruct ((0x41 <=? c) && (c <=? 0x46)) eqn:E2; [intros H; inversion H; lia|].
  destruct ((0x61 <=? c) && (c <=? 0x66)) eqn:E3; [intros H; inversion H; lia|discriminate].
Qed.

Lemma hex_digit_ok st h st' :
  hex_digit st = Ok (h, st') ->
  exists c len, hexdig c = Some h /\ h < 16 /\ reads st [(c, len)] st' /\ cm st' = cm st.
Proof.
  unfold hex_digit. intros H. dbind H x Hx. destruct x as [[p oc] st1]. destruct oc as [c|]; [|discriminate].
  destruct (hexval c) as [h'|] eqn:Hh; [|discriminate]. inversion H; subst h' st1.
  apply next_char_reads in Hx as (len & R & C & _). exists c, len.
  split; [rewrite <- hexval_hexdig; exact Hh|]. split; [eapply hexval_lt; eassumption|]. auto.
Qed.

Lemma parse_hex4_ok st cp st' :
  parse_hex4 st = Ok (cp, st') ->
  exists t h3 h2 h1 h0 d3 d2 d1 d0,
    cps t = [h3; h2; h1; h0] /\
    hexdig h3 = Some d3 /\ hexdig h2 = Some d2 /\ hexdig h1 = Some d1 /\ hexdig h0 = Some d0 /\
    cp = d3 * 4096 + d2 * 256 + d1 * 16 + d0 /\ cp < 65536 /\ reads st t st' /\ cm st' = cm st.
Proof.
  unfold parse_hex4. intros H.
  dbind H x3 H3. destruct x3 as [d3 st1]. dbind H x2 H2. destruct x2 as [d2 st2].
  dbind H x1 H1. destruct x1 as [d1 st3]. dbind H x0 H0. destruct x0 as [d0 st4].
  inversion H; subst cp st4.
  apply hex_digit_ok in H3 as (h3 & l3 & E3 & L3 & R3 & C3).
  apply hex_digit_ok in H2 as (h2 & l2 & E2 & L2 & R2 & C2).
  apply hex_digit_ok in H1 as (h1 & l1 & E1 & L1 & R1 & C1).
  apply hex_digit_ok in H0 as (h0 & l0 & E0 & L0 & R0 & C0).
  exists [(h3, l3); (h2, l2); (h1, l1); (h0, l0)], h3, h2, h1, h0, d3, d2, d1, d0.
  split; [reflexivity|]. repeat (split; [assumption|]). split; [reflexivity|]. split; [lia|].
  split; [|congruence].
  exact (reads_trans _ _ _ _ _ R3 (reads_trans _ _ _ _ _ R2 (reads_trans _ _ _ _ _ R1 R0))).
Qed.

Definition esc_char (c : N) : option N :=
  if c =? 0x22 then Some 0x22 else if c =? 0x5C then Some 0x5C else if c =? 0x2F then Some 0x2F
  else if c =? 0x62 then Some 0x08 else if c =? 0x74 then Some 0x09 else if c =? 0x6E then Some 0x0A
  else if c =? 0x66 then Some 0x0C else if c =? 0x72 then Some 0x0D else None.

Lemma esc_char_table c d : esc_char c = Some d -> In (c, d) esc_table.
Proof.
  unfold esc_char, esc_table.
  repeat match goal with |- (if ?x =? ?y then _ else _) = _ -> _ => destruct (N.eqb_spec x y) as [->|] end;
    intros H; inversion H; subst; cbn; tauto.
Qed.

Section StringLoopBody.
  Variable k : list N -> option (N * N) -> pstate -> res (list N * N).
  Variable o : opts.
  Variable acc : list N.
  Variable high : option (N * N).

  Definition push_plain (element_start : N) (c : N) (stn : pstate) : res (list N * N) :=
    match high with
    | Some (p_high, hi) =>
        if trunc o then k (acc ++ [0xFFFD; c]) None stn
        else Err (let '(s, e) := span_new p_high element_start in EMissingLow s e hi)
    | None => k (acc ++ [c]) None stn
    end.

  Definition unicode_case (p2 : N) (st2 : pstate) : res (list N * N) :=
    do (cp, st3) <- parse_hex4 st2;
    match high with
    | Some (p_high, hi) =>
        if is_low cp then
          if (hi <? 0xD800) || (cp <? 0xDC00) then Panic 3 else
          let c := (hi - 0xD800) * 1024 + (cp - 0xDC00) + 0x10000 in
          match (let '(s, e) := span_new p_high (pos st3) in char_or_replace o c s e) with
          | Ok c' => k (acc ++ [c']) None st3
          | Err e => Err e
          | Panic x => Panic x
          | OutOfFuel => OutOfFuel
          end
        else if trunc o then
          if is_high cp then k (acc ++ [0xFFFD]) (Some (p2, cp)) st3
          else
          match (let '(s, e) := span_new p2 (pos st3) in char_or_replace o cp s e) with
          | Ok c' => k (acc ++ [0xFFFD; c']) None st3
          | Err e => Err e
          | Panic x => Panic x
          | OutOfFuel => OutOfFuel
          end
        else Err (let '(s, e) := span_new p2 (pos st3) in EInvalidLow s e hi cp)
    | None =>
        if is_high cp then k acc (Some (p2, cp)) st3
        else
          match (let '(s, e) := span_new p2 (pos st3) in char_or_replace o cp s e) with
          | Ok c' => k (acc ++ [c']) None st3
          | Err e => Err e
          | Panic x => Panic x
          | OutOfFuel => OutOfFuel
          end
    end.
End StringLoopBody.

Lemma string_loop_eq f o i acc high st :
  string_loop (S f) o i acc high st =
  let k := string_loop f o i in
  do ((p, oc), st1) <- next_char st;
  match oc with
  | None => Err (EUnexpected p None)
  | Some c =>
      if c =? 0x22 then
        match high with
        | Some (p_high, hi) =>
            if trunc o then
              do (_, st2) <- end_fragment i st1;
              Ok ((acc ++ [0xFFFD], i), st2)
            else Err (let '(s, e) := span_new p_high p in EMissingLow s e hi)
        | None =>
            do (_, st2) <- end_fragment i st1;
            Ok ((acc, i), st2)
        end
      else if c =? 0x5C then
        do ((p2, oc2), st2) <- next_char st1;
        match oc2 with
        | None => Err (EUnexpected p2 None)
        | Some c2 =>
            match esc_char c2 with
            | Some d => push_plain k o acc high (pos st) d st2
            | None => if c2 =? 0x75 then unicode_case k o acc high p2 st2
                      else Err (EUnexpected p2 (Some c2))
            end
        end
      else if is_control c then Err (EUnexpected p (Some c))
      else push_plain k o acc high (pos st) c st1
  end.
Proof.
  cbn [string_loop]. cbv zeta.
  destruct (next_char st) as [[[p oc] st1]| | |]; [|reflexivity..]. cbn [obind].
  destruct oc as [[|q]|]; try reflexivity. lit_cases q.
  destruct (next_char st1) as [[[p2 oc2] st2]| | |]; [|reflexivity..]. cbn [obind].
  destruct oc2 as [[|q]|]; try reflexivity. lit_cases q.
Qed.

Definition ocons (c : N) (r : option (list N)) : option (list N) :=
  match r with Some s => Some (c :: s) | None => None end.

Lemma decode_raw o c r : decode o (Raw c :: r) = ocons c (decode o r).
Proof. reflexivity. Qed.
Lemma decode_esc o c r : decode o (Esc c :: r) = ocons c (decode o r).
Proof. reflexivity. Qed.
Lemma decode_u16 o u r :
  decode o (U16 u :: r) =
  if is_high u then
    match r with
    | U16 l :: r' =>
        if is_low l then ocons (0x10000 + (u - 0xD800) * 0x400 + (l - 0xDC00)) (decode o r')
        else if trunc o then ocons 0xFFFD (decode o r) else None
    | _ => if trunc o then ocons 0xFFFD (decode o r) else None
    end
  else if is_low u then (if inval o then ocons 0xFFFD (decode o r) else None)
  else ocons u (decode o r).
Proof. reflexivity. Qed.

Definition pend (high : option (N * N)) : list selem :=
  match high with Some (_, hi) => [U16 hi] | None => [] end.
Definition high_ok (high : option (N * N)) : Prop :=
  match high with Some (_, hi) => is_high hi = true | None => True end.

(* what a successful run of the string loop from [st] means; [pre] = pending elements *)
Definition sl_post (o : opts) (i : N) (pre : list selem) (acc : list N) (st : pstate)
           (s : list N) (i' : N) (st' : pstate) : Prop :=
  exists srcs els t s',
    Forall2 elem_src srcs els /\ cps t = concat srcs ++ [0x22] /\ reads st t st' /\
    decode o (pre ++ els) = Some s' /\ s = acc ++ s' /\ i' = i /\
    cm st' = close_at i (pos st') (cm st).

Definition sl_spec (k : list N -> option (N * N) -> pstate -> res (list N * N)) (o : opts) (i : N) : Prop :=
  forall acc high st s i' st',
    k acc high st = Ok ((s, i'), st') -> high_ok high -> good (rest st) ->
    sl_post o i (pend high) acc st s i' st'.

(* after one more element [x] has been read *)
Definition sl_cont (o : opts) (i : N) (high : option (N * N)) (acc : list N) (x : selem) (stn : pstate)
           (s : list N) (i' : N) (st' : pstate) : Prop :=
  exists pre' acc' mid,
    sl_post o i pre' acc' stn s i' st' /\ acc' = acc ++ mid /\
    forall els s', decode o (pre' ++ els) = Some s' -> decode o (pend high ++ x :: els) = Some (mid ++ s').

Lemma sl_cont_step o i high acc x st t0 stn src s i' st' :
  sl_cont o i high acc x stn s i' st' ->
  reads st t0 stn -> cm stn = cm st -> cps t0 = src -> elem_src src x ->
  sl_post o i (pend high) acc st s i' st'.
Proof.
  intros (pre' & acc' & mid & (srcs & els & t & s' & F & Ct & R & D & -> & -> & C) & -> & Hd) R0 C0 Hsrc Hx.
  exists (src :: srcs), (x :: els), (t0 ++ t), (mid ++ s').
  split; [constructor; assumption|]. split; [rewrite cps_app, Ct, Hsrc; cbn [concat]; la|].
  split; [eapply reads_trans; eassumption|]. split; [apply Hd; exact D|]. split; [la|].
  split; [reflexivity|]. rewrite C, C0. reflexivity.
Qed.

Lemma push_plain_sound k o i acc high es c stn s i' st' x :
  sl_spec k o i -> push_plain k o acc high es c stn = Ok ((s, i'), st') ->
  high_ok high -> good (rest stn) -> (x = Raw c \/ x = Esc c) ->
  sl_cont o i high acc x stn s i' st'.
Proof.
  intros Hk H Hh G Hx. unfold push_plain in H. destruct high as [[ph hi]|]; cbn [high_ok] in Hh.
  - destruct (trunc o) eqn:T; [|discriminate]. apply (fun H => Hk _ None _ _ _ _ H I G) in H.
    exists [], (acc ++ [0xFFFD; c]), [0xFFFD; c]. split; [exact H|]. split; [reflexivity|].
    intros els s' D. cbn [pend app] in *. rewrite decode_u16, Hh.
    destruct Hx as [-> | ->]; rewrite T; [rewrite decode_raw|rewrite decode_esc]; rewrite D; reflexivity.
  - apply (fun H => Hk _ None _ _ _ _ H I G) in H.
    exists [], (acc ++ [c]), [c]. split; [exact H|]. split; [reflexivity|].
    intros els s' D. cbn [pend app] in *.
    destruct Hx as [-> | ->]; [rewrite decode_raw|rewrite decode_esc]; rewrite D; reflexivity.
Qed.

Lemma char_or_replace_scalar o c s e c' :
  is_scalar c = true -> char_or_replace o c s e = Ok c' -> c' = c.
Proof. unfold char_or_replace, from_u32. intros ->. intros H; inversion H; reflexivity. Qed.

Lemma char_or_replace_nonscalar o c s e c' :
  is_scalar c = false -> char_or_replace o c s e = Ok c' -> inval o = true /\ c' = 0xFFFD.
Proof.
  unfold char_or_replace, from_u32. intros ->. destruct (inval o); intros H; inversion H; auto.
Qed.

Lemma unicode_case_sound k o i acc high p2 st2 s i' st' :
  sl_spec k o i -> unicode_case k o acc high p2 st2 = Ok ((s, i'), st') ->
  high_ok high -> good (rest st2) ->
  exists t4 src4 cp st3,
    cps t4 = src4 /\ elem_src (0x5C :: 0x75 :: src4) (U16 cp) /\
    reads st2 t4 st3 /\ cm st3 = cm st2 /\ sl_cont o i high acc (U16 cp) st3 s i' st'.
Proof.
  intros Hk H Hh G. unfold unicode_case in H. dbind H x Hx. destruct x as [cp st3].
  apply parse_hex4_ok in Hx as (t4 & h3 & h2 & h1 & h0 & d3 & d2 & d1 & d0 & Ct & E3 & E2 & E1 & E0 & Hcp & Lt & R & C).
  pose proof (reads_good _ _ _ R G) as G3.
  exists t4, [h3; h2; h1; h0], cp, st3. split; [exact Ct|].
  split; [rewrite Hcp; apply es_u; assumption|]. split; [exact R|]. split; [exact C|]. clear Hcp E3 E2 E1 E0 R C Ct.
  cbv beta iota zeta delta [span_new] in H.
  destruct high as [[ph hi]|]; cbn [high_ok] in Hh.
  - destruct (is_low cp) eqn:Lo.
    + destruct ((hi <? 0xD800) || (cp <? 0xDC00)) eqn:Pn; [discriminate|].
      match type of H with match ?e with _ => _ end = _ => destruct e as [c'| | |] eqn:Cr; try discriminate end.
      apply char_or_replace_scalar in Cr; [|unfold is_scalar, is_high, is_low in *; lia]. subst c'.
      apply (fun H => Hk _ None _ _ _ _ H I G3) in H.
      eexists [], _, [_]. split; [exact H|]. split; [reflexivity|].
      intros els s' D. cbn [pend app] in *. rewrite decode_u16, Hh, Lo, D. cbn [ocons]. do 2 f_equal. lia.
    + destruct (trunc o) eqn:T; [|discriminate]. destruct (is_high cp) eqn:Hi.
      * apply (fun H => Hk _ (Some (p2, cp)) _ _ _ _ H Hi G3) in H.
        exists [U16 cp], (acc ++ [0xFFFD]), [0xFFFD]. split; [exact H|]. split; [reflexivity|].
        intros els s' D. cbn [pend app] in *. rewrite decode_u16, Hh, Lo, T, D. reflexivity.
      * match type of H with match ?e with _ => _ end = _ => destruct e as [c'| | |] eqn:Cr; try discriminate end.
        apply char_or_replace_scalar in Cr; [|unfold is_scalar, is_high, is_low in *; lia]. subst c'.
        apply (fun H => Hk _ None _ _ _ _ H I G3) in H.
        exists [], (acc ++ [0xFFFD; cp]), [0xFFFD; cp]. split; [exact H|]. split; [reflexivity|].
        intros els s' D. cbn [pend app] in *. rewrite decode_u16, Hh, Lo, T, decode_u16, Hi, Lo, D. reflexivity.
  - destruct (is_high cp) eqn:Hi.
    + apply (fun H => Hk _ (Some (p2, cp)) _ _ _ _ H Hi G3) in H.
      exists [U16 cp], acc, []. split; [exact H|]. split; [rewrite app_nil_r; reflexivity|].
      intros els s' D. cbn [pend app] in *. exact D.
    + match type of H with match ?e with _ => _ end = _ => destruct e as [c'| | |] eqn:Cr; try discriminate end.
      apply (fun H => Hk _ None _ _ _ _ H I G3) in H. destruct (is_low cp) eqn:Lo.
      * apply char_or_replace_nonscalar in Cr as [Iv ->]; [|unfold is_scalar, is_high, is_low in *; lia].
        exists [], (acc ++ [0xFFFD]), [0xFFFD]. split; [exact H|]. split; [reflexivity|].
        intros els s' D. cbn [pend app] in *. rewrite decode_u16, Hi, Lo, Iv, D. reflexivity.
      * apply char_or_replace_scalar in Cr; [|unfold is_scalar, is_high, is_low in *; lia]. subst c'.
        exists [], (acc ++ [cp]), [cp]. split; [exact H|]. split; [reflexivity|].
        intros els s' D. cbn [pend app] in *. rewrite decode_u16, Hi, Lo, D. reflexivity.
Qed.

Lemma good_head c len r : good (SOk c len :: r) -> c <= 0x10FFFF.
Proof. intros G. exact (Forall_inv G). Qed.

Lemma string_loop_sound f o i : sl_spec (string_loop f o i) o i.
Proof.
  induction f as [|f IH]; intros acc high st s i' st' H Hh G; [discriminate|].
  rewrite string_loop_eq in H. cbv zeta in H. dbind H x Hx. destruct x as [[p oc] st1].
  destruct oc as [c|]; [|discriminate].
  apply next_char_reads in Hx as (len & R1 & C1 & Hp).
  pose proof (reads_good _ _ _ R1 G) as G1.
  destruct (N.eqb_spec c 0x22) as [->|N1].
  - (* closing quote *)
    assert (Hend : forall u st2, end_fragment i st1 = Ok (u, st2) ->
                   reads st [(0x22, len)] st2 /\ cm st2 = close_at i (pos st2) (cm st)).
    { intros u st2 Hy. apply end_fragment_ok in Hy as (E1 & E2 & E3). destruct R1 as [Ra Rb].
      split; [split; [rewrite E1; exact Ra|lia]|]. rewrite E3, C1, E2. reflexivity. }
    destruct high as [[ph hi]|]; cbn [high_ok] in Hh.
    + destruct (trunc o) eqn:T; [|discriminate]. dbind H y Hy. destruct y as [u st2]. inversion H; subst s i' st2.
      destruct (Hend _ _ Hy) as [R C].
      exists [], [], [(0x22, len)], [0xFFFD]. split; [constructor|]. split; [reflexivity|]. split; [exact R|].
      split; [cbn [pend app]; rewrite decode_u16, Hh, T; reflexivity|]. auto.
    + dbind H y Hy. destruct y as [u st2]. inversion H; subst s i' st2.
      destruct (Hend _ _ Hy) as [R C].
      exists [], [], [(0x22, len)], []. split; [constructor|]. split; [reflexivity|]. split; [exact R|].
      split; [reflexivity|]. rewrite app_nil_r. auto.
  - destruct (N.eqb_spec c 0x5C) as [->|N2].
    + (* escape *)
      dbind H y Hy. destruct y as [[p2 oc2] st2]. destruct oc2 as [c2|]; [|discriminate].
      apply next_char_reads in Hy as (len2 & R2 & C2 & Hp2).
      pose proof (reads_good _ _ _ R2 G1) as G2.
      pose proof (reads_trans _ _ _ _ _ R1 R2) as R12. cbn [app] in R12.
      destruct (esc_char c2) as [d|] eqn:Ed.
      * eapply sl_cont_step; [eapply push_plain_sound with (x := Esc d); eauto|exact R12|congruence|reflexivity|].
        cbn [cps map fst]. apply es_esc. apply esc_char_table. exact Ed.
      * destruct (N.eqb_spec c2 0x75) as [->|]; [|discriminate].
        apply unicode_case_sound with (i := i) in H as (t4 & src4 & cp & st3 & Ct & Hsrc & R3 & C3 & Hc); auto.
        eapply sl_cont_step; [exact Hc|exact (reads_trans _ _ _ _ _ R12 R3)|congruence| |exact Hsrc].
        cbn [app]. rewrite !cps_cons, Ct. reflexivity.
    + destruct (is_control c) eqn:Ctl; [discriminate|].
      eapply sl_cont_step; [eapply push_plain_sound with (x := Raw c); eauto|exact R1|exact C1|reflexivity|].
      cbn [cps map fst]. apply es_raw.
      destruct R1 as [Ra _]. rewrite Ra in G. cbn [map app inj fst snd] in G. apply good_head in G.
      cbn [fst] in G. unfold is_control in Ctl. unfold unescaped. lia.
Qed.

Lemma parse_string_eq o st :
  parse_string o st =
  let '(i, st0) := begin_fragment st in
  do ((p, oc), st1) <- next_char st0;
  match oc with
  | Some c => if c =? 0x22 then string_loop (S (length (rest st1))) o i [] None st1
              else Err (EUnexpected p (Some c))
  | None => Err (EUnexpected p None)
  end.
Proof.
  unfold parse_string. destruct (begin_fragment st) as [i st0].
  destruct (next_char st0) as [[[p oc] st1]| | |]; try reflexivity. cbn [obind].
  destruct oc as [[|q]|]; try reflexivity. lit_cases q.
Qed.

Lemma parse_string_ok o st s i st' :
  parse_string o st = Ok ((s, i), st') -> good (rest st) ->
  exists t, jstr o (cps t) s /\ reads st t st' /\
            i = N.of_nat (length (cm st)) /\ cm st' = cm st ++ [(pos st, pos st + blen t, 1)].
Proof.
  rewrite parse_string_eq. unfold begin_fragment. intros H G. dbind H x Hx. destruct x as [[p oc] st1].
  destruct oc as [c|]; [|discriminate]. destruct (N.eqb_spec c 0x22) as [->|]; [|discriminate].
  apply next_char_reads in Hx as (len & R1 & C1 & _).
  pose proof (reads_good _ _ _ R1 G) as G1. cbn [rest] in G1.
  apply (fun H => string_loop_sound _ _ _ _ None _ _ _ _ H I G1) in H as (srcs & els & t & s' & F & Ct & R & D & -> & -> & C).
  pose proof (reads_trans _ _ _ _ _ R1 R) as R'. cbn [app] in R'.
  exists ((0x22, len) :: t). split.
  - exists srcs, els. split; [exact F|]. split; [rewrite cps_cons, Ct; reflexivity|exact D].
  - destruct R' as [Ra Rb]. cbn [rest pos] in Ra, Rb. split; [split; assumption|]. split; [reflexivity|].
    rewrite C, C1. cbn [cm]. rewrite close_at_app. cbn [length]. do 2 f_equal. apply cme3; blia.
Qed.

(* ---------- arrays and objects: the structural leaves ---------- *)
Lemma peek_next st c x st' :
  peek_char st = Ok (Some c) -> next_char st = Ok (x, st') ->
  exists len, reads st [(c, len)] st' /\ cm st' = cm st.
Proof.
  unfold peek_char, next_char. destruct (rest st) as [|[c0 len|] r] eqn:E; intros H1 H2; inversion H1; inversion H2; subst.
  exists len. split; [|reflexivity]. split; cbn; [exact E|bl; lia].
Qed.

Lemma array_start_eq st :
  array_start st =
  let '(i, st0) := begin_fragment st in
  do ((p, oc), st1) <- next_char st0;
  match oc with
  | Some c =>
      if c =? 0x5B then
        do (_, st2) <- skip_whitespaces st1;
        do oc2 <- peek_char st2;
        if (match oc2 with Some c2 => c2 =? 0x5D | None => false end) then
          do (_, st3) <- next_char st2;
          do (_, st4) <- end_fragment i st3;
          Ok ((true, i), st4)
        else Ok ((false, i), st2)
      else Err (EUnexpected p (Some c))
  | None => Err (EUnexpected p None)
  end.
Proof.
  unfold array_start. destruct (begin_fragment st) as [i st0].
  destruct (next_char st0) as [[[p oc] st1]| | |]; try reflexivity. cbn [obind].
  destruct oc as [[|q]|]; try reflexivity. lit_cases q.
  destruct (skip_whitespaces st1) as [[u st2]| | |]; try reflexivity. cbn [obind].
  destruct (peek_char st2) as [oc2| | |]; try reflexivity. cbn [obind].
  destruct oc2 as [[|q]|]; try reflexivity. lit_cases q.
Qed.

(* the shared opening of arrays and objects, as a function of the bracket *)
Lemma open_bracket (lbc rbc : N) st p c st1 u st2 oc2 :
  next_char (snd (begin_fragment st)) = Ok ((p, Some c), st1) -> c = lbc ->
  skip_whitespaces st1 = Ok (u, st2) -> peek_char st2 = Ok oc2 ->
  exists lb w, fst lb = lbc /\ ws w /\ reads st (lb :: w) st2 /\ cm st2 = cm st ++ [(pos st, pos st, 0)] /\
    forall x st3 u' st4,
      (match oc2 with Some c2 => c2 =? rbc | None => false end) = true ->
      next_char st2 = Ok (x, st3) -> end_fragment (fst (begin_fragment st)) st3 = Ok (u', st4) ->
      exists rb, fst rb = rbc /\ reads st (lb :: w ++ [rb]) st4 /\
                 cm st4 = cm st ++ [(pos st, pos st + blen (lb :: w ++ [rb]), 1)].
Proof.
  intros Hn -> Hs Hp.
  apply next_char_reads in Hn as (len & R1 & C1 & _).
  apply skip_whitespaces_ok in Hs as (w & Hw & R2 & C2).
  pose proof (reads_trans _ _ _ _ _ R1 R2) as R12. cbn [app] in R12.
  exists (lbc, len), w. split; [reflexivity|]. split; [exact Hw|].
  split; [destruct R12 as [Ra Rb]; split; [exact Ra|exact Rb]|].
  split; [rewrite C2, C1; reflexivity|].
  intros x st3 u' st4 Hc Hn3 He. destruct oc2 as [c2|]; [|discriminate].
  apply N.eqb_eq in Hc. subst c2.
  destruct (peek_next _ _ _ _ Hp Hn3) as (len3 & R3 & C3).
  pose proof (reads_trans _ _ _ _ _ R12 R3) as R123.
  assert (C123 : cm st3 = cm (snd (begin_fragment st))) by congruence.
  destruct (leaf_fragment _ _ _ _ _ R123 C123 He) as [R C].
  exists (rbc, len3). split; [reflexivity|]. split; [exact R|exact C].
Qed.

Lemma array_start_ok st b i st' :
  array_start st = Ok ((b, i), st') ->
  i = N.of_nat (length (cm st)) /\
  exists lb w, fst lb = 0x5B /\ ws w /\
    if b then exists rb, fst rb = 0x5D /\ reads st (lb :: w ++ [rb]) st' /\
                         cm st' = cm st ++ [(pos st, pos st + blen (lb :: w ++ [rb]), 1)]
    else reads st (lb :: w) st' /\ cm st' = cm st ++ [(pos st, pos st, 0)].
Proof.
  rewrite array_start_eq. destruct (begin_fragment st) as [i0 st0] eqn:B.
  assert (Hlen : i0 = N.of_nat (length (cm st))) by (unfold begin_fragment in B; inversion B; reflexivity).
  assert (Hi0 : i0 = fst (begin_fragment st)) by (rewrite B; reflexivity).
  assert (Hst0 : st0 = snd (begin_fragment st)) by (rewrite B; reflexivity).
  clear B. intros H. dbind H x Hx. destruct x as [[p oc] st1]. destruct oc as [c|]; [|discriminate].
  destruct (N.eqb_spec c 0x5B) as [Hc|]; [|discriminate].
  dbind H y Hy. destruct y as [u st2]. dbind H oc2 Hp.
  rewrite Hst0 in Hx.
  destruct (open_bracket 0x5B 0x5D _ _ _ _ _ _ _ Hx Hc Hy Hp) as (lb & w & Hlb & Hw & R & C & Hclose).
  match type of H with (if ?e then _ else _) = _ => destruct e eqn:E end.
  - dbind H z Hz. destruct z as [x st3]. dbind H z' Hz'. destruct z' as [u' st4]. inversion H; subst b i st4.
    rewrite Hi0 in Hz'. destruct (Hclose _ _ _ _ eq_refl Hz Hz') as (rb & Hrb & R' & C').
    split; [exact Hlen|]. exists lb, w. split; [exact Hlb|]. split; [exact Hw|]. exists rb. auto.
  - inversion H; subst b i st2. split; [exact Hlen|]. exists lb, w. auto.
Qed.

Lemma array_continue_eq i st :
  array_continue i st =
  do (_, st1) <- skip_whitespaces st;
  do ((p, oc), st2) <- next_char st1;
  match oc with
  | Some c => if c =? 0x2C then Ok (true, st2)
              else if c =? 0x5D then do (_, st3) <- end_fragment i st2; Ok (false, st3)
              else Err (EUnexpected p (Some c))
  | None => Err (EUnexpected p None)
  end.
Proof.
  unfold array_continue. destruct (skip_whitespaces st) as [[u st1]| | |]; try reflexivity. cbn [obind].
  destruct (next_char st1) as [[[p oc] st2]| | |]; try reflexivity. cbn [obind].
  destruct oc as [[|q]|]; try reflexivity. lit_cases q.
Qed.

Lemma array_continue_ok i st b st' :
  array_continue i st = Ok (b, st') ->
  exists w x, ws w /\ reads st (w ++ [x]) st' /\
    if b then fst x = 0x2C /\ cm st' = cm st
    else fst x = 0x5D /\ cm st' = close_at i (pos st') (cm st).
Proof.
  rewrite array_continue_eq. intros H. dbind H y Hy. destruct y as [u st1].
  dbind H z Hz. destruct z as [[p oc] st2]. destruct oc as [c|]; [|discriminate].
  apply skip_whitespaces_ok in Hy as (w & Hw & R1 & C1).
  apply next_char_reads in Hz as (len & R2 & C2 & _).
  pose proof (reads_trans _ _ _ _ _ R1 R2) as R.
  destruct (N.eqb_spec c 0x2C) as [->|N1]; [|destruct (N.eqb_spec c 0x5D) as [->|]; [|discriminate]].
  - inversion H; subst b st2. exists w, (0x2C, len). split; [exact Hw|]. split; [exact R|]. split; [reflexivity|congruence].
  - dbind H v Hv. destruct v as [u' st3]. inversion H; subst b st3.
    apply end_fragment_ok in Hv as (E1 & E2 & E3).
    exists w, (0x5D, len). split; [exact Hw|]. destruct R as [Ra Rb].
    split; [split; [rewrite E1; exact Ra|blia]|]. split; [reflexivity|]. rewrite E3, E2, C2, C1. reflexivity.
Qed.

Lemma object_key_eq o st :
  object_key o st =
  let '(e, st0) := begin_fragment st in
  do ((k, _), st1) <- parse_string o st0;
  do (_, st2) <- skip_whitespaces st1;
  do ((p, oc), st3) <- next_char st2;
  match oc with
  | Some c => if c =? 0x3A then Ok ((k, e), st3) else Err (EUnexpected p (Some c))
  | None => Err (EUnexpected p None)
  end.
Proof.
  unfold object_key. destruct (begin_fragment st) as [e st0].
  destruct (parse_string o st0) as [[[k j] st1]| | |]; try reflexivity. cbn [obind].
  destruct (skip_whitespaces st1) as [[u st2]| | |]; try reflexivity. cbn [obind].
  destruct (next_char st2) as [[[p oc] st3]| | |]; try reflexivity. cbn [obind].
  destruct oc as [[|q]|]; try reflexivity. lit_cases q.
Qed.

Lemma object_key_ok o st k e st' :
  object_key o st = Ok ((k, e), st') -> good (rest st) ->
  exists kt w1 colon, jstr o (cps kt) k /\ ws w1 /\ fst colon = 0x3A /\
    reads st (kt ++ w1 ++ [colon]) st' /\ e = N.of_nat (length (cm st)) /\
    cm st' = cm st ++ [(pos st, pos st, 0); (pos st, pos st + blen kt, 1)].
Proof.
  rewrite object_key_eq. unfold begin_fragment. intros H G.
  dbind H x Hx. destruct x as [[k0 j] st1]. dbind H y Hy. destruct y as [u st2].
  dbind H z Hz. destruct z as [[p oc] st3]. destruct oc as [c|]; [|discriminate].
  destruct (N.eqb_spec c 0x3A) as [->|]; [|discriminate]. inversion H; subst k0 e st3.
  apply parse_string_ok in Hx as (kt & Hk & R1 & _ & C1); [|exact G]. cbn [rest pos cm] in *.
  apply skip_whitespaces_ok in Hy as (w1 & Hw & R2 & C2).
  apply next_char_reads in Hz as (len & R3 & C3 & _).
  pose proof (reads_trans _ _ _ _ _ R1 (reads_trans _ _ _ _ _ R2 R3)) as R.
  exists kt, w1, (0x3A, len). split; [exact Hk|]. split; [exact Hw|]. split; [reflexivity|].
  split; [destruct R as [Ra Rb]; split; [exact Ra|exact Rb]|]. split; [reflexivity|].
  rewrite C3, C2, C1. rewrite <- app_assoc. reflexivity.
Qed.

Lemma object_start_eq o st :
  object_start o st =
  let '(i, st0) := begin_fragment st in
  do ((p, oc), st1) <- next_char st0;
  match oc with
  | Some c =>
      if c =? 0x7B then
        do (_, st2) <- skip_whitespaces st1;
        do oc2 <- peek_char st2;
        if (match oc2 with Some c2 => c2 =? 0x7D | None => false end) then
          do (_, st3) <- next_char st2;
          do (_, st4) <- end_fragment i st3;
          Ok ((OEmpty, i), st4)
        else
          do ((k, e), st3) <- object_key o st2;
          Ok ((ONonEmpty k e, i), st3)
      else Err (EUnexpected p (Some c))
  | None => Err (EUnexpected p None)
  end.
Proof.
  unfold object_start. destruct (begin_fragment st) as [i st0].
  destruct (next_char st0) as [[[p oc] st1]| | |]; try reflexivity. cbn [obind].
  destruct oc as [[|q]|]; try reflexivity. lit_cases q.
  destruct (skip_whitespaces st1) as [[u st2]| | |]; try reflexivity. cbn [obind].
  destruct (peek_char st2) as [oc2| | |]; try reflexivity. cbn [obind].
  destruct oc2 as [[|q]|]; try reflexivity. lit_cases q.
Qed.

Lemma object_start_ok o st s i st' :
  object_start o st = Ok ((s, i), st') -> good (rest st) ->
  i = N.of_nat (length (cm st)) /\
  exists lb w, fst lb = 0x7B /\ ws w /\
    match s with
    | OEmpty => exists rb, fst rb = 0x7D /\ reads st (lb :: w ++ [rb]) st' /\
                           cm st' = cm st ++ [(pos st, pos st + blen (lb :: w ++ [rb]), 1)]
    | ONonEmpty k e =>
        exists kt w1 colon, jstr o (cps kt) k /\ ws w1 /\ fst colon = 0x3A /\
          reads st (lb :: w ++ kt ++ w1 ++ [colon]) st' /\ e = N.of_nat (length (cm st)) + 1 /\
          cm st' = cm st ++ [(pos st, pos st, 0);
                             (pos st + blen (lb :: w), pos st + blen (lb :: w), 0);
                             (pos st + blen (lb :: w), pos st + blen (lb :: w) + blen kt, 1)]
    end.
Proof.
  rewrite object_start_eq. destruct (begin_fragment st) as [i0 st0] eqn:B.
  assert (Hlen : i0 = N.of_nat (length (cm st))) by (unfold begin_fragment in B; inversion B; reflexivity).
  assert (Hi0 : i0 = fst (begin_fragment st)) by (rewrite B; reflexivity).
  assert (Hst0 : st0 = snd (begin_fragment st)) by (rewrite B; reflexivity).
  clear B. intros H G. dbind H x Hx. destruct x as [[p oc] st1]. destruct oc as [c|]; [|discriminate].
  destruct (N.eqb_spec c 0x7B) as [Hc|]; [|discriminate].
  dbind H y Hy. destruct y as [u st2]. dbind H oc2 Hp.
  rewrite Hst0 in Hx.
  destruct (open_bracket 0x7B 0x7D _ _ _ _ _ _ _ Hx Hc Hy Hp) as (lb & w & Hlb & Hw & R & C & Hclose).
  match type of H with (if ?e then _ else _) = _ => destruct e eqn:E end.
  - dbind H z Hz. destruct z as [x st3]. dbind H z' Hz'. destruct z' as [u' st4]. inversion H; subst s i st4.
    rewrite Hi0 in Hz'. destruct (Hclose _ _ _ _ eq_refl Hz Hz') as (rb & Hrb & R' & C').
    split; [exact Hlen|]. exists lb, w. split; [exact Hlb|]. split; [exact Hw|]. exists rb. auto.
  - dbind H z Hz. destruct z as [[k e] st3]. inversion H; subst s i st3.
    apply object_key_ok in Hz as (kt & w1 & colon & Hk & Hw1 & Hcol & R2 & He & C2); [|exact (reads_good _ _ _ R G)].
    split; [exact Hlen|]. exists lb, w. split; [exact Hlb|]. split; [exact Hw|].
    exists kt, w1, colon. split; [exact Hk|]. split; [exact Hw1|]. split; [exact Hcol|].
    split; [exact (reads_trans _ _ _ _ _ R R2)|]. split.
    + rewrite He, C, app_length. cbn [length]. lia.
    + rewrite C2, C, <- app_assoc. destruct R as [_ Rb]. rewrite Rb. reflexivity.
Qed.

Lemma object_continue_eq o i st :
  object_continue o i st =
  do (_, st1) <- skip_whitespaces st;
  do ((p, oc), st2) <- next_char st1;
  match oc with
  | Some c =>
      if c =? 0x2C then
        do (_, st3) <- skip_whitespaces st2;
        do ((k, e), st4) <- object_key o st3;
        Ok (Some (k, e), st4)
      else if c =? 0x7D then do (_, st3) <- end_fragment i st2; Ok (None, st3)
      else Err (EUnexpected p (Some c))
  | None => Err (EUnexpected p None)
  end.
Proof.
  unfold object_continue. destruct (skip_whitespaces st) as [[u st1]| | |]; try reflexivity. cbn [obind].
  destruct (next_char st1) as [[[p oc] st2]| | |]; try reflexivity. cbn [obind].
  destruct oc as [[|q]|]; try reflexivity. lit_cases q.
Qed.

Lemma object_continue_ok o i st r st' :
  object_continue o i st = Ok (r, st') -> good (rest st) ->
  exists post x, ws post /\
    match r with
    | None => fst x = 0x7D /\ reads st (post ++ [x]) st' /\ cm st' = close_at i (pos st') (cm st)
    | Some (k, e) =>
        fst x = 0x2C /\
        exists pre kt w1 colon, ws pre /\ jstr o (cps kt) k /\ ws w1 /\ fst colon = 0x3A /\
          reads st ((post ++ x :: pre) ++ kt ++ w1 ++ [colon]) st' /\ e = N.of_nat (length (cm st)) /\
          cm st' = cm st ++ [(pos st + blen (post ++ x :: pre), pos st + blen (post ++ x :: pre), 0);
                             (pos st + blen (post ++ x :: pre), pos st + blen (post ++ x :: pre) + blen kt, 1)]
    end.
Proof.
  rewrite object_continue_eq. intros H G. dbind H y Hy. destruct y as [u st1].
  dbind H z Hz. destruct z as [[p oc] st2]. destruct oc as [c|]; [|discriminate].
  apply skip_whitespaces_ok in Hy as (post & Hpost & R1 & C1).
  apply next_char_reads in Hz as (len & R2 & C2 & _).
  pose proof (reads_trans _ _ _ _ _ R1 R2) as R.
  destruct (N.eqb_spec c 0x2C) as [->|N1]; [|destruct (N.eqb_spec c 0x7D) as [->|]; [|discriminate]].
  - dbind H v Hv. destruct v as [u' st3]. dbind H v' Hv'. destruct v' as [[k e] st4]. inversion H; subst r st4.
    apply skip_whitespaces_ok in Hv as (pre & Hpre & R3 & C3).
    pose proof (reads_trans _ _ _ _ _ R R3) as R'. rewrite <- app_assoc in R'. cbn [app] in R'.
    apply object_key_ok in Hv' as (kt & w1 & colon & Hk & Hw1 & Hcol & R4 & He & C4); [|exact (reads_good _ _ _ R' G)].
    exists post, (0x2C, len). split; [exact Hpost|]. split; [reflexivity|].
    exists pre, kt, w1, colon. split; [exact Hpre|]. split; [exact Hk|]. split; [exact Hw1|]. split; [exact Hcol|].
    split; [exact (reads_trans _ _ _ _ _ R' R4)|]. split; [rewrite He; congruence|].
    rewrite C4, C3, C2, C1. destruct R' as [_ Rb]. rewrite Rb. reflexivity.
  - dbind H v Hv. destruct v as [u' st3]. inversion H; subst r st3.
    apply end_fragment_ok in Hv as (E1 & E2 & E3).
    exists post, (0x7D, len). split; [exact Hpost|]. split; [reflexivity|]. destruct R as [Ra Rb].
    split; [split; [rewrite E1; exact Ra|blia]|]. rewrite E3, E2, C2, C1. reflexivity.
Qed.
