(* Proofs/FloatGenProofs.v -- the decimal -> binary conversion scheme of Base/Float64 and
   Model/Serde (shortcuts by decimal digit count, binary_round for non-negative decimal
   exponents, SFdiv_core_binary + binary_round_aux for negative ones), for an arbitrary
   format (prec, emax): it is the correctly rounded (nearest, ties to even) value of
   m * 10^e, hence depends on the value only.  Instantiated for binary32 in
   Proofs/Float32Proofs.v (and re-derivable for binary64, where Proofs/Float64Proofs.v keeps
   the historical direct proof). *)
From Coq Require Import ZArith List Bool SpecFloat Reals Lia Lra.
From Flocq Require Import Core BinarySingleNaN.
From JsonSyntax Require Import Base.Float64 Proofs.Float64Proofs.
Local Open Scope Z_scope.

Section Gen.
Variables prec emax : Z.
Context (prec_gt_0_ : Prec_gt_0 prec).
Context (prec_lt_emax_ : Prec_lt_emax prec emax).
(* decimal shortcuts: at least 10^ovf overflows; below 10^unf rounds to zero *)
Variables ovf unf : Z.

Definition emin_g : Z := 3 - emax - prec.
Definition fexp_g : Z -> Z := FLT_exp emin_g prec.
Definition round_g (x : R) : R := round radix2 fexp_g ZnearestE x.

Hypothesis Hovf : (bpow radix2 emax <= bpow radix10 ovf)%R.
Hypothesis Hunf : (bpow radix10 unf <= bpow radix2 (emin_g - 1))%R.

Definition nearest_pos_g (m : positive) (e10 : Z) : spec_float :=
  let k := digits10 (Zpos m) in
  if ovf <=? k - 1 + e10 then S754_infinity false
  else if k + e10 <=? unf then S754_zero false
  else if 0 <=? e10 then binary_round prec emax mode_NE false (m * Z.to_pos (10 ^ e10)) 0
  else let '(mz, ez, lz) := SFdiv_core_binary prec emax (Zpos m) 0 (10 ^ (- e10)) 0 in
       binary_round_aux prec emax mode_NE false mz ez lz.

Definition nd_spec_g (x : R) (z : spec_float) : Prop :=
  if Rlt_bool (Rabs (round_g x)) (bpow radix2 emax) then
    valid_binary prec emax z = true /\ is_finite_SF z = true /\ sign_SF z = false /\
    SF2R radix2 z = round_g x
  else z = S754_infinity false.

Instance fexp_g_valid : Valid_exp fexp_g.
Proof. unfold fexp_g. apply FLT_exp_valid. exact prec_gt_0_. Qed.

Lemma fexp_g_eq : forall e, SpecFloat.fexp prec emax e = fexp_g e.
Proof. reflexivity. Qed.

Lemma round_g_overflow : forall x, (bpow radix2 emax <= x)%R ->
  Rlt_bool (Rabs (round_g x)) (bpow radix2 emax) = false.
Proof.
  intros x Hx. apply Rlt_bool_false.
  apply Rle_trans with (2 := RRle_abs _).
  unfold round_g. apply round_ge_generic; auto with typeclass_instances.
  apply generic_format_bpow. unfold fexp_g, FLT_exp, emin_g.
  unfold Prec_gt_0, Prec_lt_emax in *. lia.
Qed.

Lemma round_g_underflow : forall x, (0 < x < bpow radix2 (emin_g - 1))%R -> round_g x = 0%R.
Proof.
  intros x [H0 Hx]. unfold round_g.
  assert (Hnz : x <> 0%R) by lra.
  apply round_N_small with (ex := mag radix2 x).
  - split. now apply bpow_mag_le. apply bpow_mag_gt.
  - assert (mag radix2 x <= emin_g - 1).
    { apply mag_le_bpow; auto. rewrite Rabs_pos_eq; lra. }
    unfold fexp_g, FLT_exp. lia.
Qed.

Theorem nearest_pos_g_correct : forall m e, nd_spec_g (dec_R m e) (nearest_pos_g m e).
Proof.
  intros m e. unfold nearest_pos_g.
  destruct (digits10_correct (Zpos m) ltac:(reflexivity)) as [Hk1 [Hklo Hkhi]].
  set (k := digits10 (Zpos m)) in *. cbv zeta.
  pose proof (dec_R_pos m e) as Hpos.
  destruct (Z.leb_spec ovf (k - 1 + e)) as [Hov|Hov].
  { unfold nd_spec_g. rewrite round_g_overflow; [reflexivity|].
    apply Rle_trans with (1 := Hovf).
    apply Rle_trans with (2 := dec_R_lower m e k Hklo Hk1).
    apply bpow_le. exact Hov. }
  destruct (Z.leb_spec (k + e) unf) as [Hun|Hun].
  { unfold nd_spec_g. rewrite round_g_underflow.
    - rewrite Rabs_R0, Rlt_bool_true by apply bpow_gt_0. repeat split; reflexivity.
    - split; [exact Hpos|].
      apply Rlt_le_trans with (2 := Hunf).
      apply Rlt_le_trans with (1 := dec_R_upper m e k Hkhi ltac:(lia)).
      apply bpow_le. exact Hun. }
  destruct (Z.leb_spec 0 e) as [He|He].
  { pose proof (binary_round_correct prec emax _ _ mode_NE false (m * Z.to_pos (10 ^ e)) 0) as H.
    cbv zeta in H. destruct H as [Hv H].
    assert (Hx : F2R (Float radix2 (cond_Zopp false (Zpos (m * Z.to_pos (10 ^ e)))) 0) = dec_R m e).
    { unfold F2R, dec_R. cbn [Fnum Fexp cond_Zopp bpow]. rewrite Rmult_1_r.
      rewrite Pos2Z.inj_mul, mult_IZR. f_equal.
      rewrite Z2Pos.id by (apply Z.pow_pos_nonneg; lia). now apply IZR_pow10. }
    rewrite Hx in H. unfold nd_spec_g.
    change (round radix2 (SpecFloat.fexp prec emax) (round_mode mode_NE)) with round_g in H.
    destruct (Rlt_bool (Rabs (round_g (dec_R m e))) (bpow radix2 emax)).
    - destruct H as [H1 [H2 H3]]. repeat split; assumption.
    - exact H. }
  { assert (Hp : 0 < 10 ^ (- e)) by (apply Z.pow_pos_nonneg; lia).
    pose proof (Bdiv_correct_aux prec emax _ _ mode_NE false m 0 false (Z.to_pos (10 ^ (- e))) 0) as H.
    cbv zeta in H. rewrite Z2Pos.id in H by exact Hp.
    destruct (SFdiv_core_binary prec emax (Z.pos m) 0 (10 ^ (- e)) 0) as [[mz ez] lz].
    destruct H as [Hv H].
    assert (Hx : (F2R (Float radix2 (cond_Zopp false (Zpos m)) 0) /
                  F2R (Float radix2 (cond_Zopp false (10 ^ (- e))) 0))%R = dec_R m e).
    { unfold F2R, dec_R. cbn [Fnum Fexp cond_Zopp bpow]. rewrite !Rmult_1_r.
      unfold Rdiv. f_equal. rewrite IZR_pow10 by lia. now rewrite <- bpow_opp, Z.opp_involutive. }
    rewrite Hx in H. unfold nd_spec_g.
    change (round radix2 (SpecFloat.fexp prec emax) (round_mode mode_NE)) with round_g in H.
    change (xorb false false) with false in H.
    destruct (Rlt_bool (Rabs (round_g (dec_R m e))) (bpow radix2 emax)).
    - destruct H as [H1 [H2 H3]]. repeat split; assumption.
    - exact H. }
Qed.

Lemma nd_spec_g_unique : forall x z1 z2, nd_spec_g x z1 -> nd_spec_g x z2 -> z1 = z2.
Proof.
  intros x z1 z2. unfold nd_spec_g.
  destruct (Rlt_bool (Rabs (round_g x)) (bpow radix2 emax)).
  - intros [V1 [F1 [S1 R1]]] [V2 [F2 [S2 R2]]].
    pose proof (B2R_Bsign_inj prec emax (SF2B z1 V1) (SF2B z2 V2)) as H.
    rewrite !is_finite_SF2B, !B2R_SF2B, !Bsign_SF2B in H.
    specialize (H F1 F2 ltac:(congruence) ltac:(congruence)).
    apply (f_equal (@B2SF prec emax)) in H. now rewrite !B2SF_SF2B in H.
  - congruence.
Qed.

Theorem nearest_pos_g_value : forall m1 e1 m2 e2,
  dec_R m1 e1 = dec_R m2 e2 -> nearest_pos_g m1 e1 = nearest_pos_g m2 e2.
Proof.
  intros m1 e1 m2 e2 H.
  apply nd_spec_g_unique with (x := dec_R m1 e1).
  - apply nearest_pos_g_correct.
  - rewrite H. apply nearest_pos_g_correct.
Qed.

Theorem nearest_pos_g_shift : forall m e j, 0 <= j ->
  nearest_pos_g (m * Z.to_pos (10 ^ j)) e = nearest_pos_g m (e + j).
Proof. intros. apply nearest_pos_g_value. now apply dec_R_shift. Qed.

Theorem nearest_pos_g_Z : forall m1 e1 m2 e2 a b,
  0 <= a -> 0 <= b -> e1 - a = e2 - b ->
  Zpos m1 * 10 ^ a = Zpos m2 * 10 ^ b ->
  nearest_pos_g m1 e1 = nearest_pos_g m2 e2.
Proof.
  intros m1 e1 m2 e2 a b Ha Hb He H.
  apply nearest_pos_g_value. unfold dec_R.
  replace e1 with ((e1 - a) + a) by ring. replace e2 with ((e1 - a) + b) by lia.
  rewrite !bpow_plus, <- (IZR_pow10 a), <- (IZR_pow10 b) by assumption.
  transitivity (IZR (Zpos m1 * 10 ^ a) * bpow radix10 (e1 - a))%R.
  rewrite mult_IZR; ring. rewrite H, mult_IZR. ring.
Qed.

Corollary nearest_pos_g_cross : forall m1 e1 m2 e2,
  Zpos m1 * 10 ^ (e1 - Z.min e1 e2) = Zpos m2 * 10 ^ (e2 - Z.min e1 e2) ->
  nearest_pos_g m1 e1 = nearest_pos_g m2 e2.
Proof.
  intros m1 e1 m2 e2 H.
  apply nearest_pos_g_Z with (a := e1 - Z.min e1 e2) (b := e2 - Z.min e1 e2); try lia.
Qed.

Theorem nearest_pos_g_shape : forall m e,
  match nearest_pos_g m e with
  | S754_zero s => s = false
  | S754_infinity s => s = false
  | S754_finite s _ _ => s = false /\ valid_binary prec emax (nearest_pos_g m e) = true
  | S754_nan => False
  end.
Proof.
  intros m e. pose proof (nearest_pos_g_correct m e) as H. unfold nd_spec_g in H.
  destruct (Rlt_bool _ _).
  - destruct H as [V [F [S R]]]. destruct (nearest_pos_g m e); cbn in *; auto; discriminate.
  - rewrite H. reflexivity.
Qed.

(* a valid positive finite value satisfies the specification of any real that rounds to it *)
Lemma nd_spec_g_of_round : forall x m e,
  valid_binary prec emax (S754_finite false m e) = true ->
  round_g x = SF2R radix2 (S754_finite false m e) -> nd_spec_g x (S754_finite false m e).
Proof.
  intros x m e Hv Hx. unfold nd_spec_g. rewrite Hx.
  pose proof (abs_B2R_lt_emax prec emax (SF2B _ Hv)) as Hlt. rewrite B2R_SF2B in Hlt.
  rewrite Rlt_bool_true by exact Hlt. repeat split; try reflexivity. exact Hv.
Qed.

End Gen.

Print Assumptions nearest_pos_g_correct.
Print Assumptions nearest_pos_g_value.
Print Assumptions nearest_pos_g_shift.
Print Assumptions nearest_pos_g_Z.
Print Assumptions nearest_pos_g_cross.
Print Assumptions nearest_pos_g_shape.
