(* Proofs/ErrorViable.v -- "every consumed prefix is viable": when the recursive-descent
   reference parser (Proofs/ParserRecDef.v), run with the flexible options, stops with an
   unexpected-character error at byte offset q, the items consumed before q can be
   completed to a JSON text of the grammar (Spec/Grammar.v).
   One failure lemma per model function: what was consumed when it returns
   Err (EUnexpected q c), and a grammatical completion of it. *)
From JsonSyntax Require Import Base.Prelude Base.Value Base.Unicode Model.Parser
     Proofs.ParserRecDef Spec.Grammar Proofs.ParserSoundLex Proofs.ParserSound.

(* ---------- vocabulary ---------- *)
(* the failing call started in [st], consumed the items [u] and stopped at offset [q] *)
Definition failed (st : pstate) (q : N) (u : list item) : Prop :=
  exists r, rest st = map inj u ++ r /\ q = pos st + blen u.

(* [u] can be extended by the code points [w] to something satisfying [P] *)
Definition compl (P : list item -> Prop) (u : list item) : Prop :=
  exists w, P (u ++ text_items w).

Lemma failed_nil st : failed st (pos st) [].
Proof. exists (rest st). split; [reflexivity|]. bl. lia. Qed.

Lemma failed_reads st t st1 q u : reads st t st1 -> failed st1 q u -> failed st q (t ++ u).
Proof.
  intros [Ra Rb] (r & Hr & Hq). exists r. split.
  - rewrite Ra, Hr, map_app, app_assoc. reflexivity.
  - rewrite Hq, Rb. bl. lia.
Qed.

Lemma failed_same st st' q u : rest st' = rest st -> pos st' = pos st -> failed st' q u -> failed st q u.
Proof. intros E1 E2 (r & Hr & Hq). exists r. rewrite <- E1, <- E2. auto. Qed.

Lemma failed_eq st q u u' : failed st q u -> u = u' -> failed st q u'.
Proof. intros H <-. exact H. Qed.

Lemma text_items_app a b : text_items (a ++ b) = text_items a ++ text_items b.
Proof. apply map_app. Qed.
Lemma cps_text_items w : cps (text_items w) = w.
Proof. unfold cps, text_items. rewrite map_map. cbn [fst]. apply map_id. Qed.
Lemma text_items_nil : text_items [] = [].
Proof. reflexivity. Qed.

Lemma compl_app (P Q : list item -> Prop) a u :
  (forall x, P x -> Q (a ++ x)) -> compl P u -> compl Q (a ++ u).
Proof. intros HPQ (w & Hw). exists w. rewrite <- app_assoc. apply HPQ. exact Hw. Qed.

Lemma compl_more (P Q : list item -> Prop) w2 u :
  (forall x, P x -> Q (x ++ text_items w2)) -> compl P u -> compl Q u.
Proof. intros HPQ (w & Hw). exists (w ++ w2). rewrite text_items_app, app_assoc. apply HPQ. exact Hw. Qed.

Lemma compl_imp (P Q : list item -> Prop) u : (forall x, P x -> Q x) -> compl P u -> compl Q u.
Proof. intros HPQ (w & Hw). exists w. apply HPQ. exact Hw. Qed.

Lemma compl_eq (P : list item -> Prop) u u' : compl P u -> u = u' -> compl P u'.
Proof. intros H <-. exact H. Qed.

(* ---------- monadic plumbing for the error case ---------- *)
(* H : obind e k = Err (EUnexpected q c).  First goal: e = Ok x (Hx), H is about k x;
   second goal: Hx : e = Err (EUnexpected q c). *)
Ltac ebind H x Hx :=
  match type of H with
  | obind ?e _ = _ =>
      let r := fresh "r" in
      remember e as r eqn:Hx in H; symmetry in Hx; destruct r as [x|x| |]; cbn [obind] in H;
      [ | injection H as H; subst x | discriminate H | discriminate H]
  end.

(* the primitives never raise Unexpected *)
Lemma next_char_noerr st q c : next_char st <> Err (EUnexpected q c).
Proof. unfold next_char. destruct (rest st) as [|[c0 len|] r]; discriminate. Qed.

Lemma peek_char_noerr st q c : peek_char st <> Err (EUnexpected q c).
Proof. unfold peek_char. destruct (rest st) as [|[c0 len|] r]; discriminate. Qed.

Lemma skip_ws_list_noerr q c : forall l p, skip_ws_list l p <> Err (EUnexpected q c).
Proof.
  induction l as [|[c0 len|] r IH]; intros p; cbn [skip_ws_list]; try discriminate.
  destruct (is_ws c0); [apply IH|discriminate].
Qed.

Lemma skip_whitespaces_noerr st q c : skip_whitespaces st <> Err (EUnexpected q c).
Proof.
  unfold skip_whitespaces. pose proof (skip_ws_list_noerr q c (rest st) (pos st)) as Hn.
  destruct (skip_ws_list (rest st) (pos st)) as [[l p]|e| |]; try discriminate.
  intros H. injection H as ->. apply Hn. reflexivity.
Qed.

Lemma end_fragment_noerr i st q c : end_fragment i st <> Err (EUnexpected q c).
Proof.
  unfold end_fragment. destruct (nth_error (cm st) (N.to_nat i)) as [[[s e] v]|]; [|discriminate].
  destruct (N.of_nat (length (cm st)) <? i); discriminate.
Qed.

Lemma next_char_pos st p oc st' : next_char st = Ok ((p, oc), st') -> p = pos st.
Proof.
  unfold next_char. destruct (rest st) as [|[c0 len|] r]; intros H; inversion H; reflexivity.
Qed.

(* ---------- literals ---------- *)
Lemma expect_chars_fail cs : forall st q c,
  expect_chars cs st = Err (EUnexpected q c) -> exists u w, failed st q u /\ cps u ++ w = cs.
Proof.
  induction cs as [|c0 cs IH]; intros st q c H; cbn [expect_chars] in H; [discriminate|].
  ebind H x Hx; [|destruct (next_char_noerr _ _ _ Hx)].
  destruct x as [[p oc] st1]. pose proof (next_char_pos _ _ _ _ Hx) as Hp. destruct oc as [x|].
  - destruct (N.eqb_spec x c0) as [->|Hne].
    + apply next_char_reads in Hx as (len & R1 & _ & _).
      apply IH in H as (u & w & Hu & Hc). exists ((c0, len) :: u), w.
      split; [exact (failed_reads _ _ _ _ _ R1 Hu)|]. rewrite cps_cons. cbn [fst app]. rewrite Hc. reflexivity.
    + injection H as <- _. exists [], (c0 :: cs). split; [subst p; apply failed_nil|reflexivity].
  - injection H as <- _. exists [], (c0 :: cs). split; [subst p; apply failed_nil|reflexivity].
Qed.

Lemma parse_null_fail st q c :
  parse_null st = Err (EUnexpected q c) -> exists u w, failed st q u /\ cps u ++ w = [0x6E; 0x75; 0x6C; 0x6C].
Proof.
  unfold parse_null, begin_fragment. intros H.
  ebind H x Hx.
  - destruct x as [u0 st1]. ebind H y Hy; [destruct y; discriminate H|destruct (end_fragment_noerr _ _ _ _ Hy)].
  - apply expect_chars_fail in Hx as (u & w & Hu & Hc). exists u, w. split; [|exact Hc].
    eapply failed_same; [| |exact Hu]; reflexivity.
Qed.

Lemma parse_bool_fail st q c :
  parse_bool st = Err (EUnexpected q c) ->
  exists u w, failed st q u /\
    (cps u ++ w = [0x74; 0x72; 0x75; 0x65] \/ cps u ++ w = [0x66; 0x61; 0x6C; 0x73; 0x65]).
Proof.
  rewrite parse_bool_eq. unfold begin_fragment. intros H.
  ebind H x Hx; [|destruct (next_char_noerr _ _ _ Hx)].
  destruct x as [[p oc] st1]. pose proof (next_char_pos _ _ _ _ Hx) as Hp. cbn [pos] in Hp.
  destruct oc as [x|].
  - apply next_char_reads in Hx as (len & R1 & _ & _).
    assert (R1' : reads st [(x, len)] st1) by (destruct R1 as [Ra Rb]; split; [exact Ra|exact Rb]).
    destruct (N.eqb_spec x 0x74) as [->|N1]; [|destruct (N.eqb_spec x 0x66) as [->|N2]].
    + ebind H y Hy.
      * destruct y as [u0 st2]. ebind H z Hz; [destruct z; discriminate H|destruct (end_fragment_noerr _ _ _ _ Hz)].
      * apply expect_chars_fail in Hy as (u & w & Hu & Hc). exists ((0x74, len) :: u), w.
        split; [exact (failed_reads _ _ _ _ _ R1' Hu)|]. left. rewrite cps_cons. cbn [fst app]. rewrite Hc. reflexivity.
    + ebind H y Hy.
      * destruct y as [u0 st2]. ebind H z Hz; [destruct z; discriminate H|destruct (end_fragment_noerr _ _ _ _ Hz)].
      * apply expect_chars_fail in Hy as (u & w & Hu & Hc). exists ((0x66, len) :: u), w.
        split; [exact (failed_reads _ _ _ _ _ R1' Hu)|]. right. rewrite cps_cons. cbn [fst app]. rewrite Hc. reflexivity.
    + injection H as <- _. exists [], [0x74; 0x72; 0x75; 0x65]. split; [subst p; apply failed_nil|left; reflexivity].
  - injection H as <- _. exists [], [0x74; 0x72; 0x75; 0x65]. split; [subst p; apply failed_nil|left; reflexivity].
Qed.

(* ---------- numbers ---------- *)
Lemma num_loop_fail ctx : forall l s buf p q c,
  num_loop ctx s buf l p = Err (EUnexpected q c) -> nshape s buf ->
  exists t r s', l = map inj t ++ r /\ q = p + blen t /\ nshape s' (buf ++ cps t).
Proof.
  induction l as [|[c0 len|] r IH]; intros s buf p q c H Hs; cbn [num_loop] in H.
  - discriminate.
  - destruct (num_trans ctx s c0) as [s1| |] eqn:T.
    + apply IH in H as (t & r' & s' & -> & -> & Hs'); [|eapply num_trans_shape; eassumption].
      exists ((c0, len) :: t), r', s'. split; [reflexivity|]. split; [bl; lia|].
      rewrite cps_cons. cbn [fst]. revert Hs'. la. auto.
    + discriminate.
    + injection H as <- _. exists [], (SOk c0 len :: r), s. split; [reflexivity|]. split; [bl; lia|].
      cbn [cps map]. rewrite app_nil_r. exact Hs.
  - discriminate.
Qed.

(* every automaton state is at most one digit away from a number *)
Lemma num_complete s buf : nshape s buf -> exists w, jnum (buf ++ w).
Proof.
  intros Hs. destruct (num_final s) eqn:F.
  - exists []. rewrite app_nil_r. eapply num_final_jnum; eassumption.
  - exists [0x30].
    assert (Hex : exists s', num_trans CNone s 0x30 = NGo s' /\ num_final s' = true).
    { destruct s; try discriminate F; eexists; split; reflexivity. }
    destruct Hex as (s' & T & F').
    eapply num_final_jnum; [eapply num_trans_shape; eassumption|exact F'].
Qed.

Lemma parse_number_fail ctx st q c :
  parse_number ctx st = Err (EUnexpected q c) -> exists u w, failed st q u /\ jnum (cps u ++ w).
Proof.
  unfold parse_number, begin_fragment. cbn [rest pos cm].
  destruct (num_loop ctx NInit [] (rest st) (pos st)) as [[[[buf s] l] p]|e| |] eqn:L; try discriminate.
  - destruct (num_final s) eqn:F; intros H.
    + ebind H x Hx; [destruct x; discriminate H|destruct (end_fragment_noerr _ _ _ _ Hx)].
    + injection H as <- _. apply num_loop_ok in L as (t & Hb & Hl & Hp & Hs); [|reflexivity].
      cbn [app] in Hb. subst buf. destruct (num_complete _ _ Hs) as (w & Hw).
      exists t, w. split; [exists l; split; assumption|exact Hw].
  - intros H. injection H as ->. apply num_loop_fail in L as (t & r & s' & Hl & Hq & Hs); [|reflexivity].
    cbn [app] in Hs. destruct (num_complete _ _ Hs) as (w & Hw).
    exists t, w. split; [exists r; split; assumption|exact Hw].
Qed.

(* ---------- strings ---------- *)
Lemma hex_digit_fail st q c : hex_digit st = Err (EUnexpected q c) -> q = pos st.
Proof.
  unfold hex_digit. intros H. ebind H x Hx; [|destruct (next_char_noerr _ _ _ Hx)].
  destruct x as [[p oc] st1]. apply next_char_pos in Hx. destruct oc as [c0|].
  - destruct (hexval c0); [discriminate|]. injection H as <- _. exact Hx.
  - injection H as <- _. exact Hx.
Qed.

(* fewer than four hex digits were read; padding with zeros gives a \uXXXX element *)
Lemma parse_hex4_fail st q c :
  parse_hex4 st = Err (EUnexpected q c) ->
  exists u w cp, failed st q u /\ elem_src (0x5C :: 0x75 :: cps u ++ w) (U16 cp).
Proof.
  unfold parse_hex4. intros H.
  ebind H x3 H3.
  2:{ apply hex_digit_fail in H3. subst q. exists [], [0x30; 0x30; 0x30; 0x30]. eexists.
      split; [apply failed_nil|]. cbn [cps map fst app]. eapply es_u; reflexivity. }
  destruct x3 as [d3 st1]. apply hex_digit_ok in H3 as (h3 & l3 & E3 & _ & R3 & _).
  ebind H x2 H2.
  2:{ apply hex_digit_fail in H2. subst q. exists [(h3, l3)], [0x30; 0x30; 0x30]. eexists.
      split; [eapply failed_eq; [exact (failed_reads _ _ _ _ _ R3 (failed_nil st1))|reflexivity]|].
      cbn [cps map fst app]. eapply es_u; [exact E3|reflexivity..]. }
  destruct x2 as [d2 st2]. apply hex_digit_ok in H2 as (h2 & l2 & E2 & _ & R2 & _).
  pose proof (reads_trans _ _ _ _ _ R3 R2) as R32. cbn [app] in R32.
  ebind H x1 H1.
  2:{ apply hex_digit_fail in H1. subst q. exists [(h3, l3); (h2, l2)], [0x30; 0x30]. eexists.
      split; [eapply failed_eq; [exact (failed_reads _ _ _ _ _ R32 (failed_nil st2))|reflexivity]|].
      cbn [cps map fst app]. eapply es_u; [exact E3|exact E2|reflexivity..]. }
  destruct x1 as [d1 st3]. apply hex_digit_ok in H1 as (h1 & l1 & E1 & _ & R1 & _).
  pose proof (reads_trans _ _ _ _ _ R32 R1) as R321. cbn [app] in R321.
  ebind H x0 H0.
  2:{ apply hex_digit_fail in H0. subst q. exists [(h3, l3); (h2, l2); (h1, l1)], [0x30]. eexists.
      split; [eapply failed_eq; [exact (failed_reads _ _ _ _ _ R321 (failed_nil st3))|reflexivity]|].
      cbn [cps map fst app]. eapply es_u; [exact E3|exact E2|exact E1|reflexivity]. }
  destruct x0 as [d0 st4]. discriminate H.
Qed.

Lemma push_plain_tail k acc high es d stn q c :
  push_plain k flexible acc high es d stn = Err (EUnexpected q c) ->
  exists acc', k acc' None stn = Err (EUnexpected q c).
Proof. unfold push_plain. destruct high as [[ph hi]|]; cbn [trunc flexible]; eauto. Qed.

Lemma char_or_replace_flexible cp s e : exists c', char_or_replace flexible cp s e = Ok c'.
Proof. unfold char_or_replace. destruct (from_u32 cp); cbn [inval flexible]; eauto. Qed.

Lemma unicode_case_tail k acc high p2 st2 q c :
  unicode_case k flexible acc high p2 st2 = Err (EUnexpected q c) ->
  parse_hex4 st2 = Err (EUnexpected q c) \/
  exists cp st3 acc' high', parse_hex4 st2 = Ok (cp, st3) /\ k acc' high' st3 = Err (EUnexpected q c).
Proof.
  unfold unicode_case. intros H. ebind H x Hx; [|left; exact Hx]. destruct x as [cp st3].
  right. exists cp, st3.
  cbv beta iota zeta delta [span_new] in H. cbn [trunc flexible] in H.
  destruct high as [[ph hi]|].
  - destruct (is_low cp).
    + destruct ((hi <? 0xD800) || (cp <? 0xDC00)); [discriminate H|].
      match type of H with context [char_or_replace flexible ?a ?b ?d] =>
        destruct (char_or_replace_flexible a b d) as [c' Hc]; rewrite Hc in H end.
      eauto.
    + destruct (is_high cp); [eauto|].
      match type of H with context [char_or_replace flexible ?a ?b ?d] =>
        destruct (char_or_replace_flexible a b d) as [c' Hc]; rewrite Hc in H end.
      eauto.
  - destruct (is_high cp); [eauto|].
    match type of H with context [char_or_replace flexible ?a ?b ?d] =>
      destruct (char_or_replace_flexible a b d) as [c' Hc]; rewrite Hc in H end.
    eauto.
Qed.

Lemma string_loop_fail f : forall acc high st i q c,
  string_loop f flexible i acc high st = Err (EUnexpected q c) -> good (rest st) ->
  exists u w srcs els, failed st q u /\ Forall2 elem_src srcs els /\ cps u ++ w = concat srcs ++ [0x22].
Proof.
  induction f as [|f IH]; intros acc high st i q c H G; [discriminate|].
  rewrite string_loop_eq in H. cbv zeta in H.
  ebind H x Hx; [|destruct (next_char_noerr _ _ _ Hx)]. destruct x as [[p oc] st1].
  pose proof (next_char_pos _ _ _ _ Hx) as Hp.
  destruct oc as [c0|].
  2:{ injection H as <- _. exists [], [0x22], [], [].
      split; [subst p; apply failed_nil|]. split; [constructor|reflexivity]. }
  apply next_char_reads in Hx as (len & R1 & _ & _).
  pose proof (reads_good _ _ _ R1 G) as G1.
  destruct (N.eqb_spec c0 0x22) as [->|N1].
  { (* closing quote: no Unexpected *)
    destruct high as [[ph hi]|]; cbn [trunc flexible] in H.
    - ebind H y Hy; [destruct y; discriminate H|destruct (end_fragment_noerr _ _ _ _ Hy)].
    - ebind H y Hy; [destruct y; discriminate H|destruct (end_fragment_noerr _ _ _ _ Hy)]. }
  destruct (N.eqb_spec c0 0x5C) as [->|N2].
  - (* after a backslash *)
    assert (Hbs : exists u w srcs els, failed st (pos st1) u /\ Forall2 elem_src srcs els /\
                                        cps u ++ w = concat srcs ++ [0x22]).
    { exists [(0x5C, len)], [0x22; 0x22], [[0x5C; 0x22]], [Esc 0x22].
      split; [eapply failed_eq; [exact (failed_reads _ _ _ _ _ R1 (failed_nil st1))|reflexivity]|].
      split; [|reflexivity]. constructor; [|constructor]. apply es_esc. cbn. auto. }
    ebind H y Hy; [|destruct (next_char_noerr _ _ _ Hy)]. destruct y as [[p2 oc2] st2].
    pose proof (next_char_pos _ _ _ _ Hy) as Hp2.
    destruct oc2 as [c2|].
    2:{ injection H as <- _. subst p2. exact Hbs. }
    apply next_char_reads in Hy as (len2 & R2 & _ & _).
    pose proof (reads_good _ _ _ R2 G1) as G2.
    pose proof (reads_trans _ _ _ _ _ R1 R2) as R12. cbn [app] in R12.
    destruct (esc_char c2) as [d|] eqn:Ed.
    + apply push_plain_tail in H as (acc' & H).
      apply IH in H as (u & w & srcs & els & Hu & F & Hc); [|exact G2].
      exists ((0x5C, len) :: (c2, len2) :: u), w, ([0x5C; c2] :: srcs), (Esc d :: els).
      split; [exact (failed_reads _ _ _ _ _ R12 Hu)|].
      split; [constructor; [apply es_esc, esc_char_table, Ed|exact F]|].
      rewrite !cps_cons. cbn [fst concat app]. rewrite Hc. reflexivity.
    + destruct (N.eqb_spec c2 0x75) as [->|N3].
      * apply unicode_case_tail in H as [H|(cp & st3 & acc' & high' & H4 & H)].
        -- apply parse_hex4_fail in H as (u4 & w4 & cp & Hu & Hsrc).
           exists ((0x5C, len) :: (0x75, len2) :: u4), (w4 ++ [0x22]), [0x5C :: 0x75 :: cps u4 ++ w4], [U16 cp].
           split; [exact (failed_reads _ _ _ _ _ R12 Hu)|].
           split; [constructor; [exact Hsrc|constructor]|].
           rewrite !cps_cons. cbn [fst concat app]. rewrite app_nil_r, app_assoc. reflexivity.
        -- apply parse_hex4_ok in H4 as (t & h3 & h2 & h1 & h0 & d3 & d2 & d1 & d0 & Ct & E3 & E2 & E1 & E0 & Hcp & _ & R3 & _).
           apply IH in H as (u & w & srcs & els & Hu & F & Hc); [|exact (reads_good _ _ _ R3 G2)].
           exists ((0x5C, len) :: (0x75, len2) :: t ++ u), w, ([0x5C; 0x75; h3; h2; h1; h0] :: srcs), (U16 cp :: els).
           split; [eapply failed_eq; [exact (failed_reads _ _ _ _ _ (reads_trans _ _ _ _ _ R12 R3) Hu)|reflexivity]|].
           split; [constructor; [rewrite Hcp; apply es_u; assumption|exact F]|].
           rewrite !cps_cons, cps_app, Ct. cbn [fst concat app]. rewrite Hc. reflexivity.
      * injection H as <- _. subst p2. exact Hbs.
  - destruct (is_control c0) eqn:Ctl.
    + injection H as <- _. exists [], [0x22], [], [].
      split; [subst p; apply failed_nil|]. split; [constructor|reflexivity].
    + apply push_plain_tail in H as (acc' & H).
      apply IH in H as (u & w & srcs & els & Hu & F & Hc); [|exact G1].
      exists ((c0, len) :: u), w, ([c0] :: srcs), (Raw c0 :: els).
      split; [exact (failed_reads _ _ _ _ _ R1 Hu)|]. split.
      * constructor; [|exact F]. apply es_raw.
        destruct R1 as [Ra _]. rewrite Ra in G. cbn [map app inj fst snd] in G. apply good_head in G.
        cbn [fst] in G. unfold is_control in Ctl. unfold unescaped. lia.
      * rewrite cps_cons. cbn [fst concat app]. rewrite Hc. reflexivity.
Qed.

(* with both options every element sequence decodes *)
Lemma decode_total : forall els, exists s, decode flexible els = Some s.
Proof.
  assert (H : forall n els, (length els <= n)%nat -> exists s, decode flexible els = Some s).
  { induction n as [|n IH]; intros els Hl.
    - destruct els; [exists []; reflexivity|cbn [length] in Hl; lia].
    - destruct els as [|[c|c|u] r]; [exists []; reflexivity| | |]; cbn [length] in Hl.
      + destruct (IH r) as (s & Hs); [lia|]. exists (c :: s). rewrite decode_raw, Hs. reflexivity.
      + destruct (IH r) as (s & Hs); [lia|]. exists (c :: s). rewrite decode_esc, Hs. reflexivity.
      + rewrite decode_u16. cbn [trunc inval flexible].
        destruct (IH r) as (s & Hs); [lia|].
        destruct (is_high u).
        * destruct r as [|[c|c|l] r'].
          -- rewrite Hs. cbn [ocons]. eauto.
          -- rewrite Hs. cbn [ocons]. eauto.
          -- rewrite Hs. cbn [ocons]. eauto.
          -- destruct (is_low l).
             ++ destruct (IH r') as (s' & Hs'); [cbn [length] in Hl; lia|]. rewrite Hs'. cbn [ocons]. eauto.
             ++ rewrite Hs. cbn [ocons]. eauto.
        * destruct (is_low u); rewrite Hs; cbn [ocons]; eauto. }
  intros els. apply (H (length els)). lia.
Qed.

Lemma parse_string_fail st q c :
  parse_string flexible st = Err (EUnexpected q c) -> good (rest st) ->
  exists u w s, failed st q u /\ jstr flexible (cps u ++ w) s.
Proof.
  rewrite parse_string_eq. unfold begin_fragment. intros H G.
  ebind H x Hx; [|destruct (next_char_noerr _ _ _ Hx)]. destruct x as [[p oc] st1].
  pose proof (next_char_pos _ _ _ _ Hx) as Hp. cbn [pos] in Hp.
  assert (Hempty : jstr flexible [0x22; 0x22] []).
  { exists [], []. split; [constructor|]. split; reflexivity. }
  destruct oc as [c0|].
  2:{ injection H as <- _. exists [], [0x22; 0x22], []. split; [subst p; apply failed_nil|exact Hempty]. }
  destruct (N.eqb_spec c0 0x22) as [->|N1].
  - apply next_char_reads in Hx as (len & R1 & _ & _).
    assert (R1' : reads st [(0x22, len)] st1) by (destruct R1 as [Ra Rb]; split; [exact Ra|exact Rb]).
    apply string_loop_fail in H as (u & w & srcs & els & Hu & F & Hc); [|exact (reads_good _ _ _ R1' G)].
    destruct (decode_total els) as (s & Hs).
    exists ((0x22, len) :: u), w, s. split; [exact (failed_reads _ _ _ _ _ R1' Hu)|].
    exists srcs, els. split; [exact F|]. split; [rewrite cps_cons; cbn [fst app]; rewrite Hc; reflexivity|exact Hs].
  - injection H as <- _. exists [], [0x22; 0x22], []. split; [subst p; apply failed_nil|exact Hempty].
Qed.

(* ---------- grammar level: what the consumed items are a prefix of ---------- *)
(* white space, then a value *)
Definition isval (x : list item) : Prop :=
  exists w0 t v m, ws w0 /\ x = w0 ++ t /\ jv flexible t v m.
(* the rest of an array after its opening bracket (and the white space behind it) *)
Definition aclosed (x : list item) : Prop :=
  exists t rb vs m, x = t ++ [rb] /\ jitems flexible t vs m /\ fst rb = 0x5D.
(* the rest of an array after an item *)
Definition isatail (x : list item) : Prop := exists vs m, atail flexible x vs m.
(* the rest of an object after a colon *)
Definition oentry (x : list item) : Prop :=
  exists w2 vt v1 m1 tl es ms, x = w2 ++ vt ++ tl /\ ws w2 /\ jv flexible vt v1 m1 /\ mtail flexible tl es ms.
(* the rest of an object after a member *)
Definition ismtail (x : list item) : Prop := exists es ms, mtail flexible x es ms.
(* a key, white space, a colon *)
Definition iskey (x : list item) : Prop :=
  exists kt w1 colon k, x = kt ++ w1 ++ [colon] /\ jstr flexible (cps kt) k /\ ws w1 /\ fst colon = 0x3A.

Lemma compl_wrap (P Q : list item -> Prop) a b u :
  (forall x, P x -> Q (a ++ x ++ text_items b)) -> compl P u -> compl Q (a ++ u).
Proof.
  intros HPQ (w & Hw). exists (w ++ b). rewrite text_items_app.
  replace ((a ++ u) ++ text_items w ++ text_items b) with (a ++ (u ++ text_items w) ++ text_items b) by la.
  apply HPQ. exact Hw.
Qed.

Lemma isval_jv t v m : jv flexible t v m -> isval t.
Proof. intros Hv. exists [], t, v, m. split; [apply ws_nil|]. split; [reflexivity|exact Hv]. Qed.

Lemma isval_ws w x : ws w -> isval x -> isval (w ++ x).
Proof.
  intros Hw (w0 & t & v & m & Hw0 & -> & Hv). exists (w ++ w0), t, v, m.
  split; [apply ws_app; assumption|]. split; [la|exact Hv].
Qed.

Lemma aclosed_val x rb : fst rb = 0x5D -> isval x -> aclosed (x ++ [rb]).
Proof.
  intros Hrb (w0 & t & v & m & Hw0 & -> & Hv). exists (w0 ++ t ++ []), rb. do 2 eexists.
  split; [la|]. split; [apply ji_one; [exact Hw0|apply ws_nil|exact Hv]|exact Hrb].
Qed.

Lemma aclosed_tail w1 t v m x : ws w1 -> jv flexible t v m -> isatail x -> aclosed (w1 ++ t ++ x).
Proof.
  intros Hw Hv (vs & ms & Ht).
  destruct (atail_items _ _ _ _ _ _ _ _ Hw Hv Ht) as (t' & rb & E & Hrb & Hji).
  exists t', rb. do 2 eexists. split; [exact E|]. split; [exact Hji|exact Hrb].
Qed.

Lemma isatail_end w rb : ws w -> fst rb = 0x5D -> isatail (w ++ [rb]).
Proof. intros Hw Hrb. do 2 eexists. apply at_end; assumption. Qed.

Lemma isatail_cons w comma x : ws w -> fst comma = 0x2C -> aclosed x -> isatail (w ++ comma :: x).
Proof.
  intros Hw Hc (t & rb & vs & m & -> & Hji & Hrb). do 2 eexists. apply at_cons; eassumption.
Qed.

Lemma isval_arr w lb w2 x : ws w -> fst lb = 0x5B -> ws w2 -> aclosed x -> isval (w ++ lb :: w2 ++ x).
Proof.
  intros Hw Hlb Hw2 (t & rb & vs & m & -> & Hji & Hrb). exists w, (lb :: (w2 ++ t) ++ [rb]). do 2 eexists.
  split; [exact Hw|]. split; [la|]. apply jv_arr; [exact Hlb|exact Hrb|]. apply jitems_ws_pre; eassumption.
Qed.

Lemma entry_members pre kt w1 colon k x :
  ws pre -> jstr flexible (cps kt) k -> ws w1 -> fst colon = 0x3A -> oentry x ->
  exists t' rb es m, pre ++ kt ++ w1 ++ colon :: x = t' ++ [rb] /\ fst rb = 0x7D /\ jmembers flexible t' es m.
Proof.
  intros Hpre Hk Hw1 Hc (w2 & vt & v1 & m1 & tl & es & ms & -> & Hw2 & Hv & Htl).
  pose proof (je flexible kt w1 colon w2 vt k v1 m1 Hk Hw1 Hw2 Hc Hv) as Hje.
  destruct (mtail_members _ _ _ _ _ _ _ _ _ Hpre Hje Htl) as (t' & rb & E & Hrb & Hjm).
  exists t', rb. do 2 eexists. split; [rewrite <- E; la|]. split; [exact Hrb|exact Hjm].
Qed.

Lemma isval_obj w lb w2 kt w1 colon k x :
  ws w -> fst lb = 0x7B -> ws w2 -> jstr flexible (cps kt) k -> ws w1 -> fst colon = 0x3A -> oentry x ->
  isval (w ++ (lb :: w2) ++ kt ++ w1 ++ [colon] ++ x).
Proof.
  intros Hw Hlb Hw2 Hk Hw1 Hc Hx.
  destruct (entry_members w2 kt w1 colon k x Hw2 Hk Hw1 Hc Hx) as (t' & rb & es & m & E & Hrb & Hjm).
  exists w, (lb :: t' ++ [rb]). do 2 eexists. split; [exact Hw|]. split; [rewrite <- E; la|].
  apply jv_obj; eassumption.
Qed.

Lemma oentry_val x rb : fst rb = 0x7D -> isval x -> oentry (x ++ [rb]).
Proof.
  intros Hrb (w0 & t & v & m & Hw0 & -> & Hv). exists w0, t, v, m, ([] ++ [rb]), [], [].
  split; [la|]. split; [exact Hw0|]. split; [exact Hv|]. apply mt_end; [apply ws_nil|exact Hrb].
Qed.

Lemma oentry_tail w t v m x : ws w -> jv flexible t v m -> ismtail x -> oentry (w ++ t ++ x).
Proof. intros Hw Hv (es & ms & Ht). exists w, t, v, m, x, es, ms. auto. Qed.

Lemma ismtail_end w rb : ws w -> fst rb = 0x7D -> ismtail (w ++ [rb]).
Proof. intros Hw Hrb. do 2 eexists. apply mt_end; assumption. Qed.

Lemma ismtail_cons post comma pre kt w1 colon k x :
  ws post -> fst comma = 0x2C -> ws pre -> jstr flexible (cps kt) k -> ws w1 -> fst colon = 0x3A -> oentry x ->
  ismtail (post ++ comma :: pre ++ kt ++ w1 ++ [colon] ++ x).
Proof.
  intros Hpost Hcm Hpre Hk Hw1 Hc Hx.
  destruct (entry_members pre kt w1 colon k x Hpre Hk Hw1 Hc Hx) as (t' & rb & es & m & E & Hrb & Hjm).
  replace (pre ++ kt ++ w1 ++ [colon] ++ x) with (t' ++ [rb]) by (rewrite <- E; la).
  do 2 eexists. apply mt_cons; eassumption.
Qed.

(* the completion  null}  of an object whose last colon has just been read *)
Definition null_rb : list N := [0x6E; 0x75; 0x6C; 0x6C; 0x7D].

Lemma oentry_null : oentry (text_items null_rb).
Proof.
  change (oentry (text_items [0x6E; 0x75; 0x6C; 0x6C] ++ [(0x7D, utf8_len 0x7D)])).
  apply oentry_val; [reflexivity|]. eapply isval_jv. apply jv_null. reflexivity.
Qed.

Lemma iskey_obj lb w2 x :
  fst lb = 0x7B -> ws w2 -> iskey x -> isval ((lb :: w2) ++ x ++ text_items null_rb).
Proof.
  intros Hlb Hw2 (kt & w1 & colon & k & -> & Hk & Hw1 & Hc).
  replace ((lb :: w2) ++ (kt ++ w1 ++ [colon]) ++ text_items null_rb)
    with ([] ++ (lb :: w2) ++ kt ++ w1 ++ [colon] ++ text_items null_rb) by la.
  eapply isval_obj; try eassumption; [apply ws_nil|apply oentry_null].
Qed.

Lemma iskey_mtail post comma pre x :
  ws post -> fst comma = 0x2C -> ws pre -> iskey x ->
  ismtail ((post ++ [comma] ++ pre) ++ x ++ text_items null_rb).
Proof.
  intros Hpost Hcm Hpre (kt & w1 & colon & k & -> & Hk & Hw1 & Hc).
  replace ((post ++ [comma] ++ pre) ++ (kt ++ w1 ++ [colon]) ++ text_items null_rb)
    with (post ++ comma :: pre ++ kt ++ w1 ++ [colon] ++ text_items null_rb) by la.
  eapply ismtail_cons; try eassumption. apply oentry_null.
Qed.

(* ---------- arrays and objects: the structural leaves ---------- *)
Lemma array_start_noerr st q c :
  peek_char st = Ok (Some 0x5B) -> array_start st <> Err (EUnexpected q c).
Proof.
  intros Hp H. apply peek_char_some in Hp as (len & r & E).
  rewrite array_start_eq in H. unfold begin_fragment, next_char in H. cbn [rest pos cm] in H.
  rewrite E in H. cbn [obind] in H. rewrite N.eqb_refl in H.
  ebind H y Hy; [|destruct (skip_whitespaces_noerr _ _ _ Hy)]. destruct y as [u0 st2].
  ebind H oc2 Hp2; [|destruct (peek_char_noerr _ _ _ Hp2)].
  match type of H with (if ?e then _ else _) = _ => destruct e end; [|discriminate H].
  ebind H z Hz; [|destruct (next_char_noerr _ _ _ Hz)]. destruct z as [x st3].
  ebind H z' Hz'; [destruct z'; discriminate H|destruct (end_fragment_noerr _ _ _ _ Hz')].
Qed.

Lemma array_continue_fail i st q c :
  array_continue i st = Err (EUnexpected q c) -> exists u, failed st q u /\ compl isatail u.
Proof.
  rewrite array_continue_eq. intros H.
  ebind H y Hy; [|destruct (skip_whitespaces_noerr _ _ _ Hy)]. destruct y as [u0 st1].
  apply skip_whitespaces_ok in Hy as (w & Hw & R1 & _).
  ebind H z Hz; [|destruct (next_char_noerr _ _ _ Hz)]. destruct z as [[p oc] st2].
  pose proof (next_char_pos _ _ _ _ Hz) as Hp.
  assert (Hres : exists u, failed st (pos st1) u /\ compl isatail u).
  { exists w. split; [eapply failed_eq; [exact (failed_reads _ _ _ _ _ R1 (failed_nil st1))|apply app_nil_r]|].
    exists [0x5D]. apply (isatail_end w (0x5D, utf8_len 0x5D)); [exact Hw|reflexivity]. }
  destruct oc as [c0|].
  - destruct (c0 =? 0x2C); [discriminate H|]. destruct (c0 =? 0x5D).
    + ebind H v Hv; [destruct v; discriminate H|destruct (end_fragment_noerr _ _ _ _ Hv)].
    + injection H as <- _. subst p. exact Hres.
  - injection H as <- _. subst p. exact Hres.
Qed.

Lemma object_key_fail st q c :
  object_key flexible st = Err (EUnexpected q c) -> good (rest st) ->
  exists u, failed st q u /\ compl iskey u.
Proof.
  rewrite object_key_eq. unfold begin_fragment. intros H G.
  ebind H x Hx.
  2:{ apply parse_string_fail in Hx as (u & w & s & Hu & Hs); [|exact G]. exists u.
      split; [eapply failed_same; [| |exact Hu]; reflexivity|].
      exists (w ++ [0x3A]). exists (u ++ text_items w), [], (0x3A, utf8_len 0x3A), s.
      split; [rewrite text_items_app; la|].
      split; [rewrite cps_app, cps_text_items; exact Hs|]. split; [apply ws_nil|reflexivity]. }
  destruct x as [[k j] st1]. apply parse_string_ok in Hx as (kt & Hk & R1 & _ & _); [|exact G].
  assert (R1' : reads st kt st1) by (destruct R1 as [Ra Rb]; split; [exact Ra|exact Rb]).
  ebind H y Hy; [|destruct (skip_whitespaces_noerr _ _ _ Hy)]. destruct y as [u0 st2].
  apply skip_whitespaces_ok in Hy as (w1 & Hw1 & R2 & _).
  ebind H z Hz; [|destruct (next_char_noerr _ _ _ Hz)]. destruct z as [[p oc] st3].
  pose proof (next_char_pos _ _ _ _ Hz) as Hp.
  assert (Hres : exists u, failed st (pos st2) u /\ compl iskey u).
  { exists (kt ++ w1). split.
    - eapply failed_eq; [exact (failed_reads _ _ _ _ _ (reads_trans _ _ _ _ _ R1' R2) (failed_nil st2))|apply app_nil_r].
    - exists [0x3A]. exists kt, w1, (0x3A, utf8_len 0x3A), k.
      split; [rewrite <- app_assoc; reflexivity|]. split; [exact Hk|]. split; [exact Hw1|reflexivity]. }
  destruct oc as [c0|].
  - destruct (c0 =? 0x3A); [discriminate H|]. injection H as <- _. subst p. exact Hres.
  - injection H as <- _. subst p. exact Hres.
Qed.

Lemma object_start_fail st q c :
  peek_char st = Ok (Some 0x7B) -> object_start flexible st = Err (EUnexpected q c) -> good (rest st) ->
  exists u, failed st q u /\ compl isval u.
Proof.
  intros Hpk H G. apply peek_char_some in Hpk as (len & r & E).
  rewrite object_start_eq in H. unfold begin_fragment, next_char in H. cbn [rest pos cm] in H.
  rewrite E in H. cbn [obind] in H. rewrite N.eqb_refl in H.
  match type of H with obind (skip_whitespaces ?s) _ = _ => set (st1 := s) in H end.
  assert (R0 : reads st [(0x7B, len)] st1).
  { split; [exact E|]. unfold st1. cbn [pos]. bl. lia. }
  ebind H y Hy; [|destruct (skip_whitespaces_noerr _ _ _ Hy)]. destruct y as [u0 st2].
  apply skip_whitespaces_ok in Hy as (w2 & Hw2 & R2 & _).
  pose proof (reads_trans _ _ _ _ _ R0 R2) as R02. cbn [app] in R02.
  ebind H oc2 Hp2; [|destruct (peek_char_noerr _ _ _ Hp2)].
  match type of H with (if ?e then _ else _) = _ => destruct e end.
  - ebind H z Hz; [|destruct (next_char_noerr _ _ _ Hz)]. destruct z as [x st3].
    ebind H z' Hz'; [destruct z'; discriminate H|destruct (end_fragment_noerr _ _ _ _ Hz')].
  - ebind H z Hz; [destruct z as [[k e] st3]; discriminate H|].
    apply object_key_fail in Hz as (u & Hu & Hc); [|exact (reads_good _ _ _ R02 G)].
    exists (((0x7B, len) :: w2) ++ u). split; [exact (failed_reads _ _ _ _ _ R02 Hu)|].
    apply (compl_wrap iskey isval ((0x7B, len) :: w2) null_rb); [|exact Hc].
    intros x Hx. apply iskey_obj; [reflexivity|exact Hw2|exact Hx].
Qed.

Lemma object_continue_fail i st q c :
  object_continue flexible i st = Err (EUnexpected q c) -> good (rest st) ->
  exists u, failed st q u /\ compl ismtail u.
Proof.
  rewrite object_continue_eq. intros H G.
  ebind H y Hy; [|destruct (skip_whitespaces_noerr _ _ _ Hy)]. destruct y as [u0 st1].
  apply skip_whitespaces_ok in Hy as (post & Hpost & R1 & _).
  ebind H z Hz; [|destruct (next_char_noerr _ _ _ Hz)]. destruct z as [[p oc] st2].
  pose proof (next_char_pos _ _ _ _ Hz) as Hp.
  assert (Hres : exists u, failed st (pos st1) u /\ compl ismtail u).
  { exists post. split; [eapply failed_eq; [exact (failed_reads _ _ _ _ _ R1 (failed_nil st1))|apply app_nil_r]|].
    exists [0x7D]. apply (ismtail_end post (0x7D, utf8_len 0x7D)); [exact Hpost|reflexivity]. }
  destruct oc as [c0|]; [|injection H as <- _; subst p; exact Hres].
  destruct (N.eqb_spec c0 0x2C) as [->|N1].
  - apply next_char_reads in Hz as (len & R2 & _ & _).
    ebind H v Hv; [|destruct (skip_whitespaces_noerr _ _ _ Hv)]. destruct v as [u1 st3].
    apply skip_whitespaces_ok in Hv as (pre & Hpre & R3 & _).
    pose proof (reads_trans _ _ _ _ _ R1 (reads_trans _ _ _ _ _ R2 R3)) as R.
    ebind H v' Hv'; [destruct v' as [[k e] st4]; discriminate H|].
    apply object_key_fail in Hv' as (u & Hu & Hc); [|exact (reads_good _ _ _ R G)].
    exists ((post ++ [(0x2C, len)] ++ pre) ++ u). split; [exact (failed_reads _ _ _ _ _ R Hu)|].
    apply (compl_wrap iskey ismtail (post ++ [(0x2C, len)] ++ pre) null_rb); [|exact Hc].
    intros x Hx. apply iskey_mtail; [exact Hpost|reflexivity|exact Hpre|exact Hx].
  - destruct (c0 =? 0x7D).
    + ebind H v Hv; [destruct v; discriminate H|destruct (end_fragment_noerr _ _ _ _ Hv)].
    + injection H as <- _. subst p. exact Hres.
Qed.

(* ---------- Fragment::parse_in ---------- *)
Lemma parse_fragment_fail ctx st q c :
  parse_fragment flexible ctx st = Err (EUnexpected q c) -> good (rest st) ->
  exists u, failed st q u /\ compl isval u.
Proof.
  rewrite parse_fragment_eq. intros H G.
  ebind H x Hx; [|destruct (skip_whitespaces_noerr _ _ _ Hx)]. destruct x as [u0 st1].
  apply skip_whitespaces_ok in Hx as (w0 & Hw0 & R1 & _). pose proof (reads_good _ _ _ R1 G) as G1.
  assert (Hlift : forall q' u, failed st1 q' u -> compl isval u -> exists u', failed st q' u' /\ compl isval u').
  { intros q' u Hu Hc. exists (w0 ++ u). split; [exact (failed_reads _ _ _ _ _ R1 Hu)|].
    apply (compl_app isval isval); [|exact Hc]. intros x. apply isval_ws. exact Hw0. }
  assert (Hnull : compl isval []).
  { exists [0x6E; 0x75; 0x6C; 0x6C]. eapply isval_jv. apply jv_null. reflexivity. }
  ebind H oc Hp; [|destruct (peek_char_noerr _ _ _ Hp)].
  destruct oc as [c0|].
  2:{ injection H as <- _. apply (Hlift _ []); [apply failed_nil|exact Hnull]. }
  destruct (c0 =? 0x6E).
  { ebind H y Hy; [destruct y; discriminate H|].
    apply parse_null_fail in Hy as (u & w & Hu & Hc). apply (Hlift _ u Hu).
    exists w. eapply isval_jv. apply jv_null. rewrite cps_app, cps_text_items. exact Hc. }
  destruct ((c0 =? 0x74) || (c0 =? 0x66)).
  { ebind H y Hy; [destruct y as [[b j] st2]; discriminate H|].
    apply parse_bool_fail in Hy as (u & w & Hu & [Hc|Hc]); apply (Hlift _ u Hu); exists w; eapply isval_jv.
    - apply jv_true. rewrite cps_app, cps_text_items. exact Hc.
    - apply jv_false. rewrite cps_app, cps_text_items. exact Hc. }
  destruct (c0 =? 0x22).
  { ebind H y Hy; [destruct y as [[s j] st2]; discriminate H|].
    apply parse_string_fail in Hy as (u & w & s & Hu & Hs); [|exact G1]. apply (Hlift _ u Hu).
    exists w. eapply isval_jv. apply jv_str with (s := s). rewrite cps_app, cps_text_items. exact Hs. }
  destruct (N.eqb_spec c0 0x5B) as [->|N1].
  { ebind H y Hy; [destruct y as [[[|] j] st2]; discriminate H|].
    destruct (array_start_noerr _ _ _ Hp Hy). }
  destruct (N.eqb_spec c0 0x7B) as [->|N2].
  { ebind H y Hy; [destruct y as [[[|k e] j] st2]; discriminate H|].
    apply object_start_fail in Hy as (u & Hu & Hc); [|exact Hp|exact G1]. exact (Hlift _ u Hu Hc). }
  destruct (is_digit c0 || (c0 =? 0x2D)).
  - ebind H y Hy; [destruct y as [[n j] st2]; discriminate H|].
    apply parse_number_fail in Hy as (u & w & Hu & Hn). apply (Hlift _ u Hu).
    exists w. eapply isval_jv. apply jv_num. rewrite cps_app, cps_text_items. exact Hn.
  - injection H as <- _. apply (Hlift _ []); [apply failed_nil|exact Hnull].
Qed.

(* ---------- the five recursive functions, by induction on fuel ---------- *)
Definition pvalue_fail (f : nat) : Prop :=
  forall ctx st q c, pvalue f flexible ctx st = Err (EUnexpected q c) -> good (rest st) ->
    exists u, failed st q u /\ compl isval u.
Definition parr_items_fail (f : nat) : Prop :=
  forall a i st q c, parr_items f flexible a i st = Err (EUnexpected q c) -> good (rest st) ->
    exists u, failed st q u /\ compl aclosed u.
Definition parr_cont_fail (f : nat) : Prop :=
  forall a i st q c, parr_cont f flexible a i st = Err (EUnexpected q c) -> good (rest st) ->
    exists u, failed st q u /\ compl isatail u.
Definition pobj_entry_fail (f : nat) : Prop :=
  forall es i k e st q c, pobj_entry f flexible es i k e st = Err (EUnexpected q c) -> good (rest st) ->
    exists u, failed st q u /\ compl oentry u.
Definition pobj_cont_fail (f : nat) : Prop :=
  forall es i st q c, pobj_cont f flexible es i st = Err (EUnexpected q c) -> good (rest st) ->
    exists u, failed st q u /\ compl ismtail u.

Lemma pvalue_fail_step f : parr_items_fail f -> pobj_entry_fail f -> pvalue_fail (S f).
Proof.
  intros IHai IHoe ctx st q c H G. cbn [pvalue] in H.
  ebind H x Hx; [|exact (parse_fragment_fail _ _ _ _ Hx G)].
  destruct x as [[fr j] st1]. apply parse_fragment_ok in Hx as (w & Hw & _ & Hpost); [|exact G].
  destruct fr as [v0| |k e]; cbn [frag_post] in Hpost.
  - discriminate H.
  - destruct Hpost as (lb & w2 & Hlb & Hw2 & R & _).
    destruct (IHai _ _ _ _ _ H (reads_good _ _ _ R G)) as (u & Hu & Hc).
    exists ((w ++ lb :: w2) ++ u). split; [exact (failed_reads _ _ _ _ _ R Hu)|].
    apply (compl_app aclosed isval); [|exact Hc]. intros x Hx.
    replace ((w ++ lb :: w2) ++ x) with (w ++ lb :: w2 ++ x) by la. apply isval_arr; assumption.
  - destruct Hpost as (lb & w2 & kt & w1 & colon & Hlb & Hw2 & Hk & Hw1 & Hcol & R & _ & _).
    destruct (IHoe _ _ _ _ _ _ _ H (reads_good _ _ _ R G)) as (u & Hu & Hc).
    exists ((w ++ (lb :: w2) ++ kt ++ w1 ++ [colon]) ++ u). split; [exact (failed_reads _ _ _ _ _ R Hu)|].
    apply (compl_app oentry isval); [|exact Hc]. intros x Hx.
    replace ((w ++ (lb :: w2) ++ kt ++ w1 ++ [colon]) ++ x) with (w ++ (lb :: w2) ++ kt ++ w1 ++ [colon] ++ x) by la.
    eapply isval_obj; eassumption.
Qed.

Lemma parr_items_fail_step f : pvalue_spec f -> pvalue_fail f -> parr_cont_fail f -> parr_items_fail (S f).
Proof.
  intros Sv IHv IHac a i st q c H G. cbn [parr_items] in H.
  ebind H x Hx.
  2:{ destruct (IHv _ _ _ _ Hx G) as (u & Hu & Hc). exists u. split; [exact Hu|].
      apply (compl_more isval aclosed [0x5D]); [|exact Hc]. intros x Hx'.
      apply (aclosed_val x (0x5D, utf8_len 0x5D)); [reflexivity|exact Hx']. }
  destruct x as [[v1 j] st1].
  destruct (Sv _ _ _ _ _ _ Hx G) as (w1 & t1 & m1 & Hw1 & Hv1 & R1 & _ & _).
  destruct (IHac _ _ _ _ _ H (reads_good _ _ _ R1 G)) as (u & Hu & Hc).
  exists ((w1 ++ t1) ++ u). split; [exact (failed_reads _ _ _ _ _ R1 Hu)|].
  apply (compl_app isatail aclosed); [|exact Hc]. intros x Hx'.
  rewrite <- app_assoc. eapply aclosed_tail; eassumption.
Qed.

Lemma parr_cont_fail_step f : parr_items_fail f -> parr_cont_fail (S f).
Proof.
  intros IHai a i st q c H G. cbn [parr_cont] in H.
  ebind H x Hx; [|exact (array_continue_fail _ _ _ _ Hx)].
  destruct x as [b st1]. apply array_continue_ok in Hx as (w & x & Hw & R1 & Hb).
  destruct b; [|discriminate H]. destruct Hb as [Hx _].
  destruct (IHai _ _ _ _ _ H (reads_good _ _ _ R1 G)) as (u & Hu & Hc).
  exists ((w ++ [x]) ++ u). split; [exact (failed_reads _ _ _ _ _ R1 Hu)|].
  apply (compl_app aclosed isatail); [|exact Hc]. intros y Hy.
  replace ((w ++ [x]) ++ y) with (w ++ x :: y) by la. apply isatail_cons; assumption.
Qed.

Lemma pobj_entry_fail_step f : pvalue_spec f -> pvalue_fail f -> pobj_cont_fail f -> pobj_entry_fail (S f).
Proof.
  intros Sv IHv IHoc es i k e st q c H G. cbn [pobj_entry] in H.
  ebind H x Hx.
  2:{ destruct (IHv _ _ _ _ Hx G) as (u & Hu & Hc). exists u. split; [exact Hu|].
      apply (compl_more isval oentry [0x7D]); [|exact Hc]. intros x Hx'.
      apply (oentry_val x (0x7D, utf8_len 0x7D)); [reflexivity|exact Hx']. }
  destruct x as [[v1 j] st1].
  destruct (Sv _ _ _ _ _ _ Hx G) as (w2 & vt & m1 & Hw2 & Hv1 & R1 & _ & _).
  ebind H y Hy; [|destruct (end_fragment_noerr _ _ _ _ Hy)]. destruct y as [u0 st2].
  apply end_fragment_ok in Hy as (E1 & E2 & _).
  assert (G2 : good (rest st2)) by (rewrite E1; exact (reads_good _ _ _ R1 G)).
  destruct (IHoc _ _ _ _ _ H G2) as (u & Hu & Hc).
  pose proof (failed_same st1 st2 q u E1 E2 Hu) as Hu1.
  exists ((w2 ++ vt) ++ u). split; [exact (failed_reads _ _ _ _ _ R1 Hu1)|].
  apply (compl_app ismtail oentry); [|exact Hc]. intros x Hx'.
  rewrite <- app_assoc. eapply oentry_tail; eassumption.
Qed.

Lemma pobj_cont_fail_step f : pobj_entry_fail f -> pobj_cont_fail (S f).
Proof.
  intros IHoe es i st q c H G. cbn [pobj_cont] in H.
  ebind H x Hx; [|exact (object_continue_fail _ _ _ _ Hx G)].
  destruct x as [next st1]. apply object_continue_ok in Hx as (post & x & Hpost & Hn); [|exact G].
  destruct next as [[k e]|]; [|discriminate H].
  destruct Hn as (Hx & pre & kt & w1 & colon & Hpre & Hk & Hw1 & Hcol & R1 & _ & _).
  destruct (IHoe _ _ _ _ _ _ _ H (reads_good _ _ _ R1 G)) as (u & Hu & Hc).
  exists (((post ++ x :: pre) ++ kt ++ w1 ++ [colon]) ++ u). split; [exact (failed_reads _ _ _ _ _ R1 Hu)|].
  apply (compl_app oentry ismtail); [|exact Hc]. intros y Hy.
  replace (((post ++ x :: pre) ++ kt ++ w1 ++ [colon]) ++ y)
    with (post ++ x :: pre ++ kt ++ w1 ++ [colon] ++ y) by la.
  eapply ismtail_cons; eassumption.
Qed.

Theorem rec_fails f :
  pvalue_fail f /\ parr_items_fail f /\ parr_cont_fail f /\ pobj_entry_fail f /\ pobj_cont_fail f.
Proof.
  induction f as [|f (IHv & IHai & IHac & IHoe & IHoc)].
  - repeat split; intro; intros; discriminate.
  - destruct (rec_specs f) as (Sv & _).
    split; [apply pvalue_fail_step; assumption|]. split; [apply parr_items_fail_step; assumption|].
    split; [apply parr_cont_fail_step; assumption|]. split; [apply pobj_entry_fail_step; assumption|].
    apply pobj_cont_fail_step; assumption.
Qed.

(* ---------- the top level ---------- *)
Theorem rec_unexpected_completable : forall s q c,
  ParserSoundLex.good s -> parse_items_rec flexible s = Err (EUnexpected q c) ->
  exists u r w v m, s = map inj u ++ r /\ q = blen u /\ jtext flexible (u ++ text_items w) v m.
Proof.
  intros s q c G H. unfold parse_items_rec in H.
  destruct (ptop (rec_fuel s) flexible {| rest := s; pos := 0; cm := [] |}) as [[[v0 i] st3]|e| |] eqn:P;
    try discriminate H.
  injection H as ->. unfold ptop in P.
  ebind P x Hx.
  2:{ (* the value itself failed *)
      destruct (rec_fails (rec_fuel s)) as (Fv & _).
      destruct (Fv _ _ _ _ Hx G) as (u & (r & Hr & Hq) & (w & w0 & t & v & m & Hw0 & E & Hv)).
      cbn [rest pos] in Hr, Hq.
      exists u, r, w, v, (shift (blen w0) m). split; [exact Hr|]. split; [lia|].
      exists w0, t, [], m. split; [rewrite E, app_nil_r; reflexivity|].
      split; [exact Hw0|]. split; [apply ws_nil|]. split; [exact Hv|reflexivity]. }
  (* a value was read; after white space there is one more character *)
  destruct x as [[v1 j] st1]. destruct (rec_specs (rec_fuel s)) as (Sv & _).
  destruct (Sv _ _ _ _ _ _ Hx G) as (w & t & m0 & Hw & Hjv & R1 & _ & _).
  ebind P y Hy; [|destruct (skip_whitespaces_noerr _ _ _ Hy)]. destruct y as [u0 st2].
  apply skip_whitespaces_ok in Hy as (w' & Hw' & R2 & _).
  ebind P z Hz; [|destruct (next_char_noerr _ _ _ Hz)]. destruct z as [[p oc] st3].
  pose proof (next_char_pos _ _ _ _ Hz) as Hp.
  destruct oc as [ch|]; [|discriminate P]. injection P as <- _.
  destruct (reads_trans _ _ _ _ _ R1 R2) as [Ra Rb]. cbn [rest pos] in Ra, Rb.
  exists ((w ++ t) ++ w'), (rest st2), [], v1, (shift (blen w) m0).
  split; [exact Ra|]. split; [subst p; lia|].
  rewrite text_items_nil, app_nil_r. exists w, t, w', m0.
  split; [la|]. split; [exact Hw|]. split; [exact Hw'|]. split; [exact Hjv|reflexivity].
Qed.

Print Assumptions rec_unexpected_completable.
