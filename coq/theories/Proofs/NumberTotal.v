(* Proofs/NumberTotal.v -- the ECMAScript digit search of Spec/EcmaNumber is total on valid
   binary64 values (T1):
     * find_n returns the true decimal decade of v = m * 2^e;
     * the two candidates of `cands` are the floor and the ceiling of v / 10^(n-k);
     * with k = 17 the candidate nearer to v rounds back to v, so `search` succeeds.
   Hence nks / ecma_to_string / canon_number never return None on finite doubles.
   The bridges between the integer computations and the reals proved here are reused by
   Proofs/NumberMinimal.v. *)
From Coq Require Import ZArith NArith List Bool SpecFloat Reals Lia Lra.
From Flocq Require Import Core BinarySingleNaN.
From JsonSyntax Require Import Base.Float64 Spec.EcmaNumber Proofs.Float64Proofs Proofs.NumberProofs.
Import ListNotations.
Local Open Scope Z_scope.

Local Instance fexp64_valid_T : Valid_exp fexp64.
Proof. unfold fexp64. apply FLT_exp_valid. reflexivity. Qed.

Local Instance prec64_gt_0_T : Prec_gt_0 53. Proof. reflexivity. Qed.
Local Instance prec64_lt_emax_T : Prec_lt_emax 53 1024. Proof. reflexivity. Qed.

(* ------------------------------------------------------------------ fractions of integers *)

Lemma frac_le : forall a b c d : R, (0 < b -> 0 < d -> (a * d <= c * b <-> a / b <= c / d))%R.
Proof.
  intros a b c d Hb Hd.
  assert (E1 : (a / b * (b * d) = a * d)%R) by (field; lra).
  assert (E2 : (c / d * (b * d) = c * b)%R) by (field; lra).
  assert (Hbd : (0 < b * d)%R) by now apply Rmult_lt_0_compat.
  split; intros H.
  - apply Rmult_le_reg_r with (1 := Hbd). now rewrite E1, E2.
  - rewrite <- E1, <- E2. apply Rmult_le_compat_r; [lra|exact H].
Qed.

Lemma frac_lt : forall a b c d : R, (0 < b -> 0 < d -> (a * d < c * b <-> a / b < c / d))%R.
Proof.
  intros a b c d Hb Hd.
  pose proof (frac_le c d a b Hd Hb) as H.
  split; intros H1.
  - apply Rnot_le_lt. intros H2. apply H in H2. lra.
  - apply Rnot_le_lt. intros H2. apply H in H2. lra.
Qed.

Lemma scale10_spec : forall x pn pd, scale10 x = (pn, pd) ->
  0 < pn /\ 0 < pd /\ (IZR pn / IZR pd = bpow radix10 x)%R.
Proof.
  intros x pn pd. unfold scale10. destruct (Z.leb_spec 0 x) as [H|H]; intros E; injection E as <- <-.
  - split; [apply Z.pow_pos_nonneg; lia|]. split; [lia|].
    rewrite IZR_pow10 by lia. field.
  - split; [lia|]. split; [apply Z.pow_pos_nonneg; lia|].
    rewrite IZR_pow10 by lia. rewrite bpow_opp. field.
    apply Rgt_not_eq, bpow_gt_0.
Qed.

Lemma scale2_spec : forall x sn sd, scale2 x = (sn, sd) ->
  0 < sn /\ 0 < sd /\ (IZR sn / IZR sd = bpow radix2 x)%R.
Proof.
  intros x pn pd. unfold scale2. destruct (Z.leb_spec 0 x) as [H|H]; intros E; injection E as <- <-.
  - split; [apply Z.pow_pos_nonneg; lia|]. split; [lia|].
    rewrite IZR_pow2 by lia. field.
  - split; [lia|]. split; [apply Z.pow_pos_nonneg; lia|].
    rewrite IZR_pow2 by lia. rewrite bpow_opp. field.
    apply Rgt_not_eq, bpow_gt_0.
Qed.

(* comparisons of  s * 10^x  with  num / den, as `find_n`, `cands`, `dist` perform them *)
Section Ratio.
Variables num den : Z.
Hypothesis Hden : 0 < den.
Let v : R := (IZR num / IZR den)%R.

Lemma dec_le_iff : forall s x pn pd, scale10 x = (pn, pd) ->
  (s * pn * den <= num * pd <-> (IZR s * bpow radix10 x <= v)%R).
Proof.
  intros s x pn pd E. destruct (scale10_spec x pn pd E) as [Hpn [Hpd Hr]].
  rewrite <- Hr. unfold v.
  replace (IZR s * (IZR pn / IZR pd))%R with (IZR (s * pn) / IZR pd)%R
    by (rewrite mult_IZR; field; apply Rgt_not_eq, IZR_lt; lia).
  rewrite <- frac_le by (apply IZR_lt; lia).
  rewrite <- !mult_IZR. split; [apply IZR_le|apply le_IZR].
Qed.

Lemma dec_lt_iff : forall s x pn pd, scale10 x = (pn, pd) ->
  (num * pd < s * pn * den <-> (v < IZR s * bpow radix10 x)%R).
Proof.
  intros s x pn pd E. pose proof (dec_le_iff s x pn pd E) as H.
  split; intros H1.
  - apply Rnot_le_lt. intros H2. apply H in H2. lia.
  - apply Z.nle_gt. intros H2. apply H in H2. lra.
Qed.

(* ---- find_n ---- *)
Lemma find_n_correct : forall fuel n N,
  (bpow radix10 (N - 1) <= v < bpow radix10 N)%R ->
  Z.abs (n - N) < Z.of_nat fuel ->
  find_n fuel num den n = N.
Proof.
  induction fuel as [|f IH]; intros n N HN Hf; [lia|].
  cbn [find_n].
  destruct (scale10 n) as [pn pd] eqn:Ep. destruct (scale10 (n - 1)) as [qn qd] eqn:Eq.
  pose proof (dec_le_iff 1 n pn pd Ep) as H1. rewrite Z.mul_1_l, Rmult_1_l in H1.
  pose proof (dec_lt_iff 1 (n - 1) qn qd Eq) as H2. rewrite Z.mul_1_l, Rmult_1_l in H2.
  rewrite Z.geb_leb.
  destruct (Z.leb_spec (pn * den) (num * pd)) as [C1|C1].
  - (* v >= 10^n : n < N *)
    apply H1 in C1.
    assert (n < N).
    { apply (lt_bpow radix10). apply Rle_lt_trans with (1 := C1). apply HN. }
    apply IH; [exact HN|lia].
  - assert (C1' : (v < bpow radix10 n)%R).
    { apply Rnot_le_lt. intros C. apply H1 in C. lia. }
    destruct (Z.ltb_spec (num * qd) (qn * den)) as [C2|C2].
    + (* v < 10^(n-1) : n > N *)
      apply H2 in C2.
      assert (N - 1 < n - 1).
      { apply (lt_bpow radix10). apply Rle_lt_trans with (2 := C2). apply HN. }
      apply IH; [exact HN|lia].
    + assert (C2' : (bpow radix10 (n - 1) <= v)%R).
      { apply Rnot_lt_le. intros C. apply H2 in C. lia. }
      (* same decade *)
      assert (N - 1 < n) by (apply (lt_bpow radix10); apply Rle_lt_trans with v; [apply HN|exact C1']).
      assert (n - 1 < N) by (apply (lt_bpow radix10); apply Rle_lt_trans with v; [exact C2'|apply HN]).
      lia.
Qed.

(* ---- cands: the floor and the ceiling ---- *)
Definition cand_val (k : Z) (c : Z * Z) : R := (IZR (fst c) * bpow radix10 (snd c - k))%R.

Lemma cands_spec : forall N k, 1 <= k ->
  (bpow radix10 (N - 1) <= v < bpow radix10 N)%R ->
  exists fl c1 c2,
    cands num den N k = [c1; c2] /\
    10 ^ (k - 1) <= fl < 10 ^ k /\
    (IZR fl * bpow radix10 (N - k) <= v < IZR (fl + 1) * bpow radix10 (N - k))%R /\
    c1 = (fl, N) /\
    10 ^ (k - 1) <= fst c2 < 10 ^ k /\
    cand_val k c2 = (IZR (fl + 1) * bpow radix10 (N - k))%R /\
    (c2 = (fl + 1, N) \/ (fl + 1 = 10 ^ k /\ c2 = (10 ^ (k - 1), N + 1))).
Proof.
  intros N k Hk HN. unfold cands. cbv zeta.
  destruct (scale10 (N - k)) as [pn pd] eqn:Ep.
  destruct (scale10_spec _ _ _ Ep) as [Hpn [Hpd _]].
  set (fl := num * pd / (den * pn)).
  assert (Hdp : 0 < den * pn) by lia.
  assert (Hlo : fl * pn * den <= num * pd).
  { pose proof (Z.mul_div_le (num * pd) (den * pn) Hdp). fold fl in H. lia. }
  assert (Hhi : num * pd < (fl + 1) * pn * den).
  { pose proof (Z.mul_succ_div_gt (num * pd) (den * pn) Hdp). fold fl in H. lia. }
  apply (dec_le_iff fl _ _ _ Ep) in Hlo. apply (dec_lt_iff (fl + 1) _ _ _ Ep) in Hhi.
  assert (Hp : (0 < bpow radix10 (N - k))%R) by apply bpow_gt_0.
  assert (Hk1 : (IZR (10 ^ (k - 1)) * bpow radix10 (N - k) = bpow radix10 (N - 1))%R).
  { rewrite IZR_pow10 by lia. rewrite <- bpow_plus. f_equal. lia. }
  assert (Hk0 : (IZR (10 ^ k) * bpow radix10 (N - k) = bpow radix10 N)%R).
  { rewrite IZR_pow10 by lia. rewrite <- bpow_plus. f_equal. lia. }
  assert (Hfl : 10 ^ (k - 1) <= fl < 10 ^ k).
  { split.
    - assert (10 ^ (k - 1) < fl + 1); [|lia].
      apply lt_IZR. apply Rmult_lt_reg_r with (1 := Hp). rewrite Hk1. lra.
    - apply lt_IZR. apply Rmult_lt_reg_r with (1 := Hp). rewrite Hk0. lra. }
  exists fl.
  destruct (Z.eqb_spec fl (10 ^ k)) as [C0|C0]; [lia|].
  exists (fl, N).
  destruct (Z.eqb_spec (fl + 1) (10 ^ k)) as [C|C].
  - exists (10 ^ (k - 1), N + 1). split; [reflexivity|]. split; [exact Hfl|].
    split; [split; assumption|]. split; [reflexivity|].
    cbn [fst snd]. split.
    { split; [lia|]. apply Z.pow_lt_mono_r; lia. }
    split; [|right; split; [exact C|reflexivity]].
    unfold cand_val. cbn [fst snd]. rewrite C, Hk0.
    rewrite IZR_pow10 by lia. rewrite <- bpow_plus. f_equal. lia.
  - exists (fl + 1, N). split; [reflexivity|]. split; [exact Hfl|].
    split; [split; assumption|]. split; [reflexivity|].
    cbn [fst snd]. split; [lia|]. split; [reflexivity|left; reflexivity].
Qed.

End Ratio.

(* ------------------------------------------------------------------ the rounding interval *)

Lemma bpow2_half : forall z, bpow radix2 (z - 1) = (bpow radix2 z / 2)%R.
Proof.
  intros z. replace (z - 1) with (z + (-1)) by lia. rewrite bpow_plus. reflexivity.
Qed.

(* Every real within relative distance 2^-54 of a positive binary64 value rounds to it:
   the neighbours are at least v * 2^-53 away on either side (the lower neighbour of a power
   of two is the tight case). *)
Lemma round64_near : forall v y,
  generic_format radix2 fexp64 v -> (0 < v)%R ->
  (Rabs (y - v) < v * bpow radix2 (-54))%R ->
  round64 y = v.
Proof.
  intros v y Fv Hv Hy.
  assert (Hnz : v <> 0%R) by lra.
  set (mu := mag radix2 v : Z).
  assert (Hmu : (bpow radix2 (mu - 1) <= v < bpow radix2 mu)%R).
  { pose proof (bpow_mag_le radix2 v Hnz). pose proof (bpow_mag_gt radix2 v).
    rewrite Rabs_pos_eq in * by lra. split; assumption. }
  assert (Hy' : (- (v * bpow radix2 (-54)) < y - v < v * bpow radix2 (-54))%R).
  { apply Rabs_lt_inv in Hy. lra. } clear Hy.
  assert (H54 : (v * bpow radix2 (-54) < bpow radix2 (mu - 54))%R).
  { replace (mu - 54) with (mu + -54) by lia. rewrite bpow_plus.
    apply Rmult_lt_compat_r; [apply bpow_gt_0|apply Hmu]. }
  assert (Hulp : ulp radix2 fexp64 v = bpow radix2 (fexp64 mu)).
  { rewrite ulp_neq_0 by exact Hnz. reflexivity. }
  assert (Hhalf : forall z, mu - 54 <= z - 1 -> (bpow radix2 (mu - 54) <= bpow radix2 z / 2)%R).
  { intros z Hz. rewrite <- bpow2_half. now apply bpow_le. }
  unfold round64. apply Rle_antisym.
  - apply round_N_le_midp; [typeclasses eauto|exact Fv|].
    rewrite succ_eq_pos by lra. rewrite Hulp.
    assert (mu - 54 <= fexp64 mu - 1) by (unfold fexp64, FLT_exp; lia).
    pose proof (Hhalf _ H). lra.
  - apply round_N_ge_midp; [typeclasses eauto|exact Fv|].
    rewrite pred_eq_pos by lra. unfold pred_pos. fold mu.
    destruct (Req_bool_spec v (bpow radix2 (mu - 1))) as [Hb|Hb].
    + (* v is a power of two: the gap below is the smaller one *)
      assert (H55 : (v * bpow radix2 (-54) = bpow radix2 (mu - 55))%R).
      { rewrite Hb, <- bpow_plus. f_equal. lia. }
      assert (mu - 55 <= fexp64 (mu - 1) - 1) by (unfold fexp64, FLT_exp; lia).
      assert ((bpow radix2 (mu - 55) <= bpow radix2 (fexp64 (mu - 1)) / 2)%R).
      { rewrite <- bpow2_half. now apply bpow_le. }
      lra.
    + rewrite Hulp.
      assert (mu - 54 <= fexp64 mu - 1) by (unfold fexp64, FLT_exp; lia).
      pose proof (Hhalf _ H). lra.
Qed.

(* 17 significant digits: relative spacing 10^-16 is finer than 2^-53 *)
Lemma ten16_gt_two53 : (bpow radix10 (-16) / 2 < bpow radix2 (-54))%R.
Proof.
  change (-16) with (- (16)). change (-54) with (- (54)). rewrite !bpow_opp.
  rewrite <- IZR_pow10, <- IZR_pow2 by lia.
  assert (H : (2 * IZR (2 ^ 54) < 2 * IZR (10 ^ 16) * 2)%R).
  { rewrite <- !mult_IZR. apply IZR_lt. vm_compute. reflexivity. }
  assert (H2 : (0 < IZR (2 ^ 54))%R) by (apply IZR_lt; vm_compute; reflexivity).
  assert (H10 : (0 < IZR (10 ^ 16))%R) by (apply IZR_lt; vm_compute; reflexivity).
  apply Rmult_lt_reg_r with (IZR (2 ^ 54) * IZR (10 ^ 16))%R.
  - now apply Rmult_lt_0_compat.
  - replace (/ IZR (10 ^ 16) / 2 * (IZR (2 ^ 54) * IZR (10 ^ 16)))%R with (IZR (2 ^ 54) / 2)%R by (field; lra).
    replace (/ IZR (2 ^ 54) * (IZR (2 ^ 54) * IZR (10 ^ 16)))%R with (IZR (10 ^ 16)) by (field; lra).
    lra.
Qed.

(* ------------------------------------------------------------------ a valid binary64 *)

Lemma valid_bounds : forall s m e, valid_binary 53 1024 (S754_finite s m e) = true ->
  Zpos m < 2 ^ 53 /\ -1074 <= e <= 971.
Proof.
  intros s m e H. cbn [valid_binary] in H. unfold bounded in H.
  apply andb_true_iff in H. destruct H as [H1 H2].
  apply Zle_bool_imp_le in H2.
  unfold canonical_mantissa in H1. apply Zeq_bool_eq in H1.
  unfold SpecFloat.fexp, emin in H1.
  rewrite Zpos_digits2_pos in H1.
  assert (Hd : Zdigits radix2 (Zpos m) <= 53) by lia.
  apply Zpower_gt_Zdigits in Hd. cbn [Z.abs] in Hd.
  split; [exact Hd|lia].
Qed.

Lemma pow10_324_ge_pow2_1074 : (bpow radix10 (-324) <= bpow radix2 (-1074))%R.
Proof.
  change (-324) with (- (324)). change (-1074) with (- (1074)). rewrite 2!bpow_opp.
  apply Rinv_le. apply bpow_gt_0.
  rewrite <- IZR_pow2, <- IZR_pow10 by lia.
  apply IZR_le. apply Z.leb_le. vm_compute. reflexivity.
Qed.

Section Double.
Variable m : positive.
Variable e : Z.
Hypothesis Hvalid : valid_binary 53 1024 (S754_finite false m e) = true.

Definition dbl_R : R := (IZR (Zpos m) * bpow radix2 e)%R.
Let d : spec_float := S754_finite false m e.
Let v : R := dbl_R.

Lemma dbl_R_SF2R : SF2R radix2 d = v.
Proof. reflexivity. Qed.

Lemma dbl_format : generic_format radix2 fexp64 v.
Proof.
  pose proof (generic_format_B2R 53 1024 (SF2B d Hvalid)) as H.
  rewrite B2R_SF2B in H. exact H.
Qed.

Lemma dbl_bounds : (bpow radix2 (-1074) <= v < bpow radix2 1024)%R.
Proof.
  destruct (valid_bounds _ _ _ Hvalid) as [Hm He]. unfold v, dbl_R. split.
  - apply Rle_trans with (1 * bpow radix2 e)%R.
    + rewrite Rmult_1_l. apply bpow_le. lia.
    + apply Rmult_le_compat_r; [apply bpow_ge_0|]. apply IZR_le. lia.
  - apply Rlt_le_trans with (bpow radix2 53 * bpow radix2 e)%R.
    + apply Rmult_lt_compat_r; [apply bpow_gt_0|].
      rewrite <- IZR_pow2 by lia. now apply IZR_lt.
    + rewrite <- bpow_plus. apply bpow_le. lia.
Qed.

Lemma dbl_pos : (0 < v)%R.
Proof. apply Rlt_le_trans with (2 := proj1 dbl_bounds). apply bpow_gt_0. Qed.

Lemma nks_num_pos : 0 < nks_num m e.
Proof.
  unfold nks_num. destruct (scale2 e) as [sn sd] eqn:E.
  destruct (scale2_spec _ _ _ E) as [H1 _]. cbn [fst]. lia.
Qed.

Lemma nks_den_pos : 0 < nks_den e.
Proof.
  unfold nks_den. destruct (scale2 e) as [sn sd] eqn:E.
  destruct (scale2_spec _ _ _ E) as [_ [H1 _]]. exact H1.
Qed.

Lemma nks_ratio : (IZR (nks_num m e) / IZR (nks_den e))%R = v.
Proof.
  unfold nks_num, nks_den, v, dbl_R. destruct (scale2 e) as [sn sd] eqn:E.
  destruct (scale2_spec _ _ _ E) as [H1 [H2 H3]]. cbn [fst snd].
  rewrite <- H3, mult_IZR. field. apply Rgt_not_eq, IZR_lt. exact H2.
Qed.

(* the decimal decade of v *)
Definition dbl_decade : Z := mag radix10 dbl_R.
Let N : Z := dbl_decade.

Lemma dbl_decade_spec : (bpow radix10 (N - 1) <= v < bpow radix10 N)%R.
Proof.
  pose proof dbl_pos as Hp.
  assert (Hnz : v <> 0%R) by lra.
  pose proof (bpow_mag_le radix10 v Hnz). pose proof (bpow_mag_gt radix10 v).
  rewrite Rabs_pos_eq in * by lra. split; assumption.
Qed.

Lemma dbl_decade_bounds : -323 <= N <= 309.
Proof.
  pose proof dbl_decade_spec as [H1 H2]. pose proof dbl_bounds as [H3 H4]. split.
  - assert (-324 < N); [|lia]. apply (lt_bpow radix10).
    apply Rle_lt_trans with (1 := pow10_324_ge_pow2_1074). lra.
  - assert (N - 1 < 309); [|lia]. apply (lt_bpow radix10).
    apply Rle_lt_trans with (1 := H1). apply Rlt_le_trans with (1 := H4).
    exact bpow2_1024_le_bpow10_309.
Qed.

Lemma nks_n0_estimate_bounds :
  -330 <= (Z.log2 (nks_num m e) - Z.log2 (nks_den e)) * 30103 / 100000 + 1 <= 330.
Proof.
  destruct (valid_bounds _ _ _ Hvalid) as [Hm He].
  assert (HL : -1074 <= Z.log2 (nks_num m e) - Z.log2 (nks_den e) <= 1023).
  { unfold nks_num, nks_den, scale2. destruct (Z.leb_spec 0 e) as [H|H]; cbn [fst snd].
    - change (Z.log2 1) with 0.
      assert (Z.pos m * 2 ^ e < 2 ^ 1024).
      { apply Z.lt_le_trans with (2 ^ 53 * 2 ^ e).
        - apply Z.mul_lt_mono_pos_r; [apply Z.pow_pos_nonneg; lia|exact Hm].
        - rewrite <- Z.pow_add_r by lia. apply Z.pow_le_mono_r; lia. }
      assert (0 < Z.pos m * 2 ^ e) by (apply Z.mul_pos_pos; [lia|apply Z.pow_pos_nonneg; lia]).
      pose proof (Z.log2_nonneg (Z.pos m * 2 ^ e)).
      assert (Z.log2 (Z.pos m * 2 ^ e) < 1024) by (apply Z.log2_lt_pow2; assumption).
      lia.
    - rewrite Z.mul_1_r, Z.log2_pow2 by lia.
      pose proof (Z.log2_nonneg (Z.pos m)).
      assert (Z.log2 (Z.pos m) < 53) by (apply Z.log2_lt_pow2; [lia|exact Hm]).
      lia. }
  set (L := Z.log2 (nks_num m e) - Z.log2 (nks_den e)) in *.
  pose proof (Z.div_mod (L * 30103) 100000 ltac:(lia)).
  pose proof (Z.mod_pos_bound (L * 30103) 100000 ltac:(lia)).
  lia.
Qed.

(* (i) find_n finds the decade *)
Theorem nks_n0_correct : nks_n0 m e = N.
Proof.
  unfold nks_n0.
  apply (find_n_correct _ _ nks_den_pos).
  - rewrite nks_ratio. exact dbl_decade_spec.
  - pose proof nks_n0_estimate_bounds. pose proof dbl_decade_bounds. lia.
Qed.

(* a decimal s * 10^x rounds to the double iff nearest_double_pos says so *)
Lemma nd_spec_dbl : forall x, round64 x = v -> nd_spec x d.
Proof.
  intros x Hx. unfold nd_spec. rewrite Hx.
  pose proof dbl_bounds as [_ H]. pose proof dbl_pos as Hp.
  rewrite Rlt_bool_true by (rewrite Rabs_pos_eq; lra).
  repeat split; try reflexivity. exact Hvalid.
Qed.

Lemma rounds_to_dbl_iff : forall s x, 0 < s ->
  (nearest_double_pos (Z.to_pos s) x = d <-> round64 (IZR s * bpow radix10 x) = v).
Proof.
  intros s x Hs.
  assert (E : dec_R (Z.to_pos s) x = (IZR s * bpow radix10 x)%R).
  { unfold dec_R. rewrite Z2Pos.id by exact Hs. reflexivity. }
  pose proof (nearest_double_pos_correct (Z.to_pos s) x) as H. rewrite E in H.
  split; intros H1.
  - rewrite H1 in H. unfold nd_spec in H.
    destruct (Rlt_bool _ _); [|discriminate H]. symmetry. apply H.
  - apply nd_spec_unique with (1 := H). now apply nd_spec_dbl.
Qed.

Lemma cand_ok_iff : forall k c, 0 < fst c ->
  (cand_ok d k c = true <->
   10 ^ (k - 1) <= fst c < 10 ^ k /\ round64 (cand_val k c) = v).
Proof.
  intros k [s n'] Hs. cbn [fst] in Hs. unfold cand_ok, cand_val. cbn [fst snd].
  rewrite !andb_true_iff, Z.leb_le, Z.ltb_lt.
  rewrite <- (rounds_to_dbl_iff s (n' - k) Hs). split.
  - intros [[H1 H2] H3]. split; [lia|]. now apply sf_eqb_eq.
  - intros [[H1 H2] H3]. split; [split; assumption|].
    apply sf_eqb_true_iff. split; [exact H3|]. rewrite H3. discriminate.
Qed.

(* (ii) with 17 digits the nearer of floor and ceiling rounds back *)
Lemma seventeen_digits : exists c, In c (cands (nks_num m e) (nks_den e) N 17) /\ cand_ok d 17 c = true.
Proof.
  pose proof dbl_decade_spec as HN. pose proof dbl_pos as Hp.
  destruct (cands_spec (nks_num m e) (nks_den e) nks_den_pos N 17 ltac:(lia)) as
    [fl [c1 [c2 [Ec [Hfl [Hv [E1 [Hc2 [Hv2 _]]]]]]]]].
  { rewrite nks_ratio. exact HN. }
  rewrite nks_ratio in Hv. rewrite Ec.
  set (u := bpow radix10 (N - 17)) in *.
  assert (Hu : (u <= v * bpow radix10 (-16))%R).
  { unfold u. replace (N - 17) with ((N - 1) + -16) by lia. rewrite bpow_plus.
    apply Rmult_le_compat_r; [apply bpow_ge_0|apply HN]. }
  assert (Hb : (u / 2 < v * bpow radix2 (-54))%R).
  { apply Rle_lt_trans with (v * (bpow radix10 (-16) / 2))%R; [lra|].
    apply Rmult_lt_compat_l; [exact Hp|exact ten16_gt_two53]. }
  assert (Hab : (IZR (fl + 1) * u - IZR fl * u = u)%R) by (rewrite plus_IZR; ring).
  assert (Hpos17 : 0 < 10 ^ (17 - 1)) by (apply Z.pow_pos_nonneg; lia).
  destruct (Rle_or_lt (v - IZR fl * u) (u / 2)) as [Hc|Hc].
  - exists c1. split; [left; reflexivity|]. subst c1.
    apply cand_ok_iff; cbn [fst]; [lia|]. split; [exact Hfl|].
    unfold cand_val; cbn [fst snd]. fold u.
    apply round64_near; [exact dbl_format|exact Hp|].
    rewrite Rabs_left1 by lra. lra.
  - exists c2. split; [right; left; reflexivity|].
    apply cand_ok_iff; [lia|]. split; [exact Hc2|]. rewrite Hv2.
    apply round64_near; [exact dbl_format|exact Hp|].
    rewrite Rabs_pos_eq by lra. lra.
Qed.

End Double.

Lemma search_none : forall fuel d num den n k, search fuel d num den n k = None ->
  forall k', k <= k' < k + Z.of_nat fuel -> best d num den k' (cands num den n k') = None.
Proof.
  induction fuel as [|f IH]; intros d num den n k H k' Hk'; [lia|].
  cbn [search] in H.
  destruct (best d num den k (cands num den n k)) as [[s0 n0]|] eqn:B; [discriminate|].
  destruct (Z.eq_dec k' k) as [->|Hne]; [exact B|].
  apply (IH _ _ _ _ _ H). lia.
Qed.

(* ------------------------------------------------------------------ T1 *)

Theorem nks_total : forall m e, valid_binary 53 1024 (S754_finite false m e) = true ->
  nks m e <> None.
Proof.
  intros m e Hvalid H. rewrite nks_unfold in H.
  pose proof (search_none _ _ _ _ _ _ H 17 ltac:(lia)) as B.
  rewrite (nks_n0_correct m e Hvalid) in B.
  destruct (seventeen_digits m e Hvalid) as [c [Hin Hok]].
  rewrite best_none_iff in B. rewrite (B c Hin) in Hok. discriminate.
Qed.

Corollary nks_total_ex : forall m e, valid_binary 53 1024 (S754_finite false m e) = true ->
  exists n k s, nks m e = Some (n, k, s).
Proof.
  intros m e H. pose proof (nks_total m e H).
  destruct (nks m e) as [[[n k] s]|]; [eauto|congruence].
Qed.

Theorem ecma_to_string_total : forall x,
  valid_binary 53 1024 x = true -> is_finite_SF x = true -> ecma_to_string x <> None.
Proof.
  intros [s|s| |s m e] Hv Hf; try discriminate.
  cbn [ecma_to_string].
  destruct (nks_total_ex m e Hv) as [n [k [s' E]]]. rewrite E. discriminate.
Qed.

Lemma nearest_double_valid : forall d, valid_binary 53 1024 (nearest_double d) = true.
Proof.
  intros d. unfold nearest_double. destruct (d_mant d) as [|p|p]; try reflexivity.
  pose proof (nearest_double_pos_shape p (d_exp d)) as H.
  destruct (nearest_double_pos p (d_exp d)) as [s|s| |s m e]; try (destruct (d_neg d); reflexivity).
  destruct H as [_ H]. destruct (d_neg d); exact H.
Qed.

Theorem canon_number_total : forall n d, read_decimal n = Some d ->
  is_finite_SF (nearest_double d) = true -> exists t, canon_number n = Some t.
Proof.
  intros n d Hr Hf. unfold canon_number. rewrite Hr.
  pose proof (ecma_to_string_total _ (nearest_double_valid d) Hf).
  destruct (ecma_to_string (nearest_double d)) as [t|]; [eauto|congruence].
Qed.

(* conversely a rendering exists only for finite doubles *)
Theorem canon_number_some_iff : forall n d, read_decimal n = Some d ->
  ((exists t, canon_number n = Some t) <-> is_finite_SF (nearest_double d) = true).
Proof.
  intros n d Hr. split; [|now apply canon_number_total].
  intros [t H]. unfold canon_number in H. rewrite Hr in H.
  destruct (nearest_double d); try discriminate; reflexivity.
Qed.

Print Assumptions find_n_correct.
Print Assumptions cands_spec.
Print Assumptions round64_near.
Print Assumptions nks_n0_correct.
Print Assumptions nks_total.
Print Assumptions ecma_to_string_total.
Print Assumptions canon_number_total.
Print Assumptions canon_number_some_iff.
