(* Proofs/Utf8Order.v -- generic laws of the lexicographic comparison [lex_cmp]
   (and of the key-then-value comparison of pairs), and the two facts about UTF-8
   that the comparison/hash proofs need: byte order of encodings is code point
   order, and the encoding of strings is injective.
   The UTF-8 facts are proved for ALL code points (the model encoder is
   order-preserving and prefix-free on the whole of N); the versions restricted to
   scalar values, as used elsewhere, are corollaries. *)
From JsonSyntax Require Import Base.Prelude Base.Value Base.Unicode Model.Compare.
From Coq Require Import ZifyBool ZifyN.

(* ------------------------------------------------------------------------- *)
(* Pointwise laws of a comparison function                                    *)
(* ------------------------------------------------------------------------- *)

(* What [cmp p r] must be, given [x = cmp p q] and [y = cmp q r]. *)
Definition comp_compose (x y z : comparison) : Prop :=
  match x, y with
  | Eq, _ => z = y
  | _, Eq => z = x
  | Lt, Lt => z = Lt
  | Gt, Gt => z = Gt
  | _, _ => True
  end.

Section Laws.
  Context {A : Type} (cmp : A -> A -> comparison).

  Definition refl_at (p : A) : Prop := cmp p p = Eq.
  Definition antisym_at (p : A) : Prop := forall q, cmp q p = CompOpp (cmp p q).
  Definition trans_at (p : A) : Prop :=
    forall q r, comp_compose (cmp p q) (cmp q r) (cmp p r).
  Definition eq_at (p : A) : Prop := forall q, cmp p q = Eq <-> p = q.

  Lemma trans_at_same p : trans_at p ->
    forall q r x, cmp p q = x -> cmp q r = x -> cmp p r = x.
  Proof.
    intros H q r x H1 H2. specialize (H q r). rewrite H1, H2 in H.
    destruct x; exact H.
  Qed.

  Lemma trans_at_eq_l p : trans_at p ->
    forall q r, cmp p q = Eq -> cmp p r = cmp q r.
  Proof. intros H q r H1. specialize (H q r). rewrite H1 in H. exact H. Qed.

  Lemma trans_at_eq_r p : trans_at p ->
    forall q r, cmp q r = Eq -> cmp p r = cmp p q.
  Proof.
    intros H q r H2. specialize (H q r). rewrite H2 in H.
    destruct (cmp p q); exact H.
  Qed.

  (* le-transitivity: "not greater" composes *)
  Lemma trans_at_le p : trans_at p ->
    forall q r, cmp p q <> Gt -> cmp q r <> Gt -> cmp p r <> Gt.
  Proof.
    intros H q r H1 H2. specialize (H q r).
    destruct (cmp p q), (cmp q r); cbn in H; try congruence.
  Qed.

  Lemma trans_at_lt_le p : trans_at p ->
    forall q r, cmp p q = Lt -> cmp q r <> Gt -> cmp p r = Lt.
  Proof.
    intros H q r H1 H2. specialize (H q r). rewrite H1 in H.
    destruct (cmp q r); cbn in H; congruence.
  Qed.

  Lemma trans_at_le_lt p : trans_at p ->
    forall q r, cmp p q <> Gt -> cmp q r = Lt -> cmp p r = Lt.
  Proof.
    intros H q r H1 H2. specialize (H q r). rewrite H2 in H.
    destruct (cmp p q); cbn in H; congruence.
  Qed.
End Laws.

(* ------------------------------------------------------------------------- *)
(* lex_cmp inherits the laws, elementwise on its first argument               *)
(* ------------------------------------------------------------------------- *)
Section Lex.
  Context {A : Type} (cmp : A -> A -> comparison).

  Lemma lex_cmp_refl_at a : Forall (refl_at cmp) a -> refl_at (lex_cmp cmp) a.
  Proof.
    unfold refl_at. induction 1 as [|p a Hp _ IH]; cbn; [reflexivity|].
    rewrite Hp. exact IH.
  Qed.

  Lemma lex_cmp_antisym_at a : Forall (antisym_at cmp) a -> antisym_at (lex_cmp cmp) a.
  Proof.
    unfold antisym_at. induction 1 as [|p a Hp _ IH]; intros [|q b]; cbn; try reflexivity.
    rewrite Hp. destruct (cmp p q); cbn; auto.
  Qed.

  Lemma lex_cmp_trans_at a : Forall (trans_at cmp) a -> trans_at (lex_cmp cmp) a.
  Proof.
    unfold trans_at. induction 1 as [|p a Hp _ IH]; intros [|q b] [|r c]; cbn;
      try reflexivity; try exact I.
    - destruct (cmp q r); cbn; auto. destruct (lex_cmp cmp b c); cbn; auto.
    - destruct (cmp p q); cbn; auto. destruct (lex_cmp cmp a b); cbn; auto.
    - specialize (Hp q r). specialize (IH b c).
      destruct (cmp p q), (cmp q r); cbn in Hp |- *; try rewrite Hp; cbn;
        try exact IH; try reflexivity; try exact I.
      + destruct (lex_cmp cmp a b); cbn; auto.
      + destruct (lex_cmp cmp a b); cbn; auto.
      + destruct (lex_cmp cmp b c); cbn; auto.
      + destruct (lex_cmp cmp b c); cbn; auto.
  Qed.

  Lemma lex_cmp_eq_at a : Forall (eq_at cmp) a -> eq_at (lex_cmp cmp) a.
  Proof.
    unfold eq_at. induction 1 as [|p a Hp _ IH]; intros [|q b]; cbn;
      try (split; congruence).
    specialize (Hp q). specialize (IH b). destruct (cmp p q).
    - destruct Hp as [Hp _]. rewrite (Hp eq_refl). rewrite IH. split; congruence.
    - split; [discriminate|]. intros E. inversion E as [[E1 E2]].
      apply Hp in E1. discriminate.
    - split; [discriminate|]. intros E. inversion E as [[E1 E2]].
      apply Hp in E1. discriminate.
  Qed.

  (* the versions for a comparison that satisfies a law everywhere *)
  Lemma Forall_all (P : A -> Prop) (H : forall x, P x) l : Forall P l.
  Proof. induction l; constructor; auto. Qed.

  Lemma lex_cmp_refl : (forall x, cmp x x = Eq) -> forall a, lex_cmp cmp a a = Eq.
  Proof. intros H a. apply lex_cmp_refl_at, Forall_all, H. Qed.

  Lemma lex_cmp_antisym : (forall x y, cmp y x = CompOpp (cmp x y)) ->
    forall a b, lex_cmp cmp b a = CompOpp (lex_cmp cmp a b).
  Proof. intros H a. apply lex_cmp_antisym_at, Forall_all. intros x y. apply H. Qed.

  Lemma lex_cmp_trans : (forall x, trans_at cmp x) -> forall a, trans_at (lex_cmp cmp) a.
  Proof. intros H a. apply lex_cmp_trans_at, Forall_all, H. Qed.

  Lemma lex_cmp_eq_iff : (forall x y, cmp x y = Eq <-> x = y) ->
    forall a b, lex_cmp cmp a b = Eq <-> a = b.
  Proof. intros H a. apply lex_cmp_eq_at, Forall_all. intros x y. apply H. Qed.

  (* common prefix *)
  Lemma lex_cmp_app_same p : Forall (refl_at cmp) p ->
    forall a b, lex_cmp cmp (p ++ a) (p ++ b) = lex_cmp cmp a b.
  Proof.
    induction 1 as [|x p Hx _ IH]; intros a b; cbn; [reflexivity|].
    rewrite Hx. apply IH.
  Qed.
End Lex.

(* ------------------------------------------------------------------------- *)
(* key-then-value comparison of pairs                                         *)
(* ------------------------------------------------------------------------- *)
Section Pair.
  Context {A B : Type} (ca : A -> A -> comparison) (cb : B -> B -> comparison).

  Definition pair_cmp (a b : A * B) : comparison :=
    match ca (fst a) (fst b) with
    | Eq => cb (snd a) (snd b)
    | c => c
    end.

  Lemma pair_cmp_refl_at e : refl_at ca (fst e) -> refl_at cb (snd e) -> refl_at pair_cmp e.
  Proof. unfold refl_at, pair_cmp. intros -> ->. reflexivity. Qed.

  Lemma pair_cmp_antisym_at e :
    antisym_at ca (fst e) -> antisym_at cb (snd e) -> antisym_at pair_cmp e.
  Proof.
    unfold antisym_at, pair_cmp. intros Ha Hb q. rewrite Ha, Hb.
    destruct (ca (fst e) (fst q)); reflexivity.
  Qed.

  Lemma pair_cmp_trans_at e :
    trans_at ca (fst e) -> trans_at cb (snd e) -> trans_at pair_cmp e.
  Proof.
    unfold trans_at, pair_cmp. intros Ha Hb q r.
    specialize (Ha (fst q) (fst r)). specialize (Hb (snd q) (snd r)).
    destruct (ca (fst e) (fst q)), (ca (fst q) (fst r)); cbn in Ha |- *;
      try rewrite Ha; cbn; try exact Hb; try reflexivity; try exact I.
    - destruct (cb (snd e) (snd q)); cbn; auto.
    - destruct (cb (snd e) (snd q)); cbn; auto.
    - destruct (cb (snd q) (snd r)); cbn; auto.
    - destruct (cb (snd q) (snd r)); cbn; auto.
  Qed.

  Lemma pair_cmp_eq_at e : eq_at ca (fst e) -> eq_at cb (snd e) -> eq_at pair_cmp e.
  Proof.
    unfold eq_at, pair_cmp. intros Ha Hb [k v]. destruct e as [k0 v0]. cbn in *.
    specialize (Ha k). specialize (Hb v). destruct (ca k0 k).
    - destruct Ha as [Ha _]. rewrite (Ha eq_refl), Hb. split; congruence.
    - split; [discriminate|]. intros E. inversion E as [[E1 E2]]. apply Ha in E1. discriminate.
    - split; [discriminate|]. intros E. inversion E as [[E1 E2]]. apply Ha in E1. discriminate.
  Qed.
End Pair.

(* ------------------------------------------------------------------------- *)
(* N.compare and bytes_cmp                                                    *)
(* ------------------------------------------------------------------------- *)
Lemma Ncompare_refl_at x : refl_at N.compare x.
Proof. apply N.compare_refl. Qed.

Lemma Ncompare_antisym_at x : antisym_at N.compare x.
Proof. intros y. apply N.compare_antisym. Qed.

Lemma Ncompare_trans_at x : trans_at N.compare x.
Proof.
  intros y z. unfold comp_compose.
  destruct (N.compare_spec x y), (N.compare_spec y z); subst;
    try reflexivity; try exact I;
    try (apply N.compare_lt_iff; lia); try (apply N.compare_gt_iff; lia).
  apply N.compare_refl.
Qed.

Lemma Ncompare_eq_at x : eq_at N.compare x.
Proof. intros y. apply N.compare_eq_iff. Qed.

Lemma bytes_cmp_refl a : bytes_cmp a a = Eq.
Proof. apply lex_cmp_refl, N.compare_refl. Qed.

Lemma bytes_cmp_antisym a b : bytes_cmp b a = CompOpp (bytes_cmp a b).
Proof. apply lex_cmp_antisym. intros x y. apply N.compare_antisym. Qed.

Lemma bytes_cmp_trans_at a : trans_at bytes_cmp a.
Proof. apply lex_cmp_trans, Ncompare_trans_at. Qed.

Lemma bytes_cmp_eq_iff a b : bytes_cmp a b = Eq <-> a = b.
Proof. apply lex_cmp_eq_iff. intros x y. apply N.compare_eq_iff. Qed.

(* ------------------------------------------------------------------------- *)
(* UTF-8: byte order = code point order                                       *)
(* ------------------------------------------------------------------------- *)
Definition scalar (c : N) : Prop := is_scalar c = true.

Lemma div_facts c : c / 4096 = c / 64 / 64 /\ c / 262144 = c / 64 / 64 / 64.
Proof. rewrite !N.div_div by lia. split; reflexivity. Qed.

Lemma utf8_encode_nonempty c : exists x r, utf8_encode c = x :: r.
Proof.
  unfold utf8_encode.
  destruct (c <? 0x80); [eauto|]. destruct (c <? 0x800); [eauto|].
  destruct (c <? 0x10000); eauto.
Qed.

Section Utf8Arith.
  Local Ltac Zify.zify_post_hook ::= Z.div_mod_to_equations.

  (* The core fact: the encoding of a smaller code point is bytewise smaller, and
     the decision falls inside the encodings (prefix-freeness), whatever follows. *)
  Lemma utf8_encode_lt c d r1 r2 :
    c < d -> bytes_cmp (utf8_encode c ++ r1) (utf8_encode d ++ r2) = Lt.
  Proof.
    intros Hlt. unfold bytes_cmp, utf8_encode.
    destruct (div_facts c) as [-> ->]. destruct (div_facts d) as [-> ->].
    destruct (c <? 0x80) eqn:Hc1; [|destruct (c <? 0x800) eqn:Hc2; [|destruct (c <? 0x10000) eqn:Hc3]];
    (destruct (d <? 0x80) eqn:Hd1; [|destruct (d <? 0x800) eqn:Hd2; [|destruct (d <? 0x10000) eqn:Hd3]]);
    try (exfalso; lia);
    repeat (cbn [lex_cmp app];
            match goal with
            | |- context [N.compare ?x ?y] =>
                destruct (N.compare_spec x y); [ | reflexivity | exfalso; lia ]
            end);
    exfalso; lia.
  Qed.

  (* A scalar value never encodes to something starting with 0xFF: the byte that
     <str as Hash>::hash writes after the string data cannot be confused with data. *)
  Lemma utf8_encode_head_not_ff c R R' :
    is_scalar c = true -> utf8_encode c ++ R <> 0xFF :: R'.
  Proof.
    unfold is_scalar, utf8_encode. intros Hs E.
    destruct (div_facts c) as [E1 E2]. rewrite E1, E2 in E.
    destruct (c <? 0x80) eqn:Hc1; [|destruct (c <? 0x800) eqn:Hc2; [|destruct (c <? 0x10000) eqn:Hc3]];
      cbn [app] in E; injection E as E3 _; lia.
  Qed.
End Utf8Arith.

Lemma utf8_encode_gt c d r1 r2 :
  d < c -> bytes_cmp (utf8_encode c ++ r1) (utf8_encode d ++ r2) = Gt.
Proof.
  intros H. rewrite bytes_cmp_antisym, (utf8_encode_lt d c) by exact H. reflexivity.
Qed.

(* Stronger than asked: no scalar hypothesis is needed. *)
Lemma utf8_order_strong : forall a b, str_cmp a b = lex_cmp N.compare a b.
Proof.
  unfold str_cmp, utf8_encode_all.
  induction a as [|c a IH]; intros [|d b]; cbn [flat_map lex_cmp].
  - reflexivity.
  - destruct (utf8_encode_nonempty d) as (x & r & ->). reflexivity.
  - destruct (utf8_encode_nonempty c) as (x & r & ->). reflexivity.
  - destruct (N.compare_spec c d) as [->|H|H].
    + unfold bytes_cmp. rewrite lex_cmp_app_same; [apply IH|].
      apply Forall_all. exact Ncompare_refl_at.
    + apply utf8_encode_lt, H.
    + apply utf8_encode_gt, H.
Qed.

Lemma utf8_order : forall a b,
  Forall (fun c => is_scalar c = true) a -> Forall (fun c => is_scalar c = true) b ->
  str_cmp a b = lex_cmp N.compare a b.
Proof. intros a b _ _. apply utf8_order_strong. Qed.

Lemma utf8_encode_all_inj_strong : forall a b,
  utf8_encode_all a = utf8_encode_all b -> a = b.
Proof.
  intros a b H. apply (lex_cmp_eq_iff N.compare N.compare_eq_iff).
  rewrite <- utf8_order_strong. unfold str_cmp. rewrite H. apply bytes_cmp_refl.
Qed.

Lemma utf8_encode_all_inj : forall a b, Forall scalar a -> Forall scalar b ->
  utf8_encode_all a = utf8_encode_all b -> a = b.
Proof. intros a b _ _. apply utf8_encode_all_inj_strong. Qed.

(* prefix-freeness on whole strings, in the form the hash proof uses *)
Lemma utf8_encode_all_app_inj a b r r' :
  utf8_encode_all a ++ r = utf8_encode_all b ++ r' ->
  length (utf8_encode_all a) = length (utf8_encode_all b) -> a = b /\ r = r'.
Proof.
  intros H Hl.
  assert (E : utf8_encode_all a = utf8_encode_all b).
  { revert Hl H. generalize (utf8_encode_all a) (utf8_encode_all b).
    induction l as [|x l IH]; intros [|y l'] Hl H; cbn in *; try discriminate; [reflexivity|].
    inversion H; subst. f_equal. apply IH; [lia|assumption]. }
  split; [apply utf8_encode_all_inj_strong, E|].
  rewrite E in H. apply app_inv_head in H. exact H.
Qed.

(* prefix-freeness of the encoding of one code point *)
Lemma utf8_encode_app_inj c d R1 R2 :
  utf8_encode c ++ R1 = utf8_encode d ++ R2 -> c = d /\ R1 = R2.
Proof.
  intros H. destruct (N.compare_spec c d) as [->|Hlt|Hlt].
  - split; [reflexivity|]. apply app_inv_head in H. exact H.
  - pose proof (utf8_encode_lt c d R1 R2 Hlt) as E. rewrite H, bytes_cmp_refl in E. discriminate.
  - pose proof (utf8_encode_lt d c R2 R1 Hlt) as E. rewrite H, bytes_cmp_refl in E. discriminate.
Qed.

(* a 0xFF-terminated encoded string can be read back off the front of a byte stream;
   here the scalar hypotheses ARE needed (e.g. code point 0x3C0000 encodes with a
   leading 0xFF in the model encoder) *)
Lemma utf8_term_inj a b r r' : Forall scalar a -> Forall scalar b ->
  utf8_encode_all a ++ 0xFF :: r = utf8_encode_all b ++ 0xFF :: r' -> a = b /\ r = r'.
Proof.
  intros Ha. revert b. unfold utf8_encode_all.
  induction Ha as [|c a Hc _ IH]; intros b Hb H; destruct Hb as [|d b Hd Hb]; cbn [flat_map app] in H.
  - injection H as H. auto.
  - exfalso. rewrite <- app_assoc in H. symmetry in H.
    exact (utf8_encode_head_not_ff d _ _ Hd H).
  - exfalso. rewrite <- app_assoc in H.
    exact (utf8_encode_head_not_ff c _ _ Hc H).
  - rewrite <- !app_assoc in H. apply utf8_encode_app_inj in H. destruct H as [-> H].
    apply IH in H; [|exact Hb]. destruct H as [-> ->]. auto.
Qed.

(* str_cmp laws, for all code point lists *)
Lemma str_cmp_refl a : str_cmp a a = Eq.
Proof. apply bytes_cmp_refl. Qed.

Lemma str_cmp_antisym a b : str_cmp b a = CompOpp (str_cmp a b).
Proof. apply bytes_cmp_antisym. Qed.

Lemma str_cmp_trans_at a : trans_at str_cmp a.
Proof. intros b c. apply bytes_cmp_trans_at. Qed.

Lemma str_cmp_eq_iff_strong a b : str_cmp a b = Eq <-> a = b.
Proof.
  unfold str_cmp. rewrite bytes_cmp_eq_iff. split; [apply utf8_encode_all_inj_strong|congruence].
Qed.

Lemma str_cmp_eq_iff a b : Forall scalar a -> Forall scalar b -> (str_cmp a b = Eq <-> a = b).
Proof. intros _ _. apply str_cmp_eq_iff_strong. Qed.

Print Assumptions utf8_order.
Print Assumptions utf8_encode_all_inj.
