(* Proofs/PrinterTheorems.v -- the user-facing theorems about the printer family,
   derived from the central lemma [central] of Proofs/PrinterProofs.v:
   lock-step of the pre-pass and the emission, absence of panics, width = number of
   characters, print_with = reference layout (C13), no line break without limits,
   compact = minimal serializer (C08). *)
From JsonSyntax Require Import Base.Prelude Base.Value Model.Printer Spec.Minimal Spec.Layout.
From JsonSyntax Require Import Proofs.PrinterProofs.
From JsonSyntax Require Spec.Grammar.

(* ------------------------------------------------------------------ *)
(* lock-step                                                           *)
(* ------------------------------------------------------------------ *)

(* strong form: the Size returned and the text emitted are those of the reference layout *)
Theorem sizes_lockstep_layout : forall o v sizes0 ind,
  exists mine,
    pre_compute_size o v sizes0 = (size_of (layout o ind v), sizes0 ++ mine) /\
    forall extra,
      fmt_with_size o v ind ((sizes0 ++ mine) ++ extra) (length sizes0)
      = Some (fst (layout o ind v), length (sizes0 ++ mine)).
Proof.
  intros o v sizes0 ind. destruct (central o v sizes0 ind) as [mine [Hp Hf]].
  exists mine. split; [exact Hp|]. intros extra.
  rewrite <- app_assoc, Hf, app_length. reflexivity.
Qed.

Theorem sizes_lockstep : forall o v sizes0 ind extra,
  let '(sz, sizes1) := pre_compute_size o v sizes0 in
  exists t, fmt_with_size o v ind (sizes1 ++ extra) (length sizes0) = Some (t, length sizes1).
Proof.
  intros o v sizes0 ind extra.
  destruct (sizes_lockstep_layout o v sizes0 ind) as [mine [Hp Hf]].
  rewrite Hp. exists (fst (layout o ind v)). apply Hf.
Qed.

(* the pre-pass only appends, and what it appends does not depend on what is already there
   being read: emission works behind any prefix of the same length (used for nested calls) *)
Theorem pre_compute_size_appends : forall o v sizes0,
  exists mine, snd (pre_compute_size o v sizes0) = sizes0 ++ mine.
Proof.
  intros o v sizes0. destruct (central o v sizes0 O) as [mine [Hp _]].
  exists mine. rewrite Hp. reflexivity.
Qed.

(* ------------------------------------------------------------------ *)
(* C13: print_with is the reference layout; no panic                   *)
(* ------------------------------------------------------------------ *)

Theorem C13_layout : forall o v, print_with o v = Some (layout_text o v).
Proof.
  intros o v. unfold layout_text.
  destruct (central o v [] O) as [mine [Hp Hf]].
  specialize (Hf [] []). cbn [app length] in Hf, Hp. rewrite app_nil_r in Hf.
  destruct v as [| b | n | s | l | l]; unfold print_with.
  - reflexivity.
  - destruct b; reflexivity.
  - reflexivity.
  - cbn [fmt_with_size option_map fst layout]. rewrite string_literal_quote. reflexivity.
  - rewrite Hp, Hf. reflexivity.
  - rewrite Hp, Hf. reflexivity.
Qed.

Theorem print_never_panics : forall o v, exists t, print_with o v = Some t.
Proof. intros o v. exists (layout_text o v). apply C13_layout. Qed.

(* ------------------------------------------------------------------ *)
(* line feeds                                                          *)
(* ------------------------------------------------------------------ *)

(* The value model lets a number carry ANY list of code points; the printer copies it
   verbatim.  "No line feed" statements therefore need the numbers of v to be free of
   line feeds (true of every RFC 8259 number: [jnum_no_lf] below). *)
Inductive nums_no_lf : value -> Prop :=
| NL_null : nums_no_lf VNull
| NL_bool b : nums_no_lf (VBool b)
| NL_num n : ~ In LF n -> nums_no_lf (VNum n)
| NL_str s : nums_no_lf (VStr s)
| NL_arr l : Forall nums_no_lf l -> nums_no_lf (VArr l)
| NL_obj l : Forall (fun e => nums_no_lf (snd e)) l -> nums_no_lf (VObj l).

Lemma not_in_app {A} (c : A) a b : ~ In c a -> ~ In c b -> ~ In c (a ++ b).
Proof. intros Ha Hb H. apply in_app_or in H. tauto. Qed.

Lemma not_in_single (c d : N) : c <> d -> ~ In c [d].
Proof. intros Hn [H|[]]. congruence. Qed.

Lemma join_no (c : N) sep l :
  ~ In c sep -> (forall t, In t l -> ~ In c t) -> ~ In c (join sep l).
Proof.
  intros Hsep. induction l as [|t r IH]; intros Hl; [intros []|].
  cbn [join]. destruct r as [|t' r].
  - apply Hl. left. reflexivity.
  - apply not_in_app; [apply Hl; left; reflexivity|].
    apply not_in_app; [exact Hsep|]. apply IH. intros u Hu. apply Hl. right. exact Hu.
Qed.

Lemma kids_no_lf {A} (f : A -> list N * bool) (l : list A) :
  (forall x, In x l -> snd (f x) = true -> ~ In LF (fst (f x))) ->
  forallb snd (map f l) = true ->
  forall t, In t (map fst (map f l)) -> ~ In LF t.
Proof.
  intros H Hall t Ht. rewrite map_map in Ht. apply in_map_iff in Ht. destruct Ht as [x [<- Hx]].
  apply H; [exact Hx|]. rewrite forallb_forall in Hall. apply Hall. apply in_map. exact Hx.
Qed.

Lemma sepI_arr_no_lf o : ~ In LF (sepI_arr o).
Proof.
  unfold sepI_arr. apply not_in_app; [apply sp_no_lf|].
  apply not_in_app; [apply not_in_single; discriminate|apply sp_no_lf].
Qed.

Lemma sepI_obj_no_lf o : ~ In LF (sepI_obj o).
Proof.
  unfold sepI_obj. apply not_in_app; [apply sp_no_lf|].
  apply not_in_app; [apply not_in_single; discriminate|apply sp_no_lf].
Qed.

Lemma key_pfx_no_lf o k : ~ In LF (key_pfx o k).
Proof.
  unfold key_pfx. apply not_in_app; [apply quote_no_lf|].
  apply not_in_app; [apply sp_no_lf|].
  apply not_in_app; [apply not_in_single; discriminate|apply sp_no_lf].
Qed.

Lemma arr_one_line_no_lf o n kids :
  (forall t, In t (map fst kids) -> ~ In LF t) -> ~ In LF (arr_one_line o n kids).
Proof.
  intros Hk. unfold arr_one_line.
  apply not_in_app; [apply not_in_single; discriminate|].
  apply not_in_app; [|apply not_in_single; discriminate].
  destruct n as [|n]; [apply sp_no_lf|].
  apply not_in_app; [apply sp_no_lf|].
  apply not_in_app; [|apply sp_no_lf].
  apply join_no; [apply sepI_arr_no_lf|exact Hk].
Qed.

Lemma obj_one_line_no_lf o n kids :
  (forall t, In t (map fst kids) -> ~ In LF t) -> ~ In LF (obj_one_line o n kids).
Proof.
  intros Hk. unfold obj_one_line.
  apply not_in_app; [apply not_in_single; discriminate|].
  apply not_in_app; [|apply not_in_single; discriminate].
  destruct n as [|n]; [apply sp_no_lf|].
  apply not_in_app; [apply sp_no_lf|].
  apply not_in_app; [|apply sp_no_lf].
  apply join_no; [apply sepI_obj_no_lf|exact Hk].
Qed.

(* a value laid out on one line contains no line feed *)
Lemma inline_no_lf o : forall v, nums_no_lf v ->
  forall d, snd (layout o d v) = true -> ~ In LF (fst (layout o d v)).
Proof.
  intros v. induction v as [| b | n | s | l IH | l IH] using value_ind'; intros Hnl d Hs.
  - cbn. unfold LF. lia.
  - destruct b; cbn; unfold LF; lia.
  - inversion Hnl as [| |n' Hn| | |]; subst. exact Hn.
  - apply quote_no_lf.
  - inversion Hnl as [| | | |l' Hl|]; subst.
    rewrite layout_arr in Hs |- *. cbv zeta in Hs |- *.
    destruct (forallb snd (map (layout o (S d)) l)) eqn:Hall; cbn [andb] in Hs |- *;
      [|discriminate Hs].
    destruct (fits (array_limit o) (N.of_nat (length l))
                   (N.of_nat (length (arr_one_line o (length l) (map (layout o (S d)) l)))));
      cbn [fst snd] in Hs |- *; [|discriminate Hs].
    apply arr_one_line_no_lf. apply kids_no_lf; [|exact Hall].
    intros x Hx Hsx. rewrite Forall_forall in IH, Hl. apply IH; auto.
  - inversion Hnl as [| | | | |l' Hl]; subst.
    rewrite layout_obj in Hs |- *. cbv zeta in Hs |- *.
    destruct (forallb snd (map (member o d) l)) eqn:Hall; cbn [andb] in Hs |- *;
      [|discriminate Hs].
    destruct (fits (object_limit o) (N.of_nat (length l))
                   (N.of_nat (length (obj_one_line o (length l) (map (member o d) l)))));
      cbn [fst snd] in Hs |- *; [|discriminate Hs].
    apply obj_one_line_no_lf. apply kids_no_lf; [|exact Hall].
    intros [k x] Hx. rewrite member_eq. cbn [fst snd]. intros Hsx.
    apply not_in_app; [apply key_pfx_no_lf|].
    rewrite Forall_forall in IH, Hl. apply (IH (k, x) Hx); [apply (Hl (k, x) Hx)|exact Hsx].
Qed.

(* every RFC 8259 number (Spec/Grammar.v) is free of line feeds, so [nums_no_lf] holds of
   every value whose numbers are well-formed -- in particular of every parsed value *)
Lemma digits_no_lf ds : Forall (fun c => Grammar.digit c = true) ds -> ~ In LF ds.
Proof.
  intros H Hin. rewrite Forall_forall in H. apply H in Hin. vm_compute in Hin. discriminate Hin.
Qed.

Lemma jnum_no_lf n : Grammar.jnum n -> ~ In LF n.
Proof.
  intros (m & i & f & e & Hm & Hi & Hf & He & ->).
  apply not_in_app; [destruct Hm as [->| ->]; [intros []|apply not_in_single; discriminate]|].
  apply not_in_app; [|apply not_in_app].
  - destruct Hi as [->|(d & ds & Hd & Hds & ->)]; [apply not_in_single; discriminate|].
    intros [H|H]; [subst d; vm_compute in Hd; discriminate Hd|exact (digits_no_lf ds Hds H)].
  - destruct Hf as [->|(ds & [_ Hds] & ->)]; [intros []|].
    intros [H|H]; [discriminate H|exact (digits_no_lf ds Hds H)].
  - destruct He as [->|(E & s & ds & HE & Hs & [_ Hds] & ->)]; [intros []|].
    intros [H|H]; [destruct HE as [->| ->]; discriminate H|].
    apply in_app_or in H. destruct H as [H|H]; [|exact (digits_no_lf ds Hds H)].
    destruct Hs as [->|[->| ->]]; [destruct H| |]; destruct H as [H|[]]; discriminate H.
Qed.

(* an expanded value contains a line feed (right after its opening bracket) *)
Lemma expanded_has_lf o v d : snd (layout o d v) = false -> In LF (fst (layout o d v)).
Proof.
  destruct v as [| b | n | s | l | l]; try (cbn; discriminate).
  - destruct b; cbn; discriminate.
  - rewrite layout_arr. cbv zeta.
    destruct (_ && _); cbn [fst snd]; [discriminate|]. intros _.
    unfold arr_expanded. cbn [app In]. right. left. reflexivity.
  - rewrite layout_obj. cbv zeta.
    destruct (_ && _); cbn [fst snd]; [discriminate|]. intros _.
    unfold obj_expanded. cbn [app In]. right. left. reflexivity.
Qed.

(* ---- width_is_length ---- *)
Definition width_is_length_statement : Prop :=
  forall o v sizes0 ind extra sz sizes1 t idx,
    pre_compute_size o v sizes0 = (sz, sizes1) ->
    fmt_with_size o v ind (sizes1 ++ extra) (length sizes0) = Some (t, idx) ->
    match sz with
    | Width w => w = N.of_nat (length t) /\ ~ In 0x0A t
    | Expanded => In 0x0A t
    end.

(* The full statement is false for an ill-formed number containing a line feed. *)
Lemma width_is_length_statement_false : ~ width_is_length_statement.
Proof.
  intros H.
  specialize (H pretty (VNum [0x0A]) [] O [] (Width 1) [] [0x0A] O eq_refl eq_refl).
  cbv beta iota in H. destruct H as [_ H]. apply H. left. reflexivity.
Qed.

(* Everything except "no line feed" holds for every value; "no line feed" holds as soon as
   the numbers of v contain none. *)
Theorem width_is_length_partial :
  forall o v sizes0 ind extra sz sizes1 t idx,
    pre_compute_size o v sizes0 = (sz, sizes1) ->
    fmt_with_size o v ind (sizes1 ++ extra) (length sizes0) = Some (t, idx) ->
    match sz with
    | Width w => w = N.of_nat (length t) /\ (nums_no_lf v -> ~ In 0x0A t)
    | Expanded => In 0x0A t
    end.
Proof.
  intros o v sizes0 ind extra sz sizes1 t idx Hpre Hfmt.
  destruct (sizes_lockstep_layout o v sizes0 ind) as [mine [Hp Hf]].
  rewrite Hp in Hpre. injection Hpre as <- <-.
  rewrite Hf in Hfmt. injection Hfmt as <- <-.
  unfold size_of. destruct (snd (layout o ind v)) eqn:Hs.
  - split; [reflexivity|]. intros Hnl. apply (inline_no_lf o v Hnl ind Hs).
  - apply expanded_has_lf, Hs.
Qed.

(* ---- no_break ---- *)
Lemma all_inline o : array_limit o = None -> object_limit o = None ->
  forall v d, snd (layout o d v) = true.
Proof.
  intros Ha Ho v. induction v as [| b | n | s | l IH | l IH] using value_ind'; intros d;
    try reflexivity.
  - destruct b; reflexivity.
  - rewrite layout_arr. cbv zeta. rewrite Ha. cbn [fits]. rewrite andb_true_r.
    assert (Hall : forallb snd (map (layout o (S d)) l) = true).
    { apply forallb_forall. intros k Hk. apply in_map_iff in Hk. destruct Hk as [x [<- Hx]].
      rewrite Forall_forall in IH. apply IH, Hx. }
    rewrite Hall. reflexivity.
  - rewrite layout_obj. cbv zeta. rewrite Ho. cbn [fits]. rewrite andb_true_r.
    assert (Hall : forallb snd (map (member o d) l) = true).
    { apply forallb_forall. intros k Hk. apply in_map_iff in Hk. destruct Hk as [[key x] [<- Hx]].
      rewrite member_eq. cbn [snd]. rewrite Forall_forall in IH. apply (IH (key, x) Hx). }
    rewrite Hall. reflexivity.
Qed.

Definition no_break_statement : Prop :=
  forall o v, array_limit o = None -> object_limit o = None -> ~ In 0x0A (layout_text o v).

Lemma no_break_statement_false : ~ no_break_statement.
Proof.
  intros H. apply (H inline (VNum [0x0A]) eq_refl eq_refl). left. reflexivity.
Qed.

Theorem no_break_partial : forall o v,
  array_limit o = None -> object_limit o = None -> nums_no_lf v -> ~ In 0x0A (layout_text o v).
Proof.
  intros o v Ha Ho Hnl. unfold layout_text.
  apply (inline_no_lf o v Hnl O). apply all_inline; assumption.
Qed.

Corollary inline_never_breaks : forall v, nums_no_lf v ->
  exists t, print_with inline v = Some t /\ ~ In 0x0A t.
Proof.
  intros v Hnl. exists (layout_text inline v). split; [apply C13_layout|].
  apply no_break_partial; [reflexivity|reflexivity|exact Hnl].
Qed.

Corollary compact_never_breaks : forall v, nums_no_lf v ->
  exists t, print_with compact v = Some t /\ ~ In 0x0A t.
Proof.
  intros v Hnl. exists (layout_text compact v). split; [apply C13_layout|].
  apply no_break_partial; [reflexivity|reflexivity|exact Hnl].
Qed.

(* ------------------------------------------------------------------ *)
(* C08: the compact preset is the minimal serializer                   *)
(* ------------------------------------------------------------------ *)

Lemma forallb_snd_true {A} (f : A -> list N) (l : list A) :
  forallb snd (map (fun x => (f x, true)) l) = true.
Proof. induction l as [|x r IH]; [reflexivity|]. cbn [map forallb snd andb]. exact IH. Qed.

Lemma map_fst_pair {A} (f : A -> list N) (l : list A) :
  map fst (map (fun x => (f x, true)) l) = map f l.
Proof. rewrite map_map. apply map_ext. reflexivity. Qed.

Lemma layout_compact : forall v d, layout compact d v = (ser_min v, true).
Proof.
  intros v. induction v as [| b | n | s | l IH | l IH] using value_ind'; intros d;
    try reflexivity.
  - destruct b; reflexivity.
  - rewrite layout_arr. cbv zeta.
    assert (Hk : map (layout compact (S d)) l = map (fun x => (ser_min x, true)) l).
    { apply map_ext_in. intros x Hx. rewrite Forall_forall in IH. apply IH, Hx. }
    rewrite Hk, forallb_snd_true. cbn [andb fits array_limit compact].
    f_equal. unfold arr_one_line. rewrite map_fst_pair.
    destruct l as [|x r]; [reflexivity|]. cbn [length].
    change (sp (array_begin compact)) with (@nil N). change (sp (array_end compact)) with (@nil N).
    change (sepI_arr compact) with [0x2C]. cbn [app]. rewrite app_nil_r. reflexivity.
  - rewrite layout_obj. cbv zeta.
    assert (Hk : map (member compact d) l
                 = map (fun e => (quote (fst e) ++ [0x3A] ++ ser_min (snd e), true)) l).
    { apply map_ext_in. intros [k x] Hx. rewrite Forall_forall in IH.
      unfold member. cbn [fst snd]. rewrite (IH (k, x) Hx). reflexivity. }
    rewrite Hk, forallb_snd_true. cbn [andb fits object_limit compact].
    f_equal. unfold obj_one_line. rewrite map_fst_pair.
    destruct l as [|x r]; [reflexivity|]. cbn [length].
    change (sp (object_begin compact)) with (@nil N). change (sp (object_end compact)) with (@nil N).
    change (sepI_obj compact) with [0x2C]. cbn [app]. rewrite app_nil_r. reflexivity.
Qed.

Theorem C08_compact_minimal : forall v, print_with compact v = Some (ser_min v).
Proof. intros v. rewrite C13_layout. unfold layout_text. rewrite layout_compact. reflexivity. Qed.

Corollary to_string_minimal : forall v, to_string v = Some (ser_min v).
Proof. exact C08_compact_minimal. Qed.

Corollary compact_print_minimal : forall v, compact_print v = Some (ser_min v).
Proof. exact C08_compact_minimal. Qed.

(* ------------------------------------------------------------------ *)
(* one Size per container (the capacity reserved by Print::fmt_with)   *)
(* ------------------------------------------------------------------ *)

Fixpoint containers (v : value) : nat :=
  match v with
  | VArr l => S (fold_right (fun x a => containers x + a)%nat O l)
  | VObj l => S (fold_right (fun e a => containers (snd e) + a)%nat O l)
  | _ => O
  end.

Lemma set_nth_size_length : forall n x l, length (set_nth_size n x l) = length l.
Proof.
  induction n as [|n IH]; intros x [|y l]; cbn [set_nth_size length]; try reflexivity.
  rewrite IH. reflexivity.
Qed.

Definition pushes (o : popts) (v : value) : Prop :=
  forall sizes, length (snd (pre_compute_size o v sizes)) = (length sizes + containers v)%nat.

Lemma pre_go_arr_length o items : Forall (pushes o) items ->
  forall first sz len sizes,
    length (snd (pre_go_arr o items first sz len sizes))
    = (length sizes + fold_right (fun x a => containers x + a)%nat O items)%nat.
Proof.
  intros HF. induction HF as [|x r Hx _ IH]; intros first sz len sizes.
  - cbn [fold_right]. rewrite pre_go_arr_nil. cbn [snd]. lia.
  - rewrite pre_go_arr_cons. specialize (Hx sizes).
    destruct (pre_compute_size o x sizes) as [sx sizes']. cbn [snd] in Hx.
    rewrite IH, Hx. cbn [fold_right]. lia.
Qed.

Lemma pre_go_obj_length o entries : Forall (fun e => pushes o (snd e)) entries ->
  forall first sz len sizes,
    length (snd (pre_go_obj o entries first sz len sizes))
    = (length sizes + fold_right (fun e a => containers (snd e) + a)%nat O entries)%nat.
Proof.
  intros HF. induction HF as [|[k x] r Hx _ IH]; intros first sz len sizes.
  - cbn [fold_right]. rewrite pre_go_obj_nil. cbn [snd]. lia.
  - rewrite pre_go_obj_cons. cbn [snd] in Hx. specialize (Hx sizes).
    destruct (pre_compute_size o x sizes) as [sx sizes']. cbn [snd] in Hx.
    rewrite IH, Hx. cbn [fold_right snd]. lia.
Qed.

Theorem pre_compute_size_length : forall o v sizes,
  length (snd (pre_compute_size o v sizes)) = (length sizes + containers v)%nat.
Proof.
  intros o v. change (pushes o v).
  induction v as [| b | n | s | l IH | l IH] using value_ind'; intros sizes;
    try (cbn [pre_compute_size snd containers]; lia).
  - destruct b; cbn [pre_compute_size snd containers]; lia.
  - rewrite pre_compute_size_arr.
    pose proof (pre_go_arr_length o l IH true (Width (2 + array_begin o + array_end o)) 0
                                  (sizes ++ [Width 0])) as H.
    destruct (pre_go_arr o l true _ 0 (sizes ++ [Width 0])) as [[sz len] sizes2].
    cbn [snd] in H |- *. rewrite set_nth_size_length, H, app_length. cbn [length containers]. lia.
  - rewrite pre_compute_size_obj.
    pose proof (pre_go_obj_length o l IH true (Width (2 + object_begin o + object_end o)) 0
                                  (sizes ++ [Width 0])) as H.
    destruct (pre_go_obj o l true _ 0 (sizes ++ [Width 0])) as [[sz len] sizes2].
    cbn [snd] in H |- *. rewrite set_nth_size_length, H, app_length. cbn [length containers]. lia.
Qed.

(* the emission consumes exactly [containers v] entries *)
Corollary fmt_consumes_containers : forall o v sizes0 ind extra,
  exists t,
    fmt_with_size o v ind (snd (pre_compute_size o v sizes0) ++ extra) (length sizes0)
    = Some (t, (length sizes0 + containers v)%nat).
Proof.
  intros o v sizes0 ind extra. pose proof (sizes_lockstep o v sizes0 ind extra) as H.
  pose proof (pre_compute_size_length o v sizes0) as Hl.
  destruct (pre_compute_size o v sizes0) as [sz sizes1]. cbn [snd] in Hl |- *.
  destruct H as [t H]. exists t. rewrite H, Hl. reflexivity.
Qed.

Print Assumptions sizes_lockstep_layout.
Print Assumptions pre_compute_size_length.
Print Assumptions fmt_consumes_containers.
Print Assumptions sizes_lockstep.
Print Assumptions print_never_panics.
Print Assumptions width_is_length_partial.
Print Assumptions width_is_length_statement_false.
Print Assumptions C13_layout.
Print Assumptions no_break_partial.
Print Assumptions jnum_no_lf.
Print Assumptions no_break_statement_false.
Print Assumptions inline_never_breaks.
Print Assumptions compact_never_breaks.
Print Assumptions C08_compact_minimal.
Print Assumptions to_string_minimal.
