(* Proofs/NumberProofs.v -- facts about Spec/EcmaNumber:
     N3  reading back the four ECMAScript layouts
     N4  ecma_to_string round-trips through read_decimal / nearest_double
     N5  canon_number is idempotent and keeps each number's double
     N6  canon_number depends only on the sign and the exact decimal value of a spelling
     N7  the digit count found by nks is minimal among the candidates examined
   Everything here is integer / list reasoning on top of Float64Proofs (N1, N2). *)
From Coq Require Import ZArith NArith List Bool SpecFloat Lia.
From JsonSyntax Require Import Base.Float64 Spec.EcmaNumber Proofs.Float64Proofs.
Import ListNotations.
Local Open Scope Z_scope.

(* ------------------------------------------------------------------ digit strings *)

Definition all_dig (l : list N) : Prop := Forall (fun c => is_dig c = true) l.
Definition dval (l : list N) (acc : Z) : Z := fold_left (fun a c => a * 10 + dig_val c) l acc.
Definition stops (l : list N) : Prop := match l with [] => True | c :: _ => is_dig c = false end.
Definition len (l : list N) : Z := Z.of_nat (length l).

Lemma len_nonneg : forall l, 0 <= len l.
Proof. intros. unfold len. lia. Qed.

Lemma len_app : forall a b, len (a ++ b) = len a + len b.
Proof. intros. unfold len. rewrite app_length. lia. Qed.

Lemma len_cons : forall c l, len (c :: l) = 1 + len l.
Proof. intros. unfold len. cbn [length]. lia. Qed.

Lemma read_digits_app : forall ds rest acc cnt, all_dig ds -> stops rest ->
  read_digits (ds ++ rest) acc cnt = (dval ds acc, cnt + len ds, rest).
Proof.
  induction ds as [|c ds IH]; intros rest acc cnt Hd Hs.
  - cbn [app dval fold_left]. unfold len; cbn [length Z.of_nat]. rewrite Z.add_0_r.
    destruct rest as [|c r]; [reflexivity|]. cbn in Hs. cbn [read_digits]. now rewrite Hs.
  - inversion Hd as [|? ? Hc Hds]; subst.
    cbn [app read_digits]. rewrite Hc. rewrite IH by assumption.
    rewrite len_cons. cbn [dval fold_left]. f_equal. f_equal. lia.
Qed.

Lemma read_digits_all : forall ds acc cnt, all_dig ds ->
  read_digits ds acc cnt = (dval ds acc, cnt + len ds, []).
Proof.
  intros. rewrite <- (app_nil_r ds) at 1. apply read_digits_app; [assumption|exact I].
Qed.

Lemma dval_app : forall a b acc, dval (a ++ b) acc = dval b (dval a acc).
Proof. intros. unfold dval. apply fold_left_app. Qed.

Lemma dval_acc : forall ds acc, dval ds acc = acc * 10 ^ len ds + dval ds 0.
Proof.
  induction ds as [|c ds IH]; intros acc.
  - cbn. lia.
  - cbn [dval fold_left]. fold (dval ds (acc * 10 + dig_val c)). fold (dval ds (0 * 10 + dig_val c)).
    rewrite IH, (IH (0 * 10 + dig_val c)). rewrite len_cons.
    rewrite Z.pow_add_r by (try lia; apply len_nonneg). lia.
Qed.

Lemma all_dig_app : forall a b, all_dig (a ++ b) <-> all_dig a /\ all_dig b.
Proof. intros. apply Forall_app. Qed.

Lemma all_dig_zeros : forall n, all_dig (zeros n).
Proof. induction n; cbn [zeros]; constructor; [reflexivity|assumption]. Qed.

Lemma len_zeros : forall n, len (zeros n) = Z.of_nat n.
Proof. induction n. reflexivity. cbn [zeros]. rewrite len_cons, IHn. lia. Qed.

Lemma dval_zeros : forall n acc, dval (zeros n) acc = acc * 10 ^ Z.of_nat n.
Proof.
  induction n; intros acc.
  - cbn. lia.
  - cbn [zeros dval fold_left]. fold (dval (zeros n) (acc * 10 + dig_val 48)). rewrite IHn.
    rewrite Nat2Z.inj_succ, Z.pow_succ_r by lia. change (dig_val 48) with 0. lia.
Qed.

Lemma is_dig_of_digit : forall d, 0 <= d < 10 -> is_dig (Z.to_N (d + 48)) = true.
Proof. intros d Hd. unfold is_dig. rewrite andb_true_iff, !N.leb_le. lia. Qed.

Lemma dig_val_of_digit : forall d, 0 <= d < 10 -> dig_val (Z.to_N (d + 48)) = d.
Proof. intros d Hd. unfold dig_val. lia. Qed.

Lemma digits_of_correct : forall fuel s acc, 0 < s < 10 ^ Z.of_nat fuel ->
  exists ds, digits_of fuel s acc = ds ++ acc /\ all_dig ds /\ dval ds 0 = s /\
             10 ^ (len ds - 1) <= s < 10 ^ len ds /\ 1 <= len ds.
Proof.
  induction fuel as [|f IH]; intros s acc Hs.
  - cbn in Hs. lia.
  - cbn [digits_of]. destruct (Z.ltb_spec s 10) as [H10|H10].
    + exists [Z.to_N (s + 48)]. split; [reflexivity|]. split.
      { constructor; [apply is_dig_of_digit; lia|constructor]. }
      split. { cbn [dval fold_left]. rewrite dig_val_of_digit; lia. }
      unfold len; cbn [length Z.of_nat Pos.of_succ_nat]. cbn. lia.
    + rewrite Nat2Z.inj_succ, Z.pow_succ_r in Hs by lia.
      assert (Hd : 0 < s / 10 < 10 ^ Z.of_nat f).
      { split. apply Z.div_str_pos; lia. apply Z.div_lt_upper_bound; lia. }
      destruct (IH (s / 10) (Z.to_N (s mod 10 + 48) :: acc) Hd) as [ds [E [Hall [Hv [Hb Hl]]]]].
      pose proof (Z.div_mod s 10 ltac:(lia)) as Hdm.
      pose proof (Z.mod_pos_bound s 10 ltac:(lia)) as Hmod.
      exists (ds ++ [Z.to_N (s mod 10 + 48)]). split.
      { rewrite E, <- app_assoc. reflexivity. }
      split.
      { apply all_dig_app. split; [assumption|]. constructor; [apply is_dig_of_digit; lia|constructor]. }
      split.
      { rewrite dval_app, Hv. cbn [dval fold_left]. rewrite dig_val_of_digit; lia. }
      rewrite len_app. change (len [Z.to_N (s mod 10 + 48)]) with 1.
      replace (len ds + 1 - 1) with (Z.succ (len ds - 1)) by lia.
      replace (len ds + 1) with (Z.succ (len ds)) by lia.
      rewrite !Z.pow_succ_r by lia. lia.
Qed.

Lemma pow10_unique : forall s a b, 1 <= a -> 1 <= b ->
  10 ^ (a - 1) <= s < 10 ^ a -> 10 ^ (b - 1) <= s < 10 ^ b -> a = b.
Proof.
  intros s a b Ha Hb H1 H2.
  destruct (Z.lt_trichotomy a b) as [H|[H|H]]; [|assumption|].
  - assert (10 ^ a <= 10 ^ (b - 1)) by (apply Z.pow_le_mono_r; lia). lia.
  - assert (10 ^ b <= 10 ^ (a - 1)) by (apply Z.pow_le_mono_r; lia). lia.
Qed.

Theorem dec_digits_correct : forall s, 0 < s ->
  all_dig (dec_digits s) /\ dval (dec_digits s) 0 = s /\
  10 ^ (len (dec_digits s) - 1) <= s < 10 ^ len (dec_digits s) /\ 1 <= len (dec_digits s).
Proof.
  intros s Hs. unfold dec_digits.
  assert (Hf : 0 < s < 10 ^ Z.of_nat (Z.to_nat (Z.log2 s) + 2)).
  { split; [exact Hs|].
    pose proof (Z.log2_nonneg s) as Hl.
    rewrite Nat2Z.inj_add, Z2Nat.id by lia.
    pose proof (Z.log2_spec s Hs) as [_ Hsp].
    pose proof (pow2_le_pow10 (Z.succ (Z.log2 s)) ltac:(lia)) as H2.
    assert (10 ^ Z.succ (Z.log2 s) <= 10 ^ (Z.log2 s + Z.of_nat 2)).
    { apply Z.pow_le_mono_r; lia. }
    lia. }
  destruct (digits_of_correct _ s [] Hf) as [ds [E H]].
  rewrite E, app_nil_r. exact H.
Qed.

Corollary dec_digits_len : forall s k, 1 <= k -> 10 ^ (k - 1) <= s < 10 ^ k ->
  len (dec_digits s) = k.
Proof.
  intros s k Hk Hs.
  assert (0 < s). { assert (0 < 10 ^ (k - 1)) by (apply Z.pow_pos_nonneg; lia). lia. }
  destruct (dec_digits_correct s ltac:(assumption)) as [_ [_ [Hb Hl]]].
  apply (pow10_unique s); assumption.
Qed.

(* ------------------------------------------------------------------ read_decimal *)

(* read_decimal after the optional leading minus sign *)
Definition rd_body (neg : bool) (l0 : list N) : option decimal :=
  let '(ip, ic, l1) := read_digits l0 0 0 in
  if ic =? 0 then None else
  let '(m, fc, l2) :=
    match l1 with
    | 0x2E%N :: r => let '(m, c, l) := read_digits r ip 0 in (m, c, l)
    | _ => (ip, 0, l1)
    end in
  match l2 with
  | [] => Some {| d_neg := neg; d_mant := m; d_exp := - fc |}
  | e :: r =>
      if (N.eqb e 0x65 || N.eqb e 0x45)%bool then
        let '(eneg, l3) := match r with
                           | 0x2D%N :: r' => (true, r')
                           | 0x2B%N :: r' => (false, r')
                           | _ => (false, r)
                           end in
        let '(ev, ec, l4) := read_digits l3 0 0 in
        match l4 with
        | [] => if ec =? 0 then None
                else Some {| d_neg := neg; d_mant := m; d_exp := (if eneg then - ev else ev) - fc |}
        | _ => None
        end
      else None
  end.

Lemma read_decimal_minus : forall r, read_decimal (0x2D%N :: r) = rd_body true r.
Proof. reflexivity. Qed.

Lemma read_decimal_nil : read_decimal [] = rd_body false [].
Proof. reflexivity. Qed.

Lemma read_decimal_other : forall c r, c <> 0x2D%N -> read_decimal (c :: r) = rd_body false (c :: r).
Proof.
  intros c r Hc. unfold read_decimal.
  destruct c as [|p]; [reflexivity|].
  repeat match goal with p : positive |- _ => destruct p; try reflexivity end.
  now elim Hc.
Qed.

Definition with_neg (neg : bool) (d : decimal) : decimal :=
  {| d_neg := neg; d_mant := d_mant d; d_exp := d_exp d |}.

Lemma rd_body_neg : forall neg l, rd_body neg l = option_map (with_neg neg) (rd_body false l).
Proof.
  intros neg l. unfold rd_body.
  destruct (read_digits l 0 0) as [[ip ic] l1].
  destruct (ic =? 0); [reflexivity|].
  destruct (match l1 with
            | [] => (ip, 0, l1)
            | 46%N :: r => let '(m, c, l) := read_digits r ip 0 in (m, c, l)
            | _ => (ip, 0, l1)
            end) as [[m fc] l2].
  destruct l2 as [|e r]; [reflexivity|].
  destruct (N.eqb e 101 || N.eqb e 69)%bool; [|reflexivity].
  destruct (match r with
            | [] => (false, r)
            | 45%N :: r' => (true, r')
            | 43%N :: r' => (false, r')
            | _ => (false, r)
            end) as [eneg l3].
  destruct (read_digits l3 0 0) as [[ev ec] l4].
  destruct l4; [|reflexivity]. destruct (ec =? 0); reflexivity.
Qed.

Lemma is_dig_not_minus : forall c, is_dig c = true -> c <> 0x2D%N.
Proof. intros c H E. subst. discriminate. Qed.

(* reading  "-" ++ t  when t starts with a digit *)
Lemma read_decimal_signed : forall (sg : bool) c r d,
  is_dig c = true -> read_decimal (c :: r) = Some d ->
  read_decimal ((if sg then [0x2D%N] else []) ++ c :: r) = Some (with_neg sg d) /\ d_neg d = false.
Proof.
  intros sg c r d Hc H.
  rewrite read_decimal_other in H by now apply is_dig_not_minus.
  assert (Hn : d_neg d = false).
  { rewrite rd_body_neg in H. destruct (rd_body false (c :: r)); [|discriminate].
    cbn in H. injection H as <-. reflexivity. }
  split; [|exact Hn].
  destruct sg; cbn [app].
  - rewrite read_decimal_minus, rd_body_neg, H. reflexivity.
  - rewrite read_decimal_other, H by now apply is_dig_not_minus.
    destruct d as [ng mm ee]. cbn in Hn. subst. reflexivity.
Qed.

(* ------------------------------------------------------------------ N3: the four layouts *)

Lemma mk_dec_eq : forall b m e m' e', m = m' -> e = e' ->
  Some {| d_neg := b; d_mant := m; d_exp := e |} = Some {| d_neg := b; d_mant := m'; d_exp := e' |}.
Proof. intros; subst; reflexivity. Qed.

Lemma len_pos_neq0 : forall l, 1 <= len l -> (0 + len l =? 0) = false.
Proof. intros. apply Z.eqb_neq. lia. Qed.

(* digits only *)
Lemma rd_int : forall ds, all_dig ds -> 1 <= len ds ->
  rd_body false ds = Some {| d_neg := false; d_mant := dval ds 0; d_exp := 0 |}.
Proof.
  intros ds Hd Hl. unfold rd_body.
  rewrite read_digits_all by assumption. cbv beta iota zeta.
  rewrite len_pos_neq0 by assumption. reflexivity.
Qed.

(* digits . digits *)
Lemma rd_frac : forall a b, all_dig a -> all_dig b -> 1 <= len a ->
  rd_body false (a ++ [0x2E%N] ++ b) =
  Some {| d_neg := false; d_mant := dval (a ++ b) 0; d_exp := - len b |}.
Proof.
  intros a b Ha Hb Hl. unfold rd_body. cbn [app].
  rewrite read_digits_app by (try assumption; reflexivity). cbv beta iota zeta.
  rewrite len_pos_neq0 by assumption.
  rewrite read_digits_all by assumption. cbv beta iota zeta.
  rewrite dval_app. apply mk_dec_eq; [reflexivity|lia].
Qed.

Definition sign_chars (pos : bool) : list N := if pos then [0x2B%N] else [0x2D%N].
Definition signed (pos : bool) (v : Z) : Z := if pos then v else - v.

(* digits e[+-]digits *)
Lemma rd_exp1 : forall a pos es, all_dig a -> all_dig es -> 1 <= len a -> 1 <= len es ->
  rd_body false (a ++ [0x65%N] ++ sign_chars pos ++ es) =
  Some {| d_neg := false; d_mant := dval a 0; d_exp := signed pos (dval es 0) |}.
Proof.
  intros a pos es Ha Hes Hla Hle. unfold rd_body. cbn [app].
  rewrite read_digits_app by (try assumption; reflexivity). cbv beta iota zeta.
  rewrite len_pos_neq0 by assumption.
  change (N.eqb 101 101) with true. cbn [orb].
  destruct pos; cbn [sign_chars app]; cbv beta iota zeta;
    rewrite read_digits_all by assumption; cbv beta iota zeta;
    rewrite len_pos_neq0 by assumption; apply mk_dec_eq; cbn [signed]; lia.
Qed.

(* digits . digits e[+-]digits *)
Lemma rd_exp2 : forall a b pos es, all_dig a -> all_dig b -> all_dig es -> 1 <= len a -> 1 <= len es ->
  rd_body false (a ++ [0x2E%N] ++ b ++ [0x65%N] ++ sign_chars pos ++ es) =
  Some {| d_neg := false; d_mant := dval (a ++ b) 0; d_exp := signed pos (dval es 0) - len b |}.
Proof.
  intros a b pos es Ha Hb Hes Hla Hle. unfold rd_body. cbn [app].
  rewrite read_digits_app by (try assumption; reflexivity). cbv beta iota zeta.
  rewrite len_pos_neq0 by assumption.
  rewrite read_digits_app by (try assumption; reflexivity). cbv beta iota zeta.
  change (N.eqb 101 101) with true. cbn [orb].
  rewrite dval_app.
  destruct pos; cbn [sign_chars app]; cbv beta iota zeta;
    rewrite read_digits_all by assumption; cbv beta iota zeta;
    rewrite len_pos_neq0 by assumption; apply mk_dec_eq; cbn [signed]; lia.
Qed.

Lemma all_dig_firstn_skipn : forall n ds, all_dig ds -> all_dig (firstn n ds) /\ all_dig (skipn n ds).
Proof. intros n ds H. rewrite <- (firstn_skipn n ds) in H. now apply all_dig_app in H. Qed.

Lemma layout_cases : forall n k s, 1 <= k -> 10 ^ (k - 1) <= s < 10 ^ k ->
  (exists c r, layout_nks n k s = c :: r /\ is_dig c = true) /\
  exists j, 0 <= j /\
    rd_body false (layout_nks n k s) =
    Some {| d_neg := false; d_mant := s * 10 ^ j; d_exp := n - k - j |}.
Proof.
  intros n k s Hk Hs.
  assert (Hs0 : 0 < s).
  { assert (0 < 10 ^ (k - 1)) by (apply Z.pow_pos_nonneg; lia). lia. }
  destruct (dec_digits_correct s Hs0) as [Hall [Hv _]].
  pose proof (dec_digits_len s k Hk Hs) as Hlen.
  unfold layout_nks. remember (dec_digits s) as ds eqn:Eds. clear Eds. cbv zeta.
  assert (Hhd : exists c0 ds', ds = c0 :: ds' /\ is_dig c0 = true).
  { destruct ds as [|c0 ds']. unfold len in Hlen; cbn in Hlen; lia.
    exists c0, ds'. split; [reflexivity|]. now inversion Hall. }
  destruct ((k <=? n) && (n <=? 21)) eqn:C1.
  { (* integer with trailing zeros *)
    apply andb_true_iff in C1. rewrite !Z.leb_le in C1.
    split.
    { destruct Hhd as [c0 [ds' [-> Hc0]]]. cbn [app]. eauto. }
    exists (n - k). split; [lia|].
    rewrite rd_int.
    - apply mk_dec_eq; [|lia].
      rewrite dval_app, dval_zeros, Hv, Z2Nat.id by lia. reflexivity.
    - apply all_dig_app. split; [assumption|apply all_dig_zeros].
    - rewrite len_app. pose proof (len_nonneg (zeros (Z.to_nat (n - k)))). lia. }
  apply andb_false_iff in C1. rewrite !Z.leb_gt in C1.
  destruct ((0 <? n) && (n <=? 21)) eqn:C2.
  { (* digits . digits *)
    apply andb_true_iff in C2. rewrite Z.ltb_lt, Z.leb_le in C2.
    assert (Hnk : n < k) by lia.
    destruct (all_dig_firstn_skipn (Z.to_nat n) ds Hall) as [Hf Hsk].
    assert (Hlf : len (firstn (Z.to_nat n) ds) = n).
    { unfold len in *. rewrite firstn_length_le; lia. }
    assert (Hls : len (skipn (Z.to_nat n) ds) = k - n).
    { unfold len in *. rewrite skipn_length. lia. }
    split.
    { destruct Hhd as [c0 [ds' [-> Hc0]]].
      destruct (Z.to_nat n) as [|n0] eqn:En; [lia|]. cbn [firstn app]. eauto. }
    exists 0. split; [lia|].
    rewrite rd_frac by (try assumption; lia).
    apply mk_dec_eq; [|lia]. rewrite firstn_skipn, Hv. cbn. lia. }
  apply andb_false_iff in C2. rewrite Z.ltb_ge, Z.leb_gt in C2.
  destruct ((-6 <? n) && (n <=? 0)) eqn:C3.
  { (* 0.000ddd *)
    apply andb_true_iff in C3. rewrite Z.ltb_lt, Z.leb_le in C3.
    split. { cbn [app]. exists 0x30%N. eexists. split; reflexivity. }
    exists 0. split; [lia|].
    change ([48%N; 46%N] ++ zeros (Z.to_nat (- n)) ++ ds)
      with ([48%N] ++ [46%N] ++ (zeros (Z.to_nat (- n)) ++ ds)).
    rewrite rd_frac.
    - apply mk_dec_eq.
      + rewrite !dval_app, dval_zeros. change (dval [48%N] 0) with 0.
        rewrite Z.mul_0_l, Hv. cbn. lia.
      + rewrite len_app, len_zeros, Z2Nat.id by lia. lia.
    - constructor; [reflexivity|constructor].
    - apply all_dig_app. split; [apply all_dig_zeros|assumption].
    - cbn. lia. }
  apply andb_false_iff in C3. rewrite Z.ltb_ge, Z.leb_gt in C3.
  (* exponent notation *)
  assert (He : 0 < Z.abs (n - 1)) by lia.
  destruct (dec_digits_correct (Z.abs (n - 1)) He) as [Hea [Hev [_ Hel]]].
  set (es := dec_digits (Z.abs (n - 1))) in *.
  change (if 0 <=? n - 1 then [43%N] else [45%N]) with (sign_chars (0 <=? n - 1)).
  assert (Hsg : signed (0 <=? n - 1) (Z.abs (n - 1)) = n - 1).
  { destruct (Z.leb_spec 0 (n - 1)); cbn [signed]; lia. }
  destruct ds as [|d [|c1 r]].
  - unfold len in Hlen; cbn in Hlen; lia.
  - (* one digit *)
    assert (k = 1) by (unfold len in Hlen; cbn in Hlen; lia). subst k.
    split.
    { exists d. eexists. split; [reflexivity|]. now inversion Hall. }
    exists 0. split; [lia|].
    rewrite rd_exp1 by (try assumption; unfold len; cbn; lia).
    apply mk_dec_eq; [rewrite Hv; cbn; lia|]. rewrite Hev, Hsg. lia.
  - split.
    { exists d. eexists. split; [reflexivity|]. now inversion Hall. }
    exists 0. split; [lia|].
    change ([d; 46%N] ++ (c1 :: r) ++ [101%N] ++ sign_chars (0 <=? n - 1) ++ es)
      with ([d] ++ [46%N] ++ (c1 :: r) ++ [101%N] ++ sign_chars (0 <=? n - 1) ++ es).
    assert (Hd1 : all_dig [d]) by (inversion Hall; subst; constructor; [assumption|constructor]).
    assert (Hr : all_dig (c1 :: r)) by now inversion Hall.
    rewrite rd_exp2 by (try assumption; unfold len; cbn; lia).
    apply mk_dec_eq.
    + change ([d] ++ c1 :: r) with (d :: c1 :: r). rewrite Hv. cbn. lia.
    + rewrite Hev, Hsg. rewrite len_cons in Hlen. lia.
Qed.

(* N3 *)
Theorem read_layout : forall (sg : bool) n k s, 1 <= k -> 10 ^ (k - 1) <= s < 10 ^ k ->
  exists j, 0 <= j /\
    read_decimal ((if sg then [0x2D%N] else []) ++ layout_nks n k s) =
    Some {| d_neg := sg; d_mant := s * 10 ^ j; d_exp := n - k - j |}.
Proof.
  intros sg n k s Hk Hs.
  destruct (layout_cases n k s Hk Hs) as [[c [r [E Hc]]] [j [Hj H]]].
  exists j. split; [exact Hj|].
  rewrite E in *.
  rewrite <- read_decimal_other in H by now apply is_dig_not_minus.
  destruct (read_decimal_signed sg c r _ Hc H) as [H1 _]. rewrite H1. reflexivity.
Qed.

Corollary read_layout_pos : forall n k s, 1 <= k -> 10 ^ (k - 1) <= s < 10 ^ k ->
  exists j, 0 <= j /\
    read_decimal (layout_nks n k s) =
    Some {| d_neg := false; d_mant := s * 10 ^ j; d_exp := n - k - j |}.
Proof. intros n k s Hk Hs. exact (read_layout false n k s Hk Hs). Qed.

(* ------------------------------------------------------------------ the digit search *)

(* the acceptance test `best` applies to a candidate (s, n') for digit count k *)
Definition cand_ok (d : spec_float) (k : Z) (c : Z * Z) : bool :=
  let '(s, n') := c in
  (10 ^ (k - 1) <=? s) && (s <? 10 ^ k) && sf_eqb (nearest_double_pos (Z.to_pos s) (n' - k)) d.

Definition best_step (d : spec_float) (num den k : Z) (acc : option (Z * Z)) (c : Z * Z) : option (Z * Z) :=
  let '(s, n') := c in
  if (10 ^ (k - 1) <=? s) && (s <? 10 ^ k)
     && sf_eqb (nearest_double_pos (Z.to_pos s) (n' - k)) d then
    match acc with
    | None => Some c
    | Some (s0, n0) =>
        let d0 := dist s0 (n0 - k) num den in
        let d1 := dist s (n' - k) num den in
        if dist_lt d1 d0 then Some c else if dist_eq d1 d0 && Z.even s then Some c else acc
    end
  else acc.

Lemma best_unfold : forall d num den k cs,
  best d num den k cs = fold_left (best_step d num den k) cs None.
Proof. reflexivity. Qed.

Lemma best_step_cases : forall d num den k acc c,
  (best_step d num den k acc c = acc /\ (cand_ok d k c = true -> acc <> None)) \/
  (best_step d num den k acc c = Some c /\ cand_ok d k c = true).
Proof.
  intros d num den k acc [s n']. unfold best_step, cand_ok.
  destruct ((10 ^ (k - 1) <=? s) && (s <? 10 ^ k)
            && sf_eqb (nearest_double_pos (Z.to_pos s) (n' - k)) d).
  - destruct acc as [[s0 n0]|]; [|right; split; reflexivity].
    cbv zeta. destruct (dist_lt _ _); [right; split; reflexivity|].
    destruct (dist_eq _ _ && Z.even s); [right; split; reflexivity|].
    left. split; [reflexivity|discriminate].
  - left. split; [reflexivity|discriminate].
Qed.

Lemma fold_best_some : forall d num den k cs acc r,
  fold_left (best_step d num den k) cs acc = Some r ->
  acc = Some r \/ (In r cs /\ cand_ok d k r = true).
Proof.
  induction cs as [|c cs IH]; intros acc r H.
  - left. exact H.
  - cbn [fold_left] in H. destruct (IH _ _ H) as [H1|[H1 H2]].
    + destruct (best_step_cases d num den k acc c) as [[E _]|[E Hok]].
      * left. congruence.
      * right. rewrite E in H1. injection H1 as <-. split; [left; reflexivity|exact Hok].
    + right. split; [right; exact H1|exact H2].
Qed.

Lemma fold_best_none : forall d num den k cs acc,
  fold_left (best_step d num den k) cs acc = None ->
  acc = None /\ forall c, In c cs -> cand_ok d k c = false.
Proof.
  induction cs as [|c cs IH]; intros acc H.
  - split; [exact H|]. intros c [].
  - cbn [fold_left] in H. destruct (IH _ H) as [H1 H2].
    destruct (best_step_cases d num den k acc c) as [[E Hn]|[E Hok]].
    + rewrite E in H1. split; [exact H1|]. intros c' [<-|Hin]; [|now apply H2].
      destruct (cand_ok d k c) eqn:Ec; [|reflexivity]. now elim (Hn eq_refl).
    + congruence.
Qed.

Lemma fold_best_none_conv : forall d num den k cs,
  (forall c, In c cs -> cand_ok d k c = false) ->
  fold_left (best_step d num den k) cs None = None.
Proof.
  induction cs as [|c cs IH]; intros H; [reflexivity|].
  cbn [fold_left].
  destruct (best_step_cases d num den k None c) as [[E _]|[_ Hok]].
  - rewrite E. apply IH. intros c' Hc'. apply H. now right.
  - rewrite (H c (or_introl eq_refl)) in Hok. discriminate.
Qed.

Theorem best_some : forall d num den k cs s n',
  best d num den k cs = Some (s, n') ->
  In (s, n') cs /\ 10 ^ (k - 1) <= s < 10 ^ k /\
  nearest_double_pos (Z.to_pos s) (n' - k) = d.
Proof.
  intros d num den k cs s n' H. rewrite best_unfold in H.
  destruct (fold_best_some _ _ _ _ _ _ _ H) as [H1|[H1 H2]]; [discriminate|].
  split; [exact H1|]. unfold cand_ok in H2.
  rewrite !andb_true_iff, Z.leb_le, Z.ltb_lt in H2. destruct H2 as [[Ha Hb] Hc].
  split; [lia|]. now apply sf_eqb_eq.
Qed.

Theorem best_none_iff : forall d num den k cs,
  best d num den k cs = None <-> forall c, In c cs -> cand_ok d k c = false.
Proof.
  intros. rewrite best_unfold. split.
  - intros H. now apply fold_best_none in H.
  - apply fold_best_none_conv.
Qed.

Lemma search_some : forall fuel d num den n k n' k' s,
  search fuel d num den n k = Some (n', k', s) ->
  k <= k' < k + Z.of_nat fuel /\
  best d num den k' (cands num den n k') = Some (s, n') /\
  forall k'', k <= k'' < k' -> best d num den k'' (cands num den n k'') = None.
Proof.
  induction fuel as [|f IH]; intros d num den n k n' k' s H; [discriminate|].
  cbn [search] in H.
  destruct (best d num den k (cands num den n k)) as [[s0 n0]|] eqn:B.
  - injection H as <- <- <-. split; [lia|]. split; [exact B|]. intros; lia.
  - destruct (IH _ _ _ _ _ _ _ _ H) as [H1 [H2 H3]].
    split; [lia|]. split; [exact H2|].
    intros k'' Hk''. destruct (Z.eq_dec k'' k) as [->|Hne]; [exact B|]. apply H3. lia.
Qed.

(* the parameters nks hands to the search *)
Definition nks_num (m : positive) (e : Z) : Z := Zpos m * fst (scale2 e).
Definition nks_den (e : Z) : Z := snd (scale2 e).
Definition nks_n0 (m : positive) (e : Z) : Z :=
  find_n 700 (nks_num m e) (nks_den e)
         ((Z.log2 (nks_num m e) - Z.log2 (nks_den e)) * 30103 / 100000 + 1).

Lemma nks_unfold : forall m e,
  nks m e = search 17 (S754_finite false m e) (nks_num m e) (nks_den e) (nks_n0 m e) 1.
Proof.
  intros m e. unfold nks, nks_n0, nks_num, nks_den. destruct (scale2 e) as [sn sd]. reflexivity.
Qed.

Theorem nks_some : forall m e n k s, nks m e = Some (n, k, s) ->
  1 <= k <= 17 /\ 10 ^ (k - 1) <= s < 10 ^ k /\
  nearest_double_pos (Z.to_pos s) (n - k) = S754_finite false m e.
Proof.
  intros m e n k s H. rewrite nks_unfold in H.
  destruct (search_some _ _ _ _ _ _ _ _ _ H) as [H1 [H2 _]].
  apply best_some in H2. destruct H2 as [_ [H2 H3]].
  split; [lia|]. split; assumption.
Qed.

(* N7: no candidate with fewer digits round-trips *)
Theorem nks_minimal : forall m e n k s, nks m e = Some (n, k, s) ->
  forall k' c, 1 <= k' < k ->
  In c (cands (nks_num m e) (nks_den e) (nks_n0 m e) k') ->
  cand_ok (S754_finite false m e) k' c = false.
Proof.
  intros m e n k s H k' c Hk' Hin. rewrite nks_unfold in H.
  destruct (search_some _ _ _ _ _ _ _ _ _ H) as [_ [_ H3]].
  specialize (H3 k' Hk'). rewrite best_none_iff in H3. now apply H3.
Qed.

(* and the result is one of the two candidates for its digit count *)
Theorem nks_candidate : forall m e n k s, nks m e = Some (n, k, s) ->
  In (s, n) (cands (nks_num m e) (nks_den e) (nks_n0 m e) k) /\
  cand_ok (S754_finite false m e) k (s, n) = true.
Proof.
  intros m e n k s H. rewrite nks_unfold in H.
  destruct (search_some _ _ _ _ _ _ _ _ _ H) as [_ [H2 _]].
  rewrite best_unfold in H2.
  destruct (fold_best_some _ _ _ _ _ _ _ H2) as [?|?]; [discriminate|assumption].
Qed.

(* ------------------------------------------------------------------ N4: round trip *)

Definition drop_zero_sign (x : spec_float) : spec_float :=
  match x with S754_zero _ => S754_zero false | _ => x end.

Theorem ecma_round_trip : forall x t, ecma_to_string x = Some t ->
  exists d, read_decimal t = Some d /\ nearest_double d = drop_zero_sign x.
Proof.
  intros [s0|s0| |s0 m e] t H; cbn [ecma_to_string] in H; try discriminate.
  - injection H as <-. eexists. split; reflexivity.
  - destruct (nks m e) as [[[n k] s]|] eqn:E; [|discriminate]. injection H as <-.
    destruct (nks_some _ _ _ _ _ E) as [Hk [Hs Hrt]].
    destruct (read_layout s0 n k s ltac:(lia) Hs) as [j [Hj Hr]].
    eexists. split; [exact Hr|].
    unfold nearest_double. cbn [d_mant d_exp d_neg drop_zero_sign].
    assert (Hs0 : 0 < s).
    { assert (0 < 10 ^ (k - 1)) by (apply Z.pow_pos_nonneg; lia). lia. }
    destruct s as [|ps|ps]; try lia.
    replace (Zpos ps * 10 ^ j) with (Zpos (ps * Z.to_pos (10 ^ j)))
      by (rewrite Pos2Z.inj_mul, Z2Pos.id; [reflexivity|apply Z.pow_pos_nonneg; lia]).
    cbv iota. rewrite nearest_double_pos_shift by exact Hj.
    replace (n - k - j + j) with (n - k) by lia.
    change (Z.to_pos (Zpos ps)) with ps in Hrt. rewrite Hrt.
    destruct s0; reflexivity.
Qed.

Lemma ecma_drop_zero_sign : forall x, ecma_to_string (drop_zero_sign x) = ecma_to_string x.
Proof. intros [s|s| |s m e]; reflexivity. Qed.

(* ------------------------------------------------------------------ N5 *)

Theorem canon_number_idempotent : forall n t, canon_number n = Some t -> canon_number t = Some t.
Proof.
  intros n t. unfold canon_number.
  destruct (read_decimal n) as [d|]; [|discriminate]. intros H.
  destruct (ecma_round_trip _ _ H) as [d' [Hr Hn]].
  rewrite Hr, Hn, ecma_drop_zero_sign. exact H.
Qed.

Theorem canon_number_keeps_double : forall n t, canon_number n = Some t ->
  exists d d', read_decimal n = Some d /\ read_decimal t = Some d' /\
               nearest_double d' = drop_zero_sign (nearest_double d).
Proof.
  intros n t. unfold canon_number.
  destruct (read_decimal n) as [d|]; [|discriminate]. intros H.
  destruct (ecma_round_trip _ _ H) as [d' [Hr Hn]].
  exists d, d'. repeat split; assumption.
Qed.

(* in the disjunctive form: same double, or both are zeros *)
Corollary canon_number_keeps_double' : forall n t, canon_number n = Some t ->
  exists d d', read_decimal n = Some d /\ read_decimal t = Some d' /\
    (nearest_double d' = nearest_double d \/
     exists s, nearest_double d = S754_zero s /\ nearest_double d' = S754_zero false).
Proof.
  intros n t H. destruct (canon_number_keeps_double n t H) as [d [d' [H1 [H2 H3]]]].
  exists d, d'. split; [exact H1|]. split; [exact H2|].
  destruct (nearest_double d) as [s|s| |s m e] eqn:E; cbn in H3; eauto.
Qed.

(* ------------------------------------------------------------------ N6 *)

(* same sign and same exact value  d_mant * 10^d_exp, cross-multiplied into Z *)
Definition dec_equiv (d d' : decimal) : Prop :=
  d_neg d = d_neg d' /\
  d_mant d * 10 ^ (d_exp d - Z.min (d_exp d) (d_exp d')) =
  d_mant d' * 10 ^ (d_exp d' - Z.min (d_exp d) (d_exp d')).

Theorem nearest_double_equiv : forall d d', dec_equiv d d' -> nearest_double d = nearest_double d'.
Proof.
  intros [ng m e] [ng' m' e']. unfold dec_equiv, nearest_double.
  cbn [d_neg d_mant d_exp]. intros [<- H].
  assert (Ha : 0 < 10 ^ (e - Z.min e e')) by (apply Z.pow_pos_nonneg; lia).
  assert (Hb : 0 < 10 ^ (e' - Z.min e e')) by (apply Z.pow_pos_nonneg; lia).
  destruct m as [|p|p], m' as [|p'|p']; try reflexivity; try (exfalso; nia).
  rewrite (nearest_double_pos_cross _ _ _ _ H). reflexivity.
Qed.

Theorem canon_number_spelling : forall n n' d d',
  read_decimal n = Some d -> read_decimal n' = Some d' -> dec_equiv d d' ->
  canon_number n = canon_number n'.
Proof.
  intros n n' d d' H H' E. unfold canon_number. rewrite H, H'.
  now rewrite (nearest_double_equiv d d' E).
Qed.

(* the converse direction that matters for C10: equal doubles give equal renderings *)
Theorem canon_number_same_double : forall n n' d d',
  read_decimal n = Some d -> read_decimal n' = Some d' ->
  nearest_double d = nearest_double d' -> canon_number n = canon_number n'.
Proof. intros n n' d d' H H' E. unfold canon_number. now rewrite H, H', E. Qed.

Lemma dec_equiv_refl : forall d, dec_equiv d d.
Proof. intros d. split; reflexivity. Qed.

Lemma dec_equiv_sym : forall d d', dec_equiv d d' -> dec_equiv d' d.
Proof. intros d d' [H1 H2]. split; [now symmetry|]. rewrite (Z.min_comm (d_exp d') (d_exp d)). now symmetry. Qed.

(* moving powers of ten between mantissa and exponent *)
Lemma dec_equiv_shift : forall ng m e j, 0 <= j ->
  dec_equiv {| d_neg := ng; d_mant := m * 10 ^ j; d_exp := e |}
            {| d_neg := ng; d_mant := m; d_exp := e + j |}.
Proof.
  intros ng m e j Hj. split; [reflexivity|]. cbn [d_mant d_exp].
  replace (Z.min e (e + j)) with e by lia.
  replace (e - e) with 0 by lia. replace (e + j - e) with j by lia. cbn. lia.
Qed.

(* ------------------------------------------------------------------ reading any well-formed spelling *)

(* the exponent part of read_decimal *)
Definition rd_tail (neg : bool) (m fc : Z) (l2 : list N) : option decimal :=
  match l2 with
  | [] => Some {| d_neg := neg; d_mant := m; d_exp := - fc |}
  | e :: r =>
      if (N.eqb e 0x65 || N.eqb e 0x45)%bool then
        let '(eneg, l3) := match r with
                           | 0x2D%N :: r' => (true, r')
                           | 0x2B%N :: r' => (false, r')
                           | _ => (false, r)
                           end in
        let '(ev, ec, l4) := read_digits l3 0 0 in
        match l4 with
        | [] => if ec =? 0 then None
                else Some {| d_neg := neg; d_mant := m; d_exp := (if eneg then - ev else ev) - fc |}
        | _ => None
        end
      else None
  end.

Lemma rd_body_tail : forall neg l0,
  rd_body neg l0 =
  let '(ip, ic, l1) := read_digits l0 0 0 in
  if ic =? 0 then None else
  let '(m, fc, l2) :=
    match l1 with
    | 0x2E%N :: r => let '(m, c, l) := read_digits r ip 0 in (m, c, l)
    | _ => (ip, 0, l1)
    end in
  rd_tail neg m fc l2.
Proof. reflexivity. Qed.

Definition no_dot (l : list N) : Prop := match l with c :: _ => c <> 0x2E%N | [] => True end.

(* integer part only, then the tail *)
Lemma rd_body_int_tail : forall neg a rest, all_dig a -> 1 <= len a -> stops rest -> no_dot rest ->
  rd_body neg (a ++ rest) = rd_tail neg (dval a 0) 0 rest.
Proof.
  intros neg a rest Ha Hl Hs Hn. rewrite rd_body_tail.
  rewrite read_digits_app by assumption. cbv beta iota zeta.
  rewrite len_pos_neq0 by assumption.
  destruct rest as [|c r]; [reflexivity|]. cbn in Hn.
  destruct c as [|p]; [reflexivity|].
  repeat match goal with p : positive |- _ => destruct p; try reflexivity end.
  now elim Hn.
Qed.

(* integer part, fraction, then the tail *)
Lemma rd_body_frac_tail : forall neg a b rest, all_dig a -> all_dig b -> 1 <= len a -> stops rest ->
  rd_body neg (a ++ [0x2E%N] ++ b ++ rest) = rd_tail neg (dval (a ++ b) 0) (len b) rest.
Proof.
  intros neg a b rest Ha Hb Hl Hs. rewrite rd_body_tail. cbn [app].
  rewrite read_digits_app by (try assumption; reflexivity). cbv beta iota zeta.
  rewrite len_pos_neq0 by assumption.
  rewrite read_digits_app by assumption. cbv beta iota zeta.
  rewrite dval_app, Z.add_0_l. reflexivity.
Qed.

(* exponent marker (upper/lower case), optional sign character, digits *)
Definition exp_sign_chars (sgn : option bool) : list N :=
  match sgn with Some true => [0x2B%N] | Some false => [0x2D%N] | None => [] end.
Definition exp_chars (upper : bool) (sgn : option bool) (es : list N) : list N :=
  [if upper then 0x45%N else 0x65%N] ++ exp_sign_chars sgn ++ es.
Definition exp_val (sgn : option bool) (es : list N) : Z :=
  match sgn with Some false => - dval es 0 | _ => dval es 0 end.

Lemma sign_match_digit : forall c r, is_dig c = true ->
  match c :: r with
  | 0x2D%N :: r' => (true, r')
  | 0x2B%N :: r' => (false, r')
  | _ => (false, c :: r)
  end = (false, c :: r).
Proof.
  intros c r H. destruct c as [|p]; [reflexivity|].
  repeat match goal with p : positive |- _ => destruct p; try reflexivity end; discriminate H.
Qed.

Lemma rd_tail_exp : forall neg m fc upper sgn es, all_dig es -> 1 <= len es ->
  rd_tail neg m fc (exp_chars upper sgn es) =
  Some {| d_neg := neg; d_mant := m; d_exp := exp_val sgn es - fc |}.
Proof.
  intros neg m fc upper sgn es Hes Hl. unfold exp_chars, rd_tail. cbn [app].
  assert (Hm : (N.eqb (if upper then 69%N else 101%N) 101 || N.eqb (if upper then 69%N else 101%N) 69)%bool = true)
    by (destruct upper; reflexivity).
  rewrite Hm. clear Hm.
  destruct sgn as [[|]|]; cbn [exp_sign_chars app exp_val].
  - cbv beta iota zeta. rewrite read_digits_all by assumption. cbv beta iota zeta.
    rewrite len_pos_neq0 by assumption. reflexivity.
  - cbv beta iota zeta. rewrite read_digits_all by assumption. cbv beta iota zeta.
    rewrite len_pos_neq0 by assumption. reflexivity.
  - destruct es as [|c es']. { unfold len in Hl; cbn in Hl; lia. }
    rewrite sign_match_digit by now inversion Hes.
    cbv beta iota zeta. rewrite read_digits_all by assumption. cbv beta iota zeta.
    rewrite len_pos_neq0 by assumption. reflexivity.
Qed.

(* A JSON number spelling, structurally. *)
Record spelling := {
  sp_neg  : bool;
  sp_int  : list N;                                  (* at least one digit *)
  sp_frac : option (list N);                         (* digits after "." *)
  sp_exp  : option (bool * option bool * list N)     (* upper-case E?, sign char, digits *)
}.

Definition render (sp : spelling) : list N :=
  (if sp_neg sp then [0x2D%N] else []) ++ sp_int sp ++
  (match sp_frac sp with Some b => [0x2E%N] ++ b | None => [] end) ++
  (match sp_exp sp with Some (up, sgn, es) => exp_chars up sgn es | None => [] end).

Definition spelling_wf (sp : spelling) : Prop :=
  all_dig (sp_int sp) /\ 1 <= len (sp_int sp) /\
  (match sp_frac sp with Some b => all_dig b | None => True end) /\
  (match sp_exp sp with Some (_, _, es) => all_dig es /\ 1 <= len es | None => True end).

(* the exact decimal a spelling denotes *)
Definition spelling_decimal (sp : spelling) : decimal :=
  let b := match sp_frac sp with Some b => b | None => [] end in
  {| d_neg := sp_neg sp;
     d_mant := dval (sp_int sp ++ b) 0;
     d_exp := (match sp_exp sp with Some (_, sgn, es) => exp_val sgn es | None => 0 end) - len b |}.

Lemma stops_exp_chars : forall up sgn es, stops (exp_chars up sgn es).
Proof. intros [|] sgn es; reflexivity. Qed.

Lemma no_dot_exp_chars : forall up sgn es, no_dot (exp_chars up sgn es).
Proof. intros [|] sgn es; cbn; discriminate. Qed.

Lemma rd_body_render : forall neg a fr ex,
  spelling_wf {| sp_neg := neg; sp_int := a; sp_frac := fr; sp_exp := ex |} ->
  rd_body neg (a ++ (match fr with Some b => [0x2E%N] ++ b | None => [] end) ++
                    (match ex with Some (up, sgn, es) => exp_chars up sgn es | None => [] end)) =
  Some (spelling_decimal {| sp_neg := neg; sp_int := a; sp_frac := fr; sp_exp := ex |}).
Proof.
  intros neg a fr ex [Ha [Hl [Hf He]]]. cbn [sp_int sp_frac sp_exp] in *.
  unfold spelling_decimal. cbn [sp_neg sp_int sp_frac sp_exp].
  destruct fr as [b|]; destruct ex as [[[up sgn] es]|].
  - destruct He as [He1 He2]. rewrite <- app_assoc.
    rewrite rd_body_frac_tail by (try assumption; apply stops_exp_chars).
    now rewrite rd_tail_exp.
  - rewrite <- app_assoc. rewrite rd_body_frac_tail by (try assumption; exact I).
    cbn [rd_tail]. apply mk_dec_eq; [reflexivity|lia].
  - destruct He as [He1 He2]. cbn [app].
    rewrite rd_body_int_tail
      by first [assumption | apply stops_exp_chars | apply no_dot_exp_chars].
    rewrite rd_tail_exp by assumption. rewrite app_nil_r. reflexivity.
  - cbn [app]. rewrite !app_nil_r.
    rewrite rd_body_neg, rd_int by assumption. reflexivity.
Qed.

Lemma read_decimal_digit_first : forall a X, all_dig a -> 1 <= len a ->
  read_decimal (a ++ X) = rd_body false (a ++ X).
Proof.
  intros [|c a'] X Ha Hl. { unfold len in Hl; cbn in Hl; lia. }
  cbn [app]. apply read_decimal_other. apply is_dig_not_minus. now inversion Ha.
Qed.

(* read_decimal on every well-formed spelling, in closed form *)
Theorem read_render : forall sp, spelling_wf sp ->
  read_decimal (render sp) = Some (spelling_decimal sp).
Proof.
  intros [neg a fr ex] Hwf. unfold render. cbn [sp_neg sp_int sp_frac sp_exp].
  pose proof Hwf as [Ha [Hl _]]. cbn [sp_int] in Ha, Hl.
  destruct neg; cbn [app].
  - rewrite read_decimal_minus. now apply rd_body_render.
  - rewrite read_decimal_digit_first by assumption. now apply rd_body_render.
Qed.

(* N6 for structured spellings *)
Theorem canon_render_equiv : forall sp sp', spelling_wf sp -> spelling_wf sp' ->
  dec_equiv (spelling_decimal sp) (spelling_decimal sp') ->
  canon_number (render sp) = canon_number (render sp').
Proof.
  intros sp sp' H H' E.
  apply (canon_number_spelling _ _ _ _ (read_render sp H) (read_render sp' H') E).
Qed.

Lemma dec_equiv_eq : forall d d', d = d' -> dec_equiv d d'.
Proof. intros d d' <-. apply dec_equiv_refl. Qed.

(* ---- the respellings of C10, for arbitrary well-formed spellings ---- *)

(* "E" versus "e" *)
Theorem canon_exp_marker : forall neg a fr up sgn es,
  let sp u := {| sp_neg := neg; sp_int := a; sp_frac := fr; sp_exp := Some (u, sgn, es) |} in
  spelling_wf (sp up) ->
  canon_number (render (sp up)) = canon_number (render (sp (negb up))).
Proof.
  intros neg a fr up sgn es sp H. apply canon_render_equiv; [exact H|exact H|].
  apply dec_equiv_eq. reflexivity.
Qed.

(* "e+12" versus "e12" *)
Theorem canon_exp_plus : forall neg a fr up es,
  let sp sg := {| sp_neg := neg; sp_int := a; sp_frac := fr; sp_exp := Some (up, sg, es) |} in
  spelling_wf (sp None) ->
  canon_number (render (sp (Some true))) = canon_number (render (sp None)).
Proof.
  intros neg a fr up es sp H. apply canon_render_equiv; [exact H|exact H|].
  apply dec_equiv_eq. reflexivity.
Qed.

(* a leading zero in the exponent: "e05" versus "e5" *)
Theorem canon_exp_leading_zero : forall neg a fr up sgn es,
  let sp x := {| sp_neg := neg; sp_int := a; sp_frac := fr; sp_exp := Some (up, sgn, x) |} in
  spelling_wf (sp es) ->
  canon_number (render (sp (0x30%N :: es))) = canon_number (render (sp es)).
Proof.
  intros neg a fr up sgn es sp H.
  assert (H' : spelling_wf (sp (0x30%N :: es))).
  { destruct H as [H1 [H2 [H3 [H4 H5]]]]. repeat split; try assumption.
    - constructor; [reflexivity|exact H4].
    - cbn [sp_exp sp] in *. rewrite len_cons. lia. }
  apply canon_render_equiv; [exact H'|exact H|].
  apply dec_equiv_eq. unfold spelling_decimal. cbn [sp sp_neg sp_int sp_frac sp_exp].
  destruct sgn as [[|]|]; reflexivity.
Qed.

(* no exponent versus an exponent of zero: "1.5" versus "1.5e0", "1.5E+0", "1.5e-0" *)
Theorem canon_exp_zero : forall neg a fr up sgn,
  let sp x := {| sp_neg := neg; sp_int := a; sp_frac := fr; sp_exp := x |} in
  spelling_wf (sp None) ->
  canon_number (render (sp (Some (up, sgn, [0x30%N])))) = canon_number (render (sp None)).
Proof.
  intros neg a fr up sgn sp H.
  assert (H' : spelling_wf (sp (Some (up, sgn, [0x30%N])))).
  { destruct H as [H1 [H2 [H3 _]]]. repeat split; try assumption.
    - constructor; [reflexivity|constructor].
    - unfold len; cbn; lia. }
  apply canon_render_equiv; [exact H'|exact H|].
  apply dec_equiv_eq. unfold spelling_decimal. cbn [sp sp_neg sp_int sp_frac sp_exp].
  destruct sgn as [[|]|]; reflexivity.
Qed.

(* a trailing zero after the fraction: "1.50" versus "1.5" *)
Theorem canon_frac_trailing_zero : forall neg a b ex,
  let sp x := {| sp_neg := neg; sp_int := a; sp_frac := Some x; sp_exp := ex |} in
  spelling_wf (sp b) ->
  canon_number (render (sp (b ++ [0x30%N]))) = canon_number (render (sp b)).
Proof.
  intros neg a b ex sp H.
  assert (H' : spelling_wf (sp (b ++ [0x30%N]))).
  { destruct H as [H1 [H2 [H3 H4]]]. repeat split; try assumption.
    cbn [sp sp_frac] in *. apply all_dig_app. split; [assumption|].
    constructor; [reflexivity|constructor]. }
  apply canon_render_equiv; [exact H'|exact H|].
  unfold spelling_decimal. cbn [sp sp_neg sp_int sp_frac sp_exp].
  rewrite app_assoc, dval_app, len_app. change (len [48%N]) with 1.
  cbn [dval fold_left]. change (dig_val 48) with 0. rewrite Z.add_0_r.
  fold (dval (a ++ b) 0).
  set (X := match ex with Some (_, sgn, es) => exp_val sgn es | None => 0 end).
  change (dval (a ++ b) 0 * 10) with (dval (a ++ b) 0 * 10 ^ 1).
  replace (X - len b) with (X - (len b + 1) + 1) by lia.
  apply dec_equiv_shift. lia.
Qed.

(* no fraction versus ".0": "15" versus "15.0" *)
Theorem canon_frac_zero : forall neg a ex,
  let sp x := {| sp_neg := neg; sp_int := a; sp_frac := x; sp_exp := ex |} in
  spelling_wf (sp None) ->
  canon_number (render (sp (Some [0x30%N]))) = canon_number (render (sp None)).
Proof.
  intros neg a ex sp H.
  assert (H0 : spelling_wf (sp (Some []))).
  { destruct H as [H1 [H2 [_ H4]]]. repeat split; try assumption. constructor. }
  transitivity (canon_number (render (sp (Some [])))).
  - exact (canon_frac_trailing_zero neg a [] ex H0).
  - apply canon_render_equiv; [exact H0|exact H|].
    apply dec_equiv_eq. unfold spelling_decimal. cbn [sp sp_neg sp_int sp_frac sp_exp].
    reflexivity.
Qed.

(* moving the decimal point: "a.cb eX" versus "ac.b e(X-1)" *)
Theorem canon_point_shift : forall neg a c b up sgn es up' sgn' es',
  let sp  := {| sp_neg := neg; sp_int := a; sp_frac := Some (c :: b); sp_exp := Some (up, sgn, es) |} in
  let sp' := {| sp_neg := neg; sp_int := a ++ [c]; sp_frac := Some b; sp_exp := Some (up', sgn', es') |} in
  spelling_wf sp -> spelling_wf sp' ->
  exp_val sgn' es' = exp_val sgn es - 1 ->
  canon_number (render sp) = canon_number (render sp').
Proof.
  intros neg a c b up sgn es up' sgn' es' sp sp' H H' E.
  apply canon_render_equiv; [exact H|exact H'|].
  apply dec_equiv_eq. unfold spelling_decimal. cbn [sp sp' sp_neg sp_int sp_frac sp_exp].
  rewrite E, len_cons, <- app_assoc. cbn [app]. f_equal. lia.
Qed.

Print Assumptions dec_digits_correct.
Print Assumptions read_layout.
Print Assumptions ecma_round_trip.
Print Assumptions canon_number_idempotent.
Print Assumptions canon_number_keeps_double.
Print Assumptions canon_number_keeps_double'.
Print Assumptions nearest_double_equiv.
Print Assumptions canon_number_spelling.
Print Assumptions canon_number_same_double.
Print Assumptions nks_some.
Print Assumptions nks_minimal.
Print Assumptions nks_candidate.
Print Assumptions best_none_iff.
Print Assumptions read_render.
Print Assumptions canon_render_equiv.
Print Assumptions canon_exp_marker.
Print Assumptions canon_exp_plus.
Print Assumptions canon_exp_leading_zero.
Print Assumptions canon_exp_zero.
Print Assumptions canon_frac_trailing_zero.
Print Assumptions canon_frac_zero.
Print Assumptions canon_point_shift.
