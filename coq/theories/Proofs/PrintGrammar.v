(* Proofs/PrintGrammar.v -- the reference layout (Spec/Layout.v) of a well-formed value
   is a strict JSON text (Spec/Grammar.v) denoting that value: the printing half of
   "printing round-trips". *)
From JsonSyntax Require Import Base.Prelude Base.Value Base.Unicode Base.Source
  Model.Printer Spec.Minimal Spec.Layout Spec.Grammar.

(* ---------- well-formed values: what the Rust API can construct ---------- *)
Definition scalars (s : list N) : Prop := Forall (fun c => is_scalar c = true) s.

Fixpoint wfv (v : value) : Prop :=
  match v with
  | VNull => True
  | VBool _ => True
  | VNum n => jnum n
  | VStr s => Forall (fun c => is_scalar c = true) s
  | VArr l =>
      (fix go (l : list value) : Prop :=
         match l with [] => True | x :: r => wfv x /\ go r end) l
  | VObj l =>
      (fix go (l : list (list N * value)) : Prop :=
         match l with
         | [] => True
         | e :: r => (Forall (fun c => is_scalar c = true) (fst e) /\ wfv (snd e)) /\ go r
         end) l
  end.

Lemma wfv_arr l : wfv (VArr l) <-> Forall wfv l.
Proof.
  induction l as [|x r IH].
  - split; intros _; [constructor|exact I].
  - change (wfv (VArr (x :: r))) with (wfv x /\ wfv (VArr r)).
    rewrite IH. split.
    + intros [Hx Hr]. constructor; assumption.
    + intros H. inversion H as [|? ? Hx Hr]; subst. split; assumption.
Qed.

Lemma wfv_obj l :
  wfv (VObj l) <-> Forall (fun e => scalars (fst e) /\ wfv (snd e)) l.
Proof.
  induction l as [|e r IH].
  - split; intros _; [constructor|exact I].
  - change (wfv (VObj (e :: r))) with ((scalars (fst e) /\ wfv (snd e)) /\ wfv (VObj r)).
    rewrite IH. split.
    + intros [He Hr]. constructor; assumption.
    + intros H. inversion H as [|? ? He Hr]; subst. split; assumption.
Qed.

(* ---------- string literals ---------- *)
Definition is_short_esc (c : N) : bool :=
  (c =? 8) || (c =? 9) || (c =? 10) || (c =? 12) || (c =? 13) || (c =? 34) || (c =? 92).

(* the element that [esc_min c] spells *)
Definition elem_of (c : N) : selem :=
  if is_short_esc c then Esc c else if c <? 0x20 then U16 c else Raw c.

Definition elem_val (e : selem) : N :=
  match e with Raw c => c | Esc c => c | U16 u => u end.

Definition no_surr (e : selem) : Prop :=
  match e with U16 u => is_surrogate u = false | _ => True end.

Lemma elem_val_of c : elem_val (elem_of c) = c.
Proof. unfold elem_of. destruct (is_short_esc c); [reflexivity|]. destruct (c <? 0x20); reflexivity. Qed.

Lemma elem_of_no_surr c : no_surr (elem_of c).
Proof.
  unfold elem_of. destruct (is_short_esc c); [exact I|].
  destruct (N.ltb_spec c 0x20) as [Hlt|Hge]; [|exact I].
  cbn [no_surr]. unfold is_surrogate. lia.
Qed.

(* decoding a sequence without surrogate code units is the map of the values *)
Lemma decode_no_surr o els :
  Forall no_surr els -> decode o els = Some (map elem_val els).
Proof.
  induction 1 as [|e r He _ IH]; [reflexivity|].
  destruct e as [c|c|u]; cbn [decode map elem_val].
  - rewrite IH. reflexivity.
  - rewrite IH. reflexivity.
  - cbn [no_surr] in He.
    assert (Hh : is_high u = false) by (unfold is_surrogate, is_high in *; lia).
    assert (Hl : is_low u = false) by (unfold is_surrogate, is_low in *; lia).
    rewrite Hh, Hl, IH. reflexivity.
Qed.

(* the 32 controls: the two lower-case hex digits give back c / 16 and c mod 16 *)
Definition ctl_ok (c : N) : bool :=
  match hexdig (hexd (c / 16)), hexdig (hexd (c mod 16)) with
  | Some a, Some b => (a =? c / 16) && (b =? c mod 16)
  | _, _ => false
  end.

Lemma ctl_ok_all c : c < 0x20 -> ctl_ok c = true.
Proof.
  intros Hc.
  assert (Hall : forallb ctl_ok (map N.of_nat (seq 0 32)) = true) by (vm_compute; reflexivity).
  rewrite forallb_forall in Hall. apply Hall.
  rewrite <- (N2Nat.id c). apply in_map. apply in_seq. lia.
Qed.

Lemma hexd_ctl c : c < 0x20 ->
  hexdig (hexd (c / 16)) = Some (c / 16) /\ hexdig (hexd (c mod 16)) = Some (c mod 16).
Proof.
  intros Hc. pose proof (ctl_ok_all c Hc) as H. unfold ctl_ok in H.
  destruct (hexdig (hexd (c / 16))) as [a|]; [|discriminate].
  destruct (hexdig (hexd (c mod 16))) as [b|]; [|discriminate].
  apply andb_true_iff in H. destruct H as [Ha Hb].
  apply N.eqb_eq in Ha. apply N.eqb_eq in Hb. subst. split; reflexivity.
Qed.

Lemma elem_src_u16_eq l u u' : elem_src l (U16 u') -> u' = u -> elem_src l (U16 u).
Proof. intros H E; subst; exact H. Qed.

(* one character of a string literal *)
Lemma esc_min_elem c : is_scalar c = true -> elem_src (esc_min c) (elem_of c).
Proof.
  intros Hs.
  destruct (N.eqb_spec c 8) as [->|N8]; [apply (es_esc 0x62 0x08); vm_compute; tauto|].
  destruct (N.eqb_spec c 9) as [->|N9]; [apply (es_esc 0x74 0x09); vm_compute; tauto|].
  destruct (N.eqb_spec c 10) as [->|N10]; [apply (es_esc 0x6E 0x0A); vm_compute; tauto|].
  destruct (N.eqb_spec c 12) as [->|N12]; [apply (es_esc 0x66 0x0C); vm_compute; tauto|].
  destruct (N.eqb_spec c 13) as [->|N13]; [apply (es_esc 0x72 0x0D); vm_compute; tauto|].
  destruct (N.eqb_spec c 34) as [->|N34]; [apply (es_esc 0x22 0x22); vm_compute; tauto|].
  destruct (N.eqb_spec c 92) as [->|N92]; [apply (es_esc 0x5C 0x5C); vm_compute; tauto|].
  assert (Hse : is_short_esc c = false) by (unfold is_short_esc; lia).
  assert (Hesc : esc_min c =
                 if c <? 0x20 then s2l "\u00" ++ [hexd (c / 16); hexd (c mod 16)] else [c]).
  { unfold esc_min.
    destruct (N.eqb_spec c 8); [contradiction|]. destruct (N.eqb_spec c 9); [contradiction|].
    destruct (N.eqb_spec c 10); [contradiction|]. destruct (N.eqb_spec c 12); [contradiction|].
    destruct (N.eqb_spec c 13); [contradiction|]. destruct (N.eqb_spec c 34); [contradiction|].
    destruct (N.eqb_spec c 92); [contradiction|]. reflexivity. }
  rewrite Hesc. unfold elem_of. rewrite Hse.
  destruct (N.ltb_spec c 0x20) as [Hlt|Hge].
  - destruct (hexd_ctl c Hlt) as [H1 H0].
    change (s2l "\u00" ++ [hexd (c / 16); hexd (c mod 16)])
      with [0x5C; 0x75; 0x30; 0x30; hexd (c / 16); hexd (c mod 16)].
    eapply elem_src_u16_eq.
    + apply (es_u 0x30 0x30 (hexd (c / 16)) (hexd (c mod 16)) 0 0 (c / 16) (c mod 16));
        [reflexivity|reflexivity|exact H1|exact H0].
    + pose proof (N.div_mod c 16). lia.
  - apply es_raw. unfold unescaped. unfold is_scalar in Hs. lia.
Qed.

Lemma quote_denotes : forall s,
  Forall (fun c => is_scalar c = true) s -> jstr strict (quote s) s.
Proof.
  intros s Hs. exists (map esc_min s), (map elem_of s). split; [|split].
  - induction Hs as [|c r Hc _ IH]; cbn [map]; constructor; [apply esc_min_elem; exact Hc|exact IH].
  - unfold quote. rewrite flat_map_concat_map. reflexivity.
  - rewrite decode_no_surr.
    + rewrite map_map. f_equal. rewrite <- (map_id s) at 2. apply map_ext. intros c. apply elem_val_of.
    + apply Forall_forall. intros e He. apply in_map_iff in He. destruct He as [c [<- _]].
      apply elem_of_no_surr.
Qed.

(* ---------- text_items ---------- *)
Lemma text_items_app a b : text_items (a ++ b) = text_items a ++ text_items b.
Proof. apply map_app. Qed.

Lemma text_items_cons c l : text_items (c :: l) = (c, utf8_len c) :: text_items l.
Proof. reflexivity. Qed.

Lemma cps_text_items l : cps (text_items l) = l.
Proof.
  induction l as [|c l IH]; [reflexivity|].
  unfold cps, text_items in *. cbn [map fst]. rewrite IH. reflexivity.
Qed.

(* ---------- white space ---------- *)
Definition wsN (l : list N) : Prop := Forall (fun c => ws_char c = true) l.

Lemma ws_text_items l : wsN l -> ws (text_items l).
Proof.
  intros H. induction H as [|c l Hc _ IH]; [constructor|].
  rewrite text_items_cons. constructor; [exact Hc|exact IH].
Qed.

Lemma wsN_nil : wsN [].
Proof. constructor. Qed.

Lemma wsN_app a b : wsN a -> wsN b -> wsN (a ++ b).
Proof. intros Ha Hb. apply Forall_app. split; assumption. Qed.

Lemma wsN_repeatN c n : ws_char c = true -> wsN (repeatN c n).
Proof. intros Hc. induction n as [|n IH]; cbn [repeatN]; constructor; assumption. Qed.

Lemma wsN_sp n : wsN (sp n).
Proof. apply wsN_repeatN. reflexivity. Qed.

Lemma wsN_unit_text i : wsN (unit_text i).
Proof. destruct i as [n|n]; cbn [unit_text]; apply wsN_repeatN; reflexivity. Qed.

Lemma wsN_indentation i d : wsN (indentation i d).
Proof.
  induction d as [|d IH]; cbn [indentation]; [constructor|].
  apply wsN_app; [apply wsN_unit_text|exact IH].
Qed.

Lemma wsN_LF : wsN [LF].
Proof. constructor; [reflexivity|constructor]. Qed.

Lemma ws_sp n : ws (text_items (sp n)).
Proof. apply ws_text_items, wsN_sp. Qed.

Lemma ws_indentation i d : ws (text_items (indentation i d)).
Proof. apply ws_text_items, wsN_indentation. Qed.

Lemma ws_LF : ws (text_items [LF]).
Proof. apply ws_text_items, wsN_LF. Qed.

(* ---------- generic builders ---------- *)
Lemma join_cons2 sep x y r : join sep (x :: y :: r) = x ++ sep ++ join sep (y :: r).
Proof. reflexivity. Qed.

(* a child text: white space, then a text denoting the child *)
Definition kid_ok (o : opts) (t : list N) (v : value) : Prop :=
  exists w t', t = w ++ t' /\ wsN w /\ exists m, jv o (text_items t') v m.

(* w0 t1 (wa "," wb t_i)* wend *)
Lemma jitems_join o kids vs :
  Forall2 (kid_ok o) kids vs -> kids <> [] ->
  forall w0 wa wb wend, wsN w0 -> wsN wa -> wsN wb -> wsN wend ->
  exists m, jitems o (text_items (w0 ++ join (wa ++ 0x2C :: wb) kids ++ wend)) vs m.
Proof.
  induction 1 as [|t v kids vs Hk Hr IH]; intros Hne w0 wa wb wend H0 Ha Hb He; [congruence|].
  destruct Hk as [w [t' [-> [Hw [m Hm]]]]].
  destruct kids as [|t2 kids2].
  - inversion Hr; subst. cbn [join].
    assert (E : w0 ++ (w ++ t') ++ wend = (w0 ++ w) ++ t' ++ wend)
      by (repeat rewrite <- app_assoc; reflexivity).
    rewrite E, (text_items_app (w0 ++ w)), (text_items_app t').
    eexists. apply ji_one; [apply ws_text_items, wsN_app; assumption|apply ws_text_items; assumption|exact Hm].
  - assert (Hne2 : t2 :: kids2 <> []) by discriminate.
    destruct (IH Hne2 wb wa wb wend Hb Ha Hb He) as [ms Hms].
    rewrite join_cons2.
    set (J := join (wa ++ 0x2C :: wb) (t2 :: kids2)) in *.
    assert (E : w0 ++ ((w ++ t') ++ (wa ++ 0x2C :: wb) ++ J) ++ wend
                = (w0 ++ w) ++ t' ++ wa ++ 0x2C :: (wb ++ J ++ wend)).
    { repeat rewrite <- app_assoc. cbn [app]. reflexivity. }
    rewrite E, (text_items_app (w0 ++ w)), (text_items_app t'), (text_items_app wa), text_items_cons.
    eexists. apply ji_cons;
      [apply ws_text_items, wsN_app; assumption|apply ws_text_items; assumption|reflexivity|exact Hm|exact Hms].
Qed.

Definition mem_ok (o : opts) (t : list N) (e : list N * value) : Prop :=
  exists w t', t = w ++ t' /\ wsN w /\ exists m, jentry o (text_items t') (fst e) (snd e) m.

Lemma jmembers_join o kids es :
  Forall2 (mem_ok o) kids es -> kids <> [] ->
  forall w0 wa wb wend, wsN w0 -> wsN wa -> wsN wb -> wsN wend ->
  exists m, jmembers o (text_items (w0 ++ join (wa ++ 0x2C :: wb) kids ++ wend)) es m.
Proof.
  induction 1 as [|t e kids es Hk Hr IH]; intros Hne w0 wa wb wend H0 Ha Hb He; [congruence|].
  destruct Hk as [w [t' [-> [Hw [m Hm]]]]]. destruct e as [k v]. cbn [fst snd] in Hm.
  destruct kids as [|t2 kids2].
  - inversion Hr; subst. cbn [join].
    assert (E : w0 ++ (w ++ t') ++ wend = (w0 ++ w) ++ t' ++ wend)
      by (repeat rewrite <- app_assoc; reflexivity).
    rewrite E, (text_items_app (w0 ++ w)), (text_items_app t').
    eexists. apply jm_one; [apply ws_text_items, wsN_app; assumption|apply ws_text_items; assumption|exact Hm].
  - assert (Hne2 : t2 :: kids2 <> []) by discriminate.
    destruct (IH Hne2 wb wa wb wend Hb Ha Hb He) as [ms Hms].
    rewrite join_cons2.
    set (J := join (wa ++ 0x2C :: wb) (t2 :: kids2)) in *.
    assert (E : w0 ++ ((w ++ t') ++ (wa ++ 0x2C :: wb) ++ J) ++ wend
                = (w0 ++ w) ++ t' ++ wa ++ 0x2C :: (wb ++ J ++ wend)).
    { repeat rewrite <- app_assoc. cbn [app]. reflexivity. }
    rewrite E, (text_items_app (w0 ++ w)), (text_items_app t'), (text_items_app wa), text_items_cons.
    eexists. apply jm_cons;
      [apply ws_text_items, wsN_app; assumption|apply ws_text_items; assumption|reflexivity|exact Hm|exact Hms].
Qed.

(* string ws ":" ws value *)
Lemma jentry_build k v t wa wb :
  scalars k -> wsN wa -> wsN wb -> (exists m, jv strict (text_items t) v m) ->
  exists m, jentry strict (text_items (quote k ++ wa ++ [0x3A] ++ wb ++ t)) k v m.
Proof.
  intros Hk Ha Hb [m Hm].
  change (quote k ++ wa ++ [0x3A] ++ wb ++ t) with (quote k ++ wa ++ 0x3A :: wb ++ t).
  rewrite (text_items_app (quote k)), (text_items_app wa), text_items_cons, (text_items_app wb).
  eexists. apply je; [|apply ws_text_items; assumption|apply ws_text_items; assumption|reflexivity|exact Hm].
  rewrite cps_text_items. apply quote_denotes. exact Hk.
Qed.

(* brackets *)
Lemma jv_arr0_build w : wsN w ->
  exists m, jv strict (text_items ([0x5B] ++ w ++ [0x5D])) (VArr []) m.
Proof.
  intros Hw. change ([0x5B] ++ w ++ [0x5D]) with (0x5B :: w ++ [0x5D]).
  rewrite text_items_cons, text_items_app. eexists.
  apply jv_arr0; [reflexivity|reflexivity|apply ws_text_items; exact Hw].
Qed.

Lemma jv_arr_build t vs : (exists m, jitems strict (text_items t) vs m) ->
  exists m, jv strict (text_items ([0x5B] ++ t ++ [0x5D])) (VArr vs) m.
Proof.
  intros [m Hm]. change ([0x5B] ++ t ++ [0x5D]) with (0x5B :: t ++ [0x5D]).
  rewrite text_items_cons, text_items_app. eexists.
  apply jv_arr; [reflexivity|reflexivity|exact Hm].
Qed.

Lemma jv_obj0_build w : wsN w ->
  exists m, jv strict (text_items ([0x7B] ++ w ++ [0x7D])) (VObj []) m.
Proof.
  intros Hw. change ([0x7B] ++ w ++ [0x7D]) with (0x7B :: w ++ [0x7D]).
  rewrite text_items_cons, text_items_app. eexists.
  apply jv_obj0; [reflexivity|reflexivity|apply ws_text_items; exact Hw].
Qed.

Lemma jv_obj_build t es : (exists m, jmembers strict (text_items t) es m) ->
  exists m, jv strict (text_items ([0x7B] ++ t ++ [0x7D])) (VObj es) m.
Proof.
  intros [m Hm]. change ([0x7B] ++ t ++ [0x7D]) with (0x7B :: t ++ [0x7D]).
  rewrite text_items_cons, text_items_app. eexists.
  apply jv_obj; [reflexivity|reflexivity|exact Hm].
Qed.

(* ---------- the two shapes of a printed container ---------- *)
Lemma layout_arr_nil o depth :
  fst (layout o depth (VArr [])) = [0x5B] ++ sp (array_empty o) ++ [0x5D]
  \/ fst (layout o depth (VArr [])) = [0x5B] ++ ([LF] ++ indentation (p_indent o) depth) ++ [0x5D].
Proof.
  cbn [layout map forallb andb].
  destruct (fits _ _ _); [left|right]; reflexivity.
Qed.

Lemma layout_arr_cons o depth x r :
  let ts := map (fun v => fst (layout o (S depth) v)) (x :: r) in
  fst (layout o depth (VArr (x :: r)))
    = [0x5B] ++ (sp (array_begin o)
                   ++ join (sp (array_before_comma o) ++ 0x2C :: sp (array_after_comma o)) ts
                   ++ sp (array_end o)) ++ [0x5D]
  \/ fst (layout o depth (VArr (x :: r)))
    = [0x5B] ++ ([LF]
                   ++ join (sp (array_before_comma o) ++ 0x2C :: [LF])
                        (map (fun t => indentation (p_indent o) (S depth) ++ t) ts)
                   ++ ([LF] ++ indentation (p_indent o) depth)) ++ [0x5D].
Proof.
  intros ts. cbn [layout].
  set (kids := map (layout o (S depth)) (x :: r)).
  assert (E1 : map fst kids = ts) by (unfold kids, ts; apply map_map).
  assert (E2 : map (fun k => indentation (p_indent o) (S depth) ++ fst k) kids
               = map (fun t => indentation (p_indent o) (S depth) ++ t) ts).
  { unfold kids, ts. rewrite !map_map. reflexivity. }
  rewrite E1, E2.
  destruct (_ && _); [left; reflexivity|right].
  cbn [fst]. repeat rewrite <- app_assoc. reflexivity.
Qed.

Lemma layout_obj_nil o depth :
  fst (layout o depth (VObj [])) = [0x7B] ++ sp (object_empty o) ++ [0x7D]
  \/ fst (layout o depth (VObj [])) = [0x7B] ++ ([LF] ++ indentation (p_indent o) depth) ++ [0x7D].
Proof.
  cbn [layout map forallb andb].
  destruct (fits _ _ _); [left|right]; reflexivity.
Qed.

Lemma layout_obj_cons o depth x r :
  let ts := map (fun e => quote (fst e) ++ sp (object_before_colon o) ++ [0x3A]
                            ++ sp (object_after_colon o) ++ fst (layout o (S depth) (snd e))) (x :: r) in
  fst (layout o depth (VObj (x :: r)))
    = [0x7B] ++ (sp (object_begin o)
                   ++ join (sp (object_before_comma o) ++ 0x2C :: sp (object_after_comma o)) ts
                   ++ sp (object_end o)) ++ [0x7D]
  \/ fst (layout o depth (VObj (x :: r)))
    = [0x7B] ++ ([LF]
                   ++ join (sp (object_before_comma o) ++ 0x2C :: [LF])
                        (map (fun t => indentation (p_indent o) (S depth) ++ t) ts)
                   ++ ([LF] ++ indentation (p_indent o) depth)) ++ [0x7D].
Proof.
  intros ts. cbn [layout].
  match goal with |- context [map ?f (x :: r)] =>
    match f with
    | (fun e => let '(_, _) := _ in _) => set (member := f)
    end
  end.
  set (kids := map member (x :: r)).
  assert (Em : forall e, fst (member e)
                 = quote (fst e) ++ sp (object_before_colon o) ++ [0x3A]
                     ++ sp (object_after_colon o) ++ fst (layout o (S depth) (snd e))).
  { intros e. unfold member. destruct (layout o (S depth) (snd e)) as [t i]. reflexivity. }
  assert (E1 : map fst kids = ts).
  { unfold kids, ts. rewrite map_map. apply map_ext. exact Em. }
  assert (E2 : map (fun k => indentation (p_indent o) (S depth) ++ fst k) kids
               = map (fun t => indentation (p_indent o) (S depth) ++ t) ts).
  { unfold kids, ts. rewrite !map_map. apply map_ext. intros e. rewrite Em. reflexivity. }
  rewrite E1, E2.
  destruct (_ && _); [left; reflexivity|right].
  cbn [fst]. repeat rewrite <- app_assoc. reflexivity.
Qed.

(* ---------- children ---------- *)
Lemma kids_inline (f : value -> list N) items :
  Forall (fun v => exists m, jv strict (text_items (f v)) v m) items ->
  Forall2 (kid_ok strict) (map f items) items.
Proof.
  induction 1 as [|v r Hv _ IH]; cbn [map]; constructor; [|exact IH].
  exists [], (f v). split; [reflexivity|]. split; [apply wsN_nil|exact Hv].
Qed.

Lemma kids_indented (f : value -> list N) ind items :
  wsN ind ->
  Forall (fun v => exists m, jv strict (text_items (f v)) v m) items ->
  Forall2 (kid_ok strict) (map (fun t => ind ++ t) (map f items)) items.
Proof.
  intros Hi. induction 1 as [|v r Hv _ IH]; cbn [map]; constructor; [|exact IH].
  exists ind, (f v). split; [reflexivity|]. split; [exact Hi|exact Hv].
Qed.

Lemma mems_inline (f : list N * value -> list N) es :
  Forall (fun e => exists m, jentry strict (text_items (f e)) (fst e) (snd e) m) es ->
  Forall2 (mem_ok strict) (map f es) es.
Proof.
  induction 1 as [|e r He _ IH]; cbn [map]; constructor; [|exact IH].
  exists [], (f e). split; [reflexivity|]. split; [apply wsN_nil|exact He].
Qed.

Lemma mems_indented (f : list N * value -> list N) ind es :
  wsN ind ->
  Forall (fun e => exists m, jentry strict (text_items (f e)) (fst e) (snd e) m) es ->
  Forall2 (mem_ok strict) (map (fun t => ind ++ t) (map f es)) es.
Proof.
  intros Hi. induction 1 as [|e r He _ IH]; cbn [map]; constructor; [|exact IH].
  exists ind, (f e). split; [reflexivity|]. split; [exact Hi|exact He].
Qed.

(* ---------- main theorem ---------- *)
Theorem layout_denotes : forall o depth v, wfv v ->
  exists m, jv strict (text_items (fst (layout o depth v))) v m.
Proof.
  intros o depth v. revert depth.
  induction v as [| b | n | s | l IH | l IH] using value_ind'; intros depth Hwf.
  - eexists. apply jv_null. reflexivity.
  - destruct b; eexists; [apply jv_true|apply jv_false]; reflexivity.
  - cbn [layout fst]. cbn [wfv] in Hwf.
    pose proof (jv_num strict (text_items n)) as J. rewrite cps_text_items in J.
    eexists. apply J. exact Hwf.
  - cbn [layout fst]. cbn [wfv] in Hwf. eexists. apply jv_str.
    rewrite cps_text_items. apply quote_denotes. exact Hwf.
  - apply wfv_arr in Hwf.
    destruct l as [|x r].
    + destruct (layout_arr_nil o depth) as [E|E]; rewrite E; apply jv_arr0_build.
      * apply wsN_sp.
      * apply wsN_app; [apply wsN_LF|apply wsN_indentation].
    + assert (Hkids : Forall (fun v => exists m,
                 jv strict (text_items (fst (layout o (S depth) v))) v m) (x :: r)).
      { rewrite Forall_forall in *. intros v Hv. apply IH; [exact Hv|]. apply Hwf. exact Hv. }
      destruct (layout_arr_cons o depth x r) as [E|E]; rewrite E; apply jv_arr_build.
      * apply jitems_join;
          [apply (kids_inline (fun v => fst (layout o (S depth) v))); exact Hkids
          |discriminate|apply wsN_sp|apply wsN_sp|apply wsN_sp|apply wsN_sp].
      * apply jitems_join;
          [apply (kids_indented (fun v => fst (layout o (S depth) v)));
             [apply wsN_indentation|exact Hkids]
          |discriminate|apply wsN_LF|apply wsN_sp|apply wsN_LF
          |apply wsN_app; [apply wsN_LF|apply wsN_indentation]].
  - apply wfv_obj in Hwf.
    destruct l as [|x r].
    + destruct (layout_obj_nil o depth) as [E|E]; rewrite E; apply jv_obj0_build.
      * apply wsN_sp.
      * apply wsN_app; [apply wsN_LF|apply wsN_indentation].
    + set (f := fun e : list N * value =>
                  quote (fst e) ++ sp (object_before_colon o) ++ [0x3A]
                    ++ sp (object_after_colon o) ++ fst (layout o (S depth) (snd e))).
      assert (Hkids : Forall (fun e => exists m,
                 jentry strict (text_items (f e)) (fst e) (snd e) m) (x :: r)).
      { rewrite Forall_forall in *. intros e He. destruct (Hwf e He) as [Hk Hv].
        unfold f. apply jentry_build; [exact Hk|apply wsN_sp|apply wsN_sp|].
        apply IH; [exact He|exact Hv]. }
      destruct (layout_obj_cons o depth x r) as [E|E]; rewrite E; apply jv_obj_build.
      * apply jmembers_join;
          [apply (mems_inline f); exact Hkids
          |discriminate|apply wsN_sp|apply wsN_sp|apply wsN_sp|apply wsN_sp].
      * apply jmembers_join;
          [apply (mems_indented f); [apply wsN_indentation|exact Hkids]
          |discriminate|apply wsN_LF|apply wsN_sp|apply wsN_LF
          |apply wsN_app; [apply wsN_LF|apply wsN_indentation]].
Qed.

Corollary layout_text_strict : forall o v, wfv v ->
  exists m, jtext strict (text_items (layout_text o v)) v m.
Proof.
  intros o v Hwf. destruct (layout_denotes o O v Hwf) as [m Hm].
  exists (shift (blen []) m). exists [], (text_items (layout_text o v)), [], m.
  split; [rewrite app_nil_r; reflexivity|].
  split; [constructor|]. split; [constructor|]. split; [exact Hm|reflexivity].
Qed.

Corollary layout_text_in_Strict : forall o v, wfv v -> Strict (layout_text o v).
Proof.
  intros o v Hwf. destruct (layout_text_strict o v Hwf) as [m Hm].
  exists v, m. exact Hm.
Qed.

Print Assumptions quote_denotes.
Print Assumptions layout_denotes.
Print Assumptions layout_text_strict.
Print Assumptions layout_text_in_Strict.
