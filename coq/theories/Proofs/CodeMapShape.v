(* Proofs/CodeMapShape.v -- property C05 on the grammar alone: the code map that the
   annotated grammar (Spec/Grammar.v) attaches to a text has one entry per fragment of
   the denoted value, in pre-order, each carrying the volume of its subtree; every span
   lies inside the root span, the root span is the value's text with no surrounding white
   space.  These facts transfer to the parser through parse_items <-> jtext. *)
From JsonSyntax Require Import Base.Prelude Base.Value Base.Unicode Base.Source
  Model.Parser Model.CodeMapNav Spec.Grammar Spec.Preorder Proofs.NavProofs Proofs.ParserCompleteLex
  Proofs.ParserRecDef Proofs.ParserL1 Proofs.ParserSound.

Open Scope N_scope.

Definition volN (e : cme) : nat := N.to_nat (snd e).

(* ================================================================== *)
(* 1. volumes                                                         *)
(* ================================================================== *)

Lemma volN_shift d m : map volN (shift d m) = map volN m.
Proof.
  unfold shift. rewrite map_map. apply map_ext. intros [[a b] v]. reflexivity.
Qed.

Lemma volN_mk a b v : volN (a, b, v) = N.to_nat v.
Proof. reflexivity. Qed.

Lemma flat_volumes_length : forall vs : list value,
  length (flat_map volumes vs) = length (flat_map preorder vs).
Proof.
  induction vs as [|x vs IH]; [reflexivity|].
  cbn [flat_map]. rewrite !app_length, volumes_length, IH. reflexivity.
Qed.

Lemma flat_evolumes_length : forall es : list (key * value),
  length (flat_map (fun e => (2 + length (preorder (snd e)))%nat :: 1%nat :: volumes (snd e)) es)
  = length (flat_map (fun e => FEntry (fst e) (snd e) :: FKey (fst e) :: preorder (snd e)) es).
Proof.
  induction es as [|x es IH]; [reflexivity|].
  cbn [flat_map length app]. rewrite !app_length, volumes_length, IH. reflexivity.
Qed.

Lemma map_volN_length m l : map volN m = l -> length m = length l.
Proof. intros <-. now rewrite map_length. Qed.

Definition Vv (t : list item) (v : value) (m : list cme) : Prop := map volN m = volumes v.
Definition Vitems (t : list item) (vs : list value) (m : list cme) : Prop :=
  map volN m = flat_map volumes vs.
Definition Vmembers (t : list item) (es : list (list N * value)) (m : list cme) : Prop :=
  map volN m = flat_map (fun e => (2 + length (preorder (snd e)))%nat :: 1%nat :: volumes (snd e)) es.
Definition Ventry (t : list item) (k : list N) (x : value) (m : list cme) : Prop :=
  map volN m = (2 + length (preorder x))%nat :: 1%nat :: volumes x.

Lemma volumes_mutual o :
  (forall t v m, jv o t v m -> Vv t v m) /\
  (forall t vs m, jitems o t vs m -> Vitems t vs m) /\
  (forall t es m, jmembers o t es m -> Vmembers t es m) /\
  (forall t k x m, jentry o t k x m -> Ventry t k x m).
Proof.
  apply (jv_mutind o (fun t v m _ => Vv t v m) (fun t vs m _ => Vitems t vs m)
           (fun t es m _ => Vmembers t es m) (fun t k x m _ => Ventry t k x m));
    unfold Vv, Vitems, Vmembers, Ventry; try (intros; reflexivity).
  - (* array *)
    intros lb t rb vs m _ _ _ IH.
    cbn [map volumes preorder length]. rewrite volN_mk, volN_shift, IH. f_equal.
    apply map_volN_length in IH. rewrite flat_volumes_length in IH.
    unfold vol. rewrite IH. lia.
  - (* object *)
    intros lb t rb es m _ _ _ IH.
    cbn [map volumes preorder length]. rewrite volN_mk, volN_shift, IH. f_equal.
    apply map_volN_length in IH. rewrite flat_evolumes_length in IH.
    unfold vol. rewrite IH. lia.
  - (* one item *)
    intros w1 t w2 v m _ _ _ IH. rewrite volN_shift, IH. cbn [flat_map]. now rewrite app_nil_r.
  - (* more items *)
    intros w1 t w2 comma r v m vs ms _ _ _ _ IH1 _ IH2.
    rewrite map_app, !volN_shift, IH1, IH2. reflexivity.
  - (* one member *)
    intros pre e post k v m _ _ _ IH. rewrite volN_shift, IH. cbn [flat_map fst snd]. now rewrite app_nil_r.
  - (* more members *)
    intros pre e post comma r k v m es ms _ _ _ _ IH1 _ IH2.
    rewrite map_app, !volN_shift, IH1, IH2. reflexivity.
  - (* entry *)
    intros kt w1 colon w2 vt k v m _ _ _ _ _ IH.
    cbn [map]. rewrite !volN_mk, volN_shift, IH. f_equal.
    apply map_volN_length in IH. rewrite volumes_length in IH. unfold vol. rewrite IH. lia.
Qed.

Theorem jv_volumes : forall o t v m, jv o t v m -> map (fun e => N.to_nat (snd e)) m = volumes v.
Proof. intros o. exact (proj1 (volumes_mutual o)). Qed.

Theorem jitems_volumes : forall o t vs m, jitems o t vs m ->
  map (fun e => N.to_nat (snd e)) m = flat_map volumes vs.
Proof. intros o. exact (proj1 (proj2 (volumes_mutual o))). Qed.

Theorem jmembers_volumes : forall o t es m, jmembers o t es m ->
  map (fun e => N.to_nat (snd e)) m
  = flat_map (fun e => (2 + length (preorder (snd e)))%nat :: 1%nat :: volumes (snd e)) es.
Proof. intros o. exact (proj1 (proj2 (proj2 (volumes_mutual o)))). Qed.

Theorem jentry_volumes : forall o t k x m, jentry o t k x m ->
  map (fun e => N.to_nat (snd e)) m = (2 + length (preorder x))%nat :: 1%nat :: volumes x.
Proof. intros o. exact (proj2 (proj2 (proj2 (volumes_mutual o)))). Qed.

(* one entry per fragment *)
Corollary jv_length : forall o t v m, jv o t v m -> length m = length (preorder v).
Proof.
  intros o t v m H. apply jv_volumes in H. apply map_volN_length in H.
  now rewrite volumes_length in H.
Qed.

Corollary jitems_length : forall o t vs m, jitems o t vs m -> length m = length (flat_map preorder vs).
Proof.
  intros o t vs m H. apply jitems_volumes in H. apply map_volN_length in H.
  now rewrite flat_volumes_length in H.
Qed.

Corollary jmembers_length : forall o t es m, jmembers o t es m ->
  length m = length (flat_map (fun e => FEntry (fst e) (snd e) :: FKey (fst e) :: preorder (snd e)) es).
Proof.
  intros o t es m H. apply jmembers_volumes in H. apply map_volN_length in H.
  now rewrite flat_evolumes_length in H.
Qed.

Corollary jentry_length : forall o t k x m, jentry o t k x m -> length m = (2 + length (preorder x))%nat.
Proof.
  intros o t k x m H. apply jentry_volumes in H. apply map_volN_length in H.
  cbn [length] in H. rewrite volumes_length in H. exact H.
Qed.

Corollary jtext_volumes : forall o s v m, jtext o s v m -> map (fun e => N.to_nat (snd e)) m = volumes v.
Proof.
  intros o s v m (pre & mid & post & m0 & _ & _ & _ & Hjv & ->).
  change (map volN (shift (blen pre) m0) = volumes v). rewrite volN_shift.
  exact (jv_volumes _ _ _ _ Hjv).
Qed.

Corollary jtext_length : forall o s v m, jtext o s v m -> length m = length (preorder v).
Proof.
  intros o s v m H. apply jtext_volumes in H. apply map_volN_length in H.
  now rewrite volumes_length in H.
Qed.

(* a code map with the right volumes is shaped *)
Lemma volumes_shaped m v : map volN m = volumes v -> shaped m 0 v.
Proof.
  intros H i Hi. cbn [Nat.add]. rewrite <- H. unfold volume_at.
  destruct (nth_error m i) as [[[a b] vl]|] eqn:E.
  - erewrite map_nth_error by exact E. reflexivity.
  - symmetry. apply nth_error_None. rewrite map_length. now apply nth_error_None.
Qed.

Corollary jtext_shaped : forall o s v m, jtext o s v m -> shaped m 0 v.
Proof. intros o s v m H. apply volumes_shaped. exact (jtext_volumes _ _ _ _ H). Qed.

Corollary jv_shaped : forall o t v m, jv o t v m -> shaped m 0 v.
Proof. intros o s v m H. apply volumes_shaped. exact (jv_volumes _ _ _ _ H). Qed.

Corollary jtext_root_volume : forall o s v m, jtext o s v m ->
  exists a b r, m = (a, b, N.of_nat (length m)) :: r.
Proof.
  intros o s v m H. pose proof (jtext_volumes _ _ _ _ H) as Hv.
  pose proof (jtext_length _ _ _ _ H) as Hl.
  destruct (volumes_head v) as [r Hr]. rewrite Hr in Hv.
  destruct m as [|[[a b] vl] m']; [discriminate|].
  exists a, b, m'. cbn [map snd] in Hv. injection Hv as Hv _.
  f_equal. f_equal. rewrite Hl, <- Hv. now rewrite N2Nat.id.
Qed.

Lemma volumes_pos : forall v, Forall (fun n => (1 <= n)%nat) (volumes v).
Proof.
  induction v as [| b | s | s | l IH | l IH] using value_ind';
    try (constructor; [cbn; lia|constructor]).
  - cbn [volumes]. constructor; [cbn [preorder length]; lia|].
    induction IH as [|x l Hx _ IHl]; [constructor|].
    cbn [flat_map]. apply Forall_app. split; assumption.
  - cbn [volumes]. constructor; [cbn [preorder length]; lia|].
    induction IH as [|x l Hx _ IHl]; [constructor|].
    cbn [flat_map]. constructor; [lia|]. constructor; [lia|]. apply Forall_app. split; assumption.
Qed.

Corollary jtext_volume_pos : forall o s v m, jtext o s v m -> Forall (fun e => 1 <= snd e) m.
Proof.
  intros o s v m H. pose proof (jtext_volumes _ _ _ _ H) as Hv.
  pose proof (volumes_pos v) as Hp. rewrite <- Hv in Hp.
  rewrite Forall_map in Hp. eapply Forall_impl; [|exact Hp].
  intros e He. cbn beta in He. lia.
Qed.

(* ================================================================== *)
(* 2. spans lie inside the root span, which is the value's text       *)
(* ================================================================== *)

Definition inside (L : N) (e : cme) : Prop := match e with (a, b, _) => a <= b /\ b <= L end.

Lemma inside_shift d L L' m : Forall (inside L) m -> d + L <= L' -> Forall (inside L') (shift d m).
Proof.
  intros H Hd. unfold shift. rewrite Forall_map. eapply Forall_impl; [|exact H].
  intros [[a b] v] [H1 H2]. cbn [inside]. lia.
Qed.

Ltac blen_norm := repeat (rewrite blen_app || rewrite blen_cons);
  try change (blen (@nil (N * N))) with 0; try change (blen (@nil item)) with 0.

Definition rooted (t : list item) (m : list cme) : Prop :=
  Forall (inside (blen t)) m /\ exists r, m = (0, blen t, N.of_nat (length m)) :: r.

Lemma spans_mutual o :
  (forall t v m, jv o t v m -> rooted t m) /\
  (forall t vs m, jitems o t vs m -> Forall (inside (blen t)) m) /\
  (forall t es m, jmembers o t es m -> Forall (inside (blen t)) m) /\
  (forall t k x m, jentry o t k x m -> rooted t m).
Proof.
  assert (Hleaf : forall t : list item, rooted t [(0, blen t, 1)]).
  { intros t. split; [|exists []; reflexivity]. constructor; [|constructor]. cbn [inside]. lia. }
  apply (jv_mutind o (fun t v m _ => rooted t m) (fun t vs m _ => Forall (inside (blen t)) m)
           (fun t es m _ => Forall (inside (blen t)) m) (fun t k x m _ => rooted t m));
    try (intros; apply Hleaf).
  - (* array *)
    intros lb t rb vs m _ _ _ IH. split.
    + constructor; [cbn [inside]; lia|]. eapply inside_shift; [exact IH|]. blen_norm. lia.
    + eexists. cbn [length]. rewrite shift_length. unfold vol. f_equal. f_equal. lia.
  - (* object *)
    intros lb t rb es m _ _ _ IH. split.
    + constructor; [cbn [inside]; lia|]. eapply inside_shift; [exact IH|]. blen_norm. lia.
    + eexists. cbn [length]. rewrite shift_length. unfold vol. f_equal. f_equal. lia.
  - (* one item *)
    intros w1 t w2 v m _ _ _ [IH _]. eapply inside_shift; [exact IH|]. blen_norm. lia.
  - (* more items *)
    intros w1 t w2 comma r v m vs ms _ _ _ _ [IH1 _] _ IH2. apply Forall_app. split.
    + eapply inside_shift; [exact IH1|]. blen_norm. lia.
    + eapply inside_shift; [exact IH2|]. blen_norm. lia.
  - (* one member *)
    intros pre e post k v m _ _ _ [IH _]. eapply inside_shift; [exact IH|]. blen_norm. lia.
  - (* more members *)
    intros pre e post comma r k v m es ms _ _ _ _ [IH1 _] _ IH2. apply Forall_app. split.
    + eapply inside_shift; [exact IH1|]. blen_norm. lia.
    + eapply inside_shift; [exact IH2|]. blen_norm. lia.
  - (* entry *)
    intros kt w1 colon w2 vt k v m _ _ _ _ _ [IH _]. split.
    + constructor; [cbn [inside]; lia|]. constructor; [cbn [inside]; blen_norm; lia|].
      eapply inside_shift; [exact IH|]. blen_norm. lia.
    + eexists. cbn [length]. rewrite shift_length. unfold vol. f_equal. f_equal. lia.
Qed.

Theorem jv_spans_inside : forall o t v m, jv o t v m ->
  Forall (fun e => match e with (a, b, _) => a <= b /\ b <= blen t end) m /\
  (exists r, m = (0, blen t, N.of_nat (length m)) :: r).
Proof. intros o t v m H. exact (proj1 (spans_mutual o) t v m H). Qed.

Theorem jentry_spans_inside : forall o t k x m, jentry o t k x m ->
  Forall (fun e => match e with (a, b, _) => a <= b /\ b <= blen t end) m /\
  (exists r, m = (0, blen t, N.of_nat (length m)) :: r).
Proof. intros o t k x m H. exact (proj2 (proj2 (proj2 (spans_mutual o))) t k x m H). Qed.

Theorem jitems_spans_inside : forall o t vs m, jitems o t vs m ->
  Forall (fun e => match e with (a, b, _) => a <= b /\ b <= blen t end) m.
Proof. intros o t vs m H. exact (proj1 (proj2 (spans_mutual o)) t vs m H). Qed.

Theorem jmembers_spans_inside : forall o t es m, jmembers o t es m ->
  Forall (fun e => match e with (a, b, _) => a <= b /\ b <= blen t end) m.
Proof. intros o t es m H. exact (proj1 (proj2 (proj2 (spans_mutual o))) t es m H). Qed.

(* the same for a whole text: every span lies inside the text, the root span is the text
   without its leading and trailing white space *)
Corollary jtext_spans_inside : forall o s v m, jtext o s v m ->
  Forall (fun e => match e with (a, b, _) => a <= b /\ b <= blen s end) m /\
  exists pre mid post r, s = pre ++ mid ++ post /\ ws pre /\ ws post /\
    m = (blen pre, blen (pre ++ mid), N.of_nat (length m)) :: r.
Proof.
  intros o s v m (pre & mid & post & m0 & -> & Hpre & Hpost & Hjv & ->).
  destruct (jv_spans_inside _ _ _ _ Hjv) as [Hin [r Hr]]. split.
  - apply (inside_shift (blen pre) (blen mid)); [exact Hin|]. blen_norm. lia.
  - exists pre, mid, post, (shift (blen pre) r). repeat split; try assumption.
    rewrite shift_length. rewrite Hr at 1. cbn [shift map]. blen_norm. f_equal. f_equal. f_equal. lia.
Qed.

(* ================================================================== *)
(* 3. a value's text starts and ends with a significant character     *)
(* ================================================================== *)

Definition sig_edges (cs : list N) : Prop :=
  cs <> [] /\ ws_char (hd 0 cs) = false /\ ws_char (last cs 0) = false.

Lemma last_map_fst : forall t : list item, last (map fst t) 0 = fst (last t (0, 0)).
Proof.
  induction t as [|x t IH]; [reflexivity|].
  destruct t as [|y t]; [reflexivity|]. exact IH.
Qed.

Lemma edges_of_cps t : sig_edges (cps t) ->
  t <> [] /\ ws_char (fst (hd (0, 0) t)) = false /\ ws_char (fst (last t (0, 0))) = false.
Proof.
  unfold sig_edges, cps. intros (H1 & H2 & H3). split; [|split].
  - intros ->. apply H1. reflexivity.
  - destruct t as [|x t]; [exfalso; apply H1; reflexivity|exact H2].
  - rewrite <- last_map_fst. exact H3.
Qed.

Lemma last_cons_snoc {A} (c : A) x a d : last (c :: x ++ [a]) d = a.
Proof. change (c :: x ++ [a]) with ((c :: x) ++ [a]). apply last_last. Qed.

Definition lastp (P : N -> Prop) (l : list N) : Prop := l <> [] /\ P (last l 0).

Lemma last_app_r {A} (a b : list A) d : b <> [] -> last (a ++ b) d = last b d.
Proof.
  intros Hb. induction a as [|x a IH]; [reflexivity|].
  cbn [app]. destruct (a ++ b) eqn:E.
  - apply app_eq_nil in E. destruct E as [_ E]. contradiction.
  - exact IH.
Qed.

Lemma lastp_app_r P a b : lastp P b -> lastp P (a ++ b).
Proof.
  intros [Hb Hp]. split.
  - intros E. apply app_eq_nil in E. destruct E as [_ E]. contradiction.
  - rewrite last_app_r by exact Hb. exact Hp.
Qed.

Lemma lastp_cons_r P c b : lastp P b -> lastp P (c :: b).
Proof. apply (lastp_app_r P [c] b). Qed.

Lemma lastp_Forall (P : N -> Prop) l : l <> [] -> Forall P l -> lastp P l.
Proof.
  intros Hl HF. split; [exact Hl|].
  induction HF as [|x l Hx HF IH]; [contradiction|].
  destruct l as [|y l]; [exact Hx|]. apply IH. discriminate.
Qed.

Notation isdig := (fun c => digit c = true).

Lemma digit_not_ws c : digit c = true -> ws_char c = false.
Proof. unfold digit, ws_char. lia. Qed.

Lemma onenine_digit c : onenine c = true -> digit c = true.
Proof. unfold digit, onenine. lia. Qed.

Lemma jint_last i : jint i -> lastp isdig i.
Proof.
  intros [->|(d & ds & Hd & Hds & ->)].
  - split; [discriminate|reflexivity].
  - apply lastp_Forall; [discriminate|]. constructor; [apply onenine_digit; exact Hd|exact Hds].
Qed.

Lemma jint_head i : jint i -> i <> [] /\ ws_char (hd 0 i) = false.
Proof.
  intros [->|(d & ds & Hd & Hds & ->)]; (split; [discriminate|]).
  - reflexivity.
  - cbn [hd]. apply digit_not_ws, onenine_digit. exact Hd.
Qed.

Lemma jfrac_last f : jfrac f -> f = [] \/ lastp isdig f.
Proof.
  intros [->|(ds & [Hne HF] & ->)]; [left; reflexivity|right].
  apply lastp_cons_r. apply lastp_Forall; assumption.
Qed.

Lemma jexp_last e : jexp e -> e = [] \/ lastp isdig e.
Proof.
  intros [->|(E & s & ds & _ & _ & [Hne HF] & ->)]; [left; reflexivity|right].
  apply lastp_cons_r. apply lastp_app_r. apply lastp_Forall; assumption.
Qed.

Lemma jnum_edges n : jnum n -> sig_edges n.
Proof.
  intros (m & i & f & e & Hm & Hi & Hf & He & ->).
  assert (Hl : lastp isdig (m ++ i ++ f ++ e)).
  { apply lastp_app_r. apply jint_last in Hi. apply jfrac_last in Hf. apply jexp_last in He.
    destruct He as [->|He].
    - rewrite app_nil_r. destruct Hf as [->|Hf].
      + rewrite app_nil_r. exact Hi.
      + apply lastp_app_r. exact Hf.
    - apply lastp_app_r. apply lastp_app_r. exact He. }
  destruct Hl as [Hne Hlast]. split; [exact Hne|]. split.
  - apply jint_head in Hi. destruct Hi as [Hi1 Hi2].
    destruct Hm as [->| ->]; [|reflexivity].
    cbn [app]. destruct i as [|c i]; [contradiction|]. exact Hi2.
  - apply digit_not_ws. exact Hlast.
Qed.

Lemma jstr_edges o t s : jstr o t s -> sig_edges t.
Proof.
  intros (srcs & els & _ & -> & _). split; [discriminate|]. split; [reflexivity|].
  rewrite last_cons_snoc. reflexivity.
Qed.

Lemma bracket_edges (lb : item) w (rb : item) :
  ws_char (fst lb) = false -> ws_char (fst rb) = false ->
  lb :: w ++ [rb] <> [] /\ ws_char (fst (hd (0, 0) (lb :: w ++ [rb]))) = false
  /\ ws_char (fst (last (lb :: w ++ [rb]) (0, 0))) = false.
Proof.
  intros H1 H2. split; [discriminate|]. split; [exact H1|]. rewrite last_cons_snoc. exact H2.
Qed.

Theorem jv_edges_significant : forall o t v m, jv o t v m ->
  t <> [] /\ ws_char (fst (hd (0, 0) t)) = false /\ ws_char (fst (last t (0, 0))) = false.
Proof.
  intros o t v m H.
  destruct H as [t E | t E | t E | t Hn | t s Hs | lb w rb Hl Hr _ | lb t rb vs m Hl Hr _
                | lb w rb Hl Hr _ | lb t rb es m Hl Hr _];
    try (apply edges_of_cps; rewrite E; split; [discriminate|split; reflexivity]);
    try (apply bracket_edges; [rewrite Hl|rewrite Hr]; reflexivity).
  - apply edges_of_cps, jnum_edges. exact Hn.
  - apply edges_of_cps. eapply jstr_edges. exact Hs.
Qed.

(* an entry's text starts with the quote of its key and ends like its value *)
Theorem jentry_edges_significant : forall o t k x m, jentry o t k x m ->
  t <> [] /\ ws_char (fst (hd (0, 0) t)) = false /\ ws_char (fst (last t (0, 0))) = false.
Proof.
  intros o t k x m H.
  destruct H as [kt w1 colon w2 vt k v m Hk _ _ _ Hv].
  apply jstr_edges in Hk. apply edges_of_cps in Hk. destruct Hk as (K1 & K2 & _).
  apply jv_edges_significant in Hv. destruct Hv as (V1 & _ & V3).
  destruct kt as [|c kt]; [contradiction|]. split; [discriminate|]. split; [exact K2|].
  assert (N1 : w2 ++ vt <> []).
  { intros E. apply app_eq_nil in E. destruct E as [_ E]. contradiction. }
  rewrite last_app_r by (destruct w1; discriminate).
  rewrite last_app_r by discriminate.
  change (colon :: w2 ++ vt) with ([colon] ++ w2 ++ vt).
  rewrite last_app_r by exact N1. rewrite last_app_r by exact V1. exact V3.
Qed.

(* ================================================================== *)
(* 4. every span is exactly the source text of its fragment           *)
(* ================================================================== *)

(* [mid] is the source text of fragment f *)
Definition frag_text (o : opts) (mid : list item) (f : fragment) : Prop :=
  match f with
  | FValue x => exists m', jv o mid x m'
  | FKey k => jstr o (cps mid) k
  | FEntry k x => exists m', jentry o mid k x m'
  end.

(* the span of entry e cuts the source text of f out of s *)
Definition located (o : opts) (s : list item) (f : fragment) (e : cme) : Prop :=
  exists pre mid post, s = pre ++ mid ++ post /\ blen pre = fst (fst e) /\
                       blen (pre ++ mid) = snd (fst e) /\ frag_text o mid f.

Lemma located_embed o s l t r d fs m :
  s = l ++ t ++ r -> d = blen l ->
  Forall2 (located o t) fs m -> Forall2 (located o s) fs (shift d m).
Proof.
  intros -> -> H. induction H as [|f [[a b] vl] fs m Hfe _ IH]; [constructor|].
  cbn [shift map]. constructor; [|exact IH].
  destruct Hfe as (pre & mid & post & -> & Ha & Hb & Hf). cbn [fst snd] in *.
  exists (l ++ pre), mid, (post ++ r). cbn [fst snd]. split; [|split; [|split]].
  - rewrite <- !app_assoc. reflexivity.
  - blen_norm. lia.
  - revert Hb. blen_norm. lia.
  - exact Hf.
Qed.

Lemma located_whole o t f a vl : a = blen t -> frag_text o t f -> located o t f (0, a, vl).
Proof.
  intros -> H. exists [], t, []. cbn [fst snd app]. split; [now rewrite app_nil_r|].
  split; [reflexivity|]. split; [reflexivity|exact H].
Qed.

Notation epre := (fun e : list N * value => FEntry (fst e) (snd e) :: FKey (fst e) :: preorder (snd e)).

Lemma full_v o t v m : jv o t v m ->
  Forall2 (located o t) (tl (preorder v)) (tl m) -> Forall2 (located o t) (preorder v) m.
Proof.
  intros J H. destruct (jv_spans_inside _ _ _ _ J) as [_ [r Hr]].
  destruct (preorder_head v) as [r' Hr']. rewrite Hr' in *. rewrite Hr in H |- *. cbn [tl] in H.
  constructor; [|exact H]. apply located_whole; [reflexivity|]. exists m. exact J.
Qed.

Lemma full_e o t k x m : jentry o t k x m ->
  Forall2 (located o t) (FKey k :: preorder x) (tl m) ->
  Forall2 (located o t) (FEntry k x :: FKey k :: preorder x) m.
Proof.
  intros J H. destruct (jentry_spans_inside _ _ _ _ _ J) as [_ [r Hr]].
  rewrite Hr in H |- *. cbn [tl] in H.
  constructor; [|exact H]. apply located_whole; [reflexivity|]. exists m. exact J.
Qed.

Lemma exact_mutual o :
  (forall t v m, jv o t v m -> Forall2 (located o t) (tl (preorder v)) (tl m)) /\
  (forall t vs m, jitems o t vs m -> Forall2 (located o t) (flat_map preorder vs) m) /\
  (forall t es m, jmembers o t es m -> Forall2 (located o t) (flat_map epre es) m) /\
  (forall t k x m, jentry o t k x m -> Forall2 (located o t) (FKey k :: preorder x) (tl m)).
Proof.
  apply (jv_mutind o
           (fun t v m _ => Forall2 (located o t) (tl (preorder v)) (tl m))
           (fun t vs m _ => Forall2 (located o t) (flat_map preorder vs) m)
           (fun t es m _ => Forall2 (located o t) (flat_map epre es) m)
           (fun t k x m _ => Forall2 (located o t) (FKey k :: preorder x) (tl m)));
    try (solve [intros; cbn [preorder tl flat_map]; constructor]).
  - (* array *)
    intros lb t rb vs m _ _ _ IH. cbn [preorder tl].
    apply (located_embed o _ [lb] t [rb]); [reflexivity|blen_norm; lia|exact IH].
  - (* object *)
    intros lb t rb es m _ _ _ IH. cbn [preorder tl].
    apply (located_embed o _ [lb] t [rb]); [reflexivity|blen_norm; lia|exact IH].
  - (* one item *)
    intros w1 t w2 v m _ _ J IH. cbn [flat_map]. rewrite app_nil_r.
    apply (located_embed o _ w1 t w2); [reflexivity|reflexivity|]. apply full_v; assumption.
  - (* more items *)
    intros w1 t w2 comma r v m vs ms _ _ _ J IH1 _ IH2. cbn [flat_map]. apply Forall2_app.
    + apply (located_embed o _ w1 t (w2 ++ comma :: r)); [reflexivity|reflexivity|].
      apply full_v; assumption.
    + apply (located_embed o _ (w1 ++ t ++ w2 ++ [comma]) r []); [| |exact IH2].
      * rewrite app_nil_r, <- !app_assoc. reflexivity.
      * blen_norm. lia.
  - (* one member *)
    intros pre e post k v m _ _ J IH. cbn [flat_map fst snd]. rewrite app_nil_r.
    apply (located_embed o _ pre e post); [reflexivity|reflexivity|]. apply full_e; assumption.
  - (* more members *)
    intros pre e post comma r k v m es ms _ _ _ J IH1 _ IH2. cbn [flat_map fst snd].
    change (FEntry k v :: FKey k :: preorder v ++ flat_map epre es)
      with ((FEntry k v :: FKey k :: preorder v) ++ flat_map epre es).
    apply Forall2_app.
    + apply (located_embed o _ pre e (post ++ comma :: r)); [reflexivity|reflexivity|].
      apply full_e; assumption.
    + apply (located_embed o _ (pre ++ e ++ post ++ [comma]) r []); [| |exact IH2].
      * rewrite app_nil_r, <- !app_assoc. reflexivity.
      * blen_norm. lia.
  - (* entry *)
    intros kt w1 colon w2 vt k v m Hk _ _ _ J IH. cbn [tl]. constructor.
    + exists [], kt, (w1 ++ colon :: w2 ++ vt). cbn [fst snd app].
      split; [reflexivity|]. split; [reflexivity|]. split; [reflexivity|exact Hk].
    + apply (located_embed o _ (kt ++ w1 ++ colon :: w2) vt []).
      * rewrite app_nil_r, <- !app_assoc. reflexivity.
      * blen_norm. lia.
      * apply full_v; assumption.
Qed.

(* the four constructs, whole code map against whole pre-order *)
Theorem jv_located : forall o t v m, jv o t v m -> Forall2 (located o t) (preorder v) m.
Proof. intros o t v m J. apply full_v; [exact J|]. exact (proj1 (exact_mutual o) t v m J). Qed.

Theorem jitems_located : forall o t vs m, jitems o t vs m ->
  Forall2 (located o t) (flat_map preorder vs) m.
Proof. intros o. exact (proj1 (proj2 (exact_mutual o))). Qed.

Theorem jmembers_located : forall o t es m, jmembers o t es m ->
  Forall2 (located o t) (flat_map epre es) m.
Proof. intros o. exact (proj1 (proj2 (proj2 (exact_mutual o)))). Qed.

Theorem jentry_located : forall o t k x m, jentry o t k x m ->
  Forall2 (located o t) (FEntry k x :: FKey k :: preorder x) m.
Proof.
  intros o t k x m J. apply full_e; [exact J|]. exact (proj2 (proj2 (proj2 (exact_mutual o))) t k x m J).
Qed.

Theorem jtext_located : forall o s v m, jtext o s v m -> Forall2 (located o s) (preorder v) m.
Proof.
  intros o s v m (pre & mid & post & m0 & -> & _ & _ & J & ->).
  apply (located_embed o _ pre mid post); [reflexivity|reflexivity|]. apply jv_located. exact J.
Qed.

Lemma Forall2_nth {A B} (R : A -> B -> Prop) : forall l l', Forall2 R l l' ->
  forall i a b, nth_error l i = Some a -> nth_error l' i = Some b -> R a b.
Proof.
  induction 1 as [|x y l l' Hxy _ IH]; intros [|i] a b Ha Hb; cbn [nth_error] in *; try discriminate.
  - injection Ha as <-. injection Hb as <-. exact Hxy.
  - eapply IH; eassumption.
Qed.

Theorem span_exact : forall o s v m, jtext o s v m -> forall i f a b vl,
  nth_error (preorder v) i = Some f -> nth_error m i = Some (a, b, vl) ->
  exists pre mid post, s = pre ++ mid ++ post /\ blen pre = a /\ blen (pre ++ mid) = b /\
    match f with
    | FValue x => exists m', jv o mid x m'
    | FKey k => jstr o (cps mid) k
    | FEntry k x => exists m', jentry o mid k x m'
    end.
Proof.
  intros o s v m H i f a b vl Hf He.
  exact (Forall2_nth _ _ _ (jtext_located _ _ _ _ H) i f (a, b, vl) Hf He).
Qed.

(* the same inside a value: positions relative to the value's first character *)
Theorem jv_span_exact : forall o t v m, jv o t v m -> forall i f a b vl,
  nth_error (preorder v) i = Some f -> nth_error m i = Some (a, b, vl) ->
  exists pre mid post, t = pre ++ mid ++ post /\ blen pre = a /\ blen (pre ++ mid) = b /\
    match f with
    | FValue x => exists m', jv o mid x m'
    | FKey k => jstr o (cps mid) k
    | FEntry k x => exists m', jentry o mid k x m'
    end.
Proof.
  intros o t v m H i f a b vl Hf He.
  exact (Forall2_nth _ _ _ (jv_located _ _ _ _ H) i f (a, b, vl) Hf He).
Qed.

(* with jv_edges_significant: the text cut out by a span has no surrounding white space *)
Corollary span_trimmed : forall o s v m, jtext o s v m -> forall i f a b vl,
  nth_error (preorder v) i = Some f -> nth_error m i = Some (a, b, vl) ->
  exists pre mid post, s = pre ++ mid ++ post /\ blen pre = a /\ blen (pre ++ mid) = b /\
    mid <> [] /\ ws_char (fst (hd (0, 0) mid)) = false /\ ws_char (fst (last mid (0, 0))) = false.
Proof.
  intros o s v m H i f a b vl Hf He.
  destruct (span_exact o s v m H i f a b vl Hf He) as (pre & mid & post & H1 & H2 & H3 & H4).
  exists pre, mid, post. split; [exact H1|]. split; [exact H2|]. split; [exact H3|].
  destruct f as [x|k x|k].
  - destruct H4 as [m' H4]. eapply jv_edges_significant. exact H4.
  - destruct H4 as [m' H4]. eapply jentry_edges_significant. exact H4.
  - apply edges_of_cps. eapply jstr_edges. exact H4.
Qed.


(* ================================================================== *)
(* 5. transfer to the parser (through rec_sound and machine_eq_rec)   *)
(* ================================================================== *)

(* the code map returned by the parser on an error-free stream of code points <= 0x10FFFF
   (the hypothesis of rec_sound) has all the properties above *)
Theorem C05_parser : forall o s v m,
  stream_ok s -> Forall (fun it => fst it <= 0x10FFFF) (items_of s) ->
  parse_items o s = Ok (v, m) ->
  map (fun e => N.to_nat (snd e)) m = volumes v /\
  length m = length (preorder v) /\
  shaped m 0 v /\
  Forall (fun e => 1 <= snd e) m /\
  Forall (fun e => match e with (a, b, _) => a <= b /\ b <= blen (items_of s) end) m /\
  Forall2 (located o (items_of s)) (preorder v) m.
Proof.
  intros o s v m Hs Hb H. rewrite machine_eq_rec in H.
  pose proof (rec_sound o s v m Hs Hb H) as J.
  split; [exact (jtext_volumes _ _ _ _ J)|]. split; [exact (jtext_length _ _ _ _ J)|].
  split; [exact (jtext_shaped _ _ _ _ J)|]. split; [exact (jtext_volume_pos _ _ _ _ J)|].
  split; [exact (proj1 (jtext_spans_inside _ _ _ _ J))|exact (jtext_located _ _ _ _ J)].
Qed.

Print Assumptions jv_volumes.
Print Assumptions jtext_volumes.
Print Assumptions jtext_shaped.
Print Assumptions jtext_root_volume.
Print Assumptions jtext_volume_pos.
Print Assumptions jv_spans_inside.
Print Assumptions jtext_spans_inside.
Print Assumptions jv_edges_significant.
Print Assumptions jentry_edges_significant.
Print Assumptions span_exact.
Print Assumptions jv_span_exact.
Print Assumptions span_trimmed.
Print Assumptions C05_parser.
