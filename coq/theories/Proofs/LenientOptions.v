(* Proofs/LenientOptions.v -- property C12 on the grammar: the two lenient options only ADD
   derivations (a strictly accepted document keeps its value and code map under every
   option record), each option acts on its own kind of unpaired surrogate escape, and a
   lenient derivation is a strict derivation of a repaired text in which only unpaired
   \uXXXX surrogate escapes were replaced by the six characters \uFFFD (no leak). *)
From JsonSyntax Require Import Base.Prelude Base.Value Base.Unicode Base.Source
  Model.Parser Model.EntryPoints Spec.Grammar
  Proofs.ParserRecDef Proofs.ParserL1 Proofs.ParserCompleteLex Proofs.ParserComplete
  Proofs.ParserSound Proofs.RoundTrip.

Open Scope N_scope.

(* ================================================================== *)
(* 0. an induction principle that follows the recursion of [decode]   *)
(* ================================================================== *)

Lemma selem_decode_ind (P : list selem -> Prop) :
  P [] ->
  (forall c r, P r -> P (Raw c :: r)) ->
  (forall c r, P r -> P (Esc c :: r)) ->
  (forall u l r, is_high u = true -> is_low l = true -> P r -> P (U16 u :: U16 l :: r)) ->
  (forall u r, is_high u = true -> not_low_head r -> P r -> P (U16 u :: r)) ->
  (forall u r, is_high u = false -> is_low u = true -> P r -> P (U16 u :: r)) ->
  (forall u r, is_high u = false -> is_low u = false -> P r -> P (U16 u :: r)) ->
  forall l, P l.
Proof.
  intros Hnil Hraw Hesc Hpair Hhigh Hlow Hplain.
  assert (H : forall n l, (length l <= n)%nat -> P l).
  { induction n as [|n IH]; intros l Hl.
    - destruct l; [exact Hnil|cbn in Hl; lia].
    - destruct l as [|[c|c|u] r]; [exact Hnil| | |]; cbn [length] in Hl.
      + apply Hraw, IH. lia.
      + apply Hesc, IH. lia.
      + destruct (is_high u) eqn:Eh.
        * destruct r as [|[c|c|l] r'].
          -- apply Hhigh; [exact Eh|exact I|apply IH; cbn [length]; lia].
          -- apply Hhigh; [exact Eh|exact I|apply IH; lia].
          -- apply Hhigh; [exact Eh|exact I|apply IH; lia].
          -- destruct (is_low l) eqn:El.
             ++ apply Hpair; [exact Eh|exact El|]. apply IH. cbn [length] in Hl. lia.
             ++ apply Hhigh; [exact Eh|exact El|apply IH; lia].
        * destruct (is_low u) eqn:El.
          -- apply Hlow; [exact Eh|exact El|apply IH; lia].
          -- apply Hplain; [exact Eh|exact El|apply IH; lia]. }
  intros l. apply (H (length l)). lia.
Qed.

Lemma option_map_cons_inv (c : N) x s :
  option_map (cons c) x = Some s -> exists s', x = Some s' /\ s = c :: s'.
Proof. destruct x as [s'|]; cbn; [|discriminate]. intros E. injection E as <-. eauto. Qed.

(* ================================================================== *)
(* 1. conservativity: strict derivations survive under every option   *)
(* ================================================================== *)

Lemma decode_mono : forall o els s, decode strict els = Some s -> decode o els = Some s.
Proof.
  intros o els. induction els as [|c r IH|c r IH|u l r Hu Hl IH|u r Hu Hr IH|u r Hu Hl IH|u r Hu Hl IH]
    using selem_decode_ind; intros s H.
  - exact H.
  - rewrite decode_raw in *. apply option_map_cons_inv in H as (s' & H & ->). now rewrite (IH _ H).
  - rewrite decode_esc in *. apply option_map_cons_inv in H as (s' & H & ->). now rewrite (IH _ H).
  - rewrite decode_high_low in * by assumption.
    apply option_map_cons_inv in H as (s' & H & ->). now rewrite (IH _ H).
  - rewrite decode_high_other in H by assumption. discriminate.
  - rewrite decode_low in H by assumption. discriminate.
  - rewrite decode_plain in * by assumption.
    apply option_map_cons_inv in H as (s' & H & ->). now rewrite (IH _ H).
Qed.

Lemma jstr_mono o t s : jstr strict t s -> jstr o t s.
Proof.
  intros (srcs & els & H1 & H2 & H3). exists srcs, els.
  split; [exact H1|]. split; [exact H2|]. apply decode_mono. exact H3.
Qed.

Lemma mono_mutual o :
  (forall t v m, jv strict t v m -> jv o t v m) /\
  (forall t vs m, jitems strict t vs m -> jitems o t vs m) /\
  (forall t es m, jmembers strict t es m -> jmembers o t es m) /\
  (forall t k x m, jentry strict t k x m -> jentry o t k x m).
Proof.
  apply (jv_mutind strict (fun t v m _ => jv o t v m) (fun t vs m _ => jitems o t vs m)
           (fun t es m _ => jmembers o t es m) (fun t k x m _ => jentry o t k x m)).
  - intros t E. now apply jv_null.
  - intros t E. now apply jv_true.
  - intros t E. now apply jv_false.
  - intros t E. now apply jv_num.
  - intros t s E. apply jv_str. apply jstr_mono. exact E.
  - intros lb w rb H1 H2 H3. now apply jv_arr0.
  - intros lb t rb vs m H1 H2 _ IH. now apply jv_arr.
  - intros lb w rb H1 H2 H3. now apply jv_obj0.
  - intros lb t rb es m H1 H2 _ IH. now apply jv_obj.
  - intros w1 t w2 v m H1 H2 _ IH. now apply ji_one.
  - intros w1 t w2 comma r v m vs ms H1 H2 H3 _ IH1 _ IH2. now apply ji_cons.
  - intros pre e post k v m H1 H2 _ IH. now apply jm_one.
  - intros pre e post comma r k v m es ms H1 H2 H3 _ IH1 _ IH2. now apply jm_cons.
  - intros kt w1 colon w2 vt k v m Hk H1 H2 H3 _ IH. apply je; try assumption. apply jstr_mono. exact Hk.
Qed.

Theorem jv_mono : forall o t v m, jv strict t v m -> jv o t v m.
Proof. intros o. exact (proj1 (mono_mutual o)). Qed.

Theorem jtext_mono : forall o s v m, jtext strict s v m -> jtext o s v m.
Proof.
  intros o s v m (pre & mid & post & m0 & H1 & H2 & H3 & H4 & H5).
  exists pre, mid, post, m0. repeat split; try assumption. apply jv_mono. exact H4.
Qed.

Lemma items_of_chars cs : items_of (chars cs) = text_items cs.
Proof. rewrite chars_soks. apply items_of_soks. Qed.

Lemma stream_ok_chars cs : stream_ok (chars cs).
Proof. rewrite chars_soks. apply stream_ok_soks_of. Qed.

Lemma text_items_bound cs :
  Forall (fun c => c <= 0x10FFFF) cs -> Forall (fun it : item => fst it <= 0x10FFFF) (text_items cs).
Proof. intros H. unfold text_items. rewrite Forall_map. exact H. Qed.

(* soundness of the machine on a text of scalar values *)
Lemma parse_str_sound o cs v m :
  Forall (fun c => c <= 0x10FFFF) cs ->
  parse_str_with o cs = Ok (v, m) -> jtext o (text_items cs) v m.
Proof.
  intros Hb H. unfold parse_str_with, parse_utf8_with, parse_with in H.
  rewrite machine_eq_rec in H. rewrite <- items_of_chars.
  apply rec_sound; [apply stream_ok_chars| |exact H].
  rewrite items_of_chars. apply text_items_bound. exact Hb.
Qed.

Theorem C12_conservative : forall o cs r,
  parse_str_with strict cs = Ok r -> Forall (fun c => c <= 0x10FFFF) cs -> parse_str_with o cs = Ok r.
Proof.
  intros o cs [v m] H Hb. apply parse_str_complete. apply jtext_mono.
  apply parse_str_sound; assumption.
Qed.

(* ================================================================== *)
(* 2. repairing the unpaired surrogate escapes                        *)
(* ================================================================== *)

Fixpoint repair_elems (o : opts) (l : list selem) : list selem :=
  match l with
  | [] => []
  | Raw c :: r => Raw c :: repair_elems o r
  | Esc c :: r => Esc c :: repair_elems o r
  | U16 u :: r =>
      if is_high u then
        match r with
        | U16 l :: r' =>
            if is_low l then U16 u :: U16 l :: repair_elems o r'
            else (if trunc o then U16 0xFFFD else U16 u) :: repair_elems o r
        | _ => (if trunc o then U16 0xFFFD else U16 u) :: repair_elems o r
        end
      else if is_low u then (if inval o then U16 0xFFFD else U16 u) :: repair_elems o r
      else U16 u :: repair_elems o r
  end.

Lemma repair_raw o c r : repair_elems o (Raw c :: r) = Raw c :: repair_elems o r.
Proof. reflexivity. Qed.
Lemma repair_esc o c r : repair_elems o (Esc c :: r) = Esc c :: repair_elems o r.
Proof. reflexivity. Qed.
Lemma repair_high_low o u l r : is_high u = true -> is_low l = true ->
  repair_elems o (U16 u :: U16 l :: r) = U16 u :: U16 l :: repair_elems o r.
Proof. intros Hu Hl. cbn [repair_elems]. rewrite Hu, Hl. reflexivity. Qed.
Lemma repair_high_other o u r : is_high u = true -> not_low_head r ->
  repair_elems o (U16 u :: r) = (if trunc o then U16 0xFFFD else U16 u) :: repair_elems o r.
Proof.
  intros Hu Hr. destruct r as [|[x|x|l] r]; cbn [repair_elems]; rewrite Hu; try reflexivity.
  cbn in Hr. rewrite Hr. reflexivity.
Qed.
Lemma repair_low o u r : is_high u = false -> is_low u = true ->
  repair_elems o (U16 u :: r) = (if inval o then U16 0xFFFD else U16 u) :: repair_elems o r.
Proof. intros Hu Hl. cbn [repair_elems]. rewrite Hu, Hl. reflexivity. Qed.
Lemma repair_plain o u r : is_high u = false -> is_low u = false ->
  repair_elems o (U16 u :: r) = U16 u :: repair_elems o r.
Proof. intros Hu Hl. cbn [repair_elems]. rewrite Hu, Hl. reflexivity. Qed.

Lemma decode_fffd o r : decode o (U16 0xFFFD :: r) = option_map (cons 0xFFFD) (decode o r).
Proof. apply decode_plain; reflexivity. Qed.

Theorem decode_repair : forall o els s, decode o els = Some s -> decode strict (repair_elems o els) = Some s.
Proof.
  intros o els. induction els as [|c r IH|c r IH|u l r Hu Hl IH|u r Hu Hr IH|u r Hu Hl IH|u r Hu Hl IH]
    using selem_decode_ind; intros s H.
  - exact H.
  - rewrite repair_raw. rewrite decode_raw in *.
    apply option_map_cons_inv in H as (s' & H & ->). now rewrite (IH _ H).
  - rewrite repair_esc. rewrite decode_esc in *.
    apply option_map_cons_inv in H as (s' & H & ->). now rewrite (IH _ H).
  - rewrite repair_high_low by assumption. rewrite decode_high_low in * by assumption.
    apply option_map_cons_inv in H as (s' & H & ->). now rewrite (IH _ H).
  - rewrite repair_high_other by assumption. rewrite decode_high_other in H by assumption.
    destruct (trunc o); [|discriminate]. rewrite decode_fffd.
    apply option_map_cons_inv in H as (s' & H & ->). now rewrite (IH _ H).
  - rewrite repair_low by assumption. rewrite decode_low in H by assumption.
    destruct (inval o); [|discriminate]. rewrite decode_fffd.
    apply option_map_cons_inv in H as (s' & H & ->). now rewrite (IH _ H).
  - rewrite repair_plain by assumption. rewrite decode_plain in * by assumption.
    apply option_map_cons_inv in H as (s' & H & ->). now rewrite (IH _ H).
Qed.

(* what the repair does to one element: nothing, or an unpaired surrogate unit whose
   option is enabled becomes U16 0xFFFD *)
Definition repl (o : opts) (e e' : selem) : Prop :=
  e' = e \/
  exists u, e = U16 u /\ e' = U16 0xFFFD /\
            ((is_high u = true /\ trunc o = true) \/ (is_high u = false /\ is_low u = true /\ inval o = true)).

Lemma repl_refl o e : repl o e e.
Proof. left; reflexivity. Qed.

Lemma repair_Forall2 o : forall els, Forall2 (repl o) els (repair_elems o els).
Proof.
  intros els. induction els as [|c r IH|c r IH|u l r Hu Hl IH|u r Hu Hr IH|u r Hu Hl IH|u r Hu Hl IH]
    using selem_decode_ind.
  - constructor.
  - rewrite repair_raw. constructor; [apply repl_refl|exact IH].
  - rewrite repair_esc. constructor; [apply repl_refl|exact IH].
  - rewrite repair_high_low by assumption. constructor; [apply repl_refl|]. constructor; [apply repl_refl|exact IH].
  - rewrite repair_high_other by assumption. constructor; [|exact IH].
    destruct (trunc o) eqn:Et; [|apply repl_refl]. right. exists u. auto.
  - rewrite repair_low by assumption. constructor; [|exact IH].
    destruct (inval o) eqn:Ei; [|apply repl_refl]. right. exists u. auto 6.
  - rewrite repair_plain by assumption. constructor; [apply repl_refl|exact IH].
Qed.

Lemma Forall2_nth_error {A B} (R : A -> B -> Prop) : forall l l', Forall2 R l l' ->
  forall i, match nth_error l i, nth_error l' i with
            | Some a, Some b => R a b
            | None, None => True
            | _, _ => False
            end.
Proof.
  induction 1 as [|a b l l' Hab _ IH]; intros [|i]; cbn [nth_error]; auto. apply IH.
Qed.

Lemma Forall2_len {A B} (R : A -> B -> Prop) l l' : Forall2 R l l' -> length l = length l'.
Proof. induction 1 as [|a b l l' _ _ IH]; cbn [length]; congruence. Qed.

Lemma high_surrogate u : is_high u = true -> is_surrogate u = true.
Proof. unfold is_high, is_surrogate. lia. Qed.
Lemma low_surrogate u : is_low u = true -> is_surrogate u = true.
Proof. unfold is_low, is_surrogate. lia. Qed.
Lemma high_low_excl u : is_high u = true -> is_low u = true -> False.
Proof. unfold is_high, is_low. lia. Qed.

(* pointwise description, with the reason of each replacement *)
Lemma repair_pointwise o els :
  length (repair_elems o els) = length els /\
  forall i, nth_error (repair_elems o els) i = nth_error els i \/
            exists u, nth_error els i = Some (U16 u) /\ nth_error (repair_elems o els) i = Some (U16 0xFFFD) /\
                      ((is_high u = true /\ trunc o = true) \/
                       (is_high u = false /\ is_low u = true /\ inval o = true)).
Proof.
  pose proof (repair_Forall2 o els) as HF. split.
  - symmetry. eapply Forall2_len. exact HF.
  - intros i. pose proof (Forall2_nth_error _ _ _ HF i) as Hi.
    destruct (nth_error els i) as [e|], (nth_error (repair_elems o els) i) as [e'|]; try contradiction.
    + destruct Hi as [->|(u & -> & -> & Hc)]; [left; reflexivity|right]. exists u. auto.
    + left; reflexivity.
Qed.

Theorem replaced_escape_is_one_fffd : forall o els,
  length (repair_elems o els) = length els /\
  forall i, nth_error (repair_elems o els) i = nth_error els i \/
            (exists u, nth_error els i = Some (U16 u) /\ is_surrogate u = true /\
                       nth_error (repair_elems o els) i = Some (U16 0xFFFD)).
Proof.
  intros o els. destruct (repair_pointwise o els) as [Hl Hp]. split; [exact Hl|].
  intros i. destruct (Hp i) as [H|(u & H1 & H2 & Hc)]; [left; exact H|right].
  exists u. split; [exact H1|]. split; [|exact H2].
  destruct Hc as [[Hh _]|(_ & Hlo & _)]; [apply high_surrogate|apply low_surrogate]; assumption.
Qed.

(* ... and a replaced element decodes, strictly, to exactly one U+FFFD *)
Lemma fffd_decodes_to_one o r : decode o (U16 0xFFFD :: r) = option_map (cons 0xFFFD) (decode o r).
Proof. apply decode_fffd. Qed.

Theorem repair_only_when_enabled : forall o els,
  trunc o = false -> inval o = false -> repair_elems o els = els.
Proof.
  intros o els Ht Hi. pose proof (repair_Forall2 o els) as HF.
  induction HF as [|a b l l' Hab _ IH]; [reflexivity|]. f_equal; [|exact IH].
  destruct Hab as [->|(u & _ & _ & [[_ Hc]|(_ & _ & Hc)])]; [reflexivity| |]; congruence.
Qed.

Corollary repair_strict els : repair_elems strict els = els.
Proof. apply repair_only_when_enabled; reflexivity. Qed.

(* the options act independently: without [trunc] no high unit is ever replaced (whatever
   [inval] says), without [inval] no low unit is ever replaced (whatever [trunc] says) *)
Theorem repair_trunc_off : forall i els n u,
  nth_error els n = Some (U16 u) -> is_high u = true ->
  nth_error (repair_elems {| trunc := false; inval := i |} els) n = Some (U16 u).
Proof.
  intros i els n u Hn Hu. destruct (repair_pointwise {| trunc := false; inval := i |} els) as [_ Hp].
  destruct (Hp n) as [H|(u' & H1 & _ & Hc)]; [congruence|].
  rewrite Hn in H1. injection H1 as <-. cbn [trunc] in Hc.
  destruct Hc as [[_ Hc]|(Hc & _)]; congruence.
Qed.

Theorem repair_inval_off : forall t els n u,
  nth_error els n = Some (U16 u) -> is_low u = true ->
  nth_error (repair_elems {| trunc := t; inval := false |} els) n = Some (U16 u).
Proof.
  intros t els n u Hn Hu. destruct (repair_pointwise {| trunc := t; inval := false |} els) as [_ Hp].
  destruct (Hp n) as [H|(u' & H1 & _ & Hc)]; [congruence|].
  rewrite Hn in H1. injection H1 as <-. cbn [inval] in Hc.
  destruct Hc as [[Hc _]|(_ & _ & Hc)]; [|congruence].
  exfalso. eapply high_low_excl; eassumption.
Qed.

Example pairs_still_combine :
  decode flexible [U16 0xD83D; U16 0xDE00] = Some [0x1F600] /\
  decode flexible [U16 0xD800; U16 0xD83D; U16 0xDE00] = Some [0xFFFD; 0x1F600] /\
  decode {| trunc := true; inval := false |} [U16 0xD800; U16 0xD800] = Some [0xFFFD; 0xFFFD] /\
  decode {| trunc := true; inval := false |} [U16 0xDC00] = None /\
  decode {| trunc := false; inval := true |} [U16 0xDC00] = Some [0xFFFD] /\
  decode {| trunc := false; inval := true |} [U16 0xD800] = None.
Proof. vm_compute. repeat split; reflexivity. Qed.

Example repair_examples :
  repair_elems flexible [U16 0xD800; U16 0xD83D; U16 0xDE00; Raw 0x41; U16 0xDC00; U16 0x41]
  = [U16 0xFFFD; U16 0xD83D; U16 0xDE00; Raw 0x41; U16 0xFFFD; U16 0x41] /\
  repair_elems {| trunc := true; inval := false |} [U16 0xD800; U16 0xD800; U16 0xDC00; U16 0xDC00]
  = [U16 0xFFFD; U16 0xD800; U16 0xDC00; U16 0xDC00] /\
  repair_elems {| trunc := false; inval := true |} [U16 0xD800; U16 0xD800; U16 0xDC00; U16 0xDC00]
  = [U16 0xD800; U16 0xD800; U16 0xDC00; U16 0xFFFD].
Proof. vm_compute. repeat split; reflexivity. Qed.

(* ================================================================== *)
(* 3. the repaired source text                                        *)
(* ================================================================== *)

(* two characters of the same encoded width *)
Definition same_w (x y : N) : Prop := utf8_len x = utf8_len y.

Lemma same_w_refl x : same_w x x.
Proof. reflexivity. Qed.

Lemma Forall2_refl {A} (R : A -> A -> Prop) : (forall x, R x x) -> forall l, Forall2 R l l.
Proof. intros HR l. induction l; constructor; auto. Qed.

(* the source of the replacement escape: the six characters \uFFFD *)
Definition fffd_src : list N := [0x5C; 0x75; 0x46; 0x46; 0x46; 0x44].

Lemma fffd_src_ok : elem_src fffd_src (U16 0xFFFD).
Proof.
  change (U16 0xFFFD) with (U16 (15 * 4096 + 15 * 256 + 15 * 16 + 13)).
  apply (es_u 0x46 0x46 0x46 0x44 15 15 15 13); reflexivity.
Qed.

Lemma hexdig_ascii h d : hexdig h = Some d -> utf8_len h = 1.
Proof.
  unfold hexdig, digit, utf8_len. intros H.
  destruct (N.ltb_spec h 0x80) as [_|Hge]; [reflexivity|exfalso].
  destruct ((0x30 <=? h) && (h <=? 0x39)) eqn:E1; [lia|].
  destruct ((0x41 <=? h) && (h <=? 0x46)) eqn:E2; [lia|].
  destruct ((0x61 <=? h) && (h <=? 0x66)) eqn:E3; [lia|discriminate].
Qed.

Lemma u16_src_width src u : elem_src src (U16 u) -> Forall2 same_w src fffd_src.
Proof.
  intros H. inversion H as [| |h3 h2 h1 h0 d3 d2 d1 d0 H3 H2 H1 H0]; subst.
  unfold fffd_src, same_w.
  repeat constructor; try (erewrite hexdig_ascii by eassumption; reflexivity).
Qed.

Lemma srcs_repair o : forall srcs els els',
  Forall2 elem_src srcs els -> Forall2 (repl o) els els' ->
  exists srcs', Forall2 elem_src srcs' els' /\ Forall2 (Forall2 same_w) srcs srcs'.
Proof.
  intros srcs els els' H1. revert els'.
  induction H1 as [|src e srcs els Hse _ IH]; intros els' H2.
  - inversion H2; subst. exists []. split; constructor.
  - inversion H2 as [|e0 e' els0 els1 Hr Hrest]; subst.
    destruct (IH _ Hrest) as (srcs' & Hs1 & Hs2).
    destruct Hr as [->|(u & -> & -> & _)].
    + exists (src :: srcs'). split; constructor; try assumption.
      apply Forall2_refl. exact same_w_refl.
    + exists (fffd_src :: srcs'). split; constructor; try assumption.
      * exact fffd_src_ok.
      * eapply u16_src_width. exact Hse.
Qed.

Lemma Forall2_concat {A B} (R : A -> B -> Prop) : forall l l',
  Forall2 (Forall2 R) l l' -> Forall2 R (concat l) (concat l').
Proof.
  induction 1 as [|a b l l' Hab _ IH]; cbn [concat]; [constructor|].
  apply Forall2_app; assumption.
Qed.

(* the repaired string source: same widths character by character *)
Lemma jstr_repair_strong : forall o t s, jstr o t s -> exists t', jstr strict t' s /\ Forall2 same_w t t'.
Proof.
  intros o t s (srcs & els & H1 & -> & H3).
  destruct (srcs_repair o srcs els (repair_elems o els) H1 (repair_Forall2 o els)) as (srcs' & Hs1 & Hs2).
  exists (0x22 :: concat srcs' ++ [0x22]). split.
  - exists srcs', (repair_elems o els). split; [exact Hs1|]. split; [reflexivity|].
    apply decode_repair. exact H3.
  - constructor; [apply same_w_refl|]. apply Forall2_app.
    + apply Forall2_concat. exact Hs2.
    + constructor; [apply same_w_refl|constructor].
Qed.

Theorem jstr_repair : forall o t s, jstr o t s -> exists t', jstr strict t' s /\ length t' = length t.
Proof.
  intros o t s H. destruct (jstr_repair_strong o t s H) as (t' & H1 & H2).
  exists t'. split; [exact H1|]. symmetry. eapply Forall2_len. exact H2.
Qed.

(* ================================================================== *)
(* 4. no leak: a lenient derivation is a strict derivation of the     *)
(*    repaired text, with the same value and the same code map        *)
(* ================================================================== *)

(* two source characters of the same recorded length and the same encoded width *)
Definition same_len (a b : item) : Prop := snd a = snd b /\ utf8_len (fst a) = utf8_len (fst b).
Notation sim := (Forall2 same_len).

Lemma sim_refl t : sim t t.
Proof. apply Forall2_refl. intros x. split; reflexivity. Qed.

Lemma sim_blen t t' : sim t t' -> blen t' = blen t.
Proof.
  induction 1 as [|a b t t' [Hab _] _ IH]; [reflexivity|].
  rewrite !blen_cons, IH, Hab. reflexivity.
Qed.

Lemma sim_length t t' : sim t t' -> length t' = length t.
Proof. intros H. symmetry. eapply Forall2_len. exact H. Qed.

Lemma sim_cons a t t' : sim t t' -> sim (a :: t) (a :: t').
Proof. intros H. constructor; [split; reflexivity|exact H]. Qed.

Lemma sim_of_cps : forall t cs', Forall2 same_w (cps t) cs' -> exists t', cps t' = cs' /\ sim t t'.
Proof.
  induction t as [|[c l] t IH]; intros cs' H; cbn [cps map fst] in H.
  - inversion H; subst. exists []. split; [reflexivity|constructor].
  - inversion H as [|x y xs ys Hxy Hrest]; subst.
    destruct (IH _ Hrest) as (t' & <- & Hs).
    exists ((y, l) :: t'). split; [reflexivity|]. constructor; [|exact Hs]. split; [reflexivity|exact Hxy].
Qed.

Lemma sim_text_items : forall cs t', sim (text_items cs) t' -> t' = text_items (cps t').
Proof.
  induction cs as [|c cs IH]; intros t' H; cbn [text_items map] in H.
  - inversion H; subst. reflexivity.
  - inversion H as [|x [c' l'] xs ys [H1 H2] Hrest]; subst.
    cbn [fst snd] in H1, H2. cbn [cps map fst text_items]. f_equal.
    + f_equal. congruence.
    + apply IH. exact Hrest.
Qed.

Lemma jstr_repair_items o t s : jstr o (cps t) s -> exists t', jstr strict (cps t') s /\ sim t t'.
Proof.
  intros H. destruct (jstr_repair_strong _ _ _ H) as (cs' & H1 & H2).
  destruct (sim_of_cps _ _ H2) as (t' & <- & Hs). exists t'. split; assumption.
Qed.

Lemma ji_eq o t v m m' : jitems o t v m' -> m' = m -> jitems o t v m.
Proof. intros H E; subst; exact H. Qed.

Ltac blen_norm := repeat (rewrite blen_app || rewrite blen_cons || rewrite blen_nil).

Lemma noleak_mutual o :
  (forall t v m, jv o t v m -> exists t', jv strict t' v m /\ sim t t') /\
  (forall t vs m, jitems o t vs m -> exists t', jitems strict t' vs m /\ sim t t') /\
  (forall t es m, jmembers o t es m -> exists t', jmembers strict t' es m /\ sim t t') /\
  (forall t k x m, jentry o t k x m -> exists t', jentry strict t' k x m /\ sim t t').
Proof.
  apply (jv_mutind o (fun t v m _ => exists t', jv strict t' v m /\ sim t t')
           (fun t vs m _ => exists t', jitems strict t' vs m /\ sim t t')
           (fun t es m _ => exists t', jmembers strict t' es m /\ sim t t')
           (fun t k x m _ => exists t', jentry strict t' k x m /\ sim t t')).
  - intros t E. exists t. split; [now apply jv_null|apply sim_refl].
  - intros t E. exists t. split; [now apply jv_true|apply sim_refl].
  - intros t E. exists t. split; [now apply jv_false|apply sim_refl].
  - intros t E. exists t. split; [now apply jv_num|apply sim_refl].
  - intros t s E. destruct (jstr_repair_items _ _ _ E) as (t' & H1 & H2).
    exists t'. split; [|exact H2].
    eapply jv_eq; [apply jv_str; exact H1|]. rewrite (sim_blen _ _ H2). reflexivity.
  - intros lb w rb H1 H2 H3. eexists. split; [now apply jv_arr0|apply sim_refl].
  - intros lb t rb vs m H1 H2 _ (t' & IH & Hs).
    exists (lb :: t' ++ [rb]). split.
    + eapply jv_eq; [apply jv_arr; eassumption|]. blen_norm. rewrite (sim_blen _ _ Hs). reflexivity.
    + apply sim_cons. apply Forall2_app; [exact Hs|apply sim_refl].
  - intros lb w rb H1 H2 H3. eexists. split; [now apply jv_obj0|apply sim_refl].
  - intros lb t rb es m H1 H2 _ (t' & IH & Hs).
    exists (lb :: t' ++ [rb]). split.
    + eapply jv_eq; [apply jv_obj; eassumption|]. blen_norm. rewrite (sim_blen _ _ Hs). reflexivity.
    + apply sim_cons. apply Forall2_app; [exact Hs|apply sim_refl].
  - intros w1 t w2 v m H1 H2 _ (t' & IH & Hs).
    exists (w1 ++ t' ++ w2). split.
    + now apply ji_one.
    + apply Forall2_app; [apply sim_refl|]. apply Forall2_app; [exact Hs|apply sim_refl].
  - intros w1 t w2 comma r v m vs ms H1 H2 H3 _ (t' & IH1 & Hs1) _ (r' & IH2 & Hs2).
    exists (w1 ++ t' ++ w2 ++ comma :: r'). split.
    + eapply ji_eq; [apply ji_cons; eassumption|]. blen_norm. rewrite (sim_blen _ _ Hs1). reflexivity.
    + apply Forall2_app; [apply sim_refl|]. apply Forall2_app; [exact Hs1|].
      apply Forall2_app; [apply sim_refl|]. apply sim_cons. exact Hs2.
  - intros pre e post k v m H1 H2 _ (e' & IH & Hs).
    exists (pre ++ e' ++ post). split.
    + now apply jm_one.
    + apply Forall2_app; [apply sim_refl|]. apply Forall2_app; [exact Hs|apply sim_refl].
  - intros pre e post comma r k v m es ms H1 H2 H3 _ (e' & IH1 & Hs1) _ (r' & IH2 & Hs2).
    exists (pre ++ e' ++ post ++ comma :: r'). split.
    + eapply jm_eq; [apply jm_cons; eassumption|]. blen_norm. rewrite (sim_blen _ _ Hs1). reflexivity.
    + apply Forall2_app; [apply sim_refl|]. apply Forall2_app; [exact Hs1|].
      apply Forall2_app; [apply sim_refl|]. apply sim_cons. exact Hs2.
  - intros kt w1 colon w2 vt k v m Hk H1 H2 H3 _ (vt' & IH & Hs).
    destruct (jstr_repair_items _ _ _ Hk) as (kt' & Hk' & Hsk).
    exists (kt' ++ w1 ++ colon :: w2 ++ vt'). split.
    + eapply je_eq; [apply je; eassumption|]. blen_norm.
      rewrite (sim_blen _ _ Hs), (sim_blen _ _ Hsk). reflexivity.
    + apply Forall2_app; [exact Hsk|]. apply Forall2_app; [apply sim_refl|]. apply sim_cons.
      apply Forall2_app; [apply sim_refl|exact Hs].
Qed.

(* for arbitrary recorded item lengths: the repaired characters keep the recorded lengths
   of the characters they replace, so no side condition is needed *)
Theorem C12_no_leak : forall o t v m, jv o t v m ->
  exists t', jv strict t' v m /\ blen t' = blen t /\ length t' = length t.
Proof.
  intros o t v m H. destruct (proj1 (noleak_mutual o) t v m H) as (t' & H1 & Hs).
  exists t'. split; [exact H1|]. split; [apply sim_blen|apply sim_length]; exact Hs.
Qed.

(* on real texts (every character recorded with its UTF-8 length) the repaired text is
   again a real text: the replaced and the replacing characters are all ASCII *)
Theorem C12_no_leak_text : forall o cs v m, jtext o (text_items cs) v m ->
  exists cs', jtext strict (text_items cs') v m /\ length cs' = length cs.
Proof.
  intros o cs v m (pre & mid & post & m0 & Heq & Hpre & Hpost & Hjv & ->).
  destruct (proj1 (noleak_mutual o) _ _ _ Hjv) as (mid' & H1 & Hs).
  assert (Hsim : sim (text_items cs) (pre ++ mid' ++ post)).
  { rewrite Heq. apply Forall2_app; [apply sim_refl|]. apply Forall2_app; [exact Hs|apply sim_refl]. }
  exists (cps (pre ++ mid' ++ post)). split.
  - rewrite <- (sim_text_items _ _ Hsim). exists pre, mid', post, m0. repeat split; assumption.
  - rewrite cps_length, (sim_length _ _ Hsim). unfold text_items. apply map_length.
Qed.

(* the same, for the parser *)
Theorem C12_no_leak_parser : forall o cs v m,
  Forall (fun c => c <= 0x10FFFF) cs -> parse_str_with o cs = Ok (v, m) ->
  exists cs', parse_str_with strict cs' = Ok (v, m) /\ length cs' = length cs.
Proof.
  intros o cs v m Hb H. apply parse_str_sound in H; [|exact Hb].
  destruct (C12_no_leak_text _ _ _ _ H) as (cs' & H1 & H2).
  exists cs'. split; [apply parse_str_complete; exact H1|exact H2].
Qed.

(* sanity: ["\uD800x\uDC00"] read leniently = ["\uFFFDx\uFFFD"] read strictly *)
Example no_leak_example :
  parse_str_with flexible (s2l "[""\uD800x\uDC00""]") = parse_str_with strict (s2l "[""\uFFFDx\uFFFD""]") /\
  exists m, parse_str_with flexible (s2l "[""\uD800x\uDC00""]") = Ok (VArr [VStr [0xFFFD; 0x78; 0xFFFD]], m).
Proof. vm_compute. split; [reflexivity|eexists; reflexivity]. Qed.

Print Assumptions decode_mono.
Print Assumptions jv_mono.
Print Assumptions jtext_mono.
Print Assumptions C12_conservative.
Print Assumptions decode_repair.
Print Assumptions repair_only_when_enabled.
Print Assumptions repair_trunc_off.
Print Assumptions repair_inval_off.
Print Assumptions replaced_escape_is_one_fffd.
Print Assumptions jstr_repair.
Print Assumptions C12_no_leak.
Print Assumptions C12_no_leak_text.
Print Assumptions C12_no_leak_parser.
Print Assumptions pairs_still_combine.
