(* Proofs/ErrorDeterminism.v -- the outcome of the parser depends only on the part of the
   input it has looked at, and an unexpected-character error does not depend on the options.

   1. Option independence ([oi], same input, options o1 and o2 with o2 at least as lenient):
      an Ok outcome and an Unexpected error of the o1-run are the outcome of the o2-run.
   2. Two runs of the reference parser are compared ([Section Rel]): run 1 with options o1 on
      x ++ t1, run 2 with options o2 on x ++ t2, where x is an error-free common prefix ending
      at byte offset P1.  As long as run 1 has not looked beyond P1 both runs are in lockstep
      ([R]).  Once it has ([Past]): every Unexpected error it may still raise is located at or
      after P1; if t1 = [] it sits at the end of its input, reads nothing any more and can only
      report "unexpected end of input" ([PastE]); and a run 2 whose tail begins with a stream
      error has died with that stream error ([Div]).  One triple [rpost] carries both halves
      through every model function (bind lemmas rbind, rbind_next, rbind_peek, rbind_hex).

   Consequences (end of file):
     option_independence             Ok and Unexpected outcomes survive more lenient options;
     unexpected_prefix_determinism   an Unexpected error at offset |u| reporting the item c0
                                     found there is reproduced on every input u ++ c0 :: r2
                                     and under every more lenient option set;
     poisoned_mirror                 appending a stream error to an error-free input either
                                     reproduces the outcome or yields that stream error, and
                                     then the input alone is accepted or runs out of input. *)
From JsonSyntax Require Import Base.Prelude Base.Value Base.Unicode Base.Source
  Model.Parser Model.EntryPoints Spec.Grammar
  Proofs.ParserRecDef Proofs.ParserSafety Proofs.ParserSoundLex Proofs.ParserSound
  Proofs.ParserCompleteLex Proofs.ParserComplete.
From JsonSyntax Require Proofs.ParserL1.

(* ================= fuel of the string loop is irrelevant ================= *)
Lemma sl_body_fuel_mono o i rec1 rec2 acc high st :
  (forall a h s, rec1 a h s <> OutOfFuel -> rec2 a h s = rec1 a h s) ->
  sl_body o i rec1 acc high st <> OutOfFuel ->
  sl_body o i rec2 acc high st = sl_body o i rec1 acc high st.
Proof.
  intros Hr. unfold sl_body, sl_quote, sl_u, ParserSafety.push_plain.
  destruct (next_char st) as [[[p oc] st1]|e|x|]; cbn [obind]; try reflexivity.
  destruct oc as [c|]; [|reflexivity].
  destruct (c =? 0x22); [reflexivity|].
  destruct (c =? 0x5C).
  - destruct (next_char st1) as [[[p2 oc2] st2]|e|x|]; cbn [obind]; try reflexivity.
    destruct oc2 as [c2|]; [|reflexivity].
    destruct (ParserSafety.esc_char c2) as [d|].
    { destruct high as [[ph hi]|]; [destruct (trunc o); [apply Hr|reflexivity]|apply Hr]. }
    destruct (c2 =? 0x75); [|reflexivity].
    destruct (parse_hex4 st2) as [[cp st3]|e|x|]; cbn [obind]; try reflexivity.
    unfold span_new. cbv beta iota zeta.
    destruct high as [[ph hi]|].
    + destruct (is_low cp).
      * destruct ((hi <? 0xD800) || (cp <? 0xDC00)); [reflexivity|].
        destruct (char_or_replace o _ _ _) as [c'|e|x|]; try reflexivity. apply Hr.
      * destruct (trunc o); [|reflexivity]. destruct (is_high cp); [apply Hr|].
        destruct (char_or_replace o _ _ _) as [c'|e|x|]; try reflexivity. apply Hr.
    + destruct (is_high cp); [apply Hr|].
      destruct (char_or_replace o _ _ _) as [c'|e|x|]; try reflexivity. apply Hr.
  - destruct (is_control c); [reflexivity|].
    destruct high as [[ph hi]|]; [destruct (trunc o); [apply Hr|reflexivity]|apply Hr].
Qed.

Lemma string_loop_fuel_mono k o i : forall f acc high st,
  string_loop f o i acc high st <> OutOfFuel ->
  string_loop (f + k) o i acc high st = string_loop f o i acc high st.
Proof.
  induction f as [|f IH]; intros acc high st H; [exfalso; apply H; reflexivity|].
  cbn [Nat.add]. rewrite !ParserSafety.string_loop_eq. rewrite ParserSafety.string_loop_eq in H.
  apply sl_body_fuel_mono; [|exact H]. intros a h s Hs. apply IH. exact Hs.
Qed.

Lemma string_loop_fuel f f' o i acc high st :
  (length (rest st) < f)%nat -> (length (rest st) < f')%nat ->
  string_loop f o i acc high st = string_loop f' o i acc high st.
Proof.
  intros H1 H2.
  rewrite <- (string_loop_fuel_mono f' o i f).
  2:{ eapply ParserL1.shr_fuel. apply ParserL1.string_loop_shr. exact H1. }
  rewrite <- (string_loop_fuel_mono f o i f').
  2:{ eapply ParserL1.shr_fuel. apply ParserL1.string_loop_shr. exact H2. }
  rewrite Nat.add_comm. reflexivity.
Qed.

Lemma ptop_enough_fuel f o st :
  (2 * length (rest st) + 1 <= f)%nat -> ptop f o st = ptop (2 * length (rest st) + 1) o st.
Proof.
  intros Hf. unfold ptop. rewrite (ParserL1.pvalue_enough_fuel f); [reflexivity|exact Hf].
Qed.

(* ================= errors of the two list-level loops ================= *)
Lemma skip_ws_list_err l : forall p e, skip_ws_list l p = Err e -> exists q, e = EStream q.
Proof.
  induction l as [|[c len|] r IH]; intros p e H; cbn [skip_ws_list] in H.
  - discriminate.
  - destruct (is_ws c); [eapply IH; exact H|discriminate].
  - injection H as <-. eauto.
Qed.

Lemma skip_ws_list_mono l : forall p,
  match skip_ws_list l p with Ok (l', p') => p <= p' /\ (l = [] -> l' = []) | _ => True end.
Proof.
  induction l as [|[c len|] r IH]; intros p; cbn [skip_ws_list]; try exact I.
  - split; [lia|auto].
  - destruct (is_ws c); [|split; [lia|discriminate]]. specialize (IH (p + len)).
    destruct (skip_ws_list r (p + len)) as [[l' p']|e|x|]; try exact I. split; [lia|discriminate].
Qed.

Lemma num_loop_err ctx l : forall s buf p e, num_loop ctx s buf l p = Err e ->
  (exists q, e = EStream q) \/ (exists q c, e = EUnexpected q c).
Proof.
  induction l as [|[c len|] r IH]; intros s buf p e H; cbn [num_loop] in H.
  - discriminate.
  - destruct (num_trans ctx s c) as [s'| |]; [eapply IH; exact H|discriminate|].
    injection H as <-. right; eauto.
  - injection H as <-. left; eauto.
Qed.

Lemma num_loop_mono ctx l : forall s buf p,
  match num_loop ctx s buf l p with
  | Ok (_, _, l', p') => p <= p' /\ (l = [] -> l' = [])
  | Err (EUnexpected q _) => p <= q /\ l <> []
  | _ => True
  end.
Proof.
  induction l as [|[c len|] r IH]; intros s buf p; cbn [num_loop]; try exact I.
  - split; [lia|auto].
  - destruct (num_trans ctx s c) as [s'| |]; [|split; [lia|discriminate]|split; [lia|discriminate]].
    specialize (IH s' (buf ++ [c]) (p + len)).
    destruct (num_loop ctx s' (buf ++ [c]) r (p + len)) as [[[[b s2] l'] p']|e|x|]; try exact I.
    + split; [lia|discriminate].
    + destruct e; try exact I. split; [lia|discriminate].
Qed.

Lemma hex_digit_bind {B} st (K : N * pstate -> res B) :
  obind (hex_digit st) K =
  obind (next_char st) (fun '((p, oc), st1) =>
    match oc with
    | Some c => match hexval c with Some h => K (h, st1) | None => Err (EUnexpected p (Some c)) end
    | None => Err (EUnexpected p None)
    end).
Proof.
  unfold hex_digit. destruct (next_char st) as [[[p oc] st1]|e|n|]; cbn [obind]; try reflexivity.
  destruct oc as [c|]; [|reflexivity]. destruct (hexval c); reflexivity.
Qed.

Lemma parse_hex4_bind {B} st (K : N * pstate -> res B) :
  obind (parse_hex4 st) K =
  obind (hex_digit st) (fun '(h3, st1) =>
  obind (hex_digit st1) (fun '(h2, st2) =>
  obind (hex_digit st2) (fun '(h1, st3) =>
  obind (hex_digit st3) (fun '(h0, st4) => K (h3 * 4096 + h2 * 256 + h1 * 16 + h0, st4))))).
Proof.
  unfold parse_hex4.
  destruct (hex_digit st) as [[h3 st1]|e|n|]; cbn [obind]; try reflexivity.
  destruct (hex_digit st1) as [[h2 st2]|e|n|]; cbn [obind]; try reflexivity.
  destruct (hex_digit st2) as [[h1 st3]|e|n|]; cbn [obind]; try reflexivity.
  destruct (hex_digit st3) as [[h0 st4]|e|n|]; cbn [obind]; reflexivity.
Qed.

(* the string-loop body with the element start as a parameter *)
Definition sl_body' (o : opts) (i : N) (rec : list N -> option (N * N) -> pstate -> res (list N * N))
    (acc : list N) (high : option (N * N)) (es : N) (st : pstate) : res (list N * N) :=
  do ((p, oc), st1) <- next_char st;
  match oc with
  | None => Err (EUnexpected p None)
  | Some c =>
      if c =? 0x22 then sl_quote o i acc high p st1
      else if c =? 0x5C then
        do ((p2, oc2), st2) <- next_char st1;
        match oc2 with
        | None => Err (EUnexpected p2 None)
        | Some c2 =>
            match ParserSafety.esc_char c2 with
            | Some x => ParserSafety.push_plain o rec acc high es x st2
            | None => if c2 =? 0x75 then sl_u o rec acc high p2 st2 else Err (EUnexpected p2 (Some c2))
            end
        end
      else if is_control c then Err (EUnexpected p (Some c))
      else ParserSafety.push_plain o rec acc high es c st1
  end.

Lemma sl_body_es o i rec acc high st : sl_body o i rec acc high st = sl_body' o i rec acc high (pos st) st.
Proof. reflexivity. Qed.

(* ================= option independence on one and the same input ================= *)
(* An outcome that is Ok, or an unexpected-character error, is reproduced under every
   option set that is at least as lenient: the options only decide whether a surrogate
   anomaly is an error, and a run that met none took the same decisions. *)
Definition oi {A} (x1 x2 : outcome perr A) : Prop :=
  match x1 with
  | Ok r => x2 = Ok r
  | Err (EUnexpected p c) => x2 = Err (EUnexpected p c)
  | _ => True
  end.

Lemma oi_refl {A} (x : outcome perr A) : oi x x.
Proof. destruct x as [r|e|n|]; cbn; auto. destruct e; auto. Qed.

Lemma oi_bind {A B} (x1 x2 : outcome perr A) (f1 f2 : A -> outcome perr B) :
  oi x1 x2 -> (forall a, oi (f1 a) (f2 a)) -> oi (obind x1 f1) (obind x2 f2).
Proof.
  intros Hx Hf. destruct x1 as [a|e|n|]; cbn [oi obind] in *; auto.
  - rewrite Hx. cbn [obind]. apply Hf.
  - destruct e; auto. rewrite Hx. reflexivity.
Qed.

Lemma oi_bind_same {A B} (x : outcome perr A) (f1 f2 : A -> outcome perr B) :
  (forall a, oi (f1 a) (f2 a)) -> oi (obind x f1) (obind x f2).
Proof. apply oi_bind. apply oi_refl. Qed.

Section OptIndep.
  Variables o1 o2 : opts.
  Hypothesis Htr : trunc o1 = true -> trunc o2 = true.
  Hypothesis Hin : inval o1 = true -> inval o2 = true.

  Lemma tr_cases0 : (trunc o1 = true /\ trunc o2 = true) \/ trunc o1 = false.
  Proof. destruct (trunc o1); [left; auto|right; reflexivity]. Qed.
  Lemma in_cases0 : (inval o1 = true /\ inval o2 = true) \/ inval o1 = false.
  Proof. destruct (inval o1); [left; auto|right; reflexivity]. Qed.

  Definition rec_oi (rec1 rec2 : list N -> option (N * N) -> pstate -> res (list N * N)) : Prop :=
    forall acc high st, oi (rec1 acc high st) (rec2 acc high st).

  Lemma oi_push_plain rec1 rec2 (Hrec : rec_oi rec1 rec2) acc high es c st :
    oi (ParserSafety.push_plain o1 rec1 acc high es c st) (ParserSafety.push_plain o2 rec2 acc high es c st).
  Proof.
    unfold ParserSafety.push_plain. destruct high as [[ph hi]|]; [|apply Hrec].
    destruct tr_cases0 as [[T1 T2]|T1]; rewrite T1; [rewrite T2; apply Hrec|].
    unfold span_new. exact I.
  Qed.

  Lemma oi_sl_quote i acc high p st : oi (sl_quote o1 i acc high p st) (sl_quote o2 i acc high p st).
  Proof.
    unfold sl_quote. destruct high as [[ph hi]|]; [|apply oi_refl].
    destruct tr_cases0 as [[T1 T2]|T1]; rewrite T1; [rewrite T2; apply oi_refl|].
    unfold span_new. exact I.
  Qed.

  Lemma oi_cor rec1 rec2 (Hrec : rec_oi rec1 rec2) cp a b (k : N -> list N) hi st :
    oi (match char_or_replace o1 cp a b with
        | Ok c' => rec1 (k c') hi st | Err e => Err e | Panic y => Panic y | OutOfFuel => OutOfFuel end)
       (match char_or_replace o2 cp a b with
        | Ok c' => rec2 (k c') hi st | Err e => Err e | Panic y => Panic y | OutOfFuel => OutOfFuel end).
  Proof.
    unfold char_or_replace. destruct (from_u32 cp); [apply Hrec|].
    destruct in_cases0 as [[I1 I2]|I1]; rewrite I1; [rewrite I2; apply Hrec|exact I].
  Qed.

  Lemma oi_sl_u rec1 rec2 (Hrec : rec_oi rec1 rec2) acc high p2 st :
    oi (sl_u o1 rec1 acc high p2 st) (sl_u o2 rec2 acc high p2 st).
  Proof.
    unfold sl_u. apply oi_bind_same. intros [cp st3]. unfold span_new. cbv beta iota zeta.
    destruct high as [[ph hi]|].
    - destruct (is_low cp).
      + destruct ((hi <? 0xD800) || (cp <? 0xDC00)); [exact I|].
        apply (oi_cor rec1 rec2 Hrec _ _ _ (fun c' => acc ++ [c'])).
      + destruct tr_cases0 as [[T1 T2]|T1]; rewrite T1; [rewrite T2|exact I].
        destruct (is_high cp); [apply Hrec|].
        apply (oi_cor rec1 rec2 Hrec _ _ _ (fun c' => acc ++ [0xFFFD; c'])).
    - destruct (is_high cp); [apply Hrec|].
      apply (oi_cor rec1 rec2 Hrec _ _ _ (fun c' => acc ++ [c'])).
  Qed.

  Lemma oi_sl_body rec1 rec2 (Hrec : rec_oi rec1 rec2) i acc high st :
    oi (sl_body o1 i rec1 acc high st) (sl_body o2 i rec2 acc high st).
  Proof.
    unfold sl_body. apply oi_bind_same. intros [[p oc] st1]. destruct oc as [c|]; [|reflexivity].
    destruct (c =? 0x22); [apply oi_sl_quote|].
    destruct (c =? 0x5C).
    - apply oi_bind_same. intros [[p2 oc2] st2]. destruct oc2 as [c2|]; [|reflexivity].
      destruct (ParserSafety.esc_char c2) as [d|]; [apply oi_push_plain; exact Hrec|].
      destruct (c2 =? 0x75); [apply oi_sl_u; exact Hrec|reflexivity].
    - destruct (is_control c); [reflexivity|]. apply oi_push_plain; exact Hrec.
  Qed.

  Lemma oi_string_loop i : forall f, rec_oi (string_loop f o1 i) (string_loop f o2 i).
  Proof.
    induction f as [|f IH]; intros acc high st; [exact I|].
    rewrite !ParserSafety.string_loop_eq. apply oi_sl_body. exact IH.
  Qed.

  Lemma oi_parse_string st : oi (parse_string o1 st) (parse_string o2 st).
  Proof.
    rewrite !parse_string_eq. destruct (begin_fragment st) as [i st0].
    apply oi_bind_same. intros [[p oc] st1]. destruct oc as [c|]; [|reflexivity].
    destruct (c =? 0x22); [apply oi_string_loop|reflexivity].
  Qed.

  Lemma oi_object_key st : oi (object_key o1 st) (object_key o2 st).
  Proof.
    rewrite !object_key_eq. destruct (begin_fragment st) as [e st0].
    apply oi_bind; [apply oi_parse_string|]. intros [[k j] st1]. apply oi_refl.
  Qed.

  Lemma oi_object_start st : oi (object_start o1 st) (object_start o2 st).
  Proof.
    rewrite !object_start_eq. destruct (begin_fragment st) as [i st0].
    apply oi_bind_same. intros [[p oc] st1]. destruct oc as [c|]; [|reflexivity].
    destruct (c =? 0x7B); [|reflexivity].
    apply oi_bind_same. intros [u st2]. apply oi_bind_same. intros oc2.
    destruct (match oc2 with Some c2 => c2 =? 0x7D | None => false end); [apply oi_refl|].
    apply oi_bind; [apply oi_object_key|]. intros [[k e] st3]. reflexivity.
  Qed.

  Lemma oi_object_continue i st : oi (object_continue o1 i st) (object_continue o2 i st).
  Proof.
    rewrite !object_continue_eq. apply oi_bind_same. intros [u st1].
    apply oi_bind_same. intros [[p oc] st2]. destruct oc as [c|]; [|reflexivity].
    destruct (c =? 0x2C); [|apply oi_refl].
    apply oi_bind_same. intros [u3 st3]. apply oi_bind; [apply oi_object_key|]. intros [[k e] st4]. reflexivity.
  Qed.

  Lemma oi_parse_fragment ctx st : oi (parse_fragment o1 ctx st) (parse_fragment o2 ctx st).
  Proof.
    rewrite !parse_fragment_eq. apply oi_bind_same. intros [u st1]. apply oi_bind_same. intros oc.
    destruct oc as [c|]; [|reflexivity].
    destruct (c =? 0x6E); [apply oi_refl|].
    destruct ((c =? 0x74) || (c =? 0x66)); [apply oi_refl|].
    destruct (c =? 0x22). { apply oi_bind; [apply oi_parse_string|]. intros [[s i] st2]. reflexivity. }
    destruct (c =? 0x5B); [apply oi_refl|].
    destruct (c =? 0x7B). { apply oi_bind; [apply oi_object_start|]. intros [[s i] st2]. apply oi_refl. }
    apply oi_refl.
  Qed.

  Lemma oi_rec f :
    (forall ctx st, oi (pvalue f o1 ctx st) (pvalue f o2 ctx st)) /\
    (forall a i st, oi (parr_items f o1 a i st) (parr_items f o2 a i st)) /\
    (forall a i st, oi (parr_cont f o1 a i st) (parr_cont f o2 a i st)) /\
    (forall es i k e st, oi (pobj_entry f o1 es i k e st) (pobj_entry f o2 es i k e st)) /\
    (forall es i st, oi (pobj_cont f o1 es i st) (pobj_cont f o2 es i st)).
  Proof.
    induction f as [|f (IHv & IHai & IHac & IHoe & IHoc)].
    - repeat split; intros; exact I.
    - split; [|split; [|split; [|split]]].
      + intros ctx st. rewrite !pvalue_S. apply oi_bind; [apply oi_parse_fragment|]. intros [[fr i] st1].
        destruct fr as [v| |k e]; [reflexivity|apply IHai|apply IHoe].
      + intros a i st. rewrite !parr_items_S. apply oi_bind; [apply IHv|]. intros [[v j] st1]. apply IHac.
      + intros a i st. rewrite !parr_cont_S. apply oi_bind_same. intros [[|] st1]; [apply IHai|reflexivity].
      + intros es i k e st. rewrite !pobj_entry_S. apply oi_bind; [apply IHv|]. intros [[v j] st1].
        apply oi_bind_same. intros [u st2]. apply IHoc.
      + intros es i st. rewrite !pobj_cont_S. apply oi_bind; [apply oi_object_continue|].
        intros [[[k e]|] st1]; [apply IHoe|reflexivity].
  Qed.

  Lemma oi_ptop f st : oi (ptop f o1 st) (ptop f o2 st).
  Proof.
    unfold ptop. apply oi_bind; [apply (proj1 (oi_rec f))|]. intros [[v i] st1]. apply oi_refl.
  Qed.
End OptIndep.

(* ================= the relational invariant ================= *)
Section Rel.
  Variables o1 o2 : opts.
  Hypothesis Htr : trunc o1 = true -> trunc o2 = true.
  Hypothesis Hin : inval o1 = true -> inval o2 = true.
  Variables t1 t2 : list sitem.
  Variable P1 : N.

  Definition R (st1 st2 : pstate) : Prop :=
    exists x : list item, rest st1 = map inj x ++ t1 /\ rest st2 = map inj x ++ t2 /\
      pos st1 + blen x = P1 /\ pos st2 = pos st1 /\ cm st2 = cm st1.

  Definition Div {A} (x2 : outcome perr A) : Prop :=
    forall t2', t2 = SErr :: t2' -> x2 = Err (EStream P1).
  (* run 1 has looked beyond P1: where it is, what it may have read, what it may report *)
  Definition Past (st : pstate) : Prop := P1 <= pos st /\ (t1 = [] -> rest st = []).
  Definition PastV (p : N) (oc : option N) : Prop := P1 <= p /\ (t1 = [] -> oc = None).
  Definition PastE (e : perr) : Prop :=
    match e with
    | EUnexpected p c => PastV p c
    | EStream _ => True
    | _ => t1 <> []
    end.
  Definition xfer (e : perr) : Prop :=
    match e with EUnexpected _ _ => True | EStream _ => False | _ => o1 = o2 end.

  Definition past_res {A} (x1 : res A) : Prop :=
    match x1 with Ok (_, st') => Past st' | Err e => PastE e | _ => True end.
  Definition rel_res {A} (x1 x2 : res A) : Prop :=
    match x1 with
    | Ok (a, st1') => (exists st2', x2 = Ok (a, st2') /\ R st1' st2') \/ (Past st1' /\ Div x2)
    | Err e => xfer e -> x2 = Err e \/ (PastE e /\ Div x2)
    | _ => True
    end.
  (* G : what is known when run 1 has already looked beyond P1 *)
  Definition rpost {A} (G : Prop) (st1 st2 : pstate) (x1 x2 : res A) : Prop :=
    (G -> past_res x1) /\ (R st1 st2 -> rel_res x1 x2).

  Lemma tr_cases : (trunc o1 = true /\ trunc o2 = true) \/ trunc o1 = false.
  Proof. destruct (trunc o1); [left; auto|right; reflexivity]. Qed.
  Lemma in_cases : (inval o1 = true /\ inval o2 = true) \/ inval o1 = false.
  Proof. destruct (inval o1); [left; auto|right; reflexivity]. Qed.

  Lemma R_eqs st1 st2 : R st1 st2 -> pos st2 = pos st1 /\ cm st2 = cm st1.
  Proof. intros (x & _ & _ & _ & H1 & H2). auto. Qed.

  Lemma Past_same st st' : pos st' = pos st -> rest st' = rest st -> Past st -> Past st'.
  Proof. intros Hp Hr [H1 H2]. split; [lia|]. intros E. rewrite Hr. auto. Qed.

  Lemma PastV_some_ne p c : PastV p (Some c) -> t1 <> [].
  Proof. intros [_ H] E. specialize (H E). discriminate H. Qed.

  Lemma past_to_rel {A} (x1 x2 : res A) : past_res x1 -> Div x2 -> rel_res x1 x2.
  Proof. destruct x1 as [[a st]|e|n|]; cbn; auto. Qed.

  Lemma div_obind {A B} (x2 : outcome perr A) (f : A -> outcome perr B) : Div x2 -> Div (obind x2 f).
  Proof. intros H t2' E. rewrite (H _ E). reflexivity. Qed.

  Lemma rpost_weaken {A} (G G' : Prop) st1 st2 (x1 x2 : res A) :
    (G' -> G) -> rpost G st1 st2 x1 x2 -> rpost G' st1 st2 x1 x2.
  Proof. intros HG [Hp Hr]. split; auto. Qed.

  (* run 2 may be rewritten with what R provides *)
  Lemma rpost_R_eq {A} G st1 st2 (x1 x2 x2' : res A) :
    (R st1 st2 -> x2 = x2') -> rpost G st1 st2 x1 x2' -> rpost G st1 st2 x1 x2.
  Proof. intros HE [Hp Hr]. split; [exact Hp|]. intros HR. rewrite (HE HR). apply Hr. exact HR. Qed.

  Lemma rbind {A B} (G : Prop) st1 st2 (x1 x2 : res A) (f1 f2 : A * pstate -> res B) :
    (G -> Past st1) ->
    rpost (Past st1) st1 st2 x1 x2 ->
    (forall a st1' st2', rpost (Past st1') st1' st2' (f1 (a, st1')) (f2 (a, st2'))) ->
    rpost G st1 st2 (obind x1 f1) (obind x2 f2).
  Proof.
    intros HG [Hp Hr] Hf. split.
    - intros g. specialize (Hp (HG g)). destruct x1 as [[a st1']|e|n|]; cbn [obind past_res] in *; auto.
      apply (proj1 (Hf a st1' st1')). exact Hp.
    - intros HR. specialize (Hr HR). destruct x1 as [[a st1']|e|n|]; cbn [obind rel_res] in *; auto.
      + destruct Hr as [(st2' & -> & HR')|[Hpast Hdiv]].
        * cbn [obind]. apply (proj2 (Hf a st1' st2')). exact HR'.
        * apply past_to_rel; [apply (proj1 (Hf a st1' st1')); exact Hpast|apply div_obind; exact Hdiv].
      + intros Hx. destruct (Hr Hx) as [->|[Hpe Hdiv]]; [left; reflexivity|].
        right. split; [exact Hpe|apply div_obind; exact Hdiv].
  Qed.

  Lemma rbind_next {B} (G : Prop) st1 st2 (f1 f2 : (N * option N) * pstate -> res B) :
    (G -> Past st1) ->
    (forall p oc st1' st2', (PastV p oc -> Past st1') ->
       rpost (PastV p oc) st1' st2' (f1 ((p, oc), st1')) (f2 ((p, oc), st2'))) ->
    rpost G st1 st2 (obind (next_char st1) f1) (obind (next_char st2) f2).
  Proof.
    intros HG Hf. split.
    - intros g. apply HG in g. destruct g as [g1 g2]. unfold next_char.
      destruct (rest st1) as [|[c l|] r] eqn:E; cbn [obind].
      + assert (HV : PastV (pos st1) None) by (split; [exact g1|reflexivity]).
        refine (proj1 (Hf (pos st1) None st1 st1 _) HV). intros _. split; [exact g1|intros _; exact E].
      + assert (HV : PastV (pos st1) (Some c)).
        { split; [exact g1|]. intros E1. specialize (g2 E1). discriminate g2. }
        refine (proj1 (Hf (pos st1) (Some c) _ {| rest := r; pos := pos st1 + l; cm := cm st1 |} _) HV).
        intros _. split; [cbn [pos]; lia|]. intros E1. specialize (g2 E1). discriminate g2.
      + exact I.
    - intros (x & E1 & E2 & EP & Epos & Ecm). unfold next_char. rewrite E1, E2, Epos, Ecm.
      destruct x as [|[c l] x]; cbn [map app]; try change (inj (c, l)) with (SOk c l).
      + cbn [blen fold_right] in EP.
        assert (HD : forall C, Div (obind (match t2 with
                                           | [] => Ok (pos st1, None, st2)
                                           | SOk c len :: r => Ok (pos st1, Some c, {| rest := r; pos := pos st1 + len; cm := cm st1 |})
                                           | SErr :: _ => Err (EStream (pos st1))
                                           end) C : res B)).
        { intros C t2' ->. cbn [obind]. f_equal. f_equal. lia. }
        destruct t1 as [|[c l|] r1] eqn:Et1; cbn [obind].
        * cbn [map app] in E1. apply past_to_rel; [|apply HD].
          assert (HV : PastV (pos st1) None) by (split; [lia|reflexivity]).
          refine (proj1 (Hf (pos st1) None st1 st1 _) HV). intros _. split; [lia|]. intros _. exact E1.
        * apply past_to_rel; [|apply HD].
          assert (HV : PastV (pos st1) (Some c)) by (split; [lia|intros E0; rewrite Et1 in E0; discriminate E0]).
          refine (proj1 (Hf (pos st1) (Some c) _ {| rest := r1; pos := pos st1 + l; cm := cm st1 |} _) HV).
          intros _. split; [cbn [pos]; lia|intros E0; rewrite Et1 in E0; discriminate E0].
        * cbn [rel_res xfer]. intros [].
      + cbn [obind]. refine (proj2 (Hf (pos st1) (Some c) _ _ _) _).
        * intros [HV1 HV2]. split; [cbn [pos]; lia|]. intros E. specialize (HV2 E). discriminate HV2.
        * exists x. cbn [rest pos cm]. rewrite blen_cons in EP. cbn [snd] in EP.
          repeat split; try reflexivity. lia.
  Qed.

  Lemma rbind_peek {B} (G : Prop) st1 st2 (f1 f2 : option N -> res B) :
    (G -> Past st1) ->
    (forall oc, rpost (Past st1 /\ PastV (pos st1) oc) st1 st2 (f1 oc) (f2 oc)) ->
    rpost G st1 st2 (obind (peek_char st1) f1) (obind (peek_char st2) f2).
  Proof.
    intros HG Hf. split.
    - intros g. apply HG in g. pose proof g as [g1 g2]. unfold peek_char.
      destruct (rest st1) as [|[c l|] r] eqn:E; cbn [obind].
      + apply (proj1 (Hf None)). split; [exact g|]. split; [exact g1|reflexivity].
      + apply (proj1 (Hf (Some c))). split; [exact g|]. split; [exact g1|].
        intros E1. specialize (g2 E1). discriminate g2.
      + exact I.
    - intros HR. pose proof HR as (x & E1 & E2 & EP & Epos & Ecm). unfold peek_char. rewrite E1, E2.
      destruct x as [|[c l] x]; cbn [map app]; try change (inj (c, l)) with (SOk c l).
      + cbn [blen fold_right] in EP.
        assert (HD : forall C, Div (obind (match t2 with
                                           | [] => Ok None
                                           | SOk c _ :: _ => Ok (Some c)
                                           | SErr :: _ => Err (EStream (pos st2))
                                           end) C : res B)).
        { intros C t2' ->. cbn [obind]. f_equal. f_equal. lia. }
        destruct t1 as [|[c l|] r1] eqn:Et1; cbn [obind].
        * cbn [map app] in E1. apply past_to_rel; [|apply HD]. apply (proj1 (Hf None)).
          split; [split; [lia|intros _; exact E1]|split; [lia|reflexivity]].
        * apply past_to_rel; [|apply HD]. apply (proj1 (Hf (Some c))).
          split; [split; [lia|intros E0; rewrite Et1 in E0; discriminate E0]|split; [lia|intros E0; rewrite Et1 in E0; discriminate E0]].
        * cbn [rel_res xfer]. intros [].
      + cbn [obind]. apply (proj2 (Hf (Some c))). exact HR.
  Qed.

  (* ---------- leaves ---------- *)
  Lemma r_ok {A} (G : Prop) st1 st2 (a : A) :
    (G -> Past st1) -> rpost G st1 st2 (Ok (a, st1)) (Ok (a, st2)).
  Proof.
    intros HG. split; [exact HG|]. intros HR. left. exists st2. split; [reflexivity|exact HR].
  Qed.

  Lemma r_unexp {A} (G : Prop) st1 st2 p1 p2 c :
    (G -> PastV p1 c) -> (R st1 st2 -> p2 = p1) ->
    rpost G st1 st2 (Err (EUnexpected p1 c) : res A) (Err (EUnexpected p2 c)).
  Proof.
    intros HG HE. split; [exact HG|]. intros HR _. left. rewrite (HE HR). reflexivity.
  Qed.

  Lemma r_err {A} (G : Prop) st1 st2 e (x2 : res A) :
    (G -> t1 <> []) ->
    (forall p c, e <> EUnexpected p c) -> (R st1 st2 -> o1 = o2 -> x2 = Err e) ->
    rpost G st1 st2 (Err e) x2.
  Proof.
    intros HG Hne HE. split.
    - intros g. destruct e; cbn [past_res PastE]; try exact I; try (exact (HG g)).
      exfalso. eapply Hne. reflexivity.
    - intros HR Hx. left. destruct e; cbn [xfer] in Hx; try (apply HE; assumption).
      + destruct Hx.
      + exfalso. eapply Hne. reflexivity.
  Qed.

  Lemma r_panic {A} (G : Prop) st1 st2 n (x2 : res A) : rpost G st1 st2 (Panic n) x2.
  Proof. split; intros _; exact I. Qed.

  Lemma r_oof {A} (G : Prop) st1 st2 (x2 : res A) : rpost G st1 st2 OutOfFuel x2.
  Proof. split; intros _; exact I. Qed.

  (* side conditions  G -> Past _ ,  G -> PastV _ _ ,  G -> t1 <> []  from the context *)
  Ltac gside :=
    let g := fresh "g" in
    intros g;
    first
      [ exact g
      | exact (proj1 g)
      | exact (proj2 g)
      | match goal with H : _ -> Past ?s |- Past ?s => apply H; first [exact g | exact (proj1 g)] end
      | match goal with |- t1 <> [] => eapply PastV_some_ne; exact g end ].
  Ltac rb L := eapply rbind; [gside | apply L | ]; cbv beta.
  Ltac rnext := apply rbind_next; [gside|].
  Ltac unexp := apply r_unexp; [gside|reflexivity].

  Lemma r_end_fragment i st1 st2 :
    rpost (Past st1) st1 st2 (end_fragment i st1) (end_fragment i st2).
  Proof.
    split.
    - intros g. unfold end_fragment. destruct (nth_error (cm st1) (N.to_nat i)) as [[[s e] v]|]; [|exact I].
      destruct (N.of_nat (length (cm st1)) <? i); [exact I|]. cbn. exact g.
    - intros (x & E1 & E2 & EP & Epos & Ecm). unfold end_fragment. rewrite Ecm, Epos.
      destruct (nth_error (cm st1) (N.to_nat i)) as [[[s e] v]|]; [|exact I].
      destruct (N.of_nat (length (cm st1)) <? i); [exact I|]. left. eexists. split; [reflexivity|].
      exists x. cbn [rest pos cm]. auto.
  Qed.

  Lemma r_begin {A} (G : Prop) st1 st2 (B1 B2 : N -> pstate -> res A) :
    (forall i st1' st2', (Past st1 -> Past st1') -> rpost G st1' st2' (B1 i st1') (B2 i st2')) ->
    rpost G st1 st2 (let '(i, st0) := begin_fragment st1 in B1 i st0)
                    (let '(i, st0) := begin_fragment st2 in B2 i st0).
  Proof.
    intros H. unfold begin_fragment.
    assert (Hb : Past st1 -> Past {| rest := rest st1; pos := pos st1; cm := cm st1 ++ [(pos st1, pos st1, 0)] |}).
    { apply Past_same; reflexivity. }
    split.
    - intros g.
      refine (proj1 (H _ {| rest := rest st1; pos := pos st1; cm := cm st1 ++ [(pos st1, pos st1, 0)] |} st1 Hb) g).
    - intros (x & E1 & E2 & EP & Epos & Ecm). rewrite Ecm, Epos.
      apply (H (N.of_nat (length (cm st1)))
               {| rest := rest st1; pos := pos st1; cm := cm st1 ++ [(pos st1, pos st1, 0)] |}
               {| rest := rest st2; pos := pos st1; cm := cm st1 ++ [(pos st1, pos st1, 0)] |} Hb).
      exists x. cbn [rest pos cm]. auto.
  Qed.

  Lemma r_skip_list x : forall p, p + blen x = P1 ->
    match skip_ws_list (map inj x ++ t1) p with
    | Ok (l1, p') =>
        (exists x', l1 = map inj x' ++ t1 /\ p' + blen x' = P1 /\
                    skip_ws_list (map inj x ++ t2) p = Ok (map inj x' ++ t2, p'))
        \/ ((P1 <= p' /\ (t1 = [] -> l1 = [])) /\
            forall t2', t2 = SErr :: t2' -> skip_ws_list (map inj x ++ t2) p = Err (EStream P1))
    | _ => True
    end.
  Proof.
    induction x as [|[c l] x IH]; intros p Hp; cbn [map app]; try change (inj (c, l)) with (SOk c l).
    - cbn [blen fold_right] in Hp. pose proof (skip_ws_list_mono t1 p) as Hm.
      destruct (skip_ws_list t1 p) as [[l1 p']|e|n|]; try exact I. right. split; [split; [lia|apply Hm]|].
      intros t2' ->. cbn [skip_ws_list]. f_equal. f_equal. lia.
    - rewrite blen_cons in Hp. cbn [snd] in Hp. cbn [skip_ws_list]. destruct (is_ws c).
      + apply IH. lia.
      + left. exists ((c, l) :: x). split; [reflexivity|]. split; [rewrite blen_cons; cbn [snd]; lia|reflexivity].
  Qed.

  Lemma r_skip st1 st2 : rpost (Past st1) st1 st2 (skip_whitespaces st1) (skip_whitespaces st2).
  Proof.
    split.
    - intros [g1 g2]. unfold skip_whitespaces. pose proof (skip_ws_list_mono (rest st1) (pos st1)) as Hm.
      destruct (skip_ws_list (rest st1) (pos st1)) as [[l p]|e|n|] eqn:E; cbn [past_res]; try exact I.
      + destruct Hm as [Hm1 Hm2]. split; cbn [pos rest]; [lia|auto].
      + apply skip_ws_list_err in E as [q ->]. exact I.
    - intros (x & E1 & E2 & EP & Epos & Ecm). unfold skip_whitespaces. rewrite E1, E2, Epos, Ecm.
      pose proof (r_skip_list x (pos st1) EP) as H.
      destruct (skip_ws_list (map inj x ++ t1) (pos st1)) as [[l1 p']|e|n|] eqn:E; cbn [rel_res]; try exact I.
      + destruct H as [(x' & -> & EP' & ->)|[Hp' Hd]].
        * left. eexists. split; [reflexivity|]. exists x'. cbn [rest pos cm]. auto.
        * right. split; [exact Hp'|]. intros t2' Ht. rewrite (Hd _ Ht). reflexivity.
      + apply skip_ws_list_err in E as [q ->]. intros [].
  Qed.

  (* ---------- literals ---------- *)
  Lemma r_expect cs : forall (G : Prop) st1 st2, (G -> Past st1) ->
    rpost G st1 st2 (expect_chars cs st1) (expect_chars cs st2).
  Proof.
    induction cs as [|c cs IH]; intros G st1 st2 HG; cbn [expect_chars].
    - apply r_ok. exact HG.
    - rnext. intros p oc a b Hp. cbv beta iota. destruct oc as [x|]; [|unexp].
      destruct (x =? c); [|unexp]. apply IH. gside.
  Qed.

  Lemma r_expect' cs st1 st2 : rpost (Past st1) st1 st2 (expect_chars cs st1) (expect_chars cs st2).
  Proof. apply r_expect. auto. Qed.

  Lemma r_parse_null st1 st2 : rpost (Past st1) st1 st2 (parse_null st1) (parse_null st2).
  Proof.
    unfold parse_null. apply r_begin. intros i s1 s2 Hb.
    rb r_expect'. intros u a b. cbv beta iota. rb r_end_fragment. intros u2 a' b'. cbv beta iota.
    apply r_ok. gside.
  Qed.

  Lemma r_parse_bool st1 st2 : rpost (Past st1) st1 st2 (parse_bool st1) (parse_bool st2).
  Proof.
    rewrite !parse_bool_eq. apply r_begin. intros i s1 s2 Hb.
    rnext. intros p oc a b Hp. cbv beta iota. destruct oc as [c|]; [|unexp].
    destruct (c =? 0x74).
    { rb r_expect'. intros u a' b'. cbv beta iota. rb r_end_fragment. intros u2 a'' b''. cbv beta iota.
      apply r_ok. gside. }
    destruct (c =? 0x66); [|unexp].
    rb r_expect'. intros u a' b'. cbv beta iota. rb r_end_fragment. intros u2 a'' b''. cbv beta iota.
    apply r_ok. gside.
  Qed.

  (* ---------- numbers ---------- *)
  Lemma r_num_loop ctx x : forall s buf p, p + blen x = P1 ->
    match num_loop ctx s buf (map inj x ++ t1) p with
    | Ok (b, s', l1, p') =>
        (exists x', l1 = map inj x' ++ t1 /\ p' + blen x' = P1 /\
                    num_loop ctx s buf (map inj x ++ t2) p = Ok (b, s', map inj x' ++ t2, p'))
        \/ ((P1 <= p' /\ (t1 = [] -> l1 = [])) /\
            forall t2', t2 = SErr :: t2' -> num_loop ctx s buf (map inj x ++ t2) p = Err (EStream P1))
    | Err (EUnexpected q c) =>
        num_loop ctx s buf (map inj x ++ t2) p = Err (EUnexpected q c)
        \/ (PastV q c /\ forall t2', t2 = SErr :: t2' -> num_loop ctx s buf (map inj x ++ t2) p = Err (EStream P1))
    | _ => True
    end.
  Proof.
    induction x as [|[c l] x IH]; intros s buf p Hp; cbn [map app]; try change (inj (c, l)) with (SOk c l).
    - cbn [blen fold_right] in Hp. pose proof (num_loop_mono ctx t1 s buf p) as Hm.
      assert (HD : forall t2', t2 = SErr :: t2' -> num_loop ctx s buf t2 p = Err (EStream P1)).
      { intros t2' ->. cbn [num_loop]. f_equal. f_equal. lia. }
      destruct (num_loop ctx s buf t1 p) as [[[[b s'] l1] p']|e|n|]; try exact I.
      + right. split; [split; [lia|apply Hm]|exact HD].
      + destruct e; try exact I. right. split; [|exact HD]. split; [lia|]. intros E. exfalso. apply Hm. exact E.
    - rewrite blen_cons in Hp. cbn [snd] in Hp. cbn [num_loop]. destruct (num_trans ctx s c) as [s'| |].
      + apply IH. lia.
      + left. exists ((c, l) :: x). split; [reflexivity|]. split; [rewrite blen_cons; cbn [snd]; lia|reflexivity].
      + left. reflexivity.
  Qed.

  Lemma r_num_tail i (b : list N) s1 s2 :
    rpost (Past s1) s1 s2 (do (_, st2) <- end_fragment i s1; Ok ((b, i), st2))
                          (do (_, st2) <- end_fragment i s2; Ok ((b, i), st2)).
  Proof. rb r_end_fragment. intros u a' b'. cbv beta iota. apply r_ok. gside. Qed.

  Lemma r_parse_number ctx st1 st2 :
    rpost (Past st1) st1 st2 (parse_number ctx st1) (parse_number ctx st2).
  Proof.
    unfold parse_number. apply r_begin. intros i s1 s2 Hb. split.
    - intros g. apply Hb in g. destruct g as [g1 g2].
      pose proof (num_loop_mono ctx (rest s1) NInit [] (pos s1)) as Hm.
      destruct (num_loop ctx NInit [] (rest s1) (pos s1)) as [[[[b s] l] p]|e|n|] eqn:E; try exact I.
      + destruct Hm as [Hm1 Hm2]. destruct (num_final s); [|cbn [past_res PastE]; split; [lia|reflexivity]].
        refine (proj1 (r_num_tail i b {| rest := l; pos := p; cm := cm s1 |}
                                      {| rest := l; pos := p; cm := cm s1 |}) _).
        split; [cbn [pos]; lia|]. cbn [rest]. intros E1. apply Hm2. exact (g2 E1).
      + destruct (num_loop_err _ _ _ _ _ _ E) as [[q ->]|(q & c & ->)]; [exact I|].
        cbn [past_res PastE]. destruct Hm as [Hm1 Hm2]. split; [lia|].
        intros E1. exfalso. apply Hm2. exact (g2 E1).
    - intros (x & E1 & E2 & EP & Epos & Ecm). rewrite E1, E2, Epos, Ecm.
      pose proof (r_num_loop ctx x NInit [] (pos s1) EP) as H.
      destruct (num_loop ctx NInit [] (map inj x ++ t1) (pos s1)) as [[[[b s] l] p]|e|n|] eqn:E; try exact I.
      + destruct H as [(x' & -> & EP' & ->)|[Hp' Hd]].
        * destruct (num_final s).
          -- refine (proj2 (r_num_tail i b _ _) _). exists x'. cbn [rest pos cm]. auto.
          -- intros _. left. reflexivity.
        * apply past_to_rel.
          -- destruct (num_final s); [|cbn [past_res PastE]; split; [apply Hp'|reflexivity]].
             refine (proj1 (r_num_tail i b {| rest := l; pos := p; cm := cm s1 |}
                                           {| rest := l; pos := p; cm := cm s1 |}) _). exact Hp'.
          -- intros t2' Ht. rewrite (Hd _ Ht). reflexivity.
      + destruct (num_loop_err _ _ _ _ _ _ E) as [[q ->]|(q & c & ->)]; [intros []|].
        intros _. destruct H as [->|[Hq Hd]]; [left; reflexivity|]. right. split; [exact Hq|].
        intros t2' Ht. rewrite (Hd _ Ht). reflexivity.
  Qed.

  (* ---------- strings ---------- *)
  Definition rec_rel (rec1 rec2 : list N -> option (N * N) -> pstate -> res (list N * N)) : Prop :=
    forall acc high s1 s2, rpost (Past s1) s1 s2 (rec1 acc high s1) (rec2 acc high s2).

  Lemma r_push_plain rec1 rec2 (Hrec : rec_rel rec1 rec2) (G : Prop) acc high es c s1 s2 :
    (G -> Past s1) -> (G -> t1 <> []) ->
    rpost G s1 s2 (ParserSafety.push_plain o1 rec1 acc high es c s1)
                  (ParserSafety.push_plain o2 rec2 acc high es c s2).
  Proof.
    intros HG HN. unfold ParserSafety.push_plain.
    destruct high as [[ph hi]|]; [|eapply rpost_weaken; [exact HG|apply Hrec]].
    destruct tr_cases as [[T1 T2]|T1]; rewrite T1.
    - rewrite T2. eapply rpost_weaken; [exact HG|apply Hrec].
    - unfold span_new. apply r_err; [exact HN|intros p c0; discriminate|]. intros _ <-. rewrite T1. reflexivity.
  Qed.

  Lemma r_sl_quote (G : Prop) i acc high p s1 s2 :
    (G -> Past s1) -> (G -> t1 <> []) ->
    rpost G s1 s2 (sl_quote o1 i acc high p s1) (sl_quote o2 i acc high p s2).
  Proof.
    intros HG HN. unfold sl_quote. destruct high as [[ph hi]|].
    - destruct tr_cases as [[T1 T2]|T1]; rewrite T1.
      + rewrite T2. eapply rbind; [exact HG|apply r_end_fragment|]. intros u a b. cbv beta iota.
        apply r_ok. gside.
      + unfold span_new. apply r_err; [exact HN|intros p0 c0; discriminate|]. intros _ <-. rewrite T1. reflexivity.
    - eapply rbind; [exact HG|apply r_end_fragment|]. intros u a b. cbv beta iota. apply r_ok. gside.
  Qed.

  Lemma r_cor rec1 rec2 (Hrec : rec_rel rec1 rec2) (G : Prop) cp a1 b1 a2 b2 (k : N -> list N) hi s1 s2 :
    (G -> Past s1) -> (G -> t1 <> []) -> (R s1 s2 -> a2 = a1 /\ b2 = b1) ->
    rpost G s1 s2
      (match char_or_replace o1 cp a1 b1 with
       | Ok c' => rec1 (k c') hi s1 | Err e => Err e | Panic y => Panic y | OutOfFuel => OutOfFuel end)
      (match char_or_replace o2 cp a2 b2 with
       | Ok c' => rec2 (k c') hi s2 | Err e => Err e | Panic y => Panic y | OutOfFuel => OutOfFuel end).
  Proof.
    intros HG HN Hab. unfold char_or_replace.
    destruct (from_u32 cp); [eapply rpost_weaken; [exact HG|apply Hrec]|].
    destruct in_cases as [[I1 I2]|I1]; rewrite I1.
    - rewrite I2. eapply rpost_weaken; [exact HG|apply Hrec].
    - apply r_err; [exact HN|intros p c0; discriminate|]. intros HR <-. rewrite I1.
      destruct (Hab HR) as [-> ->]. reflexivity.
  Qed.

  (* a hex digit followed by K: K starts right after a character was read *)
  Lemma rbind_hex {B} (G : Prop) st1 st2 (K1 K2 : N * pstate -> res B) :
    (G -> Past st1) ->
    (forall h a b (G' : Prop), (G' -> Past a) -> (G' -> t1 <> []) -> rpost G' a b (K1 (h, a)) (K2 (h, b))) ->
    rpost G st1 st2 (obind (hex_digit st1) K1) (obind (hex_digit st2) K2).
  Proof.
    intros HG HK. rewrite !hex_digit_bind. rnext. intros p oc a b Hp. cbv beta iota.
    destruct oc as [c|]; [|unexp]. destruct (hexval c) as [h|]; [|unexp].
    apply (HK h a b (PastV p (Some c))); gside.
  Qed.

  Lemma r_sl_u rec1 rec2 (Hrec : rec_rel rec1 rec2) (G : Prop) acc high p2 s1 s2 :
    (G -> Past s1) ->
    rpost G s1 s2 (sl_u o1 rec1 acc high p2 s1) (sl_u o2 rec2 acc high p2 s2).
  Proof.
    intros HG. unfold sl_u. rewrite !parse_hex4_bind.
    apply rbind_hex; [exact HG|]. intros h3 a3 b3 G3 HG3 _. cbv beta iota.
    apply rbind_hex; [exact HG3|]. intros h2 a2 b2 G2 HG2 _. cbv beta iota.
    apply rbind_hex; [exact HG2|]. intros h1 a1 b1 G1 HG1 _. cbv beta iota.
    apply rbind_hex; [exact HG1|]. intros h0 a b G0 HGa HNa. cbv beta iota.
    set (cp := h3 * 4096 + h2 * 256 + h1 * 16 + h0).
    unfold span_new. cbv beta iota zeta.
    assert (Hpos : R a b -> pos b = pos a) by (intros HR; apply (R_eqs _ _ HR)).
    destruct high as [[ph hi]|].
    - destruct (is_low cp).
      + destruct ((hi <? 0xD800) || (cp <? 0xDC00)); [apply r_panic|].
        apply (r_cor rec1 rec2 Hrec _ _ _ _ _ _ (fun c' => acc ++ [c'])); [exact HGa|exact HNa|].
        intros HR. rewrite (Hpos HR). auto.
      + destruct tr_cases as [[T1 T2]|T1]; rewrite T1.
        * rewrite T2. destruct (is_high cp); [eapply rpost_weaken; [exact HGa|apply Hrec]|].
          apply (r_cor rec1 rec2 Hrec _ _ _ _ _ _ (fun c' => acc ++ [0xFFFD; c'])); [exact HGa|exact HNa|].
          intros HR. rewrite (Hpos HR). auto.
        * apply r_err; [exact HNa|intros p c0; discriminate|]. intros HR <-. rewrite T1, (Hpos HR). reflexivity.
    - destruct (is_high cp); [eapply rpost_weaken; [exact HGa|apply Hrec]|].
      apply (r_cor rec1 rec2 Hrec _ _ _ _ _ _ (fun c' => acc ++ [c'])); [exact HGa|exact HNa|].
      intros HR. rewrite (Hpos HR). auto.
  Qed.

  Lemma r_sl_body' rec1 rec2 (Hrec : rec_rel rec1 rec2) i acc high es st1 st2 :
    rpost (Past st1) st1 st2 (sl_body' o1 i rec1 acc high es st1) (sl_body' o2 i rec2 acc high es st2).
  Proof.
    unfold sl_body'. rnext. intros p oc a b Hp. cbv beta iota. destruct oc as [c|]; [|unexp].
    destruct (c =? 0x22); [apply r_sl_quote; gside|].
    destruct (c =? 0x5C).
    - rnext. intros p2 oc2 a2 b2 Hp2. cbv beta iota. destruct oc2 as [c2|]; [|unexp].
      destruct (ParserSafety.esc_char c2) as [d|]; [apply r_push_plain; [exact Hrec|gside|gside]|].
      destruct (c2 =? 0x75); [apply r_sl_u; [exact Hrec|gside]|unexp].
    - destruct (is_control c); [unexp|]. apply r_push_plain; [exact Hrec|gside|gside].
  Qed.

  Lemma r_string_loop i : forall f, rec_rel (string_loop f o1 i) (string_loop f o2 i).
  Proof.
    induction f as [|f IH]; intros acc high s1 s2; [apply r_oof|].
    rewrite !ParserSafety.string_loop_eq, !sl_body_es.
    eapply rpost_R_eq; [|apply (r_sl_body' _ _ IH)].
    intros HR. destruct (R_eqs _ _ HR) as [-> _]. reflexivity.
  Qed.

  Lemma r_parse_string st1 st2 :
    rpost (Past st1) st1 st2 (parse_string o1 st1) (parse_string o2 st2).
  Proof.
    rewrite !parse_string_eq. apply r_begin. intros i s1 s2 Hb.
    rnext. intros p oc a b Hp. cbv beta iota. destruct oc as [c|]; [|unexp].
    destruct (c =? 0x22); [|unexp].
    rewrite (string_loop_fuel (S (length (rest a))) (S (length (rest a) + length (rest b)))) by lia.
    rewrite (string_loop_fuel (S (length (rest b))) (S (length (rest a) + length (rest b)))) by lia.
    eapply rpost_weaken; [|apply r_string_loop]. gside.
  Qed.

  (* ---------- arrays and objects ---------- *)
  Lemma r_array_start st1 st2 : rpost (Past st1) st1 st2 (array_start st1) (array_start st2).
  Proof.
    rewrite !array_start_eq. apply r_begin. intros i s1 s2 Hb.
    rnext. intros p oc a b Hp. cbv beta iota. destruct oc as [c|]; [|unexp].
    destruct (c =? 0x5B); [|unexp].
    rb r_skip. intros u a2 b2. cbv beta iota. apply rbind_peek; [gside|]. intros oc2.
    destruct (match oc2 with Some c2 => c2 =? 0x5D | None => false end); [|apply r_ok; gside].
    rnext. intros p3 oc3 a3 b3 Hp3. cbv beta iota. rb r_end_fragment. intros u4 a4 b4. cbv beta iota.
    apply r_ok. gside.
  Qed.

  Lemma r_array_continue i st1 st2 :
    rpost (Past st1) st1 st2 (array_continue i st1) (array_continue i st2).
  Proof.
    rewrite !array_continue_eq. rb r_skip. intros u a b. cbv beta iota.
    rnext. intros p oc a2 b2 Hp. cbv beta iota. destruct oc as [c|]; [|unexp].
    destruct (c =? 0x2C); [apply r_ok; gside|]. destruct (c =? 0x5D); [|unexp].
    rb r_end_fragment. intros u3 a3 b3. cbv beta iota. apply r_ok. gside.
  Qed.

  Lemma r_object_key st1 st2 : rpost (Past st1) st1 st2 (object_key o1 st1) (object_key o2 st2).
  Proof.
    rewrite !object_key_eq. apply r_begin. intros e s1 s2 Hb.
    rb r_parse_string. intros [k j] a b. cbv beta iota. rb r_skip. intros u a2 b2. cbv beta iota.
    rnext. intros p oc a3 b3 Hp. cbv beta iota. destruct oc as [c|]; [|unexp].
    destruct (c =? 0x3A); [apply r_ok; gside|unexp].
  Qed.

  Lemma r_object_start st1 st2 : rpost (Past st1) st1 st2 (object_start o1 st1) (object_start o2 st2).
  Proof.
    rewrite !object_start_eq. apply r_begin. intros i s1 s2 Hb.
    rnext. intros p oc a b Hp. cbv beta iota. destruct oc as [c|]; [|unexp].
    destruct (c =? 0x7B); [|unexp].
    rb r_skip. intros u a2 b2. cbv beta iota. apply rbind_peek; [gside|]. intros oc2.
    destruct (match oc2 with Some c2 => c2 =? 0x7D | None => false end).
    - rnext. intros p3 oc3 a3 b3 Hp3. cbv beta iota. rb r_end_fragment. intros u4 a4 b4. cbv beta iota.
      apply r_ok. gside.
    - rb r_object_key. intros [k e] a3 b3. cbv beta iota. apply r_ok. gside.
  Qed.

  Lemma r_object_continue i st1 st2 :
    rpost (Past st1) st1 st2 (object_continue o1 i st1) (object_continue o2 i st2).
  Proof.
    rewrite !object_continue_eq. rb r_skip. intros u a b. cbv beta iota.
    rnext. intros p oc a2 b2 Hp. cbv beta iota. destruct oc as [c|]; [|unexp].
    destruct (c =? 0x2C).
    - rb r_skip. intros u3 a3 b3. cbv beta iota. rb r_object_key. intros [k e] a4 b4. cbv beta iota.
      apply r_ok. gside.
    - destruct (c =? 0x7D); [|unexp]. rb r_end_fragment. intros u3 a3 b3. cbv beta iota. apply r_ok. gside.
  Qed.

  Lemma r_parse_fragment ctx st1 st2 :
    rpost (Past st1) st1 st2 (parse_fragment o1 ctx st1) (parse_fragment o2 ctx st2).
  Proof.
    rewrite !parse_fragment_eq. rb r_skip. intros u a b. cbv beta iota.
    apply rbind_peek; [gside|]. intros oc.
    assert (Hpos : R a b -> pos b = pos a) by (intros HR; apply (R_eqs _ _ HR)).
    destruct oc as [c|]; [|apply r_unexp; [gside|exact Hpos]].
    destruct (c =? 0x6E). { rb r_parse_null. intros i a2 b2. cbv beta iota. apply r_ok. gside. }
    destruct ((c =? 0x74) || (c =? 0x66)).
    { rb r_parse_bool. intros [bb i] a2 b2. cbv beta iota. apply r_ok. gside. }
    destruct (c =? 0x22). { rb r_parse_string. intros [s i] a2 b2. cbv beta iota. apply r_ok. gside. }
    destruct (c =? 0x5B). { rb r_array_start. intros [[|] i] a2 b2; cbv beta iota; apply r_ok; gside. }
    destruct (c =? 0x7B). { rb r_object_start. intros [[|k e] i] a2 b2; cbv beta iota; apply r_ok; gside. }
    destruct (is_digit c || (c =? 0x2D)); [|apply r_unexp; [gside|exact Hpos]].
    rb r_parse_number. intros [n i] a2 b2. cbv beta iota. apply r_ok. gside.
  Qed.

  (* ---------- the recursive-descent reference parser ---------- *)
  Lemma r_rec f :
    (forall ctx st1 st2, rpost (Past st1) st1 st2 (pvalue f o1 ctx st1) (pvalue f o2 ctx st2)) /\
    (forall a i st1 st2, rpost (Past st1) st1 st2 (parr_items f o1 a i st1) (parr_items f o2 a i st2)) /\
    (forall a i st1 st2, rpost (Past st1) st1 st2 (parr_cont f o1 a i st1) (parr_cont f o2 a i st2)) /\
    (forall es i k e st1 st2, rpost (Past st1) st1 st2 (pobj_entry f o1 es i k e st1) (pobj_entry f o2 es i k e st2)) /\
    (forall es i st1 st2, rpost (Past st1) st1 st2 (pobj_cont f o1 es i st1) (pobj_cont f o2 es i st2)).
  Proof.
    induction f as [|f (IHv & IHai & IHac & IHoe & IHoc)].
    - repeat split; intros _; exact I.
    - split; [|split; [|split; [|split]]].
      + intros ctx st1 st2. rewrite !pvalue_S. rb r_parse_fragment. intros [fr i] a b. cbv beta iota.
        destruct fr as [v| |k e]; [apply r_ok; gside|apply IHai|apply IHoe].
      + intros a0 i st1 st2. rewrite !parr_items_S. rb IHv. intros [v j] a b. cbv beta iota. apply IHac.
      + intros a0 i st1 st2. rewrite !parr_cont_S. rb r_array_continue. intros [|] a b; cbv beta iota;
          [apply IHai|apply r_ok; gside].
      + intros es i k e st1 st2. rewrite !pobj_entry_S. rb IHv. intros [v j] a b. cbv beta iota.
        rb r_end_fragment. intros u a2 b2. cbv beta iota. apply IHoc.
      + intros es i st1 st2. rewrite !pobj_cont_S. rb r_object_continue. intros [[k e]|] a b; cbv beta iota;
          [apply IHoe|apply r_ok; gside].
  Qed.

  Lemma r_ptop f st1 st2 : rpost (Past st1) st1 st2 (ptop f o1 st1) (ptop f o2 st2).
  Proof.
    unfold ptop. rb (proj1 (r_rec f)). intros [v i] a b. cbv beta iota.
    rb r_skip. intros u a2 b2. cbv beta iota.
    rnext. intros p oc a3 b3 Hp. cbv beta iota. destruct oc as [ch|]; [unexp|].
    apply (r_ok _ a3 b3 (v, i)). gside.
  Qed.
End Rel.

(* ================= consequences ================= *)
Definition lenient (o1 o2 : opts) : Prop :=
  (trunc o1 = true -> trunc o2 = true) /\ (inval o1 = true -> inval o2 = true).

Lemma lenient_refl o : lenient o o.
Proof. split; auto. Qed.
Lemma lenient_flexible o : lenient o flexible.
Proof. split; reflexivity. Qed.

Theorem option_independence : forall o1 o2 s, lenient o1 o2 ->
  match parse_items o1 s with
  | Ok r => parse_items o2 s = Ok r
  | Err (EUnexpected p c) => parse_items o2 s = Err (EUnexpected p c)
  | _ => True
  end.
Proof.
  intros o1 o2 s [Htr Hin]. rewrite !ParserL1.machine_eq_rec. unfold parse_items_rec.
  pose proof (oi_ptop o1 o2 Htr Hin (rec_fuel s) {| rest := s; pos := 0; cm := [] |}) as H.
  destruct (ptop (rec_fuel s) o1 {| rest := s; pos := 0; cm := [] |}) as [[[v i] st]|e|x|]; cbn [oi] in H; try exact I.
  - rewrite H. reflexivity.
  - destruct e; try exact I. rewrite H. reflexivity.
Qed.

Definition init (s : list sitem) : pstate := {| rest := s; pos := 0; cm := [] |}.

(* both runs with one and the same (large enough) fuel *)
Lemma rec_common_fuel o s F :
  (2 * length s + 1 <= F)%nat ->
  parse_items_rec o s =
  match ptop F o (init s) with
  | Ok (v, _, st) => Ok (v, cm st) | Err e => Err e | Panic x => Panic x | OutOfFuel => OutOfFuel
  end.
Proof.
  intros HF. unfold parse_items_rec. fold (init s).
  rewrite (ptop_enough_fuel (rec_fuel s)) by (unfold rec_fuel, init; cbn [rest]; lia).
  rewrite (ptop_enough_fuel F) by (unfold init; cbn [rest]; exact HF). reflexivity.
Qed.

Theorem unexpected_prefix_determinism : forall o1 o2 u c0 l0 r1 r2,
  lenient o1 o2 -> 0 < l0 ->
  parse_items o1 (map inj u ++ SOk c0 l0 :: r1) = Err (EUnexpected (blen u) (Some c0)) ->
  parse_items o2 (map inj u ++ SOk c0 l0 :: r2) = Err (EUnexpected (blen u) (Some c0)).
Proof.
  intros o1 o2 u c0 l0 r1 r2 [Htr Hin] Hl H. rewrite ParserL1.machine_eq_rec in H. rewrite ParserL1.machine_eq_rec.
  set (s1 := map inj u ++ SOk c0 l0 :: r1) in *. set (s2 := map inj u ++ SOk c0 l0 :: r2).
  set (F := (2 * length s1 + 2 * length s2 + 1)%nat).
  rewrite (rec_common_fuel o1 s1 F) in H by (unfold F; lia).
  rewrite (rec_common_fuel o2 s2 F) by (unfold F; lia).
  destruct (r_ptop o1 o2 Htr Hin r1 r2 (blen u + l0) F (init s1) (init s2)) as [_ Hrel].
  assert (HR : R r1 r2 (blen u + l0) (init s1) (init s2)).
  { exists (u ++ [(c0, l0)]). unfold init, s1, s2. cbn [rest pos cm].
    rewrite map_app, <- !app_assoc. cbn [map app inj fst snd].
    repeat split; try reflexivity. rewrite blen_app, blen_cons, blen_nil'. cbn [snd]. lia. }
  specialize (Hrel HR).
  destruct (ptop F o1 (init s1)) as [[[v i] st]|e|x|] eqn:E1; try discriminate H.
  injection H as ->. cbn [rel_res xfer] in Hrel.
  destruct (Hrel I) as [->|[[Hp _] _]]; [reflexivity|]. lia.
Qed.

(* appending a stream error to an error-free input *)
Theorem poisoned_mirror : forall o u,
  match parse_items o (map inj u) with
  | Ok r => parse_items o (map inj u ++ [SErr]) = Ok r \/
            parse_items o (map inj u ++ [SErr]) = Err (EStream (blen u))
  | Err e => (forall p, e <> EStream p) ->
             parse_items o (map inj u ++ [SErr]) = Err e \/
             (parse_items o (map inj u ++ [SErr]) = Err (EStream (blen u)) /\
              exists p, e = EUnexpected p None /\ blen u <= p)
  | _ => True
  end.
Proof.
  intros o u. rewrite !ParserL1.machine_eq_rec.
  set (s2 := map inj u ++ [SErr]). set (s1 := map inj u).
  set (F := (2 * length s1 + 2 * length s2 + 1)%nat).
  rewrite (rec_common_fuel o s1 F) by (unfold F; lia).
  rewrite (rec_common_fuel o s2 F) by (unfold F; lia).
  destruct (r_ptop o o (fun H => H) (fun H => H) [] [SErr] (blen u) F (init s1) (init s2)) as [_ Hrel].
  assert (HR : R [] [SErr] (blen u) (init s1) (init s2)).
  { exists u. unfold init, s1, s2. cbn [rest pos cm]. rewrite app_nil_r. repeat split; try reflexivity. }
  specialize (Hrel HR).
  destruct (ptop F o (init s1)) as [[[v i] st]|e|x|] eqn:E1; try exact I; cbn [rel_res] in Hrel.
  - destruct Hrel as [(st2' & -> & HR')|[_ Hd]].
    + left. destruct (R_eqs _ _ _ _ _ HR') as [_ ->]. reflexivity.
    + right. rewrite (Hd [] eq_refl). reflexivity.
  - intros Hne. assert (Hx : xfer o o e) by (destruct e; cbn; auto; exfalso; eapply Hne; reflexivity).
    destruct (Hrel Hx) as [->|[Hpe Hd]]; [left; reflexivity|]. right. split; [rewrite (Hd [] eq_refl); reflexivity|].
    destruct e as [q|q c|? ? ?|? ? ?|? ? ? ?|q]; cbn [PastE] in Hpe; try (exfalso; apply Hpe; reflexivity).
    + exfalso. eapply Hne. reflexivity.
    + destruct Hpe as [Hp1 Hp2]. exists q. rewrite (Hp2 eq_refl). split; [reflexivity|exact Hp1].
Qed.

Print Assumptions option_independence.
Print Assumptions unexpected_prefix_determinism.
Print Assumptions poisoned_mirror.
