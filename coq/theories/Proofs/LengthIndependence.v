(* Proofs/LengthIndependence.v -- what a document denotes does not depend on the lengths its
   characters declare.

   A source is a list of (character, declared length) items; the declared lengths only enter the
   spans of the code map (and the positions of errors).  Two sources with the same characters --
   the UTF-8 reading of a text, its UTF-16 reading through `DecodedChar::new(c, 2 * c.len_utf16())`,
   a source declaring 0 or 2^32 for every character -- are accepted together and denote the same
   value, with code maps of the same shape. *)
From JsonSyntax Require Import Base.Prelude Base.Value Base.Unicode Base.Source Spec.Grammar
  Model.Parser Model.EntryPoints Proofs.ParserSoundLex Proofs.ParserSpec.

(* ---------------- lists of items with the same characters ---------------- *)
Lemma cps_app_inv : forall (a b t' : list item), cps t' = cps (a ++ b) ->
  exists a' b', t' = a' ++ b' /\ cps a' = cps a /\ cps b' = cps b.
Proof.
  induction a as [|x a IH]; intros b t' H.
  - exists [], t'. split; [reflexivity|]. split; [reflexivity | exact H].
  - destruct t' as [|x' t']; [discriminate H|]. cbn in H. injection H as Hx Ht.
    destruct (IH b t' Ht) as (a' & b' & -> & Ha & Hb).
    exists (x' :: a'), b'. split; [reflexivity|]. split; [|exact Hb]. cbn. rewrite Hx. unfold cps in Ha. rewrite Ha. reflexivity.
Qed.

Lemma cps_cons_inv : forall (x : item) r t', cps t' = cps (x :: r) ->
  exists x' r', t' = x' :: r' /\ fst x' = fst x /\ cps r' = cps r.
Proof.
  intros x r t' H. destruct t' as [|x' r']; [discriminate H|]. cbn in H. injection H as Hx Hr.
  exists x', r'. split; [reflexivity|]. split; assumption.
Qed.

Lemma cps_snoc_inv : forall t (x : item) t', cps t' = cps (t ++ [x]) ->
  exists t1 x', t' = t1 ++ [x'] /\ cps t1 = cps t /\ fst x' = fst x.
Proof.
  intros t x t' H. destruct (cps_app_inv t [x] t' H) as (a' & b' & -> & Ha & Hb).
  destruct (cps_cons_inv x [] b' Hb) as (x' & r' & -> & Hx & Hr).
  destruct r'; [|discriminate Hr]. exists a', x'. split; [reflexivity|]. split; assumption.
Qed.

Lemma ws_cps : forall w w', ws w -> cps w' = cps w -> ws w'.
Proof.
  unfold ws. induction w as [|x w IH]; intros w' H E.
  - destruct w'; [constructor | discriminate E].
  - destruct w' as [|x' w']; [discriminate E|]. cbn in E. injection E as Ex Ew.
    inversion H; subst. constructor; [rewrite Ex; assumption | apply IH; assumption].
Qed.

Lemma shift_length d m : length (shift d m) = length m.
Proof. unfold shift. apply map_length. Qed.

(* ---------------- the grammar ---------------- *)
Section Grammar.
  Variable o : opts.

  Let Pv (t : list item) (v : value) (m : list cme) (_ : jv o t v m) :=
    forall t', cps t' = cps t -> exists m', jv o t' v m' /\ length m' = length m.
  Let Pi (t : list item) (vs : list value) (m : list cme) (_ : jitems o t vs m) :=
    forall t', cps t' = cps t -> exists m', jitems o t' vs m' /\ length m' = length m.
  Let Pm (t : list item) (es : list (list N * value)) (m : list cme) (_ : jmembers o t es m) :=
    forall t', cps t' = cps t -> exists m', jmembers o t' es m' /\ length m' = length m.
  Let Pe (t : list item) (k : list N) (v : value) (m : list cme) (_ : jentry o t k v m) :=
    forall t', cps t' = cps t -> exists m', jentry o t' k v m' /\ length m' = length m.

  Lemma grammar_relength :
    (forall t v m (d : jv o t v m), Pv t v m d) /\
    (forall t vs m (d : jitems o t vs m), Pi t vs m d) /\
    (forall t es m (d : jmembers o t es m), Pm t es m d) /\
    (forall t k v m (d : jentry o t k v m), Pe t k v m d).
  Proof.
    apply jv_mutind; unfold Pv, Pi, Pm, Pe.
    - (* null *) intros t E t' H. eexists; split; [apply jv_null; rewrite H; exact E | reflexivity].
    - intros t E t' H. eexists; split; [apply jv_true; rewrite H; exact E | reflexivity].
    - intros t E t' H. eexists; split; [apply jv_false; rewrite H; exact E | reflexivity].
    - (* number *) intros t J t' H. rewrite <- H. eexists; split; [apply jv_num; rewrite H; exact J | reflexivity].
    - (* string *) intros t s J t' H. eexists; split; [apply jv_str; rewrite H; exact J | reflexivity].
    - (* [] *) intros lb w rb Hl Hr Hw t' H.
      destruct (cps_cons_inv lb (w ++ [rb]) t' H) as (lb' & r' & -> & Hlb & Hr').
      destruct (cps_snoc_inv w rb r' Hr') as (w' & rb' & -> & Hw' & Hrb).
      eexists; split; [apply jv_arr0; [rewrite Hlb; exact Hl | rewrite Hrb; exact Hr | exact (ws_cps w w' Hw Hw')] | reflexivity].
    - (* [items] *) intros lb t rb vs m Hl Hr J IH t' H.
      destruct (cps_cons_inv lb (t ++ [rb]) t' H) as (lb' & r' & -> & Hlb & Hr').
      destruct (cps_snoc_inv t rb r' Hr') as (t1 & rb' & -> & Ht1 & Hrb).
      destruct (IH t1 Ht1) as (m' & J' & L).
      eexists; split; [apply jv_arr; [rewrite Hlb; exact Hl | rewrite Hrb; exact Hr | exact J'] |].
      cbn [length]. rewrite !shift_length, L. reflexivity.
    - (* {} *) intros lb w rb Hl Hr Hw t' H.
      destruct (cps_cons_inv lb (w ++ [rb]) t' H) as (lb' & r' & -> & Hlb & Hr').
      destruct (cps_snoc_inv w rb r' Hr') as (w' & rb' & -> & Hw' & Hrb).
      eexists; split; [apply jv_obj0; [rewrite Hlb; exact Hl | rewrite Hrb; exact Hr | exact (ws_cps w w' Hw Hw')] | reflexivity].
    - (* {members} *) intros lb t rb es m Hl Hr J IH t' H.
      destruct (cps_cons_inv lb (t ++ [rb]) t' H) as (lb' & r' & -> & Hlb & Hr').
      destruct (cps_snoc_inv t rb r' Hr') as (t1 & rb' & -> & Ht1 & Hrb).
      destruct (IH t1 Ht1) as (m' & J' & L).
      eexists; split; [apply jv_obj; [rewrite Hlb; exact Hl | rewrite Hrb; exact Hr | exact J'] |].
      cbn [length]. rewrite !shift_length, L. reflexivity.
    - (* one item *) intros w1 t w2 v m H1 H2 J IH t' H.
      destruct (cps_app_inv w1 (t ++ w2) t' H) as (w1' & r' & -> & Hw1 & Hr').
      destruct (cps_app_inv t w2 r' Hr') as (t1 & w2' & -> & Ht1 & Hw2).
      destruct (IH t1 Ht1) as (m' & J' & L).
      eexists; split; [apply ji_one; [exact (ws_cps w1 w1' H1 Hw1) | exact (ws_cps w2 w2' H2 Hw2) | exact J'] |].
      rewrite !shift_length. exact L.
    - (* item, more *) intros w1 t w2 comma r v m vs ms H1 H2 Hc J IH Jr IHr t' H.
      destruct (cps_app_inv w1 (t ++ w2 ++ comma :: r) t' H) as (w1' & r1 & -> & Hw1 & Hr1).
      destruct (cps_app_inv t (w2 ++ comma :: r) r1 Hr1) as (t1 & r2 & -> & Ht1 & Hr2).
      destruct (cps_app_inv w2 (comma :: r) r2 Hr2) as (w2' & r3 & -> & Hw2 & Hr3).
      destruct (cps_cons_inv comma r r3 Hr3) as (comma' & r' & -> & Hcm & Hr').
      destruct (IH t1 Ht1) as (m' & J' & L). destruct (IHr r' Hr') as (ms' & Jr' & Lr).
      eexists; split;
        [apply ji_cons; [exact (ws_cps w1 w1' H1 Hw1) | exact (ws_cps w2 w2' H2 Hw2) | rewrite Hcm; exact Hc | exact J' | exact Jr'] |].
      rewrite !app_length, !shift_length, L, Lr. reflexivity.
    - (* one member *) intros pre e post k v m H1 H2 J IH t' H.
      destruct (cps_app_inv pre (e ++ post) t' H) as (pre' & r' & -> & Hp & Hr').
      destruct (cps_app_inv e post r' Hr') as (e1 & post' & -> & He1 & Hpo).
      destruct (IH e1 He1) as (m' & J' & L).
      eexists; split; [apply jm_one; [exact (ws_cps pre pre' H1 Hp) | exact (ws_cps post post' H2 Hpo) | exact J'] |].
      rewrite !shift_length. exact L.
    - (* member, more *) intros pre e post comma r k v m es ms H1 H2 Hc J IH Jr IHr t' H.
      destruct (cps_app_inv pre (e ++ post ++ comma :: r) t' H) as (pre' & r1 & -> & Hp & Hr1).
      destruct (cps_app_inv e (post ++ comma :: r) r1 Hr1) as (e1 & r2 & -> & He1 & Hr2).
      destruct (cps_app_inv post (comma :: r) r2 Hr2) as (post' & r3 & -> & Hpo & Hr3).
      destruct (cps_cons_inv comma r r3 Hr3) as (comma' & r' & -> & Hcm & Hr').
      destruct (IH e1 He1) as (m' & J' & L). destruct (IHr r' Hr') as (ms' & Jr' & Lr).
      eexists; split;
        [apply jm_cons; [exact (ws_cps pre pre' H1 Hp) | exact (ws_cps post post' H2 Hpo) | rewrite Hcm; exact Hc | exact J' | exact Jr'] |].
      rewrite !app_length, !shift_length, L, Lr. reflexivity.
    - (* entry *) intros kt w1 colon w2 vt k v m Jk H1 H2 Hc J IH t' H.
      destruct (cps_app_inv kt (w1 ++ colon :: w2 ++ vt) t' H) as (kt' & r1 & -> & Hk & Hr1).
      destruct (cps_app_inv w1 (colon :: w2 ++ vt) r1 Hr1) as (w1' & r2 & -> & Hw1 & Hr2).
      destruct (cps_cons_inv colon (w2 ++ vt) r2 Hr2) as (colon' & r3 & -> & Hcl & Hr3).
      destruct (cps_app_inv w2 vt r3 Hr3) as (w2' & vt' & -> & Hw2 & Hvt).
      destruct (IH vt' Hvt) as (m' & J' & L).
      eexists; split;
        [apply je; [rewrite Hk; exact Jk | exact (ws_cps w1 w1' H1 Hw1) | exact (ws_cps w2 w2' H2 Hw2) | rewrite Hcl; exact Hc | exact J'] |].
      cbn [length]. rewrite !shift_length, L. reflexivity.
  Qed.

  Theorem jtext_relength : forall s s' v m, jtext o s v m -> cps s' = cps s ->
    exists m', jtext o s' v m' /\ length m' = length m.
  Proof.
    intros s s' v m (pre & mid & post & m0 & -> & Hpre & Hpost & J & ->) H.
    destruct (cps_app_inv pre (mid ++ post) s' H) as (pre' & r' & -> & Hp & Hr').
    destruct (cps_app_inv mid post r' Hr') as (mid' & post' & -> & Hm & Hpo).
    destruct (proj1 grammar_relength mid v m0 J mid' Hm) as (m' & J' & L).
    exists (shift (blen pre') m'). split.
    - exists pre', mid', post', m'. repeat split; [exact (ws_cps pre pre' Hpre Hp) | exact (ws_cps post post' Hpost Hpo) | exact J'].
    - rewrite !shift_length. exact L.
  Qed.
End Grammar.

(* ---------------- the parser ---------------- *)
(* error-free character sources with the same characters are accepted together, with the same value and
   code maps of the same length *)
Theorem parse_value_independent_of_lengths : forall o (t t' : list item) v m,
  Forall (fun it => fst it <= 0x10FFFF) t -> cps t' = cps t ->
  parse_with o (map inj t) = Ok (v, m) ->
  exists m', parse_with o (map inj t') = Ok (v, m') /\ length m' = length m.
Proof.
  intros o t t' v m Hc E H.
  assert (Hi : forall u, items_of (map inj u) = u).
  { intros u. rewrite <- (app_nil_r (map inj u)), items_of_inj. cbn. apply app_nil_r. }
  assert (Hs : forall u, stream_ok (map inj u)).
  { intros u. unfold stream_ok. apply Forall_forall. intros x Hx. apply in_map_iff in Hx. destruct Hx as (y & <- & _). discriminate. }
  assert (Hc' : Forall (fun it => fst it <= 0x10FFFF) t').
  { apply Forall_forall. intros x Hx. apply (in_map fst) in Hx. fold (cps t') in Hx. rewrite E in Hx.
    apply in_map_iff in Hx. destruct Hx as (y & Hy & Hin). rewrite <- Hy. rewrite Forall_forall in Hc. apply Hc, Hin. }
  unfold parse_with in *.
  apply (parse_spec o (map inj t) v m (Hs t)) in H; [| unfold chars_ok; rewrite Hi; exact Hc].
  rewrite Hi in H. destruct (jtext_relength o t t' v m H E) as (m' & J' & L).
  exists m'. split; [|exact L].
  apply (parse_spec o (map inj t') v m' (Hs t')); [unfold chars_ok; rewrite Hi; exact Hc' | rewrite Hi; exact J'].
Qed.

Corollary parse_verdict_independent_of_lengths : forall o (t t' : list item),
  Forall (fun it => fst it <= 0x10FFFF) t -> cps t' = cps t ->
  ((exists v m, parse_with o (map inj t) = Ok (v, m)) <-> (exists v m, parse_with o (map inj t') = Ok (v, m))).
Proof.
  intros o t t' Hc E. split; intros (v & m & H).
  - destruct (parse_value_independent_of_lengths o t t' v m Hc E H) as (m' & H' & _). exists v, m'. exact H'.
  - assert (Hc' : Forall (fun it => fst it <= 0x10FFFF) t').
    { apply Forall_forall. intros x Hx. apply (in_map fst) in Hx. fold (cps t') in Hx. rewrite E in Hx.
      apply in_map_iff in Hx. destruct Hx as (y & Hy & Hin). rewrite <- Hy. rewrite Forall_forall in Hc. apply Hc, Hin. }
    destruct (parse_value_independent_of_lengths o t' t v m Hc' (eq_sym E) H) as (m' & H' & _). exists v, m'. exact H'.
Qed.
