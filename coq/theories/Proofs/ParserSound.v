(* Proofs/ParserSound.v -- soundness of the recursive-descent reference parser
   (Proofs/ParserRecDef.v) with respect to the annotated grammar (Spec/Grammar.v):
   whatever parse_items_rec returns is a JSON text denoting the returned value and
   carrying the returned code map. *)
From JsonSyntax Require Import Base.Prelude Base.Value Base.Unicode Model.Parser
     Proofs.ParserRecDef Spec.Grammar Proofs.ParserSoundLex.

(* ---------- Fragment::parse_in ---------- *)
Lemma parse_fragment_eq o ctx st :
  parse_fragment o ctx st =
  do (_, st1) <- skip_whitespaces st;
  do oc <- peek_char st1;
  match oc with
  | None => Err (EUnexpected (pos st1) None)
  | Some c =>
      if c =? 0x6E then do (i, st2) <- parse_null st1; Ok ((FrValue VNull, i), st2)
      else if (c =? 0x74) || (c =? 0x66) then
        do ((b, i), st2) <- parse_bool st1; Ok ((FrValue (VBool b), i), st2)
      else if c =? 0x22 then do ((s, i), st2) <- parse_string o st1; Ok ((FrValue (VStr s), i), st2)
      else if c =? 0x5B then
        do ((empty, i), st2) <- array_start st1;
        if empty then Ok ((FrValue (VArr []), i), st2) else Ok ((FrBeginArray, i), st2)
      else if c =? 0x7B then
        do ((s, i), st2) <- object_start o st1;
        match s with
        | OEmpty => Ok ((FrValue (VObj []), i), st2)
        | ONonEmpty k e => Ok ((FrBeginObject k e, i), st2)
        end
      else if is_digit c || (c =? 0x2D) then
        do ((n, i), st2) <- parse_number ctx st1; Ok ((FrValue (VNum n), i), st2)
      else Err (EUnexpected (pos st1) (Some c))
  end.
Proof.
  unfold parse_fragment. destruct (skip_whitespaces st) as [[u st1]| | |]; try reflexivity. cbn [obind].
  destruct (peek_char st1) as [oc| | |]; try reflexivity. cbn [obind].
  destruct oc as [[|q]|]; try reflexivity. lit_cases q.
Qed.

Definition frag_post (o : opts) (st : pstate) (w : list item) (fr : frag) (st' : pstate) : Prop :=
  match fr with
  | FrValue v =>
      exists t, jv o t v [(0, blen t, 1)] /\ reads st (w ++ t) st' /\
                cm st' = cm st ++ [(pos st + blen w, pos st + blen w + blen t, 1)]
  | FrBeginArray =>
      exists lb w2, fst lb = 0x5B /\ ws w2 /\ reads st (w ++ lb :: w2) st' /\
                    cm st' = cm st ++ [(pos st + blen w, pos st + blen w, 0)]
  | FrBeginObject k e =>
      exists lb w2 kt w1 colon,
        fst lb = 0x7B /\ ws w2 /\ jstr o (cps kt) k /\ ws w1 /\ fst colon = 0x3A /\
        reads st (w ++ (lb :: w2) ++ kt ++ w1 ++ [colon]) st' /\
        e = N.of_nat (length (cm st)) + 1 /\
        cm st' = cm st ++ [(pos st + blen w, pos st + blen w, 0);
                           (pos st + blen w + blen (lb :: w2), pos st + blen w + blen (lb :: w2), 0);
                           (pos st + blen w + blen (lb :: w2), pos st + blen w + blen (lb :: w2) + blen kt, 1)]
  end.

Lemma frag_value o st w st1 t v st2 :
  reads st w st1 -> cm st1 = cm st -> jv o t v [(0, blen t, 1)] -> reads st1 t st2 ->
  cm st2 = cm st1 ++ [(pos st1, pos st1 + blen t, 1)] -> frag_post o st w (FrValue v) st2.
Proof.
  intros R1 C1 Hv R2 C2. exists t. split; [exact Hv|]. split; [exact (reads_trans _ _ _ _ _ R1 R2)|].
  rewrite C2, C1. destruct R1 as [_ ->]. reflexivity.
Qed.

Lemma parse_fragment_ok o ctx st fr i st' :
  parse_fragment o ctx st = Ok ((fr, i), st') -> good (rest st) ->
  exists w, ws w /\ i = N.of_nat (length (cm st)) /\ frag_post o st w fr st'.
Proof.
  rewrite parse_fragment_eq. intros H G. dbind H x Hx. destruct x as [u st1].
  apply skip_whitespaces_ok in Hx as (w & Hw & R1 & C1). pose proof (reads_good _ _ _ R1 G) as G1.
  dbind H oc Hp. destruct oc as [c|]; [|discriminate]. exists w. split; [exact Hw|]. rewrite <- C1.
  destruct (c =? 0x6E).
  { dbind H y Hy. destruct y as [j st2]. inversion H; subst fr i st2.
    apply parse_null_ok in Hy as (t & Ht & R2 & Hi & C2). split; [exact Hi|].
    eapply frag_value; eauto. apply jv_null. exact Ht. }
  destruct ((c =? 0x74) || (c =? 0x66)).
  { dbind H y Hy. destruct y as [[b j] st2]. inversion H; subst fr i st2.
    apply parse_bool_ok in Hy as (t & Ht & R2 & Hi & C2). split; [exact Hi|].
    eapply frag_value; eauto. destruct b; [apply jv_true|apply jv_false]; exact Ht. }
  destruct (c =? 0x22).
  { dbind H y Hy. destruct y as [[s j] st2]. inversion H; subst fr i st2.
    apply parse_string_ok in Hy as (t & Ht & R2 & Hi & C2); [|exact G1]. split; [exact Hi|].
    eapply frag_value; eauto. apply jv_str. exact Ht. }
  destruct (c =? 0x5B).
  { dbind H y Hy. destruct y as [[b j] st2].
    apply array_start_ok in Hy as (Hi & lb & w2 & Hlb & Hw2 & Hb). destruct b; inversion H; subst fr i st2.
    - destruct Hb as (rb & Hrb & R2 & C2). split; [exact Hi|].
      eapply frag_value; eauto. apply jv_arr0; assumption.
    - destruct Hb as (R2 & C2). split; [exact Hi|]. exists lb, w2. split; [exact Hlb|]. split; [exact Hw2|].
      split; [exact (reads_trans _ _ _ _ _ R1 R2)|]. rewrite C2, C1. destruct R1 as [_ ->]. reflexivity. }
  destruct (c =? 0x7B).
  { dbind H y Hy. destruct y as [[s j] st2].
    apply object_start_ok in Hy as (Hi & lb & w2 & Hlb & Hw2 & Hb); [|exact G1].
    destruct s as [|k e]; inversion H; subst fr i st2.
    - destruct Hb as (rb & Hrb & R2 & C2). split; [exact Hi|].
      eapply frag_value; eauto. apply jv_obj0; assumption.
    - destruct Hb as (kt & w1 & colon & Hk & Hw1 & Hcol & R2 & He & C2). split; [exact Hi|].
      exists lb, w2, kt, w1, colon. split; [exact Hlb|]. split; [exact Hw2|]. split; [exact Hk|].
      split; [exact Hw1|]. split; [exact Hcol|].
      split; [eapply reads_eq; [exact (reads_trans _ _ _ _ _ R1 R2)|la]|]. split; [rewrite He, C1; reflexivity|].
      rewrite C2, C1. destruct R1 as [_ ->]. reflexivity. }
  destruct (is_digit c || (c =? 0x2D)); [|discriminate].
  dbind H y Hy. destruct y as [[n j] st2]. inversion H; subst fr i st2.
  apply parse_number_ok in Hy as (t & -> & Ht & R2 & Hi & C2). split; [exact Hi|].
  eapply frag_value; eauto. apply jv_num. exact Ht.
Qed.

(* ---------- auxiliary grammar notions: the rest of a container after an item ---------- *)
Inductive atail (o : opts) : list item -> list value -> list cme -> Prop :=
| at_end w rb : ws w -> fst rb = 0x5D -> atail o (w ++ [rb]) [] []
| at_cons w comma t rb vs m : ws w -> fst comma = 0x2C -> jitems o t vs m -> fst rb = 0x5D ->
    atail o (w ++ comma :: t ++ [rb]) vs (shift (blen w + snd comma) m).

Inductive mtail (o : opts) : list item -> list entry -> list cme -> Prop :=
| mt_end w rb : ws w -> fst rb = 0x7D -> mtail o (w ++ [rb]) [] []
| mt_cons w comma t rb es m : ws w -> fst comma = 0x2C -> jmembers o t es m -> fst rb = 0x7D ->
    mtail o (w ++ comma :: t ++ [rb]) es (shift (blen w + snd comma) m).

Lemma ji_eq o t v m t' m' : jitems o t' v m' -> t' = t -> m' = m -> jitems o t v m.
Proof. intros H -> ->; exact H. Qed.
Lemma jm_eq' o t v m t' m' : jmembers o t' v m' -> t' = t -> m' = m -> jmembers o t v m.
Proof. intros H -> ->; exact H. Qed.

Lemma shift_nil d : shift d [] = [].
Proof. reflexivity. Qed.
Lemma shift_cons d a b v l : shift d ((a, b, v) :: l) = (a + d, b + d, v) :: shift d l.
Proof. reflexivity. Qed.

Lemma atail_items o w1 t v m tl vs ms :
  ws w1 -> jv o t v m -> atail o tl vs ms ->
  exists t' rb, w1 ++ t ++ tl = t' ++ [rb] /\ fst rb = 0x5D /\
                jitems o t' (v :: vs) (shift (blen w1) m ++ shift (blen (w1 ++ t)) ms).
Proof.
  intros Hw1 Hv Ht. destruct Ht as [w rb Hw Hrb | w comma t0 rb vs m0 Hw Hc Hji Hrb].
  - exists (w1 ++ t ++ w), rb. split; [la|]. split; [exact Hrb|].
    rewrite shift_nil, app_nil_r. apply ji_one; assumption.
  - exists (w1 ++ t ++ w ++ comma :: t0), rb. split; [la|]. split; [exact Hrb|].
    eapply ji_eq; [apply (ji_cons o w1 t w comma t0 v m vs m0); assumption|reflexivity|].
    f_equal. rewrite shift_shift. apply shift_ext. blia.
Qed.

Lemma mtail_members o pre et k v m tl es ms :
  ws pre -> jentry o et k v m -> mtail o tl es ms ->
  exists t' rb, pre ++ et ++ tl = t' ++ [rb] /\ fst rb = 0x7D /\
                jmembers o t' ((k, v) :: es) (shift (blen pre) m ++ shift (blen (pre ++ et)) ms).
Proof.
  intros Hpre He Ht. destruct Ht as [w rb Hw Hrb | w comma t0 rb es m0 Hw Hc Hjm Hrb].
  - exists (pre ++ et ++ w), rb. split; [la|]. split; [exact Hrb|].
    rewrite shift_nil, app_nil_r. apply jm_one; assumption.
  - exists (pre ++ et ++ w ++ comma :: t0), rb. split; [la|]. split; [exact Hrb|].
    eapply jm_eq'; [apply (jm_cons o pre et w comma t0 k v m es m0); assumption|reflexivity|].
    f_equal. rewrite shift_shift. apply shift_ext. blia.
Qed.

Lemma jitems_ws_pre o w t vs m : ws w -> jitems o t vs m -> jitems o (w ++ t) vs (shift (blen w) m).
Proof.
  intros Hw H. destruct H as [w1 t w2 v m Hw1 Hw2 Hv | w1 t w2 comma r v m vs ms Hw1 Hw2 Hc Hv Hr].
  - eapply ji_eq; [apply (ji_one o (w ++ w1) t w2 v m); [apply ws_app; assumption|assumption..]|la|].
    rewrite shift_shift. apply shift_ext. blia.
  - eapply ji_eq; [apply (ji_cons o (w ++ w1) t w2 comma r v m vs ms); [apply ws_app; assumption|assumption..]|la|].
    rewrite shift_app, !shift_shift. f_equal; apply shift_ext; blia.
Qed.

(* ---------- the statements proved by induction on fuel ---------- *)
Definition pvalue_spec (f : nat) : Prop :=
  forall o ctx st v i st', pvalue f o ctx st = Ok ((v, i), st') -> good (rest st) ->
    exists w t m, ws w /\ jv o t v m /\ reads st (w ++ t) st' /\
                  i = N.of_nat (length (cm st)) /\ cm st' = cm st ++ shift (pos st + blen w) m.

Definition parr_items_spec (f : nat) : Prop :=
  forall o a i st v i' st', parr_items f o a i st = Ok ((v, i'), st') -> good (rest st) ->
    exists t rb vs m, jitems o t vs m /\ fst rb = 0x5D /\ reads st (t ++ [rb]) st' /\
                      v = VArr (a ++ vs) /\ i' = i /\
                      cm st' = close_at i (pos st') (cm st ++ shift (pos st) m).

Definition parr_cont_spec (f : nat) : Prop :=
  forall o a i st v i' st', parr_cont f o a i st = Ok ((v, i'), st') -> good (rest st) ->
    exists tl vs m, atail o tl vs m /\ reads st tl st' /\ v = VArr (a ++ vs) /\ i' = i /\
                    cm st' = close_at i (pos st') (cm st ++ shift (pos st) m).

Definition pobj_entry_spec (f : nat) : Prop :=
  forall o es i k e st v i' st', pobj_entry f o es i k e st = Ok ((v, i'), st') -> good (rest st) ->
    exists w2 vt v1 m1 tl es' ms,
      ws w2 /\ jv o vt v1 m1 /\ mtail o tl es' ms /\ reads st (w2 ++ vt ++ tl) st' /\
      v = VObj (es ++ (k, v1) :: es') /\ i' = i /\
      cm st' = close_at i (pos st')
                 (close_at e (pos st + blen (w2 ++ vt)) (cm st ++ shift (pos st + blen w2) m1)
                  ++ shift (pos st + blen (w2 ++ vt)) ms).

Definition pobj_cont_spec (f : nat) : Prop :=
  forall o es i st v i' st', pobj_cont f o es i st = Ok ((v, i'), st') -> good (rest st) ->
    exists tl es' ms, mtail o tl es' ms /\ reads st tl st' /\ v = VObj (es ++ es') /\ i' = i /\
                      cm st' = close_at i (pos st') (cm st ++ shift (pos st) ms).

(* ---------- arrays ---------- *)
Lemma parr_items_step f : pvalue_spec f -> parr_cont_spec f -> parr_items_spec (S f).
Proof.
  intros IHv IHc o a i st v i' st' H G. cbn [parr_items] in H.
  dbind H x Hx. destruct x as [[v1 j] st1].
  destruct (IHv _ _ _ _ _ _ Hx G) as (w1 & t1 & m1 & Hw1 & Hv1 & R1 & _ & C1).
  destruct (IHc _ _ _ _ _ _ _ H (reads_good _ _ _ R1 G)) as (tl & vs & ms & Htl & R2 & -> & -> & C2).
  destruct (atail_items _ _ _ _ _ _ _ _ Hw1 Hv1 Htl) as (t' & rb & Ht' & Hrb & Hji).
  exists t', rb, (v1 :: vs), (shift (blen w1) m1 ++ shift (blen (w1 ++ t1)) ms).
  split; [exact Hji|]. split; [exact Hrb|].
  split; [eapply reads_eq; [exact (reads_trans _ _ _ _ _ R1 R2)|rewrite <- app_assoc; exact Ht']|].
  split; [la|]. split; [reflexivity|].
  rewrite C2, C1. f_equal. rewrite <- app_assoc. f_equal. rewrite shift_app, !shift_shift.
  destruct R1 as [_ ->]. f_equal; apply shift_ext; blia.
Qed.

Lemma parr_cont_step f : parr_items_spec f -> parr_cont_spec (S f).
Proof.
  intros IHi o a i st v i' st' H G. cbn [parr_cont] in H.
  dbind H x Hx. destruct x as [b st1].
  apply array_continue_ok in Hx as (w & x & Hw & R1 & Hb). destruct b.
  - destruct Hb as [Hx C1].
    destruct (IHi _ _ _ _ _ _ _ H (reads_good _ _ _ R1 G)) as (t & rb & vs & m & Hji & Hrb & R2 & -> & -> & C2).
    exists (w ++ x :: t ++ [rb]), vs, (shift (blen w + snd x) m).
    split; [apply at_cons; assumption|].
    split; [eapply reads_eq; [exact (reads_trans _ _ _ _ _ R1 R2)|la]|].
    split; [reflexivity|]. split; [reflexivity|].
    rewrite C2, C1. f_equal. f_equal. rewrite shift_shift. destruct R1 as [_ ->]. apply shift_ext. blia.
  - destruct Hb as [Hx C1]. inversion H; subst v i' st1.
    exists (w ++ [x]), [], []. split; [apply at_end; assumption|]. split; [exact R1|].
    split; [rewrite app_nil_r; reflexivity|]. split; [reflexivity|].
    rewrite shift_nil, app_nil_r. exact C1.
Qed.

(* ---------- objects ---------- *)
Lemma reads_same b b' t c : rest b' = rest b -> pos b' = pos b -> reads b' t c -> reads b t c.
Proof. intros E1 E2 [Ra Rb]. split; [rewrite <- E1; exact Ra|rewrite <- E2; exact Rb]. Qed.

(* closing the entry fragment reserved before the key *)
Lemma entry_close o C pk kt w1 colon w2 vt k v1 m1 p :
  jstr o (cps kt) k -> ws w1 -> fst colon = 0x3A -> ws w2 -> jv o vt v1 m1 ->
  p = pk + blen (kt ++ w1 ++ [colon]) ->
  exists me, jentry o (kt ++ w1 ++ colon :: w2 ++ vt) k v1 me /\
    close_at (N.of_nat (length C)) (p + blen (w2 ++ vt))
      ((C ++ [(pk, pk, 0); (pk, pk + blen kt, 1)]) ++ shift (p + blen w2) m1) = C ++ shift pk me.
Proof.
  intros Hk Hw1 Hc Hw2 Hv Hp. eexists. split; [apply je; eassumption|].
  rewrite <- app_assoc. cbn [app]. rewrite close_at_app. f_equal. rewrite !shift_cons. f_equal.
  - apply cme3; [lia|blia|]. cbn [length]. rewrite shift_length. unfold vol. lia.
  - f_equal; [apply cme3; lia|]. rewrite shift_shift. apply shift_ext. blia.
Qed.

Lemma pobj_entry_step f : pvalue_spec f -> pobj_cont_spec f -> pobj_entry_spec (S f).
Proof.
  intros IHv IHc o es i k e st v i' st' H G. cbn [pobj_entry] in H.
  dbind H x Hx. destruct x as [[v1 j] st1]. dbind H y Hy. destruct y as [u st2].
  destruct (IHv _ _ _ _ _ _ Hx G) as (w2 & vt & m1 & Hw2 & Hv1 & R1 & _ & C1).
  apply end_fragment_ok in Hy as (E1 & E2 & E3).
  assert (G2 : good (rest st2)) by (rewrite E1; exact (reads_good _ _ _ R1 G)).
  destruct (IHc _ _ _ _ _ _ _ H G2) as (tl & es' & ms & Htl & R2 & -> & -> & C2).
  exists w2, vt, v1, m1, tl, es', ms. split; [exact Hw2|]. split; [exact Hv1|]. split; [exact Htl|].
  split; [eapply reads_eq; [exact (reads_trans _ _ _ _ _ R1 (reads_same _ _ _ _ E1 E2 R2))|la]|].
  split; [la|]. split; [reflexivity|].
  rewrite C2, E3, E2, C1. destruct R1 as [_ ->]. reflexivity.
Qed.

Lemma pobj_cont_step f : pobj_entry_spec f -> pobj_cont_spec (S f).
Proof.
  intros IHe o es i st v i' st' H G. cbn [pobj_cont] in H.
  dbind H x Hx. destruct x as [next st1].
  apply object_continue_ok in Hx as (post & x & Hpost & Hn); [|exact G]. destruct next as [[k e]|].
  - destruct Hn as (Hx & pre & kt & w1 & colon & Hpre & Hk & Hw1 & Hcol & R1 & He & C1).
    destruct (IHe _ _ _ _ _ _ _ _ _ H (reads_good _ _ _ R1 G))
      as (w2 & vt & v1 & m1 & tl & es' & ms & Hw2 & Hv1 & Htl & R2 & -> & -> & C2).
    destruct (entry_close o (cm st) (pos st + blen (post ++ x :: pre)) kt w1 colon w2 vt k v1 m1 (pos st1)
                Hk Hw1 Hcol Hw2 Hv1) as (me & Hje & Hclose).
    { destruct R1 as [_ ->]. blia. }
    destruct (mtail_members _ _ _ _ _ _ _ _ _ Hpre Hje Htl) as (t' & rb & Ht' & Hrb & Hjm).
    exists (post ++ x :: t' ++ [rb]), ((k, v1) :: es'),
           (shift (blen post + snd x) (shift (blen pre) me ++ shift (blen (pre ++ kt ++ w1 ++ colon :: w2 ++ vt)) ms)).
    split; [apply mt_cons; assumption|].
    split.
    { eapply reads_eq; [exact (reads_trans _ _ _ _ _ R1 R2)|].
      transitivity (post ++ x :: (pre ++ (kt ++ w1 ++ colon :: w2 ++ vt) ++ tl)); [la|]. do 2 f_equal. exact Ht'. }
    split; [reflexivity|]. split; [reflexivity|].
    rewrite C2. subst e. rewrite C1.
    match goal with |- close_at _ _ (?X ++ _) = _ =>
      assert (HX : X = cm st ++ shift (pos st + blen (post ++ x :: pre)) me) by exact Hclose; rewrite HX end.
    f_equal. rewrite <- app_assoc. f_equal.
    rewrite !shift_app, !shift_shift. destruct R1 as [_ Rb]. f_equal; apply shift_ext; blia.
  - destruct Hn as (Hx & R1 & C1). inversion H; subst v i' st1.
    exists (post ++ [x]), [], []. split; [apply mt_end; assumption|]. split; [exact R1|].
    split; [rewrite app_nil_r; reflexivity|]. split; [reflexivity|].
    rewrite shift_nil, app_nil_r. exact C1.
Qed.

(* ---------- values ---------- *)
Lemma pvalue_step f : parr_items_spec f -> pobj_entry_spec f -> pvalue_spec (S f).
Proof.
  intros IHa IHo o ctx st v i st' H G. cbn [pvalue] in H.
  dbind H x Hx. destruct x as [[fr j] st1].
  apply parse_fragment_ok in Hx as (w & Hw & Hj & Hpost); [|exact G].
  destruct fr as [v0| |k e]; cbn [frag_post] in Hpost.
  - injection H as -> -> ->. destruct Hpost as (t & Hv & R & C).
    exists w, t, [(0, blen t, 1)]. split; [exact Hw|]. split; [exact Hv|]. split; [exact R|].
    split; [exact Hj|]. rewrite C, shift_cons, shift_nil. do 2 f_equal. apply cme3; lia.
  - destruct Hpost as (lb & w2 & Hlb & Hw2 & R & C).
    destruct (IHa _ _ _ _ _ _ _ H (reads_good _ _ _ R G)) as (t & rb & vs & m & Hji & Hrb & R2 & -> & -> & C2).
    pose proof (jitems_ws_pre _ _ _ _ _ Hw2 Hji) as Hji'.
    exists w, (lb :: (w2 ++ t) ++ [rb]), ((0, blen (lb :: (w2 ++ t) ++ [rb]), 1 + vol (shift (blen w2) m))
                                            :: shift (snd lb) (shift (blen w2) m)).
    split; [exact Hw|]. split; [apply jv_arr; assumption|].
    split; [eapply reads_eq; [exact (reads_trans _ _ _ _ _ R R2)|la]|]. split; [exact Hj|].
    rewrite C2, C, <- app_assoc. cbn [app]. subst j. rewrite close_at_app. f_equal.
    rewrite shift_cons. destruct R as [_ Rb]. destruct R2 as [_ Rb2]. f_equal.
    + apply cme3; [lia|blia|]. unfold vol. rewrite !shift_length. lia.
    + rewrite !shift_shift. apply shift_ext. blia.
  - destruct Hpost as (lb & w2 & kt & w1 & colon & Hlb & Hw2 & Hk & Hw1 & Hcol & R & He & C).
    destruct (IHo _ _ _ _ _ _ _ _ _ H (reads_good _ _ _ R G))
      as (w3 & vt & v1 & m1 & tl & es' & ms & Hw3 & Hv1 & Htl & R2 & -> & -> & C2).
    set (p0 := pos st + blen w) in *.
    destruct (entry_close o (cm st ++ [(p0, p0, 0)]) (p0 + blen (lb :: w2)) kt w1 colon w3 vt k v1 m1 (pos st1)
                Hk Hw1 Hcol Hw3 Hv1) as (me & Hje & Hclose).
    { destruct R as [_ ->]. unfold p0. blia. }
    destruct (mtail_members _ _ _ _ _ _ _ _ _ Hw2 Hje Htl) as (t' & rb & Ht' & Hrb & Hjm).
    eexists w, (lb :: t' ++ [rb]), _.
    split; [exact Hw|]. split; [apply jv_obj; eassumption|].
    split.
    { eapply reads_eq; [exact (reads_trans _ _ _ _ _ R R2)|].
      transitivity (w ++ lb :: (w2 ++ (kt ++ w1 ++ colon :: w3 ++ vt) ++ tl)); [la|]. do 2 f_equal. exact Ht'. }
    split; [exact Hj|].
    assert (He' : e = N.of_nat (length (cm st ++ [(p0, p0, 0)]))) by (rewrite app_length; cbn [length]; lia).
    rewrite C2, He', C.
    match goal with |- close_at _ _ (?X ++ _) = _ =>
      assert (HX : X = (cm st ++ [(p0, p0, 0)]) ++ shift (p0 + blen (lb :: w2)) me)
        by (etransitivity; [|exact Hclose]; f_equal; rewrite <- !app_assoc; reflexivity);
      rewrite HX end.
    rewrite <- !app_assoc. cbn [app]. subst j. rewrite close_at_app. f_equal.
    rewrite shift_cons. apply (f_equal blen) in Ht'. destruct R as [_ Rb]. destruct R2 as [_ Rb2]. f_equal.
    + apply cme3; [lia|unfold p0 in *; blia|]. unfold vol. rewrite !app_length, !shift_length. lia.
    + rewrite !shift_app, !shift_shift. unfold p0. f_equal; apply shift_ext; blia.
Qed.

Theorem rec_specs f :
  pvalue_spec f /\ parr_items_spec f /\ parr_cont_spec f /\ pobj_entry_spec f /\ pobj_cont_spec f.
Proof.
  induction f as [|f (IHv & IHai & IHac & IHoe & IHoc)].
  - repeat split; intro; intros; discriminate.
  - split; [apply pvalue_step; assumption|]. split; [apply parr_items_step; assumption|].
    split; [apply parr_cont_step; assumption|]. split; [apply pobj_entry_step; assumption|].
    apply pobj_cont_step; assumption.
Qed.

(* ---------- the top level ---------- *)
Lemma good_of_items s : Forall (fun it => fst it <= 0x10FFFF) (items_of s) -> good s.
Proof.
  induction s as [|[c len|] r IH]; cbn [items_of]; intros H.
  - constructor.
  - constructor; [exact (Forall_inv H)|apply IH; exact (Forall_inv_tail H)].
  - constructor; [exact I|apply IH; exact H].
Qed.

(* Code points of a stream stand for Rust `char`s, hence are at most 0x10FFFF; the grammar's
   [unescaped] has this bound, the model's string loop does not check it (see
   rec_sound_unbounded_refuted below): this is the second hypothesis. *)
Theorem rec_sound : forall o s v m,
  stream_ok s -> Forall (fun it => fst it <= 0x10FFFF) (items_of s) ->
  parse_items_rec o s = Ok (v, m) -> jtext o (items_of s) v m.
Proof.
  intros o s v m _ Hb H. unfold parse_items_rec in H.
  destruct (ptop (rec_fuel s) o {| rest := s; pos := 0; cm := [] |}) as [[[v0 i] st3]| | |] eqn:P; try discriminate.
  injection H as -> <-. unfold ptop in P.
  dbind P x Hx. destruct x as [[v1 j] st1]. dbind P y Hy. destruct y as [u st2].
  dbind P z Hz. destruct z as [[p oc] st3']. destruct oc as [ch|]; [discriminate|].
  injection P as -> -> ->.
  destruct (rec_specs (rec_fuel s)) as (Hv & _).
  destruct (Hv _ _ _ _ _ _ Hx (good_of_items _ Hb)) as (w & t & m0 & Hw & Hjv & R1 & _ & C1).
  apply skip_whitespaces_ok in Hy as (w' & Hw' & R2 & C2).
  apply next_char_none in Hz as [Hnil ->].
  destruct (reads_trans _ _ _ _ _ R1 R2) as [Ra _]. cbn [rest] in Ra. rewrite Hnil in Ra.
  exists w, t, w', m0. split.
  - rewrite Ra, items_of_inj. cbn [items_of]. rewrite app_nil_r, <- app_assoc. reflexivity.
  - split; [exact Hw|]. split; [exact Hw'|]. split; [exact Hjv|].
    rewrite C2, C1. cbn [cm pos app]. apply shift_ext. lia.
Qed.

(* ---------- the bound on code points is necessary ---------- *)
Lemma hexdig_bound h d : hexdig h = Some d -> h <= 0x10FFFF.
Proof.
  unfold hexdig, digit.
  destruct ((0x30 <=? h) && (h <=? 0x39)) eqn:E1; [lia|].
  destruct ((0x41 <=? h) && (h <=? 0x46)) eqn:E2; [lia|].
  destruct ((0x61 <=? h) && (h <=? 0x66)) eqn:E3; [lia|discriminate].
Qed.

Lemma elem_src_bound src x : elem_src src x -> Forall (fun c => c <= 0x10FFFF) src.
Proof.
  destruct 1 as [c Hc | l d Hin | h3 h2 h1 h0 d3 d2 d1 d0 H3 H2 H1 H0].
  - repeat constructor. unfold unescaped in Hc. lia.
  - cbn in Hin. repeat (destruct Hin as [Hin|Hin]; [inversion Hin; subst; repeat constructor; lia|]). destruct Hin.
  - repeat constructor; try lia; eapply hexdig_bound; eassumption.
Qed.

Lemma srcs_bound srcs els : Forall2 elem_src srcs els -> Forall (fun c => c <= 0x10FFFF) (concat srcs).
Proof.
  induction 1 as [|src x srcs els Hx _ IH]; cbn [concat]; [constructor|].
  apply Forall_app. split; [eapply elem_src_bound; exact Hx|exact IH].
Qed.

Definition rec_sound_unbounded_statement : Prop := forall o s v m,
  stream_ok s -> parse_items_rec o s = Ok (v, m) -> jtext o (items_of s) v m.

Theorem rec_sound_unbounded_refuted : ~ rec_sound_unbounded_statement.
Proof.
  intros Hs.
  specialize (Hs strict [SOk 0x22 1; SOk 0x110000 4; SOk 0x22 1] (VStr [0x110000]) [(0, 6, 1)]).
  destruct Hs as (pre & mid & post & m0 & Heq & Hpre & Hpost & Hjv & _).
  - repeat constructor; discriminate.
  - vm_compute. reflexivity.
  - assert (Hin : In 0x110000 (cps (pre ++ mid ++ post))).
    { rewrite <- Heq. cbn. auto. }
    assert (Hws : forall w, ws w -> ~ In 0x110000 (cps w)).
    { intros w Hw Hi. unfold cps in Hi. apply in_map_iff in Hi as (it & Hf & Hi).
      unfold ws in Hw. rewrite Forall_forall in Hw. apply Hw in Hi. rewrite Hf in Hi. vm_compute in Hi. discriminate. }
    rewrite !cps_app, !in_app_iff in Hin. destruct Hin as [Hin|[Hin|Hin]].
    + exact (Hws _ Hpre Hin).
    + inversion Hjv as [| | | |t s Hstr| | | |]; subst.
      destruct Hstr as (srcs & els & F & Hc & _). rewrite Hc in Hin.
      apply srcs_bound in F. rewrite Forall_forall in F.
      destruct Hin as [Hin|Hin]; [discriminate|]. apply in_app_iff in Hin as [Hin|Hin].
      * apply F in Hin. lia.
      * destruct Hin as [Hin|[]]. discriminate.
    + exact (Hws _ Hpost Hin).
Qed.

Print Assumptions rec_specs.
Print Assumptions rec_sound.
Print Assumptions rec_sound_unbounded_refuted.
