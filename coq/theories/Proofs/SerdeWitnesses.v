(* Proofs/SerdeWitnesses.v -- concrete instances for C17 / C18.
   1. Each remaining known class contains an input on which the faithful model contradicts
      the specification (K3: a magnitude beyond the doubles deserialises to null; K4: an
      object whose first key is the private number token is taken for a number).
   2. Non-vacuity: concrete non-trivial values satisfying every value-level premise of the
      theorems, with the evaluated results for executable instances of the two printing
      dependencies (built on the ECMAScript reference printer of Spec/EcmaNumber.v). *)
From Coq Require Import SpecFloat.
From JsonSyntax Require Import Base.Prelude Base.Value Base.Float64 Spec.Multimap
  Spec.EcmaNumber Spec.NumSpelling Spec.SerdeData Spec.SerdeJsonValue Spec.SerdeRoundTrip
  Model.SerdeValue.

(* ---------------------------------------------------------------- known classes *)
Definition w_huge_s := s2l "1e400".
Definition w_huge := VNum w_huge_s.

(* K3: visit_f64(inf) becomes Value::Null: the structure changes *)
Lemma K3_refuted fmt_lex :
  K3 w_huge = true /\ K4 w_huge = false /\
  from_value fmt_lex w_huge = Ok VNull /\ de_ok w_huge VNull = false.
Proof. vm_compute. repeat split. Qed.

(* K4: an object whose first key is the private token is taken for a number, both ways *)
Definition w_token := VObj [(number_token, VStr (s2l "12"))].

Lemma K4_refuted fmt_lex :
  wf_nums w_token = true /\ K4 w_token = true /\ K3 w_token = false /\ nodup_keysb w_token = true /\
  to_value fmt_lex w_token = Ok (VNum (s2l "12")) /\
  from_value fmt_lex w_token = Ok (VNum (s2l "12")) /\
  from_text fmt_lex w_token = Ok (VNum (s2l "12")) /\
  de_ok w_token (VNum (s2l "12")) = false.
Proof. vm_compute. repeat split. Qed.

(* ---------------------------------------------------------------- executable printers *)
(* shortest round-trip digits (ECMAScript Number::toString), adjusted to what the two real
   printers do at the edges: lexical prints -0.0 as "-0"; ryu always shows a '.' or an
   exponent ("-0.0", "100000.0") *)
Definition fmt_ref (x : spec_float) : list N :=
  match ecma_to_string x with Some s => s | None => [] end.
Definition fmt_lex_ref (x : spec_float) : list N :=
  match x with S754_zero true => [0x2D; 0x30] | _ => fmt_ref x end.
Definition fmt_ryu_ref (x : spec_float) : list N :=
  match x with
  | S754_zero true => s2l "-0.0"
  | _ => let s := fmt_ref x in if is_int64 s then s ++ s2l ".0" else s
  end.

(* ---------------------------------------------------------------- example values *)
(* three distinct keys (ASCII, U+00E9, U+10000), an array, a nested object; numbers: negative
   integer, u64::MAX, fraction, exponent without fraction, -0, fraction with exponent *)
Definition ex_inner : list (list N * value) :=
  [(s2l "k", VStr (s2l "x")); (s2l "z", VNum (s2l "2.5e-3"))].
Definition ex_arr : value :=
  VArr [VNum (s2l "18446744073709551615"); VNum (s2l "1.5"); VNum (s2l "1e5"); VNum (s2l "-0");
        VNull; VBool true].
Definition ex_v : value :=
  VObj [([0x10000], VObj ex_inner); (s2l "a", VNum (s2l "-12")); ([0xE9], ex_arr)].
(* the same with the keys "a" and U+00E9 repeated *)
Definition ex_vd : value :=
  VObj [(s2l "a", VNum (s2l "-12")); ([0xE9], ex_arr); (s2l "a", VObj ex_inner);
        ([0xE9], VNum (s2l "-0"))].

Definition ex_arr_ser : value :=
  VArr [VNum (s2l "18446744073709551615"); VNum (s2l "1.5"); VNum (s2l "1e5"); VNum (s2l "0");
        VNull; VBool true].
Definition ex_v_ser : value :=
  VObj [([0x10000], VObj ex_inner); (s2l "a", VNum (s2l "-12")); ([0xE9], ex_arr_ser)].

Example ex_ser :
  wf_nums ex_v = true /\ K4 ex_v = false /\ nodup_keysb ex_v = true /\
  neg_zero_norm ex_v = ex_v_ser /\ to_value fmt_lex_ref ex_v = Ok ex_v_ser.
Proof. vm_compute. repeat split. Qed.

Example ex_dups :
  wf_nums ex_vd = true /\ K4 ex_vd = false /\ nodup_keysb ex_vd = false /\
  ser_spec ex_vd = VObj [(s2l "a", VObj ex_inner); ([0xE9], VNum (s2l "0"))] /\
  to_value fmt_lex_ref ex_vd = Ok (ser_spec ex_vd).
Proof. vm_compute. repeat split. Qed.

(* deserialised: 1e5 respelt 100000, -0 read as the integer 0, 2.5e-3 respelt 0.0025 *)
Definition ex_v_de (neg_zero : list N) : value :=
  VObj [([0x10000], VObj [(s2l "k", VStr (s2l "x")); (s2l "z", VNum (s2l "0.0025"))]);
        (s2l "a", VNum (s2l "-12"));
        ([0xE9], VArr [VNum (s2l "18446744073709551615"); VNum (s2l "1.5"); VNum (s2l "100000");
                       VNum neg_zero; VNull; VBool true])].

Example ex_de :
  K3 ex_v = false /\ K4 ex_v = false /\
  from_value fmt_lex_ref ex_v = Ok (ex_v_de (s2l "0")) /\ de_ok ex_v (ex_v_de (s2l "0")) = true.
Proof. vm_compute. repeat split. Qed.

Example ex_de_text :
  K3 ex_v = false /\ K4 ex_v = false /\
  from_text fmt_lex_ref ex_v = Ok (ex_v_de (s2l "-0")) /\ de_ok ex_v (ex_v_de (s2l "-0")) = true.
Proof. vm_compute. repeat split. Qed.

(* the printers meet the theorems' hypotheses on the doubles that occur here *)
Example ex_printers :
  dbl (fmt_lex_ref (dbl (s2l "1e5"))) = dbl (s2l "1e5") /\
  dbl (fmt_lex_ref (dbl (s2l "2.5e-3"))) = dbl (s2l "2.5e-3") /\
  fmt_lex_ref (S754_zero true) = s2l "-0" /\
  (let s := fmt_ryu_ref (dbl (s2l "1e5")) in
   s = s2l "100000.0" /\ valid_number s = true /\ is_int64 s = false /\ dbl s = dbl (s2l "1e5")) /\
  (let x := sf_of_bits 0x1c5f367fcf16b755 in
   fmt_ryu_ref x = s2l "5.04796620613671e-172" /\ dbl (fmt_ryu_ref x) = x).
Proof. vm_compute. repeat split. Qed.

(* json-syntax -> serde_json -> json-syntax: keys come back sorted (a < U+00E9 < U+10000),
   -0 as 0, 1e5 as 100000.0 *)
Definition ex_v_detour : value :=
  VObj [(s2l "a", VNum (s2l "-12"));
        ([0xE9], VArr [VNum (s2l "18446744073709551615"); VNum (s2l "1.5"); VNum (s2l "100000.0");
                       VNum (s2l "0"); VNull; VBool true]);
        ([0x10000], VObj [(s2l "k", VStr (s2l "x")); (s2l "z", VNum (s2l "0.0025"))])].

Example ex_back_and_there :
  nodup_keysb ex_v = true /\ nums64 ex_v = true /\
  back_and_there fmt_ryu_ref ex_v = Ok ex_v_detour /\ detour_ok ex_v ex_v_detour = true.
Proof. vm_compute. repeat split. Qed.

(* a well-formed serde_json value: PosInt u64::MAX, NegInt, floats by bit pattern (1.5, a
   16-digit double with exponent -172, -0.0), nested, keys sorted *)
Definition ex_j : sj :=
  JObj [(s2l "a", JNum (PosInt 18446744073709551615));
        (s2l "b", JArr [JNum (NegInt (-5)); JNum (SFloat (sf_of_bits 0x3ff8000000000000));
                        JNum (SFloat (sf_of_bits 0x1c5f367fcf16b755)); JNull]);
        ([0xE9], JObj [(s2l "x", JStr [0x10000]);
                       (s2l "y", JNum (SFloat (sf_of_bits 0x8000000000000000)))])].

Example ex_there_and_back :
  wf_sj ex_j = true /\
  from_sj fmt_ryu_ref ex_j =
    Ok (VObj [(s2l "a", VNum (s2l "18446744073709551615"));
              (s2l "b", VArr [VNum (s2l "-5"); VNum (s2l "1.5"); VNum (s2l "5.04796620613671e-172"); VNull]);
              ([0xE9], VObj [(s2l "x", VStr [0x10000]); (s2l "y", VNum (s2l "-0.0"))])]) /\
  there_and_back fmt_ryu_ref ex_j = Ok ex_j.
Proof. vm_compute. repeat split. Qed.

(* into_serde_json on a magnitude beyond the doubles: null, no panic *)
Example ex_overflow : into_sj w_huge = Ok JNull.
Proof. vm_compute. reflexivity. Qed.

Print Assumptions K3_refuted.
Print Assumptions K4_refuted.
Print Assumptions ex_ser.
Print Assumptions ex_dups.
Print Assumptions ex_de.
Print Assumptions ex_de_text.
Print Assumptions ex_printers.
Print Assumptions ex_back_and_there.
Print Assumptions ex_there_and_back.
Print Assumptions ex_overflow.
