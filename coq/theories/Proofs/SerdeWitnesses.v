(* Proofs/SerdeWitnesses.v -- each known class of C17 / C18 contains an input on which the
   faithful model contradicts the specification.  Where the deviation sits in a dependency
   (lexical's lossy parser, serde_json's float parser) the dependency's recorded answer on
   the witness is a hypothesis of the statement; the correspondence run re-observes it. *)
From Coq Require Import SpecFloat.
From JsonSyntax Require Import Base.Prelude Base.Value Base.Float64 Spec.Multimap
  Spec.EcmaNumber Spec.NumSpelling Spec.SerdeData Spec.SerdeJsonValue Spec.SerdeRoundTrip
  Model.SerdeValue.

Definition w_exp := VNum (s2l "1e5").
Definition w_big := VNum (s2l "18446744073709551616").

(* K1: integer syntax that is not a 64-bit integer is refused by the serializer *)
Lemma K1_refuted fmt_lex :
  (wf_nums w_exp = true /\ K1 w_exp = true /\ K4 w_exp = false /\ nodup_keysb w_exp = true /\
   to_value fmt_lex w_exp = Err ECustom) /\
  (wf_nums w_big = true /\ K1 w_big = true /\ K4 w_big = false /\ nodup_keysb w_big = true /\
   to_value fmt_lex w_big = Err ECustom).
Proof. vm_compute. repeat split. Qed.

(* K2: a 27-digit decimal comes back one unit in the last place low *)
Definition w_long_s := s2l "4.14673952822385274921803532e91".
Definition w_long := VNum w_long_s.
Definition w_long_lossy_bits : Z := 5977503016536447937.
Definition w_long_printed := s2l "4.1467395282238524e91".

Lemma K2_refuted lossy fmt_lex :
  lossy w_long_s = sf_of_bits w_long_lossy_bits ->
  fmt_lex (sf_of_bits w_long_lossy_bits) = w_long_printed ->
  wf_nums w_long = true /\ K2 w_long = true /\ K3 w_long = false /\ K4 w_long = false /\
  from_value lossy fmt_lex w_long = Ok (VNum w_long_printed) /\
  de_ok w_long (VNum w_long_printed) = false /\
  sf_bits (dbl w_long_s) = (w_long_lossy_bits + 1)%Z.
Proof.
  intros H1 H2.
  assert (E : from_value lossy fmt_lex w_long = Ok (VNum w_long_printed)).
  { unfold from_value, w_long. cbn [events]. unfold number_events.
    replace (parse_u64 w_long_s) with (@None Z) by (vm_compute; reflexivity).
    replace (parse_i64 w_long_s) with (@None Z) by (vm_compute; reflexivity).
    cbn [de_value]. unfold f64_value. rewrite H1.
    replace (sf_is_finite (sf_of_bits w_long_lossy_bits)) with true by (vm_compute; reflexivity).
    rewrite H2. reflexivity. }
  repeat split; try exact E; vm_compute; reflexivity.
Qed.

(* K3: a magnitude beyond the doubles becomes null *)
Definition w_huge_s := s2l "1e400".
Definition w_huge := VNum w_huge_s.

Lemma K3_refuted lossy fmt_lex :
  lossy w_huge_s = S754_infinity false ->
  wf_nums w_huge = true /\ K3 w_huge = true /\ K2 w_huge = false /\ K4 w_huge = false /\
  from_value lossy fmt_lex w_huge = Ok VNull /\ de_ok w_huge VNull = false.
Proof.
  intros H.
  assert (E : from_value lossy fmt_lex w_huge = Ok VNull).
  { unfold from_value, w_huge. cbn [events]. unfold number_events.
    replace (parse_u64 w_huge_s) with (@None Z) by (vm_compute; reflexivity).
    replace (parse_i64 w_huge_s) with (@None Z) by (vm_compute; reflexivity).
    cbn [de_value]. unfold f64_value. rewrite H. reflexivity. }
  repeat split; try exact E; vm_compute; reflexivity.
Qed.

(* K4: an object whose first key is the private token is taken for a number, both ways *)
Definition w_token := VObj [(number_token, VStr (s2l "12"))].

Lemma K4_refuted lossy fmt_lex sj_parse :
  wf_nums w_token = true /\ K4 w_token = true /\ K1 w_token = false /\ nodup_keysb w_token = true /\
  to_value fmt_lex w_token = Ok (VNum (s2l "12")) /\
  from_value lossy fmt_lex w_token = Ok (VNum (s2l "12")) /\
  from_text fmt_lex sj_parse w_token = Ok (VNum (s2l "12")) /\
  de_ok w_token (VNum (s2l "12")) = false.
Proof. vm_compute. repeat split. Qed.

(* K5: serde_json's default float parser reads a spelling just above half the least
   subnormal as zero *)
Definition w_tiny_s := s2l "2.4703282292062328e-324".
Definition w_tiny := VNum w_tiny_s.

Lemma K5_refuted fmt_lex sj_parse :
  sj_parse w_tiny_s = Some (S754_zero false) ->
  fmt_lex (S754_zero false) = s2l "0" ->
  wf_nums w_tiny = true /\ K5 w_tiny = true /\ K3 w_tiny = false /\ K4 w_tiny = false /\
  from_text fmt_lex sj_parse w_tiny = Ok (VNum (s2l "0")) /\
  de_ok w_tiny (VNum (s2l "0")) = false /\ sf_bits (dbl w_tiny_s) = 1%Z.
Proof.
  intros H1 H2.
  assert (E : from_text fmt_lex sj_parse w_tiny = Ok (VNum (s2l "0"))).
  { unfold from_text, w_tiny. cbn [events_sj]. unfold sj_number_events.
    replace (parse_u64 w_tiny_s) with (@None Z) by (vm_compute; reflexivity).
    replace (parse_i64 w_tiny_s) with (@None Z) by (vm_compute; reflexivity).
    rewrite H1. cbn [de_value]. unfold f64_value. cbn [sf_is_finite]. rewrite H2. reflexivity. }
  repeat split; try exact E; vm_compute; reflexivity.
Qed.

(* ---------------------------------------------------------------- C18 *)
(* K3: into_serde_json panics on a magnitude beyond the doubles *)
Lemma K3_panics lossy sj_parse :
  sj_parse w_huge_s = None -> lossy w_huge_s = S754_infinity false ->
  nodup_keysb w_huge = true /\ nums64 w_huge = false /\ into_sj lossy sj_parse w_huge = Panic 2.
Proof.
  intros H1 H2. split; [reflexivity|]. split; [vm_compute; reflexivity|].
  unfold w_huge. cbn [into_sj]. unfold number_into_sj.
  replace (parse_u64 w_huge_s) with (@None Z) by (vm_compute; reflexivity).
  replace (parse_i64 w_huge_s) with (@None Z) by (vm_compute; reflexivity).
  rewrite H1, H2. reflexivity.
Qed.

(* K6: a double whose shortest spelling has 16 digits and exponent -172 comes back one unit
   in the last place high from serde_json's own parser *)
Definition w_float_bits : Z := 0x1c5f367fcf16b755.
Definition w_float := JNum (SFloat (sf_of_bits w_float_bits)).
Definition w_float_printed := s2l "5.04796620613671e-172".

Lemma K6_refuted lossy sj_parse fmt_ryu :
  fmt_ryu (sf_of_bits w_float_bits) = w_float_printed ->
  sj_parse w_float_printed = Some (sf_of_bits (w_float_bits + 1)) ->
  wf_sj w_float = true /\ K6 fmt_ryu w_float = true /\
  there_and_back lossy sj_parse fmt_ryu w_float = Ok (JNum (SFloat (sf_of_bits (w_float_bits + 1)))) /\
  sj_eqb (JNum (SFloat (sf_of_bits (w_float_bits + 1)))) w_float = false /\
  dbl w_float_printed = sf_of_bits w_float_bits.
Proof.
  intros H1 H2.
  assert (E : there_and_back lossy sj_parse fmt_ryu w_float
              = Ok (JNum (SFloat (sf_of_bits (w_float_bits + 1))))).
  { unfold there_and_back, w_float. cbn [from_sj]. unfold number_from_sj. cbn [sjnum_to_string].
    rewrite H1.
    replace (valid_number w_float_printed) with true by (vm_compute; reflexivity).
    cbn [obind into_sj]. unfold number_into_sj.
    replace (parse_u64 w_float_printed) with (@None Z) by (vm_compute; reflexivity).
    replace (parse_i64 w_float_printed) with (@None Z) by (vm_compute; reflexivity).
    rewrite H2. reflexivity. }
  split; [vm_compute; reflexivity|]. split; [cbn [K6 w_float]; rewrite H1; vm_compute; reflexivity|].
  split; [exact E|]. split; vm_compute; reflexivity.
Qed.

Print Assumptions K1_refuted.
Print Assumptions K2_refuted.
Print Assumptions K3_refuted.
Print Assumptions K4_refuted.
Print Assumptions K5_refuted.
Print Assumptions K3_panics.
Print Assumptions K6_refuted.
