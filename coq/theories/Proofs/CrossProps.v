(* Proofs/CrossProps.v -- corollaries that combine the theorems of several properties:
   C10 x C15 (the canonical form is blind to exactly what unordered equality ignores) and
   C04 x C08 x C09 (the canonical text is a strict JSON text that parses back to the
   canonicalized value). *)
From JsonSyntax Require Import Base.Prelude Base.Value Base.Unicode Model.Parser Model.EntryPoints
  Model.Printer Model.Unordered Model.Canon Spec.Minimal Spec.PermEq Spec.CanonSpec
  Proofs.UnorderedProofs Proofs.PrintGrammar Proofs.RoundTrip Proofs.PrinterProofs Proofs.PrinterTheorems
  Proofs.CanonProofs Proofs.CanonNumber.

(* two values that the implementation's unordered equality identifies have the same canonical bytes *)
Theorem canon_unordered_text : forall v w, keys_scalar v -> unordered_eq v w = true ->
  ser_min (canonicalize ref_num_canon v) = ser_min (canonicalize ref_num_canon w).
Proof.
  intros v w Hk Hu. apply canon_ref_perm_text; [exact Hk|].
  apply C15_unordered_eq_iff. exact Hu.
Qed.

(* the canonical text (compact printing of the canonicalized value) re-parses, strictly, to the
   canonicalized value *)
Theorem canonical_text_reparses : forall num_canon v, PrintGrammar.wfv (canonicalize num_canon v) ->
  exists m, parse_str (ser_min (canonicalize num_canon v)) = Ok (canonicalize num_canon v, m).
Proof.
  intros nc v Hw.
  destruct (print_parse_roundtrip compact (canonicalize nc v) Hw) as [t [m [Hp Hq]]].
  rewrite C08_compact_minimal in Hp. injection Hp as <-. exists m. exact Hq.
Qed.

(* ... and canonicalizing what it parses back to changes nothing more (with the reference conversion) *)
Theorem canonical_text_fixed_point : forall v, PrintGrammar.wfv (canonicalize ref_num_canon v) ->
  exists m w, parse_str (ser_min (canonicalize ref_num_canon v)) = Ok (w, m) /\
    canonicalize ref_num_canon w = w.
Proof.
  intros v Hw. destruct (canonical_text_reparses ref_num_canon v Hw) as [m Hm].
  exists m, (canonicalize ref_num_canon v). split; [exact Hm|].
  apply (canon_idem ref_num_canon). exact ref_num_canon_idem.
Qed.

Print Assumptions canon_unordered_text.
Print Assumptions canonical_text_reparses.
Print Assumptions canonical_text_fixed_point.
